(* C11/Proofs5.v -- from_message never runs out of fuel: the fuel
   S (length m) it hands to its three loops always suffices, because every
   iteration consumes at least one octet. *)
From Coq Require Import NArith List Bool Lia ZArith.
From Coq Require Import ZifyN ZifyBool ZifyNat.
From DV Require Import Base.Outcome Base.Bytes Base.Names Base.PName.
From DV Require Import C01.Proofs C01.Proofs3.
From DV Require Import C11.Gen C11.Model.
Import ListNotations.
Local Open Scope N_scope.
Ltac Zify.zify_post_hook ::= Z.div_mod_to_equations.

Lemma advance_inv pos lim n e : advance pos lim n = Ok e -> e = pos + n /\ (pos <= lim -> e <= lim).
Proof. unfold advance. destruct (N.ltb_spec (lim - pos) n); [discriminate|]. intros [= <-]. split; [reflexivity | lia]. Qed.
Lemma advance_no_fuel pos lim n : advance pos lim n <> OutOfFuel.
Proof. unfold advance. destruct (_ <? _); discriminate. Qed.

Lemma rd_u16_inv m pos lim r : rd_u16 m pos lim = Ok r -> snd r = pos + 2 /\ (pos <= lim -> snd r <= lim).
Proof.
  unfold rd_u16. destruct (advance pos lim 2) as [p2| | |] eqn:E; cbn [bind]; try discriminate.
  apply advance_inv in E. destruct (get m pos); [|discriminate]. destruct (get m (pos + 1)); [|discriminate].
  intros [= <-]. cbn [snd]. exact E.
Qed.
Lemma rd_u16_no_fuel m pos lim : rd_u16 m pos lim <> OutOfFuel.
Proof.
  unfold rd_u16. destruct (advance pos lim 2) as [p2| | |] eqn:E; cbn [bind]; try discriminate.
  - destruct (get m pos); [|discriminate]. destruct (get m (pos + 1)); discriminate.
  - exfalso. exact (advance_no_fuel _ _ _ E).
Qed.
Lemma rd_octets_inv m pos lim n r : rd_octets m pos lim n = Ok r -> snd r = pos + n /\ (pos <= lim -> snd r <= lim).
Proof.
  unfold rd_octets. destruct (advance pos lim n) as [p2| | |] eqn:E; cbn [bind]; try discriminate.
  apply advance_inv in E. destruct (mlen m <? p2); [discriminate|]. intros [= <-]. cbn [snd]. exact E.
Qed.
Lemma rd_octets_no_fuel m pos lim n : rd_octets m pos lim n <> OutOfFuel.
Proof.
  unfold rd_octets. destruct (advance pos lim n) as [p2| | |] eqn:E; cbn [bind]; try discriminate.
  - destruct (_ <? _); discriminate.
  - exfalso. exact (advance_no_fuel _ _ _ E).
Qed.

(* progress of the name readers: a parsed / skipped name ends behind its start *)
Lemma skip_name_progress m pos lim e : pos <= lim -> skip_name m pos lim = Ok e -> pos < e <= lim.
Proof. intros H E. rewrite skip_name_eq in E. eapply skip_labels_end; eauto. Qed.

Lemma parse_ref_progress m pos lim pn : pos <= lim -> parse_ref m pos lim = Ok pn -> pos < pn_end pn <= lim.
Proof.
  intros H E. split; [|eapply parse_ref_end; eauto].
  pose proof E as E2. rewrite parse_ref_eq in E2.
  (* what parse accepts, skip accepts, with the same end *)
  assert (S : skip_labels PARSE_FUEL m lim pos 0 = Ok (pn_end pn)).
  { eapply parse_then_skip; [|exact E2]. lia. }
  eapply skip_labels_end in S; [|exact H]. lia.
Qed.

Lemma question_parse_inv m pos lim e : pos <= lim -> question_parse m pos lim = Ok e -> pos < e <= lim.
Proof.
  intros H. unfold question_parse. destruct (parse_ref m pos lim) as [pn| | |] eqn:P; cbn [bind]; try discriminate.
  intros E. apply parse_ref_progress in P; [|exact H]. apply advance_inv in E. lia.
Qed.
Lemma question_parse_no_fuel m pos lim : question_parse m pos lim <> OutOfFuel.
Proof.
  unfold question_parse. destruct (parse_ref m pos lim) as [pn| | |] eqn:P; cbn [bind]; try discriminate.
  - apply advance_no_fuel.
  - exfalso. exact (parse_ref_no_fuel _ _ _ P).
Qed.

Lemma record_skip_inv m pos lim e : pos <= lim -> record_skip m pos lim = Ok e -> pos < e <= lim.
Proof.
  intros H. unfold record_skip.
  destruct (skip_name m pos lim) as [p1| | |] eqn:S; cbn [bind]; try discriminate.
  apply skip_name_progress in S; [|exact H].
  destruct (advance p1 lim 8) as [p2| | |] eqn:A; cbn [bind]; try discriminate. apply advance_inv in A.
  destruct (rd_u16 m p2 lim) as [r| | |] eqn:R; cbn [bind]; try discriminate. apply rd_u16_inv in R.
  intros E. apply advance_inv in E. lia.
Qed.
Lemma record_skip_no_fuel m pos lim : record_skip m pos lim <> OutOfFuel.
Proof.
  unfold record_skip.
  destruct (skip_name m pos lim) as [p1| | |] eqn:S; cbn [bind]; try discriminate.
  - destruct (advance p1 lim 8) as [p2| | |] eqn:A; cbn [bind]; try discriminate.
    + destruct (rd_u16 m p2 lim) as [r| | |] eqn:R; cbn [bind]; try discriminate.
      * apply advance_no_fuel.
      * exfalso. exact (rd_u16_no_fuel _ _ _ R).
    + exfalso. exact (advance_no_fuel _ _ _ A).
  - exfalso. exact (skip_name_no_fuel _ _ _ S).
Qed.

Lemma skip_questions_fuel : forall fuel m pos lim count, pos <= lim -> (N.to_nat (lim - pos) < fuel)%nat ->
  skip_questions fuel m pos lim count <> OutOfFuel /\
  (forall e, skip_questions fuel m pos lim count = Ok e -> pos <= e <= lim).
Proof.
  induction fuel as [|fuel IH]; intros m pos lim count H Hf; [lia|]. cbn [skip_questions].
  destruct (count =? 0); [split; [discriminate | intros e [= <-]; lia]|].
  destruct (question_parse m pos lim) as [p'| | |] eqn:Q; cbn [bind]; try (split; discriminate).
  - apply question_parse_inv in Q; [|exact H].
    destruct (IH m p' lim (count - 1) ltac:(lia) ltac:(lia)) as [I1 I2]. split; [exact I1|].
    intros e E. apply I2 in E. lia.
  - exfalso. exact (question_parse_no_fuel _ _ _ Q).
Qed.

Lemma skip_records_fuel : forall fuel m pos lim count, pos <= lim -> (N.to_nat (lim - pos) < fuel)%nat ->
  skip_records fuel m pos lim count <> OutOfFuel /\
  (forall e, skip_records fuel m pos lim count = Ok e -> pos <= e <= lim).
Proof.
  induction fuel as [|fuel IH]; intros m pos lim count H Hf; [lia|]. cbn [skip_records].
  destruct (count =? 0); [split; [discriminate | intros e [= <-]; lia]|].
  destruct (record_skip m pos lim) as [p'| | |] eqn:Q; cbn [bind]; try (split; discriminate).
  - apply record_skip_inv in Q; [|exact H].
    destruct (IH m p' lim (count - 1) ltac:(lia) ltac:(lia)) as [I1 I2]. split; [exact I1|].
    intros e E. apply I2 in E. lia.
  - exfalso. exact (record_skip_no_fuel _ _ _ Q).
Qed.

Lemma record_parse_inv m pos lim h : pos <= lim -> record_parse m pos lim = Ok h ->
  parse_ref m pos lim = Ok (rh_owner h) /\ pos < rh_next h <= lim /\ rh_data h + rh_rdlen h = rh_next h.
Proof.
  intros H. unfold record_parse.
  destruct (parse_ref m pos lim) as [pn| | |] eqn:P; cbn [bind]; try discriminate.
  pose proof (parse_ref_progress _ _ _ _ H P) as Hp.
  destruct (rd_u16 m (pn_end pn) lim) as [t| | |] eqn:R1; cbn [bind]; try discriminate. apply rd_u16_inv in R1.
  destruct (rd_u16 m (snd t) lim) as [c| | |] eqn:R2; cbn [bind]; try discriminate. apply rd_u16_inv in R2.
  destruct (rd_octets m (snd c) lim 4) as [tl| | |] eqn:R3; cbn [bind]; try discriminate. apply rd_octets_inv in R3.
  destruct (rd_u16 m (snd tl) lim) as [l| | |] eqn:R4; cbn [bind]; try discriminate. apply rd_u16_inv in R4.
  destruct (advance (snd l) lim (fst l)) as [nx| | |] eqn:A; cbn [bind]; try discriminate. apply advance_inv in A.
  intros [= <-]. cbn [rh_owner rh_next rh_data rh_rdlen]. split; [reflexivity|]. lia.
Qed.

Lemma record_parse_no_fuel m pos lim : record_parse m pos lim <> OutOfFuel.
Proof.
  unfold record_parse.
  destruct (parse_ref m pos lim) as [pn| | |] eqn:P; cbn [bind]; try discriminate;
    [|exfalso; exact (parse_ref_no_fuel _ _ _ P)].
  destruct (rd_u16 m (pn_end pn) lim) as [t| | |] eqn:R1; cbn [bind]; try discriminate;
    [|exfalso; exact (rd_u16_no_fuel _ _ _ R1)].
  destruct (rd_u16 m (snd t) lim) as [c| | |] eqn:R2; cbn [bind]; try discriminate;
    [|exfalso; exact (rd_u16_no_fuel _ _ _ R2)].
  destruct (rd_octets m (snd c) lim 4) as [tl| | |] eqn:R3; cbn [bind]; try discriminate;
    [|exfalso; exact (rd_octets_no_fuel _ _ _ _ R3)].
  destruct (rd_u16 m (snd tl) lim) as [l| | |] eqn:R4; cbn [bind]; try discriminate;
    [|exfalso; exact (rd_u16_no_fuel _ _ _ R4)].
  destruct (advance (snd l) lim (fst l)) as [nx| | |] eqn:A; cbn [bind]; try discriminate.
  exfalso; exact (advance_no_fuel _ _ _ A).
Qed.

(* Tsig::parse on a record that ParsedRecord::parse accepted: the unchecked
   label iteration over the two names (owner, algorithm) is safe because both
   were validated by parse_ref (validate-then-trust, C01 parse_ref_sound) *)
Lemma tsig_parse_no_fuel m pos lim h start : wf_bytes m -> lim <= mlen m -> pos <= lim ->
  record_parse m pos lim = Ok h -> tsig_parse m h start <> OutOfFuel.
Proof.
  intros Hw Hl Hp Hr. apply record_parse_inv in Hr; [|exact Hp]. destruct Hr as (Po & Hn & Hd).
  unfold tsig_parse. cbn zeta.
  assert (Hl' : rh_data h + rh_rdlen h <= mlen m) by lia.
  destruct (parse_ref m (rh_data h) (rh_data h + rh_rdlen h)) as [pa| | |] eqn:P; cbn [bind]; try discriminate;
    [|exfalso; exact (parse_ref_no_fuel _ _ _ P)].
  repeat match goal with
  | |- bind (rd_u16 ?a ?b ?c) _ <> _ =>
      let R := fresh "R" in destruct (rd_u16 a b c) eqn:R; cbn [bind]; try discriminate;
      [|exfalso; exact (rd_u16_no_fuel _ _ _ R)]
  | |- bind (rd_octets ?a ?b ?c ?d) _ <> _ =>
      let R := fresh "R" in destruct (rd_octets a b c d) eqn:R; cbn [bind]; try discriminate;
      [|exfalso; exact (rd_octets_no_fuel _ _ _ _ R)]
  end.
  destruct (_ <? _); [discriminate|].
  destruct (parse_ref_sound m pos lim (rh_owner h) Po Hl Hw) as (lo & Lo & _). rewrite Lo. cbn [bind].
  destruct (parse_ref_sound m (rh_data h) (rh_data h + rh_rdlen h) pa P Hl' Hw) as (la & La & _). rewrite La. cbn [bind].
  discriminate.
Qed.

Lemma find_tsig_fuel : forall fuel m pos lim count, wf_bytes m -> lim <= mlen m -> pos <= lim ->
  (N.to_nat (lim - pos) < fuel)%nat -> find_tsig fuel m pos lim count <> OutOfFuel.
Proof.
  induction fuel as [|fuel IH]; intros m pos lim count Hw Hl H Hf; [lia|]. cbn [find_tsig].
  destruct (count =? 0); [discriminate|].
  destruct (record_parse m pos lim) as [h| | |] eqn:R; cbn [to_err bind]; try discriminate;
    [|exfalso; exact (record_parse_no_fuel _ _ _ R)].
  destruct (rh_type h =? RTYPE_TSIG).
  - pose proof (tsig_parse_no_fuel m pos lim h pos Hw Hl H R) as T.
    destruct (tsig_parse m h pos); cbn [to_err bind]; try discriminate; [|congruence].
    destruct (_ && _); [discriminate|]. destruct (_ <? _); discriminate.
  - apply record_parse_inv in R; [|exact H]. destruct R as (_ & Hn & _).
    apply IH; auto; lia.
Qed.

Lemma scan_records_fuel : forall fuel m pos lim count, pos <= lim -> (N.to_nat (lim - pos) < fuel)%nat ->
  scan_records fuel m pos lim count <> OutOfFuel /\
  (forall e, scan_records fuel m pos lim count = Ok e -> pos <= e <= lim).
Proof.
  induction fuel as [|fuel IH]; intros m pos lim count H Hf; [lia|]. cbn [scan_records].
  destruct (count =? 0); [split; [discriminate | intros e [= <-]; lia]|].
  destruct (record_parse m pos lim) as [h| | |] eqn:Q; cbn [to_err bind]; try (split; discriminate).
  - apply record_parse_inv in Q; [|exact H]. destruct Q as (_ & Hn & _).
    destruct (rh_type h =? RTYPE_TSIG); [split; discriminate|].
    destruct (IH m (rh_next h) lim (count - 1) ltac:(lia) ltac:(lia)) as [I1 I2]. split; [exact I1|].
    intros e E. apply I2 in E. lia.
  - exfalso. exact (record_parse_no_fuel _ _ _ Q).
Qed.

(* MessageTsig::from_message terminates within the fuel it is given, for every
   octet string of at least header length *)
Theorem from_message_no_fuel m : wf_bytes m -> 12 <= mlen m -> from_message m <> OutOfFuel.
Proof.
  intros Hw H12. unfold from_message. cbn zeta. unfold HEADER_LEN.
  assert (Hlen : mlen m = N.of_nat (length m)) by reflexivity.
  destruct (skip_questions_fuel (S (length m)) m 12 (mlen m) (qdcount m) H12 ltac:(lia)) as [Q1 Q2].
  destruct (skip_questions (S (length m)) m 12 (mlen m) (qdcount m)) as [p1| | |] eqn:E1; cbn [to_err bind]; try discriminate; [|congruence].
  specialize (Q2 p1 eq_refl).
  destruct tsig_scan_all_sections.
  - destruct (scan_records_fuel (S (length m)) m p1 (mlen m) (ancount m) ltac:(lia) ltac:(lia)) as [A1 A2].
    destruct (scan_records (S (length m)) m p1 (mlen m) (ancount m)) as [p2| | |] eqn:E2; cbn [bind]; try discriminate; [|congruence].
    specialize (A2 p2 eq_refl).
    destruct (scan_records_fuel (S (length m)) m p2 (mlen m) (nscount m) ltac:(lia) ltac:(lia)) as [N1 N2].
    destruct (scan_records (S (length m)) m p2 (mlen m) (nscount m)) as [p3| | |] eqn:E3; cbn [bind]; try discriminate; [|congruence].
    specialize (N2 p3 eq_refl).
    apply find_tsig_fuel; auto; lia.
  - destruct (skip_records_fuel (S (length m)) m p1 (mlen m) (ancount m) ltac:(lia) ltac:(lia)) as [A1 A2].
    destruct (skip_records (S (length m)) m p1 (mlen m) (ancount m)) as [p2| | |] eqn:E2; cbn [to_err bind]; try discriminate; [|congruence].
    specialize (A2 p2 eq_refl).
    destruct (skip_records_fuel (S (length m)) m p2 (mlen m) (nscount m) ltac:(lia) ltac:(lia)) as [N1 N2].
    destruct (skip_records (S (length m)) m p2 (mlen m) (nscount m)) as [p3| | |] eqn:E3; cbn [to_err bind]; try discriminate; [|congruence].
    specialize (N2 p3 eq_refl).
  apply find_tsig_fuel; auto; lia.
Qed.

Example from_message_no_fuel_ex : from_message [0;0;0;0;0;1;255;255;0;0;0;0;1;97] = Err TE_PARSE.
Proof. vm_compute. reflexivity. Qed.
