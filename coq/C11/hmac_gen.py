#!/usr/bin/env python3
"""One-off generator of coq/C11/Hmac.v's test vector Examples (RFC 2202, RFC 4231).
Expected values are printed by Python's hmac module and equal the RFC texts."""
import hmac, hashlib
def rep(b,n): return "repeat %d %d"%(b,n)
cases2202=[("tc1",rep(0x0b,20),b"\x0b"*20,'str "Hi There"',b"Hi There"),
 ("tc2",'str "Jefe"',b"Jefe",'str "what do ya want for nothing?"',b"what do ya want for nothing?"),
 ("tc3",rep(0xaa,20),b"\xaa"*20,rep(0xdd,50),b"\xdd"*50),
 ("tc4","map N.of_nat (seq 1 25)",bytes(range(1,26)),rep(0xcd,50),b"\xcd"*50),
 ("tc5",rep(0x0c,20),b"\x0c"*20,'str "Test With Truncation"',b"Test With Truncation"),
 ("tc6",rep(0xaa,80),b"\xaa"*80,'str "Test Using Larger Than Block-Size Key - Hash Key First"',b"Test Using Larger Than Block-Size Key - Hash Key First"),
 ("tc7",rep(0xaa,80),b"\xaa"*80,'str "Test Using Larger Than Block-Size Key and Larger Than One Block-Size Data"',b"Test Using Larger Than Block-Size Key and Larger Than One Block-Size Data")]
t7=b"This is a test using a larger than block-size key and a larger than block-size data. The key needs to be hashed before being used by the HMAC algorithm."
cases4231=cases2202[:4]+[("tc5",rep(0x0c,20),b"\x0c"*20,'str "Test With Truncation"',b"Test With Truncation"),
 ("tc6",rep(0xaa,131),b"\xaa"*131,'str "Test Using Larger Than Block-Size Key - Hash Key First"',b"Test Using Larger Than Block-Size Key - Hash Key First"),
 ("tc7",rep(0xaa,131),b"\xaa"*131,'str "%s"'%t7.decode(),t7)]
out=[]
for nm,kc,k,dc,d in cases2202:
    out.append('Example rfc2202_sha1_%s : hex (hmac_sha1 (%s) (%s)) = "%s"%%string.\nProof. vm_compute. reflexivity. Qed.'%(nm,kc,dc,hmac.new(k,d,hashlib.sha1).hexdigest()))
for alg in ("sha256","sha384","sha512"):
    for nm,kc,k,dc,d in cases4231:
        out.append('Example rfc4231_%s_%s : hex (hmac_%s (%s) (%s)) = "%s"%%string.\nProof. vm_compute. reflexivity. Qed.'%(alg,nm,alg,kc,dc,hmac.new(k,d,getattr(hashlib,alg)).hexdigest()))
# key length exactly block size / one more
for alg,blk in (("sha1",64),("sha256",64),("sha384",128),("sha512",128)):
    for n in (blk,blk+1):
        out.append('Example hmac_%s_key%d : hex (hmac_%s (%s) (str "abc")) = "%s"%%string.\nProof. vm_compute. reflexivity. Qed.'%(alg,n,alg,rep(0x61,n),hmac.new(b"a"*n,b"abc",getattr(hashlib,alg)).hexdigest()))
print("\n".join(out))
