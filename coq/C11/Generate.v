(* C11/Generate.v -- Key::generate of src/tsig/mod.rs, the alternative
   constructor next to Key::new (definitions only).  [rnd] is the octet stream
   the SecureRandom delivers; rng.fill fills exactly algorithm.len() octets.
   Which of the two results of calculate_bounds lands in which field of the
   key is READ from the source by T1 (generate_bounds_swapped): the tuple is
   (min_mac_len, signing_len) and the struct literal uses field shorthand.
   rng.fill failing (GenerateKeyError::GenerationFailed) is not modelled. *)
From Coq Require Import NArith List Bool.
From DV Require Import Base.Outcome Base.Bytes Base.Names Base.PName C11.Gen C11.Model.
Import ListNotations.
Local Open Scope N_scope.

Definition key_generate (a : alg) (rnd : bytes) (nm : name) (mn sg : option N) : outcome (key * bytes) :=
  do b <- calculate_bounds a mn sg;
  let bits := firstn (N.to_nat (native_len a)) rnd in
  Ok (if generate_bounds_swapped then Key a bits nm (snd b) (fst b) else Key a bits nm (fst b) (snd b), bits).
