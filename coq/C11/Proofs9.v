(* C11/Proofs9.v -- MessageTsig::from_message's scan of the additional section
   accepts exactly: one TSIG record, and it is the last record.  Stated over a
   laid out additional section (RecordsAt: every record parses; tys are the
   record types in order). *)
From Coq Require Import NArith List Bool Lia ZArith.
From Coq Require Import ZifyN ZifyBool ZifyNat.
From DV Require Import Base.Outcome Base.Bytes Base.Names Base.PName.
From DV Require Import C11.Gen C11.Model C11.Proofs C11.Proofs2 C11.Proofs4.
Import ListNotations.
Local Open Scope N_scope.

Lemma find_tsig_S fuel m pos lim count :
  find_tsig (S fuel) m pos lim count =
    if count =? 0 then Err TE_MISSING
    else
      do h <- to_err TE_PARSE (record_parse m pos lim);
      if rh_type h =? RTYPE_TSIG then
        do t <- to_err TE_INVALID (tsig_parse m h pos);
        if tsig_class_ttl_checked && (negb (rh_class h =? CLASS_ANY) || negb (rh_ttl h =? 0))
        then Err TE_INVALID
        else if 0 <? count - 1 then Err TE_POSITION else Ok t
      else find_tsig fuel m (rh_next h) lim (count - 1).
Proof. reflexivity. Qed.

(* whatever the scan returns with Ok is the last record, and no record before it is a TSIG *)
Theorem find_tsig_accepts_only_last m p tys e lim : RecordsAt m p tys e -> e <= lim ->
  forall fuel t, find_tsig fuel m p lim (N.of_nat (length tys)) = Ok t ->
  exists pre, tys = pre ++ [RTYPE_TSIG] /\ Forall (fun ty => ty <> RTYPE_TSIG) pre.
Proof.
  induction 1 as [p|p ty e1 tys e Hr Hrs IH]; intros Hl fuel t H.
  - change (N.of_nat (length (@nil N))) with 0 in H. destruct fuel; [discriminate|]. rewrite find_tsig_S in H.
    change (0 =? 0) with true in H. discriminate.
  - destruct fuel; [discriminate|]. rewrite find_tsig_S in H. cbn [length] in H.
    destruct (N.eqb_spec (N.of_nat (S (length tys))) 0); [lia|].
    pose proof (RecordsAt_end _ _ _ _ Hrs).
    destruct (record_ok m p ty e1 lim Hr ltac:(lia)) as [_ (h & Hp & Hty & Hnx)]. rewrite Hp in H. cbn [to_err bind] in H.
    rewrite Hty in H. destruct (N.eqb_spec ty RTYPE_TSIG) as [->|Hne].
    + destruct (tsig_parse m h p); cbn [to_err bind] in H; try discriminate.
      destruct (_ && _); [discriminate|].
      destruct (N.ltb_spec 0 (N.of_nat (S (length tys)) - 1)) as [Hz|Hz]; [discriminate|].
      exists []. split; [|constructor]. destruct tys as [|x tys']; [reflexivity | exfalso; cbn [length] in Hz; lia].
    + rewrite Hnx in H. replace (N.of_nat (S (length tys)) - 1) with (N.of_nat (length tys)) in H by lia.
      destruct (IH Hl fuel t H) as (pre & -> & Hpre). exists (ty :: pre). split; [reflexivity | constructor; assumption].
Qed.

(* the scan reports "no TSIG" exactly when no record of the section has type TSIG *)
Theorem find_tsig_missing_iff m p tys e lim : RecordsAt m p tys e -> e <= lim ->
  forall fuel, (length tys < fuel)%nat ->
  (find_tsig fuel m p lim (N.of_nat (length tys)) = Err TE_MISSING <-> Forall (fun ty => ty <> RTYPE_TSIG) tys).
Proof.
  intros HR Hl fuel Hf. split.
  - revert fuel Hf. induction HR as [p|p ty e1 tys e Hr Hrs IH]; intros fuel Hf H; [constructor|].
    destruct fuel; [cbn in Hf; lia|]. rewrite find_tsig_S in H. cbn [length] in H.
    destruct (N.eqb_spec (N.of_nat (S (length tys))) 0); [lia|].
    pose proof (RecordsAt_end _ _ _ _ Hrs).
    destruct (record_ok m p ty e1 lim Hr ltac:(lia)) as [_ (h & Hp & Hty & Hnx)]. rewrite Hp in H. cbn [to_err bind] in H.
    rewrite Hty in H. destruct (N.eqb_spec ty RTYPE_TSIG) as [->|Hne].
    + exfalso. destruct (tsig_parse m h p); cbn [to_err bind] in H; try discriminate.
      destruct (_ && _); [discriminate|]. destruct (_ <? _); discriminate.
    + rewrite Hnx in H. replace (N.of_nat (S (length tys)) - 1) with (N.of_nat (length tys)) in H by lia.
      constructor; [exact Hne|]. apply (IH Hl fuel); [cbn [length] in Hf; lia | exact H].
  - intros Hno. replace fuel with (length tys + (fuel - length tys))%nat by lia.
    replace (N.of_nat (length tys)) with (N.of_nat (length tys) + 0) by lia.
    rewrite (find_tsig_steps m p tys e lim HR Hl Hno).
    destruct (fuel - length tys)%nat eqn:E; [lia|]. reflexivity.
Qed.

(* consequence: two TSIG records, or a TSIG that is not the last record, are never accepted *)
Corollary find_tsig_rejects_misplaced m p tys e lim fuel t pre post :
  RecordsAt m p tys e -> e <= lim -> tys = pre ++ RTYPE_TSIG :: post -> post <> [] ->
  find_tsig fuel m p lim (N.of_nat (length tys)) <> Ok t.
Proof.
  intros HR Hl -> Hpost H. destruct (find_tsig_accepts_only_last _ _ _ _ _ HR Hl _ _ H) as (pre' & E & Hno).
  (* the first TSIG of the list is at position |pre'| on the right and at most |pre| on the left *)
  assert (Hlen : forall (a b : list N) x y, a ++ x :: b = y ++ [x] -> b <> [] -> In x y).
  { intros a b x y. revert a. induction y as [|z y IHy]; intros a E0 Hb.
    - destruct a as [|? a]; cbn in E0; [injection E0 as E1; congruence|].
      injection E0 as _ E1. destruct a; discriminate.
    - destruct a as [|z' a]; cbn in E0; injection E0 as E1 E2; [left; congruence|]. right. eapply IHy; eauto. }
  apply (Hlen pre post RTYPE_TSIG pre' E) in Hpost.
  rewrite Forall_forall in Hno. exact (Hno _ Hpost eq_refl).
Qed.
