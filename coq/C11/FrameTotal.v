(* C11/FrameTotal.v -- ParsedName::parse_ref / skip and the unchecked label
   iterator are total (no panic, no fuel exhaustion) and what parse_ref accepts
   is safe to iterate.  Copy of the PName-level part of coq/C01/Proofs.v (at the
   commit that registered C01, minus its T1 tie) so that C11's fuel theorem does
   not depend on the build state of another property.  Stdlib + Base only. *)
From Coq Require Import NArith List Bool Lia ZArith.
From Coq Require Import ZifyN ZifyBool ZifyNat.
From DV Require Import Base.Outcome Base.Bytes Base.Names Base.PName.
Import ListNotations.
Local Open Scope N_scope.
Ltac Zify.zify_post_hook ::= Z.div_mod_to_equations.

(* ------------------------------------------------------------------- fuel *)
(* PARSE_FUEL is kept folded in all proofs (the kernel must never unroll the
   300-deep fixpoints while checking conversions). *)
Lemma PARSE_FUEL_val : PARSE_FUEL = 300%nat.
Proof. reflexivity. Qed.
Lemma parse_ref_eq m pos lim :
  parse_ref m pos lim = parse_labels PARSE_FUEL m lim pos 0 pos false None.
Proof. unfold parse_ref. reflexivity. Qed.
Lemma skip_name_eq m pos lim : skip_name m pos lim = skip_labels PARSE_FUEL m lim pos 0.
Proof. unfold skip_name. reflexivity. Qed.
Lemma pname_labels_eq m p :
  pname_labels m p = iter_labels PARSE_FUEL m (pn_pos p) (pn_len p) [].
Proof. unfold pname_labels. reflexivity. Qed.
Opaque PARSE_FUEL.

(* ------------------------------------------------------------- list access *)
Lemma get_lt m i b : get m i = Some b -> i < mlen m.
Proof.
  unfold get, mlen. intros H.
  assert (nth_error m (N.to_nat i) <> None) by congruence.
  apply nth_error_Some in H0. lia.
Qed.

Lemma get_some m i : i < mlen m -> exists b, get m i = Some b.
Proof.
  unfold get, mlen. intros H.
  destruct (nth_error m (N.to_nat i)) eqn:E; eauto.
  apply nth_error_None in E. lia.
Qed.

Lemma get_wf m i b : wf_bytes m -> get m i = Some b -> b < 256.
Proof.
  unfold wf_bytes, get. intros Hw H. apply nth_error_In in H.
  rewrite Forall_forall in Hw. apply Hw. exact H.
Qed.

Lemma slice_length m a b : a <= b -> b <= mlen m -> length (slice m a b) = N.to_nat (b - a).
Proof.
  unfold slice, mlen. intros. rewrite firstn_length, skipn_length. lia.
Qed.

Lemma slice_nil m a : slice m a a = [].
Proof. unfold slice. rewrite N.sub_diag. reflexivity. Qed.

Lemma in_firstn {A} (x : A) n l : In x (firstn n l) -> In x l.
Proof. intros H. rewrite <- (firstn_skipn n l). apply in_or_app. left. exact H. Qed.

Lemma in_skipn {A} (x : A) n l : In x (skipn n l) -> In x l.
Proof. intros H. rewrite <- (firstn_skipn n l). apply in_or_app. right. exact H. Qed.

Lemma slice_wf m a b : wf_bytes m -> wf_bytes (slice m a b).
Proof.
  unfold wf_bytes, slice. intros H. rewrite Forall_forall in *. intros x Hx.
  apply H. apply in_firstn in Hx. apply in_skipn in Hx. exact Hx.
Qed.

(* --------------------------------------------------------- LabelType::parse *)
Lemma ltp_inv m pos lim r pos' :
  label_type_parse m pos lim = Ok (r, pos') ->
  pos < lim /\ exists b, get m pos = Some b /\
   ((b <= 63 /\ r = LNormal b /\ pos' = pos + 1) \/
    (63 < b /\ 192 <= b /\ pos + 1 < lim /\ exists c, get m (pos + 1) = Some c /\
       r = LCompressed (c + 256 * (b mod 64)) /\ pos' = pos + 2)).
Proof.
  unfold label_type_parse.
  destruct (N.leb_spec lim pos) as [H1|H1]; [discriminate|].
  destruct (get m pos) as [b|] eqn:Eb; [|discriminate].
  destruct (N.leb_spec b 63) as [H2|H2].
  - intros H. inversion H; subst. split; [assumption|]. exists b. split; [reflexivity|]. left. auto.
  - destruct (N.leb_spec 192 b) as [H3|H3]; [|discriminate].
    destruct (N.leb_spec lim (pos + 1)) as [H4|H4]; [discriminate|].
    destruct (get m (pos + 1)) as [c|] eqn:Ec; [|discriminate].
    intros H. inversion H; subst. split; [assumption|]. exists b. split; [reflexivity|].
    right. repeat split; try assumption. exists c. auto.
Qed.

Lemma ltp_no_fuel m pos lim : label_type_parse m pos lim <> OutOfFuel.
Proof.
  unfold label_type_parse.
  destruct (lim <=? pos); [discriminate|].
  destruct (get m pos); [|discriminate].
  destruct (n <=? 63); [discriminate|].
  destruct (192 <=? n); [|discriminate].
  destruct (lim <=? pos + 1); [discriminate|].
  destruct (get m (pos + 1)); discriminate.
Qed.

Lemma ltp_no_panic m pos lim s : lim <= mlen m -> label_type_parse m pos lim <> Panic s.
Proof.
  intros Hl. unfold label_type_parse.
  destruct (N.leb_spec lim pos) as [H1|H1]; [discriminate|].
  destruct (get_some m pos) as [b Hb]; [lia|]. rewrite Hb.
  destruct (b <=? 63); [discriminate|].
  destruct (192 <=? b); [|discriminate].
  destruct (N.leb_spec lim (pos + 1)) as [H4|H4]; [discriminate|].
  destruct (get_some m (pos + 1)) as [c Hc]; [lia|]. rewrite Hc. discriminate.
Qed.

Definition is_normal (m : bytes) (cur lim : N) : Prop :=
  exists l c', label_type_parse m cur lim = Ok (LNormal l, c').

(* ------------------------------------------------ following pointer chains *)
(* resolve m pos t: starting at pos and following compression pointers, each
   pointing strictly backwards, one arrives at the ordinary label head at t. *)
Inductive resolve (m : bytes) : N -> N -> Prop :=
| res_here pos b : get m pos = Some b -> b <= 63 -> resolve m pos pos
| res_ptr pos b c t : get m pos = Some b -> 63 < b -> 192 <= b -> get m (pos + 1) = Some c ->
    c + 256 * (b mod 64) < pos -> resolve m (c + 256 * (b mod 64)) t -> resolve m pos t.

Lemma resolve_trans m a t t' : resolve m a t -> resolve m t t' -> resolve m a t'.
Proof.
  induction 1 as [pos b Hb Hle | pos b c t Hb H63 H192 Hc Hlt Hr IH]; intros H2.
  - exact H2.
  - eapply res_ptr; eauto.
Qed.

Lemma resolve_start m a t : resolve m a t -> a < mlen m.
Proof. destruct 1; eapply get_lt; eauto. Qed.

Lemma resolve_target m a t : resolve m a t -> t <= a /\ exists b, get m t = Some b /\ b <= 63.
Proof.
  induction 1 as [pos b Hb Hle | pos b c t Hb H63 H192 Hc Hlt Hr IH].
  - split; [lia|]. eauto.
  - destruct IH as [IH1 IH2]. split; [lia|exact IH2].
Qed.

Lemma hops_inv : forall fuel m lim ptr after tgt,
  hops fuel m lim ptr after = Ok tgt ->
  ptr < after - 2 /\ resolve m ptr tgt /\ tgt < lim /\
  exists l, label_type_parse m tgt lim = Ok (LNormal l, tgt + 1).
Proof.
  induction fuel as [|fuel IH]; intros m lim ptr after tgt H; [discriminate|].
  cbn [hops] in H.
  destruct (N.leb_spec (after - 2) ptr) as [H1|H1]; [discriminate|].
  destruct (N.ltb_spec lim ptr) as [H2|H2]; [discriminate|].
  destruct (label_type_parse m ptr lim) as [[r pos']| | |] eqn:E; try discriminate.
  apply ltp_inv in E. destruct E as [Hlt [b [Hb [[Hle [Hr Hp]]|[H63 [H192 [Hl1 [c [Hc [Hr Hp]]]]]]]]]]; subst r pos'.
  - inversion H; subst tgt. split; [assumption|]. split; [eapply res_here; eauto|].
    split; [assumption|]. exists b. unfold label_type_parse.
    destruct (N.leb_spec lim ptr); [lia|]. rewrite Hb.
    destruct (N.leb_spec b 63); [reflexivity|lia].
  - apply IH in H. destruct H as [Ha [Hres [Htl Hn]]].
    split; [assumption|]. split; [|split; assumption].
    eapply res_ptr; eauto. lia.
Qed.

Lemma hops_no_fuel : forall fuel m lim ptr after,
  (1 <= fuel)%nat -> (ptr < after - 2 -> (N.to_nat ptr + 2 <= fuel)%nat) ->
  hops fuel m lim ptr after <> OutOfFuel.
Proof.
  induction fuel as [|fuel IH]; intros m lim ptr after H1 H2; [lia|].
  cbn [hops].
  destruct (N.leb_spec (after - 2) ptr) as [Ha|Ha]; [discriminate|].
  destruct (N.ltb_spec lim ptr) as [Hb|Hb]; [discriminate|].
  destruct (label_type_parse m ptr lim) as [[r pos']| | |] eqn:E; try discriminate.
  - pose proof E as E'. apply ltp_inv in E'.
    destruct E' as [Hlt [b [Hb' [[Hle [Hr Hp]]|[H63 [H192 [Hl1 [c [Hc [Hr Hp]]]]]]]]]]; subst r pos'.
    + discriminate.
    + specialize (H2 Ha). apply IH; [lia|]. intros Hx. lia.
  - exfalso. eapply ltp_no_fuel; eauto.
Qed.

Lemma hops_no_panic : forall fuel m lim ptr after s,
  lim <= mlen m -> hops fuel m lim ptr after <> Panic s.
Proof.
  induction fuel as [|fuel IH]; intros m lim ptr after s Hl; [discriminate|].
  cbn [hops].
  destruct (after - 2 <=? ptr); [discriminate|].
  destruct (lim <? ptr); [discriminate|].
  destruct (label_type_parse m ptr lim) as [[r pos']| | |] eqn:E; try discriminate.
  - destruct r; [discriminate|]. apply IH; assumption.
  - exfalso. eapply ltp_no_panic; eauto.
Qed.

(* --------------------------------------------- parse_ref: termination, safety *)
Lemma parse_labels_no_fuel : forall fuel m lim cur nl start c e,
  nl <= 254 ->
  ((256 - N.to_nat nl <= fuel)%nat \/ ((255 - N.to_nat nl <= fuel)%nat /\ is_normal m cur lim)) ->
  parse_labels fuel m lim cur nl start c e <> OutOfFuel.
Proof.
  induction fuel as [|fuel IH]; intros m lim cur nl start c e Hnl Hf.
  - exfalso. destruct Hf as [Hf|[Hf _]]; lia.
  - cbn [parse_labels].
    destruct (label_type_parse m cur lim) as [[r cur']| | |] eqn:E; try discriminate.
    + destruct r as [l|ptr].
      * destruct (N.eqb_spec l 0) as [Hl0|Hl0]; [discriminate|].
        destruct (lim - cur' <? l); [discriminate|].
        destruct (N.leb_spec 255 (nl + l + 1)) as [Hc|Hc]; [discriminate|].
        apply IH; [lia|]. left. destruct Hf as [Hf|[Hf _]]; lia.
      * assert (Hf' : (255 - N.to_nat nl <= fuel)%nat).
        { destruct Hf as [Hf|[_ [l [c' Hn]]]]; [lia|]. rewrite E in Hn. discriminate. }
        destruct (hops (S (S (N.to_nat ptr))) m lim ptr cur') as [tgt| | |] eqn:Eh; cbn [bind]; try discriminate.
        -- apply hops_inv in Eh. destruct Eh as [_ [_ [_ [l Hn]]]].
           assert (Hin : is_normal m tgt lim) by (exists l, (tgt + 1); exact Hn).
           destruct (nl =? 0); apply IH; auto.
        -- exfalso. eapply hops_no_fuel; [| |exact Eh]; lia.
    + exfalso. eapply ltp_no_fuel; eauto.
Qed.

Theorem parse_ref_no_fuel m pos lim : parse_ref m pos lim <> OutOfFuel.
Proof.
  rewrite parse_ref_eq. apply parse_labels_no_fuel; [lia|]. left. rewrite PARSE_FUEL_val. lia.
Qed.

Lemma parse_labels_no_panic : forall fuel m lim cur nl start c e s,
  lim <= mlen m -> parse_labels fuel m lim cur nl start c e <> Panic s.
Proof.
  induction fuel as [|fuel IH]; intros m lim cur nl start c e s Hl; [discriminate|].
  cbn [parse_labels].
  destruct (label_type_parse m cur lim) as [[r cur']| | |] eqn:E; try discriminate.
  - destruct r as [l|ptr].
    + destruct (l =? 0); [discriminate|].
      destruct (lim - cur' <? l); [discriminate|].
      destruct (255 <=? nl + l + 1); [discriminate|]. apply IH; assumption.
    + destruct (hops (S (S (N.to_nat ptr))) m lim ptr cur') as [tgt| | |] eqn:Eh; cbn [bind]; try discriminate.
      * destruct (nl =? 0); apply IH; assumption.
      * exfalso. eapply hops_no_panic; eauto.
  - exfalso. eapply ltp_no_panic; eauto.
Qed.

Lemma parse_ref_no_panic m pos lim s : lim <= mlen m -> parse_ref m pos lim <> Panic s.
Proof. intros Hl. rewrite parse_ref_eq. apply parse_labels_no_panic. assumption. Qed.

Theorem parse_ref_total m pos lim : lim <= mlen m -> no_panic (parse_ref m pos lim).
Proof.
  intros Hl. pose proof (parse_ref_no_fuel m pos lim) as Hf.
  pose proof (fun s => parse_ref_no_panic m pos lim s Hl) as Hp.
  destruct (parse_ref m pos lim); cbn [no_panic]; auto.
  - eapply Hp; reflexivity.
Qed.

Example parse_ref_example :
  parse_ref [3;119;119;119;0;192;0] 5 7 = Ok (mkPName 0 5 false 7).
Proof. vm_compute. reflexivity. Qed.

(* ---------------------------------------------------------- ParsedName::skip *)
Lemma skip_labels_no_fuel : forall fuel m lim cur len,
  len <= 255 -> (257 - N.to_nat len <= fuel)%nat -> skip_labels fuel m lim cur len <> OutOfFuel.
Proof.
  induction fuel as [|fuel IH]; intros m lim cur len Hl Hf; [lia|].
  cbn [skip_labels].
  destruct (label_type_parse m cur lim) as [[r cur']| | |] eqn:E; try discriminate.
  - destruct r as [l|ptr]; [|discriminate].
    destruct (N.eqb_spec l 0) as [Hl0|Hl0].
    + destruct (255 <? len + 1); discriminate.
    + destruct (lim - cur' <? l); [discriminate|].
      destruct (N.ltb_spec 255 (len + l + 1)) as [Hc|Hc]; [discriminate|].
      apply IH; lia.
  - exfalso. eapply ltp_no_fuel; eauto.
Qed.

Lemma skip_labels_no_panic : forall fuel m lim cur len s,
  lim <= mlen m -> skip_labels fuel m lim cur len <> Panic s.
Proof.
  induction fuel as [|fuel IH]; intros m lim cur len s Hl; [discriminate|].
  cbn [skip_labels].
  destruct (label_type_parse m cur lim) as [[r cur']| | |] eqn:E; try discriminate.
  - destruct r as [l|ptr]; [|discriminate].
    destruct (l =? 0); [destruct (255 <? len + 1); discriminate|].
    destruct (lim - cur' <? l); [discriminate|].
    destruct (255 <? len + l + 1); [discriminate|]. apply IH; assumption.
  - exfalso. eapply ltp_no_panic; eauto.
Qed.

Lemma skip_name_no_panic m pos lim s : lim <= mlen m -> skip_name m pos lim <> Panic s.
Proof. intros Hl. rewrite skip_name_eq. apply skip_labels_no_panic. assumption. Qed.

Lemma skip_name_no_fuel m pos lim : skip_name m pos lim <> OutOfFuel.
Proof. rewrite skip_name_eq. apply skip_labels_no_fuel; rewrite ?PARSE_FUEL_val; lia. Qed.

Theorem skip_name_total m pos lim : lim <= mlen m -> no_panic (skip_name m pos lim).
Proof.
  intros Hl. pose proof (skip_name_no_fuel m pos lim) as Hf.
  pose proof (fun s => skip_name_no_panic m pos lim s Hl) as Hp.
  destruct (skip_name m pos lim); cbn [no_panic]; auto.
  - eapply Hp; reflexivity.
Qed.

Example skip_name_example : skip_name [1;97;192;0;9] 0 5 = Ok 4.
Proof. vm_compute. reflexivity. Qed.

(* the position after a skipped name lies within the limit *)
Lemma skip_labels_end : forall fuel m lim cur len e,
  cur <= lim -> skip_labels fuel m lim cur len = Ok e -> cur < e <= lim.
Proof.
  induction fuel as [|fuel IH]; intros m lim cur len e Hc H; [discriminate|].
  cbn [skip_labels] in H.
  destruct (label_type_parse m cur lim) as [[r cur']| | |] eqn:E; try discriminate.
  apply ltp_inv in E.
  destruct E as [Hlt [b [Hb [[Hle [Hr Hp]]|[H63 [H192 [Hl1 [c [Hc' [Hr Hp]]]]]]]]]]; subst r cur'.
  - destruct (N.eqb_spec b 0).
    + destruct (255 <? len + 1); [discriminate|]. inversion H; subst. lia.
    + destruct (N.ltb_spec (lim - (cur + 1)) b); [discriminate|].
      destruct (255 <? len + b + 1); [discriminate|].
      apply IH in H; lia.
  - inversion H; subst. lia.
Qed.

(* ----------------------------------------------- validate-then-trust soundness *)
(* walk m pos ls: the unchecked traversal from pos (labels and backward
   pointers) meets exactly the labels ls and then the root label. *)
Inductive walk (m : bytes) : N -> name -> Prop :=
| walk_root pos t : resolve m pos t -> get m t = Some 0 -> walk m pos []
| walk_label pos t l ls : resolve m pos t -> get m t = Some l -> 1 <= l -> l <= 63 ->
    t + 1 + l <= mlen m -> walk m (t + 1 + l) ls ->
    walk m pos (slice m (t + 1) (t + 1 + l) :: ls).

Lemma walk_prepend m a t ls : resolve m a t -> walk m t ls -> walk m a ls.
Proof.
  intros Hr Hw. inversion Hw; subst.
  - eapply walk_root; [eapply resolve_trans; eauto|assumption].
  - eapply walk_label; eauto. eapply resolve_trans; eauto.
Qed.

Lemma walk_valid m pos ls : wf_bytes m -> walk m pos ls -> Forall valid_label ls.
Proof.
  intros Hw. induction 1 as [|pos t l ls Hr Hg H1 H63 Hlen Hwalk IH]; constructor; [|exact IH].
  unfold valid_label. rewrite slice_length by lia. split; [lia|]. apply slice_wf. assumption.
Qed.

Lemma walk_count m pos ls : walk m pos ls -> (2 * length ls <= wire_len ls)%nat.
Proof.
  induction 1 as [|pos t l ls Hr Hg H1 H63 Hlen Hwalk IH]; cbn [length wire_len]; [lia|].
  rewrite slice_length by lia. lia.
Qed.

Lemma parse_labels_sound : forall fuel m lim cur nl start c e p,
  lim <= mlen m -> nl <= 254 ->
  parse_labels fuel m lim cur nl start c e = Ok p ->
  exists ls, walk m cur ls /\ pn_len p = nl + N.of_nat (wire_len ls) + 1 /\ pn_len p <= 255 /\
             (pn_pos p = start \/ (nl = 0 /\ walk m (pn_pos p) ls)).
Proof.
  induction fuel as [|fuel IH]; intros m lim cur nl start c e p Hl Hnl H; [discriminate|].
  cbn [parse_labels] in H.
  destruct (label_type_parse m cur lim) as [[r cur']| | |] eqn:E; try discriminate.
  apply ltp_inv in E.
  destruct E as [Hlt [b [Hb [[Hle [Hr Hp]]|[H63 [H192 [Hl1 [c0 [Hc [Hr Hp]]]]]]]]]]; subst r cur'.
  - destruct (N.eqb_spec b 0) as [Hb0|Hb0].
    + inversion H; subst p b. exists []. cbn [pn_len pn_pos wire_len].
      split; [eapply walk_root; [eapply res_here; eauto|assumption]|].
      split; [lia|]. split; [lia|]. left. reflexivity.
    + destruct (N.ltb_spec (lim - (cur + 1)) b) as [Hs|Hs]; [discriminate|].
      destruct (N.leb_spec 255 (nl + b + 1)) as [Hc|Hc]; [discriminate|].
      apply IH in H; [|assumption|lia].
      destruct H as [ls [Hw [Hlen [H255 Hpos]]]].
      exists (slice m (cur + 1) (cur + 1 + b) :: ls).
      split.
      { apply (walk_label m cur cur b ls); [eapply res_here; eauto|assumption|lia|assumption|lia|exact Hw]. }
      cbn [wire_len]. rewrite slice_length by lia.
      split; [lia|]. split; [assumption|]. left. destruct Hpos as [Hpos|[Hz _]]; [assumption|lia].
  - destruct (hops (S (S (N.to_nat (c0 + 256 * (b mod 64))))) m lim (c0 + 256 * (b mod 64)) (cur + 2)) as [tgt| | |] eqn:Eh;
      cbn [bind] in H; try discriminate.
    apply hops_inv in Eh. destruct Eh as [Hback [Hres [Htl _]]].
    assert (Hrc : resolve m cur tgt) by (eapply res_ptr; eauto; lia).
    destruct (N.eqb_spec nl 0) as [Hz|Hz].
    + apply IH in H; [|assumption|assumption].
      destruct H as [ls [Hw [Hlen [H255 Hpos]]]].
      exists ls. split; [eapply walk_prepend; eauto|]. split; [assumption|]. split; [assumption|].
      right. split; [assumption|]. destruct Hpos as [Hpos|[_ Hpos]]; [rewrite Hpos; assumption|assumption].
    + apply IH in H; [|assumption|assumption].
      destruct H as [ls [Hw [Hlen [H255 Hpos]]]].
      exists ls. split; [eapply walk_prepend; eauto|]. split; [assumption|]. split; [assumption|].
      left. destruct Hpos as [Hpos|[Hz' _]]; [assumption|contradiction].
Qed.

(* the unchecked get_label on a resolved position *)
Lemma get_label_resolve : forall m pos t, resolve m pos t ->
  forall b fuel, get m t = Some b -> b <= 63 -> t + 1 + b <= mlen m -> (N.to_nat pos < fuel)%nat ->
  get_label fuel m pos = Ok (slice m (t + 1) (t + 1 + b), t + 1 + b).
Proof.
  induction 1 as [pos b0 Hb0 Hle0 | pos b0 c t Hb0 H63 H192 Hc Hlt Hr IH]; intros b fuel Hb Hle Hlen Hf.
  - destruct fuel as [|fuel]; [lia|]. cbn [get_label]. rewrite Hb0 in Hb. inversion Hb; subst b0.
    rewrite Hb0. destruct (N.leb_spec b 63); [|lia].
    cbv zeta. destruct (N.ltb_spec (mlen m) (pos + 1 + b)); [lia|]. reflexivity.
  - destruct fuel as [|fuel]; [lia|]. cbn [get_label]. rewrite Hb0.
    destruct (N.leb_spec b0 63); [lia|]. destruct (N.leb_spec 192 b0); [|lia].
    rewrite Hc. apply IH; auto. lia.
Qed.

Lemma iter_labels_walk : forall m pos ls, walk m pos ls ->
  forall fuel len acc, len = N.of_nat (wire_len ls) + 1 -> (length ls < fuel)%nat ->
  iter_labels fuel m pos len acc = Ok (rev acc ++ ls, true).
Proof.
  induction 1 as [pos t Hr Hg | pos t l ls Hr Hg H1 H63 Hlen Hwalk IH]; intros fuel len acc Hl Hf.
  - destruct fuel as [|fuel]; [cbn in Hf; lia|]. cbn [iter_labels]. cbn [wire_len] in Hl. subst len.
    cbn [N.of_nat N.add N.eqb Pos.eqb].
    pose proof (resolve_start _ _ _ Hr) as Hs.
    assert (Ht : t + 1 + 0 <= mlen m) by (apply get_lt in Hg; lia).
    rewrite (get_label_resolve m pos t Hr 0 (S (length m))); [|assumption|lia|assumption|unfold mlen in Hs; lia].
    cbn [bind]. replace (t + 1 + 0) with (t + 1) by lia. rewrite slice_nil. cbn [length N.of_nat].
    cbn. rewrite app_nil_r. reflexivity.
  - destruct fuel as [|fuel]; [cbn in Hf; lia|]. cbn [iter_labels].
    cbn [wire_len] in Hl. rewrite slice_length in Hl by lia.
    destruct (N.eqb_spec len 0) as [Hz|Hz]; [lia|].
    pose proof (resolve_start _ _ _ Hr) as Hs.
    rewrite (get_label_resolve m pos t Hr l (S (length m))); [|assumption|assumption|assumption|unfold mlen in Hs; lia].
    cbn [bind]. rewrite slice_length by lia.
    replace (N.of_nat (N.to_nat (t + 1 + l - (t + 1))) + 1) with (l + 1) by lia.
    destruct (N.ltb_spec len (l + 1)); [lia|].
    replace (Nat.eqb (N.to_nat (t + 1 + l - (t + 1))) 0) with false
      by (symmetry; apply Nat.eqb_neq; lia).
    etransitivity; [apply IH; [lia|cbn [length] in Hf; lia]|].
    cbn [rev]. rewrite <- app_assoc. reflexivity.
Qed.

Lemma parse_fuel_enough m pos ls : walk m pos ls -> N.of_nat (wire_len ls) + 1 <= 255 ->
  (length ls < PARSE_FUEL)%nat.
Proof.
  intros Hw Hl. pose proof (walk_count _ _ _ Hw) as Hc.
  rewrite PARSE_FUEL_val. lia.
Qed.

Lemma pname_labels_walk m p ls :
  walk m (pn_pos p) ls -> pn_len p = N.of_nat (wire_len ls) + 1 -> pn_len p <= 255 ->
  pname_labels m p = Ok (ls, true).
Proof.
  intros Hw Hl H255. rewrite pname_labels_eq.
  apply (iter_labels_walk m (pn_pos p) ls Hw PARSE_FUEL (pn_len p) [] Hl).
  eapply parse_fuel_enough; [exact Hw|]. rewrite <- Hl. exact H255.
Qed.

Lemma parse_ref_walk m pos lim p :
  parse_ref m pos lim = Ok p -> lim <= mlen m ->
  exists ls, walk m (pn_pos p) ls /\ pn_len p = N.of_nat (wire_len ls) + 1 /\ pn_len p <= 255.
Proof.
  intros H Hl. rewrite parse_ref_eq in H.
  apply parse_labels_sound in H; [|assumption|lia].
  destruct H as [ls [Hwalk [Hlen [H255 Hpos]]]].
  exists ls. split; [|split; [lia|assumption]].
  destruct Hpos as [Hpos|[_ Hpos]]; [rewrite Hpos; assumption|assumption].
Qed.

Theorem parse_ref_sound m pos lim p :
  parse_ref m pos lim = Ok p -> lim <= mlen m -> wf_bytes m ->
  exists labels, pname_labels m p = Ok (labels, true) /\
    Forall valid_label labels /\
    N.of_nat (wire_len labels) + 1 = pn_len p /\ pn_len p <= 255.
Proof.
  intros H Hl Hw. destruct (parse_ref_walk m pos lim p H Hl) as [ls [Hwalk [Hlen H255]]].
  exists ls. split; [apply pname_labels_walk; assumption|].
  split; [eapply walk_valid; eauto|]. split; [lia|assumption].
Qed.

(* without the octet hypothesis: still no panic and the length bookkeeping *)
Theorem parse_ref_iter_total m pos lim p :
  parse_ref m pos lim = Ok p -> lim <= mlen m ->
  exists labels, pname_labels m p = Ok (labels, true) /\
    N.of_nat (wire_len labels) + 1 = pn_len p /\ pn_len p <= 255.
Proof.
  intros H Hl. destruct (parse_ref_walk m pos lim p H Hl) as [ls [Hwalk [Hlen H255]]].
  exists ls. split; [apply pname_labels_walk; assumption|]. split; [lia|assumption].
Qed.

Example parse_ref_sound_example :
  let m := [3;99;111;109;0;3;119;119;119;192;0] in
  parse_ref m 5 11 = Ok (mkPName 5 9 true 11) /\
  pname_labels m (mkPName 5 9 true 11) = Ok ([[119;119;119];[99;111;109]], true).
Proof. split; vm_compute; reflexivity. Qed.

(* the unchecked iterator is NOT safe on names that were not validated: the
   panics the validation excludes are real *)
Example unvalidated_iter_panics :
  pname_labels [64] (mkPName 0 3 false 1) = Panic P_BADLABEL /\
  pname_labels [5;1] (mkPName 0 7 false 2) = Panic P_INDEX /\
  pname_labels [1;97;0] (mkPName 0 1 false 3) = Panic P_UNDERFLOW.
Proof. repeat split; vm_compute; reflexivity. Qed.

(* positions: the parser ends within the limit *)
Lemma parse_labels_end : forall fuel m lim cur nl start c e p,
  cur <= lim -> (match e with Some x => x <= lim | None => True end) ->
  parse_labels fuel m lim cur nl start c e = Ok p -> pn_end p <= lim.
Proof.
  induction fuel as [|fuel IH]; intros m lim cur nl start c e p Hc He H; [discriminate|].
  cbn [parse_labels] in H.
  destruct (label_type_parse m cur lim) as [[r cur']| | |] eqn:E; try discriminate.
  apply ltp_inv in E.
  destruct E as [Hlt [b [Hb [[Hle [Hr Hp]]|[H63 [H192 [Hl1 [c0 [Hc0 [Hr Hp]]]]]]]]]]; subst r cur'.
  - destruct (N.eqb_spec b 0).
    + inversion H; subst p. cbn [pn_end]. destruct e; lia.
    + destruct (N.ltb_spec (lim - (cur + 1)) b); [discriminate|].
      destruct (255 <=? nl + b + 1); [discriminate|].
      eapply IH; [| |exact H]; [lia|assumption].
  - destruct (hops (S (S (N.to_nat (c0 + 256 * (b mod 64))))) m lim (c0 + 256 * (b mod 64)) (cur + 2)) as [tgt| | |] eqn:Eh;
      cbn [bind] in H; try discriminate.
    apply hops_inv in Eh. destruct Eh as [_ [_ [Htl _]]].
    destruct (nl =? 0); (eapply IH; [| |exact H]; [lia|destruct e; [assumption|lia]]).
Qed.

Lemma parse_ref_end m pos lim p : pos <= lim -> parse_ref m pos lim = Ok p -> pn_end p <= lim.
Proof. intros Hp H. rewrite parse_ref_eq in H. eapply parse_labels_end; [| |exact H]; [assumption|exact I]. Qed.
