(* C11/Proofs2.v -- signing and verification; sequences; refuted statements. *)
From Coq Require Import NArith List Bool Lia ZArith.
From Coq Require Import ZifyN ZifyBool ZifyNat.
From DV Require Import Base.Outcome Base.Bytes Base.Names Base.PName C11.Gen C11.Model C11.Proofs.
From DV Require Import C11.Sha C11.Hmac C11.Exec.
Import ListNotations.
Local Open Scope N_scope.
Ltac Zify.zify_post_hook ::= Z.div_mod_to_equations.

Lemma len_take_le (n : N) (l : bytes) : n <= len l -> len (take (N.to_nat n) l) = n.
Proof. unfold len, take. intros H. rewrite firstn_length_le by lia. lia. Qed.

Lemma alg_from_name_label a : alg_from_name [alg_label a] = Some a.
Proof. destruct a; reflexivity. Qed.

Lemma name_eqb_refl n : name_eqb n n = true.
Proof. apply name_eqb_spec. reflexivity. Qed.

Lemma name_eqb_sym a b : name_eqb a b = name_eqb b a.
Proof.
  destruct (name_eqb a b) eqn:E1, (name_eqb b a) eqn:E2; try reflexivity.
  - pose proof (proj1 (name_eqb_spec a b) E1) as H. symmetry in H.
    pose proof (proj2 (name_eqb_spec b a) H) as H0. rewrite H0 in E2. discriminate.
  - pose proof (proj1 (name_eqb_spec b a) E2) as H. symmetry in H.
    pose proof (proj2 (name_eqb_spec a b) H) as H0. rewrite H0 in E1. discriminate.
Qed.

Section Generic.
  Variable mac : alg -> bytes -> bytes -> bytes.
  (* the only fact about the MAC function the positive theorems need: its
     output length (ring: hmac::Algorithm::len) *)
  Hypothesis mac_len : forall a k d, len (mac a k d) = native_len a.

  (* ---------------------------------------------------------- compare_signatures *)
  (* compare_signatures = the RFC 8945 5.2.2.1 size gate (present in the source
     iff T1's compare_checks_rfc_size) in front of the core comparison *)
  Definition compare_core (k : key) (expected provided : bytes) : outcome unit :=
    if len provided <? k_min k then Err VE_BADTRUNC
    else
      let e := if len provided <? len expected then take (length provided) expected else expected in
      if bytes_eqb e provided then Ok tt else Err VE_BADSIG.

  Lemma compare_core_eq k e p :
    within_len_bounds (k_alg k) (len p) = true -> compare_signatures k e p = compare_core k e p.
  Proof. intros H. unfold compare_signatures, compare_core. rewrite H. rewrite andb_false_r. reflexivity. Qed.

  Lemma compare_ok_core k e p : compare_signatures k e p = Ok tt -> compare_core k e p = Ok tt.
  Proof.
    unfold compare_signatures, compare_core.
    destruct (compare_checks_rfc_size && negb (within_len_bounds (k_alg k) (len p))); [discriminate | auto].
  Qed.

  (* with the gate in the source, a MAC size outside the RFC range is a format error *)
  Lemma compare_size_formerr k e p :
    compare_checks_rfc_size = true -> within_len_bounds (k_alg k) (len p) = false ->
    compare_signatures k e p = Err VE_FORMERR.
  Proof. intros H1 H2. unfold compare_signatures. rewrite H1, H2. reflexivity. Qed.

  Lemma compare_core_spec k e p :
    compare_core k e p = Ok tt <->
    (k_min k <= len p /\ p = if len p <? len e then take (length p) e else e).
  Proof.
    unfold compare_core. cbn zeta. destruct (N.ltb_spec (len p) (k_min k)) as [H|H].
    - split; [discriminate | intros [H1 _]; lia].
    - destruct (bytes_eqb _ p) eqn:E.
      + apply bytes_eqb_spec in E. split; auto.
      + split; [discriminate|]. intros [_ H2]. symmetry in H2. apply (proj2 (bytes_eqb_spec _ _)) in H2. exfalso. exact (eq_true_false_abs _ H2 E).
  Qed.

  (* every error of compare_signatures is BadTrunc or BadSig, and BadTrunc is
     exactly "shorter than min_mac_len" *)
  Lemma compare_core_err k e p x :
    compare_core k e p = Err x ->
    (x = VE_BADTRUNC /\ len p < k_min k) \/ (x = VE_BADSIG /\ k_min k <= len p).
  Proof.
    unfold compare_core. cbn zeta. destruct (N.ltb_spec (len p) (k_min k)) as [H|H].
    - intros [= <-]. left; auto.
    - destruct (bytes_eqb _ p); [discriminate|]. intros [= <-]. right; auto.
  Qed.

  Lemma compare_core_truncated k full n :
    k_min k <= n -> n <= len full -> compare_core k full (take (N.to_nat n) full) = Ok tt.
  Proof.
    intros H1 H2. apply compare_core_spec. rewrite len_take_le by exact H2. split; [exact H1|].
    destruct (N.ltb_spec n (len full)) as [H|H].
    - unfold take, len in *. rewrite firstn_length_le by lia. reflexivity.
    - unfold take, len in *. apply firstn_all2. lia.
  Qed.

  (* a MAC that differs from the expected one in any of the octets sent is refused *)
  Lemma compare_rejects_other k e p :
    len p <= len e -> p <> take (length p) e -> exists x, compare_core k e p = Err x.
  Proof.
    intros Hl Hne. unfold compare_core. cbn zeta. destruct (len p <? k_min k); [eauto|].
    destruct (N.ltb_spec (len p) (len e)) as [H|H].
    - destruct (bytes_eqb _ p) eqn:E; [|eauto]. apply bytes_eqb_spec in E. congruence.
    - destruct (bytes_eqb e p) eqn:E; [|eauto]. apply bytes_eqb_spec in E. subst e.
      exfalso. apply Hne. unfold take. symmetry. apply firstn_all.
  Qed.

  Lemma compare_truncated k full n :
    within_len_bounds (k_alg k) n = true -> k_min k <= n -> n <= len full ->
    compare_signatures k full (take (N.to_nat n) full) = Ok tt.
  Proof.
    intros Hw H1 H2. rewrite compare_core_eq by (rewrite len_take_le by exact H2; exact Hw).
    apply compare_core_truncated; assumption.
  Qed.

  (* ---------------------------------------------------------- sign, then verify *)
  (* two parties share a key: same algorithm, secret and (case-insensitively)
     name; each has its own truncation policy *)
  Definition same_key (a b : key) : Prop :=
    k_alg a = k_alg b /\ k_secret a = k_secret b /\ name_eqb (k_name a) (k_name b) = true.

  Lemma vars_sign_same a b v : same_key a b -> vars_sign a v = vars_sign b v.
  Proof.
    intros (Ha & _ & Hn). apply name_eqb_spec in Hn. unfold vars_sign. rewrite sign_order_eq.
    cbn [map concat field_bytes]. rewrite Ha, Hn. reflexivity.
  Qed.

  (* "the parser reads back what push_tsig wrote": the located TSIG record
     carries the fields the signer put there and sits right behind the signed
     message.  This is the framing premise of the sign/verify theorems; the
     model's from_message is executed on every harness case (T2). *)
  Definition reads_back (w msg : bytes) (owner : name) (a : alg) (v : vars) (m : bytes) (t : mtsig) : Prop :=
    from_message w = Ok t /\ stripped w t = Ok msg /\
    mt_owner t = owner /\ mt_algname t = [alg_label a] /\
    mt_time t = v_time v /\ mt_fudge t = v_fudge v /\ mt_error t = v_error v /\
    mt_mac t = m /\ mt_other t = [] /\ v_other v = None.

  Lemma mt_vars_reads_back w msg owner a v m t :
    reads_back w msg owner a v m t -> mt_vars t = v.
  Proof.
    intros (_ & _ & _ & _ & Ht & Hf & He & _ & Ho & Hv). unfold mt_vars. rewrite Ht, Hf, He, Ho.
    unfold other_time. cbn. destruct v; cbn in *. subst. reflexivity.
  Qed.

  (* request: ClientTransaction::request on one side, ServerTransaction::request on the other *)
  Theorem sign_verify_request ks kr msg t fudge now c w tl out :
    same_key ks kr -> k_min kr <= k_sign ks -> within_len_bounds (k_alg ks) (k_sign ks) = true ->
    client_request mac ks msg t fudge = Ok (c, w) ->
    reads_back w msg (k_name ks) (k_alg ks) (Vars t fudge RC_NOERROR None)
               (signature_slice ks (ctx_sign mac ks (digest_full ks [] msg (Vars t fudge RC_NOERROR None)))) tl ->
    remove_tsig w tl = Ok out ->
    is_valid_at t fudge now = true ->
    server_request mac kr w now = Ok (SrvOk c out).
  Proof.
    intros Hk Hmin Hwb Hreq Hrb Hrm Hwin.
    assert (Hnat : k_sign ks <= native_len (k_alg ks)) by (pose proof (proj1 (within_len_bounds_spec _ _) Hwb); lia).
    pose proof (mt_vars_reads_back _ _ _ _ _ _ _ Hrb) as Hv.
    destruct Hrb as (Hfm & Hst & Hown & Halg & Ht & Hf & He & Hmac & Ho & _).
    unfold client_request in Hreq. cbn zeta in Hreq.
    destruct (push_tsig _ _ _ _) as [w'| | |]; try discriminate. cbn in Hreq. injection Hreq as Hc Hw.
    unfold server_request. rewrite Hfm, Halg, alg_from_name_label.
    destruct Hk as (Ha & Hs & Hn).
    unfold store_get. rewrite Hown, name_eqb_sym, Hn. rewrite <- Ha.
    replace (alg_eqb (k_alg ks) (k_alg ks)) with true by (destruct (k_alg ks); reflexivity).
    cbn [andb negb]. rewrite Hst. cbn [bind]. rewrite Hv.
    assert (Hsig : ctx_sign mac kr (digest_full kr [] msg (Vars t fudge RC_NOERROR None)) =
                   ctx_sign mac ks (digest_full ks [] msg (Vars t fudge RC_NOERROR None))).
    { unfold ctx_sign, digest_full. rewrite <- Ha, <- Hs.
      rewrite (vars_sign_same ks kr) by (repeat split; assumption). reflexivity. }
    rewrite Hsig, Hmac. unfold signature_slice.
    rewrite compare_truncated; [| first [exact Hwb | rewrite <- Ha; exact Hwb] | exact Hmin | unfold ctx_sign; rewrite mac_len; exact Hnat].
    rewrite Ht, Hf. cbn [v_time v_fudge]. rewrite Hwin. cbn [negb]. rewrite Hrm. cbn [bind].
    rewrite <- Hc. reflexivity.
  Qed.

  (* ... and outside the window the same request yields the signed BADTIME error
     carrying the server's time as other data *)
  Theorem request_outside_window_badtime ks kr msg t fudge now c w tl :
    same_key ks kr -> k_min kr <= k_sign ks -> within_len_bounds (k_alg ks) (k_sign ks) = true ->
    client_request mac ks msg t fudge = Ok (c, w) ->
    reads_back w msg (k_name ks) (k_alg ks) (Vars t fudge RC_NOERROR None)
               (signature_slice ks (ctx_sign mac ks (digest_full ks [] msg (Vars t fudge RC_NOERROR None)))) tl ->
    is_valid_at t fudge now = false ->
    server_request mac kr w now = Ok (SrvBadTime c (Vars t fudge RC_BADTIME (Some now))).
  Proof.
    intros Hk Hmin Hwb Hreq Hrb Hwin.
    assert (Hnat : k_sign ks <= native_len (k_alg ks)) by (pose proof (proj1 (within_len_bounds_spec _ _) Hwb); lia).
    pose proof (mt_vars_reads_back _ _ _ _ _ _ _ Hrb) as Hv.
    destruct Hrb as (Hfm & Hst & Hown & Halg & Ht & Hf & He & Hmac & Ho & _).
    unfold client_request in Hreq. cbn zeta in Hreq.
    destruct (push_tsig _ _ _ _) as [w'| | |]; try discriminate. cbn in Hreq. injection Hreq as Hc Hw.
    unfold server_request. rewrite Hfm, Halg, alg_from_name_label.
    destruct Hk as (Ha & Hs & Hn).
    unfold store_get. rewrite Hown, name_eqb_sym, Hn. rewrite <- Ha.
    replace (alg_eqb (k_alg ks) (k_alg ks)) with true by (destruct (k_alg ks); reflexivity).
    cbn [andb negb]. rewrite Hst. cbn [bind]. rewrite Hv.
    assert (Hsig : ctx_sign mac kr (digest_full kr [] msg (Vars t fudge RC_NOERROR None)) =
                   ctx_sign mac ks (digest_full ks [] msg (Vars t fudge RC_NOERROR None))).
    { unfold ctx_sign, digest_full. rewrite <- Ha, <- Hs.
      rewrite (vars_sign_same ks kr) by (repeat split; assumption). reflexivity. }
    rewrite Hsig, Hmac. unfold signature_slice.
    rewrite compare_truncated; [| first [exact Hwb | rewrite <- Ha; exact Hwb] | exact Hmin | unfold ctx_sign; rewrite mac_len; exact Hnat].
    rewrite Ht, Hf. cbn [v_time v_fudge]. rewrite Hwin. cbn [negb].
    rewrite <- Hc. reflexivity.
  Qed.

  (* response: ServerTransaction::answer on one side, ClientTransaction::answer
     on the other; [c] is the context both hold after the request (the request
     MAC with its length) *)
  Theorem sign_verify_answer ks kr c msg t fudge now w tl out :
    same_key ks kr -> k_min kr <= k_sign ks -> within_len_bounds (k_alg ks) (k_sign ks) = true ->
    server_answer mac ks c msg t fudge = Ok w ->
    reads_back w msg (k_name ks) (k_alg ks) (Vars t fudge RC_NOERROR None)
               (signature_slice ks (ctx_sign mac ks (digest_full ks c msg (Vars t fudge RC_NOERROR None)))) tl ->
    remove_tsig w tl = Ok out ->
    (hdr_rcode w =? RC_NOTAUTH) = false ->
    is_valid_at t fudge now = true ->
    client_answer mac kr c w now = Ok out.
  Proof.
    intros Hk Hmin Hwb Hans Hrb Hrm Hrc Hwin.
    assert (Hnat : k_sign ks <= native_len (k_alg ks)) by (pose proof (proj1 (within_len_bounds_spec _ _) Hwb); lia).
    pose proof (mt_vars_reads_back _ _ _ _ _ _ _ Hrb) as Hv.
    destruct Hrb as (Hfm & Hst & Hown & Halg & Ht & Hf & He & Hmac & Ho & _).
    destruct Hk as (Ha & Hs & Hn).
    unfold client_answer, get_answer_tsig. rewrite Hfm, Hrc. cbn [andb].
    rewrite Hown, Halg, Hn. rewrite <- Ha, name_eqb_refl. cbn [negb orb bind].
    rewrite Hst. cbn [bind]. rewrite Hv.
    assert (Hsig : ctx_sign mac kr (digest_full kr c msg (Vars t fudge RC_NOERROR None)) =
                   ctx_sign mac ks (digest_full ks c msg (Vars t fudge RC_NOERROR None))).
    { unfold ctx_sign, digest_full. rewrite <- Ha, <- Hs.
      rewrite (vars_sign_same ks kr) by (repeat split; assumption). reflexivity. }
    rewrite Hsig, Hmac. unfold signature_slice.
    rewrite compare_truncated; [| first [exact Hwb | rewrite <- Ha; exact Hwb] | exact Hmin | unfold ctx_sign; rewrite mac_len; exact Hnat].
    cbn [bind]. unfold check_answer_time. rewrite Hrc. cbn [andb].
    rewrite Ht, Hf. cbn [v_time v_fudge]. rewrite Hwin. cbn [negb bind]. exact Hrm.
  Qed.

  (* ---------------------------------------------------------- the unsigned run *)
  (* a message without TSIG in the middle of a sequence is accepted iff fewer
     than 99 unsigned messages precede it since the last signed one *)
  Theorem unsigned_step k s m now :
    get_answer_tsig k m = Ok None -> cs_first s = false ->
    (cs_unsigned s < 99 ->
       cseq_answer mac k s m now = (CSeq (cs_ctx s ++ m) false (cs_unsigned s + 1), Ok m)) /\
    (99 <= cs_unsigned s -> cseq_answer mac k s m now = (s, Err VE_TOOMANYUNSIGNED)).
  Proof.
    intros Hg Hf. unfold cseq_answer. rewrite Hg, Hf. unfold unsigned_allowed.
    rewrite (proj2 unsigned_limit_99), (proj1 unsigned_limit_99). split; intros H.
    - destruct (N.ltb_spec (cs_unsigned s) 99); [reflexivity | lia].
    - destruct (N.ltb_spec (cs_unsigned s) 99); [lia | reflexivity].
  Qed.

  (* feed a list of TSIG-less messages *)
  Fixpoint feed_unsigned (k : key) (s : cseq) (ms : list bytes) (now : N) : cseq * bool :=
    match ms with
    | [] => (s, true)
    | m :: r => match cseq_answer mac k s m now with
                | (s', Ok _) => feed_unsigned k s' r now
                | (s', _) => (s', false)
                end
    end.

  Theorem unsigned_run_limit k s ms now :
    cs_first s = false -> Forall (fun m => get_answer_tsig k m = Ok None) ms ->
    (snd (feed_unsigned k s ms now) = true <-> cs_unsigned s + N.of_nat (length ms) <= 99 \/ ms = []).
  Proof.
    intros Hf Hall. revert s Hf. induction Hall as [|m r Hm Hr IH]; intros s Hf.
    - cbn. split; auto.
    - cbn [feed_unsigned length]. destruct (unsigned_step k s m now Hm Hf) as [Hlt Hge].
      destruct (N.ltb_spec (cs_unsigned s) 99) as [H|H].
      + rewrite (Hlt H). rewrite IH by reflexivity. cbn [cs_unsigned].
        split; [intros [H1|H1]; [left; lia | subst r; cbn; left; lia] | intros [H1|H1]; [left; lia | discriminate]].
      + rewrite (Hge H). cbn. split; [discriminate | intros [H1|H1]; [lia | discriminate]].
  Qed.

  (* the counter never exceeds the limit, whatever arrives *)
  Theorem unsigned_counter_bounded k s m now :
    cs_unsigned s <= 99 -> cs_unsigned (fst (cseq_answer mac k s m now)) <= 99.
  Proof.
    intros H. unfold cseq_answer.
    destruct (get_answer_tsig k m) as [[t|]| | |]; try exact H.
    - destruct (stripped m t); try exact H.
      destruct (compare_signatures _ _ _); try exact H.
      destruct (check_answer_time _ _ _); try exact H.
      destruct (cs_first s); cbn; lia.
    - destruct (cs_first s); [exact H|]. unfold unsigned_allowed.
      rewrite (proj2 unsigned_limit_99), (proj1 unsigned_limit_99).
      destruct (N.ltb_spec (cs_unsigned s) 99); cbn; lia.
  Qed.

  (* done(): the last message must have been signed *)
  Theorem done_iff_last_signed s : cseq_done s = Ok tt <-> cs_unsigned s = 0.
  Proof. unfold cseq_done. destruct (N.eqb_spec (cs_unsigned s) 0); split; intros; try congruence; lia. Qed.

  (* ---------------------------------------------------------- tampering *)
  (* Idealised MAC: two digest inputs that agree on the first n >= 10 octets of
     their MAC under the same key are equal.  No real MAC satisfies this
     literally; it is the standard idealisation and stays a premise. *)
  Definition mac_collision_free : Prop :=
    forall a k d d' n, 10 <= n -> take (N.to_nat n) (mac a k d) = take (N.to_nat n) (mac a k d') -> d = d'.

  (* if the server accepts a message, the MAC it carries is the (possibly
     truncated) MAC of exactly the digest input of RFC 8945 for the stripped
     message and the variables in the record *)
  Theorem server_accepts_only_valid_mac k w now c out :
    server_request mac k w now = Ok (SrvOk c out) ->
    exists t sm, from_message w = Ok t /\ stripped w t = Ok sm /\
      k_min k <= len (mt_mac t) /\
      mt_mac t = (let e := ctx_sign mac k (digest_full k [] sm (mt_vars t)) in
                  if len (mt_mac t) <? len e then take (length (mt_mac t)) e else e) /\
      is_valid_at (mt_time t) (mt_fudge t) now = true /\
      name_eqb (k_name k) (mt_owner t) = true /\ mt_algname t = mt_algname t.
  Proof.
    unfold server_request. intros H.
    destruct (from_message w) as [t|e| |] eqn:Hfm; try discriminate.
    2: { destruct (e =? TE_MISSING); discriminate. }
    destruct (alg_from_name (mt_algname t)) as [a|]; [|discriminate].
    destruct (store_get k (mt_owner t) a) eqn:Hst; [|discriminate]. cbn [negb] in H.
    destruct (stripped w t) as [sm| | |] eqn:Hs; try discriminate. cbn [bind] in H.
    destruct (compare_signatures _ _ _) as [[]|e| |] eqn:Hc; try discriminate.
    destruct (is_valid_at _ _ _) eqn:Hv; [|discriminate]. cbn [negb] in H.
    apply compare_ok_core in Hc. apply compare_core_spec in Hc. destruct Hc as [Hc1 Hc2].
    exists t, sm. repeat split; auto.
    unfold store_get in Hst. apply andb_true_iff in Hst. tauto.
  Qed.

  (* tamper rejection: two accepted requests carrying the same MAC were signed
     over the same stripped message and the same variables *)
  Theorem tamper_rejected k w1 w2 now1 now2 c1 c2 o1 o2 t1 t2 s1 s2 :
    mac_collision_free ->
    10 <= k_min k ->
    server_request mac k w1 now1 = Ok (SrvOk c1 o1) -> server_request mac k w2 now2 = Ok (SrvOk c2 o2) ->
    from_message w1 = Ok t1 -> from_message w2 = Ok t2 -> stripped w1 t1 = Ok s1 -> stripped w2 t2 = Ok s2 ->
    mt_mac t1 = mt_mac t2 -> len (mt_mac t1) <= native_len (k_alg k) ->
    s1 ++ vars_sign k (mt_vars t1) = s2 ++ vars_sign k (mt_vars t2).
  Proof.
    intros Hcf Hmin H1 H2 Hf1 Hf2 Hs1 Hs2 Hm Hl.
    apply server_accepts_only_valid_mac in H1. apply server_accepts_only_valid_mac in H2.
    destruct H1 as (t1' & s1' & Hf1' & Hs1' & Hmin1 & He1 & _).
    destruct H2 as (t2' & s2' & Hf2' & Hs2' & Hmin2 & He2 & _).
    rewrite Hf1 in Hf1'. injection Hf1' as <-. rewrite Hf2 in Hf2'. injection Hf2' as <-.
    rewrite Hs1 in Hs1'. injection Hs1' as <-. rewrite Hs2 in Hs2'. injection Hs2' as <-.
    cbn zeta in He1, He2.
    assert (T : forall d, (if len (mt_mac t1) <? len (ctx_sign mac k d) then take (length (mt_mac t1)) (ctx_sign mac k d) else ctx_sign mac k d)
                     = take (N.to_nat (len (mt_mac t1))) (ctx_sign mac k d)).
    { intros d. unfold ctx_sign.
      replace (N.to_nat (len (mt_mac t1))) with (length (mt_mac t1)) by (unfold len; rewrite Nat2N.id; reflexivity).
      rewrite mac_len.
      destruct (N.ltb_spec (len (mt_mac t1)) (native_len (k_alg k))); [reflexivity|].
      unfold take. symmetry. apply firstn_all2.
      pose proof (mac_len (k_alg k) (k_secret k) d) as Hd. unfold len in *. lia. }
    rewrite <- Hm in He2. rewrite T in He1, He2.
    assert (Heq : digest_full k [] s1 (mt_vars t1) = digest_full k [] s2 (mt_vars t2)).
    { apply (Hcf (k_alg k) (k_secret k) _ _ (len (mt_mac t1))); [lia|]. unfold ctx_sign in He1, He2. congruence. }
    exact Heq.
  Qed.
End Generic.

(* ------------------------------------------------------------ non-vacuity with the real HMAC *)
Definition ex_key (mn sg : N) : key := Key Sha256 [48;49;50;51;52;53;54;55;56;57;97;98;99;100;101;102;48;49;50;51] [[75;101;121]; [69;120;97;109;112;108;101]] mn sg.
(* query www.example.com A, ID 0x1234 *)
Definition ex_msg : bytes :=
  [18;52; 0;0; 0;1; 0;0; 0;0; 0;0; 3;119;119;119; 7;101;120;97;109;112;108;101; 3;99;111;109; 0; 0;1; 0;1].
Definition ex_t : N := 1700000000.

Lemma hmac_of_len a k d : len (hmac_of a k d) = native_len a.
Proof.
  unfold len. destruct a; cbn [hmac_of native_len].
  - rewrite hmac_sha1_length. reflexivity.
  - rewrite hmac_sha256_length. reflexivity.
  - rewrite hmac_sha384_length. reflexivity.
  - rewrite hmac_sha512_length. reflexivity.
Qed.

(* the signed request of the harness corpus: same octets as the implementation
   produces (MAC 2ef1939c...), the honest server accepts inside the window and
   restores the octets, and answers BADTIME one second outside *)
Example ex_request_signs_and_verifies :
  exists c w, client_request hmac_of (ex_key 32 32) ex_msg ex_t 300 = Ok (c, w) /\
    firstn 4 (skipn (length w - 38) w) = [46; 241; 147; 156] /\
    (exists out, server_request hmac_of (ex_key 16 32) w (ex_t + 300) = Ok (SrvOk c out) /\ firstn (length ex_msg) out = ex_msg) /\
    server_request hmac_of (ex_key 16 32) w (ex_t + 301) = Ok (SrvBadTime c (Vars ex_t 300 RC_BADTIME (Some (ex_t + 301)))).
Proof.
  eexists. eexists. split. { vm_compute. reflexivity. }
  split. { vm_compute. reflexivity. }
  split. { eexists. split; vm_compute; reflexivity. }
  vm_compute. reflexivity.
Qed.

(* ------------------------------------------------------------ the three repaired defects *)
(* History: at the pinned commit (1) a MAC mismatch was answered FORMERR, (2) a
   TSIG RR with CLASS <> ANY or TTL <> 0 verified, (3) ServerSequence digested
   the untruncated prior MAC.  All three were found by this check's oracle,
   refuted in this model, and are repaired in /repo (fix: commits b40daa9,
   9915138, 1bd6c1f).  T1 reads the repaired shape; the statements below are
   the positive versions. *)
Definition flip_at (w : bytes) (i : nat) : bytes := firstn i w ++ N.lxor (nth i w 0) 1 :: skipn (S i) w.

Lemma server_code_badsig_is_badsig : server_code_badsig = RC_BADSIG /\ server_code_badtrunc = RC_BADTRUNC.
Proof. split; reflexivity. Qed.

(* (1) RFC 8945 5.2.3: a MAC of acceptable length that does not verify is answered BADSIG *)
Lemma server_mac_mismatch_badsig mac k w now t sm a :
  from_message w = Ok t -> alg_from_name (mt_algname t) = Some a -> store_get k (mt_owner t) a = true ->
  stripped w t = Ok sm -> within_len_bounds (k_alg k) (len (mt_mac t)) = true -> k_min k <= len (mt_mac t) ->
  compare_signatures k (ctx_sign mac k (digest_full k [] sm (mt_vars t))) (mt_mac t) <> Ok tt ->
  server_request mac k w now = Err (SE_UNSIGNED + RC_BADSIG).
Proof.
  intros Hf Ha Hs Hst Hw Hmin Hc. unfold server_request. rewrite Hf, Ha, Hs. cbn [negb]. rewrite Hst. cbn [bind].
  rewrite compare_core_eq in * by exact Hw.
  destruct (compare_core _ _ _) as [[]|e| |] eqn:E.
  - congruence.
  - apply compare_core_err in E. destruct E as [[-> Hl]|[-> _]]; [lia|]. reflexivity.
  - unfold compare_core in E. cbn zeta in E. destruct (_ <? _); [discriminate|]. destruct (bytes_eqb _ _); discriminate.
  - unfold compare_core in E. cbn zeta in E. destruct (_ <? _); [discriminate|]. destruct (bytes_eqb _ _); discriminate.
Qed.

(* ... and a MAC shorter than min_mac_len is answered BADTRUNC *)
Lemma server_short_mac_badtrunc mac k w now t sm a :
  from_message w = Ok t -> alg_from_name (mt_algname t) = Some a -> store_get k (mt_owner t) a = true ->
  stripped w t = Ok sm -> within_len_bounds (k_alg k) (len (mt_mac t)) = true -> len (mt_mac t) < k_min k ->
  server_request mac k w now = Err (SE_UNSIGNED + RC_BADTRUNC).
Proof.
  intros Hf Ha Hs Hst Hw Hmin. unfold server_request. rewrite Hf, Ha, Hs. cbn [negb]. rewrite Hst. cbn [bind].
  rewrite compare_core_eq by exact Hw.
  unfold compare_core. destruct (N.ltb_spec (len (mt_mac t)) (k_min k)); [reflexivity | lia].
Qed.

(* RFC 8945 5.2.2.1: with the size gate in the source (T1), a MAC longer than the
   digest or shorter than max(10, half of it) is answered FORMERR *)
Lemma server_mac_size_formerr mac k w now t sm a :
  compare_checks_rfc_size = true ->
  from_message w = Ok t -> alg_from_name (mt_algname t) = Some a -> store_get k (mt_owner t) a = true ->
  stripped w t = Ok sm -> within_len_bounds (k_alg k) (len (mt_mac t)) = false ->
  server_request mac k w now = Err (SE_UNSIGNED + server_code_other).
Proof.
  intros Hg Hf Ha Hs Hst Hw. unfold server_request. rewrite Hf, Ha, Hs. cbn [negb]. rewrite Hst. cbn [bind].
  rewrite compare_size_formerr by assumption. reflexivity.
Qed.

Example server_badsig_ex :
  exists c w, client_request hmac_of (ex_key 32 32) ex_msg ex_t 300 = Ok (c, w) /\
    server_request hmac_of (ex_key 32 32) (flip_at w 14) ex_t = Err (SE_UNSIGNED + RC_BADSIG).
Proof. eexists. eexists. split. { vm_compute. reflexivity. } vm_compute. reflexivity. Qed.

(* (2) a TSIG record whose CLASS is not ANY or whose TTL is not 0 is never located *)
Lemma tsig_class_ttl_enforced fuel m pos lim count h :
  count <> 0 -> record_parse m pos lim = Ok h -> rh_type h = RTYPE_TSIG ->
  (rh_class h <> CLASS_ANY \/ rh_ttl h <> 0) ->
  forall t, find_tsig (S fuel) m pos lim count <> Ok t.
Proof.
  intros Hc Hp Ht Hbad t. cbn [find_tsig]. destruct (N.eqb_spec count 0); [contradiction|].
  rewrite Hp. cbn [to_err bind]. rewrite Ht, N.eqb_refl.
  destruct (tsig_parse m h pos); cbn [to_err bind]; try discriminate.
  replace tsig_class_ttl_checked with true by reflexivity. cbn [andb].
  destruct (N.eqb_spec (rh_class h) CLASS_ANY), (N.eqb_spec (rh_ttl h) 0); cbn [negb orb]; try discriminate.
  destruct Hbad; contradiction.
Qed.

Example tsig_class_ex :
  exists c w, client_request hmac_of (ex_key 32 32) ex_msg ex_t 300 = Ok (c, w) /\
    server_request hmac_of (ex_key 32 32) (flip_at w (length ex_msg + 13 + 3)) ex_t = Err (SE_UNSIGNED + RC_FORMERR) /\
    server_request hmac_of (ex_key 32 32) (flip_at w (length ex_msg + 13 + 7)) ex_t = Err (SE_UNSIGNED + RC_FORMERR).
Proof. eexists. eexists. split. { vm_compute. reflexivity. } split. { vm_compute. reflexivity. } vm_compute. reflexivity. Qed.

(* (3) the context of a ServerSequence holds the MAC as sent (truncated), which
       is what the client applies (mt_mac of the received record) *)
Lemma server_seq_context_is_sent_mac mac k c first msg now fudge c' w :
  server_seq_answer mac k c first msg now fudge = Ok (c', w) ->
  exists full, full = ctx_sign mac k (if first then digest_full k c msg (Vars now fudge RC_NOERROR None)
                                      else digest_timers k c msg (Vars now fudge RC_NOERROR None)) /\
    c' = apply_signature [] (signature_slice k full) /\
    push_tsig k (Vars now fudge RC_NOERROR None) (signature_slice k full) msg = Ok w.
Proof.
  intros H. unfold server_seq_answer in H. cbn zeta in H.
  replace server_seq_applies_full_mac with false in H by reflexivity.
  destruct first; (destruct (push_tsig _ _ _ msg) as [x| | |] eqn:E; try discriminate;
    cbn in H; injection H as <- <-; eexists; split; [reflexivity|]; split; [reflexivity | exact E]).
Qed.

Definition ex_answer (n : N) : bytes :=
  [18;52; 132;0; 0;1; 0;1; 0;0; 0;0; 3;119;119;119; 7;101;120;97;109;112;108;101; 3;99;111;109; 0; 0;1; 0;1;
   192;12; 0;1; 0;1; 0;0;0;60; 0;4; 10;0;0;n].

(* a three message sequence signed with MACs truncated to 16 octets verifies *)
Example sequence_truncated_ex :
  exists c0 w c1 w1 c2 w2 s1 s2,
    client_request hmac_of (ex_key 16 16) ex_msg ex_t 300 = Ok (c0, w) /\
    server_seq_answer hmac_of (ex_key 16 16) c0 true (ex_answer 1) ex_t 300 = Ok (c1, w1) /\
    server_seq_answer hmac_of (ex_key 16 16) c1 false (ex_answer 2) ex_t 300 = Ok (c2, w2) /\
    cseq_answer hmac_of (ex_key 16 16) (CSeq c0 true 0) w1 ex_t = (s1, Ok (ex_answer 1 ++ skipn (length (ex_answer 1)) w1)) /\
    cseq_answer hmac_of (ex_key 16 16) s1 w2 ex_t = (s2, Ok (ex_answer 2 ++ skipn (length (ex_answer 2)) w2)) /\
    cseq_done s2 = Ok tt.
Proof.
  do 8 eexists.
  split. { vm_compute. reflexivity. }
  split. { vm_compute. reflexivity. }
  split. { vm_compute. reflexivity. }
  split. { vm_compute. reflexivity. }
  split. { vm_compute. reflexivity. }
  vm_compute. reflexivity.
Qed.

(* ------------------------------------------------------------ T1 ties of the repaired sites *)
(* a changed shape of the source flips these generated values and breaks the lemmas *)
Lemma repaired_shapes :
  compare_checks_rfc_size = true /\ formerr_plain_response = true /\ tsig_class_ttl_checked = true /\
  server_seq_applies_full_mac = false /\ server_code_badsig = RC_BADSIG /\ server_code_other = RC_FORMERR /\
  server_code_badtrunc = RC_BADTRUNC /\ server_mac_before_time = true /\
  tsig_scan_all_sections = true /\ client_wrapper_validates_all = true /\ client_steps_checked = true /\
  remove_tsig_sets_original_id = true.
Proof. repeat split. Qed.

Lemma prior_mac_prefix_width m : length (apply_signature [] m) = (N.to_nat prior_mac_len_prefix_octets + length m)%nat.
Proof. unfold apply_signature. cbn [app]. rewrite app_length. reflexivity. Qed.

Lemma server_mac_size_formerr_now mac k w now t sm a :
  from_message w = Ok t -> alg_from_name (mt_algname t) = Some a -> store_get k (mt_owner t) a = true ->
  stripped w t = Ok sm -> within_len_bounds (k_alg k) (len (mt_mac t)) = false ->
  server_request mac k w now = Err (SE_UNSIGNED + RC_FORMERR).
Proof. intros. eapply (server_mac_size_formerr mac); eauto. Qed.
