import hashlib, sys
import os; sys.path.insert(0, os.path.dirname(os.path.abspath(__file__)))
from sha_consts import P, frac_cbrt, frac_sqrt

def lst(xs, per=4):
    rows=[]
    for i in range(0,len(xs),per):
        rows.append("; ".join(str(x) for x in xs[i:i+per]))
    return "[ " + ";\n    ".join(rows) + " ]"

def x3(a,b,c):
    return "if %s then (if %s then %s else negb %s) else (if %s then negb %s else %s)"%(a,b,c,c,b,c,c)

def gen_word(W):
    """Gallina text of the W-bit word type and its operations. Bit i = 2^i; constructor lists bit W-1 first."""
    T="w%d"%W; C="W%d"%W
    idx=list(range(W-1,-1,-1))
    def pat(v): return "%s %s" % (C," ".join("%s%d"%(v,i) for i in idx))
    def mk(f): return "%s %s" % (C," ".join("(%s)"%f(i) if " " in f(i) else f(i) for i in idx))
    o=[]
    o.append("Inductive %s : Type := %s (%s : bool)." % (T,C," ".join("x%d"%i for i in idx)))
    def bin(name, f):
        o.append("Definition %s_%s (a b : %s) : %s :=\n  match a, b with %s, %s =>\n    %s\n  end." % (T,name,T,T,pat("a"),pat("b"),mk(f)))
    def tern(name, f):
        o.append("Definition %s_%s (a b c : %s) : %s :=\n  match a, b, c with %s, %s, %s =>\n    %s\n  end." % (T,name,T,T,pat("a"),pat("b"),pat("c"),mk(f)))
    def un(name, f):
        o.append("Definition %s_%s (a : %s) : %s :=\n  match a with %s =>\n    %s\n  end." % (T,name,T,T,pat("a"),mk(f)))
    bin("xor", lambda i: "xorb a%d b%d"%(i,i))
    tern("xor3", lambda i: x3("a%d"%i,"b%d"%i,"c%d"%i))
    tern("ch", lambda i: "if a%d then b%d else c%d"%(i,i,i))          # (a & b) ^ (~a & c)
    tern("maj", lambda i: "if a%d then orb b%d c%d else andb b%d c%d"%(i,i,i,i,i))
    def rot(i,n): return "a%d"%((i+n)%W)            # bit i of rotr n
    def shr(i,n): return "a%d"%(i+n) if i+n<W else "false"
    if W==32:
        sig=dict(bsig0=[("r",2),("r",13),("r",22)], bsig1=[("r",6),("r",11),("r",25)],
                 ssig0=[("r",7),("r",18),("s",3)], ssig1=[("r",17),("r",19),("s",10)])
        for n in (1,5,30):
            un("rotl%d"%n, lambda i,n=n: rot(i,W-n))
    else:
        sig=dict(bsig0=[("r",28),("r",34),("r",39)], bsig1=[("r",14),("r",18),("r",41)],
                 ssig0=[("r",1),("r",8),("s",7)], ssig1=[("r",19),("r",61),("s",6)])
    for name,spec in sig.items():
        def f(i,spec=spec):
            t=[rot(i,n) if k=="r" else shr(i,n) for k,n in spec]
            if t[2]=="false": return "xorb %s %s"%(t[0],t[1])
            return x3(t[0],t[1],t[2])
        un(name,f)
    # addition mod 2^W, ripple carry from bit 0; one decision tree per full adder
    lines=["Definition %s_add (a b : %s) : %s :=\n  match a, b with %s, %s =>" % (T,T,T,pat("a"),pat("b"))]
    lines.append("    let s0 := xorb a0 b0 in let c1 := andb a0 b0 in")
    for i in range(1,W):
        if i<W-1:
            lines.append("    let '(s%d, c%d) := fa a%d b%d c%d in"%(i,i+1,i,i,i))
        else:
            lines.append("    let s%d := xorb a%d (xorb b%d c%d) in"%(i,i,i,i))
    lines.append("    %s %s\n  end." % (C," ".join("s%d"%i for i in idx)))
    o.append("\n".join(lines))
    # conversions
    nb=W//8
    bs=["o%d"%k for k in range(nb)]   # o0 most significant octet
    def bitexpr(i):
        k=nb-1-i//8
        return "N.testbit o%d %d"%(k,i%8)
    o.append("Definition %s_of_octets (%s : N) : %s :=\n  %s." % (T," ".join(bs),T,mk(bitexpr)))
    def octet(k):
        hi=8*(nb-k)-1
        e="0"
        for i in range(hi,hi-8,-1):
            e="nb a%d (%s)"%(i,e)
        return e
    o.append("Definition octets_of_%s (a : %s) : list N :=\n  match a with %s =>\n    [ %s ]\n  end." % (T,T,pat("a"),";\n      ".join(octet(k) for k in range(nb))))
    o.append("Definition %s_of_N (x : N) : %s :=\n  %s." % (T,T,mk(lambda i:"N.testbit x %d"%i)))
    return "\n\n".join(o)

K256=[frac_cbrt(p,32) for p in P[:64]]
K512=[frac_cbrt(p,64) for p in P[:80]]
IV256=[frac_sqrt(p,32) for p in P[:8]]
IV512=[frac_sqrt(p,64) for p in P[:8]]
IV384=[frac_sqrt(p,64) for p in P[8:16]]
msgs=[("abc","abc"),("empty",""),("m56","abcdbcdecdefdefgefghfghighijhijkijkljklmklmnlmnomnopnopq"),
      ("m112","abcdefghbcdefghicdefghijdefghijkefghijklfghijklmghijklmnhijklmnoijklmnopjklmnopqklmnopqrlmnopqrsmnopqrstnopqrstu")]
ex=[]
for alg in ("sha1","sha256","sha384","sha512"):
    for nm,m in msgs:
        d=getattr(hashlib,alg)(m.encode()).hexdigest()
        ex.append('Example %s_%s : hex (%s (str "%s")) = "%s"%%string.\nProof. vm_compute. reflexivity. Qed.' % (alg,nm,alg,m,d))
for alg in ("sha1","sha256","sha384","sha512"):
    for n in (55,63,64,65,111,112,119,120,127,128,129,1000):
        d=getattr(hashlib,alg)(b"a"*n).hexdigest()
        ex.append('Example %s_a%d : hex (%s (repeat 97 %d)) = "%s"%%string.\nProof. vm_compute. reflexivity. Qed.' % (alg,n,alg,n,d))
    m=bytes(range(256))
    d=getattr(hashlib,alg)(m).hexdigest()
    ex.append('Example %s_all_octets : hex (%s (map N.of_nat (seq 0 256))) = "%s"%%string.\nProof. vm_compute. reflexivity. Qed.' % (alg,alg,d))
T=open('/verif/coq/C11/sha_gen.tmpl').read()
T=(T.replace("@W32@",gen_word(32)).replace("@W64@",gen_word(64))
    .replace("@K256@",lst(K256)).replace("@K512@",lst(K512,3)).replace("@IV256@",lst(IV256))
    .replace("@IV512@",lst(IV512,2)).replace("@IV384@",lst(IV384,2)).replace("@EXAMPLES@","\n".join(ex)))
open('/verif/coq/C11/Sha.v','w').write(T)
