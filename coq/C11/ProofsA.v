(* C11/ProofsA.v -- widening round: the rejections the property text names
   that had no theorem yet (unknown key / algorithm, malformed or misplaced
   TSIG on both sides, an honest answer outside the window on the client), and
   the honest multi-message sequence: every ServerSequence step verifies in
   ClientSequence and both ends hold the same context afterwards. *)
From Coq Require Import NArith List Bool Lia ZArith.
From Coq Require Import ZifyN ZifyBool ZifyNat.
From DV Require Import Base.Outcome Base.Bytes Base.Names Base.PName.
From DV Require Import C01.Proofs C01.Proofs3 C02.ProofsBasic C02.ProofsName C02.ProofsComp C02.ProofsTop.
From DV Require Import C11.Gen C11.Model C11.Proofs C11.Proofs2 C11.Proofs4 C11.Exec.
Import ListNotations.
Local Open Scope N_scope.

(* ------------------------------------------------------------ rejections that need no MAC *)
Section Reject.
  Variable mac : alg -> bytes -> bytes -> bytes.

  (* server: a TSIG whose algorithm name is none of the four, or whose owner /
     algorithm is not the key's, is BADKEY -- before any digest is computed *)
  Theorem server_unknown_key_badkey k w now t :
    from_message w = Ok t ->
    (alg_from_name (mt_algname t) = None \/
     exists a, alg_from_name (mt_algname t) = Some a /\ store_get k (mt_owner t) a = false) ->
    server_request mac k w now = Err (SE_UNSIGNED + RC_BADKEY).
  Proof.
    intros Hf [Hn | (a & Ha & Hs)]; unfold server_request; rewrite Hf.
    - rewrite Hn. reflexivity.
    - rewrite Ha, Hs. reflexivity.
  Qed.

  (* server: whatever from_message refuses (TSIG not last, two TSIGs, TSIG in
     another section, bad CLASS/TTL, unparsable) is FORMERR; no TSIG at all is
     not an error (Ok(None)) *)
  Theorem server_from_message_error k w now e :
    from_message w = Err e ->
    server_request mac k w now = if e =? TE_MISSING then Ok SrvNone else Err (SE_UNSIGNED + RC_FORMERR).
  Proof. intros Hf. unfold server_request. rewrite Hf. reflexivity. Qed.

  (* client transaction: the same two classes are ServerUnsigned / FormErr *)
  Theorem client_from_message_error k c m now e :
    from_message m = Err e ->
    client_answer mac k c m now = Err (if e =? TE_MISSING then VE_SERVERUNSIGNED else VE_FORMERR).
  Proof.
    intros Hf. unfold client_answer, get_answer_tsig. rewrite Hf.
    destruct (e =? TE_MISSING); reflexivity.
  Qed.

  (* client: a TSIG under another key name or algorithm is BadKey (unless the
     server reports BADKEY/BADSIG itself under NOTAUTH) *)
  Theorem client_wrong_key_badkey k c m now t :
    from_message m = Ok t -> (hdr_rcode m =? RC_NOTAUTH) = false ->
    (name_eqb (mt_owner t) (k_name k) = false \/ name_eqb (mt_algname t) [alg_label (k_alg k)] = false) ->
    client_answer mac k c m now = Err VE_BADKEY /\
    (forall s, cseq_answer mac k s m now = (s, Err VE_BADKEY)).
  Proof.
    intros Hf Hrc Hk.
    assert (Hg : get_answer_tsig k m = Err VE_BADKEY).
    { unfold get_answer_tsig. rewrite Hf, Hrc. cbn [andb].
      destruct Hk as [Hk | Hk]; rewrite Hk; cbn [negb orb]; [reflexivity|].
      destruct (name_eqb (mt_owner t) (k_name k)); reflexivity. }
    split.
    - unfold client_answer. rewrite Hg. reflexivity.
    - intros s. unfold cseq_answer. rewrite Hg. reflexivity.
  Qed.

  (* client: NOTAUTH with TSIG error BADKEY / BADSIG is reported as the
     server's verdict without looking at key or MAC *)
  Theorem client_server_verdict k c m now t :
    from_message m = Ok t -> (hdr_rcode m =? RC_NOTAUTH) = true ->
    (mt_error t = RC_BADKEY -> client_answer mac k c m now = Err VE_SERVERBADKEY) /\
    (mt_error t = RC_BADSIG -> client_answer mac k c m now = Err VE_SERVERBADSIG).
  Proof.
    intros Hf Hrc. split; intros He; unfold client_answer, get_answer_tsig; rewrite Hf, Hrc, He; reflexivity.
  Qed.
End Reject.

Example reject_ex :
  from_message ex_msg = Err TE_MISSING /\
  server_request hmac_of (ex_key 16 32) ex_msg ex_t = Ok SrvNone /\
  client_answer hmac_of (ex_key 16 32) [] ex_msg ex_t = Err VE_SERVERUNSIGNED.
Proof. repeat split; vm_compute; reflexivity. Qed.

(* a request signed under the key name "Key.Example" is BADKEY for a server
   that holds "Other.Example", and BadKey for such a client *)
Definition ex_other_key : key :=
  Key Sha256 (k_secret (ex_key 32 32)) [[79;116;104;101;114]; [69;120;97;109;112;108;101]] 32 32.
Example unknown_key_ex :
  exists c w t, client_request hmac_of (ex_key 32 32) ex_msg ex_t 300 = Ok (c, w) /\
    from_message w = Ok t /\ alg_from_name (mt_algname t) = Some Sha256 /\
    store_get ex_other_key (mt_owner t) Sha256 = false /\
    server_request hmac_of ex_other_key w ex_t = Err (SE_UNSIGNED + RC_BADKEY) /\
    name_eqb (mt_owner t) (k_name ex_other_key) = false /\
    client_answer hmac_of ex_other_key [] w ex_t = Err VE_BADKEY.
Proof.
  do 3 eexists. split. { vm_compute. reflexivity. }
  split. { vm_compute. reflexivity. }
  repeat split; vm_compute; reflexivity.
Qed.

(* ------------------------------------------------------------ honest answers: window and sequences *)
Section Honest.
  Variable mac : alg -> bytes -> bytes -> bytes.
  Hypothesis mac_len : forall a k d, len (mac a k d) = native_len a.

  Lemma vars_sign_timers_same a b v : vars_sign_timers a v = vars_sign_timers b v.
  Proof. unfold vars_sign_timers. rewrite timers_order_eq. reflexivity. Qed.

  (* what the verifier computes over the signer's digest, and what it makes of
     the (possibly truncated) MAC the signer sent *)
  Lemma honest_compare ks kr d d' :
    k_alg ks = k_alg kr -> k_secret ks = k_secret kr -> d = d' ->
    k_min kr <= k_sign ks -> within_len_bounds (k_alg ks) (k_sign ks) = true ->
    compare_signatures kr (ctx_sign mac kr d') (signature_slice ks (ctx_sign mac ks d)) = Ok tt.
  Proof.
    intros Ha Hs <- Hmin Hwb.
    assert (Hnat : k_sign ks <= native_len (k_alg ks)) by (pose proof (proj1 (within_len_bounds_spec _ _) Hwb); lia).
    replace (ctx_sign mac kr d) with (ctx_sign mac ks d) by (unfold ctx_sign; rewrite Ha, Hs; reflexivity).
    unfold signature_slice.
    apply (compare_truncated mac mac_len); [rewrite <- Ha; exact Hwb | exact Hmin | unfold ctx_sign; rewrite mac_len; exact Hnat].
  Qed.

  (* answer outside the window: the MAC verifies, the time does not *)
  Theorem answer_outside_window ks kr c msg t fudge now w tl :
    same_key ks kr -> k_min kr <= k_sign ks -> within_len_bounds (k_alg ks) (k_sign ks) = true ->
    reads_back w msg (k_name ks) (k_alg ks) (Vars t fudge RC_NOERROR None)
               (signature_slice ks (ctx_sign mac ks (digest_full ks c msg (Vars t fudge RC_NOERROR None)))) tl ->
    (hdr_rcode w =? RC_NOTAUTH) = false ->
    is_valid_at t fudge now = false ->
    client_answer mac kr c w now = Err VE_BADTIME.
  Proof.
    intros Hk Hmin Hwb Hrb Hrc Hwin.
    pose proof (mt_vars_reads_back _ _ _ _ _ _ _ Hrb) as Hv.
    destruct Hrb as (Hfm & Hst & Hown & Halg & Ht & Hf & He & Hmac & Ho & _).
    pose proof Hk as (Ha & Hs & Hn).
    unfold client_answer, get_answer_tsig. rewrite Hfm, Hrc. cbn [andb].
    rewrite Hown, Halg, Hn. rewrite <- Ha, name_eqb_refl. cbn [negb orb bind].
    rewrite Hst. cbn [bind]. rewrite Hv, Hmac.
    rewrite honest_compare; auto.
    2:{ unfold digest_full. rewrite (vars_sign_same ks kr) by exact Hk. reflexivity. }
    cbn [bind]. unfold check_answer_time. rewrite Hrc. cbn [andb].
    rewrite Ht, Hf. cbn [v_time v_fudge]. rewrite Hwin. reflexivity.
  Qed.

  (* one step of a sequence: ServerSequence::answer on one side,
     ClientSequence::answer on the other, both holding context [c] *)
  Theorem sequence_step ks kr c first u msg t fudge now c' w tl out :
    same_key ks kr -> k_min kr <= k_sign ks -> within_len_bounds (k_alg ks) (k_sign ks) = true ->
    server_seq_answer mac ks c first msg t fudge = Ok (c', w) ->
    reads_back w msg (k_name ks) (k_alg ks) (Vars t fudge RC_NOERROR None)
               (signature_slice ks (ctx_sign mac ks
                  (if first then digest_full ks c msg (Vars t fudge RC_NOERROR None)
                   else digest_timers ks c msg (Vars t fudge RC_NOERROR None)))) tl ->
    remove_tsig w tl = Ok out ->
    (hdr_rcode w =? RC_NOTAUTH) = false ->
    is_valid_at t fudge now = true ->
    cseq_answer mac kr (CSeq c first u) w now = (CSeq c' false (if first then u else 0), Ok out).
  Proof.
    intros Hk Hmin Hwb Hsrv Hrb Hrm Hrc Hwin.
    pose proof (mt_vars_reads_back _ _ _ _ _ _ _ Hrb) as Hv.
    destruct Hrb as (Hfm & Hst & Hown & Halg & Ht & Hf & He & Hmac & Ho & _).
    pose proof Hk as (Ha & Hs & Hn).
    unfold server_seq_answer in Hsrv. cbn zeta in Hsrv.
    change server_seq_applies_full_mac with false in Hsrv. cbv iota in Hsrv.
    destruct (push_tsig _ _ _ _) as [w'| | |]; try discriminate. cbn [bind] in Hsrv.
    injection Hsrv as Hc Hw.
    unfold cseq_answer, get_answer_tsig. rewrite Hfm, Hrc. cbn [andb].
    rewrite Hown, Halg, Hn. rewrite <- Ha, name_eqb_refl. cbn [negb orb].
    rewrite Hst. cbn [cs_first cs_ctx cs_unsigned]. rewrite Hv, Hmac.
    destruct first.
    - rewrite honest_compare; auto.
      2:{ unfold digest_full. rewrite (vars_sign_same ks kr) by exact Hk. reflexivity. }
      unfold check_answer_time. rewrite Hrc. cbn [andb].
      rewrite Ht, Hf. cbn [v_time v_fudge]. rewrite Hwin. cbn [negb cs_ctx cs_first cs_unsigned].
      rewrite Hrm, <- Hc. reflexivity.
    - rewrite honest_compare; auto;
        try (unfold digest_timers; rewrite (vars_sign_timers_same ks kr); reflexivity).
      unfold check_answer_time. rewrite Hrc. cbn [andb].
      rewrite Ht, Hf. cbn [v_time v_fudge]. rewrite Hwin. cbn [negb cs_ctx cs_first cs_unsigned].
      rewrite Hrm, <- Hc. reflexivity.
  Qed.

  (* the RCODE of the signed wire is the message's *)
  Lemma rcode_signed msg rr : 12 <= mlen msg ->
    hdr_rcode (set_arcount msg (arcount msg + 1) ++ rr) = hdr_rcode msg.
  Proof.
    intros H12.
    assert (H12' : 12 <= mlen (set_arcount msg (arcount msg + 1))) by (rewrite mlen_set_arcount; auto).
    destruct (hdr_app (set_arcount msg (arcount msg + 1)) rr H12') as (_ & _ & _ & _ & _ & E1).
    destruct (counts_set_arcount msg (arcount msg + 1) H12) as (_ & _ & _ & _ & E2).
    rewrite E1, E2. reflexivity.
  Qed.

  (* premise-free versions over laid out messages *)
  Theorem answer_outside_window_full ks kr c msg nq an ns ar t fudge now w :
    same_key ks kr -> k_min kr <= k_sign ks -> within_len_bounds (k_alg ks) (k_sign ks) = true ->
    MsgAt msg nq an ns ar -> name_ok (k_name ks) -> t < T48_LIMIT -> fudge < 65536 ->
    (hdr_rcode msg =? RC_NOTAUTH) = false ->
    server_answer mac ks c msg t fudge = Ok w ->
    is_valid_at t fudge now = false ->
    client_answer mac kr c w now = Err VE_BADTIME.
  Proof.
    intros Hk Hmin Hw Hm Hn Ht Hf Hrc Hans Hwin.
    pose proof Hans as Ep. unfold server_answer, server_answer_vars in Ep. cbn zeta in Ep.
    destruct (push_tsig_inv _ _ _ _ _ Ep eq_refl) as (Har & Hlen & Ew). cbn [v_time v_fudge v_error] in *.
    eapply (answer_outside_window ks kr c msg t fudge now w); eauto.
    - rewrite Ew. apply (reads_back_signed msg nq an ns ar ks (Vars t fudge RC_NOERROR None)); auto. cbn. reflexivity || (unfold RC_NOERROR; lia).
    - rewrite Ew. destruct Hm as (H12m & _). rewrite rcode_signed by exact H12m. exact Hrc.
  Qed.

  Theorem sequence_step_full ks kr c first u msg nq an ns ar t fudge now c' w :
    same_key ks kr -> k_min kr <= k_sign ks -> within_len_bounds (k_alg ks) (k_sign ks) = true ->
    MsgAt msg nq an ns ar -> name_ok (k_name ks) -> t < T48_LIMIT -> fudge < 65536 ->
    (hdr_rcode msg =? RC_NOTAUTH) = false ->
    server_seq_answer mac ks c first msg t fudge = Ok (c', w) ->
    is_valid_at t fudge now = true ->
    exists rr, w = set_arcount msg (arcount msg + 1) ++ rr /\
      cseq_answer mac kr (CSeq c first u) w now = (CSeq c' false (if first then u else 0), Ok (msg ++ rr)).
  Proof.
    intros Hk Hmin Hw Hm Hn Ht Hf Hrc Hsrv Hwin.
    pose proof Hsrv as Hs0. unfold server_seq_answer in Hs0. cbn zeta in Hs0.
    destruct first; cbv iota in Hs0;
    (destruct (push_tsig _ _ _ _) as [w'| | |] eqn:Ep; try discriminate); cbn [bind] in Hs0; injection Hs0 as _ <-;
    destruct (push_tsig_inv _ _ _ _ _ Ep eq_refl) as (Har & Hlen & Ew); cbn [v_time v_fudge v_error] in *;
    (eexists; split; [exact Ew|]).
    - eapply (sequence_step ks kr c true u msg t fudge now c' w'); eauto.
      + rewrite Ew. apply (reads_back_signed msg nq an ns ar ks (Vars t fudge RC_NOERROR None)); auto. cbn. reflexivity || (unfold RC_NOERROR; lia).
      + rewrite Ew. apply (remove_tsig_signed msg nq an ns ar ks (Vars t fudge RC_NOERROR None)); auto. cbn. reflexivity || (unfold RC_NOERROR; lia).
      + rewrite Ew. destruct Hm as (H12m & _). rewrite rcode_signed by exact H12m. exact Hrc.
    - eapply (sequence_step ks kr c false u msg t fudge now c' w'); eauto.
      + rewrite Ew. apply (reads_back_signed msg nq an ns ar ks (Vars t fudge RC_NOERROR None)); auto. cbn. reflexivity || (unfold RC_NOERROR; lia).
      + rewrite Ew. apply (remove_tsig_signed msg nq an ns ar ks (Vars t fudge RC_NOERROR None)); auto. cbn. reflexivity || (unfold RC_NOERROR; lia).
      + rewrite Ew. destruct Hm as (H12m & _). rewrite rcode_signed by exact H12m. exact Hrc.
  Qed.

  (* ---------------------------------------------------------- whole streams *)
  (* A stream of any length: ServerSequence signs message after message (the
     first with the full variables, the others with the timers), ClientSequence
     verifies them in order.  Invariant: after every message both ends hold the
     same context and the client's unsigned counter is 0. *)
  Record item := Item { i_msg : bytes; i_t : N; i_fudge : N; i_now : N }.

  Inductive signed_stream (ks : key) : ctx -> bool -> list item -> list bytes -> ctx -> Prop :=
  | ss_nil c f : signed_stream ks c f [] [] c
  | ss_cons c f it c1 w rest ws c2 :
      server_seq_answer mac ks c f (i_msg it) (i_t it) (i_fudge it) = Ok (c1, w) ->
      signed_stream ks c1 false rest ws c2 ->
      signed_stream ks c f (it :: rest) (w :: ws) c2.

  Fixpoint client_feed (kr : key) (s : cseq) (ws : list bytes) (its : list item) : cseq * list (outcome bytes) :=
    match ws, its with
    | w :: ws', it :: its' =>
        let s1 := fst (cseq_answer mac kr s w (i_now it)) in
        let o := snd (cseq_answer mac kr s w (i_now it)) in
        (fst (client_feed kr s1 ws' its'), o :: snd (client_feed kr s1 ws' its'))
    | _, _ => (s, [])
    end.

  Definition item_ok (it : item) : Prop :=
    (exists nq an ns ar, MsgAt (i_msg it) nq an ns ar) /\ i_t it < T48_LIMIT /\ i_fudge it < 65536 /\
    (hdr_rcode (i_msg it) =? RC_NOTAUTH) = false /\ is_valid_at (i_t it) (i_fudge it) (i_now it) = true.

  Theorem sequence_stream ks kr :
    same_key ks kr -> k_min kr <= k_sign ks -> within_len_bounds (k_alg ks) (k_sign ks) = true ->
    name_ok (k_name ks) ->
    forall c f its ws c2, signed_stream ks c f its ws c2 -> Forall item_ok its ->
    exists f', fst (client_feed kr (CSeq c f 0) ws its) = CSeq c2 f' 0 /\ (its <> [] -> f' = false) /\
      Forall2 (fun it o => exists rr, o = Ok (i_msg it ++ rr)) its (snd (client_feed kr (CSeq c f 0) ws its)) /\
      cseq_done (fst (client_feed kr (CSeq c f 0) ws its)) = Ok tt.
  Proof.
    intros Hk Hmin Hw Hn c f its ws c2 Hs. induction Hs as [c f | c f it c1 w rest ws c2 Hsrv Hs IH]; intros Hok.
    - exists f. cbn. repeat split; [congruence | constructor].
    - inversion Hok as [| x l Hit Hrest]; subst. destruct Hit as ((nq & an & ns & ar & Hm) & Ht & Hf & Hrc & Hwin).
      destruct (sequence_step_full ks kr c f 0 (i_msg it) nq an ns ar (i_t it) (i_fudge it) (i_now it) c1 w
                  Hk Hmin Hw Hm Hn Ht Hf Hrc Hsrv Hwin) as (rr & Ew & Hstep).
      replace (if f then 0 else 0) with 0 in Hstep by (destruct f; reflexivity).
      destruct (IH Hrest) as (f' & Hfst & Hne & Houts & Hdone).
      exists f'. cbn [client_feed]. rewrite Hstep. cbn [fst snd].
      split; [exact Hfst|]. split.
      + intros _. destruct rest as [|it2 rest2].
        * inversion Hs; subst. cbn in Hfst. injection Hfst as <-. reflexivity.
        * apply Hne. discriminate.
      + split; [|exact Hdone]. constructor; [exists rr; reflexivity | exact Houts].
  Qed.
End Honest.

(* non-vacuity: the corpus answer signed inside a transaction is BadTime one
   second outside the window; (the sequence steps: sequence_truncated_ex) *)
Example answer_outside_window_ex :
  exists c0 w0 w, client_request hmac_of (ex_key 32 32) ex_msg ex_t 300 = Ok (c0, w0) /\
    server_answer hmac_of (ex_key 32 16) c0 (ex_answer 1) ex_t 300 = Ok w /\
    client_answer hmac_of (ex_key 16 32) c0 w (ex_t + 301) = Err VE_BADTIME /\
    (hdr_rcode (ex_answer 1) =? RC_NOTAUTH) = false.
Proof.
  do 3 eexists. split. { vm_compute. reflexivity. }
  split. { vm_compute. reflexivity. }
  split; vm_compute; reflexivity.
Qed.

(* non-vacuity of the stream relation: two answers signed by ServerSequence
   with MACs truncated to 16 octets (the client side of the same stream is
   executed in sequence_truncated_ex) *)
Example signed_stream_ex :
  exists c0 w0 ws c2, client_request hmac_of (ex_key 16 16) ex_msg ex_t 300 = Ok (c0, w0) /\
    signed_stream hmac_of (ex_key 16 16) c0 true
      [Item (ex_answer 1) ex_t 300 ex_t; Item (ex_answer 2) ex_t 300 (ex_t + 300)] ws c2 /\
    length ws = 2%nat /\
    cseq_done (fst (client_feed hmac_of (ex_key 16 16) (CSeq c0 true 0) ws
      [Item (ex_answer 1) ex_t 300 ex_t; Item (ex_answer 2) ex_t 300 (ex_t + 300)])) = Ok tt.
Proof.
  do 4 eexists. split. { vm_compute. reflexivity. }
  split. { eapply ss_cons; [vm_compute; reflexivity|]. eapply ss_cons; [vm_compute; reflexivity|]. apply ss_nil. }
  split; vm_compute; reflexivity.
Qed.
