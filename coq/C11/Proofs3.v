(* C11/Proofs3.v -- the digest input is an injective function of
   (prior MAC, message, variables): the 16 bit length in front of the prior MAC
   and the fixed widths of the variables make the concatenation uniquely
   decodable. *)
From Coq Require Import NArith List Bool Lia ZArith.
From Coq Require Import ZifyN ZifyBool ZifyNat.
From DV Require Import Base.Outcome Base.Bytes Base.Names C11.Gen C11.Model C11.Proofs.
Import ListNotations.
Local Open Scope N_scope.
Ltac Zify.zify_post_hook ::= Z.div_mod_to_equations.

Lemma app_eq_len_l {A} (a a' b b' : list A) :
  length a = length a' -> a ++ b = a' ++ b' -> a = a' /\ b = b'.
Proof.
  revert a'. induction a as [|x a IH]; intros [|y a'] Hl H; cbn in *; try discriminate; auto.
  injection H as -> H. injection Hl as Hl. destruct (IH a' Hl H) as [-> ->]. auto.
Qed.

Lemma app_eq_len_r {A} (a a' b b' : list A) :
  length b = length b' -> a ++ b = a' ++ b' -> a = a' /\ b = b'.
Proof.
  intros Hl H. apply app_eq_len_l; [|exact H].
  apply (f_equal (@length A)) in H. rewrite !app_length in H. lia.
Qed.

Definition wf_vars (v : vars) : Prop :=
  v_time v < T48_LIMIT /\ v_fudge v < 65536 /\ v_error v < 65536 /\
  match v_other v with Some t => t < T48_LIMIT | None => True end.

Lemma be_bytes_inj w : forall x y, x < 256 ^ N.of_nat w -> y < 256 ^ N.of_nat w ->
  be_bytes w x = be_bytes w y -> x = y.
Proof.
  induction w as [|w IH]; intros x y Hx Hy H.
  - cbn in Hx, Hy. lia.
  - cbn [be_bytes] in H. apply app_inj_tail in H. destruct H as [H1 H2].
    rewrite Nat2N.inj_succ, N.pow_succ_r' in Hx, Hy.
    assert (x / 256 = y / 256).
    { apply IH; [apply N.div_lt_upper_bound; lia | apply N.div_lt_upper_bound; lia | exact H1]. }
    rewrite (N.div_mod' x 256), (N.div_mod' y 256). congruence.
Qed.

Lemma time48_octets_inj a b : a < T48_LIMIT -> b < T48_LIMIT -> time48_octets a = time48_octets b -> a = b.
Proof.
  unfold time48_octets. change (N.to_nat time48_width) with 6%nat.
  change T48_LIMIT with (256 ^ N.of_nat 6). apply be_bytes_inj.
Qed.

Lemma be16_inj a b : a < 65536 -> b < 65536 -> be16 a = be16 b -> a = b.
Proof. unfold be16. intros Ha Hb H. injection H as H0 H1. lia. Qed.

Lemma vars_sign_length k v :
  length (vars_sign k v) = (length (wire_abs (canon (k_name k))) + 6 + length (alg_wire (k_alg k)) + 12 +
                            match v_other v with Some _ => 6 | None => 0 end)%nat.
Proof.
  unfold vars_sign. rewrite sign_order_eq. cbn [map concat field_bytes]. unfold be16, be32.
  rewrite !app_length, !time48_octets_length.
  destruct (v_other v); rewrite ?time48_octets_length; cbn [length]; lia.
Qed.

Lemma vars_sign_inj k v v' :
  wf_vars v -> wf_vars v' -> vars_sign k v = vars_sign k v' -> v = v'.
Proof.
  intros (Ht & Hf & He & Ho) (Ht' & Hf' & He' & Ho') H.
  unfold vars_sign in H. rewrite sign_order_eq in H. cbn [map concat field_bytes] in H.
  rewrite !app_nil_r in H.
  apply app_inv_head in H. apply app_inv_head in H. apply app_inv_head in H. apply app_inv_head in H.
  apply app_eq_len_l in H; [|rewrite !time48_octets_length; reflexivity]. destruct H as [H1 H].
  apply app_eq_len_l in H; [|reflexivity]. destruct H as [H2 H].
  apply app_eq_len_l in H; [|reflexivity]. destruct H as [H3 H].
  apply app_eq_len_l in H; [|reflexivity]. destruct H as [H4 H5].
  apply time48_octets_inj in H1; try assumption.
  apply be16_inj in H2; try assumption. apply be16_inj in H3; try assumption.
  destruct v as [t f e o], v' as [t' f' e' o']; cbn in *. subst.
  destruct o as [x|], o' as [y|]; cbn in *.
  - apply time48_octets_inj in H5; try assumption. subst. reflexivity.
  - discriminate.
  - discriminate.
  - reflexivity.
Qed.

(* Other data present on one side only: the two variable blocks differ in
   length by 6, so the algorithm name of one side would have to coincide with
   itself shifted by six octets - but its first octet (the label length 9 or
   11) differs from its seventh ('s' of "hmac-sha..."). *)
Lemma shift6_impossible (A X X' t t' R R' : bytes) :
  length t = 6%nat -> length R = 12%nat -> length (t' ++ R') = 12%nat ->
  (6 < length A)%nat -> nth 0 A 0 <> nth 6 A 0 ->
  X ++ A ++ t ++ R = X' ++ A ++ t' ++ R' -> False.
Proof.
  intros Lt LR LR' LA Hne H.
  replace (X ++ A ++ t ++ R) with ((X ++ A ++ t) ++ R) in H by (rewrite <- !app_assoc; reflexivity).
  replace (X' ++ A ++ t' ++ R') with ((X' ++ A) ++ (t' ++ R')) in H by (rewrite <- !app_assoc; reflexivity).
  apply app_eq_len_r in H; [|lia]. destruct H as [H _].
  assert (H2 : (X ++ firstn 6 A) ++ (skipn 6 A ++ t) = X' ++ A).
  { rewrite <- H. rewrite <- !app_assoc. f_equal. rewrite (app_assoc (firstn 6 A)), firstn_skipn. reflexivity. }
  clear H. rename H2 into H.
  apply app_eq_len_r in H; [|rewrite app_length, skipn_length; lia]. destruct H as [_ H].
  assert (L6 : length (firstn 6 A) = 6%nat) by (rewrite firstn_length; lia).
  assert (E0 : nth 0 A 0 = nth 0 (skipn 6 A ++ t) 0) by (rewrite H; reflexivity).
  assert (E6 : nth 6 A 0 = nth 0 (skipn 6 A) 0).
  { rewrite <- (firstn_skipn 6 A) at 1. rewrite app_nth2 by (rewrite L6; lia). rewrite L6. reflexivity. }
  assert (E1 : nth 0 (skipn 6 A ++ t) 0 = nth 0 (skipn 6 A) 0) by (apply app_nth1; rewrite skipn_length; lia).
  apply Hne. congruence.
Qed.

Lemma other_presence_determined k msg msg' v v' :
  msg ++ vars_sign k v = msg' ++ vars_sign k v' -> (v_other v = None <-> v_other v' = None).
Proof.
  assert (G : forall m1 m2 v1 v2 o, v_other v1 = Some o -> v_other v2 = None ->
              m1 ++ vars_sign k v1 = m2 ++ vars_sign k v2 -> False).
  { intros m1 m2 v1 v2 o H1 H2 H. unfold vars_sign in H. rewrite sign_order_eq in H.
    cbn [map concat field_bytes] in H. rewrite H1, H2, !app_nil_r in H.
    eapply (shift6_impossible (alg_wire (k_alg k))
              (m1 ++ wire_abs (canon (k_name k)) ++ be16 CLASS_ANY ++ be32 0)
              (m2 ++ wire_abs (canon (k_name k)) ++ be16 CLASS_ANY ++ be32 0)
              (time48_octets (v_time v1)) (time48_octets (v_time v2))
              (be16 (v_fudge v1) ++ be16 (v_error v1) ++ be16 other_len_fed ++ time48_octets o)
              (be16 (v_fudge v2) ++ be16 (v_error v2) ++ be16 0)).
    - apply time48_octets_length.
    - rewrite !app_length, time48_octets_length. reflexivity.
    - rewrite !app_length, time48_octets_length. reflexivity.
    - destruct (k_alg k); cbn; lia.
    - destruct (k_alg k); cbn; lia.
    - repeat rewrite <- app_assoc in H. repeat rewrite <- app_assoc. exact H. }
  intros H. destruct (v_other v) as [o|] eqn:E1, (v_other v') as [o'|] eqn:E2; split; intros X; try discriminate; try reflexivity; exfalso.
  - eapply (G msg msg' v v'); eauto.
  - eapply (G msg' msg v' v); eauto.
Qed.

(* full variables (request, response, first message of a sequence) *)
Theorem digest_injective k pm pm' msg msg' v v' :
  len pm < 65536 -> len pm' < 65536 -> wf_vars v -> wf_vars v' ->
  digest_full k (apply_signature [] pm) msg v = digest_full k (apply_signature [] pm') msg' v' ->
  pm = pm' /\ msg = msg' /\ v = v'.
Proof.
  intros Hp Hp' Hv Hv' H. unfold digest_full, apply_signature in H. cbn [app] in H.
  rewrite !N.mod_small in H by assumption. rewrite <- !app_assoc in H.
  apply app_eq_len_l in H; [|reflexivity]. destruct H as [Hl H].
  apply be16_inj in Hl; try assumption.
  apply app_eq_len_l in H; [|unfold len in Hl; lia]. destruct H as [-> H].
  pose proof (other_presence_determined _ _ _ _ _ H) as Ho.
  apply app_eq_len_r in H.
  - destruct H as [-> H]. apply vars_sign_inj in H; auto.
  - rewrite !vars_sign_length. destruct (v_other v), (v_other v'); try reflexivity.
    + destruct Ho as [_ Ho]. specialize (Ho eq_refl). discriminate.
    + destruct Ho as [Ho _]. specialize (Ho eq_refl). discriminate.
Qed.

(* timers only (later messages of a sequence); [un] are the unsigned messages in between *)
Theorem digest_timers_injective k pm pm' msg msg' v v' :
  len pm < 65536 -> len pm' < 65536 ->
  v_time v < T48_LIMIT -> v_time v' < T48_LIMIT -> v_fudge v < 65536 -> v_fudge v' < 65536 ->
  digest_timers k (apply_signature [] pm) msg v = digest_timers k (apply_signature [] pm') msg' v' ->
  pm = pm' /\ msg = msg' /\ v_time v = v_time v' /\ v_fudge v = v_fudge v'.
Proof.
  intros Hp Hp' Ht Ht' Hf Hf' H. unfold digest_timers, apply_signature, vars_sign_timers in H.
  rewrite timers_order_eq in H. cbn [app map concat field_bytes] in H.
  rewrite !N.mod_small in H by assumption. rewrite !app_nil_r, <- !app_assoc in H.
  apply app_eq_len_l in H; [|reflexivity]. destruct H as [Hl H].
  apply be16_inj in Hl; try assumption.
  apply app_eq_len_l in H; [|unfold len in Hl; lia]. destruct H as [-> H].
  apply app_eq_len_r in H; [|rewrite !app_length, !time48_octets_length; reflexivity].
  destruct H as [-> H].
  apply app_eq_len_l in H; [|rewrite !time48_octets_length; reflexivity]. destruct H as [H1 H2].
  apply time48_octets_inj in H1; try assumption. apply be16_inj in H2; try assumption.
  auto.
Qed.

Example digest_injective_ex :
  digest_full (Key Sha1 [] [] 20 20) (apply_signature [] [1;2]) [9] (Vars 1 2 3 None) =
  [0;2;1;2; 9; 0; 0;255; 0;0;0;0; 9;104;109;97;99;45;115;104;97;49;0; 0;0;0;0;0;1; 0;2; 0;3; 0;0].
Proof. reflexivity. Qed.
