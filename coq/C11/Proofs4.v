(* C11/Proofs4.v -- framing: the parser finds the TSIG record push_tsig wrote.
   A message is described by layout predicates in the style of C02
   (QuestionsAt / RecordsAt: a question / a record with a given type is stored
   at a position, and every octet the reader touches lies in the body
   [12, end), never in the header); the name reader facts are C01's (parse accepts => skip accepts) and C02's
   (NameIn: a possibly compressed name stored at a position is what the reader
   reconstructs; stable under appending octets). *)
From Coq Require Import NArith List Bool Lia ZArith.
From Coq Require Import ZifyN ZifyBool ZifyNat.
From DV Require Import Base.Outcome Base.Bytes Base.Names Base.PName.
From DV Require Import C01.Proofs C01.Proofs3 C02.ProofsBasic C02.ProofsName C02.ProofsComp C02.ProofsTop.
From DV Require Import C11.Gen C11.Model C11.Proofs C11.Proofs2.
Import ListNotations.
Local Open Scope N_scope.
Ltac Zify.zify_post_hook ::= Z.div_mod_to_equations.

(* ------------------------------------------------------------ the header *)
Lemma split12 (m : bytes) : 12 <= mlen m ->
  exists b0 b1 b2 b3 b4 b5 b6 b7 b8 b9 b10 b11 body,
    m = b0 :: b1 :: b2 :: b3 :: b4 :: b5 :: b6 :: b7 :: b8 :: b9 :: b10 :: b11 :: body.
Proof.
  unfold mlen. intros H.
  do 12 (destruct m as [|? m]; [cbn in H; lia|]). repeat eexists.
Qed.

Definition hdr_wf (m : bytes) : Prop := Forall (fun b => b < 256) (firstn 12 m).

Lemma mlen_set_arcount m c : 12 <= mlen m -> mlen (set_arcount m c) = mlen m.
Proof.
  intros H. destruct (split12 m H) as (b0&b1&b2&b3&b4&b5&b6&b7&b8&b9&b10&b11&body&->).
  unfold set_arcount, take, drop, mlen. cbn. lia.
Qed.

Lemma get_set_arcount m c i : 12 <= mlen m -> 12 <= i -> get (set_arcount m c) i = get m i.
Proof.
  intros H Hi. destruct (split12 m H) as (b0&b1&b2&b3&b4&b5&b6&b7&b8&b9&b10&b11&body&->).
  unfold set_arcount, take, drop, get. cbn [firstn skipn app be16].
  replace (N.to_nat i) with (12 + (N.to_nat i - 12))%nat by lia. reflexivity.
Qed.

Lemma counts_set_arcount m c : 12 <= mlen m ->
  qdcount (set_arcount m c) = qdcount m /\ ancount (set_arcount m c) = ancount m /\
  nscount (set_arcount m c) = nscount m /\ hdr_id (set_arcount m c) = hdr_id m /\
  hdr_rcode (set_arcount m c) = hdr_rcode m.
Proof.
  intros H. destruct (split12 m H) as (b0&b1&b2&b3&b4&b5&b6&b7&b8&b9&b10&b11&body&->).
  repeat split.
Qed.

Lemma arcount_set_arcount m c : 12 <= mlen m -> c < 65536 -> arcount (set_arcount m c) = c.
Proof.
  intros H Hc. destruct (split12 m H) as (b0&b1&b2&b3&b4&b5&b6&b7&b8&b9&b10&b11&body&->).
  unfold arcount, hdr_count, byte_at, set_arcount, take, drop. cbn [firstn skipn app be16 nth].
  unfold of_be16. lia.
Qed.

(* header accessors only look at the first twelve octets *)
Lemma hdr_app m x : 12 <= mlen m ->
  qdcount (m ++ x) = qdcount m /\ ancount (m ++ x) = ancount m /\ nscount (m ++ x) = nscount m /\
  arcount (m ++ x) = arcount m /\ hdr_id (m ++ x) = hdr_id m /\ hdr_rcode (m ++ x) = hdr_rcode m.
Proof.
  intros H. destruct (split12 m H) as (b0&b1&b2&b3&b4&b5&b6&b7&b8&b9&b10&b11&body&->).
  repeat split.
Qed.

(* undoing push_tsig's header change: original ID (unchanged) and ARCOUNT - 1 *)
Lemma restore_header m x : 12 <= mlen m -> hdr_wf m -> arcount m < 65535 ->
  set_arcount (set_id (set_arcount m (arcount m + 1) ++ x) (hdr_id m)) (arcount m + 1 - 1) = m ++ x.
Proof.
  intros H Hw Ha. destruct (split12 m H) as (b0&b1&b2&b3&b4&b5&b6&b7&b8&b9&b10&b11&body&->).
  unfold hdr_wf in Hw. cbn [firstn] in Hw.
  repeat match goal with H : Forall _ (_ :: _) |- _ => inversion H; subst; clear H end.
  unfold arcount, hdr_id, hdr_count, byte_at in *. cbn [nth] in *.
  unfold set_arcount, set_id, take, drop. cbn [firstn skipn app be16].
  unfold of_be16 in *. rewrite N.add_sub.
  repeat (match goal with |- _ :: _ = _ :: _ => apply f_equal2; [lia|] end). reflexivity.
Qed.

(* ------------------------------------------------------------ reading primitives *)
Lemma advance_ok pos lim n : pos + n <= lim -> advance pos lim n = Ok (pos + n).
Proof. intros H. unfold advance. destruct (N.ltb_spec (lim - pos) n); [lia | reflexivity]. Qed.

Lemma rd16_ok m p lim v : bytes_at m p (be16 v) -> v < 65536 -> p + 2 <= lim ->
  rd_u16 m p lim = Ok (v, p + 2).
Proof.
  intros Hb Hv Hl. unfold rd_u16. rewrite advance_ok by lia. cbn [bind].
  unfold be16 in Hb. apply bytes_at_cons in Hb as [H0 Hb]. apply bytes_at_cons in Hb as [H1 _].
  rewrite H0, H1. f_equal. f_equal. apply be16_roundtrip. exact Hv.
Qed.

Lemma rd_octets_ok m p lim b : bytes_at m p b -> p + mlen b <= lim -> p + mlen b <= mlen m ->
  rd_octets m p lim (mlen b) = Ok (b, p + mlen b).
Proof.
  intros Hb Hl Hm. unfold rd_octets. rewrite advance_ok by lia. cbn [bind].
  destruct (N.ltb_spec (mlen m) (p + mlen b)); [lia|]. rewrite slice_bytes_at by exact Hb. reflexivity.
Qed.

Lemma decode_name_inv m p lim n e : decode_name m p lim = Ok (n, e) ->
  exists pn b, parse_ref m p lim = Ok pn /\ pname_labels m pn = Ok (n, b) /\ pn_end pn = e.
Proof.
  unfold decode_name. destruct (parse_ref m p lim) as [pn| | |]; cbn [bind]; try discriminate.
  destruct (pname_labels m pn) as [[n0 b]| | |] eqn:E; cbn [bind fst]; try discriminate.
  intros H. injection H as <- <-. exists pn, b. auto.
Qed.

Lemma parse_ref_skip m p lim pn : parse_ref m p lim = Ok pn -> skip_name m p lim = Ok (pn_end pn).
Proof.
  intros H. rewrite parse_ref_eq in H. rewrite skip_name_eq.
  eapply parse_then_skip; [|exact H]. lia.
Qed.

(* ------------------------------------------------------------ layout of a message *)
(* positions of the body below b: the reader never looks into the header *)
Definition okb (b : N) : N -> Prop := fun i => 12 <= i /\ i < b.
Definition agree_on (ok : N -> Prop) (m m' : bytes) : Prop :=
  forall i v, ok i -> get m i = Some v -> get m' i = Some v.

(* a (possibly compressed) name at p whose first segment ends at e1; all octets read lie in [12, e) *)
Definition NameAt (m : bytes) (e p e1 : N) : Prop := exists n, NameIn m (okb e) p p n e1 /\ name_ok n.
Definition QuestionAt (m : bytes) (p e : N) : Prop :=
  exists e1, NameAt m e p e1 /\ e = e1 + 4 /\ e <= mlen m /\ 12 <= p.
(* a record of type ty in [p, e): owner, TYPE, CLASS, TTL, RDLENGTH, RDLENGTH octets of data *)
Definition RecordAt (m : bytes) (p ty e : N) : Prop :=
  exists e1 cl ttl, NameAt m e p e1 /\
    bytes_at m e1 (be16 ty ++ be16 cl ++ be32 ttl ++ be16 (e - (e1 + 10))) /\
    ty < 65536 /\ cl < 65536 /\ e1 + 10 <= e /\ e - (e1 + 10) <= 65535 /\ e <= mlen m /\ 12 <= p.
Inductive QuestionsAt (m : bytes) : N -> nat -> N -> Prop :=
| QsA_nil p : QuestionsAt m p 0 p
| QsA_cons p e1 n e : QuestionAt m p e1 -> QuestionsAt m e1 n e -> QuestionsAt m p (S n) e.
Inductive RecordsAt (m : bytes) : N -> list N -> N -> Prop :=
| RsA_nil p : RecordsAt m p [] p
| RsA_cons p ty e1 tys e : RecordAt m p ty e1 -> RecordsAt m e1 tys e -> RecordsAt m p (ty :: tys) e.

Lemma NameAt_end m e p e1 : NameAt m e p e1 -> p < e1 /\ e1 <= mlen m.
Proof. intros (n & H & _). eapply NameIn_end_le; eauto. Qed.
Lemma QuestionAt_end m p e : QuestionAt m p e -> p < e /\ e <= mlen m.
Proof. intros (e1 & Hn & -> & Hm & _). apply NameAt_end in Hn. lia. Qed.
Lemma RecordAt_end m p ty e : RecordAt m p ty e -> p < e /\ e <= mlen m.
Proof. intros (e1 & cl & ttl & Hn & _ & _ & _ & H1 & _ & Hm & _). apply NameAt_end in Hn. lia. Qed.
Lemma QuestionsAt_end m p n e : QuestionsAt m p n e -> p <= e.
Proof. induction 1 as [|p e1 n e Hq _ IH]; [lia|]. apply QuestionAt_end in Hq. lia. Qed.
Lemma RecordsAt_end m p tys e : RecordsAt m p tys e -> p <= e.
Proof. induction 1 as [|p ty e1 tys e Hr _ IH]; [lia|]. apply RecordAt_end in Hr. lia. Qed.

Lemma agree_on_mono a b m m' : a <= b -> agree_on (okb b) m m' -> agree_on (okb a) m m'.
Proof. intros L A i v [H1 H2]. apply A. split; lia. Qed.

Lemma NameAt_agree m m' e p e1 : agree_on (okb e) m m' -> NameAt m e p e1 -> NameAt m' e p e1.
Proof. intros A (n & H & K). exists n. split; [|exact K]. eapply NameIn_agree; eauto. Qed.
Lemma QuestionAt_agree m m' p e : agree_on (okb e) m m' -> e <= mlen m' -> QuestionAt m p e -> QuestionAt m' p e.
Proof. intros A L (e1 & Hn & E & _ & P). exists e1. repeat split; auto. eapply NameAt_agree; eauto. Qed.
Lemma RecordAt_agree m m' p ty e : agree_on (okb e) m m' -> e <= mlen m' -> RecordAt m p ty e -> RecordAt m' p ty e.
Proof.
  intros A L (e1 & cl & ttl & Hn & Hb & H1 & H2 & H3 & H4 & _ & P). exists e1, cl, ttl.
  pose proof (NameAt_end _ _ _ _ Hn) as [Hlt _].
  repeat split; auto; [eapply NameAt_agree; eauto|].
  eapply bytes_at_agree; [exact A| |exact Hb].
  intros i Hi. rewrite !mlen_app in Hi. change (mlen (be16 ty)) with 2 in Hi. change (mlen (be16 cl)) with 2 in Hi.
  change (mlen (be32 ttl)) with 4 in Hi. change (mlen (be16 (e - (e1 + 10)))) with 2 in Hi. split; lia.
Qed.
Lemma QuestionsAt_agree m m' p n e : agree_on (okb e) m m' -> e <= mlen m' -> QuestionsAt m p n e -> QuestionsAt m' p n e.
Proof.
  intros A L H. induction H as [|p e1 n e Hq Hqs IH]; [constructor|].
  pose proof (QuestionsAt_end _ _ _ _ Hqs). econstructor; [|apply IH; auto].
  eapply QuestionAt_agree; [eapply agree_on_mono; [|exact A]; lia | lia | exact Hq].
Qed.
Lemma RecordsAt_agree m m' p tys e : agree_on (okb e) m m' -> e <= mlen m' -> RecordsAt m p tys e -> RecordsAt m' p tys e.
Proof.
  intros A L H. induction H as [|p ty e1 tys e Hr Hrs IH]; [constructor|].
  pose proof (RecordsAt_end _ _ _ _ Hrs). econstructor; [|apply IH; auto].
  eapply RecordAt_agree; [eapply agree_on_mono; [|exact A]; lia | lia | exact Hr].
Qed.

(* ------------------------------------------------------------ what the readers return *)
Lemma name_at_read m p e1 e lim : NameAt m e p e1 -> e <= lim ->
  exists pn n, parse_ref m p lim = Ok pn /\ pn_end pn = e1 /\ skip_name m p lim = Ok e1 /\
    (exists b, pname_labels m pn = Ok (n, b)).
Proof.
  intros (n & H & K) Hl.
  assert (D : decode_name m p lim = Ok (n, e1)).
  { eapply (decode_name_ok m (okb e) lim); eauto. intros i [_ Hi]. lia. }
  apply decode_name_inv in D. destruct D as (pn & b & P & L & E).
  exists pn, n. repeat split; auto; [|eauto]. rewrite <- E. apply parse_ref_skip. exact P.
Qed.

Lemma question_ok m p e lim : QuestionAt m p e -> e <= lim -> question_parse m p lim = Ok e.
Proof.
  intros (e1 & Hn & -> & _ & _) Hl.
  destruct (name_at_read m p e1 (e1 + 4) lim Hn Hl) as (pn & n' & P & E & _).
  unfold question_parse. rewrite P. cbn [bind]. rewrite E. apply advance_ok. lia.
Qed.

Lemma questions_ok m p n e lim : QuestionsAt m p n e -> e <= lim ->
  forall fuel, (n < fuel)%nat -> skip_questions fuel m p lim (N.of_nat n) = Ok e.
Proof.
  induction 1 as [p|p e1 n e Hq Hqs IH]; intros Hl fuel Hf.
  - destruct fuel; [lia|]. reflexivity.
  - destruct fuel; [lia|]. cbn [skip_questions].
    destruct (N.eqb_spec (N.of_nat (S n)) 0); [lia|].
    pose proof (QuestionsAt_end _ _ _ _ Hqs).
    rewrite (question_ok m p e1 lim Hq) by lia. cbn [bind].
    replace (N.of_nat (S n) - 1) with (N.of_nat n) by lia.
    apply IH; [exact Hl | lia].
Qed.

Lemma record_ok m p ty e lim : RecordAt m p ty e -> e <= lim ->
  record_skip m p lim = Ok e /\
  exists h, record_parse m p lim = Ok h /\ rh_type h = ty /\ rh_next h = e.
Proof.
  intros (e1 & cl & ttl & Hn & Hb & Ht & Hc & L1 & L2 & Hm & _) Hl.
  destruct (name_at_read m p e1 e lim Hn Hl) as (pn & n' & P & E & S & _).
  apply bytes_at_split in Hb as [Hb1 Hb]. change (mlen (be16 ty)) with 2 in Hb.
  apply bytes_at_split in Hb as [Hb2 Hb]. change (mlen (be16 cl)) with 2 in Hb.
  apply bytes_at_split in Hb as [Hb3 Hb4]. change (mlen (be32 ttl)) with 4 in Hb4.
  replace (e1 + 2 + 2 + 4) with (e1 + 8) in Hb4 by lia.
  split.
  - unfold record_skip. rewrite S. cbn [bind]. rewrite advance_ok by lia. cbn [bind].
    rewrite (rd16_ok m (e1 + 8) lim (e - (e1 + 10)) Hb4) by lia. cbn [bind fst snd].
    rewrite advance_ok by lia. f_equal. lia.
  - unfold record_parse. rewrite P. cbn [bind]. rewrite E.
    rewrite (rd16_ok m e1 lim ty Hb1 Ht) by lia. cbn [bind fst snd].
    rewrite (rd16_ok m (e1 + 2) lim cl Hb2 Hc) by lia. cbn [bind fst snd].
    change (rd_octets m (e1 + 2 + 2) lim 4) with (rd_octets m (e1 + 2 + 2) lim (mlen (be32 ttl))).
    rewrite (rd_octets_ok m (e1 + 2 + 2) lim (be32 ttl) Hb3) by (change (mlen (be32 ttl)) with 4; lia).
    cbn [bind fst snd]. change (mlen (be32 ttl)) with 4.
    replace (e1 + 2 + 2 + 4) with (e1 + 8) by lia.
    rewrite (rd16_ok m (e1 + 8) lim (e - (e1 + 10)) Hb4) by lia. cbn [bind fst snd].
    rewrite advance_ok by lia. cbn [bind]. eexists. split; [reflexivity|]. cbn [rh_type rh_next]. split; [reflexivity | lia].
Qed.

Lemma records_skip_ok m p tys e lim : RecordsAt m p tys e -> e <= lim ->
  forall fuel, (length tys < fuel)%nat -> skip_records fuel m p lim (N.of_nat (length tys)) = Ok e.
Proof.
  induction 1 as [p|p ty e1 tys e Hr Hrs IH]; intros Hl fuel Hf.
  - destruct fuel; [lia|]. reflexivity.
  - destruct fuel; [cbn in Hf; lia|]. cbn [skip_records length].
    destruct (N.eqb_spec (N.of_nat (S (length tys))) 0); [lia|].
    pose proof (RecordsAt_end _ _ _ _ Hrs).
    destruct (record_ok m p ty e1 lim Hr ltac:(lia)) as [Hs _]. rewrite Hs. cbn [bind].
    replace (N.of_nat (S (length tys)) - 1) with (N.of_nat (length tys)) by lia.
    apply IH; [exact Hl | cbn in Hf; lia].
Qed.

(* from_message's loop steps over stored records that are not TSIG records *)
Lemma find_tsig_steps m p tys e lim : RecordsAt m p tys e -> e <= lim ->
  Forall (fun ty => ty <> RTYPE_TSIG) tys ->
  forall fuel c, find_tsig (length tys + fuel) m p lim (N.of_nat (length tys) + c) = find_tsig fuel m e lim c.
Proof.
  induction 1 as [p|p ty e1 tys e Hr Hrs IH]; intros Hl Hno fuel c.
  - cbn. reflexivity.
  - inversion Hno as [|? ? Hr0 Hno']; subst. cbn [length plus find_tsig].
    destruct (N.eqb_spec (N.of_nat (S (length tys)) + c) 0); [lia|].
    pose proof (RecordsAt_end _ _ _ _ Hrs).
    destruct (record_ok m p ty e1 lim Hr ltac:(lia)) as [_ (h & Hp & Hty & Hnx)]. rewrite Hp. cbn [to_err bind].
    rewrite Hty. destruct (N.eqb_spec ty RTYPE_TSIG); [contradiction|]. rewrite Hnx.
    replace (N.of_nat (S (length tys)) + c - 1) with (N.of_nat (length tys) + c) by lia.
    apply IH; assumption.
Qed.

(* ... and so does the scan of answer and authority (T1 tsig_scan_all_sections) *)
Lemma records_scan_ok m p tys e lim : RecordsAt m p tys e -> e <= lim ->
  Forall (fun ty => ty <> RTYPE_TSIG) tys ->
  forall fuel, (length tys < fuel)%nat -> scan_records fuel m p lim (N.of_nat (length tys)) = Ok e.
Proof.
  induction 1 as [p|p ty e1 tys e Hr Hrs IH]; intros Hl Hno fuel Hf.
  - destruct fuel; [lia|]. reflexivity.
  - inversion Hno as [|? ? Hr0 Hno']; subst. destruct fuel; [cbn in Hf; lia|]. cbn [scan_records length].
    destruct (N.eqb_spec (N.of_nat (S (length tys))) 0); [lia|].
    pose proof (RecordsAt_end _ _ _ _ Hrs).
    destruct (record_ok m p ty e1 lim Hr ltac:(lia)) as [_ (h & Hp & Hty & Hnx)]. rewrite Hp. cbn [to_err bind].
    rewrite Hty. destruct (N.eqb_spec ty RTYPE_TSIG); [contradiction|]. rewrite Hnx.
    replace (N.of_nat (S (length tys)) - 1) with (N.of_nat (length tys)) by lia.
    apply IH; auto. cbn [length] in Hf. lia.
Qed.

(* each question / record occupies at least one octet: counts are bounded by the extent *)
Lemma QuestionsAt_count m p n e : QuestionsAt m p n e -> p + N.of_nat n <= e.
Proof. induction 1 as [|p e1 n e Hq _ IH]; [lia|]. apply QuestionAt_end in Hq. lia. Qed.
Lemma RecordsAt_count m p tys e : RecordsAt m p tys e -> p + N.of_nat (length tys) <= e.
Proof. induction 1 as [|p ty e1 tys e Hr _ IH]; [cbn; lia|]. apply RecordAt_end in Hr. cbn [length]. lia. Qed.

(* ------------------------------------------------------------ a whole message *)
(* msg consists of a header with the given counts, nq questions, and three
   record sections with the given record types, and nothing else; its
   record sections hold no TSIG record *)
Definition MsgAt (msg : bytes) (nq : nat) (an ns ar : list N) : Prop :=
  12 <= mlen msg /\ hdr_wf msg /\
  qdcount msg = N.of_nat nq /\ ancount msg = N.of_nat (length an) /\
  nscount msg = N.of_nat (length ns) /\ arcount msg = N.of_nat (length ar) /\
  Forall (fun ty => ty <> RTYPE_TSIG) ar /\
  Forall (fun ty => ty <> RTYPE_TSIG) an /\ Forall (fun ty => ty <> RTYPE_TSIG) ns /\
  exists p1 p2 p3, QuestionsAt msg 12 nq p1 /\ RecordsAt msg p1 an p2 /\ RecordsAt msg p2 ns p3 /\
                   RecordsAt msg p3 ar (mlen msg).

Lemma of_be_app a b acc : of_be (a ++ b) acc = of_be b (of_be a acc).
Proof. revert acc; induction a; intros; cbn; auto. Qed.

Lemma of_be_be_bytes w : forall x acc, x < 256 ^ N.of_nat w -> of_be (be_bytes w x) acc = acc * 256 ^ N.of_nat w + x.
Proof.
  induction w as [|w IH]; intros x acc Hx.
  - cbn in *. lia.
  - cbn [be_bytes]. rewrite of_be_app. rewrite Nat2N.inj_succ, N.pow_succ_r' in *.
    rewrite IH by (apply N.div_lt_upper_bound; lia). cbn [of_be].
    pose proof (N.div_mod' x 256). nia.
Qed.

Lemma of_be_time48 t : t < T48_LIMIT -> of_be (time48_octets t) 0 = t.
Proof.
  intros H. unfold time48_octets. change (N.to_nat time48_width) with 6%nat.
  rewrite of_be_be_bytes; [lia | exact H].
Qed.

Lemma mlen_time48 t : mlen (time48_octets t) = 6.
Proof. unfold mlen. rewrite time48_octets_length. reflexivity. Qed.

Lemma alg_label_ok a : name_ok [alg_label a].
Proof. destruct a; (split; [repeat constructor; cbn; lia | cbn; lia]). Qed.

(* an uncompressed name in the middle of a message is read back as it is *)
Lemma plain_name_read a n x : name_ok n ->
  exists pn b, parse_ref (a ++ wire_abs n ++ x) (mlen a) (mlen (a ++ wire_abs n ++ x)) = Ok pn /\
    pn_end pn = mlen a + mlen (wire_abs n) /\ pname_labels (a ++ wire_abs n ++ x) pn = Ok (n, b).
Proof.
  intros [Hv Hw].
  pose proof (NameIn_wire a n x (fun i => mlen a <= i) (mlen a) Hv ltac:(auto) ltac:(lia)) as H.
  apply NameIn_below in H.
  assert (D : decode_name (a ++ wire_abs n ++ x) (mlen a) (mlen (a ++ wire_abs n ++ x)) = Ok (n, mlen a + mlen (wire_abs n))).
  { eapply decode_name_ok; [|exact H|split; assumption]. intros i [_ Hi]. exact Hi. }
  apply decode_name_inv in D. destruct D as (pn & b & P & L & E). exists pn, b. auto.
Qed.

Lemma alg_wire_plain a : alg_wire a = wire_abs [alg_label a].
Proof. destruct a; reflexivity. Qed.

Section Signed.
  Variables (msg : bytes) (nq : nat) (an ns ar : list N).
  Variables (k : key) (v : vars) (mc : bytes).
  Hypothesis Hmsg : MsgAt msg nq an ns ar.
  Hypothesis Hname : name_ok (k_name k).
  Hypothesis Htime : v_time v < T48_LIMIT.
  Hypothesis Hfudge : v_fudge v < 65536.
  Hypothesis Herror : v_error v < 65536.
  Hypothesis Hother : v_other v = None.

  Let rd := tsig_rdata (alg_wire (k_alg k)) (v_time v) (v_fudge v) mc (hdr_id msg) (v_error v) [].
  Let rr := tsig_rr (wire_abs (k_name k)) rd.
  Let w := set_arcount msg (arcount msg + 1) ++ rr.

  Hypothesis Har : arcount msg < 65535.
  Hypothesis Hlen : mlen msg + mlen rr <= 65535.

  Lemma push_tsig_is_w : push_tsig k v mc msg = Ok w.
  Proof.
    unfold push_tsig. rewrite Hother. fold rd. fold rr.
    destruct (N.leb_spec 65535 (arcount msg)); [lia|].
    change (len msg) with (mlen msg). change (len rr) with (mlen rr).
    destruct (N.ltb_spec 65535 (mlen msg + mlen rr)); [lia|]. reflexivity.
  Qed.

  Let L := mlen msg.
  Let m1 := set_arcount msg (arcount msg + 1).

  Lemma H12 : 12 <= mlen msg. Proof. destruct Hmsg as (H & _). exact H. Qed.
  Lemma mlen_m1 : mlen m1 = L. Proof. apply mlen_set_arcount. exact H12. Qed.
  Lemma mlen_w : mlen w = L + mlen rr. Proof. unfold w. rewrite mlen_app. fold m1. rewrite mlen_m1. reflexivity. Qed.

  Lemma agree_w : agree_on (okb L) msg w.
  Proof.
    intros i x [H1 H2] Hg. unfold w. fold m1. rewrite get_app_l by (rewrite mlen_m1; exact H2).
    unfold m1. rewrite get_set_arcount by (auto using H12). exact Hg.
  Qed.

  Lemma counts_w : qdcount w = N.of_nat nq /\ ancount w = N.of_nat (length an) /\
    nscount w = N.of_nat (length ns) /\ arcount w = N.of_nat (length ar) + 1 /\
    hdr_id w = hdr_id msg /\ hdr_rcode w = hdr_rcode msg.
  Proof.
    destruct Hmsg as (H & _ & Q & A & Nn & R & _).
    assert (Hm : 12 <= mlen m1) by (rewrite mlen_m1; exact H).
    destruct (hdr_app m1 rr Hm) as (E1 & E2 & E3 & E4 & E5 & E6).
    destruct (counts_set_arcount msg (arcount msg + 1) H) as (F1 & F2 & F3 & F4 & F5).
    unfold w. fold m1. rewrite E1, E2, E3, E4, E5, E6. unfold m1. rewrite F1, F2, F3, F4, F5.
    rewrite arcount_set_arcount by (auto; lia). repeat split; auto. lia.
  Qed.

  (* ---------------------------------------------------------- the appended record *)
  Let kn := k_name k.
  Let ow := wire_abs kn.
  Let o := mlen ow.
  Let aw := wire_abs [alg_label (k_alg k)].
  Let a := mlen aw.
  Let sz := mlen mc.
  Let tailb := time48_octets (v_time v) ++ be16 (v_fudge v) ++ be16 (len mc) ++ mc ++
               be16 (hdr_id msg) ++ be16 (v_error v) ++ be16 (len (@nil N)) ++ [].

  Lemma rd_eq : rd = aw ++ tailb.
  Proof. unfold rd, tsig_rdata, aw, tailb. rewrite alg_wire_plain. reflexivity. Qed.

  Lemma mlen_rd : mlen rd = a + 16 + sz.
  Proof.
    rewrite rd_eq. unfold tailb. rewrite !mlen_app, mlen_time48.
    change (mlen (be16 (v_fudge v))) with 2. change (mlen (be16 (len mc))) with 2.
    change (mlen (be16 (hdr_id msg))) with 2. change (mlen (be16 (v_error v))) with 2.
    change (mlen (be16 (len (@nil N)))) with 2. change (mlen (@nil N)) with 0. fold a. fold sz. lia.
  Qed.

  Lemma rr_eq : rr = ow ++ be16 RTYPE_TSIG ++ be16 CLASS_ANY ++ be32 0 ++ be16 (mlen rd) ++ aw ++ tailb.
  Proof. unfold rr, tsig_rr. fold ow. change (len rd) with (mlen rd). rewrite <- rd_eq. reflexivity. Qed.

  Lemma mlen_rr : mlen rr = o + 10 + mlen rd.
  Proof.
    rewrite rr_eq at 1. rewrite !mlen_app. fold o.
    change (mlen (be16 RTYPE_TSIG)) with 2. change (mlen (be16 CLASS_ANY)) with 2. change (mlen (be32 0)) with 4.
    change (mlen (be16 (mlen rd))) with 2. rewrite <- mlen_app, <- rd_eq. lia.
  Qed.

  Lemma hdr_id_lt : hdr_id msg < 65536.
  Proof.
    destruct Hmsg as (H & Hw & _). destruct (split12 msg H) as (b0&b1&b2&b3&b4&b5&b6&b7&b8&b9&b10&b11&body&E).
    rewrite E in *. unfold hdr_wf in Hw. cbn [firstn] in Hw.
    inversion Hw as [|? ? H0 Hw1]; subst. inversion Hw1 as [|? ? H1 _]; subst.
    unfold hdr_id, byte_at, of_be16. cbn [nth]. lia.
  Qed.

  Lemma sz_lt : sz < 65536 /\ mlen rd < 65536.
  Proof. pose proof mlen_rr. pose proof mlen_rd. pose proof H12. lia. Qed.

  (* the fields of the record, in place *)
  Lemma rr_fields :
    bytes_at w (L + o) (be16 RTYPE_TSIG) /\ bytes_at w (L + o + 2) (be16 CLASS_ANY) /\
    bytes_at w (L + o + 4) (be32 0) /\ bytes_at w (L + o + 8) (be16 (mlen rd)) /\
    bytes_at w (L + o + 10 + a) (time48_octets (v_time v)) /\
    bytes_at w (L + o + 10 + a + 6) (be16 (v_fudge v)) /\
    bytes_at w (L + o + 10 + a + 8) (be16 sz) /\
    bytes_at w (L + o + 10 + a + 10) mc /\
    bytes_at w (L + o + 10 + a + 10 + sz) (be16 (hdr_id msg)) /\
    bytes_at w (L + o + 10 + a + 12 + sz) (be16 (v_error v)) /\
    bytes_at w (L + o + 10 + a + 14 + sz) (be16 0).
  Proof.
    assert (Hrr : bytes_at w L rr).
    { unfold w. fold m1. replace (m1 ++ rr) with (m1 ++ rr ++ []) by (rewrite app_nil_r; reflexivity).
      rewrite <- mlen_m1. apply bytes_at_app. }
    rewrite rr_eq in Hrr. unfold tailb in Hrr.
    apply bytes_at_split in Hrr as [_ H]. fold o in H.
    apply bytes_at_split in H as [F1 H]. change (mlen (be16 RTYPE_TSIG)) with 2 in H.
    apply bytes_at_split in H as [F2 H]. change (mlen (be16 CLASS_ANY)) with 2 in H.
    apply bytes_at_split in H as [F3 H]. change (mlen (be32 0)) with 4 in H.
    apply bytes_at_split in H as [F4 H]. change (mlen (be16 (mlen rd))) with 2 in H.
    apply bytes_at_split in H as [_ H]. fold a in H.
    apply bytes_at_split in H as [F5 H]. rewrite mlen_time48 in H.
    apply bytes_at_split in H as [F6 H]. change (mlen (be16 (v_fudge v))) with 2 in H.
    apply bytes_at_split in H as [F7 H]. change (mlen (be16 (len mc))) with 2 in H.
    apply bytes_at_split in H as [F8 H]. fold sz in H.
    apply bytes_at_split in H as [F9 H]. change (mlen (be16 (hdr_id msg))) with 2 in H.
    apply bytes_at_split in H as [F10 H]. change (mlen (be16 (v_error v))) with 2 in H.
    apply bytes_at_split in H as [F11 _].
    change (len mc) with sz in F7. change (len (@nil N)) with 0 in F11.
    repeat split.
    - exact F1.
    - exact F2.
    - replace (L + o + 4) with (L + o + 2 + 2) by lia. exact F3.
    - replace (L + o + 8) with (L + o + 2 + 2 + 4) by lia. exact F4.
    - replace (L + o + 10 + a) with (L + o + 2 + 2 + 4 + 2 + a) by lia. exact F5.
    - replace (L + o + 10 + a + 6) with (L + o + 2 + 2 + 4 + 2 + a + 6) by lia. exact F6.
    - replace (L + o + 10 + a + 8) with (L + o + 2 + 2 + 4 + 2 + a + 6 + 2) by lia. exact F7.
    - replace (L + o + 10 + a + 10) with (L + o + 2 + 2 + 4 + 2 + a + 6 + 2 + 2) by lia. exact F8.
    - replace (L + o + 10 + a + 10 + sz) with (L + o + 2 + 2 + 4 + 2 + a + 6 + 2 + 2 + sz) by lia. exact F9.
    - replace (L + o + 10 + a + 12 + sz) with (L + o + 2 + 2 + 4 + 2 + a + 6 + 2 + 2 + sz + 2) by lia. exact F10.
    - replace (L + o + 10 + a + 14 + sz) with (L + o + 2 + 2 + 4 + 2 + a + 6 + 2 + 2 + sz + 2 + 2) by lia. exact F11.
  Qed.

  Lemma lim_w : mlen w = L + o + 10 + a + 16 + sz.
  Proof. rewrite mlen_w, mlen_rr, mlen_rd. lia. Qed.

  Lemma tsig_record_parse : exists pn b,
    record_parse w L (mlen w) = Ok (RHead pn RTYPE_TSIG CLASS_ANY 0 (mlen rd) (L + o + 10) (mlen w)) /\
    pname_labels w pn = Ok (kn, b).
  Proof.
    destruct rr_fields as (F1 & F2 & F3 & F4 & _).
    pose proof lim_w as Hl. pose proof sz_lt as [_ Hrd]. pose proof mlen_rd as Hmrd.
    assert (Ew : w = m1 ++ wire_abs kn ++ (be16 RTYPE_TSIG ++ be16 CLASS_ANY ++ be32 0 ++ be16 (mlen rd) ++ aw ++ tailb)).
    { unfold w. fold m1. rewrite rr_eq. reflexivity. }
    destruct (plain_name_read m1 kn (be16 RTYPE_TSIG ++ be16 CLASS_ANY ++ be32 0 ++ be16 (mlen rd) ++ aw ++ tailb) Hname) as (pn & b & P & E & Lb).
    rewrite <- Ew in P, Lb. rewrite mlen_m1 in P, E. fold ow in E. fold o in E.
    exists pn, b. split; [|exact Lb].
    unfold record_parse. rewrite P. cbn [bind]. rewrite E.
    rewrite (rd16_ok w (L + o) (mlen w) RTYPE_TSIG F1) by (try (cbv; reflexivity); lia). cbn [bind fst snd].
    rewrite (rd16_ok w (L + o + 2) (mlen w) CLASS_ANY F2) by (try (cbv; reflexivity); lia). cbn [bind fst snd].
    replace (L + o + 2 + 2) with (L + o + 4) by lia.
    change (rd_octets w (L + o + 4) (mlen w) 4) with (rd_octets w (L + o + 4) (mlen w) (mlen (be32 0))).
    rewrite (rd_octets_ok w (L + o + 4) (mlen w) (be32 0) F3) by (change (mlen (be32 0)) with 4; lia).
    cbn [bind fst snd]. change (mlen (be32 0)) with 4. replace (L + o + 4 + 4) with (L + o + 8) by lia.
    rewrite (rd16_ok w (L + o + 8) (mlen w) (mlen rd) F4) by lia. cbn [bind fst snd].
    replace (L + o + 8 + 2) with (L + o + 10) by lia.
    rewrite advance_ok by lia. cbn [bind]. f_equal. f_equal. lia.
  Qed.

  Definition signed_tsig : mtsig :=
    MTsig L kn CLASS_ANY [alg_label (k_alg k)] (v_time v) (v_fudge v) mc (hdr_id msg) (v_error v) [].

  Lemma tsig_parse_signed pn b :
    pname_labels w pn = Ok (kn, b) ->
    tsig_parse w (RHead pn RTYPE_TSIG CLASS_ANY 0 (mlen rd) (L + o + 10) (mlen w)) L = Ok signed_tsig.
  Proof.
    intros Lb.
    destruct rr_fields as (_ & _ & _ & _ & F5 & F6 & F7 & F8 & F9 & F10 & F11).
    pose proof lim_w as Hl. pose proof sz_lt as [Hsz Hrd]. pose proof mlen_rd as Hmrd. pose proof hdr_id_lt as Hid.
    assert (Ew : w = (m1 ++ ow ++ be16 RTYPE_TSIG ++ be16 CLASS_ANY ++ be32 0 ++ be16 (mlen rd)) ++ wire_abs [alg_label (k_alg k)] ++ tailb).
    { unfold w. fold m1. rewrite rr_eq. fold aw. repeat rewrite <- app_assoc. reflexivity. }
    destruct (plain_name_read (m1 ++ ow ++ be16 RTYPE_TSIG ++ be16 CLASS_ANY ++ be32 0 ++ be16 (mlen rd)) _ tailb (alg_label_ok (k_alg k)))
      as (pa & b' & P & E & La).
    rewrite <- Ew in P, La.
    assert (EA : mlen (m1 ++ ow ++ be16 RTYPE_TSIG ++ be16 CLASS_ANY ++ be32 0 ++ be16 (mlen rd)) = L + o + 10).
    { rewrite !mlen_app, mlen_m1. fold o. change (mlen (be16 RTYPE_TSIG)) with 2. change (mlen (be16 CLASS_ANY)) with 2.
      change (mlen (be32 0)) with 4. change (mlen (be16 (mlen rd))) with 2. lia. }
    rewrite EA in P, E. fold aw in E. fold a in E.
    unfold tsig_parse. cbn [rh_data rh_rdlen rh_owner rh_class].
    replace (L + o + 10 + mlen rd) with (mlen w) by lia.
    rewrite P. cbn [bind]. rewrite E.
    change time48_width with 6. rewrite <- (mlen_time48 (v_time v)).
    rewrite (rd_octets_ok w (L + o + 10 + a) (mlen w) _ F5) by (rewrite mlen_time48; lia).
    cbn [bind fst snd]. rewrite mlen_time48.
    rewrite (rd16_ok w (L + o + 10 + a + 6) (mlen w) (v_fudge v) F6) by (auto; lia). cbn [bind fst snd].
    replace (L + o + 10 + a + 6 + 2) with (L + o + 10 + a + 8) by lia.
    rewrite (rd16_ok w (L + o + 10 + a + 8) (mlen w) sz F7) by (auto; lia). cbn [bind fst snd].
    replace (L + o + 10 + a + 8 + 2) with (L + o + 10 + a + 10) by lia.
    unfold sz at 1. rewrite (rd_octets_ok w (L + o + 10 + a + 10) (mlen w) mc F8) by (fold sz; lia).
    cbn [bind fst snd]. fold sz.
    rewrite (rd16_ok w (L + o + 10 + a + 10 + sz) (mlen w) (hdr_id msg) F9) by (auto; lia). cbn [bind fst snd].
    replace (L + o + 10 + a + 10 + sz + 2) with (L + o + 10 + a + 12 + sz) by lia.
    rewrite (rd16_ok w (L + o + 10 + a + 12 + sz) (mlen w) (v_error v) F10) by (auto; lia). cbn [bind fst snd].
    replace (L + o + 10 + a + 12 + sz + 2) with (L + o + 10 + a + 14 + sz) by lia.
    rewrite (rd16_ok w (L + o + 10 + a + 14 + sz) (mlen w) 0 F11) by lia. cbn [bind fst snd].
    change 0 with (mlen (@nil N)) at 1.
    rewrite (rd_octets_ok w (L + o + 10 + a + 14 + sz + 2) (mlen w) [] ) by (try (intros j Hj; cbn in Hj; lia); change (mlen (@nil N)) with 0; lia).
    cbn [bind fst snd]. change (mlen (@nil N)) with 0.
    destruct (N.ltb_spec 0 (mlen w - (L + o + 10 + a + 14 + sz + 2 + 0))); [lia|].
    rewrite Lb, La. cbn [bind fst]. unfold signed_tsig. rewrite of_be_time48 by exact Htime. reflexivity.
  Qed.

  Theorem from_message_signed : from_message w = Ok signed_tsig.
  Proof.
    destruct Hmsg as (H12' & Hw & Q & A & Nn & R & Hno & Hnoan & Hnons & p1 & p2 & p3 & HQ & HA & HN & HR).
    destruct counts_w as (C1 & C2 & C3 & C4 & _).
    pose proof agree_w as Ag. pose proof mlen_w as Hmw.
    pose proof (QuestionsAt_count _ _ _ _ HQ) as K1. pose proof (RecordsAt_count _ _ _ _ HA) as K2.
    pose proof (RecordsAt_count _ _ _ _ HN) as K3. pose proof (RecordsAt_count _ _ _ _ HR) as K4.
    fold L in HR, K4.
    assert (Hlw : mlen w = N.of_nat (length w)) by reflexivity.
    unfold from_message. rewrite C1, C2, C3, C4.
    assert (HQ' : QuestionsAt w 12 nq p1).
    { eapply QuestionsAt_agree; [eapply agree_on_mono; [|exact Ag]; lia | lia | exact HQ]. }
    assert (HA' : RecordsAt w p1 an p2).
    { eapply RecordsAt_agree; [eapply agree_on_mono; [|exact Ag]; lia | lia | exact HA]. }
    assert (HN' : RecordsAt w p2 ns p3).
    { eapply RecordsAt_agree; [eapply agree_on_mono; [|exact Ag]; lia | lia | exact HN]. }
    assert (HR' : RecordsAt w p3 ar L).
    { eapply RecordsAt_agree; [exact Ag | lia | exact HR]. }
    unfold HEADER_LEN.
    rewrite (questions_ok w 12 nq p1 (mlen w) HQ') by lia. cbn [to_err bind].
    assert (TAIL : find_tsig (S (length w)) w p3 (mlen w) (N.of_nat (length ar) + 1) = Ok signed_tsig);
      [|destruct tsig_scan_all_sections;
        [rewrite (records_scan_ok w p1 an p2 (mlen w) HA') by (auto; lia); cbn [bind];
         rewrite (records_scan_ok w p2 ns p3 (mlen w) HN') by (auto; lia); cbn [bind]; exact TAIL
        |rewrite (records_skip_ok w p1 an p2 (mlen w) HA') by lia; cbn [to_err bind];
         rewrite (records_skip_ok w p2 ns p3 (mlen w) HN') by lia; cbn [to_err bind]; exact TAIL]].
    replace (S (length w)) with (length ar + S (length w - length ar))%nat by lia.
    rewrite (find_tsig_steps w p3 ar L (mlen w) HR') by (auto; lia).
    cbn [find_tsig]. change (1 =? 0) with false. cbv iota.
    destruct tsig_record_parse as (pn & b & Hp & Lb). rewrite Hp. cbn [to_err bind rh_type].
    rewrite N.eqb_refl. rewrite (tsig_parse_signed pn b Lb). cbn [to_err bind rh_class rh_ttl].
    rewrite N.eqb_refl. change (0 =? 0) with true. cbn [negb orb]. rewrite andb_false_r.
    change (0 <? 1 - 1) with false. cbv iota. reflexivity.
  Qed.

  Lemma slice_body : slice w 12 L = drop 12 msg.
  Proof.
    pose proof H12 as H. destruct (split12 msg H) as (b0&b1&b2&b3&b4&b5&b6&b7&b8&b9&b10&b11&body&E).
    unfold w, L. rewrite E. unfold set_arcount, take, drop, slice, mlen.
    change (N.to_nat 12) with 12%nat. cbn [firstn skipn app be16 length].
    replace (N.to_nat (N.of_nat (S (S (S (S (S (S (S (S (S (S (S (S (length body))))))))))))) - 12)) with (length body) by lia.
    rewrite firstn_app, firstn_all, Nat.sub_diag. cbn [firstn]. apply app_nil_r.
  Qed.

  (* what verification leaves in the buffer: the message as it was before
     signing, followed by the octets of the TSIG record (Message::
     remove_last_additional only decrements ARCOUNT) *)
  Theorem remove_tsig_signed : remove_tsig w signed_tsig = Ok (msg ++ rr).
  Proof.
    destruct counts_w as (_ & _ & _ & C4 & _). destruct Hmsg as (H & Hw & _ & _ & _ & R & _).
    unfold remove_tsig. rewrite C4. destruct (N.eqb_spec (N.of_nat (length ar) + 1) 0); [lia|].
    cbn [signed_tsig mt_oid]. rewrite <- R. unfold w. rewrite restore_header by assumption. reflexivity.
  Qed.

  Theorem stripped_signed : stripped w signed_tsig = Ok msg.
  Proof.
    destruct counts_w as (_ & _ & _ & C4 & _). destruct Hmsg as (H & Hw & _ & _ & _ & R & _).
    unfold stripped. rewrite C4. destruct (N.eqb_spec (N.of_nat (length ar) + 1) 0); [lia|].
    cbn [signed_tsig mt_oid mt_start]. rewrite <- R. unfold HEADER_LEN. rewrite slice_body.
    unfold w. rewrite restore_header by assumption. f_equal.
    unfold take. rewrite firstn_app. replace (12 - length msg)%nat with 0%nat by (unfold mlen in H; lia).
    rewrite firstn_O, app_nil_r. apply firstn_skipn.
  Qed.

  Theorem reads_back_signed :
    reads_back w msg (k_name k) (k_alg k) v mc signed_tsig.
  Proof.
    unfold reads_back. split; [exact from_message_signed|]. split; [exact stripped_signed|].
    cbn [signed_tsig mt_owner mt_algname mt_time mt_fudge mt_error mt_mac mt_other]. repeat split; auto.
  Qed.
End Signed.

(* ------------------------------------------------------------ premise-free sign / verify *)
Lemma push_tsig_inv k v mc msg w : push_tsig k v mc msg = Ok w -> v_other v = None ->
  arcount msg < 65535 /\
  mlen msg + mlen (tsig_rr (wire_abs (k_name k)) (tsig_rdata (alg_wire (k_alg k)) (v_time v) (v_fudge v) mc (hdr_id msg) (v_error v) [])) <= 65535 /\
  w = set_arcount msg (arcount msg + 1) ++ tsig_rr (wire_abs (k_name k)) (tsig_rdata (alg_wire (k_alg k)) (v_time v) (v_fudge v) mc (hdr_id msg) (v_error v) []).
Proof.
  intros H Ho. unfold push_tsig in H. rewrite Ho in H.
  destruct (N.leb_spec 65535 (arcount msg)); [discriminate|].
  change len with mlen in H.
  destruct (N.ltb_spec 65535 (mlen msg + mlen (tsig_rr (wire_abs (k_name k)) (tsig_rdata (alg_wire (k_alg k)) (v_time v) (v_fudge v) mc (hdr_id msg) (v_error v) [])))); [discriminate|].
  injection H as <-. repeat split; auto.
Qed.

Section Full.
  Variable mac : alg -> bytes -> bytes -> bytes.
  Hypothesis mac_len : forall a k d, len (mac a k d) = native_len a.

  (* Request.  For every laid out message (any questions, any records in the
     three sections, compressed names allowed as long as pointers stay in the
     body), every pair of key halves with compatible truncation policies and
     every verification time inside the window, the server accepts what the
     client signed, holds the same context as the client, and its buffer is the
     original message followed by the octets of the TSIG record. *)
  Theorem sign_verify_request_full ks kr msg nq an ns ar t fudge now c w :
    same_key ks kr -> k_min kr <= k_sign ks -> within_len_bounds (k_alg ks) (k_sign ks) = true ->
    MsgAt msg nq an ns ar -> name_ok (k_name ks) -> t < T48_LIMIT -> fudge < 65536 ->
    client_request mac ks msg t fudge = Ok (c, w) ->
    is_valid_at t fudge now = true ->
    exists rr, w = set_arcount msg (arcount msg + 1) ++ rr /\
      server_request mac kr w now = Ok (SrvOk c (msg ++ rr)).
  Proof.
    intros Hk Hmin Hw Hm Hn Ht Hf Hreq Hwin.
    pose proof Hreq as Hreq0. unfold client_request in Hreq0. cbn zeta in Hreq0.
    destruct (push_tsig _ _ _ _) as [w'| | |] eqn:Ep; try discriminate. cbn [bind] in Hreq0. injection Hreq0 as _ <-.
    destruct (push_tsig_inv _ _ _ _ _ Ep eq_refl) as (Har & Hlen & Ew). cbn [v_time v_fudge v_error] in *.
    eexists. split; [exact Ew|].
    eapply (sign_verify_request mac mac_len ks kr msg t fudge now c w'); eauto.
    - rewrite Ew. apply (reads_back_signed msg nq an ns ar ks (Vars t fudge RC_NOERROR None)); auto. cbn. reflexivity || (unfold RC_NOERROR; lia).
    - rewrite Ew. apply (remove_tsig_signed msg nq an ns ar ks (Vars t fudge RC_NOERROR None)); auto. cbn. reflexivity || (unfold RC_NOERROR; lia).
  Qed.

  Theorem request_outside_window_badtime_full ks kr msg nq an ns ar t fudge now c w :
    same_key ks kr -> k_min kr <= k_sign ks -> within_len_bounds (k_alg ks) (k_sign ks) = true ->
    MsgAt msg nq an ns ar -> name_ok (k_name ks) -> t < T48_LIMIT -> fudge < 65536 ->
    client_request mac ks msg t fudge = Ok (c, w) ->
    is_valid_at t fudge now = false ->
    server_request mac kr w now = Ok (SrvBadTime c (Vars t fudge RC_BADTIME (Some now))).
  Proof.
    intros Hk Hmin Hw Hm Hn Ht Hf Hreq Hwin.
    pose proof Hreq as Hreq0. unfold client_request in Hreq0. cbn zeta in Hreq0.
    destruct (push_tsig _ _ _ _) as [w'| | |] eqn:Ep; try discriminate. cbn [bind] in Hreq0. injection Hreq0 as _ <-.
    destruct (push_tsig_inv _ _ _ _ _ Ep eq_refl) as (Har & Hlen & Ew). cbn [v_time v_fudge v_error] in *.
    eapply (request_outside_window_badtime mac mac_len ks kr msg t fudge now c w'); eauto.
    rewrite Ew. apply (reads_back_signed msg nq an ns ar ks (Vars t fudge RC_NOERROR None)); auto. cbn. reflexivity || (unfold RC_NOERROR; lia).
  Qed.

  (* Response: ServerTransaction::answer then ClientTransaction::answer; [c] is
     the context both sides hold after the request. *)
  Theorem sign_verify_answer_full ks kr c msg nq an ns ar t fudge now w :
    same_key ks kr -> k_min kr <= k_sign ks -> within_len_bounds (k_alg ks) (k_sign ks) = true ->
    MsgAt msg nq an ns ar -> name_ok (k_name ks) -> t < T48_LIMIT -> fudge < 65536 ->
    (hdr_rcode msg =? RC_NOTAUTH) = false ->
    server_answer mac ks c msg t fudge = Ok w ->
    is_valid_at t fudge now = true ->
    exists rr, w = set_arcount msg (arcount msg + 1) ++ rr /\
      client_answer mac kr c w now = Ok (msg ++ rr).
  Proof.
    intros Hk Hmin Hw Hm Hn Ht Hf Hrc Hans Hwin.
    pose proof Hans as Ep. unfold server_answer, server_answer_vars in Ep. cbn zeta in Ep.
    destruct (push_tsig_inv _ _ _ _ _ Ep eq_refl) as (Har & Hlen & Ew). cbn [v_time v_fudge v_error] in *.
    eexists. split; [exact Ew|].
    eapply (sign_verify_answer mac mac_len ks kr c msg t fudge now w); eauto.
    - rewrite Ew. apply (reads_back_signed msg nq an ns ar ks (Vars t fudge RC_NOERROR None)); auto. cbn. reflexivity || (unfold RC_NOERROR; lia).
    - rewrite Ew. apply (remove_tsig_signed msg nq an ns ar ks (Vars t fudge RC_NOERROR None)); auto. cbn. reflexivity || (unfold RC_NOERROR; lia).
    - rewrite Ew.
      destruct Hm as (H12m & _).
      assert (H12' : 12 <= mlen (set_arcount msg (arcount msg + 1))) by (rewrite mlen_set_arcount; auto).
      destruct (hdr_app (set_arcount msg (arcount msg + 1)) (tsig_rr (wire_abs (k_name ks))
        (tsig_rdata (alg_wire (k_alg ks)) t fudge (signature_slice ks (ctx_sign mac ks (digest_full ks c msg (Vars t fudge RC_NOERROR None)))) (hdr_id msg) RC_NOERROR [])) H12')
        as (_ & _ & _ & _ & _ & E1).
      destruct (counts_set_arcount msg (arcount msg + 1) H12m) as (_ & _ & _ & _ & E2).
      rewrite E1, E2. exact Hrc.
  Qed.
End Full.

(* non-vacuity: the corpus query (www.example.com A) is a laid out message *)
Example ex_msg_layout : MsgAt ex_msg 1 [] [] [].
Proof.
  unfold MsgAt. split; [vm_compute; discriminate|]. split; [unfold hdr_wf; cbn [firstn ex_msg]; repeat constructor; lia|].
  repeat (split; [reflexivity|]). split; [constructor|]. split; [constructor|]. split; [constructor|].
  exists 33, 33, 33. split; [|repeat split; constructor].
  eapply QsA_cons; [|constructor].
  exists 29. split; [|split; [reflexivity|split; [vm_compute; discriminate|lia]]].
  exists [[119;119;119]; [101;120;97;109;112;108;101]; [99;111;109]]. split.
  - pose proof (NameIn_wire [18;52; 0;0; 0;1; 0;0; 0;0; 0;0] [[119;119;119]; [101;120;97;109;112;108;101]; [99;111;109]] [0;1;0;1]
                  (fun i => 12 <= i) 12) as H.
    change (mlen [18; 52; 0; 0; 0; 1; 0; 0; 0; 0; 0; 0]) with 12 in H.
    specialize (H ltac:(repeat constructor; cbn; lia) ltac:(auto) ltac:(lia)).
    apply NameIn_below in H. eapply NameIn_weaken; [|exact H].
    intros i [H1 H2]. change (mlen _) with 33 in H2. split; assumption.
  - split; [repeat constructor; cbn; lia | cbn; lia].
Qed.

(* Standalone: what push_tsig appends is found again, stripping it gives the
   signed octets back for the digest, and removing it leaves the pre-signing
   message followed by exactly the octets of the TSIG record in the buffer. *)
Theorem verify_restores_octets k v mc msg nq an ns ar w :
  MsgAt msg nq an ns ar -> name_ok (k_name k) ->
  v_time v < T48_LIMIT -> v_fudge v < 65536 -> v_error v < 65536 -> v_other v = None ->
  push_tsig k v mc msg = Ok w ->
  exists rr t, w = set_arcount msg (arcount msg + 1) ++ rr /\
    from_message w = Ok t /\ mt_start t = mlen msg /\ mt_mac t = mc /\ mt_oid t = hdr_id msg /\
    stripped w t = Ok msg /\
    remove_tsig w t = Ok (msg ++ rr) /\
    firstn (length msg) (msg ++ rr) = msg /\ arcount (msg ++ rr) = arcount msg.
Proof.
  intros Hm Hn Ht Hf He Ho Hp.
  destruct (push_tsig_inv _ _ _ _ _ Hp Ho) as (Har & Hlen & Ew).
  eexists. exists (signed_tsig msg k v mc). split; [exact Ew|]. rewrite Ew.
  split; [eapply from_message_signed; eauto|]. split; [reflexivity|]. split; [reflexivity|]. split; [reflexivity|].
  split; [eapply stripped_signed; eauto|]. split; [eapply remove_tsig_signed; eauto|].
  split.
  - rewrite firstn_app, firstn_all, Nat.sub_diag. cbn [firstn]. apply app_nil_r.
  - destruct Hm as (H12m & _). destruct (hdr_app msg (tsig_rr (wire_abs (k_name k))
      (tsig_rdata (alg_wire (k_alg k)) (v_time v) (v_fudge v) mc (hdr_id msg) (v_error v) [])) H12m) as (_ & _ & _ & E & _).
    exact E.
Qed.

(* A forwarder may have replaced the message ID (RFC 8945 5.1); neither the
   octets that go into the digest nor the message handed back depend on the ID
   the message arrived with: the original ID of the TSIG record is written into
   the header (T1 remove_tsig_sets_original_id). *)
Lemma set_id_set_id m x y : 2 <= mlen m -> set_id (set_id m x) y = set_id m y.
Proof.
  unfold mlen. intros H. destruct m as [|a [|b r]]; cbn in H; try lia.
  unfold set_id, drop, be16. reflexivity.
Qed.

Lemma arcount_set_id m x : 12 <= mlen m -> arcount (set_id m x) = arcount m.
Proof.
  intros H. destruct (split12 m H) as (b0&b1&b2&b3&b4&b5&b6&b7&b8&b9&b10&b11&body&->). reflexivity.
Qed.

Theorem forwarded_id_irrelevant m x t : 12 <= mlen m ->
  remove_tsig (set_id m x) t = remove_tsig m t /\
  (forall out, remove_tsig m t = Ok out -> hdr_id out = mt_oid t \/ 65536 <= mt_oid t).
Proof.
  intros H. split.
  - unfold remove_tsig. rewrite arcount_set_id by exact H. rewrite set_id_set_id by lia. reflexivity.
  - intros out Ho. unfold remove_tsig in Ho. destruct (arcount m =? 0); [discriminate|]. injection Ho as <-.
    destruct (N.lt_ge_cases (mt_oid t) 65536) as [Hl|Hl]; [left|right; exact Hl].
    destruct (split12 m H) as (b0&b1&b2&b3&b4&b5&b6&b7&b8&b9&b10&b11&body&->).
    unfold set_arcount, set_id, take, drop, hdr_id, byte_at, be16, of_be16. cbn [firstn skipn app nth]. lia.
Qed.
