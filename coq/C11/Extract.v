From Coq Require Import Extraction ExtrOcamlBasic NArith.
From DV Require Import Base.Outcome C11.Gen C11.Model C11.Exec.
Extraction Language OCaml.
Extraction "../build/ml/C11/model.ml" c11_key_new c11_key_generate c11_client_request c11_server_request c11_server_answer c11_server_answer_vars c11_server_seq_answer c11_client_answer c11_cseq_answer c11_cseq_done c11_eq_fudged c11_hmac c11_default_fudge c11_unsigned_error_rcode c11_unsigned_error_response c11_wrapper_validate c11_from_message.
