(* C11/Proofs6.v -- the response to a rejected request (ServerError::
   build_message, unsigned arm): with the plain-FORMERR shape in the source
   (T1 formerr_plain_response) building it never panics, and the RCODE is the
   one RFC 8945 assigns: FORMERR for an uninterpretable or misplaced TSIG and
   for an impossible MAC size, NOTAUTH (with the TSIG error) otherwise. *)
From Coq Require Import NArith List Bool Lia ZArith.
From Coq Require Import ZifyN ZifyBool ZifyNat.
From DV Require Import Base.Outcome Base.Bytes Base.Names Base.PName C11.Gen C11.Model C11.Proofs.
Import ListNotations.
Local Open Scope N_scope.

Section WithMac.
  Variable mac : alg -> bytes -> bytes -> bytes.

  Theorem unsigned_error_response_total k req now code :
    formerr_plain_response = true ->
    server_request mac k req now = Err (SE_UNSIGNED + code) ->
    exists rc, unsigned_error_rcode req code = Ok rc /\
      (code = RC_FORMERR -> rc = RC_FORMERR) /\ (code <> RC_FORMERR -> rc = RC_NOTAUTH).
  Proof.
    intros Hflag. unfold server_request.
    assert (FIN : forall c, (c = RC_FORMERR \/ exists t, from_message req = Ok t) ->
              Err (A := server_result) (SE_UNSIGNED + c) = Err (SE_UNSIGNED + code) ->
              exists rc, unsigned_error_rcode req code = Ok rc /\
                (code = RC_FORMERR -> rc = RC_FORMERR) /\ (code <> RC_FORMERR -> rc = RC_NOTAUTH)).
    { intros c Hc H0.
      pose proof (f_equal (fun o : outcome server_result => match o with Err e => e | _ => 0 end) H0) as H.
      cbv beta iota in H. apply N.add_cancel_l in H. subst c.
      unfold unsigned_error_rcode. rewrite Hflag. cbn [andb].
      destruct (N.eqb_spec code RC_FORMERR) as [E|E].
      - eexists. split; [reflexivity|]. split; [auto | intros; contradiction].
      - destruct Hc as [Hc|[t Ht]]; [contradiction|]. rewrite Ht. eexists. split; [reflexivity|].
        split; [intros; contradiction | auto]. }
    destruct (from_message req) as [t|e| |] eqn:Hf; try (intros HH; discriminate HH).
    2: { destruct (e =? TE_MISSING); [intros HH; discriminate HH|]. apply FIN. left. reflexivity. }
    destruct (alg_from_name (mt_algname t)) as [a|]; [|apply FIN; right; eauto].
    destruct (store_get k (mt_owner t) a); cbn [negb]; [|apply FIN; right; eauto].
    unfold stripped. destruct (arcount req =? 0); cbn [bind]; [intros HH; discriminate HH|].
    destruct (compare_signatures _ _ _) as [[]|e| |]; try (intros HH; discriminate HH).
    - destruct (negb _); [intros HH; discriminate HH|]. unfold remove_tsig. destruct (arcount req =? 0); cbn [bind]; intros HH; discriminate HH.
    - apply FIN. right. eauto.
  Qed.
End WithMac.

Theorem unsigned_error_response_total_now (mac : alg -> bytes -> bytes -> bytes) k req now code :
  server_request mac k req now = Err (SE_UNSIGNED + code) ->
  exists rc, unsigned_error_rcode req code = Ok rc /\
    (code = RC_FORMERR -> rc = RC_FORMERR) /\ (code <> RC_FORMERR -> rc = RC_NOTAUTH).
Proof. apply unsigned_error_response_total. reflexivity. Qed.

Example unsigned_error_ex :
  unsigned_error_rcode [0;0;0;0;0;0;0;0;0;0;0;1;0] RC_BADSIG =
    (if formerr_plain_response then Panic P_EXPECT_TSIG else Panic P_EXPECT_TSIG).
Proof. destruct formerr_plain_response; vm_compute; reflexivity. Qed.
