(* C11/Model.v -- executable model of src/tsig/mod.rs (and the TSIG parts of
   src/rdata/tsig.rs, base/message.rs section walking) as octet-list functions.

   The HMAC is a parameter [mac alg secret data] of the whole model (Section
   WithMac): theorems hold for every mac function; the extracted model
   instantiates it with Hmac.v.  An hmac::Context is modelled by the octets
   fed to it so far ([ctx]); context.sign() is [mac] of those octets.

   Error numbering (Err e):
     Key::new            1 BadMinMacLen, 2 BadSigningLen
     MessageTsig         TE_* below
     ValidationError     VE_* below
     ServerError         SE_UNSIGNED + TSIG rcode, signed BADTIME is a value
   Panic sites: 20 dec_arcount assert, 21 signature_slice index, 10.. PName. *)
From Coq Require Import NArith List Bool.
From DV Require Import Base.Outcome Base.Bytes Base.Names Base.PName C11.Gen.
Import ListNotations.
Local Open Scope N_scope.

(* ------------------------------------------------------------ algorithms *)
Inductive alg := Sha1 | Sha256 | Sha384 | Sha512.

Definition alg_eqb (a b : alg) : bool :=
  match a, b with
  | Sha1, Sha1 | Sha256, Sha256 | Sha384, Sha384 | Sha512, Sha512 => true
  | _, _ => false
  end.

(* hmac::Algorithm::len() of ring: the digest output length *)
Definition native_len (a : alg) : N :=
  match a with Sha1 => 20 | Sha256 => 32 | Sha384 => 48 | Sha512 => 64 end.

(* Algorithm::into_wire_slice / the labels matched by Algorithm::from_name (T1) *)
Definition alg_wire (a : alg) : bytes :=
  match a with Sha1 => alg_wire_sha1 | Sha256 => alg_wire_sha256
             | Sha384 => alg_wire_sha384 | Sha512 => alg_wire_sha512 end.
Definition alg_label (a : alg) : label :=
  match a with Sha1 => alg_label_sha1 | Sha256 => alg_label_sha256
             | Sha384 => alg_label_sha384 | Sha512 => alg_label_sha512 end.

Fixpoint bytes_eqb (a b : bytes) : bool :=
  match a, b with
  | [], [] => true
  | x :: a', y :: b' => (x =? y) && bytes_eqb a' b'
  | _, _ => false
  end.

(* Algorithm::from_name: exactly one label before the root, matched
   case-sensitively against the four byte strings *)
Definition alg_from_name (n : name) : option alg :=
  match n with
  | [l] => if bytes_eqb l (alg_label Sha1) then Some Sha1
           else if bytes_eqb l (alg_label Sha256) then Some Sha256
           else if bytes_eqb l (alg_label Sha384) then Some Sha384
           else if bytes_eqb l (alg_label Sha512) then Some Sha512
           else None
  | _ => None
  end.

(* Algorithm::within_len_bounds *)
Definition within_len_bounds (a : alg) (l : N) : bool :=
  (N.max trunc_floor (native_len a / trunc_divisor) <=? l) && (l <=? native_len a).

Definition E_BADMINMACLEN : N := 1.
Definition E_BADSIGNINGLEN : N := 2.

(* Key::calculate_bounds *)
Definition calculate_bounds (a : alg) (mn sg : option N) : outcome (N * N) :=
  do mn' <- match mn with
            | Some l => if within_len_bounds a l then Ok l else Err E_BADMINMACLEN
            | None => Ok (native_len a)
            end;
  do sg' <- match sg with
            | Some l => if within_len_bounds a l then Ok l else Err E_BADSIGNINGLEN
            | None => Ok (native_len a)
            end;
  Ok (mn', sg').

Record key := Key {
  k_alg : alg; k_secret : bytes; k_name : name;   (* name: labels without the root *)
  k_min : N;      (* min_mac_len *)
  k_sign : N      (* signing_len *)
}.

Definition key_new (a : alg) (secret : bytes) (nm : name) (mn sg : option N) : outcome key :=
  do b <- calculate_bounds a mn sg;
  Ok (Key a secret nm (fst b) (snd b)).

(* ------------------------------------------------------------ Time48 *)
Definition U64_MAX : N := 18446744073709551615.
Definition T48_LIMIT : N := 281474976710656.      (* 2^48, Time48::from_u64 assert *)
Definition sat_add (a b : N) : N := N.min (a + b) U64_MAX.
(* u64::saturating_sub is N's truncated subtraction *)

(* Time48::eq_fudged *)
Definition eq_fudged (self other fudge : N) : bool :=
  (self - fudge <=? other) && (other <=? sat_add self fudge).
(* Tsig::is_valid_at: now.eq_fudged(time_signed, fudge) *)
Definition is_valid_at (time_signed fudge now : N) : bool := eq_fudged now time_signed fudge.

(* big endian, w octets, of x mod 256^w (the `as u8` casts of into_octets) *)
Fixpoint be_bytes (w : nat) (x : N) : bytes :=
  match w with
  | O => []
  | S w' => be_bytes w' (x / 256) ++ [x mod 256]
  end.
Fixpoint of_be (l : bytes) (acc : N) : N :=
  match l with [] => acc | b :: r => of_be r (acc * 256 + b) end.
Definition time48_octets (t : N) : bytes := be_bytes (N.to_nat time48_width) t.

(* ------------------------------------------------------------ Variables *)
Record vars := Vars { v_time : N; v_fudge : N; v_error : N; v_other : option N }.

Definition CLASS_ANY : N := 255.
Definition RTYPE_TSIG : N := 250.

(* what one context.update call of Variables::sign / sign_timers feeds *)
Definition field_bytes (k : key) (v : vars) (f : sign_field) : bytes :=
  match f with
  | FName => wire_abs (canon (k_name k))
  | FClass => be16 CLASS_ANY
  | FTtl => be32 0
  | FAlg => alg_wire (k_alg k)
  | FTime => time48_octets (v_time v)
  | FFudge => be16 (v_fudge v)
  | FError => be16 (v_error v)
  | FOtherLen => be16 (match v_other v with Some _ => other_len_fed | None => 0 end)
  | FOther => match v_other v with Some t => time48_octets t | None => [] end
  end.

(* Variables::sign: the update calls in source order (T1: sign_order) *)
Definition vars_sign (k : key) (v : vars) : bytes := concat (map (field_bytes k v) sign_order).
(* Variables::sign_timers *)
Definition vars_sign_timers (k : key) (v : vars) : bytes := concat (map (field_bytes k v) timers_order).

(* ------------------------------------------------------------ header access *)
Definition byte_at (m : bytes) (i : nat) : N := nth i m 0.
Definition hdr_id (m : bytes) : N := of_be16 (byte_at m 0) (byte_at m 1).
Definition hdr_rcode (m : bytes) : N := byte_at m 3 mod 16.
Definition hdr_count (m : bytes) (i : nat) : N := of_be16 (byte_at m i) (byte_at m (S i)).
Definition qdcount m := hdr_count m 4.
Definition ancount m := hdr_count m 6.
Definition nscount m := hdr_count m 8.
Definition arcount m := hdr_count m 10.
Definition set_id (m : bytes) (id : N) : bytes := be16 id ++ drop 2 m.
Definition set_arcount (m : bytes) (c : N) : bytes := take 10 m ++ be16 c ++ drop 12 m.

(* ------------------------------------------------------------ TSIG record, wire form *)
Definition tsig_rdata (algw : bytes) (time fudge : N) (mac : bytes) (oid err : N) (other : bytes) : bytes :=
  algw ++ time48_octets time ++ be16 fudge ++ be16 (len mac) ++ mac ++
  be16 oid ++ be16 err ++ be16 (len other) ++ other.

Definition tsig_rr (owner : bytes) (rdata : bytes) : bytes :=
  owner ++ be16 RTYPE_TSIG ++ be16 CLASS_ANY ++ be32 0 ++ be16 (len rdata) ++ rdata.

Definition E_PUSH : N := 30.     (* PushError (counter overflow / short buffer) *)

(* Variables::push_tsig via Key::complete_message: the record goes behind the
   message built so far (uncompressed: plain octets target), ARCOUNT + 1 *)
Definition push_tsig (k : key) (v : vars) (mac : bytes) (msg : bytes) : outcome bytes :=
  let other := match v_other v with Some t => time48_octets t | None => [] end in
  let rd := tsig_rdata (alg_wire (k_alg k)) (v_time v) (v_fudge v) mac (hdr_id msg) (v_error v) other in
  if 65535 <=? arcount msg then Err E_PUSH
  else if 65535 <? len msg + len (tsig_rr (wire_abs (k_name k)) rd) then Err E_PUSH
  else Ok (set_arcount msg (arcount msg + 1) ++ tsig_rr (wire_abs (k_name k)) rd).

(* ------------------------------------------------------------ MessageTsig::from_message *)
Definition TE_INVALID : N := 1.
Definition TE_POSITION : N := 2.
Definition TE_MISSING : N := 3.
Definition TE_PARSE : N := 4.

Definition to_err {A} (e : N) (x : outcome A) : outcome A :=
  match x with Err _ => Err e | o => o end.

(* Parser::advance *)
Definition advance (pos lim n : N) : outcome N :=
  if lim - pos <? n then Err E_SHORT else Ok (pos + n).

Definition rd_u16 (m : bytes) (pos lim : N) : outcome (N * N) :=
  do p2 <- advance pos lim 2;
  match get m pos, get m (pos + 1) with
  | Some a, Some b => Ok (of_be16 a b, p2)
  | _, _ => Panic P_INDEX
  end.

Definition rd_octets (m : bytes) (pos lim n : N) : outcome (bytes * N) :=
  do p2 <- advance pos lim n;
  if mlen m <? p2 then Panic P_INDEX else Ok (slice m pos p2, p2).

(* Question::parse: ParsedName::parse, Rtype::parse, Class::parse *)
Definition question_parse (m : bytes) (pos lim : N) : outcome N :=
  do p <- parse_ref m pos lim;
  advance (pn_end p) lim 4.

(* QuestionSection::answer: `while self.next().is_some()`, then `self.count?` *)
Fixpoint skip_questions (fuel : nat) (m : bytes) (pos lim count : N) : outcome N :=
  match fuel with
  | O => OutOfFuel
  | S fuel' =>
      if count =? 0 then Ok pos
      else do pos' <- question_parse m pos lim; skip_questions fuel' m pos' lim (count - 1)
  end.

(* ParsedRecord::skip *)
Definition record_skip (m : bytes) (pos lim : N) : outcome N :=
  do p1 <- skip_name m pos lim;
  do p2 <- advance p1 lim 8;
  do r <- rd_u16 m p2 lim;
  advance (snd r) lim (fst r).

(* RecordSection::next_section: skip_next until the count is used up *)
Fixpoint skip_records (fuel : nat) (m : bytes) (pos lim count : N) : outcome N :=
  match fuel with
  | O => OutOfFuel
  | S fuel' =>
      if count =? 0 then Ok pos
      else do pos' <- record_skip m pos lim; skip_records fuel' m pos' lim (count - 1)
  end.

Record rhead := RHead { rh_owner : pname; rh_type : N; rh_class : N; rh_ttl : N; rh_rdlen : N; rh_data : N; rh_next : N }.

(* ParsedRecord::parse = RecordHeader::parse_ref + advance(rdlen) *)
Definition record_parse (m : bytes) (pos lim : N) : outcome rhead :=
  do p <- parse_ref m pos lim;
  do t <- rd_u16 m (pn_end p) lim;
  do c <- rd_u16 m (snd t) lim;
  do tl <- rd_octets m (snd c) lim 4;
  do l <- rd_u16 m (snd tl) lim;
  do nx <- advance (snd l) lim (fst l);
  Ok (RHead p (fst t) (fst c) (of_be (fst tl) 0) (fst l) (snd l) nx).

Record mtsig := MTsig {
  mt_start : N;
  mt_owner : name;          (* labels of the owner, root stripped *)
  mt_class : N;
  mt_algname : name;
  mt_time : N; mt_fudge : N; mt_mac : bytes; mt_oid : N; mt_error : N; mt_other : bytes
}.

(* Tsig::parse inside parse_parser(rdlen), followed by the trailing-data test
   of RecordHeader::parse_into_record *)
Definition tsig_parse (m : bytes) (h : rhead) (start : N) : outcome mtsig :=
  let lim := rh_data h + rh_rdlen h in
  do pa <- parse_ref m (rh_data h) lim;
  do t <- rd_octets m (pn_end pa) lim time48_width;
  do f <- rd_u16 m (snd t) lim;
  do ms <- rd_u16 m (snd f) lim;
  do mc <- rd_octets m (snd ms) lim (fst ms);
  do oid <- rd_u16 m (snd mc) lim;
  do er <- rd_u16 m (snd oid) lim;
  do ol <- rd_u16 m (snd er) lim;
  do ot <- rd_octets m (snd ol) lim (fst ol);
  if 0 <? lim - snd ot then Err E_SHORT            (* "trailing data" *)
  else
    do on <- pname_labels m (rh_owner h);
    do an <- pname_labels m pa;
    Ok (MTsig start (fst on) (rh_class h) (fst an) (of_be (fst t) 0) (fst f) (fst mc) (fst oid) (fst er) (fst ot)).

(* the loop of from_message over the additional section *)
Fixpoint find_tsig (fuel : nat) (m : bytes) (pos lim count : N) : outcome mtsig :=
  match fuel with
  | O => OutOfFuel
  | S fuel' =>
      if count =? 0 then Err TE_MISSING
      else
        do h <- to_err TE_PARSE (record_parse m pos lim);
        if rh_type h =? RTYPE_TSIG then
          do t <- to_err TE_INVALID (tsig_parse m h pos);
          (* T1 tsig_class_ttl_checked: CLASS must be ANY and TTL 0 *)
          if tsig_class_ttl_checked && (negb (rh_class h =? CLASS_ANY) || negb (rh_ttl h =? 0))
          then Err TE_INVALID
          else if 0 <? count - 1 then Err TE_POSITION else Ok t
        else find_tsig fuel' m (rh_next h) lim (count - 1)
  end.

Definition HEADER_LEN : N := 12.

(* with T1 tsig_scan_all_sections: answer and authority are iterated with
   ParsedRecord::parse and a TSIG record there is TsigError::Position *)
Fixpoint scan_records (fuel : nat) (m : bytes) (pos lim count : N) : outcome N :=
  match fuel with
  | O => OutOfFuel
  | S fuel' =>
      if count =? 0 then Ok pos
      else
        do h <- to_err TE_PARSE (record_parse m pos lim);
        if rh_type h =? RTYPE_TSIG then Err TE_POSITION
        else scan_records fuel' m (rh_next h) lim (count - 1)
  end.

Definition from_message (m : bytes) : outcome mtsig :=
  let lim := mlen m in
  let fuel := S (length m) in
  do p1 <- to_err TE_PARSE (skip_questions fuel m HEADER_LEN lim (qdcount m));
  if tsig_scan_all_sections then
    do p2 <- scan_records fuel m p1 lim (ancount m);
    do p3 <- scan_records fuel m p2 lim (nscount m);
    find_tsig fuel m p3 lim (arcount m)
  else
    do p2 <- to_err TE_PARSE (skip_records fuel m p1 lim (ancount m));
    do p3 <- to_err TE_PARSE (skip_records fuel m p2 lim (nscount m));
    find_tsig fuel m p3 lim (arcount m).

(* MessageTsig::variables *)
Definition other_time (other : bytes) : option N :=
  if len other =? other_time_len then Some (of_be other 0) else None.
Definition mt_vars (t : mtsig) : vars :=
  Vars (mt_time t) (mt_fudge t) (mt_error t) (other_time (mt_other t)).

(* header with the original ID and ARCOUNT - 1 (header_section(), set_id,
   dec_arcount) followed by message[12..start] *)
Definition P_DEC_ARCOUNT : N := 20.
Definition stripped (m : bytes) (t : mtsig) : outcome bytes :=
  if arcount m =? 0 then Panic P_DEC_ARCOUNT
  else Ok (take 12 (set_arcount (set_id m (mt_oid t)) (arcount m - 1)) ++ slice m HEADER_LEN (mt_start t)).

(* remove_tsig: set_id(original), remove_last_additional = ARCOUNT - 1; the
   octets of the record stay in the buffer *)
Definition remove_tsig (m : bytes) (t : mtsig) : outcome bytes :=
  if arcount m =? 0 then Panic P_DEC_ARCOUNT
  else Ok (set_arcount (set_id m (mt_oid t)) (arcount m - 1)).

(* ------------------------------------------------------------ ValidationError *)
Definition VE_BADSIG : N := 1.
Definition VE_BADTRUNC : N := 2.
Definition VE_BADKEY : N := 3.
Definition VE_BADTIME : N := 4.
Definition VE_FORMERR : N := 5.
Definition VE_SERVERUNSIGNED : N := 6.
Definition VE_SERVERBADKEY : N := 7.
Definition VE_SERVERBADSIG : N := 8.
Definition VE_SERVERBADTIME : N := 9.
Definition VE_TOOMANYUNSIGNED : N := 10.
Definition SE_UNSIGNED : N := 100.     (* ServerError::unsigned(code) is Err (100 + code) *)

Definition P_SIGSLICE : N := 21.
Definition P_EXPECT_TSIG : N := 22.

Section WithMac.
  Variable mac : alg -> bytes -> bytes -> bytes.

  Definition ctx := bytes.

  (* SigningContext::apply_signature *)
  Definition apply_signature (c : ctx) (data : bytes) : ctx :=
    c ++ be16 (len data mod 65536) ++ data.

  Definition ctx_sign (k : key) (c : ctx) : bytes := mac (k_alg k) (k_secret k) c.

  (* Key::signature_slice: &tag[..signing_len] *)
  Definition signature_slice (k : key) (full : bytes) : bytes := take (N.to_nat (k_sign k)) full.

  (* Key::compare_signatures *)
  Definition compare_signatures (k : key) (expected provided : bytes) : outcome unit :=
    (* T1 compare_checks_rfc_size: RFC 8945 5.2.2.1 size range first *)
    if compare_checks_rfc_size && negb (within_len_bounds (k_alg k) (len provided)) then Err VE_FORMERR
    else if len provided <? k_min k then Err VE_BADTRUNC
    else
      let e := if len provided <? len expected then take (length provided) expected else expected in
      if bytes_eqb e provided then Ok tt else Err VE_BADSIG.

  (* SigningContext::{request, answer, final_answer, first_answer}: message
     (first ++ second) then the full variables; signed_subsequent: message
     then the timers.  [c] is what the context already holds. *)
  Definition digest_full (k : key) (c : ctx) (msg : bytes) (v : vars) : bytes := c ++ msg ++ vars_sign k v.
  Definition digest_timers (k : key) (c : ctx) (msg : bytes) (v : vars) : bytes := c ++ msg ++ vars_sign_timers k v.

  (* ---------------------------------------------------------- client, request *)
  (* ClientTransaction::request_with_fudge / ClientSequence::request_with_fudge *)
  Definition client_request (k : key) (msg : bytes) (now fudge : N) : outcome (ctx * bytes) :=
    let v := Vars now fudge RC_NOERROR None in
    let full := ctx_sign k (digest_full k [] msg v) in
    let m := signature_slice k full in
    let c := apply_signature [] m in
    do w <- push_tsig k v m msg;
    Ok (c, w).

  (* ---------------------------------------------------------- server, request *)
  Inductive server_result :=
  | SrvNone                                     (* Ok(None): no TSIG *)
  | SrvOk (c : ctx) (msg : bytes)               (* Ok(Some(context)), message after remove_tsig *)
  | SrvBadTime (c : ctx) (v : vars).            (* Err(ServerError::signed(context, variables)) *)

  (* KeyStore for a single key: name (case-insensitive) and algorithm *)
  Definition store_get (k : key) (owner : name) (a : alg) : bool :=
    name_eqb (k_name k) owner && alg_eqb (k_alg k) a.

  (* SigningContext::server_request *)
  Definition server_request (k : key) (m : bytes) (now : N) : outcome server_result :=
    match from_message m with
    | Err e => if e =? TE_MISSING then Ok SrvNone else Err (SE_UNSIGNED + RC_FORMERR)
    | Panic s => Panic s
    | OutOfFuel => OutOfFuel
    | Ok t =>
        match alg_from_name (mt_algname t) with
        | None => Err (SE_UNSIGNED + RC_BADKEY)
        | Some a =>
            if negb (store_get k (mt_owner t) a) then Err (SE_UNSIGNED + RC_BADKEY)
            else
              let v := mt_vars t in
              do sm <- stripped m t;
              let sig := ctx_sign k (digest_full k [] sm v) in
              match compare_signatures k sig (mt_mac t) with
              | Err e => Err (SE_UNSIGNED + (if e =? VE_BADTRUNC then server_code_badtrunc
                                            else if e =? VE_BADKEY then RC_BADKEY
                                            else if e =? VE_BADSIG then server_code_badsig
                                            else server_code_other))
              | Panic s => Panic s
              | OutOfFuel => OutOfFuel
              | Ok _ =>
                  let c := apply_signature [] (mt_mac t) in
                  if negb (is_valid_at (mt_time t) (mt_fudge t) now)
                  then Ok (SrvBadTime c (Vars (v_time v) (v_fudge v) RC_BADTIME (Some now)))
                  else do out <- remove_tsig m t; Ok (SrvOk c out)
              end
        end
    end.

  (* ServerError::build_message, Unsigned arm, reduced to what decides the shape
     of the response: the RCODE, or the panic of
     MessageTsig::from_message(msg).expect("missing or malformed TSIG record")
     when the record that made the request fail cannot be found again.
     T1 formerr_plain_response: FORMERR is answered before looking. *)
  Definition unsigned_error_rcode (req : bytes) (code : N) : outcome N :=
    if formerr_plain_response && (code =? RC_FORMERR) then Ok RC_FORMERR
    else match from_message req with
         | Ok _ => Ok RC_NOTAUTH
         | Err _ => Panic P_EXPECT_TSIG
         | Panic s => Panic s
         | OutOfFuel => OutOfFuel
         end.

  (* ServerError::build_message, Unsigned arm, the octets: [resp] is what
     start_answer(msg, rcode).additional() built (an input, as for the signed
     arm); the TSIG record of the request is echoed with an empty MAC, the
     request's current ID, the error code and no other data.  Owner and
     algorithm name are written as the request spelled them (the parsed names,
     flattened); CLASS and TTL are the request's, i.e. ANY and 0 (from_message
     checks them, T1 tsig_class_ttl_checked). *)
  Definition unsigned_error_response (req resp : bytes) (code : N) : outcome bytes :=
    if formerr_plain_response && (code =? RC_FORMERR) then Ok resp
    else match from_message req with
         | Ok t =>
             let rd := tsig_rdata (wire_abs (mt_algname t)) (mt_time t) (mt_fudge t) [] (hdr_id req) code [] in
             if 65535 <=? arcount resp then Err E_PUSH
             else Ok (set_arcount resp (arcount resp + 1) ++ tsig_rr (wire_abs (mt_owner t)) rd)
         | Err _ => Panic P_EXPECT_TSIG
         | Panic s => Panic s
         | OutOfFuel => OutOfFuel
         end.

  (* ServerTransaction::answer_with_fudge (final_answer), also the Signed arm
     of ServerError::build_message with the BADTIME variables *)
  Definition server_answer_vars (k : key) (c : ctx) (msg : bytes) (v : vars) : outcome bytes :=
    let full := ctx_sign k (digest_full k c msg v) in
    push_tsig k v (signature_slice k full) msg.
  Definition server_answer (k : key) (c : ctx) (msg : bytes) (now fudge : N) : outcome bytes :=
    server_answer_vars k c msg (Vars now fudge RC_NOERROR None).

  (* ServerSequence::answer_with_fudge: returns the new context and the wire.
     T1 flag server_seq_applies_full_mac: the context receives the untruncated
     tag (source order: apply_signature(mac.as_ref()) before signature_slice). *)
  Definition server_seq_answer (k : key) (c : ctx) (first : bool) (msg : bytes) (now fudge : N)
    : outcome (ctx * bytes) :=
    let v := Vars now fudge RC_NOERROR None in
    let full := if first then ctx_sign k (digest_full k c msg v)
                else ctx_sign k (digest_timers k c msg v) in
    let sent := signature_slice k full in
    let c' := apply_signature [] (if server_seq_applies_full_mac then full else sent) in
    do w <- push_tsig k v sent msg;
    Ok (c', w).

  (* ---------------------------------------------------------- client, answers *)
  (* SigningContext::get_answer_tsig *)
  Definition get_answer_tsig (k : key) (m : bytes) : outcome (option mtsig) :=
    match from_message m with
    | Err e => if e =? TE_MISSING then Ok None else Err VE_FORMERR
    | Panic s => Panic s
    | OutOfFuel => OutOfFuel
    | Ok t =>
        if (hdr_rcode m =? RC_NOTAUTH) && (mt_error t =? RC_BADKEY) then Err VE_SERVERBADKEY
        else if (hdr_rcode m =? RC_NOTAUTH) && (mt_error t =? RC_BADSIG) then Err VE_SERVERBADSIG
        else if negb (name_eqb (mt_owner t) (k_name k)) || negb (name_eqb (mt_algname t) [alg_label (k_alg k)])
        then Err VE_BADKEY
        else Ok (Some t)
    end.

  (* SigningContext::check_answer_time *)
  Definition check_answer_time (m : bytes) (t : mtsig) (now : N) : outcome unit :=
    if (hdr_rcode m =? RC_NOTAUTH) && (mt_error t =? RC_BADTIME) then
      match other_time (mt_other t) with
      | None => Err VE_FORMERR
      | Some _ => Err VE_SERVERBADTIME
      end
    else if negb (is_valid_at (mt_time t) (mt_fudge t) now) then Err VE_BADTIME
    else Ok tt.

  (* ClientTransaction::answer *)
  Definition client_answer (k : key) (c : ctx) (m : bytes) (now : N) : outcome bytes :=
    do ot <- get_answer_tsig k m;
    match ot with
    | None => Err VE_SERVERUNSIGNED
    | Some t =>
        do sm <- stripped m t;
        let sig := ctx_sign k (digest_full k c sm (mt_vars t)) in
        do _ <- compare_signatures k sig (mt_mac t);
        do _ <- check_answer_time m t now;
        remove_tsig m t
    end.

  (* ClientSequence *)
  Record cseq := CSeq { cs_ctx : ctx; cs_first : bool; cs_unsigned : N }.

  Definition unsigned_allowed (n : N) : bool :=
    if unsigned_guard_is_lt then n <? unsigned_limit else n <=? unsigned_limit.

  (* ClientSequence::answer = answer_first / answer_subsequent.  The state is
     returned also on errors that occur after it was changed
     (apply_signature precedes check_answer_time). *)
  Definition cseq_answer (k : key) (s : cseq) (m : bytes) (now : N) : cseq * outcome bytes :=
    match get_answer_tsig k m with
    | Err e => (s, Err e)
    | Panic p => (s, Panic p)
    | OutOfFuel => (s, OutOfFuel)
    | Ok None =>
        if cs_first s then (s, Err VE_SERVERUNSIGNED)
        else if unsigned_allowed (cs_unsigned s)
             then (CSeq (cs_ctx s ++ m) false (cs_unsigned s + 1), Ok m)
             else (s, Err VE_TOOMANYUNSIGNED)
    | Ok (Some t) =>
        match stripped m t with
        | Ok sm =>
            let sig := if cs_first s then ctx_sign k (digest_full k (cs_ctx s) sm (mt_vars t))
                       else ctx_sign k (digest_timers k (cs_ctx s) sm (mt_vars t)) in
            (* first_answer / signed_subsequent swap in a fresh context *)
            let s1 := CSeq [] (cs_first s) (cs_unsigned s) in
            match compare_signatures k sig (mt_mac t) with
            | Ok _ =>
                let s2 := CSeq (apply_signature [] (mt_mac t)) (cs_first s) (cs_unsigned s) in
                match check_answer_time m t now with
                | Ok _ =>
                    let s3 := if cs_first s then CSeq (cs_ctx s2) false (cs_unsigned s)
                              else CSeq (cs_ctx s2) false 0 in
                    (s3, remove_tsig m t)
                | Err e => (s2, Err e)
                | Panic p => (s2, Panic p)
                | OutOfFuel => (s2, OutOfFuel)
                end
            | Err e => (s1, Err e)
            | Panic p => (s1, Panic p)
            | OutOfFuel => (s1, OutOfFuel)
            end
        | Err e => (s, Err e)
        | Panic p => (s, Panic p)
        | OutOfFuel => (s, OutOfFuel)
        end
    end.

  (* ClientSequence::done *)
  Definition cseq_done (s : cseq) : outcome unit :=
    if cs_unsigned s =? 0 then Ok tt else Err VE_TOOMANYUNSIGNED.

  (* net/client/tsig.rs: TsigClient (Transaction for SendRequest, Sequence for
     SendRequestMulti) and Request::validate_response.  Every response the
     upstream delivers goes through TsigClient::answer, the end of the stream
     (None) through TsigClient::done (T1 client_wrapper_validates_all pins the
     shape of the function: no path around the validation). *)
  Inductive wclient := WTransaction (c : ctx) | WSequence (s : cseq).

  Definition wrapper_validate (k : key) (cl : wclient) (resp : option bytes) (now : N)
    : wclient * outcome (option bytes) :=
    match resp with
    | None =>
        (cl, match cl with
             | WTransaction _ => Ok None
             | WSequence s => do _ <- cseq_done s; Ok None
             end)
    | Some m =>
        match cl with
        | WTransaction c => (cl, do out <- client_answer k c m now; Ok (Some out))
        | WSequence s => let '(s', r) := cseq_answer k s m now in (WSequence s', do out <- r; Ok (Some out))
        end
    end.
End WithMac.
