(* C11 -- property theorems only.  Proofs live in C11/Proofs*.v. *)
From Coq Require Import NArith List Bool.
From DV Require Import C02.ProofsName.
From DV Require Import Base.Outcome Base.Bytes Base.Names Base.PName C11.Gen C11.Model C11.Proofs C11.Proofs2 C11.Proofs3 C11.Proofs4 C11.Proofs5 C11.Proofs6 C11.Proofs7 C11.Proofs8 C11.Proofs9 C11.ProofsA C11.Generate C11.ProofsB.
Import ListNotations.
Local Open Scope N_scope.

Theorem C11_digest_variables_is_rfc8945 : forall k v,
  vars_sign k v = rfc8945_variables (rfc_key_of k) (v_time v) (v_fudge v) (v_error v) (vars_other v).
Proof. exact vars_sign_is_rfc8945. Qed.
Print Assumptions C11_digest_variables_is_rfc8945.

Theorem C11_digest_timers_is_rfc8945 : forall k v,
  vars_sign_timers k v = rfc8945_timers (v_time v) (v_fudge v).
Proof. exact vars_sign_timers_is_rfc8945. Qed.
Print Assumptions C11_digest_timers_is_rfc8945.

Theorem C11_prior_mac_is_rfc8945 : forall mac, len mac < 65536 ->
  apply_signature [] mac = rfc8945_mac_field mac.
Proof. exact apply_signature_is_rfc8945. Qed.
Print Assumptions C11_prior_mac_is_rfc8945.

Theorem C11_time_window_exact : forall now signed fudge,
  now < T48_LIMIT -> signed < T48_LIMIT -> fudge < 65536 ->
  (is_valid_at signed fudge now = true <-> (now - signed <= fudge /\ signed - now <= fudge)).
Proof. exact time_window_exact. Qed.
Print Assumptions C11_time_window_exact.

Theorem C11_truncation_bounds : forall a mn sg m s,
  calculate_bounds a mn sg = Ok (m, s) ->
  (10 <= m /\ native_len a / 2 <= m /\ m <= native_len a) /\
  (10 <= s /\ native_len a / 2 <= s /\ s <= native_len a).
Proof. exact calculate_bounds_ok. Qed.
Print Assumptions C11_truncation_bounds.




Theorem C11_mac_mismatch_is_badsig : forall mac k w now t sm a,
  from_message w = Ok t -> alg_from_name (mt_algname t) = Some a -> store_get k (mt_owner t) a = true ->
  stripped w t = Ok sm -> within_len_bounds (k_alg k) (len (mt_mac t)) = true -> k_min k <= len (mt_mac t) ->
  compare_signatures k (ctx_sign mac k (digest_full k [] sm (mt_vars t))) (mt_mac t) <> Ok tt ->
  server_request mac k w now = Err (SE_UNSIGNED + RC_BADSIG).
Proof. exact server_mac_mismatch_badsig. Qed.
Print Assumptions C11_mac_mismatch_is_badsig.

Theorem C11_short_mac_is_badtrunc : forall mac k w now t sm a,
  from_message w = Ok t -> alg_from_name (mt_algname t) = Some a -> store_get k (mt_owner t) a = true ->
  stripped w t = Ok sm -> within_len_bounds (k_alg k) (len (mt_mac t)) = true -> len (mt_mac t) < k_min k ->
  server_request mac k w now = Err (SE_UNSIGNED + RC_BADTRUNC).
Proof. exact server_short_mac_badtrunc. Qed.
Print Assumptions C11_short_mac_is_badtrunc.

Theorem C11_mac_size_out_of_range_is_formerr : forall mac k w now t sm a,
  from_message w = Ok t -> alg_from_name (mt_algname t) = Some a -> store_get k (mt_owner t) a = true ->
  stripped w t = Ok sm -> within_len_bounds (k_alg k) (len (mt_mac t)) = false ->
  server_request mac k w now = Err (SE_UNSIGNED + RC_FORMERR).
Proof. exact server_mac_size_formerr_now. Qed.
Print Assumptions C11_mac_size_out_of_range_is_formerr.

Theorem C11_accepted_mac_is_rfc8945 : forall mac,
  (forall a k d, len (mac a k d) = native_len a) ->
  forall k w now c out,
  server_request mac k w now = Ok (SrvOk c out) ->
  exists t sm, from_message w = Ok t /\ stripped w t = Ok sm /\
    k_min k <= len (mt_mac t) /\
    mt_mac t = (let e := ctx_sign mac k (digest_full k [] sm (mt_vars t)) in
                if len (mt_mac t) <? len e then take (length (mt_mac t)) e else e) /\
    is_valid_at (mt_time t) (mt_fudge t) now = true /\
    name_eqb (k_name k) (mt_owner t) = true /\ mt_algname t = mt_algname t.
Proof. exact server_accepts_only_valid_mac. Qed.
Print Assumptions C11_accepted_mac_is_rfc8945.

Theorem C11_tamper_rejected : forall mac,
  (forall a k d, len (mac a k d) = native_len a) ->
  forall k w1 w2 now1 now2 c1 c2 o1 o2 t1 t2 s1 s2,
  mac_collision_free mac ->
  10 <= k_min k ->
  server_request mac k w1 now1 = Ok (SrvOk c1 o1) -> server_request mac k w2 now2 = Ok (SrvOk c2 o2) ->
  from_message w1 = Ok t1 -> from_message w2 = Ok t2 -> stripped w1 t1 = Ok s1 -> stripped w2 t2 = Ok s2 ->
  mt_mac t1 = mt_mac t2 -> len (mt_mac t1) <= native_len (k_alg k) ->
  s1 ++ vars_sign k (mt_vars t1) = s2 ++ vars_sign k (mt_vars t2).
Proof. exact tamper_rejected. Qed.
Print Assumptions C11_tamper_rejected.

Theorem C11_tsig_class_ttl_enforced : forall fuel m pos lim count h,
  count <> 0 -> record_parse m pos lim = Ok h -> rh_type h = RTYPE_TSIG ->
  (rh_class h <> CLASS_ANY \/ rh_ttl h <> 0) ->
  forall t, find_tsig (S fuel) m pos lim count <> Ok t.
Proof. exact tsig_class_ttl_enforced. Qed.
Print Assumptions C11_tsig_class_ttl_enforced.

Theorem C11_unsigned_run_limit : forall mac,
  (forall a k d, len (mac a k d) = native_len a) ->
  forall k s ms now,
  cs_first s = false -> Forall (fun m => get_answer_tsig k m = Ok None) ms ->
  (snd (feed_unsigned mac k s ms now) = true <-> cs_unsigned s + N.of_nat (length ms) <= 99 \/ ms = []).
Proof. exact unsigned_run_limit. Qed.
Print Assumptions C11_unsigned_run_limit.

Theorem C11_unsigned_counter_bounded : forall mac,
  (forall a k d, len (mac a k d) = native_len a) ->
  forall k s m now,
  cs_unsigned s <= 99 -> cs_unsigned (fst (cseq_answer mac k s m now)) <= 99.
Proof. exact unsigned_counter_bounded. Qed.
Print Assumptions C11_unsigned_counter_bounded.

Theorem C11_done_iff_last_signed : forall s, cseq_done s = Ok tt <-> cs_unsigned s = 0.
Proof. exact done_iff_last_signed. Qed.
Print Assumptions C11_done_iff_last_signed.

Theorem C11_server_sequence_digests_sent_mac : forall mac k c first msg now fudge c' w,
  server_seq_answer mac k c first msg now fudge = Ok (c', w) ->
  exists full, full = ctx_sign mac k (if first then digest_full k c msg (Vars now fudge RC_NOERROR None)
                                    else digest_timers k c msg (Vars now fudge RC_NOERROR None)) /\
    c' = apply_signature [] (signature_slice k full) /\
    push_tsig k (Vars now fudge RC_NOERROR None) (signature_slice k full) msg = Ok w.
Proof. exact server_seq_context_is_sent_mac. Qed.
Print Assumptions C11_server_sequence_digests_sent_mac.

Theorem C11_digest_injective : forall k pm pm' msg msg' v v',
  len pm < 65536 -> len pm' < 65536 -> wf_vars v -> wf_vars v' ->
  digest_full k (apply_signature [] pm) msg v = digest_full k (apply_signature [] pm') msg' v' ->
  pm = pm' /\ msg = msg' /\ v = v'.
Proof. exact digest_injective. Qed.
Print Assumptions C11_digest_injective.

Theorem C11_digest_timers_injective : forall k pm pm' msg msg' v v',
  len pm < 65536 -> len pm' < 65536 ->
  v_time v < T48_LIMIT -> v_time v' < T48_LIMIT -> v_fudge v < 65536 -> v_fudge v' < 65536 ->
  digest_timers k (apply_signature [] pm) msg v = digest_timers k (apply_signature [] pm') msg' v' ->
  pm = pm' /\ msg = msg' /\ v_time v = v_time v' /\ v_fudge v = v_fudge v'.
Proof. exact digest_timers_injective. Qed.
Print Assumptions C11_digest_timers_injective.

(* The three sign/verify theorems below have no framing premise any more: the
   parser finding the record that push_tsig wrote is proved (Proofs4) for every
   laid out message MsgAt msg nq an ns ar. *)
Theorem C11_sign_verify_request : forall mac,
  (forall a k d, len (mac a k d) = native_len a) ->
  forall ks kr msg nq an ns ar t fudge now c w,
  same_key ks kr -> k_min kr <= k_sign ks -> within_len_bounds (k_alg ks) (k_sign ks) = true ->
  MsgAt msg nq an ns ar -> name_ok (k_name ks) -> t < T48_LIMIT -> fudge < 65536 ->
  client_request mac ks msg t fudge = Ok (c, w) ->
  is_valid_at t fudge now = true ->
  exists rr, w = set_arcount msg (arcount msg + 1) ++ rr /\
    server_request mac kr w now = Ok (SrvOk c (msg ++ rr)).
Proof. exact sign_verify_request_full. Qed.
Print Assumptions C11_sign_verify_request.

Theorem C11_request_outside_window_badtime : forall mac,
  (forall a k d, len (mac a k d) = native_len a) ->
  forall ks kr msg nq an ns ar t fudge now c w,
  same_key ks kr -> k_min kr <= k_sign ks -> within_len_bounds (k_alg ks) (k_sign ks) = true ->
  MsgAt msg nq an ns ar -> name_ok (k_name ks) -> t < T48_LIMIT -> fudge < 65536 ->
  client_request mac ks msg t fudge = Ok (c, w) ->
  is_valid_at t fudge now = false ->
  server_request mac kr w now = Ok (SrvBadTime c (Vars t fudge RC_BADTIME (Some now))).
Proof. exact request_outside_window_badtime_full. Qed.
Print Assumptions C11_request_outside_window_badtime.

Theorem C11_sign_verify_answer : forall mac,
  (forall a k d, len (mac a k d) = native_len a) ->
  forall ks kr c msg nq an ns ar t fudge now w,
  same_key ks kr -> k_min kr <= k_sign ks -> within_len_bounds (k_alg ks) (k_sign ks) = true ->
  MsgAt msg nq an ns ar -> name_ok (k_name ks) -> t < T48_LIMIT -> fudge < 65536 ->
  (hdr_rcode msg =? RC_NOTAUTH) = false ->
  server_answer mac ks c msg t fudge = Ok w ->
  is_valid_at t fudge now = true ->
  exists rr, w = set_arcount msg (arcount msg + 1) ++ rr /\
    client_answer mac kr c w now = Ok (msg ++ rr).
Proof. exact sign_verify_answer_full. Qed.
Print Assumptions C11_sign_verify_answer.

Theorem C11_verify_restores_octets : forall k v mc msg nq an ns ar w,
  MsgAt msg nq an ns ar -> name_ok (k_name k) ->
  v_time v < T48_LIMIT -> v_fudge v < 65536 -> v_error v < 65536 -> v_other v = None ->
  push_tsig k v mc msg = Ok w ->
  exists rr t, w = set_arcount msg (arcount msg + 1) ++ rr /\
    from_message w = Ok t /\ mt_start t = mlen msg /\ mt_mac t = mc /\ mt_oid t = hdr_id msg /\
    stripped w t = Ok msg /\
    remove_tsig w t = Ok (msg ++ rr) /\
    firstn (length msg) (msg ++ rr) = msg /\ arcount (msg ++ rr) = arcount msg.
Proof. exact verify_restores_octets. Qed.
Print Assumptions C11_verify_restores_octets.

Theorem C11_from_message_no_fuel : forall m, wf_bytes m -> 12 <= mlen m -> from_message m <> OutOfFuel.
Proof. exact from_message_no_fuel. Qed.
Print Assumptions C11_from_message_no_fuel.

(* building the response to a rejected request: with the plain-FORMERR shape in
   the source (T1) it never panics and carries the RFC's RCODE *)
Theorem C11_unsigned_error_response_total : forall (mac : alg -> bytes -> bytes -> bytes) k req now code,
  server_request mac k req now = Err (SE_UNSIGNED + code) ->
  exists rc, unsigned_error_rcode req code = Ok rc /\
    (code = RC_FORMERR -> rc = RC_FORMERR) /\ (code <> RC_FORMERR -> rc = RC_NOTAUTH).
Proof. exact unsigned_error_response_total_now. Qed.
Print Assumptions C11_unsigned_error_response_total.

(* The layout premise of the sign/verify theorems holds for every message the
   builder model of C02 can produce (any pushes, sections, rewinds, limits,
   targets, compressors), as long as its additional section holds no TSIG yet. *)
Theorem C11_built_message_laid_out : forall c ops s0 s a ws,
  C02.Model.init c = Some s0 -> Forall C02.ProofsBuild.wf_op ops ->
  C02.Model.run_acc c s0 C02.Model.acc0 ops = (s, a, ws) -> C02.ProofsRun.all_alive ws ->
  Forall (fun b => b < 256) (C02.Model.b_hdr s) ->
  Forall (fun r => C02.Model.r_type r <> RTYPE_TSIG) (C02.Model.a_ar a) ->
  Forall (fun r => C02.Model.r_type r <> RTYPE_TSIG) (C02.Model.a_an a) ->
  Forall (fun r => C02.Model.r_type r <> RTYPE_TSIG) (C02.Model.a_ns a) ->
  MsgAt (C02.Model.msg_of s) (length (C02.Model.a_q a)) (map C02.Model.r_type (C02.Model.a_an a))
        (map C02.Model.r_type (C02.Model.a_ns a)) (map C02.Model.r_type (C02.Model.a_ar a)).
Proof. exact built_message_laid_out. Qed.
Print Assumptions C11_built_message_laid_out.

Theorem C11_sign_verify_request_built : forall mac,
  (forall a k d, len (mac a k d) = native_len a) ->
  forall c ops s0 s a ws ks kr t fudge now cx w,
  C02.Model.init c = Some s0 -> Forall C02.ProofsBuild.wf_op ops ->
  C02.Model.run_acc c s0 C02.Model.acc0 ops = (s, a, ws) -> C02.ProofsRun.all_alive ws ->
  Forall (fun b => b < 256) (C02.Model.b_hdr s) ->
  Forall (fun r => C02.Model.r_type r <> RTYPE_TSIG) (C02.Model.a_ar a) ->
  Forall (fun r => C02.Model.r_type r <> RTYPE_TSIG) (C02.Model.a_an a) ->
  Forall (fun r => C02.Model.r_type r <> RTYPE_TSIG) (C02.Model.a_ns a) ->
  same_key ks kr -> k_min kr <= k_sign ks -> within_len_bounds (k_alg ks) (k_sign ks) = true ->
  name_ok (k_name ks) -> t < T48_LIMIT -> fudge < 65536 ->
  client_request mac ks (C02.Model.msg_of s) t fudge = Ok (cx, w) ->
  is_valid_at t fudge now = true ->
  exists rr, w = set_arcount (C02.Model.msg_of s) (arcount (C02.Model.msg_of s) + 1) ++ rr /\
    server_request mac kr w now = Ok (SrvOk cx (C02.Model.msg_of s ++ rr)).
Proof. exact sign_verify_request_built. Qed.
Print Assumptions C11_sign_verify_request_built.

Theorem C11_request_outside_window_badtime_built : forall mac,
  (forall a k d, len (mac a k d) = native_len a) ->
  forall c ops s0 s a ws ks kr t fudge now cx w,
  C02.Model.init c = Some s0 -> Forall C02.ProofsBuild.wf_op ops ->
  C02.Model.run_acc c s0 C02.Model.acc0 ops = (s, a, ws) -> C02.ProofsRun.all_alive ws ->
  Forall (fun b => b < 256) (C02.Model.b_hdr s) ->
  Forall (fun r => C02.Model.r_type r <> RTYPE_TSIG) (C02.Model.a_ar a) ->
  Forall (fun r => C02.Model.r_type r <> RTYPE_TSIG) (C02.Model.a_an a) ->
  Forall (fun r => C02.Model.r_type r <> RTYPE_TSIG) (C02.Model.a_ns a) ->
  same_key ks kr -> k_min kr <= k_sign ks -> within_len_bounds (k_alg ks) (k_sign ks) = true ->
  name_ok (k_name ks) -> t < T48_LIMIT -> fudge < 65536 ->
  client_request mac ks (C02.Model.msg_of s) t fudge = Ok (cx, w) ->
  is_valid_at t fudge now = false ->
  server_request mac kr w now = Ok (SrvBadTime cx (Vars t fudge RC_BADTIME (Some now))).
Proof. exact request_outside_window_badtime_built. Qed.
Print Assumptions C11_request_outside_window_badtime_built.

Theorem C11_sign_verify_answer_built : forall mac,
  (forall a k d, len (mac a k d) = native_len a) ->
  forall c ops s0 s a ws ks kr cx t fudge now w,
  C02.Model.init c = Some s0 -> Forall C02.ProofsBuild.wf_op ops ->
  C02.Model.run_acc c s0 C02.Model.acc0 ops = (s, a, ws) -> C02.ProofsRun.all_alive ws ->
  Forall (fun b => b < 256) (C02.Model.b_hdr s) ->
  Forall (fun r => C02.Model.r_type r <> RTYPE_TSIG) (C02.Model.a_ar a) ->
  Forall (fun r => C02.Model.r_type r <> RTYPE_TSIG) (C02.Model.a_an a) ->
  Forall (fun r => C02.Model.r_type r <> RTYPE_TSIG) (C02.Model.a_ns a) ->
  same_key ks kr -> k_min kr <= k_sign ks -> within_len_bounds (k_alg ks) (k_sign ks) = true ->
  name_ok (k_name ks) -> t < T48_LIMIT -> fudge < 65536 ->
  (hdr_rcode (C02.Model.msg_of s) =? RC_NOTAUTH) = false ->
  server_answer mac ks cx (C02.Model.msg_of s) t fudge = Ok w ->
  is_valid_at t fudge now = true ->
  exists rr, w = set_arcount (C02.Model.msg_of s) (arcount (C02.Model.msg_of s) + 1) ++ rr /\
    client_answer mac kr cx w now = Ok (C02.Model.msg_of s ++ rr).
Proof. exact sign_verify_answer_built. Qed.
Print Assumptions C11_sign_verify_answer_built.

(* the client transport wrapper (net/client/tsig.rs) *)
Theorem C11_wrapper_single_unsigned_refused : forall mac k c m now,
  from_message m = Err TE_MISSING ->
  wrapper_validate mac k (WTransaction c) (Some m) now = (WTransaction c, Err VE_SERVERUNSIGNED).
Proof. exact wrapper_single_unsigned_refused. Qed.
Print Assumptions C11_wrapper_single_unsigned_refused.

Theorem C11_wrapper_stream_unsigned : forall mac k s m now,
  from_message m = Err TE_MISSING ->
  wrapper_validate mac k (WSequence s) (Some m) now =
    if cs_first s then (WSequence s, Err VE_SERVERUNSIGNED)
    else if cs_unsigned s <? 99 then (WSequence (CSeq (cs_ctx s ++ m) false (cs_unsigned s + 1)), Ok (Some m))
    else (WSequence s, Err VE_TOOMANYUNSIGNED).
Proof. exact wrapper_stream_unsigned. Qed.
Print Assumptions C11_wrapper_stream_unsigned.

Theorem C11_wrapper_stream_end : forall mac k s now,
  snd (wrapper_validate mac k (WSequence s) None now) = Ok None <-> cs_unsigned s = 0.
Proof. exact wrapper_stream_end. Qed.
Print Assumptions C11_wrapper_stream_end.

(* order of the client's checks: MAC before time, on both client paths *)
Theorem C11_client_mac_error_wins : forall mac k c m now t sm e,
  get_answer_tsig k m = Ok (Some t) -> stripped m t = Ok sm ->
  compare_signatures k (ctx_sign mac k (digest_full k c sm (mt_vars t))) (mt_mac t) = Err e ->
  client_answer mac k c m now = Err e.
Proof. exact client_answer_mac_before_time. Qed.
Print Assumptions C11_client_mac_error_wins.

Theorem C11_client_badtime_means_mac_ok : forall mac k c m now,
  client_answer mac k c m now = Err VE_BADTIME ->
  exists t sm, get_answer_tsig k m = Ok (Some t) /\ stripped m t = Ok sm /\
    compare_signatures k (ctx_sign mac k (digest_full k c sm (mt_vars t))) (mt_mac t) = Ok tt /\
    is_valid_at (mt_time t) (mt_fudge t) now = false.
Proof. exact client_answer_badtime_means_mac_ok. Qed.
Print Assumptions C11_client_badtime_means_mac_ok.

Theorem C11_sequence_mac_error_wins : forall mac k s m now t sm e,
  get_answer_tsig k m = Ok (Some t) -> stripped m t = Ok sm ->
  compare_signatures k (if cs_first s then ctx_sign mac k (digest_full k (cs_ctx s) sm (mt_vars t))
                        else ctx_sign mac k (digest_timers k (cs_ctx s) sm (mt_vars t))) (mt_mac t) = Err e ->
  snd (cseq_answer mac k s m now) = Err e.
Proof. exact cseq_answer_mac_before_time. Qed.
Print Assumptions C11_sequence_mac_error_wins.

(* MessageTsig::from_message's scan: accepted only if the TSIG is the last
   record and no other TSIG precedes it; "missing" iff there is none *)
Theorem C11_tsig_accepted_only_last : forall m p tys e lim, RecordsAt m p tys e -> e <= lim ->
  forall fuel t, find_tsig fuel m p lim (N.of_nat (length tys)) = Ok t ->
  exists pre, tys = pre ++ [RTYPE_TSIG] /\ Forall (fun ty => ty <> RTYPE_TSIG) pre.
Proof. exact find_tsig_accepts_only_last. Qed.
Print Assumptions C11_tsig_accepted_only_last.

Theorem C11_tsig_missing_iff : forall m p tys e lim, RecordsAt m p tys e -> e <= lim ->
  forall fuel, (length tys < fuel)%nat ->
  (find_tsig fuel m p lim (N.of_nat (length tys)) = Err TE_MISSING <-> Forall (fun ty => ty <> RTYPE_TSIG) tys).
Proof. exact find_tsig_missing_iff. Qed.
Print Assumptions C11_tsig_missing_iff.

(* a forwarder's message ID (RFC 8945 5.1) does not influence what verification
   hands back: the original ID of the TSIG record is written into the header *)
Theorem C11_forwarded_id_irrelevant : forall m x t, 12 <= mlen m ->
  remove_tsig (set_id m x) t = remove_tsig m t /\
  (forall out, remove_tsig m t = Ok out -> hdr_id out = mt_oid t \/ 65536 <= mt_oid t).
Proof. exact forwarded_id_irrelevant. Qed.
Print Assumptions C11_forwarded_id_irrelevant.

(* widening round (ProofsA.v): rejections that need no MAC *)
Theorem C11_server_unknown_key_is_badkey : forall (mac : alg -> bytes -> bytes -> bytes) k w now t,
  from_message w = Ok t ->
  (alg_from_name (mt_algname t) = None \/
   exists a, alg_from_name (mt_algname t) = Some a /\ store_get k (mt_owner t) a = false) ->
  server_request mac k w now = Err (SE_UNSIGNED + RC_BADKEY).
Proof. exact server_unknown_key_badkey. Qed.
Print Assumptions C11_server_unknown_key_is_badkey.

Theorem C11_server_misplaced_tsig_is_formerr : forall (mac : alg -> bytes -> bytes -> bytes) k w now e,
  from_message w = Err e ->
  server_request mac k w now = if e =? TE_MISSING then Ok SrvNone else Err (SE_UNSIGNED + RC_FORMERR).
Proof. exact server_from_message_error. Qed.
Print Assumptions C11_server_misplaced_tsig_is_formerr.

Theorem C11_client_misplaced_tsig_is_formerr : forall (mac : alg -> bytes -> bytes -> bytes) k c m now e,
  from_message m = Err e ->
  client_answer mac k c m now = Err (if e =? TE_MISSING then VE_SERVERUNSIGNED else VE_FORMERR).
Proof. exact client_from_message_error. Qed.
Print Assumptions C11_client_misplaced_tsig_is_formerr.

Theorem C11_client_wrong_key_is_badkey : forall (mac : alg -> bytes -> bytes -> bytes) k c m now t,
  from_message m = Ok t -> (hdr_rcode m =? RC_NOTAUTH) = false ->
  (name_eqb (mt_owner t) (k_name k) = false \/ name_eqb (mt_algname t) [alg_label (k_alg k)] = false) ->
  client_answer mac k c m now = Err VE_BADKEY /\
  (forall s, cseq_answer mac k s m now = (s, Err VE_BADKEY)).
Proof. exact client_wrong_key_badkey. Qed.
Print Assumptions C11_client_wrong_key_is_badkey.

Theorem C11_client_reports_server_verdict : forall (mac : alg -> bytes -> bytes -> bytes) k c m now t,
  from_message m = Ok t -> (hdr_rcode m =? RC_NOTAUTH) = true ->
  (mt_error t = RC_BADKEY -> client_answer mac k c m now = Err VE_SERVERBADKEY) /\
  (mt_error t = RC_BADSIG -> client_answer mac k c m now = Err VE_SERVERBADSIG).
Proof. exact client_server_verdict. Qed.
Print Assumptions C11_client_reports_server_verdict.

(* an honest answer verified outside the fudge window: BadTime (the MAC is fine) *)
Theorem C11_answer_outside_window_badtime : forall mac,
  (forall a k d, len (mac a k d) = native_len a) ->
  forall ks kr c msg nq an ns ar t fudge now w,
  same_key ks kr -> k_min kr <= k_sign ks -> within_len_bounds (k_alg ks) (k_sign ks) = true ->
  MsgAt msg nq an ns ar -> name_ok (k_name ks) -> t < T48_LIMIT -> fudge < 65536 ->
  (hdr_rcode msg =? RC_NOTAUTH) = false ->
  server_answer mac ks c msg t fudge = Ok w ->
  is_valid_at t fudge now = false ->
  client_answer mac kr c w now = Err VE_BADTIME.
Proof. exact answer_outside_window_full. Qed.
Print Assumptions C11_answer_outside_window_badtime.

(* multi-message responses: one ServerSequence step verifies in ClientSequence
   (first message: full variables, later ones: timers), both ends then hold the
   same context, the octets are restored, the unsigned counter is reset *)
Theorem C11_sign_verify_sequence_step : forall mac,
  (forall a k d, len (mac a k d) = native_len a) ->
  forall ks kr c first u msg nq an ns ar t fudge now c' w,
  same_key ks kr -> k_min kr <= k_sign ks -> within_len_bounds (k_alg ks) (k_sign ks) = true ->
  MsgAt msg nq an ns ar -> name_ok (k_name ks) -> t < T48_LIMIT -> fudge < 65536 ->
  (hdr_rcode msg =? RC_NOTAUTH) = false ->
  server_seq_answer mac ks c first msg t fudge = Ok (c', w) ->
  is_valid_at t fudge now = true ->
  exists rr, w = set_arcount msg (arcount msg + 1) ++ rr /\
    cseq_answer mac kr (CSeq c first u) w now = (CSeq c' false (if first then u else 0), Ok (msg ++ rr)).
Proof. exact sequence_step_full. Qed.
Print Assumptions C11_sign_verify_sequence_step.

(* ... and a whole stream of any length, by induction: every message is accepted
   with its pre-signing octets, the contexts stay equal, done() succeeds *)
Theorem C11_sign_verify_sequence_stream : forall mac,
  (forall a k d, len (mac a k d) = native_len a) ->
  forall ks kr,
  same_key ks kr -> k_min kr <= k_sign ks -> within_len_bounds (k_alg ks) (k_sign ks) = true ->
  name_ok (k_name ks) ->
  forall c f its ws c2, signed_stream mac ks c f its ws c2 -> Forall item_ok its ->
  exists f', fst (client_feed mac kr (CSeq c f 0) ws its) = CSeq c2 f' 0 /\ (its <> [] -> f' = false) /\
    Forall2 (fun it o => exists rr, o = Ok (i_msg it ++ rr)) its (snd (client_feed mac kr (CSeq c f 0) ws its)) /\
    cseq_done (fst (client_feed mac kr (CSeq c f 0) ws its)) = Ok tt.
Proof. exact sequence_stream. Qed.
Print Assumptions C11_sign_verify_sequence_stream.

(* Key::generate, the constructor next to Key::new: the key is the one Key::new
   builds from the generated octets (so every theorem above covers generated
   keys), min_mac_len and signing_len land in the fields they were given for,
   and the constructor fails exactly on a length outside the RFC 8945 bounds *)
Theorem C11_generate_is_new_on_generated_octets : forall a rnd nm mn sg,
  key_generate a rnd nm mn sg =
    do k <- key_new a (firstn (N.to_nat (native_len a)) rnd) nm mn sg; Ok (k, k_secret k).
Proof. exact generate_as_new. Qed.
Print Assumptions C11_generate_is_new_on_generated_octets.

Theorem C11_generate_honours_truncation_settings : forall a rnd nm mn sg k bits,
  key_generate a rnd nm mn sg = Ok (k, bits) ->
  k_alg k = a /\ k_secret k = bits /\ k_name k = nm /\
  k_min k = setting a mn /\ k_sign k = setting a sg /\
  within_len_bounds a (k_min k) = true /\ within_len_bounds a (k_sign k) = true.
Proof. exact generate_honours_settings. Qed.
Print Assumptions C11_generate_honours_truncation_settings.

Theorem C11_generate_fails_iff_out_of_bounds : forall a rnd nm mn sg,
  (exists kb, key_generate a rnd nm mn sg = Ok kb) <->
  (forall l, mn = Some l -> within_len_bounds a l = true) /\ (forall l, sg = Some l -> within_len_bounds a l = true).
Proof. exact generate_rejects. Qed.
Print Assumptions C11_generate_fails_iff_out_of_bounds.
