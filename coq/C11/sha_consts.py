from math import isqrt
def primes(n):
    ps=[];k=2
    while len(ps)<n:
        if all(k%p for p in ps): ps.append(k)
        k+=1
    return ps
def icbrt(n):
    lo,hi=0,1<<((n.bit_length()+2)//3+1)
    while lo<hi:
        mid=(lo+hi+1)//2
        if mid**3<=n: lo=mid
        else: hi=mid-1
    return lo
def frac_cbrt(p,bits): return icbrt(p<<(3*bits)) & ((1<<bits)-1)
def frac_sqrt(p,bits): return isqrt(p<<(2*bits)) & ((1<<bits)-1)
P=primes(80)
def lst(xs): return "[" + "; ".join(str(x) for x in xs) + "]"
#print("K256", lst([frac_cbrt(p,32) for p in P[:64]]))
#print("K512", lst([frac_cbrt(p,64) for p in P[:80]]))
#print("IV256", lst([frac_sqrt(p,32) for p in P[:8]]))
#print("IV512", lst([frac_sqrt(p,64) for p in P[:8]]))
#print("IV384", lst([frac_sqrt(p,64) for p in P[8:16]]))
#print("IV224", lst([frac_sqrt(p,64)&0xffffffff for p in P[8:16]]))
#print(hex(frac_cbrt(2,32)), hex(frac_cbrt(2,64)), hex(frac_sqrt(2,32)), hex(frac_sqrt(P[8],64)))
