(* C11/Proofs8.v -- round 3: the client transport wrapper, the order of the
   client's checks (which error wins for a double fault), and the exact
   acceptance condition of MessageTsig::from_message's scan loop. *)
From Coq Require Import NArith List Bool Lia ZArith.
From Coq Require Import ZifyN ZifyBool ZifyNat.
From DV Require Import Base.Outcome Base.Bytes Base.Names Base.PName C11.Gen C11.Model C11.Proofs C11.Proofs2.
Import ListNotations.
Local Open Scope N_scope.

Section Wrapper.
  Variable mac : alg -> bytes -> bytes -> bytes.

  (* ---------------------------------------------------------- net/client/tsig.rs *)
  (* single response path: a response without TSIG record is refused, whatever
     its RCODE and whatever its sections hold (RFC 8945 5.3) *)
  Theorem wrapper_single_unsigned_refused k c m now :
    from_message m = Err TE_MISSING ->
    wrapper_validate mac k (WTransaction c) (Some m) now = (WTransaction c, Err VE_SERVERUNSIGNED).
  Proof.
    intros H. unfold wrapper_validate, client_answer, get_answer_tsig. rewrite H.
    change (TE_MISSING =? TE_MISSING) with true. reflexivity.
  Qed.

  (* multi response path: every response is ClientSequence::answer, the end of
     the stream is ClientSequence::done *)
  Theorem wrapper_multi_is_sequence k s m now :
    wrapper_validate mac k (WSequence s) (Some m) now =
      (WSequence (fst (cseq_answer mac k s m now)),
       match snd (cseq_answer mac k s m now) with Ok o => Ok (Some o) | Err e => Err e | Panic p => Panic p | OutOfFuel => OutOfFuel end).
  Proof. unfold wrapper_validate. destruct (cseq_answer mac k s m now) as [s' [o|e|p|]]; reflexivity. Qed.

  (* a stream may not end on an unsigned message *)
  Theorem wrapper_stream_end k s now :
    snd (wrapper_validate mac k (WSequence s) None now) = Ok None <-> cs_unsigned s = 0.
  Proof.
    unfold wrapper_validate, cseq_done. cbn [snd]. destruct (N.eqb_spec (cs_unsigned s) 0); cbn [bind]; split; intros; try congruence; try discriminate.
  Qed.

  (* an unsigned message in a stream (not the first) is counted: accepted and
     passed on iff fewer than 99 precede it since the last signed one; the
     first message of a stream must be signed *)
  Theorem wrapper_stream_unsigned k s m now :
    from_message m = Err TE_MISSING ->
    wrapper_validate mac k (WSequence s) (Some m) now =
      if cs_first s then (WSequence s, Err VE_SERVERUNSIGNED)
      else if cs_unsigned s <? 99 then (WSequence (CSeq (cs_ctx s ++ m) false (cs_unsigned s + 1)), Ok (Some m))
      else (WSequence s, Err VE_TOOMANYUNSIGNED).
  Proof.
    intros H. unfold wrapper_validate, cseq_answer, get_answer_tsig. rewrite H.
    change (TE_MISSING =? TE_MISSING) with true. cbv iota.
    destruct (cs_first s); [reflexivity|]. unfold unsigned_allowed.
    rewrite (proj2 unsigned_limit_99), (proj1 unsigned_limit_99).
    destruct (cs_unsigned s <? 99); reflexivity.
  Qed.

  (* ---------------------------------------------------------- order of the client's checks *)
  (* Both ClientTransaction::answer and ClientSequence::answer compare the MAC
     before they look at the time (T1 client_steps_checked): a response with a
     wrong MAC AND a time outside the window is BadSig (or BadTrunc), never
     BadTime; BadTime is only reported for a message whose MAC verified. *)
  Theorem client_answer_mac_before_time k c m now t sm e :
    get_answer_tsig k m = Ok (Some t) -> stripped m t = Ok sm ->
    compare_signatures k (ctx_sign mac k (digest_full k c sm (mt_vars t))) (mt_mac t) = Err e ->
    client_answer mac k c m now = Err e.
  Proof.
    intros Hg Hs Hc. unfold client_answer. rewrite Hg. cbn [bind]. rewrite Hs. cbn [bind]. rewrite Hc. reflexivity.
  Qed.

  Theorem client_answer_badtime_means_mac_ok k c m now :
    client_answer mac k c m now = Err VE_BADTIME ->
    exists t sm, get_answer_tsig k m = Ok (Some t) /\ stripped m t = Ok sm /\
      compare_signatures k (ctx_sign mac k (digest_full k c sm (mt_vars t))) (mt_mac t) = Ok tt /\
      is_valid_at (mt_time t) (mt_fudge t) now = false.
  Proof.
    unfold client_answer. destruct (get_answer_tsig k m) as [[t|]|e| |] eqn:Hg; cbn [bind]; try discriminate.
    2: { intros H. injection H as H. unfold VE_BADTIME, VE_FORMERR, VE_SERVERBADKEY, VE_SERVERBADSIG, VE_BADKEY in *.
         unfold get_answer_tsig in Hg. destruct (from_message m) as [t|e0| |]; try discriminate.
         - repeat match type of Hg with context [if ?b then _ else _] => destruct b end; try discriminate; injection Hg as <-; discriminate.
         - destruct (e0 =? TE_MISSING); [discriminate|]. injection Hg as <-. discriminate. }
    destruct (stripped m t) as [sm| | |] eqn:Hs; cbn [bind].
    2: { unfold stripped in Hs. destruct (arcount m =? 0); discriminate. }
    2-3: discriminate.
    destruct (compare_signatures _ _ _) as [[]|e| |] eqn:Hc; cbn [bind]; try discriminate.
    2: { intros H. injection H as ->. unfold compare_signatures in Hc.
         repeat match type of Hc with context [if ?b then _ else _] => destruct b end; discriminate. }
    unfold check_answer_time.
    destruct ((hdr_rcode m =? RC_NOTAUTH) && (mt_error t =? RC_BADTIME)).
    { destruct (other_time (mt_other t)); cbn [bind]; discriminate. }
    destruct (is_valid_at (mt_time t) (mt_fudge t) now) eqn:Hv; cbn [negb bind].
    { unfold remove_tsig. destruct (arcount m =? 0); discriminate. }
    intros _. exists t, sm. auto.
  Qed.

  Theorem cseq_answer_mac_before_time k s m now t sm e :
    get_answer_tsig k m = Ok (Some t) -> stripped m t = Ok sm ->
    compare_signatures k (if cs_first s then ctx_sign mac k (digest_full k (cs_ctx s) sm (mt_vars t))
                          else ctx_sign mac k (digest_timers k (cs_ctx s) sm (mt_vars t))) (mt_mac t) = Err e ->
    snd (cseq_answer mac k s m now) = Err e.
  Proof.
    intros Hg Hs Hc. unfold cseq_answer. rewrite Hg, Hs. cbv zeta. rewrite Hc. reflexivity.
  Qed.
End Wrapper.
