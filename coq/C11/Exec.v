(* C11/Exec.v -- the model instantiated with the Gallina HMAC (what is extracted
   and run against the implementation, which uses ring). *)
From Coq Require Import NArith List.
From DV Require Import Base.Outcome Base.Bytes Base.Names C11.Sha C11.Hmac C11.Gen C11.Model C11.Generate.
Import ListNotations.

Definition hmac_of (a : alg) : bytes -> bytes -> bytes :=
  match a with
  | Sha1 => hmac_sha1 | Sha256 => hmac_sha256 | Sha384 => hmac_sha384 | Sha512 => hmac_sha512
  end.

Definition c11_key_new := key_new.
Definition c11_key_generate := key_generate.
Definition c11_client_request := client_request hmac_of.
Definition c11_server_request := server_request hmac_of.
Definition c11_server_answer := server_answer hmac_of.
Definition c11_server_answer_vars := server_answer_vars hmac_of.
Definition c11_server_seq_answer := server_seq_answer hmac_of.
Definition c11_client_answer := client_answer hmac_of.
Definition c11_cseq_answer := cseq_answer hmac_of.
Definition c11_cseq_done := cseq_done.
Definition c11_eq_fudged := eq_fudged.
Definition c11_hmac := hmac_of.
Definition c11_default_fudge := default_fudge.
Definition c11_unsigned_error_rcode := unsigned_error_rcode.
Definition c11_unsigned_error_response := unsigned_error_response.
Definition c11_wrapper_validate := wrapper_validate hmac_of.
Definition c11_from_message := from_message.
