(* C11/Frame.v -- names stored in a message and what the reader model returns
   for them.  This file is a copy of the name-level part of C02's proofs
   (coq/C02/ProofsName.v, and bytes_at_split / NameIn_complete / NameIn_wire of
   ProofsComp.v, NameIn_valid / canon_wire_len of ProofsTop.v, at the commit
   that registered C02) so that C11's framing theorems do not depend on the
   build state of another property.  Stdlib + Base only. *)
From Coq Require Import NArith List Bool Lia ZArith.
From Coq Require Import ZifyN ZifyBool ZifyNat.
From DV Require Import Base.Outcome Base.Bytes Base.Names Base.PName.
Import ListNotations.
Local Open Scope N_scope.
Ltac Zify.zify_post_hook ::= Z.div_mod_to_equations.

Lemma mlen_app a b : mlen (a ++ b) = mlen a + mlen b.
Proof. unfold mlen. rewrite app_length. lia. Qed.
Lemma mlen_nil : mlen [] = 0.
Proof. reflexivity. Qed.
Lemma mlen_cons x a : mlen (x :: a) = 1 + mlen a.
Proof. unfold mlen. cbn [length]. lia. Qed.

(* ------------------------------------------------------- octets in place *)

Definition bytes_at (m : bytes) (p : N) (b : bytes) : Prop :=
  forall k, (k < length b)%nat -> get m (p + N.of_nat k) = nth_error b k.

Lemma get_app_l a b i : i < mlen a -> get (a ++ b) i = get a i.
Proof. unfold get, mlen. intros H. apply nth_error_app1. lia. Qed.
Lemma get_app_r a b i : mlen a <= i -> get (a ++ b) i = get b (i - mlen a).
Proof. unfold get, mlen. intros H. rewrite nth_error_app2 by lia. f_equal. lia. Qed.
Lemma get_some_lt m i v : get m i = Some v -> i < mlen m.
Proof. unfold get, mlen. intros H. assert (nth_error m (N.to_nat i) <> None) by congruence. apply nth_error_Some in H0. lia. Qed.
Lemma get_lt_some m i : i < mlen m -> exists v, get m i = Some v.
Proof.
  unfold get, mlen. intros H. destruct (nth_error m (N.to_nat i)) eqn:E; [eauto|].
  apply nth_error_None in E. lia.
Qed.

Lemma bytes_at_app a b c : bytes_at (a ++ b ++ c) (mlen a) b.
Proof.
  intros k Hk. rewrite get_app_r by lia. replace (mlen a + N.of_nat k - mlen a) with (N.of_nat k) by lia.
  unfold get. rewrite Nat2N.id. apply nth_error_app1. exact Hk.
Qed.

Lemma bytes_at_cons m p x b : bytes_at m p (x :: b) <-> get m p = Some x /\ bytes_at m (p + 1) b.
Proof.
  split.
  - intros H. split.
    + specialize (H 0%nat). cbn [length nth_error] in H. rewrite N.add_0_r in H. apply H. lia.
    + intros k Hk. specialize (H (S k)). cbn [length nth_error] in H.
      replace (p + 1 + N.of_nat k) with (p + N.of_nat (S k)) by lia. apply H. lia.
  - intros [H0 H] k Hk. destruct k as [|k]; cbn [nth_error].
    + rewrite N.add_0_r. exact H0.
    + replace (p + N.of_nat (S k)) with (p + 1 + N.of_nat k) by lia. apply H. cbn [length] in Hk. lia.
Qed.

Lemma skipn_get m p x : get m p = Some x -> skipn (N.to_nat p) m = x :: skipn (N.to_nat p + 1) m.
Proof.
  unfold get. generalize (N.to_nat p) as n. intros n. revert m.
  induction n as [|n IH]; intros [|y m] H; cbn [nth_error] in H; try discriminate.
  - injection H as ->. reflexivity.
  - cbn [skipn Nat.add]. apply IH. exact H.
Qed.

Lemma slice_bytes_at m p b : bytes_at m p b -> slice m p (p + mlen b) = b.
Proof.
  unfold slice. replace (N.to_nat (p + mlen b - p)) with (length b) by (unfold mlen; lia).
  revert p. induction b as [|x b IH]; intros p H; [reflexivity|].
  apply bytes_at_cons in H as [H0 H]. rewrite (skipn_get _ _ _ H0). cbn [length firstn]. f_equal.
  replace (N.to_nat p + 1)%nat with (N.to_nat (p + 1)) by lia. apply IH. exact H.
Qed.

Lemma bytes_at_end m p b : b <> [] -> bytes_at m p b -> p + mlen b <= mlen m.
Proof.
  intros Hn H. assert (Hl : (length b - 1 < length b)%nat) by (destruct b; [congruence|cbn [length]; lia]).
  specialize (H _ Hl). destruct (nth_error b (length b - 1)) eqn:E.
  - apply get_some_lt in H. unfold mlen in *. lia.
  - apply nth_error_None in E. lia.
Qed.

(* ----------------------------------------------------- names in a message *)

(* NameIn m ok seg p ls e: the name with labels ls is stored at p; every octet
   read satisfies ok; e is the position behind the first segment (behind the
   root octet or behind the first compression pointer); a pointer targets a
   position below seg (SliceLabelsIter's rule; seg <= the pointer's position)
   and below 0x4000, and its target is a real label, never a pointer *)
Inductive NameIn (m : bytes) (ok : N -> Prop) : N -> N -> name -> N -> Prop :=
| NI_root seg p : ok p -> get m p = Some 0 -> NameIn m ok seg p [] (p + 1)
| NI_label seg p l ls e :
    valid_label l ->
    (forall i, p <= i < p + 1 + mlen l -> ok i) ->
    bytes_at m p (mlen l :: l) ->
    NameIn m ok seg (p + 1 + mlen l) ls e ->
    NameIn m ok seg p (l :: ls) e
| NI_ptr seg p q l ls e' :
    ok p -> ok (p + 1) ->
    get m p = Some (192 + q / 256) -> get m (p + 1) = Some (q mod 256) ->
    q < seg -> seg <= p -> q < 16384 ->
    valid_label l ->
    (forall i, q <= i < q + 1 + mlen l -> ok i) ->
    bytes_at m q (mlen l :: l) ->
    NameIn m ok q (q + 1 + mlen l) ls e' ->
    NameIn m ok seg p (l :: ls) (p + 2).

Lemma NameIn_agree m m' (ok : N -> Prop) seg p ls e :
  (forall i v, ok i -> get m i = Some v -> get m' i = Some v) ->
  NameIn m ok seg p ls e -> NameIn m' ok seg p ls e.
Proof.
  intros A H. induction H as [seg p Ho Hg | seg p l ls e Hv Ho Hb _ IH | seg p q l ls e' Ho0 Ho1 Hg0 Hg1 Hq Hs Hq2 Hv Ho Hb _ IH].
  - constructor; auto.
  - apply NI_label; auto. intros k Hk. specialize (Hb k Hk).
    destruct (nth_error (mlen l :: l) k) eqn:E; [|apply nth_error_None in E; lia].
    apply A; auto. apply Ho. cbn [length] in Hk. unfold mlen. lia.
  - eapply NI_ptr; eauto. intros k Hk. specialize (Hb k Hk).
    destruct (nth_error (mlen l :: l) k) eqn:E; [|apply nth_error_None in E; lia].
    apply A; auto. apply Ho. cbn [length] in Hk. unfold mlen. lia.
Qed.

Lemma NameIn_weaken m (ok ok' : N -> Prop) seg p ls e :
  (forall i, ok i -> ok' i) -> NameIn m ok seg p ls e -> NameIn m ok' seg p ls e.
Proof.
  intros A H. induction H; [constructor; auto|apply NI_label; auto|eapply NI_ptr; eauto].
Qed.

Lemma NameIn_seg m (ok : N -> Prop) seg seg' p ls e :
  NameIn m ok seg p ls e -> seg <= seg' -> seg' <= p -> NameIn m ok seg' p ls e.
Proof.
  intros H. revert seg'. induction H as [seg p Ho Hg | seg p l ls e Hv Ho Hb _ IH | seg p q l ls e' Ho0 Ho1 Hg0 Hg1 Hq Hs Hq2 Hv Ho Hb Hn IH];
    intros seg' H1 H2.
  - constructor; auto.
  - apply NI_label; auto. apply IH; lia.
  - eapply NI_ptr; eauto; lia.
Qed.

(* appending octets does not disturb names already stored *)
Lemma NameIn_app m x (ok : N -> Prop) seg p ls e : NameIn m ok seg p ls e -> NameIn (m ++ x) ok seg p ls e.
Proof.
  apply NameIn_agree. intros i v _ H. rewrite get_app_l; [exact H|]. eapply get_some_lt; eauto.
Qed.

(* every octet read lies inside the message *)
Lemma NameIn_below m (ok : N -> Prop) seg p ls e :
  NameIn m ok seg p ls e -> NameIn m (fun i => ok i /\ i < mlen m) seg p ls e.
Proof.
  intros H. induction H as [seg p Ho Hg | seg p l ls e Hv Ho Hb _ IH | seg p q l ls e' Ho0 Ho1 Hg0 Hg1 Hq Hs Hq2 Hv Ho Hb Hn IH].
  - constructor; auto. split; auto. eapply get_some_lt; eauto.
  - apply NI_label; auto. intros i Hi. split; [apply Ho; exact Hi|].
    pose proof (bytes_at_end m p (mlen l :: l) ltac:(discriminate) Hb) as He. rewrite mlen_cons in He. lia.
  - eapply NI_ptr; eauto.
    + split; auto. eapply get_some_lt; eauto.
    + split; auto. eapply get_some_lt; eauto.
    + intros i Hi. split; [apply Ho; exact Hi|].
      pose proof (bytes_at_end m q (mlen l :: l) ltac:(discriminate) Hb) as He. rewrite mlen_cons in He. lia.
Qed.

Lemma NameIn_end_le m (ok : N -> Prop) seg p ls e : NameIn m ok seg p ls e -> p < e /\ e <= mlen m.
Proof.
  intros H. induction H as [seg p Ho Hg | seg p l ls e Hv Ho Hb _ IH | seg p q l ls e' Ho0 Ho1 Hg0 Hg1 Hq Hs Hq2 Hv Ho Hb Hn IH].
  - apply get_some_lt in Hg. lia.
  - lia.
  - apply get_some_lt in Hg1. lia.
Qed.

(* the stored name is determined by the position *)
Lemma some_inj {A} (a b : A) : Some a = Some b -> a = b.
Proof. congruence. Qed.

Lemma NameIn_fun m (ok ok' : N -> Prop) seg seg' p ls ls' e e' :
  NameIn m ok seg p ls e -> NameIn m ok' seg' p ls' e' -> ls = ls' /\ e = e'.
Proof.
  intros H. revert ok' seg' ls' e'.
  induction H as [seg p Ho Hg | seg p l ls e Hv Ho Hb _ IH | seg p q l ls e1 Ho0 Ho1 Hg0 Hg1 Hq Hs Hq2 Hv Ho Hb Hn IH];
    intros ok' seg' ls' e' H'.
  - inversion H' as [? ? _ Hg' | ? ? l' ? ? Hv' _ Hb' _ | ? ? q' l' ? ? _ _ Hg0' _ _ _ Hq' _ _ _ _]; subst.
    + auto.
    + apply bytes_at_cons in Hb' as [Hg' _]. destruct Hv' as [Hl _]. unfold mlen in Hg'. rewrite Hg in Hg'. apply some_inj in Hg'. exfalso; lia.
    + rewrite Hg in Hg0'. apply some_inj in Hg0'; rename Hg0' into X. exfalso; lia.
  - pose proof Hb as Hb0. apply bytes_at_cons in Hb0 as [Hg _]. destruct Hv as [Hl Hw].
    inversion H' as [? ? _ Hg' | ? ? l' ls2 ? Hv' _ Hb' Hn' | ? ? q' l' ? ? _ _ Hg0' _ _ _ Hq' _ _ _ _]; subst.
    + rewrite Hg in Hg'. apply some_inj in Hg'; rename Hg' into X. unfold mlen in X. exfalso; lia.
    + pose proof Hb' as Hb0'. apply bytes_at_cons in Hb0' as [Hg' _]. rewrite Hg in Hg'. apply some_inj in Hg'; rename Hg' into X.
      assert (El : l = l').
      { pose proof (slice_bytes_at _ _ _ Hb) as S1. pose proof (slice_bytes_at _ _ _ Hb') as S2.
        rewrite !mlen_cons in S1, S2. rewrite <- X in S2. rewrite S1 in S2. injection S2 as S2. exact S2. }
      subst l'. destruct (IH _ _ _ _ Hn') as [-> ->]. auto.
    + rewrite Hg in Hg0'. apply some_inj in Hg0'; rename Hg0' into X. unfold mlen in X. exfalso; lia.
  - inversion H' as [? ? _ Hg' | ? ? l' ? ? Hv' _ Hb' _ | ? ? q' l' ls2 e2 _ _ Hg0' Hg1' _ _ Hq' Hv' _ Hb' Hn']; subst.
    + rewrite Hg0 in Hg'. apply some_inj in Hg'; rename Hg' into X. exfalso; lia.
    + apply bytes_at_cons in Hb' as [Hg' _]. destruct Hv' as [Hl _]. rewrite Hg0 in Hg'. apply some_inj in Hg'; rename Hg' into X. unfold mlen in X. exfalso; lia.
    + rewrite Hg0 in Hg0'. rewrite Hg1 in Hg1'. apply some_inj in Hg0'; rename Hg0' into X0. apply some_inj in Hg1'; rename Hg1' into X1.
      assert (q = q') by lia. subst q'.
      pose proof Hb as Hb0. apply bytes_at_cons in Hb0 as [Hg _].
      pose proof Hb' as Hb0'. apply bytes_at_cons in Hb0' as [Hg' _]. rewrite Hg in Hg'. apply some_inj in Hg'; rename Hg' into X.
      assert (El : l = l').
      { pose proof (slice_bytes_at _ _ _ Hb) as S1. pose proof (slice_bytes_at _ _ _ Hb') as S2.
        rewrite !mlen_cons in S1, S2. rewrite <- X in S2. rewrite S1 in S2. injection S2 as S2. exact S2. }
      subst l'. destruct (IH _ _ _ _ Hn') as [-> _]. auto.
Qed.

(* -------------------------------------------------------------- the reader *)

Definition name_ok (ls : name) : Prop := Forall valid_label ls /\ (wire_len ls <= 254)%nat.

Lemma wire_len_ge ls : (2 * length ls <= wire_len ls)%nat \/ False -> True.
Proof. auto. Qed.

Lemma wire_len_labels ls : Forall valid_label ls -> (2 * length ls <= wire_len ls)%nat.
Proof.
  induction 1 as [|l ls [Hl _] _ IH]; cbn [length wire_len]; lia.
Qed.

(* where label iteration starts: behind a leading pointer *)
Definition skip_ptr (m : bytes) (p : N) : N :=
  match get m p, get m (p + 1) with
  | Some b, Some c => if 192 <=? b then c + 256 * (b mod 64) else p
  | _, _ => p
  end.

Lemma ptr_decode q : q < 16384 -> (q mod 256) + 256 * ((192 + q / 256) mod 64) = q.
Proof. intros. lia. Qed.

Lemma label_type_normal m p lim b : p < lim -> get m p = Some b -> b <= 63 ->
  label_type_parse m p lim = Ok (LNormal b, p + 1).
Proof.
  intros H1 H2 H3. unfold label_type_parse.
  destruct (N.leb_spec lim p); [lia|]. rewrite H2. destruct (N.leb_spec b 63); [reflexivity|lia].
Qed.

Lemma label_type_ptr m p lim q : p + 1 < lim -> q < 16384 ->
  get m p = Some (192 + q / 256) -> get m (p + 1) = Some (q mod 256) ->
  label_type_parse m p lim = Ok (LCompressed q, p + 2).
Proof.
  intros H1 Hq H2 H3. unfold label_type_parse.
  destruct (N.leb_spec lim p); [lia|]. rewrite H2.
  destruct (N.leb_spec (192 + q / 256) 63); [lia|].
  destruct (N.leb_spec 192 (192 + q / 256)); [|lia].
  destruct (N.leb_spec lim (p + 1)); [lia|]. rewrite H3. rewrite (ptr_decode q Hq). reflexivity.
Qed.

Section Reader.
Variable m : bytes.
Variable ok : N -> Prop.
Variable lim : N.
Hypothesis ok_lim : forall i, ok i -> i < lim.

Lemma parse_labels_ok seg cur ls e :
  NameIn m ok seg cur ls e ->
  forall fuel name_len start compressed endp,
    name_len + N.of_nat (wire_len ls) + 1 <= 255 -> (2 * length ls + 1 <= fuel)%nat ->
    (name_len = 0 -> start = cur) ->
    exists pn, parse_labels fuel m lim cur name_len start compressed endp = Ok pn /\
      pn_len pn = name_len + N.of_nat (wire_len ls) + 1 /\
      pn_end pn = match endp with Some x => x | None => e end /\
      pn_pos pn = if name_len =? 0 then skip_ptr m cur else start.
Proof.
  intros H.
  induction H as [seg p Ho Hg | seg p l ls e Hv Ho Hb Hn IH | seg p q l ls e' Ho0 Ho1 Hg0 Hg1 Hq Hs Hq2 Hv Ho Hb Hn IH];
    intros fuel name_len start compressed endp HL HF HS.
  - destruct fuel as [|fuel]; [cbn [length] in HF; lia|]. cbn [parse_labels].
    rewrite (label_type_normal m p lim 0); [|apply ok_lim; exact Ho|exact Hg|lia].
    cbn [N.eqb]. eexists; split; [reflexivity|]. cbn [pn_len pn_end pn_pos wire_len].
    split; [lia|]. split; [destruct endp; reflexivity|].
    destruct (N.eqb_spec name_len 0) as [E|E]; [|reflexivity].
    unfold skip_ptr. rewrite Hg. destruct (get m (p + 1)); [cbn; auto|auto]; symmetry; auto.
  - destruct fuel as [|fuel]; [cbn [length] in HF; lia|]. cbn [parse_labels].
    pose proof Hb as Hb0. apply bytes_at_cons in Hb0 as [Hg _]. destruct Hv as [Hl Hw].
    assert (Hlast : p + mlen l < lim) by (apply ok_lim, Ho; unfold mlen; lia).
    rewrite (label_type_normal m p lim (mlen l)); [|apply ok_lim, Ho; unfold mlen; lia|exact Hg|unfold mlen; lia].
    destruct (N.eqb_spec (mlen l) 0) as [E|E]; [unfold mlen in E; lia|].
    destruct (N.ltb_spec (lim - (p + 1)) (mlen l)) as [L|L]; [lia|].
    cbn [wire_len] in HL.
    destruct (N.leb_spec 255 (name_len + mlen l + 1)) as [L2|L2]; [unfold mlen in L2; lia|].
    replace (p + 1 + mlen l) with (p + 1 + mlen l) in * by reflexivity.
    destruct (IH fuel (name_len + mlen l + 1) start compressed endp) as (pn & E1 & E2 & E3 & E4).
    + unfold mlen. lia.
    + cbn [length] in HF. lia.
    + unfold mlen. lia.
    + exists pn. split; [exact E1|]. split; [rewrite E2; cbn [wire_len]; unfold mlen; lia|]. split; [exact E3|].
      rewrite E4. destruct (N.eqb_spec (name_len + mlen l + 1) 0) as [X|X]; [lia|].
      destruct (N.eqb_spec name_len 0) as [Y|Y]; [|reflexivity].
      rewrite (HS Y). unfold skip_ptr. rewrite Hg.
      destruct (get m (p + 1)); [|reflexivity]. destruct (N.leb_spec 192 (mlen l)); [unfold mlen in *; lia|reflexivity].
  - destruct fuel as [|fuel]; [cbn [length] in HF; lia|]. cbn [parse_labels].
    assert (Hp1 : p + 1 < lim) by (apply ok_lim; exact Ho1).
    rewrite (label_type_ptr m p lim q Hp1 Hq2 Hg0 Hg1).
    pose proof Hb as Hb0. apply bytes_at_cons in Hb0 as [Hg _]. destruct Hv as [Hl Hw].
    assert (Hhops : hops (S (S (N.to_nat q))) m lim q (p + 2) = Ok q).
    { cbn [hops]. destruct (N.leb_spec (p + 2 - 2) q); [lia|]. destruct (N.ltb_spec lim q); [lia|].
      rewrite (label_type_normal m q lim (mlen l)); [reflexivity| |exact Hg|unfold mlen; lia].
      apply ok_lim, Ho. unfold mlen. lia. }
    rewrite Hhops. cbn [bind].
    assert (Hstep : NameIn m ok q q (l :: ls) e').
    { apply NI_label; auto. split; auto. }
    (* continue at the target, which starts with a label *)
    destruct fuel as [|fuel]; [cbn [length] in HF; lia|].
    assert (Hlast : q + mlen l < lim) by (apply ok_lim, Ho; unfold mlen; lia).
    assert (HLT : label_type_parse m q lim = Ok (LNormal (mlen l), q + 1)).
    { apply label_type_normal; [apply ok_lim, Ho; unfold mlen; lia|exact Hg|unfold mlen; lia]. }
    cbn [wire_len] in HL.
    set (endp' := match endp with Some x => Some x | None => Some (p + 2) end).
    assert (Hcont : forall st cp, exists pn,
               parse_labels (S fuel) m lim q name_len st cp endp' = Ok pn /\
               pn_len pn = name_len + N.of_nat (wire_len (l :: ls)) + 1 /\
               pn_end pn = match endp with Some x => x | None => p + 2 end /\
               pn_pos pn = st).
    { intros st cp. cbn [parse_labels]. rewrite HLT.
      destruct (N.eqb_spec (mlen l) 0) as [E|E]; [unfold mlen in E; lia|].
      destruct (N.ltb_spec (lim - (q + 1)) (mlen l)) as [L|L]; [lia|].
      destruct (N.leb_spec 255 (name_len + mlen l + 1)) as [L2|L2]; [unfold mlen in L2; lia|].
      destruct (IH fuel (name_len + mlen l + 1) st cp endp') as (pn & E1 & E2 & E3 & E4).
      - unfold mlen. lia.
      - cbn [length] in HF. lia.
      - unfold mlen. lia.
      - exists pn. split; [exact E1|]. split; [rewrite E2; cbn [wire_len]; unfold mlen; lia|].
        split; [rewrite E3; subst endp'; destruct endp; reflexivity|].
        rewrite E4. destruct (N.eqb_spec (name_len + mlen l + 1) 0); [lia|reflexivity]. }
    destruct (N.eqb_spec name_len 0) as [Y|Y].
    + destruct (Hcont q false) as (pn & E1 & E2 & E3 & E4). exists pn.
      split; [exact E1|]. split; [exact E2|]. split; [exact E3|]. rewrite E4.
      unfold skip_ptr. rewrite Hg0, Hg1. destruct (N.leb_spec 192 (192 + q / 256)); [|lia].
      symmetry. apply ptr_decode. exact Hq2.
    + destruct (Hcont start true) as (pn & E1 & E2 & E3 & E4). exists pn. auto.
Qed.

Lemma get_label_here fuel p l :
  valid_label l -> bytes_at m p (mlen l :: l) -> (1 <= fuel)%nat ->
  get_label fuel m p = Ok (l, p + 1 + mlen l).
Proof.
  intros [Hl Hw] Hb HF. destruct fuel as [|fuel]; [lia|]. cbn [get_label].
  pose proof Hb as Hb0. apply bytes_at_cons in Hb0 as [Hg Hb1]. rewrite Hg.
  destruct (N.leb_spec (mlen l) 63) as [L|L]; [|unfold mlen in L; lia].
  pose proof (bytes_at_end m p (mlen l :: l) ltac:(discriminate) Hb) as He. rewrite mlen_cons in He.
  destruct (N.ltb_spec (PName.mlen m) (p + 1 + mlen l)) as [X|X]; [lia|].
  rewrite (slice_bytes_at m (p + 1) l Hb1). reflexivity.
Qed.

Lemma iter_labels_ok seg p ls e :
  NameIn m ok seg p ls e ->
  forall fuel acc, (length ls + 1 <= fuel)%nat ->
    iter_labels fuel m p (N.of_nat (wire_len ls) + 1) acc = Ok (rev acc ++ ls, true).
Proof.
  intros H.
  induction H as [seg p Ho Hg | seg p l ls e Hv Ho Hb Hn IH | seg p q l ls e' Ho0 Ho1 Hg0 Hg1 Hq Hs Hq2 Hv Ho Hb Hn IH];
    intros fuel acc HF.
  - destruct fuel as [|fuel]; [lia|]. cbn [iter_labels wire_len]. cbn [N.of_nat N.add N.eqb Pos.eqb].
    assert (GL : get_label (S (length m)) m p = Ok ([], p + 1)).
    { cbn [get_label]. rewrite Hg. cbn [N.leb N.compare]. pose proof (get_some_lt _ _ _ Hg) as X.
      destruct (N.ltb_spec (PName.mlen m) (p + 1 + 0)) as [Y|Y]; [lia|].
      unfold slice. replace (N.to_nat (p + 1 + 0 - (p + 1))) with 0%nat by lia. rewrite N.add_0_r. reflexivity. }
    rewrite GL. cbn [bind length]. cbn. rewrite app_nil_r. reflexivity.
  - destruct fuel as [|fuel]; [lia|]. cbn [iter_labels].
    destruct (N.eqb_spec (N.of_nat (wire_len (l :: ls)) + 1) 0); [lia|].
    rewrite (get_label_here (S (length m)) p l Hv Hb); [|lia]. cbn [bind].
    destruct Hv as [Hl Hw]. cbn [wire_len].
    destruct (N.ltb_spec (N.of_nat (S (length l) + wire_len ls) + 1) (N.of_nat (length l) + 1)); [lia|].
    destruct (Nat.eqb_spec (length l) 0); [lia|].
    replace (N.of_nat (S (length l) + wire_len ls) + 1 - (N.of_nat (length l) + 1)) with (N.of_nat (wire_len ls) + 1) by lia.
    rewrite IH by (cbn [length] in HF; lia). cbn [rev]. rewrite <- app_assoc. reflexivity.
  - destruct fuel as [|fuel]; [lia|]. cbn [iter_labels].
    destruct (N.eqb_spec (N.of_nat (wire_len (l :: ls)) + 1) 0); [lia|].
    assert (GL : get_label (S (length m)) m p = Ok (l, q + 1 + mlen l)).
    { cbn [get_label]. rewrite Hg0.
      destruct (N.leb_spec (192 + q / 256) 63); [lia|]. destruct (N.leb_spec 192 (192 + q / 256)); [|lia].
      rewrite Hg1. rewrite (ptr_decode q Hq2). apply get_label_here; auto.
      pose proof (get_some_lt _ _ _ Hg1). unfold PName.mlen in *. lia. }
    rewrite GL. cbn [bind]. destruct Hv as [Hl Hw]. cbn [wire_len].
    destruct (N.ltb_spec (N.of_nat (S (length l) + wire_len ls) + 1) (N.of_nat (length l) + 1)); [lia|].
    destruct (Nat.eqb_spec (length l) 0); [lia|].
    replace (N.of_nat (S (length l) + wire_len ls) + 1 - (N.of_nat (length l) + 1)) with (N.of_nat (wire_len ls) + 1) by lia.
    rewrite IH by (cbn [length] in HF; lia). cbn [rev]. rewrite <- app_assoc. reflexivity.
Qed.

(* the name stored behind a leading pointer *)
Lemma NameIn_skip seg p ls e :
  NameIn m ok seg p ls e -> exists seg' e', NameIn m ok seg' (skip_ptr m p) ls e'.
Proof.
  intros H. destruct H as [seg p Ho Hg | seg p l ls e Hv Ho Hb Hn | seg p q l ls e' Ho0 Ho1 Hg0 Hg1 Hq Hs Hq2 Hv Ho Hb Hn].
  - exists seg, (p + 1). unfold skip_ptr. rewrite Hg.
    replace (match get m (p + 1) with Some _ => if 192 <=? 0 then _ else p | None => p end) with p
      by (destruct (get m (p + 1)); reflexivity).
    constructor; auto.
  - exists seg, e. pose proof Hb as Hb0. apply bytes_at_cons in Hb0 as [Hg _]. destruct Hv as [Hl Hw].
    unfold skip_ptr. rewrite Hg.
    replace (match get m (p + 1) with Some c => if 192 <=? mlen l then c + 256 * (mlen l mod 64) else p | None => p end) with p.
    + apply NI_label; auto. split; auto.
    + destruct (get m (p + 1)); [|reflexivity]. destruct (N.leb_spec 192 (mlen l)); [unfold mlen in *; lia|reflexivity].
  - exists q, e'. unfold skip_ptr. rewrite Hg0, Hg1.
    destruct (N.leb_spec 192 (192 + q / 256)); [|lia]. rewrite (ptr_decode q Hq2).
    apply NI_label; auto.
Qed.

(* the reader reconstructs the stored name *)
Theorem decode_name_ok seg p ls e :
  NameIn m ok seg p ls e -> name_ok ls ->
  decode_name m p lim = Ok (ls, e).
Proof.
  intros H [Hv Hw]. unfold decode_name, parse_ref.
  pose proof (wire_len_labels ls Hv) as Hlen.
  destruct (parse_labels_ok seg p ls e H PARSE_FUEL 0 p false None) as (pn & E1 & E2 & E3 & E4).
  - lia.
  - unfold PARSE_FUEL. lia.
  - auto.
  - rewrite E1. cbn [bind]. unfold pname_labels.
    destruct (NameIn_skip seg p ls e H) as (seg' & e2 & H2).
    cbn [N.eqb] in E4. rewrite E4, E2. replace (0 + N.of_nat (wire_len ls) + 1) with (N.of_nat (wire_len ls) + 1) by lia.
    rewrite (iter_labels_ok seg' (skip_ptr m p) ls e2 H2) by (unfold PARSE_FUEL; lia).
    cbn [bind fst rev app]. rewrite E3. reflexivity.
Qed.

End Reader.

(* non-vacuity: a compressed name and what the reader makes of it *)
Example decode_example :
  let m := repeat 0 12 ++ [3;119;119;119;1;97;0] ++ [1;98;192;16] in
  NameIn m (fun i => i < 23) 19 19 [[98]; [97]] 23 /\
  decode_name m 19 (mlen m) = Ok ([[98]; [97]], 23).
Proof.
  assert (V : forall x, x < 256 -> valid_label [x]).
  { intros x Hx. split; [cbn; lia|]. constructor; [exact Hx|constructor]. }
  assert (H : NameIn (repeat 0 12 ++ [3;119;119;119;1;97;0] ++ [1;98;192;16]) (fun i => i < 23) 19 19 [[98]; [97]] 23).
  { apply NI_label; [apply V; lia| | |].
    - change (mlen [98]) with 1. intros; lia.
    - intros k Hk. do 2 (destruct k as [|k]; [reflexivity|]). cbn [length] in Hk. lia.
    - change (19 + 1 + mlen [98]) with 21. change 23 with (21 + 2).
      apply (NI_ptr _ _ 19 21 16 [97] [] 19); try reflexivity; try lia; [apply V; lia| | |].
      + change (mlen [97]) with 1. intros; lia.
      + intros k Hk. do 2 (destruct k as [|k]; [reflexivity|]). cbn [length] in Hk. lia.
      + change (16 + 1 + mlen [97]) with 18. apply (NI_root _ _ 16 18); [lia|reflexivity]. }
  split; [exact H|].
  eapply (decode_name_ok _ (fun i => i < 23)); [|exact H|].
  - intros i Hi. change (mlen (repeat 0 12 ++ [3;119;119;119;1;97;0] ++ [1;98;192;16])) with 23. exact Hi.
  - split; [repeat constructor; cbn; lia|cbn; lia].
Qed.


(* ------------------------------------------------------- from ProofsComp / ProofsTop *)
(* ------------------------------------------- a name from labels + terminator *)

(* a label with the rest of its name behind it *)
Definition LabelAt (m : bytes) (ok : N -> Prop) (p : N) (l : label) (ls : name) (e : N) : Prop :=
  valid_label l /\ (forall i, p <= i < p + 1 + mlen l -> ok i) /\
  bytes_at m p (mlen l :: l) /\ NameIn m ok p (p + 1 + mlen l) ls e.

Lemma LabelAt_name m ok p l ls e : LabelAt m ok p l ls e -> NameIn m ok p p (l :: ls) e.
Proof. intros (A & B & C & D). apply NI_label; auto. Qed.

Lemma bytes_at_app_l m x p b : bytes_at m p b -> bytes_at (m ++ x) p b.
Proof.
  intros H k Hk. specialize (H k Hk). destruct (nth_error b k) eqn:E; [|apply nth_error_None in E; lia].
  rewrite get_app_l; [exact H|]. eapply get_some_lt; eauto.
Qed.

Lemma LabelAt_app m x (ok : N -> Prop) p l ls e : LabelAt m ok p l ls e -> LabelAt (m ++ x) ok p l ls e.
Proof.
  intros (A & B & C & D). split; [exact A|]. split; [exact B|]. split; [apply bytes_at_app_l; exact C|apply NameIn_app; exact D].
Qed.

Lemma LabelAt_weaken m (ok ok' : N -> Prop) p l ls e :
  (forall i, ok i -> ok' i) -> LabelAt m ok p l ls e -> LabelAt m ok' p l ls e.
Proof.
  intros W (A & B & C & D). split; [exact A|]. split; [intros; apply W, B; auto|]. split; [exact C|].
  eapply NameIn_weaken; eauto.
Qed.

Lemma bytes_at_agree m m' (ok : N -> Prop) p b :
  (forall i v, ok i -> get m i = Some v -> get m' i = Some v) ->
  (forall i, p <= i < p + mlen b -> ok i) -> bytes_at m p b -> bytes_at m' p b.
Proof.
  intros A O H k Hk. specialize (H k Hk). destruct (nth_error b k) eqn:E; [|apply nth_error_None in E; lia].
  apply A; auto. apply O. unfold mlen. lia.
Qed.

Lemma LabelAt_agree m m' (ok : N -> Prop) p l ls e :
  (forall i v, ok i -> get m i = Some v -> get m' i = Some v) ->
  LabelAt m ok p l ls e -> LabelAt m' ok p l ls e.
Proof.
  intros Ag (A & B & C & D). split; [exact A|]. split; [exact B|]. split.
  - eapply bytes_at_agree; eauto. intros i Hi. apply B. rewrite mlen_cons in Hi. lia.
  - eapply NameIn_agree; eauto.
Qed.

(* what ends a name: the root octet, or a pointer to a stored label *)
Inductive Term (m : bytes) (ok : N -> Prop) (bound : N) (t : N) : name -> N -> Prop :=
| T_root : ok t -> get m t = Some 0 -> Term m ok bound t [] (t + 1)
| T_ptr q l ls e' :
    ok t -> ok (t + 1) -> get m t = Some (192 + q / 256) -> get m (t + 1) = Some (q mod 256) ->
    q < bound -> q < 16384 -> LabelAt m ok q l ls e' ->
    Term m ok bound t (l :: ls) (t + 2).

Lemma mlen_wire_rel_cons l r : mlen (wire_rel (l :: r)) = 1 + mlen l + mlen (wire_rel r).
Proof. unfold wire_rel. cbn [map concat]. unfold wire_label. rewrite mlen_app, mlen_cons. unfold mlen. lia. Qed.

Lemma bytes_at_split m p a b : bytes_at m p (a ++ b) <-> bytes_at m p a /\ bytes_at m (p + mlen a) b.
Proof.
  split.
  - intros H. split.
    + intros k Hk. rewrite (H k) by (rewrite app_length; lia). apply nth_error_app1. exact Hk.
    + intros k Hk. replace (p + mlen a + N.of_nat k) with (p + N.of_nat (length a + k)) by (unfold mlen; lia).
      rewrite (H (length a + k)%nat) by (rewrite app_length; lia).
      rewrite nth_error_app2 by lia. f_equal. lia.
  - intros [Ha Hb] k Hk. destruct (Nat.lt_ge_cases k (length a)) as [L|L].
    + rewrite (Ha k L). symmetry. apply nth_error_app1. exact L.
    + rewrite nth_error_app2 by exact L. rewrite app_length in Hk.
      specialize (Hb (k - length a)%nat ltac:(lia)). rewrite <- Hb. f_equal. unfold mlen. lia.
Qed.

(* labels followed by a terminator form a name, for every admissible segment start *)
Lemma NameIn_complete m (ok : N -> Prop) bound tail e : forall pre p seg,
  Forall valid_label pre -> bytes_at m p (wire_rel pre) ->
  (forall i, p <= i < p + mlen (wire_rel pre) -> ok i) ->
  Term m ok bound (p + mlen (wire_rel pre)) tail e -> bound <= seg -> seg <= p ->
  NameIn m ok seg p (pre ++ tail) e.
Proof.
  induction pre as [|l pre IH]; intros p seg Hv Hb Ho Ht Hs1 Hs2.
  - cbn [app]. change (mlen (wire_rel [])) with 0 in Ht. rewrite N.add_0_r in Ht.
    destruct Ht as [Ho' Hg | q l ls e' O0 O1 G0 G1 Hq Hq2 HL].
    + constructor; auto.
    + destruct HL as (A & B & C & D). eapply NI_ptr; eauto; lia.
  - inversion Hv as [|? ? Hl Hv']; subst. cbn [app].
    rewrite mlen_wire_rel_cons in Ht, Ho.
    unfold wire_rel in Hb. cbn [map concat] in Hb. fold (wire_rel pre) in Hb.
    apply bytes_at_split in Hb as [Hb1 Hb2]. change (wire_label l) with (mlen l :: l) in Hb1.
    replace (mlen (wire_label l)) with (1 + mlen l) in Hb2 by (unfold wire_label; rewrite mlen_cons; reflexivity).
    apply NI_label; auto.
    + intros i Hi. apply Ho. lia.
    + apply IH; auto.
      * replace (p + 1 + mlen l) with (p + (1 + mlen l)) by lia. exact Hb2.
      * intros i Hi. apply Ho. lia.
      * replace (p + 1 + mlen l + mlen (wire_rel pre)) with (p + (1 + mlen l + mlen (wire_rel pre))) by lia. exact Ht.
      * lia.
Qed.

(* an uncompressed name *)
Lemma NameIn_wire a ls x (ok : N -> Prop) seg :
  Forall valid_label ls -> (forall i, mlen a <= i -> ok i) -> seg <= mlen a ->
  NameIn (a ++ wire_abs ls ++ x) ok seg (mlen a) ls (mlen a + mlen (wire_abs ls)).
Proof.
  intros Hv Ho Hs. rewrite <- (app_nil_r ls) at 2.
  assert (E : mlen (wire_abs ls) = mlen (wire_rel ls) + 1).
  { unfold wire_abs. rewrite mlen_app. reflexivity. }
  rewrite E. replace (mlen a + (mlen (wire_rel ls) + 1)) with (mlen a + mlen (wire_rel ls) + 1) by lia.
  apply (NameIn_complete _ ok 0 [] _ ls (mlen a) seg); auto; try lia.
  - unfold wire_abs. rewrite <- app_assoc. apply bytes_at_app.
  - intros i Hi. apply Ho. lia.
  - constructor; [apply Ho; lia|].
    unfold wire_abs. rewrite get_app_r by lia. rewrite <- app_assoc. rewrite get_app_r by (unfold mlen; lia).
    replace (mlen a + mlen (wire_rel ls) - mlen a - mlen (wire_rel ls)) with 0 by lia. reflexivity.
Qed.


Lemma NameIn_valid m (ok : N -> Prop) seg p ls e : NameIn m ok seg p ls e -> Forall valid_label ls.
Proof. induction 1; constructor; auto. Qed.

Lemma canon_wire_len a b : canon a = canon b -> wire_len a = wire_len b.
Proof.
  revert b. induction a as [|x a IH]; intros [|y b] H; cbn [canon map] in H; try discriminate; [reflexivity|].
  injection H as H1 H2. cbn [wire_len]. rewrite (IH b H2).
  rewrite <- (lowers_length x), <- (lowers_length y), H1. reflexivity.
Qed.

(* ------------------------------------------------------- from C01 (Proofs.v, Proofs3.v) *)
Lemma parse_ref_eq m pos lim : parse_ref m pos lim = parse_labels PARSE_FUEL m lim pos 0 pos false None.
Proof. reflexivity. Qed.
Lemma skip_name_eq m pos lim : skip_name m pos lim = skip_labels PARSE_FUEL m lim pos 0.
Proof. reflexivity. Qed.

Lemma parse_labels_end_some : forall fuel m lim cur nl start c e p,
  parse_labels fuel m lim cur nl start c (Some e) = Ok p -> pn_end p = e.
Proof.
  induction fuel as [|fuel IH]; intros m lim cur nl start c e p H; [discriminate|].
  cbn [parse_labels] in H.
  destruct (label_type_parse m cur lim) as [[r cur']| | |]; try discriminate.
  destruct r as [l|ptr].
  - destruct (l =? 0); [inversion H; reflexivity|].
    destruct (lim - cur' <? l); [discriminate|].
    destruct (255 <=? nl + l + 1); [discriminate|]. eapply IH; exact H.
  - destruct (hops (S (S (N.to_nat ptr))) m lim ptr cur') as [tgt| | |]; cbn [bind] in H; try discriminate.
    destruct (nl =? 0); eapply IH; exact H.
Qed.

Lemma parse_then_skip : forall fuel m lim cur nl start c p,
  nl <= 254 -> parse_labels fuel m lim cur nl start c None = Ok p ->
  skip_labels fuel m lim cur nl = Ok (pn_end p).
Proof.
  induction fuel as [|fuel IH]; intros m lim cur nl start c p Hnl H; [discriminate|].
  cbn [parse_labels] in H. cbn [skip_labels].
  destruct (label_type_parse m cur lim) as [[r cur']| | |]; try discriminate.
  destruct r as [l|ptr].
  - destruct (N.eqb_spec l 0).
    + inversion H; subst p. cbn [pn_end]. destruct (N.ltb_spec 255 (nl + 1)); [lia|reflexivity].
    + destruct (lim - cur' <? l); [discriminate|].
      destruct (N.leb_spec 255 (nl + l + 1)); [discriminate|].
      destruct (N.ltb_spec 255 (nl + l + 1)); [lia|].
      eapply IH; [lia|exact H].
  - destruct (hops (S (S (N.to_nat ptr))) m lim ptr cur') as [tgt| | |]; cbn [bind] in H; try discriminate.
    destruct (nl =? 0); apply parse_labels_end_some in H; rewrite H; reflexivity.
Qed.
