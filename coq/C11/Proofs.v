(* C11/Proofs.v -- lemmas about the TSIG model. *)
From Coq Require Import NArith List Bool Lia ZArith.
From Coq Require Import ZifyN ZifyBool ZifyNat.
From DV Require Import Base.Outcome Base.Bytes Base.Names Base.PName C11.Gen C11.Model.
Import ListNotations.
Local Open Scope N_scope.
Ltac Zify.zify_post_hook ::= Z.div_mod_to_equations.

(* ------------------------------------------------------------ T1 facts used below *)
Lemma sign_order_eq :
  sign_order = [FName; FClass; FTtl; FAlg; FTime; FFudge; FError; FOtherLen; FOther].
Proof. reflexivity. Qed.
Lemma timers_order_eq : timers_order = [FTime; FFudge].
Proof. reflexivity. Qed.
Lemma other_len_is_6 : other_len_fed = 6 /\ time48_width = 6 /\ other_time_len = 6.
Proof. repeat split. Qed.
Lemma unsigned_limit_99 : unsigned_limit = 99 /\ unsigned_guard_is_lt = true.
Proof. split; reflexivity. Qed.
Lemma default_fudge_300 : default_fudge = 300.
Proof. reflexivity. Qed.

(* ------------------------------------------------------------ the fudge window *)
Lemma time_window_exact now signed fudge :
  now < T48_LIMIT -> signed < T48_LIMIT -> fudge < 65536 ->
  (is_valid_at signed fudge now = true <-> (now - signed <= fudge /\ signed - now <= fudge)).
Proof.
  unfold is_valid_at, eq_fudged, sat_add, T48_LIMIT, U64_MAX. intros Hn Hs Hf.
  rewrite andb_true_iff, !N.leb_le. lia.
Qed.

(* with arbitrary u64 fudge (the public eq_fudged): saturation never cuts a 48 bit window *)
Lemma eq_fudged_exact self other fudge :
  self < T48_LIMIT -> other < T48_LIMIT -> fudge <= U64_MAX ->
  (eq_fudged self other fudge = true <-> (self - other <= fudge /\ other - self <= fudge)).
Proof.
  unfold eq_fudged, sat_add, T48_LIMIT, U64_MAX. intros Hn Hs Hf.
  rewrite andb_true_iff, !N.leb_le. lia.
Qed.

Example time_window_ex :
  is_valid_at 1000 300 1300 = true /\ is_valid_at 1000 300 1301 = false /\
  is_valid_at 1000 300 700 = true /\ is_valid_at 1000 300 699 = false /\ is_valid_at 100 300 0 = true.
Proof. repeat split. Qed.

(* ------------------------------------------------------------ truncation bounds *)
Lemma within_len_bounds_spec a l :
  within_len_bounds a l = true <-> (10 <= l /\ native_len a / 2 <= l /\ l <= native_len a).
Proof.
  unfold within_len_bounds, trunc_floor, trunc_divisor.
  rewrite andb_true_iff, !N.leb_le. lia.
Qed.

Lemma calculate_bounds_ok a mn sg m s :
  calculate_bounds a mn sg = Ok (m, s) ->
  (10 <= m /\ native_len a / 2 <= m /\ m <= native_len a) /\
  (10 <= s /\ native_len a / 2 <= s /\ s <= native_len a).
Proof.
  unfold calculate_bounds. intros H.
  assert (Hn : 10 <= native_len a /\ native_len a / 2 <= native_len a) by (destruct a; cbn; lia).
  destruct mn as [l1|]; [destruct (within_len_bounds a l1) eqn:E1; [|discriminate]|];
  (destruct sg as [l2|]; [destruct (within_len_bounds a l2) eqn:E2; [|discriminate]|]);
  cbn in H; injection H as <- <-;
  try apply within_len_bounds_spec in E1; try apply within_len_bounds_spec in E2; lia.
Qed.

Lemma calculate_bounds_err a mn sg :
  (exists e, calculate_bounds a mn sg = Err e) <->
  ((exists l, mn = Some l /\ within_len_bounds a l = false) \/
   (exists l, sg = Some l /\ within_len_bounds a l = false)).
Proof.
  unfold calculate_bounds. split.
  - intros [e H].
    destruct mn as [l1|]; [destruct (within_len_bounds a l1) eqn:E1; [|left; eauto]|];
    (destruct sg as [l2|]; [destruct (within_len_bounds a l2) eqn:E2; [|right; eauto]|]); discriminate.
  - intros [[l [-> E]]|[l [-> E]]].
    + rewrite E. eexists; reflexivity.
    + destruct mn as [l1|]; [destruct (within_len_bounds a l1)|]; cbn; rewrite ?E; eexists; reflexivity.
Qed.

Example calculate_bounds_ex :
  calculate_bounds Sha256 (Some 16) None = Ok (16, 32) /\ calculate_bounds Sha256 (Some 15) None = Err 1 /\
  calculate_bounds Sha1 None (Some 9) = Err 2 /\ calculate_bounds Sha1 (Some 10) (Some 20) = Ok (10, 20) /\
  calculate_bounds Sha512 (Some 31) None = Err 1.
Proof. repeat split. Qed.

(* ------------------------------------------------------------ octet string helpers *)
Lemma bytes_eqb_spec a b : bytes_eqb a b = true <-> a = b.
Proof.
  revert b; induction a as [|x a IH]; intros [|y b]; cbn; split; intros H; try reflexivity; try discriminate.
  - apply andb_true_iff in H as [H1 H2]. apply N.eqb_eq in H1. apply IH in H2. congruence.
  - injection H as -> ->. rewrite N.eqb_refl. cbn. apply IH. reflexivity.
Qed.

Lemma be_bytes_length w x : length (be_bytes w x) = w.
Proof. revert x; induction w; intros; cbn; [reflexivity|]. rewrite app_length, IHw. cbn. lia. Qed.

Lemma len_app (a b : bytes) : len (a ++ b) = len a + len b.
Proof. unfold len. rewrite app_length. lia. Qed.

Lemma time48_octets_length t : length (time48_octets t) = 6%nat.
Proof. unfold time48_octets. rewrite be_bytes_length. reflexivity. Qed.

Lemma be16_length n : length (be16 n) = 2%nat. Proof. reflexivity. Qed.
Lemma be32_length n : length (be32 n) = 4%nat. Proof. reflexivity. Qed.

(* ------------------------------------------------------------ RFC 8945, transcribed *)
(* Section 4.3.3 "TSIG Variables", in the order of the table:
     NAME (canonical wire format), CLASS, TTL, Algorithm Name (canonical wire
     format), Time Signed, Fudge, Error, Other Len, Other Data.
   Section 4.3.1: a response digests the request MAC first, "including the MAC
   Size field" (two octets, network order).  Section 4.3.2: the whole DNS
   message, TSIG RR removed, ARCOUNT decremented, original ID.  Section 5.3.1:
   in a multi-message answer the first message is signed like a response; later
   ones digest the prior MAC (with its length), the DNS messages since (unsigned
   ones included) and only the TSIG timers (Time Signed, Fudge). *)
Record rfc_key := RfcKey { rk_name : name; rk_alg_name : name }.

Definition u48 (t : N) : bytes :=
  [t / 1099511627776 mod 256; t / 4294967296 mod 256; t / 16777216 mod 256; t / 65536 mod 256; t / 256 mod 256; t mod 256].
Definition u16 (n : N) : bytes := [n / 256; n mod 256].

Definition rfc8945_variables (k : rfc_key) (time fudge error : N) (other : bytes) : bytes :=
  wire_abs (map lowers (rk_name k)) ++      (* NAME *)
  [0; 255] ++                               (* CLASS ANY *)
  [0; 0; 0; 0] ++                           (* TTL 0 *)
  wire_abs (map lowers (rk_alg_name k)) ++  (* Algorithm Name *)
  u48 time ++ u16 fudge ++ u16 error ++ u16 (len other) ++ other.

Definition rfc8945_timers (time fudge : N) : bytes := u48 time ++ u16 fudge.
Definition rfc8945_mac_field (mac : bytes) : bytes := u16 (len mac) ++ mac.

Definition rfc8945_request_digest k msg time fudge := msg ++ rfc8945_variables k time fudge 0 [].
Definition rfc8945_response_digest k reqmac msg time fudge error other :=
  rfc8945_mac_field reqmac ++ msg ++ rfc8945_variables k time fudge error other.
Definition rfc8945_subsequent_digest priormac (unsigned_msgs : list bytes) msg time fudge :=
  rfc8945_mac_field priormac ++ concat unsigned_msgs ++ msg ++ rfc8945_timers time fudge.

Definition rfc_key_of (k : key) : rfc_key := RfcKey (k_name k) [alg_label (k_alg k)].
Definition vars_other (v : vars) : bytes :=
  match v_other v with Some t => u48 t | None => [] end.

Lemma time48_octets_u48 t : time48_octets t = u48 t.
Proof.
  unfold time48_octets, u48. change (N.to_nat time48_width) with 6%nat. cbn [be_bytes app].
  repeat (match goal with |- _ :: _ = _ :: _ => apply f_equal2; [lia|] end). reflexivity.
Qed.

Lemma alg_wire_canonical a : alg_wire a = wire_abs (map lowers [alg_label a]).
Proof. destruct a; reflexivity. Qed.

Lemma vars_sign_is_rfc8945 k v :
  vars_sign k v = rfc8945_variables (rfc_key_of k) (v_time v) (v_fudge v) (v_error v) (vars_other v).
Proof.
  unfold vars_sign, rfc8945_variables, rfc_key_of, vars_other. rewrite sign_order_eq.
  cbn [map concat field_bytes rk_name rk_alg_name]. rewrite app_nil_r.
  rewrite alg_wire_canonical. unfold canon.
  destruct (v_other v) as [t|].
  - rewrite !time48_octets_u48. reflexivity.
  - rewrite !time48_octets_u48. reflexivity.
Qed.

Lemma vars_sign_timers_is_rfc8945 k v :
  vars_sign_timers k v = rfc8945_timers (v_time v) (v_fudge v).
Proof.
  unfold vars_sign_timers, rfc8945_timers. rewrite timers_order_eq.
  cbn [map concat field_bytes]. rewrite app_nil_r, time48_octets_u48. reflexivity.
Qed.

Lemma apply_signature_is_rfc8945 mac : len mac < 65536 ->
  apply_signature [] mac = rfc8945_mac_field mac.
Proof.
  intros H. unfold apply_signature, rfc8945_mac_field, u16, be16. cbn [app].
  rewrite N.mod_small by exact H. reflexivity.
Qed.

Example vars_sign_ex :
  vars_sign (Key Sha1 [] [[75;101;121]] 20 20) (Vars 1 300 18 (Some 2)) =
  [3;107;101;121;0; 0;255; 0;0;0;0; 9;104;109;97;99;45;115;104;97;49;0; 0;0;0;0;0;1; 1;44; 0;18; 0;6; 0;0;0;0;0;2].
Proof. reflexivity. Qed.
