(* C02 proofs, part 19: HashCompressor's lookups over a hashbrown RawTable.

   Transcribed here is what HashCompressor relies on in hashbrown:
   - the table is an array of buckets, a full bucket holds an element and a
     control tag derived from the element's hash (h2);
   - HashTable::find(hash, eq) walks a probe sequence of bucket indices (which
     one depends on the hash, the capacity and the group layout), looks only at
     full buckets whose tag equals the tag of `hash`, and returns the first of
     them whose element satisfies eq;
   - the table invariant: the probe sequence of a hash visits every full bucket
     whose element hashes to that hash (insert_unique puts an element on its own
     probe sequence before the first empty bucket; a resize re-inserts every
     element with the rehash closure |e| e.hash(message, hasher));
   - the stored tag of a bucket is the tag of its element's hash.
   From these, every lookup of HashCompressor::append_compressed_name (the
   single find and the whole right-to-left walk) returns what the model's walk
   over the insertion-ordered list returns, in every reachable state. *)
From Coq Require Import NArith List Bool Lia ZArith.
From Coq Require Import ZifyN ZifyBool ZifyNat.
From DV Require Import Base.Outcome Base.Bytes Base.Names Base.PName C02.Gen C02.Model
  C02.ProofsBasic C02.ProofsClone C02.ProofsRun C02.ProofsName C02.ProofsComp C02.ProofsStatic C02.ProofsHash C02.ProofsTop
  C02.ProofsLayout C02.ProofsRead C02.ProofsWrite C02.ProofsBuild C02.ProofsTotal C02.ProofsGrow.
Import ListNotations.
Local Open Scope N_scope.

(* a bucket: empty (or deleted), or full with its control tag and element *)
Definition slot := option (N * (N * N)).

(* HashEntry::eq(message, (label, position)); head()'s expect is the panic *)
Definition eq_entry (m : bytes) (ml : N) (l : label) (pos : N) (e : N * N) : outcome bool :=
  match label_at m ml (fst e) with
  | None => Panic P_HASH_HEAD
  | Some hl => Ok (label_eq hl l && (snd e =? pos))
  end.

(* RawTable::find: the buckets in probe order; only full buckets with the
   query's tag are compared *)
Fixpoint raw_find (slots : list slot) (order : list nat) (tag : N) (eq : N * N -> outcome bool)
  : outcome (option (N * N)) :=
  match order with
  | [] => Ok None
  | i :: r =>
      match nth_error slots i with
      | Some (Some (t, e)) =>
          if t =? tag then
            match eq e with
            | Ok true => Ok (Some e)
            | Ok false => raw_find slots r tag eq
            | Err x => Err x | Panic s => Panic s | OutOfFuel => OutOfFuel
            end
          else raw_find slots r tag eq
      | _ => raw_find slots r tag eq
      end
  end.

Definition res_head (r : outcome (option (N * N))) : outcome (option N) :=
  match r with
  | Ok (Some e) => Ok (Some (fst e)) | Ok None => Ok None
  | Err x => Err x | Panic s => Panic s | OutOfFuel => OutOfFuel
  end.

(* the elements find compares, in the order it compares them *)
Definition visited (slots : list slot) (order : list nat) (tag : N) : list (N * N) :=
  flat_map (fun i => match nth_error slots i with
                     | Some (Some (t, e)) => if t =? tag then [e] else []
                     | _ => [] end) order.

Lemma raw_find_visited m ml l pos slots tag : forall order,
  res_head (raw_find slots order tag (eq_entry m ml l pos)) = hash_find m ml (visited slots order tag) l pos.
Proof.
  induction order as [|i r IH]; [reflexivity|]. cbn [raw_find visited flat_map]. fold (visited slots r tag).
  destruct (nth_error slots i) as [[[t [h tl]]|]|]; cbn [app]; try exact IH.
  destruct (t =? tag); cbn [app]; [|exact IH].
  cbn [hash_find]. unfold eq_entry. cbn [fst snd].
  destruct (label_at m ml h) as [hl|]; [|reflexivity].
  destruct (label_eq hl l && (tl =? pos)); [reflexivity|exact IH].
Qed.

Section Raw.
Variable H : bytes -> N -> N.      (* the keyed hasher over Label::hash's feed and the tail *)
Variable tagf : N -> N.            (* h2: the control tag of a hash *)
Variable m : bytes.
Variable ml : N.

(* the hash of an element: |e| e.hash(message, hasher) *)
Definition ehash (e : N * N) : N :=
  match label_at m ml (fst e) with Some hl => key_hash H hl (snd e) | None => 0 end.

Definition TableOf (slots : list slot) (es : list (N * N)) : Prop :=
  forall e, In e es <-> exists i t, nth_error slots i = Some (Some (t, e)).
Definition TagsOK (slots : list slot) : Prop :=
  forall i t e, nth_error slots i = Some (Some (t, e)) -> t = tagf (ehash e).
Definition ProbeVisits (slots : list slot) (order : list nat) (qh : N) : Prop :=
  forall i t e, nth_error slots i = Some (Some (t, e)) -> ehash e = qh -> In i order.

Lemma visited_probes slots es order l pos :
  TableOf slots es -> TagsOK slots -> ProbeVisits slots order (key_hash H l pos) ->
  probes H m ml es (visited slots order (tagf (key_hash H l pos))) l pos.
Proof.
  intros HT HG HP. split.
  - intros e He. unfold visited in He. apply in_flat_map in He as (i & _ & Hi).
    destruct (nth_error slots i) as [[[t e']|]|] eqn:E; try contradiction.
    destruct (t =? _); [|contradiction]. destruct Hi as [<-|[]]. apply HT. eauto.
  - intros e hl Ie A K. apply HT in Ie as (i & t & E).
    assert (Eh : ehash e = key_hash H l pos) by (unfold ehash; rewrite A; exact K).
    unfold visited. apply in_flat_map. exists i. split; [eapply HP; eauto|].
    rewrite E. rewrite (HG i t e E), Eh, N.eqb_refl. left. reflexivity.
Qed.

(* scanning every bucket is one admissible probe order *)
Lemma full_scan_visits slots qh : ProbeVisits slots (seq 0 (length slots)) qh.
Proof.
  intros i t e E _. apply in_seq. split; [lia|]. cbn. apply nth_error_Some. rewrite E. discriminate.
Qed.

(* the right-to-left walk of append_compressed_name over the RawTable;
   order_of gives the probe sequence of a hash in the table's current layout *)
Fixpoint raw_walk (slots : list slot) (order_of : N -> list nat) (rl : list label) (pos : N)
  : outcome (N * list label) :=
  match rl with
  | [] => Ok (pos, [])
  | l :: rl' =>
      let qh := key_hash H l pos in
      match raw_find slots (order_of qh) (tagf qh) (eq_entry m ml l pos) with
      | Ok (Some e) => raw_walk slots order_of rl' (fst e)
      | Ok None => Ok (pos, rl)
      | Err x => Err x | Panic s => Panic s | OutOfFuel => OutOfFuel
      end
  end.
End Raw.

(* ---- in every state an operation sequence can reach *)
Theorem raw_find_reachable c ops s0 s a ws H tagf slots order l pos :
  init c = Some s0 -> Forall wf_op ops -> run_acc c s0 acc0 ops = (s, a, ws) -> all_alive ws ->
  let m := w_buf (b_w s) in let ml := mlen (w_buf (b_w s)) in
  TableOf slots (w_hash (b_w s)) -> TagsOK H tagf m ml slots ->
  ProbeVisits H m ml slots order (key_hash H l pos) ->
  res_head (raw_find slots order (tagf (key_hash H l pos)) (eq_entry m ml l pos)) =
  hash_find m ml (w_hash (b_w s)) l pos.
Proof.
  intros HI Hwf HR AL m ml HT HG HP. rewrite raw_find_visited.
  apply (hash_growth_unobservable c ops s0 s a ws H l pos _ HI Hwf HR AL).
  apply (visited_probes H tagf); assumption.
Qed.

Theorem raw_walk_reachable c ops s0 s a ws H tagf slots order_of :
  init c = Some s0 -> Forall wf_op ops -> run_acc c s0 acc0 ops = (s, a, ws) -> all_alive ws ->
  let m := w_buf (b_w s) in let ml := mlen (w_buf (b_w s)) in
  TableOf slots (w_hash (b_w s)) -> TagsOK H tagf m ml slots ->
  (forall qh, ProbeVisits H m ml slots (order_of qh) qh) ->
  forall rl pos, raw_walk H tagf m ml slots order_of rl pos = hash_walk m ml (w_hash (b_w s)) rl pos.
Proof.
  intros HI Hwf HR AL m ml HT HG HP. subst m ml. induction rl as [|l rl IH]; intros pos; [reflexivity|].
  cbn [raw_walk hash_walk].
  pose proof (raw_find_reachable c ops s0 s a ws H tagf slots (order_of (key_hash H l pos)) l pos HI Hwf HR AL HT HG (HP _)) as E.
  cbv zeta in E. rewrite <- E.
  destruct (raw_find slots _ _ _) as [[e|]| | |]; cbn [res_head]; auto.
Qed.

(* hence the whole of append_compressed_name: the lookups decide which labels
   are written and which pointer follows *)
Corollary raw_acn_reachable c ops s0 s a ws H tagf slots order_of n :
  init c = Some s0 -> Forall wf_op ops -> run_acc c s0 acc0 ops = (s, a, ws) -> all_alive ws ->
  let w := b_w s in
  TableOf slots (w_hash w) -> TagsOK H tagf (w_buf w) (mlen (w_buf w)) slots ->
  (forall qh, ProbeVisits H (w_buf w) (mlen (w_buf w)) slots (order_of qh) qh) ->
  hash_acn c n w =
  match raw_walk H tagf (w_buf w) (mlen (w_buf w)) slots order_of (rev n) hash_root_pos with
  | Ok (position, rest) =>
      wbind (hash_write c (rev rest) position w) (fun w1 =>
        if position =? hash_root_pos then write_root c w1 else write_ptr c hash_ptr_tag position w1)
  | Panic site => WPanic site
  | _ => WFuel
  end.
Proof.
  intros HI Hwf HR AL w HT HG HP. unfold hash_acn.
  rewrite (raw_walk_reachable c ops s0 s a ws H tagf slots order_of HI Hwf HR AL HT HG HP). reflexivity.
Qed.

(* ---- the premises can be met: a reachable table of three entries (names a.b
   and c.B pushed as questions) laid out in eight buckets, tags from a concrete
   hasher, probe order = one full scan *)
Definition ex_c : tcfg := mkCfg None false KHash.
Definition ex_ops : list op := [OpQ (mkQ [[97]; [98]] 1 1); OpQ (mkQ [[99]; [66]] 1 1)].
Definition ex_H : bytes -> N -> N := fun feed t => fold_left N.add feed t.
Definition ex_tagf : N -> N := fun h => h mod 128.
Definition ex_state : option (bstate * acc * list rword) :=
  match init ex_c with Some s0 => Some (run_acc ex_c s0 acc0 ex_ops) | None => None end.
Definition ex_m : bytes :=
  [0; 0; 0; 0; 0; 0; 0; 0; 0; 0; 0; 0; 1; 97; 1; 98; 0; 0; 1; 0; 1; 1; 99; 192; 14; 0; 1; 0; 1].
Definition ex_tg (e : N * N) : N := ex_tagf (ehash ex_H ex_m (mlen ex_m) e).
Definition ex_slots : list slot :=
  [None; Some (ex_tg (21, 14), (21, 14)); None; None; Some (ex_tg (12, 14), (12, 14)); None;
   Some (ex_tg (14, 65535), (14, 65535)); None].

Example raw_table_example :
  match ex_state with
  | Some (s, a, ws) =>
      w_buf (b_w s) = ex_m /\ w_hash (b_w s) = [(12, 14); (14, 65535); (21, 14)] /\
      TableOf ex_slots (w_hash (b_w s)) /\
      TagsOK ex_H ex_tagf ex_m (mlen ex_m) ex_slots /\
      (forall qh, ProbeVisits ex_H ex_m (mlen ex_m) ex_slots (seq 0 (length ex_slots)) qh) /\
      (* a.B is found whole, through the bucket array, whatever its ASCII case *)
      raw_walk ex_H ex_tagf ex_m (mlen ex_m) ex_slots (fun _ => seq 0 (length ex_slots)) (rev [[97]; [66]]) hash_root_pos = Ok (12, []) /\
      (* the tags really discriminate: the three entries have three different tags *)
      (ex_tg (12, 14), ex_tg (14, 65535), ex_tg (21, 14)) = (112, 98, 114)
  | None => False
  end.
Proof.
  assert (E : ex_state = ex_state) by reflexivity. unfold ex_state at 2 in E.
  destruct ex_state as [[[s a] ws]|] eqn:ES.
  2:{ vm_compute in ES. discriminate. }
  assert (Hm : w_buf (b_w s) = ex_m) by (vm_compute in ES; injection ES as <- _ _; reflexivity).
  assert (Hh : w_hash (b_w s) = [(12, 14); (14, 65535); (21, 14)]) by (vm_compute in ES; injection ES as <- _ _; reflexivity).
  split; [exact Hm|]. split; [exact Hh|]. rewrite Hh. split; [|split; [|split; [|split]]].
  - intros e. split.
    + intros [<-|[<-|[<-|[]]]]; [exists 4%nat|exists 6%nat|exists 1%nat]; eexists; reflexivity.
    + intros (i & t & Hi). do 8 (destruct i as [|i]; [cbn [nth_error ex_slots] in Hi; try discriminate; injection Hi as _ <-; cbn; tauto|]).
      destruct i; discriminate.
  - intros i t e Hi. do 8 (destruct i as [|i]; [cbn [nth_error ex_slots] in Hi; try discriminate; injection Hi as <- <-; reflexivity|]).
    destruct i; discriminate.
  - intros qh. apply (full_scan_visits ex_H ex_tagf).
  - vm_compute. reflexivity.
  - vm_compute. reflexivity.
Qed.
