(* C02 -- property theorems only.  Proofs live in C02/Proofs*.v. *)
From Coq Require Import NArith List.
From DV Require Import Base.Outcome Base.Bytes Base.Names Base.PName C02.Gen C02.Model.
