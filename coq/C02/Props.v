(* C02 -- property theorems only.  Proofs live in C02/Proofs*.v. *)
From Coq Require Import NArith List.
From DV Require Import Base.Outcome Base.Bytes Base.Names Base.PName C02.Gen C02.Model
  C02.ProofsBasic C02.ProofsClone C02.ProofsRun C02.ProofsName C02.ProofsComp C02.ProofsStatic C02.ProofsHash C02.ProofsTop
  C02.ProofsLayout C02.ProofsRead C02.ProofsWrite C02.ProofsBuild C02.ProofsTotal C02.ProofsX C02.SchemaModel C02.ProofsSchema C02.ProofsGrow C02.ProofsReuse C02.ProofsOpt C02.ProofsCount C02.ProofsRaw C02.ProofsWide.
From DV Require C05.Schema C05.ProofsB C05.Model C05.OptModel.
Import ListNotations.
Local Open Scope N_scope.

(* Any message assembled by any finite sequence of builder operations
   (question / record / OPT pushes with well-formed names and field values,
   section conversions in both directions, rewinds, push limits; pushes that
   fail for lack of space, because of the limit or a full counter), on every
   target (unbounded, fixed capacity, stream) and with every compressor (none,
   static, tree, hash), reads back as exactly the items whose push succeeded,
   in order and in the right sections, with header counts equal to the numbers
   of successful pushes and nothing left over (names up to ASCII case, which
   is DNS name equality). *)
Theorem C02_build_parse : forall c ops s0 s a ws,
  init c = Some s0 -> Forall wf_op ops ->
  run_acc c s0 acc0 ops = (s, a, ws) -> all_alive ws ->
  exists a', rd_message (msg_of s) a = Ok a' /\ acc_eqb a' a = true.
Proof. exact build_parse. Qed.
Print Assumptions C02_build_parse.

(* No reachable builder panics or loops, and the message reads back as the
   accepted pushes: the statement above without the "no panic" premise, for
   record data of at most 65535 octets (which the typed record data of the
   library guarantee; compose_prefixed's expect("long data") is otherwise
   reachable, see long_data_panics in ProofsTotal.v). *)
Theorem C02_build_parse_total : forall c ops s0 s a ws,
  init c = Some s0 -> Forall wf_op_sized ops -> run_acc c s0 acc0 ops = (s, a, ws) ->
  all_alive ws /\ exists a', rd_message (msg_of s) a = Ok a' /\ acc_eqb a' a = true.
Proof. exact build_parse_total. Qed.
Print Assumptions C02_build_parse_total.

(* A failed push (target full, push limit, count overflow) leaves the whole
   builder state - octets, counts, stream length octets, compressor tables,
   section bookkeeping - exactly as it was, in every state an arbitrary
   operation sequence can reach, for every target and compressor. *)
Theorem C02_failed_push_unchanged : forall c ops s0 s a ws o s' e,
  init c = Some s0 -> run_acc c s0 acc0 ops = (s, a, ws) -> all_alive ws ->
  step c s o = (s', RErr e) -> s' = s.
Proof. exact failed_push_unchanged. Qed.
Print Assumptions C02_failed_push_unchanged.

(* In every reachable state: all remembered offsets of all three compressors
   lie inside the buffer and below 0x4000; header counts equal the numbers of
   accepted pushes per section; with a stream target the two length octets
   equal the message length, which is at most 65535. *)
Theorem C02_reachable_tables_counts_shim : forall c ops s0 s a ws,
  init c = Some s0 -> run_acc c s0 acc0 ops = (s, a, ws) -> all_alive ws ->
  TBound (b_w s) /\ CountInv s a /\
  (t_stream c = true ->
     stream_of s = be16 (mlen (msg_of s)) ++ msg_of s /\ mlen (msg_of s) <= 65535).
Proof. exact reachable_inv. Qed.
Print Assumptions C02_reachable_tables_counts_shim.

(* The reader model (ParsedName::parse + label iteration) returns exactly the
   name stored at a position, following compression pointers. *)
Theorem C02_reader_reconstructs_stored_name : forall m (ok : N -> Prop) lim,
  (forall i, ok i -> i < lim) ->
  forall seg p ls e, NameIn m ok seg p ls e -> name_ok ls -> decode_name m p lim = Ok (ls, e).
Proof. exact decode_name_ok. Qed.
Print Assumptions C02_reader_reconstructs_stored_name.

(* append_compressed_name of every compressor keeps the compressor invariant
   (every remembered offset is the start of a stored name: static, tree keyed
   by the exact labels, hash entries with head label and tail position) and
   stores, where it wrote, a name equal to the pushed one up to ASCII case. *)
Theorem C02_compressors_keep_invariant : forall c, AcnSpec c (acn c).
Proof. exact acn_ok. Qed.
Print Assumptions C02_compressors_keep_invariant.

(* Name compression never changes which name a reader reconstructs (all four
   compressor choices, DNS name equality). *)
Theorem C02_compression_transparent : forall c n w w',
  WGood c w -> name_ok n -> acn c n w = WOk w' ->
  WGood c w' /\
  exists n', decode_name (w_buf w') (mlen (w_buf w)) (mlen (w_buf w')) = Ok (n', mlen (w_buf w')) /\
             name_eqb n' n = true.
Proof. exact compression_transparent. Qed.
Print Assumptions C02_compression_transparent.

(* Without a compressor and with the tree compressor the reader gets back the
   very octets of the name (no case change). *)
Theorem C02_compression_exact_none_tree : forall c n w w',
  (t_kind c = KNone \/ t_kind c = KTree) ->
  WGood c w -> name_ok n -> acn c n w = WOk w' ->
  decode_name (w_buf w') (mlen (w_buf w)) (mlen (w_buf w')) = Ok (n, mlen (w_buf w')).
Proof. exact compression_exact. Qed.
Print Assumptions C02_compression_exact_none_tree.

(* In every reachable state at most one hash entry matches a query (proved:
   the insertion discipline of HashCompressor::append_compressed_name keeps
   (label up to case, tail) unique, truncation and appends preserve it), so
   HashTable::find gives the same answer whatever order it meets the entries in. *)
Theorem C02_hash_lookup_order_irrelevant : forall c ops s0 s a ws l pos es',
  init c = Some s0 -> Forall wf_op ops -> run_acc c s0 acc0 ops = (s, a, ws) -> all_alive ws ->
  (forall e, In e (w_hash (b_w s)) <-> In e es') ->
  hash_find (w_buf (b_w s)) (mlen (w_buf (b_w s))) es' l pos =
  hash_find (w_buf (b_w s)) (mlen (w_buf (b_w s))) (w_hash (b_w s)) l pos.
Proof. exact hash_lookup_order_irrelevant_reachable. Qed.
Print Assumptions C02_hash_lookup_order_irrelevant.

(* the general fact behind it, for any table with unique keys *)
Theorem C02_hash_find_order_irrelevant : forall m ml l pos es es',
  (forall e, In e es <-> In e es') ->
  Forall (fun e => label_at m ml (fst e) <> None) es ->
  (forall e1 e2, In e1 es -> In e2 es -> hmatch m ml l pos e1 -> hmatch m ml l pos e2 -> fst e1 = fst e2) ->
  hash_find m ml es' l pos = hash_find m ml es l pos.
Proof. exact hash_find_order_irrelevant. Qed.
Print Assumptions C02_hash_find_order_irrelevant.

(* The push limit as coded (`new_pos >= self.limit`): an accepted push leaves
   the message strictly shorter than the limit. *)
Theorem C02_push_ok_below_limit : forall c ops s0 s a ws o s' l,
  init c = Some s0 -> run_acc c s0 acc0 ops = (s, a, ws) -> all_alive ws ->
  step c s o = (s', ROk) -> b_limit s = Some l -> mlen (w_buf (b_w s')) < l.
Proof. exact push_ok_below_limit. Qed.
Print Assumptions C02_push_ok_below_limit.

(* AdditionalBuilder::opt puts the header RCODE back when the push fails (T1:
   read from the source); without it C02_failed_push_unchanged is false, see
   failed_opt_push_refuted in ProofsTotal.v. *)
Theorem C02_opt_restores_header_rcode : opt_restores_rcode_on_err = true.
Proof. exact restore_flag. Qed.
Print Assumptions C02_opt_restores_header_rcode.

(* Every builder conversion, from every section to every section (the code's
   shortcuts are compositions of single steps, T1 conversions_anchored), ends
   in the wanted section, keeps the accepted items and counters of the
   sections up to it and empties exactly those above it. *)
Theorem C02_conversions_zero_the_right_counters : forall c s a k s' a' ws,
  BW c s -> CountInv s a -> k <= 3 ->
  run_acc c s a (conv_ops (b_sec s) k) = (s', a', ws) ->
  b_sec s' = k /\ Forall (fun w => w = RNone) ws /\ CountInv s' a' /\ acc_upto a a' k.
Proof. exact conv_counts. Qed.
Print Assumptions C02_conversions_zero_the_right_counters.

(* Conversions, builder(), start_answer, start_error and request_axfr are
   compositions of the primitive operations (the model computes the list they
   perform from the current state): whatever mix of them built the message,
   it reads back as the accepted pushes. *)
Theorem C02_build_parse_composite : forall c xs s0 s a ws lost,
  init c = Some s0 -> Forall wf_xop xs -> xrun c s0 acc0 xs = (s, a, ws, lost) ->
  exists a', rd_message (msg_of s) a = Ok a' /\ acc_eqb a' a = true.
Proof. exact xbuild_parse. Qed.
Print Assumptions C02_build_parse_composite.

(* The header setters (offsets, bit positions, masks, shift: T1) realise the
   RFC 1035 header layout. *)
Theorem C02_header_setters_layout : forall p0 p1 p2 p3 i0 i1 w2 w3,
  p2 < 256 -> p3 < 256 -> i0 < 256 -> i1 < 256 -> w2 < 256 -> w3 < 256 ->
  hdr_apply [p0; p1; p2; p3] (fields_of_octets [i0; i1; w2; w3]) = [i0; i1; w2; w3].
Proof. exact header_setters_layout. Qed.
Print Assumptions C02_header_setters_layout.

(* StreamTarget: message coordinates = inner buffer coordinates minus the prefix (T1). *)
Theorem C02_stream_coordinates : forall x (buf : bytes) len,
  length (be16 x) = N.to_nat stream_prefix_len /\
  skipn (N.to_nat stream_prefix_len) (be16 x ++ buf) = buf /\
  skipn (N.to_nat stream_prefix_len) (firstn (N.to_nat (len + stream_prefix_len)) (be16 x ++ buf)) = firstn (N.to_nat len) buf.
Proof. exact stream_coordinates. Qed.
Print Assumptions C02_stream_coordinates.

(* StaticCompressor::insert: at most 24 entries, positions below 0x4000 (T1). *)
Theorem C02_static_insert_bound : forall pos es es',
  (length es <= 24)%nat -> static_insert pos es = Some es' ->
  (length es' <= 24)%nat /\ pos < 16384 /\ es' = es ++ [pos].
Proof. exact static_insert_bound. Qed.
Print Assumptions C02_static_insert_bound.

(* OptBuilder::clone_from transcribed call by call (truncate back to the start
   of the record, then the source record's own compose: root owner name through
   the compressor, type, class, the 32 bit TTL word, length, option octets,
   and the closing length patch of AdditionalBuilder::opt) does to a push
   exactly what the setter closure with the same field values does: the same
   builder state and the same outcome, on every target and compressor. *)
Theorem C02_clone_from_push_is_setter_push : forall c s oh opts,
  BW c s -> mlen (opts_bytes opts) <= 65535 ->
  oh_udp oh < 65536 -> oh_ver oh < 256 -> oh_flags oh < 65536 ->
  mb_push c s (compose_opt_clone c oh opts) = mb_push c s (compose_opt c oh opts).
Proof. exact opt_push_eq. Qed.
Print Assumptions C02_clone_from_push_is_setter_push.

(* ... and, whatever the field values, it keeps the writer invariants: tables
   bounded by the buffer, stream length octets in step, old octets and old
   table entries untouched. *)
Theorem C02_clone_from_keeps_writer_invariants : forall c oh opts,
  WSpec c (compose_opt_clone c oh opts).
Proof. exact compose_opt_clone_spec. Qed.
Print Assumptions C02_clone_from_keeps_writer_invariants.

(* Typed record data, through the record-data schemas of C05: a value of any
   C05 schema (with or without a cross-field check: the checks do not look at
   name octets, post_check_fval_eq) pushed as a record - its compressible names through the
   compressor, its other names in full, every other field in its C05 wire
   form - on any target with any compressor, is read back by the record
   reader, and C05's own parse_rdata (with the message reader as name decoder)
   returns the same value from the octets in the message, names up to ASCII
   case.  The length prefix is patched in afterwards exactly when C05's rdlen
   answers None. *)
Theorem C02_schema_record_reread : forall c owner ty cls ttl s v w w',
  WG c ok12 w -> 12 <= mlen (w_buf w) ->
  C05.ProofsB.wf_schema_full s = true -> C05.Schema.wf_value s v = true ->
  name_ok owner -> ty < 65536 -> cls < 65536 -> ttl < 4294967296 ->
  compose_record c (schema_record owner ty cls ttl s v) w = WOk w' ->
  WG c ok12 w' /\
  exists r' e1 v',
    rd_record (w_buf w') (mlen (w_buf w)) (map shape_of (items_of (C05.Schema.s_fields s) v)) = Ok (r', mlen (w_buf w')) /\
    record_eqb r' (schema_record owner ty cls ttl s v) = true /\
    (exists n', decode_name (w_buf w') (mlen (w_buf w)) (mlen (w_buf w')) = Ok (n', e1) /\ name_eqb n' owner = true) /\
    C05.Schema.parse_rdata C05.Schema.pname_dec s (w_buf w') (e1 + 10) (mlen (w_buf w')) = Ok v' /\ Forall2 fval_eq v' v.
Proof. exact schema_record_reread_post. Qed.
Print Assumptions C02_schema_record_reread.

Theorem C02_schema_prefix_is_rdlen_none : forall c owner ty cls ttl s v,
  C05.Schema.wf_value s v = true ->
  uses_prefix c (schema_record owner ty cls ttl s v) =
  match C05.Schema.rdlen s (can_compress c) v with Ok None => true | _ => false end.
Proof. exact uses_prefix_is_rdlen_none. Qed.
Print Assumptions C02_schema_prefix_is_rdlen_none.

(* ... and such records are admissible operations of C02_build_parse_total. *)
Theorem C02_schema_record_admissible : forall owner ty cls ttl s v,
  C05.Schema.wf_value s v = true -> name_ok owner -> ty < 65536 -> cls < 65536 -> ttl < 4294967296 ->
  wf_op_sized (OpR (schema_record owner ty cls ttl s v)).
Proof. exact schema_record_wf_op. Qed.
Print Assumptions C02_schema_record_admissible.

(* The driver's entry point for typed records re-derives exactly the schema
   record (C05 parse after compose). *)
Theorem C02_typed_record_fixpoint : forall owner t cls ttl s v,
  C05.Model.schema_of t = Some s -> C05.Schema.wf_value s v = true ->
  c02_typed_record (schema_record owner t cls ttl s v) = (schema_record owner t cls ttl s v, true).
Proof. exact typed_record_fixpoint. Qed.
Print Assumptions C02_typed_record_fixpoint.

(* The hashbrown table behind HashCompressor: the entry hash and the query
   hash are hash_one((label, tail)) with Label::hash feeding the length and
   the lower-cased octets (T1: hash_key_anchored), so whatever entries
   HashTable::find probes - any capacity, after any number of growth rehashes,
   with any hasher keys H - as long as they are entries of the table and
   include every entry hashing like the query, the lookup returns what the
   model's walk over the insertion-ordered list returns, in every reachable
   state. *)
Theorem C02_hash_growth_unobservable : forall c ops s0 s a ws H l pos probe,
  init c = Some s0 -> Forall wf_op ops -> run_acc c s0 acc0 ops = (s, a, ws) -> all_alive ws ->
  probes H (w_buf (b_w s)) (mlen (w_buf (b_w s))) (w_hash (b_w s)) probe l pos ->
  hash_find (w_buf (b_w s)) (mlen (w_buf (b_w s))) probe l pos =
  hash_find (w_buf (b_w s)) (mlen (w_buf (b_w s))) (w_hash (b_w s)) l pos.
Proof. exact hash_growth_unobservable. Qed.
Print Assumptions C02_hash_growth_unobservable.

(* the chained-bucket instance: nb buckets, the bucket of the query's hash in any order *)
Theorem C02_hash_buckets_unobservable : forall c ops s0 s a ws H nb l pos bucket,
  init c = Some s0 -> Forall wf_op ops -> run_acc c s0 acc0 ops = (s, a, ws) -> all_alive ws ->
  (forall e, In e bucket <-> In e (w_hash (b_w s)) /\
             bucket_of H (w_buf (b_w s)) (mlen (w_buf (b_w s))) nb e = key_hash H l pos mod nb) ->
  hash_find (w_buf (b_w s)) (mlen (w_buf (b_w s))) bucket l pos =
  hash_find (w_buf (b_w s)) (mlen (w_buf (b_w s))) (w_hash (b_w s)) l pos.
Proof. exact hash_buckets_unobservable. Qed.
Print Assumptions C02_hash_buckets_unobservable.

Theorem C02_hash_key_anchored : hash_key_anchored = true.
Proof. reflexivity. Qed.
Print Assumptions C02_hash_key_anchored.

(* For import by other developments (Answer::to_message, copy_records, TSIG):
   questions, answers, authority and additional records pushed in this order
   through the builder's own section conversions, every push accepted: the
   message reads back as exactly these four lists (names up to ASCII case), on
   every target, with every compressor. *)
Theorem C02_pushes_reread : forall c qs an ns ar s0 s a ws,
  init c = Some s0 ->
  Forall wf_q qs -> Forall wf_r_sized an -> Forall wf_r_sized ns -> Forall wf_r_sized ar ->
  run_acc c s0 acc0 (ops_of_sections qs an ns ar) = (s, a, ws) ->
  Forall accepted ws ->
  a = mkAcc qs an ns ar /\
  exists a', rd_message (msg_of s) (mkAcc qs an ns ar) = Ok a' /\ acc_eqb a' (mkAcc qs an ns ar) = true.
Proof. exact pushes_reread. Qed.
Print Assumptions C02_pushes_reread.

(* Schemas without compressible names (IPSECKEY, the option rows, SRV, ...):
   the record data is in the message octet for octet, so every complete name
   decoder - the strict no-compression decoder of IPSECKEY included - reads
   the value back exactly, cross-field check included. *)
Theorem C02_schema_record_reread_flat : forall c owner ty cls ttl s v w w',
  WG c ok12 w -> 12 <= mlen (w_buf w) ->
  C05.ProofsB.wf_schema_full s = true -> C05.Schema.wf_value s v = true -> C05.Schema.has_compressible s = false ->
  name_ok owner -> ty < 65536 -> cls < 65536 -> ttl < 4294967296 ->
  compose_record c (schema_record owner ty cls ttl s v) w = WOk w' ->
  exists e1 pre,
    (exists n', decode_name (w_buf w') (mlen (w_buf w)) (mlen (w_buf w')) = Ok (n', e1) /\ name_eqb n' owner = true) /\
    w_buf w' = pre ++ C05.Schema.compose s v /\ len pre = e1 + 10 /\ mlen (w_buf w') = e1 + 10 + len (C05.Schema.compose s v) /\
    forall dec, C05.ProofsB.dec_complete dec -> C05.Schema.parse_rdata dec s (w_buf w') (e1 + 10) (mlen (w_buf w')) = Ok v.
Proof. exact schema_record_reread_flat. Qed.
Print Assumptions C02_schema_record_reread_flat.

(* IPSECKEY as the library parses it: the row is picked by the gateway type
   octet found in the message, the gateway name must be uncompressed. *)
Theorem C02_ipseckey_record_reread : forall c owner cls ttl g v w w',
  WG c ok12 w -> 12 <= mlen (w_buf w) -> g <= 3 ->
  C05.Schema.wf_value (C05.Model.ipseckey_schema g) v = true ->
  name_ok owner -> cls < 65536 -> ttl < 4294967296 ->
  compose_record c (schema_record owner 45 cls ttl (C05.Model.ipseckey_schema g) v) w = WOk w' ->
  exists e1, (exists n', decode_name (w_buf w') (mlen (w_buf w)) (mlen (w_buf w')) = Ok (n', e1) /\ name_eqb n' owner = true) /\
             C05.Model.ipseckey_parse (w_buf w') (e1 + 10) (mlen (w_buf w')) = Ok v.
Proof. exact ipseckey_record_reread. Qed.
Print Assumptions C02_ipseckey_record_reread.

(* Typed EDNS options, as rows of C05's option table (edns-client-subnet with
   its cross-field check included): an OPT record pushed with typed options
   (code, compose_len, composed data - OptBuilder::push), by the setter closure
   or by clone_from, is stored as the OPT record; C05's option iterator finds
   exactly these options in its record data, and C05's row for each code parses
   each option's data back to the value pushed. *)
Theorem C02_typed_options_reread : forall c oh l w w',
  WG c ok12 w -> 12 <= mlen (w_buf w) -> wf_oh oh -> Forall wf_typed l ->
  opt_writer c oh (typed_opts l) w = WOk w' ->
  WG c ok12 w' /\
  RAt (w_buf w') (mlen (w_buf w)) (opt_record oh (typed_opts l)) (mlen (w_buf w')) /\
  C05.OptModel.opt_iter (S (length l)) (w_buf w') (mlen (w_buf w) + 11) (mlen (w_buf w')) [] = Ok (map plain_of l) /\
  Forall (fun o => C05.Model.c05_optdata (fst o) (opt_data o) = Ok (snd o)) l.
Proof. exact typed_options_reread. Qed.
Print Assumptions C02_typed_options_reread.

Theorem C02_typed_option_fixpoint : forall o, wf_typed o -> c02_typed_option (raw_of_typed o) = (raw_of_typed o, true).
Proof. exact typed_option_fixpoint. Qed.
Print Assumptions C02_typed_option_fixpoint.

(* The counter ceiling: n root questions through the step model give what the
   driver's arithmetic path (c02_count) computes - the count saturates at
   count_max, push count_max + 1 and all later ones fail with CountOverflow
   and change nothing. *)
Theorem C02_count_run_is_arith : forall n s0 s a ws,
  init cfg_vec = Some s0 -> n <> O ->
  run_acc cfg_vec s0 acc0 (repeat (OpQ rootq) n) = (s, a, ws) ->
  c02_count (N.of_nat n) =
  (b_qd s, mlen (w_buf (b_w s)), match last ws RNone with RErr e => e =? E_COUNT | _ => false end).
Proof. exact count_run_is_arith. Qed.
Print Assumptions C02_count_run_is_arith.

(* The section-generic entry (trait RecordSectionBuilder) of every record
   section is that section's own push (T1 reads the three impl bodies), so the
   model's record push covers it; the harness routes half of all record pushes
   through the trait. *)
Theorem C02_section_trait_push_is_own_push : section_trait_push_is_own_push = true.
Proof. reflexivity. Qed.
Print Assumptions C02_section_trait_push_is_own_push.

(* HashCompressor over a hashbrown RawTable, from what the crate guarantees:
   buckets with control tags (TagsOK: the tag of a full bucket is the tag of
   its element's hash, the hash being |e| e.hash(message, hasher)), holding
   exactly the entries (TableOf), and a probe sequence that visits every full
   bucket whose element hashes like the query (ProbeVisits) - for any hasher H,
   any tag function, any bucket layout and probe order.  Then RawTable::find
   (raw_find: tag filter, then HashEntry::eq, first match) returns what the
   model's list walk returns, in every reachable state ... *)
Theorem C02_raw_find_reachable : forall c ops s0 s a ws H tagf slots order l pos,
  init c = Some s0 -> Forall wf_op ops -> run_acc c s0 acc0 ops = (s, a, ws) -> all_alive ws ->
  let m := w_buf (b_w s) in let ml := mlen (w_buf (b_w s)) in
  TableOf slots (w_hash (b_w s)) -> TagsOK H tagf m ml slots ->
  ProbeVisits H m ml slots order (key_hash H l pos) ->
  res_head (raw_find slots order (tagf (key_hash H l pos)) (eq_entry m ml l pos)) =
  hash_find m ml (w_hash (b_w s)) l pos.
Proof. exact raw_find_reachable. Qed.
Print Assumptions C02_raw_find_reachable.

(* ... and so does the whole right-to-left walk, hence append_compressed_name
   writes the same labels and the same pointer. *)
Theorem C02_raw_walk_reachable : forall c ops s0 s a ws H tagf slots order_of,
  init c = Some s0 -> Forall wf_op ops -> run_acc c s0 acc0 ops = (s, a, ws) -> all_alive ws ->
  let m := w_buf (b_w s) in let ml := mlen (w_buf (b_w s)) in
  TableOf slots (w_hash (b_w s)) -> TagsOK H tagf m ml slots ->
  (forall qh, ProbeVisits H m ml slots (order_of qh) qh) ->
  forall rl pos, raw_walk H tagf m ml slots order_of rl pos = hash_walk m ml (w_hash (b_w s)) rl pos.
Proof. exact raw_walk_reachable. Qed.
Print Assumptions C02_raw_walk_reachable.

Theorem C02_raw_acn_reachable : forall c ops s0 s a ws H tagf slots order_of n,
  init c = Some s0 -> Forall wf_op ops -> run_acc c s0 acc0 ops = (s, a, ws) -> all_alive ws ->
  let w := b_w s in
  TableOf slots (w_hash w) -> TagsOK H tagf (w_buf w) (mlen (w_buf w)) slots ->
  (forall qh, ProbeVisits H (w_buf w) (mlen (w_buf w)) slots (order_of qh) qh) ->
  hash_acn c n w =
  match raw_walk H tagf (w_buf w) (mlen (w_buf w)) slots order_of (rev n) hash_root_pos with
  | Ok (position, rest) =>
      wbind (hash_write c (rev rest) position w) (fun w1 =>
        if position =? hash_root_pos then write_root c w1 else write_ptr c hash_ptr_tag position w1)
  | Panic site => WPanic site
  | _ => WFuel
  end.
Proof. exact raw_acn_reachable. Qed.
Print Assumptions C02_raw_acn_reachable.

(* Round 5 widening.  The state theorems without the "no panic" premise: for
   well-formed operations with record data of at most 65535 octets no panic
   is reachable (C02_build_parse_total), so in every state such a sequence
   reaches the invariants hold, a failed push changes nothing and an accepted
   push ends below the push limit. *)
Theorem C02_reachable_tables_counts_shim_total : forall c ops s0 s a ws,
  init c = Some s0 -> Forall wf_op_sized ops -> run_acc c s0 acc0 ops = (s, a, ws) ->
  TBound (b_w s) /\ CountInv s a /\
  (t_stream c = true ->
     stream_of s = be16 (mlen (msg_of s)) ++ msg_of s /\ mlen (msg_of s) <= 65535).
Proof. exact reachable_inv_total. Qed.
Print Assumptions C02_reachable_tables_counts_shim_total.

Theorem C02_failed_push_unchanged_total : forall c ops s0 s a ws o s' e,
  init c = Some s0 -> Forall wf_op_sized ops -> run_acc c s0 acc0 ops = (s, a, ws) ->
  step c s o = (s', RErr e) -> s' = s.
Proof. exact failed_push_unchanged_total. Qed.
Print Assumptions C02_failed_push_unchanged_total.

Theorem C02_push_ok_below_limit_total : forall c ops s0 s a ws o s' l,
  init c = Some s0 -> Forall wf_op_sized ops -> run_acc c s0 acc0 ops = (s, a, ws) ->
  step c s o = (s', ROk) -> b_limit s = Some l -> mlen (w_buf (b_w s')) < l.
Proof. exact push_ok_below_limit_total. Qed.
Print Assumptions C02_push_ok_below_limit_total.

(* The same three in states reached through any mix of primitive and
   composite operations (conversions, builder(), start_answer / start_error /
   request_axfr): with a stream target the two length octets equal the
   message length there too. *)
Theorem C02_composite_tables_counts_shim : forall c xs s0 s a ws lost,
  init c = Some s0 -> Forall wf_xop xs -> xrun c s0 acc0 xs = (s, a, ws, lost) ->
  TBound (b_w s) /\ CountInv s a /\
  (t_stream c = true ->
     stream_of s = be16 (mlen (msg_of s)) ++ msg_of s /\ mlen (msg_of s) <= 65535).
Proof. exact xreachable_inv. Qed.
Print Assumptions C02_composite_tables_counts_shim.

Theorem C02_composite_failed_push_unchanged : forall c xs s0 s a ws lost o s' e,
  init c = Some s0 -> Forall wf_xop xs -> xrun c s0 acc0 xs = (s, a, ws, lost) ->
  step c s o = (s', RErr e) -> s' = s.
Proof. exact xfailed_push_unchanged. Qed.
Print Assumptions C02_composite_failed_push_unchanged.

Theorem C02_composite_push_ok_below_limit : forall c xs s0 s a ws lost o s' l,
  init c = Some s0 -> Forall wf_xop xs -> xrun c s0 acc0 xs = (s, a, ws, lost) ->
  step c s o = (s', ROk) -> b_limit s = Some l -> mlen (w_buf (b_w s')) < l.
Proof. exact xpush_ok_below_limit. Qed.
Print Assumptions C02_composite_push_ok_below_limit.

(* push = append: an accepted push leaves every octet written so far where it
   is and only appends (the counters are kept beside the buffer and overlaid
   by msg_of). *)
Theorem C02_push_ok_appends : forall c ops s0 s a ws o s',
  init c = Some s0 -> Forall wf_op_sized ops -> run_acc c s0 acc0 ops = (s, a, ws) ->
  step c s o = (s', ROk) -> exists sfx, w_buf (b_w s') = w_buf (b_w s) ++ sfx.
Proof. exact push_ok_appends. Qed.
Print Assumptions C02_push_ok_appends.

(* Header counts in the octets: octets 4..11 of the message (QDCOUNT, ANCOUNT,
   NSCOUNT, ARCOUNT, big endian) are the numbers of accepted pushes of the
   four sections, for primitive and for composite operation sequences. *)
Theorem C02_count_octets_are_accepted_pushes : forall c ops s0 s a ws,
  init c = Some s0 -> Forall wf_op_sized ops -> run_acc c s0 acc0 ops = (s, a, ws) ->
  firstn 8 (skipn 4 (msg_of s)) =
  be16 (N.of_nat (length (a_q a))) ++ be16 (N.of_nat (length (a_an a))) ++
  be16 (N.of_nat (length (a_ns a))) ++ be16 (N.of_nat (length (a_ar a))).
Proof. exact msg_counts_are_accepted. Qed.
Print Assumptions C02_count_octets_are_accepted_pushes.

Theorem C02_composite_count_octets_are_accepted_pushes : forall c xs s0 s a ws lost,
  init c = Some s0 -> Forall wf_xop xs -> xrun c s0 acc0 xs = (s, a, ws, lost) ->
  firstn 8 (skipn 4 (msg_of s)) =
  be16 (N.of_nat (length (a_q a))) ++ be16 (N.of_nat (length (a_an a))) ++
  be16 (N.of_nat (length (a_ns a))) ++ be16 (N.of_nat (length (a_ar a))).
Proof. exact xmsg_counts_are_accepted. Qed.
Print Assumptions C02_composite_count_octets_are_accepted_pushes.

(* non-vacuity: a reachable three-entry table in eight buckets with concrete
   hasher and tags meets all premises, and a.B is found through the buckets *)
Example C02_raw_table_nonvacuous :
  match ex_state with
  | Some (s, a, ws) =>
      w_buf (b_w s) = ex_m /\ w_hash (b_w s) = [(12, 14); (14, 65535); (21, 14)] /\
      TableOf ex_slots (w_hash (b_w s)) /\
      TagsOK ex_H ex_tagf ex_m (mlen ex_m) ex_slots /\
      (forall qh, ProbeVisits ex_H ex_m (mlen ex_m) ex_slots (seq 0 (length ex_slots)) qh) /\
      raw_walk ex_H ex_tagf ex_m (mlen ex_m) ex_slots (fun _ => seq 0 (length ex_slots)) (rev [[97]; [66]]) hash_root_pos = Ok (12, []) /\
      (ex_tg (12, 14), ex_tg (14, 65535), ex_tg (21, 14)) = (112, 98, 114)
  | None => False
  end.
Proof. exact raw_table_example. Qed.

(* non-vacuity of C02_typed_options_reread for the option rows the harness
   pushes raw (edns-client-subnet, Extended DNS Error, CHAIN, DAU, EXPIRE) *)
Example C02_typed_options_nonvacuous : Forall wf_typed ex_opts /\ ~ wf_typed (8, [C05.Schema.VNum 1; C05.Schema.VNum 23; C05.Schema.VNum 0; C05.Schema.VBytes [192; 0; 3]]).
Proof. split; [exact ex_opts_wf|exact ex_subnet_bad]. Qed.
