From Coq Require Import Extraction ExtrOcamlBasic NArith.
From DV Require Import Base.Outcome Base.Bytes Base.Names Base.PName C02.Gen C02.Model C02.SchemaModel.
Extraction Language OCaml.
Extraction "../build/ml/C02/model.ml" c02_run c02_xrun c02_msg c02_reread fields_of_octets sets_of_fields c02_typed_record c02_typed_option c02_count.
