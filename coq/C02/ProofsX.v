(* C02 proofs, part 13: the composite operations (conversions, builder(),
   start_answer / start_error / request_axfr) only ever perform sequences of
   primitive operations, so every state they reach is covered by the theorems
   over arbitrary primitive operation sequences. *)
From Coq Require Import NArith List Bool Lia ZArith.
From Coq Require Import ZifyN ZifyBool ZifyNat.
From DV Require Import Base.Outcome Base.Bytes Base.Names Base.PName C02.Gen C02.Model
  C02.ProofsBasic C02.ProofsClone C02.ProofsRun C02.ProofsName C02.ProofsComp C02.ProofsStatic C02.ProofsHash C02.ProofsTop
  C02.ProofsLayout C02.ProofsRead C02.ProofsWrite C02.ProofsBuild C02.ProofsTotal.
Import ListNotations.
Local Open Scope N_scope.

Lemma run_acc_app c l1 : forall s a l2,
  run_acc c s a (l1 ++ l2) =
  let '(s1, a1, w1) := run_acc c s a l1 in
  if existsb is_dead w1 then (s1, a1, w1)
  else let '(s2, a2, w2) := run_acc c s1 a1 l2 in (s2, a2, w1 ++ w2).
Proof.
  induction l1 as [|o r IH]; intros s a l2; cbn [app run_acc].
  - cbn [existsb]. destruct (run_acc c s a l2) as [[s2 a2] w2]. reflexivity.
  - destruct (step c s o) as [s1 w]. destruct (is_dead w) eqn:D.
    + cbn [existsb]. rewrite D. reflexivity.
    + rewrite IH. destruct (run_acc c s1 (acc_step (b_sec s) a o w) r) as [[s2 a2] w2].
      cbn [existsb]. rewrite D. cbn [orb].
      destruct (existsb is_dead w2); [reflexivity|].
      destruct (run_acc c s2 a2 l2) as [[s3 a3] w3]. reflexivity.
Qed.

Definition wf_xop (x : xop) : Prop :=
  match x with
  | XPrim o => wf_op_sized o
  | XStart _ _ _ _ _ qs => Forall wf_q qs
  | _ => True
  end.

Lemma Forall_repeat {A} (P : A -> Prop) x n : P x -> Forall P (repeat x n).
Proof. intros H. induction n; cbn [repeat]; constructor; auto. Qed.

Lemma wf_simple o : wf_op o -> (match o with OpR _ | OpOpt _ _ => False | _ => True end) -> wf_op_sized o.
Proof. intros H K. split; [exact H|]. destruct o; auto; contradiction. Qed.

Lemma conv_ops_wf sec k : Forall wf_op_sized (conv_ops sec k).
Proof. unfold conv_ops. destruct (sec <=? k); apply Forall_repeat; apply wf_simple; exact I. Qed.
Lemma builder_ops_wf sec : Forall wf_op_sized (builder_ops sec).
Proof.
  unfold builder_ops. apply Forall_app. split; [apply Forall_repeat; apply wf_simple; exact I|].
  constructor; [apply wf_simple; exact I|constructor].
Qed.

Lemma start_qs_wf c : forall qs s l e, Forall wf_q qs -> start_qs c s qs = (l, e) -> Forall wf_op_sized l.
Proof.
  induction qs as [|q r IH]; intros s l e Hwf H; cbn [start_qs] in H.
  - injection H as <- <-. constructor.
  - inversion Hwf as [|? ? Hq Hr]; subst.
    assert (Wq : wf_op_sized (OpQ q)) by (apply wf_simple; [exact Hq|exact I]).
    destruct (step c s (OpQ q)) as [s' w]. destruct w.
    + injection H as <- <-. constructor; [exact Wq|constructor].
    + destruct (start_qs c s' r) as [l' e'] eqn:E. injection H as <- <-. constructor; [exact Wq|eapply IH; eauto].
    + injection H as <- <-. constructor; [exact Wq|constructor].
    + injection H as <- <-. constructor; [exact Wq|constructor].
    + injection H as <- <-. constructor; [exact Wq|constructor].
Qed.

Lemma expand_wf c s x : wf_xop x -> Forall wf_op_sized (fst (expand c s x)).
Proof.
  destruct x as [o|k| |kind id opcode rd rcode qs]; cbn [wf_xop expand fst]; intros H.
  - constructor; [exact H|constructor].
  - apply conv_ops_wf.
  - apply builder_ops_wf.
  - set (sets := if kind =? 2 then _ else _).
    set (pre := builder_ops (b_sec s) ++ [OpHdr sets]).
    assert (Wpre : Forall wf_op_sized pre).
    { apply Forall_app. split; [apply builder_ops_wf|]. constructor; [apply wf_simple; exact I|constructor]. }
    set (qs' := if kind =? 2 then _ else qs).
    assert (Hq' : Forall wf_q qs').
    { subst qs'. destruct (kind =? 2); [|exact H]. constructor; [|constructor].
      split; [|cbn; lia]. destruct qs as [|q0 r0]; [exact name_ok_root|]. inversion H as [|? ? (Hn & _) _]. exact Hn. }
    destruct (start_qs c (fst (run c s pre)) qs') as [lq e] eqn:E.
    pose proof (start_qs_wf c qs' _ lq e Hq' E) as Wq.
    destruct e as [e|]; [destruct (kind =? 1)|]; cbn [fst].
    + apply Forall_app. split; [exact Wpre|]. apply Forall_app. split; [exact Wq|].
      constructor; [apply wf_simple; exact I|]. constructor; [apply wf_simple; exact I|constructor].
    + apply Forall_app. split; [exact Wpre|exact Wq].
    + apply Forall_app. split; [exact Wpre|]. apply Forall_app. split; [exact Wq|].
      constructor; [apply wf_simple; exact I|constructor].
Qed.

Lemma collapse_alive x ws : is_dead (collapse x ws) = false -> existsb is_dead ws = false.
Proof.
  unfold collapse. destruct (find is_dead ws) as [w|] eqn:F.
  - apply find_some in F as [_ D]. congruence.
  - intros _. destruct (existsb is_dead ws) eqn:E; [|reflexivity].
    apply existsb_exists in E as (w & Hin & D). pose proof (find_none _ _ F w Hin). congruence.
Qed.

(* what the composite operations reach, a sequence of primitive operations reaches *)
Theorem xrun_is_run c xs : forall s a s' a' ws lost,
  xrun c s a xs = (s', a', ws, lost) -> Forall wf_xop xs ->
  exists ops ws', run_acc c s a ops = (s', a', ws') /\ Forall wf_op_sized ops.
Proof.
  induction xs as [|x r IH]; intros s a s' a' ws lost H Hwf; cbn [xrun] in H.
  - injection H as <- <- <- <-. exists [], []. split; [reflexivity|constructor].
  - inversion Hwf as [|? ? Hx Hr]; subst.
    pose proof (expand_wf c s x Hx) as We.
    destruct (expand c s x) as [ops l0]. cbn [fst] in We.
    destruct (run_acc c s a ops) as [[s1 a1] ws1] eqn:E1.
    destruct (is_dead (collapse x ws1) || l0) eqn:D.
    + injection H as <- <- <- <-. exists ops, ws1. split; [exact E1|exact We].
    + apply orb_false_iff in D as [D _].
      destruct (xrun c s1 a1 r) as [[[s2 a2] ws2] l2] eqn:E2. injection H as <- <- <- <-.
      destruct (IH s1 a1 s2 a2 ws2 l2 E2 Hr) as (ops2 & ws2' & R2 & W2).
      exists (ops ++ ops2), (ws1 ++ ws2'). split; [|apply Forall_app; split; assumption].
      rewrite run_acc_app, E1, (collapse_alive _ _ D), R2. reflexivity.
Qed.

(* hence: whatever mix of pushes, conversions, rewinds, header setters, OPT
   records and start_answer / start_error / request_axfr calls built the
   message, no panic occurred and it reads back as the accepted pushes *)
Theorem xbuild_parse c xs s0 s a ws lost :
  init c = Some s0 -> Forall wf_xop xs -> xrun c s0 acc0 xs = (s, a, ws, lost) ->
  exists a', rd_message (msg_of s) a = Ok a' /\ acc_eqb a' a = true.
Proof.
  intros HI Hwf HR. destruct (xrun_is_run c xs s0 acc0 s a ws lost HR Hwf) as (ops & ws' & R & W).
  destruct (build_parse_total c ops s0 s a ws' HI W R) as (_ & X). exact X.
Qed.

(* non-vacuity: start_error with a question that does not fit sets SERVFAIL,
   keeps the first question and hands out the answer builder *)
Example start_error_example :
  let c := mkCfg (Some 38) false KStatic in
  let q1 := mkQ [[101;120]; [99;111;109]] 1 1 in
  let q2 := mkQ [[119;119;119]; [101;120]; [99;111;109]] 28 1 in
  match c02_xrun c [XPrim (OpHdr (sets_of_fields (fields_of_octets [0; 0; 4; 160]))); XStart 1 4660 2 true 3 [q1; q2; q1];
                    XPrim (OpR (mkR [[101;120]; [99;111;109]] 1 1 5 false [RBytes [1;2;3;4]]))] with
  | Some (s, a, ws, lost) =>
      ws = [RNone; RNone; RErr E_SHORTBUF] /\ lost = false /\ b_sec s = 1 /\ length (a_q a) = 2%nat /\
      firstn 4 (msg_of s) = [18; 52; 149; 162] /\ c02_reread s a = true
  | None => False
  end.
Proof. vm_compute. repeat split; reflexivity. Qed.
