(* C02 proofs, part 2: the invariants of part 1 hold in every state reached by
   an arbitrary operation sequence; header counts equal the numbers of
   accepted pushes; the stream length octets equal the message length. *)
From Coq Require Import NArith List Bool Lia ZArith.
From Coq Require Import ZifyN ZifyBool ZifyNat.
From DV Require Import Base.Outcome Base.Bytes Base.Names Base.PName C02.Gen C02.Model C02.ProofsBasic.
Import ListNotations.
Local Open Scope N_scope.
Ltac Zify.zify_post_hook ::= Z.div_mod_to_equations.

(* counts = numbers of accepted items; sections above the current one are empty *)
Definition CountInv (s : bstate) (a : acc) : Prop :=
  b_qd s = N.of_nat (length (a_q a)) /\ b_an s = N.of_nat (length (a_an a)) /\
  b_ns s = N.of_nat (length (a_ns a)) /\ b_ar s = N.of_nat (length (a_ar a)) /\
  (b_sec s < 1 -> a_an a = []) /\ (b_sec s < 2 -> a_ns a = []) /\ (b_sec s < 3 -> a_ar a = []).

Lemma sec_cases s : b_sec s <= 3 -> b_sec s = 0 \/ b_sec s = 1 \/ b_sec s = 2 \/ b_sec s = 3.
Proof. lia. Qed.

Lemma BW_push_ok c s w' :
  BW c s -> Ext c (mlen (w_buf (b_w s))) (b_w s) w' -> TBound w' -> SInv c w' ->
  BW c (set_count (set_w s w') (count_of s + 1)).
Proof.
  intros (TB & SI & L & R) E TB' SI'. apply BW_set_count.
  unfold BW, set_w; cbn [b_w b_sec b_s1 b_s2 b_s3].
  split; [exact TB'|]. split; [exact SI'|]. split; [|exact R].
  pose proof (Ext_mlen _ _ _ _ E). lia.
Qed.

Lemma app_length1 {A} (l : list A) x : N.of_nat (length (l ++ [x])) = N.of_nat (length l) + 1.
Proof. rewrite app_length. cbn [length]. lia. Qed.

Lemma CountInv_push_q s a w' q :
  b_sec s = 0 -> CountInv s a ->
  CountInv (set_count (set_w s w') (count_of s + 1)) (mkAcc (a_q a ++ [q]) (a_an a) (a_ns a) (a_ar a)).
Proof.
  intros E (c1 & c2 & c3 & c4 & e1 & e2 & e3).
  unfold set_count, count_of, set_w; cbn [b_sec]. rewrite E. cbn [N.eqb].
  unfold CountInv; cbn [b_qd b_an b_ns b_ar b_sec a_q a_an a_ns a_ar]. rewrite app_length1, ?E.
  rewrite E in e1, e2, e3. repeat split; auto; lia.
Qed.

Lemma CountInv_push_r s a w' r :
  b_sec s <= 3 -> b_sec s <> 0 -> CountInv s a ->
  CountInv (set_count (set_w s w') (count_of s + 1)) (acc_add_r a (b_sec s) r).
Proof.
  intros L N0 (c1 & c2 & c3 & c4 & e1 & e2 & e3).
  destruct (sec_cases s L) as [E|[E|[E|E]]]; [contradiction| | |];
    unfold set_count, count_of, set_w, acc_add_r; cbn [b_sec]; rewrite E; cbn [N.eqb Pos.eqb];
    unfold CountInv; cbn [b_qd b_an b_ns b_ar b_sec a_q a_an a_ns a_ar]; rewrite ?app_length1, ?E;
    repeat split; intros; auto; try lia; try (apply e1; lia); try (apply e2; lia); try (apply e3; lia).
Qed.

Lemma CountInv_clear s a w :
  b_sec s <= 3 -> CountInv s a ->
  CountInv (set_count (set_w s w) 0) (acc_clear_sec a (b_sec s)).
Proof.
  intros L (c1 & c2 & c3 & c4 & e1 & e2 & e3).
  destruct (sec_cases s L) as [E|[E|[E|E]]];
    unfold set_count, set_w, acc_clear_sec; cbn [b_sec]; rewrite E; cbn [N.eqb Pos.eqb];
    unfold CountInv; cbn [b_qd b_an b_ns b_ar b_sec a_q a_an a_ns a_ar length]; rewrite ?E;
    repeat split; intros; auto; try lia; try (apply e1; lia); try (apply e2; lia); try (apply e3; lia).
Qed.

Definition alive (r : rword) : Prop := is_dead r = false.

(* one operation preserves the invariants (unless it panics) *)
Lemma step_inv c s a o s' r :
  BW c s -> CountInv s a -> step c s o = (s', r) -> alive r ->
  BW c s' /\ CountInv s' (acc_step (b_sec s) a o r).
Proof.
  intros HB HC H AL. pose proof HB as (TB & SI & L12 & Lsec & R).
  destruct o as [q|rr|udp opts| | | |l]; cbn [step] in H.
  - destruct (N.eqb_spec (b_sec s) 0) as [E0|E0]; [|injection H as <- <-; split; auto].
    destruct (mb_push_cases c s (compose_question c q) HB (compose_question_spec c q))
      as [(w' & _ & E & X & TB' & SI' & _)|[(e' & E)|(x & E & D)]]; rewrite E in H; injection H as <- <-.
    + split; [apply BW_push_ok; auto|]. cbn [acc_step]. apply CountInv_push_q; auto.
    + split; auto.
    + unfold alive in AL. congruence.
  - destruct (N.eqb_spec (b_sec s) 0) as [E0|E0]; [injection H as <- <-; split; auto|].
    destruct (mb_push_cases c s (compose_record c rr) HB (compose_record_spec c rr))
      as [(w' & _ & E & X & TB' & SI' & _)|[(e' & E)|(x & E & D)]]; rewrite E in H; injection H as <- <-.
    + split; [apply BW_push_ok; auto|]. cbn [acc_step]. apply CountInv_push_r; auto.
    + split; auto.
    + unfold alive in AL. congruence.
  - destruct (N.eqb_spec (b_sec s) 3) as [E0|E0]; [|injection H as <- <-; split; auto].
    destruct (mb_push_cases c s (compose_opt c udp opts) HB (compose_opt_spec c udp opts))
      as [(w' & _ & E & X & TB' & SI' & _)|[(e' & E)|(x & E & D)]]; rewrite E in H; injection H as <- <-.
    + split; [apply BW_push_ok; auto|]. cbn [acc_step]. apply CountInv_push_r; auto. lia.
    + split; auto.
    + unfold alive in AL. congruence.
  - (* OpNext *)
    destruct (N.ltb_spec (b_sec s) 3) as [L3|L3]; injection H as <- <-; [|split; auto].
    cbn [acc_step]. destruct HC as (c1 & c2 & c3 & c4 & e1 & e2 & e3). destruct R as (r1 & r2 & r3).
    split.
    + unfold BW, set_sec, set_start.
      destruct (b_sec s + 1 =? 1); [|destruct (b_sec s + 1 =? 2)]; cbn [b_w b_sec b_s1 b_s2 b_s3];
        (split; [exact TB|split; [exact SI|]]); repeat split; try lia; auto.
    + unfold CountInv, set_sec, set_start.
      destruct (b_sec s + 1 =? 1); [|destruct (b_sec s + 1 =? 2)]; cbn [b_qd b_an b_ns b_ar b_sec];
        repeat split; intros; auto; try (apply e1; lia); try (apply e2; lia); try (apply e3; lia).
  - (* OpBack *)
    cbn [acc_step].
    destruct (N.eqb_spec (b_sec s) 0) as [E0|E0]; [injection H as <- <-; split; auto|].
    destruct (rewind_inv c s HB) as (w & _ & ER & HB' & _). rewrite ER in H. injection H as <- <-.
    cbn [acc_step].
    pose proof (CountInv_clear s a w Lsec HC) as HC'.
    set (s1 := set_count (set_w s w) 0) in *.
    assert (Es : b_sec s1 = b_sec s).
    { subst s1. unfold set_count, set_w; cbn [b_sec].
      destruct (b_sec s =? 0); [reflexivity|]. destruct (b_sec s =? 1); [reflexivity|]. destruct (b_sec s =? 2); reflexivity. }
    destruct HB' as (t1 & t2 & t3 & t4 & t5). destruct HC' as (c1 & c2 & c3 & c4 & e1 & e2 & e3).
    split.
    + unfold BW, set_sec; cbn [b_w b_sec b_s1 b_s2 b_s3].
      split; [exact t1|split; [exact t2|]]. repeat split; try tauto; lia.
    + unfold CountInv, set_sec; cbn [b_qd b_an b_ns b_ar b_sec]. rewrite Es in *.
      repeat split; auto; intros.
      * destruct (N.eq_dec (b_sec s) 1) as [K|K]; [|apply e1; lia].
        unfold acc_clear_sec. rewrite K. reflexivity.
      * destruct (N.eq_dec (b_sec s) 2) as [K|K]; [|apply e2; lia].
        unfold acc_clear_sec. rewrite K. reflexivity.
      * destruct (N.eq_dec (b_sec s) 3) as [K|K]; [|apply e3; lia].
        unfold acc_clear_sec. rewrite K. reflexivity.
  - (* OpRewind *)
    destruct (rewind_inv c s HB) as (w & _ & ER & HB' & _). rewrite ER in H. injection H as <- <-.
    cbn [acc_step]. split; [exact HB'|]. apply CountInv_clear; auto.
  - injection H as <- <-. split; [exact HB|exact HC].
Qed.

Lemma init_inv c s0 : init c = Some s0 -> BW c s0 /\ CountInv s0 acc0.
Proof.
  unfold init. intros H.
  destruct (append_slice c (repeat 0 (N.to_nat header_len)) empty_ws) as [w| | |] eqn:E; try discriminate.
  injection H as <-.
  assert (TB0 : TBound empty_ws) by (unfold TBound, empty_ws; cbn; auto).
  assert (SI0 : SInv c empty_ws) by (intros _; unfold empty_ws; cbn; split; [reflexivity|lia]).
  pose proof (append_slice_spec c (repeat 0 (N.to_nat header_len)) empty_ws TB0 SI0) as HS. rewrite E in HS.
  destruct HS as (_ & TB & SI). pose proof (append_slice_mlen _ _ _ _ E) as Lm.
  change (mlen (w_buf empty_ws)) with 0 in Lm. change (mlen (repeat 0 (N.to_nat header_len))) with 12 in Lm.
  split.
  - unfold BW; cbn [b_w b_sec b_s1 b_s2 b_s3]. unfold header_len.
    split; [exact TB|split; [exact SI|]]. repeat split; lia.
  - unfold CountInv, acc0; cbn. repeat split; auto.
Qed.

(* last word of a run *)
Definition all_alive (ws : list rword) : Prop := Forall alive ws.

Lemma run_acc_inv c ops : forall s a s' a' ws,
  BW c s -> CountInv s a -> run_acc c s a ops = (s', a', ws) -> all_alive ws ->
  BW c s' /\ CountInv s' a'.
Proof.
  induction ops as [|o r IH]; intros s a s' a' ws HB HC H AL; cbn [run_acc] in H.
  - injection H as <- <- <-. auto.
  - destruct (step c s o) as [s1 w] eqn:ES.
    destruct (is_dead w) eqn:D.
    + injection H as <- <- <-. inversion AL; subst. unfold alive in *. congruence.
    + destruct (run_acc c s1 (acc_step (b_sec s) a o w) r) as [[s2 a2] ws2] eqn:ER.
      injection H as <- <- <-. inversion AL; subst.
      destruct (step_inv c s a o s1 w HB HC ES D) as (HB1 & HC1).
      eapply IH; eauto.
Qed.

(* run and run_acc agree on states and words *)
Lemma run_acc_run c ops : forall s a,
  let '(s', _, ws) := run_acc c s a ops in run c s ops = (s', ws).
Proof.
  induction ops as [|o r IH]; intros s a; cbn [run_acc run]; [reflexivity|].
  destruct (step c s o) as [s1 w]. destruct (is_dead w); [reflexivity|].
  specialize (IH s1 (acc_step (b_sec s) a o w)).
  destruct (run_acc c s1 (acc_step (b_sec s) a o w) r) as [[s2 a2] ws2]. rewrite IH. reflexivity.
Qed.

(* ------------------------------------------------------------ statements *)

Lemma be16_mlen v : mlen (be16 v) = 2.
Proof. reflexivity. Qed.

Lemma msg_of_mlen s : 12 <= mlen (w_buf (b_w s)) -> mlen (msg_of s) = mlen (w_buf (b_w s)).
Proof.
  intros L. unfold msg_of. rewrite !mlen_app, !be16_mlen. unfold mlen in *.
  rewrite firstn_length, skipn_length. lia.
Qed.

(* every reachable state: tables inside the buffer and below 0x4000, stream
   length octets = message length <= 65535, counts = accepted pushes *)
Theorem reachable_inv c ops s0 s a ws :
  init c = Some s0 -> run_acc c s0 acc0 ops = (s, a, ws) -> all_alive ws ->
  TBound (b_w s) /\ CountInv s a /\
  (t_stream c = true ->
     stream_of s = be16 (mlen (msg_of s)) ++ msg_of s /\ mlen (msg_of s) <= 65535).
Proof.
  intros HI HR AL. destruct (init_inv c s0 HI) as (HB0 & HC0).
  destruct (run_acc_inv c ops s0 acc0 s a ws HB0 HC0 HR AL) as (HB & HC).
  destruct HB as (TB & SI & L & _). split; [exact TB|]. split; [exact HC|].
  intros St. destruct (SI St) as [Hs Hl]. rewrite (msg_of_mlen s L). unfold stream_of. rewrite Hs. split; [reflexivity|exact Hl].
Qed.

Theorem failed_push_unchanged c ops s0 s a ws o s' e :
  init c = Some s0 -> run_acc c s0 acc0 ops = (s, a, ws) -> all_alive ws ->
  step c s o = (s', RErr e) -> s' = s.
Proof.
  intros HI HR AL HS. destruct (init_inv c s0 HI) as (HB0 & HC0).
  destruct (run_acc_inv c ops s0 acc0 s a ws HB0 HC0 HR AL) as (HB & _).
  eapply step_err_unchanged; eauto.
Qed.

(* non-vacuity: a script with a failing push in the middle *)
Example run_example :
  let c := mkCfg (Some 64) false KStatic in
  let nm := [[119;119;119]; [97]] in
  exists s a, c02_run c [OpQ (mkQ nm 1 1); OpNext; OpR (mkR nm 1 1 5 false [RBytes [1;2;3;4]]);
                        OpR (mkR nm 16 1 5 false [RBytes (repeat 7 30)]); OpLimit (Some 45);
                        OpR (mkR [] 1 1 5 false [])]
              = Some (s, a, [ROk; RNone; ROk; RErr E_SHORTBUF; RNone; RErr E_LIMIT]) /\
             b_an s = 1 /\ length (a_an a) = 1%nat /\ w_static (b_w s) = [12; 16].
Proof. vm_compute. eexists; eexists; repeat split. Qed.
