(* C02 proofs, part 2: the invariants of part 1 hold in every state reached by
   an arbitrary operation sequence; header counts equal the numbers of
   accepted pushes; the stream length octets equal the message length. *)
From Coq Require Import NArith List Bool Lia ZArith.
From Coq Require Import ZifyN ZifyBool ZifyNat.
From DV Require Import Base.Outcome Base.Bytes Base.Names Base.PName C02.Gen C02.Model C02.ProofsBasic C02.ProofsClone.
Import ListNotations.
Local Open Scope N_scope.
Ltac Zify.zify_post_hook ::= Z.div_mod_to_equations.

(* counts = numbers of accepted items; sections above the current one are empty *)
Definition CountInv (s : bstate) (a : acc) : Prop :=
  b_qd s = N.of_nat (length (a_q a)) /\ b_an s = N.of_nat (length (a_an a)) /\
  b_ns s = N.of_nat (length (a_ns a)) /\ b_ar s = N.of_nat (length (a_ar a)) /\
  (b_sec s < 1 -> a_an a = []) /\ (b_sec s < 2 -> a_ns a = []) /\ (b_sec s < 3 -> a_ar a = []).

Lemma sec_cases s : b_sec s <= 3 -> b_sec s = 0 \/ b_sec s = 1 \/ b_sec s = 2 \/ b_sec s = 3.
Proof. lia. Qed.

Lemma BW_push_ok c s w' :
  BW c s -> Ext c (mlen (w_buf (b_w s))) (b_w s) w' -> TBound w' -> SInv c w' ->
  BW c (set_count (set_w s w') (count_of s + 1)).
Proof.
  intros (TB & SI & L & R) E TB' SI'. apply BW_set_count.
  unfold BW, set_w; cbn [b_w b_sec b_s1 b_s2 b_s3].
  split; [exact TB'|]. split; [exact SI'|]. split; [|exact R].
  pose proof (Ext_mlen _ _ _ _ E). lia.
Qed.

Lemma app_length1 {A} (l : list A) x : N.of_nat (length (l ++ [x])) = N.of_nat (length l) + 1.
Proof. rewrite app_length. cbn [length]. lia. Qed.

Lemma CountInv_push_q s a w' q :
  b_sec s = 0 -> CountInv s a ->
  CountInv (set_count (set_w s w') (count_of s + 1)) (mkAcc (a_q a ++ [q]) (a_an a) (a_ns a) (a_ar a)).
Proof.
  intros E (c1 & c2 & c3 & c4 & e1 & e2 & e3).
  unfold set_count, count_of, set_w; cbn [b_sec]. rewrite E. cbn [N.eqb].
  unfold CountInv; cbn [b_qd b_an b_ns b_ar b_sec a_q a_an a_ns a_ar]. rewrite app_length1, ?E.
  rewrite E in e1, e2, e3. repeat split; auto; lia.
Qed.

Lemma CountInv_push_r s a w' r :
  b_sec s <= 3 -> b_sec s <> 0 -> CountInv s a ->
  CountInv (set_count (set_w s w') (count_of s + 1)) (acc_add_r a (b_sec s) r).
Proof.
  intros L N0 (c1 & c2 & c3 & c4 & e1 & e2 & e3).
  destruct (sec_cases s L) as [E|[E|[E|E]]]; [contradiction| | |];
    unfold set_count, count_of, set_w, acc_add_r; cbn [b_sec]; rewrite E; cbn [N.eqb Pos.eqb];
    unfold CountInv; cbn [b_qd b_an b_ns b_ar b_sec a_q a_an a_ns a_ar]; rewrite ?app_length1, ?E;
    repeat split; intros; auto; try lia; try (apply e1; lia); try (apply e2; lia); try (apply e3; lia).
Qed.

Lemma CountInv_clear s a w :
  b_sec s <= 3 -> CountInv s a ->
  CountInv (set_count (set_w s w) 0) (acc_clear_sec a (b_sec s)).
Proof.
  intros L (c1 & c2 & c3 & c4 & e1 & e2 & e3).
  destruct (sec_cases s L) as [E|[E|[E|E]]];
    unfold set_count, set_w, acc_clear_sec; cbn [b_sec]; rewrite E; cbn [N.eqb Pos.eqb];
    unfold CountInv; cbn [b_qd b_an b_ns b_ar b_sec a_q a_an a_ns a_ar length]; rewrite ?E;
    repeat split; intros; auto; try lia; try (apply e1; lia); try (apply e2; lia); try (apply e3; lia).
Qed.

Definition alive (r : rword) : Prop := is_dead r = false.

Lemma BW_set_hdr c s h : BW c s -> BW c (set_hdr s h).
Proof. unfold BW, set_hdr; cbn [b_w b_sec b_s1 b_s2 b_s3]. auto. Qed.
Lemma CountInv_set_hdr s a h : CountInv s a -> CountInv (set_hdr s h) a.
Proof. unfold CountInv, set_hdr; cbn [b_qd b_an b_ns b_ar b_sec]. auto. Qed.

(* one operation preserves the invariants (unless it panics) *)
Lemma step_inv c s a o s' r :
  BW c s -> CountInv s a -> step c s o = (s', r) -> alive r ->
  BW c s' /\ CountInv s' (acc_step (b_sec s) a o r).
Proof.
  intros HB HC H AL. pose proof HB as (TB & SI & L12 & Lsec & R).
  unfold step in H. destruct o as [q|rr|oh opts| | | |l|h]; cbn [step_gen] in H.
  - destruct (N.eqb_spec (b_sec s) 0) as [E0|E0]; [|injection H as <- <-; split; auto].
    destruct (mb_push_cases c s (compose_question c q) HB (compose_question_spec c q))
      as [(w' & _ & E & X & TB' & SI' & _)|[(e' & E)|(x & E & D)]]; rewrite E in H; injection H as <- <-.
    + split; [apply BW_push_ok; auto|]. cbn [acc_step]. apply CountInv_push_q; auto.
    + split; auto.
    + unfold alive in AL. congruence.
  - destruct (N.eqb_spec (b_sec s) 0) as [E0|E0]; [injection H as <- <-; split; auto|].
    destruct (mb_push_cases c s (compose_record c rr) HB (compose_record_spec c rr))
      as [(w' & _ & E & X & TB' & SI' & _)|[(e' & E)|(x & E & D)]]; rewrite E in H; injection H as <- <-.
    + split; [apply BW_push_ok; auto|]. cbn [acc_step]. apply CountInv_push_r; auto.
    + split; auto.
    + unfold alive in AL. congruence.
  - destruct (N.eqb_spec (b_sec s) 3) as [E0|E0]; [|injection H as <- <-; split; auto].
    destruct (mb_push_cases c s (opt_writer c oh opts) HB (opt_writer_spec c oh opts))
      as [(w' & _ & E & X & TB' & SI' & _)|[(e' & E)|(x & E & D)]]; rewrite E in H; cbn [fst snd] in H; injection H as <- <-.
    + split; [apply BW_set_hdr; apply BW_push_ok; auto|]. cbn [acc_step]. apply CountInv_set_hdr. apply CountInv_push_r; auto. lia.
    + split; [apply BW_set_hdr; auto|apply CountInv_set_hdr; auto].
    + unfold alive in AL. congruence.
  - (* OpNext *)
    destruct (N.ltb_spec (b_sec s) 3) as [L3|L3]; injection H as <- <-; [|split; auto].
    cbn [acc_step]. destruct HC as (c1 & c2 & c3 & c4 & e1 & e2 & e3). destruct R as (r1 & r2 & r3).
    split.
    + unfold BW, set_sec, set_start.
      destruct (b_sec s + 1 =? 1); [|destruct (b_sec s + 1 =? 2)]; cbn [b_w b_sec b_s1 b_s2 b_s3];
        (split; [exact TB|split; [exact SI|]]); repeat split; try lia; auto.
    + unfold CountInv, set_sec, set_start.
      destruct (b_sec s + 1 =? 1); [|destruct (b_sec s + 1 =? 2)]; cbn [b_qd b_an b_ns b_ar b_sec];
        repeat split; intros; auto; try (apply e1; lia); try (apply e2; lia); try (apply e3; lia).
  - (* OpBack *)
    cbn [acc_step].
    destruct (N.eqb_spec (b_sec s) 0) as [E0|E0]; [injection H as <- <-; split; auto|].
    destruct (rewind_inv c s HB) as (w & _ & ER & HB' & _). rewrite ER in H. injection H as <- <-.
    cbn [acc_step].
    pose proof (CountInv_clear s a w Lsec HC) as HC'.
    set (s1 := set_count (set_w s w) 0) in *.
    assert (Es : b_sec s1 = b_sec s).
    { subst s1. unfold set_count, set_w; cbn [b_sec].
      destruct (b_sec s =? 0); [reflexivity|]. destruct (b_sec s =? 1); [reflexivity|]. destruct (b_sec s =? 2); reflexivity. }
    destruct HB' as (t1 & t2 & t3 & t4 & t5). destruct HC' as (c1 & c2 & c3 & c4 & e1 & e2 & e3).
    split.
    + unfold BW, set_sec; cbn [b_w b_sec b_s1 b_s2 b_s3].
      split; [exact t1|split; [exact t2|]]. repeat split; try tauto; lia.
    + unfold CountInv, set_sec; cbn [b_qd b_an b_ns b_ar b_sec]. rewrite Es in *.
      repeat split; auto; intros.
      * destruct (N.eq_dec (b_sec s) 1) as [K|K]; [|apply e1; lia].
        unfold acc_clear_sec. rewrite K. reflexivity.
      * destruct (N.eq_dec (b_sec s) 2) as [K|K]; [|apply e2; lia].
        unfold acc_clear_sec. rewrite K. reflexivity.
      * destruct (N.eq_dec (b_sec s) 3) as [K|K]; [|apply e3; lia].
        unfold acc_clear_sec. rewrite K. reflexivity.
  - (* OpRewind *)
    destruct (rewind_inv c s HB) as (w & _ & ER & HB' & _). rewrite ER in H. injection H as <- <-.
    cbn [acc_step]. split; [exact HB'|]. apply CountInv_clear; auto.
  - injection H as <- <-. split; [exact HB|exact HC].
  - injection H as <- <-. split; [apply BW_set_hdr; exact HB|apply CountInv_set_hdr; exact HC].
Qed.

Lemma init_inv c s0 : init c = Some s0 -> BW c s0 /\ CountInv s0 acc0.
Proof.
  unfold init. intros H.
  destruct (append_slice c (repeat 0 (N.to_nat header_len)) empty_ws) as [w| | |] eqn:E; try discriminate.
  injection H as <-.
  assert (TB0 : TBound empty_ws) by (unfold TBound, empty_ws; cbn; auto).
  assert (SI0 : SInv c empty_ws) by (intros _; unfold empty_ws; cbn; split; [reflexivity|lia]).
  pose proof (append_slice_spec c (repeat 0 (N.to_nat header_len)) empty_ws TB0 SI0) as HS. rewrite E in HS.
  destruct HS as (_ & TB & SI). pose proof (append_slice_mlen _ _ _ _ E) as Lm.
  change (mlen (w_buf empty_ws)) with 0 in Lm. change (mlen (repeat 0 (N.to_nat header_len))) with 12 in Lm.
  split.
  - unfold BW; cbn [b_w b_sec b_s1 b_s2 b_s3]. unfold header_len.
    split; [exact TB|split; [exact SI|]]. repeat split; lia.
  - unfold CountInv, acc0; cbn. repeat split; auto.
Qed.

(* last word of a run *)
Definition all_alive (ws : list rword) : Prop := Forall alive ws.

Lemma run_acc_inv c ops : forall s a s' a' ws,
  BW c s -> CountInv s a -> run_acc c s a ops = (s', a', ws) -> all_alive ws ->
  BW c s' /\ CountInv s' a'.
Proof.
  induction ops as [|o r IH]; intros s a s' a' ws HB HC H AL; cbn [run_acc] in H.
  - injection H as <- <- <-. auto.
  - destruct (step c s o) as [s1 w] eqn:ES.
    destruct (is_dead w) eqn:D.
    + injection H as <- <- <-. inversion AL; subst. unfold alive in *. congruence.
    + destruct (run_acc c s1 (acc_step (b_sec s) a o w) r) as [[s2 a2] ws2] eqn:ER.
      injection H as <- <- <-. inversion AL; subst.
      destruct (step_inv c s a o s1 w HB HC ES D) as (HB1 & HC1).
      eapply IH; eauto.
Qed.

(* run and run_acc agree on states and words *)
Lemma run_acc_run c ops : forall s a,
  let '(s', _, ws) := run_acc c s a ops in run c s ops = (s', ws).
Proof.
  induction ops as [|o r IH]; intros s a; cbn [run_acc run]; [reflexivity|].
  destruct (step c s o) as [s1 w]. destruct (is_dead w); [reflexivity|].
  specialize (IH s1 (acc_step (b_sec s) a o w)).
  destruct (run_acc c s1 (acc_step (b_sec s) a o w) r) as [[s2 a2] ws2]. rewrite IH. reflexivity.
Qed.

(* ------------------------------------------------------------ statements *)

Lemma be16_mlen v : mlen (be16 v) = 2.
Proof. reflexivity. Qed.

Lemma msg_of_mlen s : 12 <= mlen (w_buf (b_w s)) -> mlen (msg_of s) = mlen (w_buf (b_w s)).
Proof.
  intros L. unfold msg_of. rewrite !mlen_app, !be16_mlen. unfold mlen in *.
  rewrite firstn_length, skipn_length, app_length. cbn [length]. lia.
Qed.

(* every reachable state: tables inside the buffer and below 0x4000, stream
   length octets = message length <= 65535, counts = accepted pushes *)
Theorem reachable_inv c ops s0 s a ws :
  init c = Some s0 -> run_acc c s0 acc0 ops = (s, a, ws) -> all_alive ws ->
  TBound (b_w s) /\ CountInv s a /\
  (t_stream c = true ->
     stream_of s = be16 (mlen (msg_of s)) ++ msg_of s /\ mlen (msg_of s) <= 65535).
Proof.
  intros HI HR AL. destruct (init_inv c s0 HI) as (HB0 & HC0).
  destruct (run_acc_inv c ops s0 acc0 s a ws HB0 HC0 HR AL) as (HB & HC).
  destruct HB as (TB & SI & L & _). split; [exact TB|]. split; [exact HC|].
  intros St. destruct (SI St) as [Hs Hl]. rewrite (msg_of_mlen s L). unfold stream_of. rewrite Hs. split; [reflexivity|exact Hl].
Qed.

Theorem failed_push_unchanged c ops s0 s a ws o s' e :
  init c = Some s0 -> run_acc c s0 acc0 ops = (s, a, ws) -> all_alive ws ->
  step c s o = (s', RErr e) -> s' = s.
Proof.
  intros HI HR AL HS. destruct (init_inv c s0 HI) as (HB0 & HC0).
  destruct (run_acc_inv c ops s0 acc0 s a ws HB0 HC0 HR AL) as (HB & _).
  eapply step_err_unchanged; eauto.
Qed.

(* non-vacuity: a script with a failing push in the middle *)
Example run_example :
  let c := mkCfg (Some 64) false KStatic in
  let nm := [[119;119;119]; [97]] in
  exists s a, c02_run c [OpQ (mkQ nm 1 1); OpNext; OpR (mkR nm 1 1 5 false [RBytes [1;2;3;4]]);
                        OpR (mkR nm 16 1 5 false [RBytes (repeat 7 30)]); OpLimit (Some 45);
                        OpR (mkR [] 1 1 5 false [])]
              = Some (s, a, [ROk; RNone; ROk; RErr E_SHORTBUF; RNone; RErr E_LIMIT]) /\
             b_an s = 1 /\ length (a_an a) = 1%nat /\ w_static (b_w s) = [12; 16].
Proof. vm_compute. eexists; eexists; repeat split. Qed.

(* ------------------------------------------------------ section conversions *)

(* the accepted items after moving to another section: sections above it are empty *)
Definition acc_upto (a a' : acc) (k : N) : Prop :=
  a_q a' = a_q a /\ a_an a' = (if k <? 1 then [] else a_an a) /\
  a_ns a' = (if k <? 2 then [] else a_ns a) /\ a_ar a' = (if k <? 3 then [] else a_ar a).

Lemma run_next c : forall n s a s' a' ws,
  BW c s -> CountInv s a -> b_sec s + N.of_nat n <= 3 ->
  run_acc c s a (repeat OpNext n) = (s', a', ws) ->
  b_sec s' = b_sec s + N.of_nat n /\ Forall (fun w => w = RNone) ws /\ a' = a /\ b_w s' = b_w s.
Proof.
  induction n as [|n IH]; intros s a s' a' ws HB HC L H; cbn [repeat run_acc] in H.
  - injection H as <- <- <-. repeat split; auto. lia.
  - destruct (step c s OpNext) as [s1 w] eqn:ES.
    pose proof ES as ES'. unfold step in ES'. cbn [step_gen] in ES'.
    destruct (N.ltb_spec (b_sec s) 3) as [L3|L3]; [|lia]. injection ES' as <- <-.
    cbn [is_dead acc_step] in H.
    match type of H with context [run_acc c ?x a (repeat OpNext n)] => set (s1 := x) in * end.
    destruct (run_acc c s1 a (repeat OpNext n)) as [[s2 a2] ws2] eqn:ER. injection H as <- <- <-.
    destruct (step_inv c s a OpNext s1 RNone HB HC ES eq_refl) as (HB1 & HC1). cbn [acc_step] in HC1.
    assert (E1 : b_sec s1 = b_sec s + 1 /\ b_w s1 = b_w s).
    { subst s1. unfold set_sec, set_start. destruct (b_sec s + 1 =? 1); [|destruct (b_sec s + 1 =? 2)]; cbn; auto. }
    destruct E1 as (E1 & E2).
    destruct (IH s1 a s2 a2 ws2 HB1 HC1 ltac:(lia) ER) as (A & B & C & D).
    split; [lia|]. split; [constructor; auto|]. split; [exact C|congruence].
Qed.

Lemma run_back c : forall n s a s' a' ws,
  BW c s -> CountInv s a -> N.of_nat n <= b_sec s ->
  run_acc c s a (repeat OpBack n) = (s', a', ws) ->
  b_sec s' = b_sec s - N.of_nat n /\ Forall (fun w => w = RNone) ws /\
  BW c s' /\ CountInv s' a' /\ acc_upto a a' (b_sec s').
Proof.
  induction n as [|n IH]; intros s a s' a' ws HB HC L H; cbn [repeat run_acc] in H.
  - injection H as <- <- <-. split; [lia|]. split; [constructor|]. split; [exact HB|]. split; [exact HC|].
    destruct HC as (_ & _ & _ & _ & e1 & e2 & e3). unfold acc_upto.
    split; [reflexivity|]. split; [destruct (N.ltb_spec (b_sec s) 1); auto|].
    split; [destruct (N.ltb_spec (b_sec s) 2); auto|destruct (N.ltb_spec (b_sec s) 3); auto].
  - destruct (step c s OpBack) as [s1 w] eqn:ES.
    pose proof ES as ES'. unfold step in ES'. cbn [step_gen] in ES'.
    destruct (N.eqb_spec (b_sec s) 0) as [E0|E0]; [lia|].
    destruct (rewind_inv c s HB) as (w0 & _ & ERw & _). rewrite ERw in ES'. injection ES' as <- <-.
    cbn [is_dead] in H.
    match type of H with context [run_acc c ?x ?y (repeat OpBack n)] => set (s1 := x) in *; set (a1 := y) in * end.
    destruct (run_acc c s1 a1 (repeat OpBack n)) as [[s2 a2] ws2] eqn:ER. injection H as <- <- <-.
    destruct (step_inv c s a OpBack s1 RNone HB HC ES eq_refl) as (HB1 & HC1). fold a1 in HC1.
    assert (E1 : b_sec s1 = b_sec s - 1) by (subst s1; reflexivity).
    destruct (IH s1 a1 s2 a2 ws2 HB1 HC1 ltac:(lia) ER) as (A & B & C & D & (u0 & u1 & u2 & u3)).
    split; [lia|]. split; [constructor; auto|]. split; [exact C|]. split; [exact D|].
    assert (K : b_sec s2 < b_sec s) by lia.
    subst a1. cbn [acc_step] in u0, u1, u2, u3. destruct (N.eqb_spec (b_sec s) 0); [lia|].
    unfold acc_clear_sec in u0, u1, u2, u3. cbn [a_q a_an a_ns a_ar] in u0, u1, u2, u3.
    destruct (N.eqb_spec (b_sec s) 0); [lia|].
    unfold acc_upto. split; [exact u0|].
    split; [rewrite u1; destruct (N.ltb_spec (b_sec s2) 1); [reflexivity|destruct (N.eqb_spec (b_sec s) 1); [lia|reflexivity]]|].
    split; [rewrite u2; destruct (N.ltb_spec (b_sec s2) 2); [reflexivity|destruct (N.eqb_spec (b_sec s) 2); [lia|reflexivity]]|].
    rewrite u3; destruct (N.ltb_spec (b_sec s2) 3); [reflexivity|destruct (N.eqb_spec (b_sec s) 3); [lia|reflexivity]].
Qed.

(* every conversion, from every section to every section, ends in the wanted
   section, answers nothing but "-", keeps the accepted items (and hence the
   counters, CountInv) of the sections up to the destination and empties
   (zeroes) exactly the ones above it *)
Theorem conv_counts c s a k s' a' ws :
  BW c s -> CountInv s a -> k <= 3 ->
  run_acc c s a (conv_ops (b_sec s) k) = (s', a', ws) ->
  b_sec s' = k /\ Forall (fun w => w = RNone) ws /\ CountInv s' a' /\ acc_upto a a' k.
Proof.
  intros HB HC Lk H. pose proof HB as (_ & _ & _ & Ls & _). unfold conv_ops in H.
  destruct (N.leb_spec (b_sec s) k) as [L|L].
  - destruct (run_next c (N.to_nat (k - b_sec s)) s a s' a' ws HB HC ltac:(lia) H) as (A & B & Ea & D).
    split; [lia|]. split; [exact B|].
    assert (HC' : CountInv s' a').
    { eapply (run_acc_inv c _ s a s' a' ws HB HC H). eapply Forall_impl; [|exact B]. intros w ->. reflexivity. }
    split; [exact HC'|]. subst a'. destruct HC as (_ & _ & _ & _ & e1 & e2 & e3). unfold acc_upto.
    split; [reflexivity|]. split; [destruct (N.ltb_spec k 1); auto; apply e1; lia|].
    split; [destruct (N.ltb_spec k 2); auto; apply e2; lia|destruct (N.ltb_spec k 3); auto; apply e3; lia].
  - destruct (run_back c (N.to_nat (b_sec s - k)) s a s' a' ws HB HC ltac:(lia) H) as (A & B & _ & D & U).
    assert (E : b_sec s' = k) by lia. rewrite E in U. auto.
Qed.
