(* C02 proofs, part 11: the layout invariant holds in every state an
   arbitrary operation sequence reaches; hence reading the built message back
   yields exactly the accepted pushes. *)
From Coq Require Import NArith List Bool Lia ZArith.
From Coq Require Import ZifyN ZifyBool ZifyNat.
From DV Require Import Base.Outcome Base.Bytes Base.Names Base.PName C02.Gen C02.Model
  C02.ProofsBasic C02.ProofsClone C02.ProofsRun C02.ProofsName C02.ProofsComp C02.ProofsStatic C02.ProofsHash C02.ProofsTop
  C02.ProofsLayout C02.ProofsRead C02.ProofsWrite.
Import ListNotations.
Local Open Scope N_scope.
Ltac Zify.zify_post_hook ::= Z.div_mod_to_equations.

(* ---------------------------------------------------- entries below a boundary *)

(* the table entries below boundary b are described by octets below b alone *)
Definition CUpTo (b : N) (w : ws) : Prop :=
  Forall (fun v => v < b -> StaticOK (w_buf w) (okb b) v) (w_static w) /\
  Forall (fun kv => snd kv < b -> TreeOK (w_buf w) (okb b) (fst kv) (snd kv)) (w_tree w) /\
  Forall (fun e => fst e < b -> HashOK (w_buf w) (okb b) (fst e) (snd e)) (w_hash w).

Lemma CUpTo_of_CInv w : CInv ok12 w -> CUpTo (mlen (w_buf w)) w.
Proof.
  intros CI. apply CInv_below in CI.
  apply (CInv_weaken _ (okb (mlen (w_buf w)))) in CI; [|unfold okb, ok12; cbv beta; tauto].
  destruct CI as (A & B & C & _). split; [|split]; (eapply Forall_weaken; [|eassumption]); cbv beta; auto.
Qed.

Lemma StaticOK_agree m m' (ok : N -> Prop) v : agree_on ok m m' -> StaticOK m ok v -> StaticOK m' ok v.
Proof. intros A (l & ls & e & H). exists l, ls, e. eapply LabelAt_agree; eauto. Qed.
Lemma TreeOK_agree m m' (ok : N -> Prop) k v : agree_on ok m m' -> TreeOK m ok k v -> TreeOK m' ok k v.
Proof. intros A (l & ls & e & K & H). exists l, ls, e. split; [exact K|eapply LabelAt_agree; eauto]. Qed.
Lemma HashOK_agree m m' (ok : N -> Prop) h t : agree_on ok m m' -> HashOK m ok h t -> HashOK m' ok h t.
Proof.
  intros A (l & ls & e & H & T). exists l, ls, e. split; [eapply LabelAt_agree; eauto|].
  destruct T as [T|(T1 & seg & e' & T2)]; [left; exact T|right]. split; auto. exists seg, e'. eapply NameIn_agree; eauto.
Qed.

(* a write that started at p >= b does not disturb what lies below b *)
Lemma CUpTo_ext c b p w w' : Ext c p w w' -> b <= p -> CUpTo b w -> CUpTo b w'.
Proof.
  intros [[sfx B] [ns [S FS]] [nt [T FT]] [nh [H FH]] _] Hb (A1 & A2 & A3).
  assert (Ag : agree_on (okb b) (w_buf w) (w_buf w')) by (rewrite B; apply agree_on_app).
  unfold CUpTo. rewrite S, T, H. split; [|split].
  - apply Forall_app. split.
    + eapply Forall_weaken; [|exact A1]. cbv beta. intros v Hv L. eapply StaticOK_agree; eauto.
    + eapply Forall_weaken; [|exact FS]. cbv beta. intros v Hv L. lia.
  - apply Forall_app. split.
    + eapply Forall_weaken; [|exact FT]. cbv beta. intros v Hv L. lia.
    + eapply Forall_weaken; [|exact A2]. cbv beta. intros v Hv L. eapply TreeOK_agree; eauto.
  - apply Forall_app. split.
    + eapply Forall_weaken; [|exact A3]. cbv beta. intros v Hv L. eapply HashOK_agree; eauto.
    + eapply Forall_weaken; [|exact FH]. cbv beta. intros v Hv L. lia.
Qed.

Lemma take_while_incl f l : incl (take_while f l) l.
Proof.
  induction l as [|x l IH]; cbn [take_while]; [apply incl_refl|].
  destruct (f x); [|apply incl_nil_l]. apply incl_cons; [left; reflexivity|apply incl_tl; exact IH].
Qed.

Lemma truncate_sub c len w w' : truncate c len w = WOk w' ->
  w_buf w' = firstn (N.to_nat len) (w_buf w) /\ incl (w_static w') (w_static w) /\
  incl (w_tree w') (w_tree w) /\ incl (w_hash w') (w_hash w).
Proof.
  unfold truncate. intros H.
  assert (X : forall x, w_static x = w_static w -> w_tree x = w_tree w -> w_hash x = w_hash w ->
              w_buf (trunc_tables len x) = w_buf x /\ incl (w_static (trunc_tables len x)) (w_static w) /\
              incl (w_tree (trunc_tables len x)) (w_tree w) /\ incl (w_hash (trunc_tables len x)) (w_hash w)).
  { intros x E1 E2 E3. unfold trunc_tables, set_static, set_tree, set_hash.
    destruct (len <? static_trunc_guard); destruct (len <? tree_trunc_guard); destruct (len <? hash_trunc_guard);
      cbn [w_buf w_static w_tree w_hash]; rewrite ?E1, ?E2, ?E3;
      repeat split; try apply incl_refl; try apply take_while_incl; try apply incl_filter. }
  destruct (t_stream c).
  - destruct (_ <=? shim_max); [|discriminate]. injection H as <-.
    destruct (X (set_shim (set_buf w (firstn (N.to_nat len) (w_buf w))) (mlen (firstn (N.to_nat len) (w_buf w))))) as (A & B); try reflexivity.
    split; [rewrite A; reflexivity|exact B].
  - injection H as <-. destruct (X (set_buf w (firstn (N.to_nat len) (w_buf w)))) as (A & B); try reflexivity.
    split; [rewrite A; reflexivity|exact B].
Qed.

Lemma agree_on_firstn b len m : b <= len -> agree_on (okb b) m (firstn (N.to_nat len) m).
Proof.
  intros L i v [_ Hi] H. pose proof (get_some_lt _ _ _ H) as Hl.
  rewrite <- (firstn_skipn (N.to_nat len) m) in H. rewrite get_app_l in H; [exact H|].
  unfold mlen in *. rewrite firstn_length. lia.
Qed.

Lemma Forall_incl {A} (P : A -> Prop) l l' : incl l' l -> Forall P l -> Forall P l'.
Proof. intros I F. rewrite Forall_forall in *. intros x Hx. apply F, I, Hx. Qed.

Lemma CUpTo_trunc c b len w w' : truncate c len w = WOk w' -> b <= len -> CUpTo b w -> CUpTo b w'.
Proof.
  intros H L (A1 & A2 & A3). apply truncate_sub in H as (B & I1 & I2 & I3).
  assert (Ag : agree_on (okb b) (w_buf w) (w_buf w')) by (rewrite B; apply agree_on_firstn; exact L).
  split; [|split].
  - apply (Forall_incl _ _ _ I1). eapply Forall_weaken; [|exact A1]. cbv beta. intros v Hv Lv. eapply StaticOK_agree; eauto.
  - apply (Forall_incl _ _ _ I2). eapply Forall_weaken; [|exact A2]. cbv beta. intros v Hv Lv. eapply TreeOK_agree; eauto.
  - apply (Forall_incl _ _ _ I3). eapply Forall_weaken; [|exact A3]. cbv beta. intros v Hv Lv. eapply HashOK_agree; eauto.
Qed.

(* after truncating to a boundary the plain invariant holds again *)
Lemma CInv_of_CUpTo b w : CUpTo b w -> TBound w -> mlen (w_buf w) <= b -> HU (w_buf w) (w_hash w) -> CInv ok12 w.
Proof.
  intros (A1 & A2 & A3) (T1 & T2 & T3) L U.
  assert (W : forall i, okb b i -> ok12 i) by (unfold okb, ok12; intros; lia).
  split; [|split; [|split; [|exact U]]]; rewrite Forall_forall in *.
  - intros v Hv. specialize (A1 v Hv). specialize (T1 v Hv). destruct (A1 ltac:(lia)) as (l & ls & e & H).
    exists l, ls, e. eapply LabelAt_weaken; eauto.
  - intros kv Hv. specialize (A2 kv Hv). specialize (T2 kv Hv). destruct (A2 ltac:(lia)) as (l & ls & e & K & H).
    exists l, ls, e. split; [exact K|eapply LabelAt_weaken; eauto].
  - intros x Hv. specialize (A3 x Hv). specialize (T3 x Hv). destruct (A3 ltac:(lia)) as (l & ls & e & H & T).
    exists l, ls, e. split; [eapply LabelAt_weaken; eauto|].
    destruct T as [T|(Tn & seg & e' & T')]; [left; exact T|right]. split; auto. exists seg, e'. eapply NameIn_weaken; eauto.
Qed.

(* ------------------------------------------------------------ the invariant *)

Definition buf_of (s : bstate) : bytes := w_buf (b_w s).

Definition Sections (s : bstate) (a : acc) : Prop :=
  exists e0 e1 e2,
    QsAt (buf_of s) 12 (a_q a) e0 /\ RsAt (buf_of s) e0 (a_an a) e1 /\
    RsAt (buf_of s) e1 (a_ns a) e2 /\ RsAt (buf_of s) e2 (a_ar a) (mlen (buf_of s)) /\
    (1 <= b_sec s -> b_s1 s = e0) /\ (2 <= b_sec s -> b_s2 s = e1) /\ (3 <= b_sec s -> b_s3 s = e2).

Definition StartsIn (s : bstate) (bs : list N) : Prop :=
  In 12 bs /\ (1 <= b_sec s -> In (b_s1 s) bs) /\ (2 <= b_sec s -> In (b_s2 s) bs) /\
  (3 <= b_sec s -> In (b_s3 s) bs) /\ In (mlen (buf_of s)) bs.

Definition CMax (s : bstate) : Prop := b_qd s <= 65535 /\ b_an s <= 65535 /\ b_ns s <= 65535 /\ b_ar s <= 65535.

Definition Layout (s : bstate) (a : acc) (bs : list N) : Prop :=
  Sections s a /\ CInv ok12 (b_w s) /\
  Forall (fun b => 12 <= b <= mlen (buf_of s) /\ CUpTo b (b_w s)) bs /\
  StartsIn s bs /\ CMax s.

Definition wf_op (o : op) : Prop :=
  match o with
  | OpQ q => wf_q q
  | OpR r => wf_r r
  | OpOpt oh _ => wf_oh oh
  | _ => True
  end.

Lemma upd_proj s w v :
  b_w (set_count (set_w s w) v) = w /\ b_sec (set_count (set_w s w) v) = b_sec s /\
  b_s1 (set_count (set_w s w) v) = b_s1 s /\ b_s2 (set_count (set_w s w) v) = b_s2 s /\
  b_s3 (set_count (set_w s w) v) = b_s3 s.
Proof.
  unfold set_count, set_w; cbn [b_sec].
  destruct (b_sec s =? 0); [|destruct (b_sec s =? 1); [|destruct (b_sec s =? 2)]]; cbn; auto.
Qed.

Lemma CMax_set_count s w v : CMax s -> v <= 65535 -> CMax (set_count (set_w s w) v).
Proof.
  intros (A & B & C & D) L. unfold CMax, set_count, set_w; cbn [b_sec].
  destruct (b_sec s =? 0); [|destruct (b_sec s =? 1); [|destruct (b_sec s =? 2)]]; cbn; auto.
Qed.

Lemma Sections_ext s a (s' : bstate) :
  b_sec s' = b_sec s -> b_s1 s' = b_s1 s -> b_s2 s' = b_s2 s -> b_s3 s' = b_s3 s -> buf_of s' = buf_of s ->
  Sections s a -> Sections s' a.
Proof.
  intros E0 E1 E2 E3 Eb (e0 & e1 & e2 & H). exists e0, e1, e2. rewrite Eb, E0, E1, E2, E3. exact H.
Qed.

(* bookkeeping common to all successful pushes *)
Lemma Layout_after_push c s a bs w' a' :
  BW c s -> Layout s a bs -> Ext c (mlen (buf_of s)) (b_w s) w' -> CInv ok12 w' ->
  count_of s < count_max ->
  Sections (set_count (set_w s w') (count_of s + 1)) a' ->
  Layout (set_count (set_w s w') (count_of s + 1)) a' (mlen (w_buf w') :: bs).
Proof.
  intros HB (HS & HC & HF & (I12 & I1 & I2 & I3 & Im) & HM) E CI Lc HS'.
  destruct (upd_proj s w' (count_of s + 1)) as (P0 & P1 & P2 & P3 & P4).
  pose proof (Ext_mlen _ _ _ _ E) as Lm. destruct HB as (_ & _ & L12 & _).
  unfold Layout, StartsIn, buf_of. rewrite P0, P1, P2, P3, P4.
  split; [exact HS'|]. split; [exact CI|]. split; [|split].
  - constructor.
    + split; [fold (buf_of s) in *; unfold buf_of in *; lia|apply CUpTo_of_CInv; exact CI].
    + eapply Forall_weaken; [|exact HF]. cbv beta. intros b [[Lb1 Lb2] Cb]. unfold buf_of in *.
      split; [lia|]. eapply CUpTo_ext; eauto.
  - split; [right; exact I12|]. split; [intros; right; auto|]. split; [intros; right; auto|].
    split; [intros; right; auto|left; reflexivity].
  - apply CMax_set_count; auto. unfold count_max in Lc. lia.
Qed.

Lemma agree_buf_ext c p w w' e : Ext c p w w' -> agree_on (okb e) (w_buf w) (w_buf w').
Proof. intros [[sfx B] _ _ _ _]. rewrite B. apply agree_on_app. Qed.

Lemma Layout_push_q c s a bs w' q :
  BW c s -> CountInv s a -> Layout s a bs -> b_sec s = 0 ->
  Ext c (mlen (buf_of s)) (b_w s) w' -> CInv ok12 w' -> count_of s < count_max ->
  QAt (w_buf w') (mlen (buf_of s)) q (mlen (w_buf w')) ->
  Layout (set_count (set_w s w') (count_of s + 1)) (mkAcc (a_q a ++ [q]) (a_an a) (a_ns a) (a_ar a)) (mlen (w_buf w') :: bs).
Proof.
  intros HB HCt HL E0 E CI Lc HQ. eapply Layout_after_push; eauto.
  destruct HL as ((e0 & e1 & e2 & Q0 & R1 & R2 & R3 & _) & _).
  destruct HCt as (_ & _ & _ & _ & z1 & z2 & z3). rewrite E0 in z1, z2, z3.
  rewrite (z1 ltac:(lia)) in *. rewrite (z2 ltac:(lia)) in *. rewrite (z3 ltac:(lia)) in *.
  apply RsAt_nil_inv in R1, R2, R3. subst e1 e2.
  destruct (upd_proj s w' (count_of s + 1)) as (P0 & P1 & P2 & P3 & P4).
  pose proof (Ext_mlen _ _ _ _ E) as Lm. unfold buf_of in *.
  exists (mlen (w_buf w')), (mlen (w_buf w')), (mlen (w_buf w')). unfold buf_of. rewrite P0, P1, E0. cbn [a_q a_an a_ns a_ar].
  split.
  - rewrite <- R3 in Q0. eapply QsAt_snoc; [|exact HQ]. eapply QsAt_agree; [eapply agree_buf_ext; eauto|lia|exact Q0].
  - repeat split; try constructor; intros; lia.
Qed.

Lemma Layout_push_r c s a bs w' r :
  BW c s -> CountInv s a -> Layout s a bs -> b_sec s <> 0 ->
  Ext c (mlen (buf_of s)) (b_w s) w' -> CInv ok12 w' -> count_of s < count_max ->
  RAt (w_buf w') (mlen (buf_of s)) r (mlen (w_buf w')) ->
  Layout (set_count (set_w s w') (count_of s + 1)) (acc_add_r a (b_sec s) r) (mlen (w_buf w') :: bs).
Proof.
  intros HB HCt HL E0 E CI Lc HR. eapply Layout_after_push; eauto.
  destruct HL as ((e0 & e1 & e2 & Q0 & R1 & R2 & R3 & S1 & S2 & S3) & _).
  destruct HCt as (_ & _ & _ & _ & z1 & z2 & z3).
  destruct (upd_proj s w' (count_of s + 1)) as (P0 & P1 & P2 & P3 & P4).
  pose proof (Ext_mlen _ _ _ _ E) as Lm. pose proof HB as (_ & _ & _ & Ls & _). unfold buf_of in *.
  pose proof (agree_buf_ext c _ _ _ e0 E) as Ag0. pose proof (agree_buf_ext c _ _ _ e1 E) as Ag1.
  pose proof (agree_buf_ext c _ _ _ e2 E) as Ag2.
  pose proof (QsAt_end _ _ _ _ Q0) as [q1 _]. pose proof (RsAt_end _ _ _ _ R1) as [r1 _].
  pose proof (RsAt_end _ _ _ _ R2) as [r2 _]. pose proof (RsAt_end _ _ _ _ R3) as [r3 _].
  set (e' := mlen (w_buf w')) in *.
  assert (Hc : b_sec s = 1 \/ b_sec s = 2 \/ b_sec s = 3) by lia.
  unfold Sections, buf_of. rewrite P0, P1, P2, P3, P4. unfold acc_add_r.
  destruct Hc as [K|[K|K]]; rewrite K in *; cbn [N.eqb Pos.eqb a_q a_an a_ns a_ar].
  - rewrite (z2 ltac:(lia)) in *. rewrite (z3 ltac:(lia)) in *. apply RsAt_nil_inv in R2, R3.
    assert (Em : mlen (w_buf (b_w s)) = e1) by lia. rewrite Em in HR.
    exists e0, e', e'. split; [eapply QsAt_agree; [exact Ag0|lia|exact Q0]|].
    split; [eapply RsAt_snoc; [eapply RsAt_agree; [exact Ag1|lia|exact R1]|exact HR]|].
    split; [constructor|]. split; [constructor|]. split; [intros; apply S1; lia|split; intros; lia].
  - rewrite (z3 ltac:(lia)) in *. apply RsAt_nil_inv in R3.
    assert (Em : mlen (w_buf (b_w s)) = e2) by lia. rewrite Em in HR.
    exists e0, e1, e'. split; [eapply QsAt_agree; [exact Ag0|lia|exact Q0]|].
    split; [eapply RsAt_agree; [exact Ag1|lia|exact R1]|].
    split; [eapply RsAt_snoc; [eapply RsAt_agree; [exact Ag2|lia|exact R2]|exact HR]|].
    split; [constructor|]. split; [intros; apply S1; lia|split; [intros; apply S2; lia|intros; lia]].
  - exists e0, e1, e2. split; [eapply QsAt_agree; [exact Ag0|lia|exact Q0]|].
    split; [eapply RsAt_agree; [exact Ag1|lia|exact R1]|].
    split; [eapply RsAt_agree; [exact Ag2|lia|exact R2]|].
    split; [eapply RsAt_snoc; [apply (RsAt_agree (w_buf (b_w s)) (w_buf w') e2 (a_ar a) (mlen (w_buf (b_w s)))); [eapply agree_buf_ext; exact E|lia|exact R3]|exact HR]|].
    split; [intros; apply S1; lia|split; [intros; apply S2; lia|intros; apply S3; lia]].
Qed.

(* ------------------------------------------------------------------ rewind *)

Lemma in_filter_le (x len : N) bs : In x bs -> x <= len -> In x (filter (fun b => b <=? len) bs).
Proof. intros H L. apply filter_In. split; [exact H|]. apply N.leb_le. exact L. Qed.

Lemma mlen_firstn_le len (m : bytes) : len <= mlen m -> mlen (firstn (N.to_nat len) m) = len.
Proof. unfold mlen. rewrite firstn_length. lia. Qed.

Lemma start_of_cases s : b_sec s <= 3 ->
  (b_sec s = 0 /\ start_of s = 12) \/ (b_sec s = 1 /\ start_of s = b_s1 s) \/
  (b_sec s = 2 /\ start_of s = b_s2 s) \/ (b_sec s = 3 /\ start_of s = b_s3 s).
Proof.
  intros L. unfold start_of, header_len.
  assert (H : b_sec s = 0 \/ b_sec s = 1 \/ b_sec s = 2 \/ b_sec s = 3) by lia.
  destruct H as [K|[K|[K|K]]]; rewrite K; cbn [N.eqb Pos.eqb]; auto.
Qed.

Lemma Layout_rewind c s a bs w :
  BW c s -> CountInv s a -> Layout s a bs ->
  truncate c (start_of s) (b_w s) = WOk w -> TBound w ->
  Layout (set_count (set_w s w) 0) (acc_clear_sec a (b_sec s)) (filter (fun b => b <=? start_of s) bs).
Proof.
  intros HB HCt ((e0 & e1 & e2 & Q0 & R1 & R2 & R3 & S1 & S2 & S3) & HC & HF & (I12 & I1 & I2 & I3 & Im) & HM) HT TBw.
  pose proof HB as (_ & _ & L12 & Ls & _). destruct HCt as (_ & _ & _ & _ & z1 & z2 & z3).
  set (len := start_of s) in *. unfold buf_of in *.
  pose proof (QsAt_end _ _ _ _ Q0) as [q1 _]. pose proof (RsAt_end _ _ _ _ R1) as [r1 _].
  pose proof (RsAt_end _ _ _ _ R2) as [r2 _]. pose proof (RsAt_end _ _ _ _ R3) as [r3 _].
  assert (Hlen : In len bs /\ 12 <= len /\ len <= mlen (w_buf (b_w s)) /\
                 (b_sec s = 0 /\ len = 12 \/ b_sec s = 1 /\ len = e0 \/ b_sec s = 2 /\ len = e1 \/ b_sec s = 3 /\ len = e2)).
  { destruct (start_of_cases s Ls) as [[K E]|[[K E]|[[K E]|[K E]]]]; fold len in E; rewrite E.
    - split; [exact I12|split; [lia|split; [lia|left; auto]]].
    - split; [apply I1; lia|]. rewrite (S1 ltac:(lia)). split; [lia|split; [lia|right; left; auto]].
    - split; [apply I2; lia|]. rewrite (S2 ltac:(lia)). split; [lia|split; [lia|right; right; left; auto]].
    - split; [apply I3; lia|]. rewrite (S3 ltac:(lia)). split; [lia|split; [lia|right; right; right; auto]]. }
  destruct Hlen as (Iin & Ll1 & Ll2 & Hcase).
  pose proof (truncate_sub c len (b_w s) w HT) as (Bw & _).
  assert (Lw : mlen (w_buf w) = len) by (rewrite Bw; apply mlen_firstn_le; exact Ll2).
  destruct (upd_proj s w 0) as (P0 & P1 & P2 & P3 & P4).
  assert (Ag : forall b, b <= len -> agree_on (okb b) (w_buf (b_w s)) (w_buf w)).
  { intros b Hb. rewrite Bw. apply agree_on_firstn. exact Hb. }
  rewrite Forall_forall in HF.
  unfold Layout, Sections, StartsIn, buf_of. rewrite P0, P1, P2, P3, P4, Lw.
  split; [|split; [|split; [|split]]].
  - unfold acc_clear_sec.
    destruct Hcase as [[K E]|[[K E]|[[K E]|[K E]]]]; rewrite K in *; cbn [N.eqb Pos.eqb a_q a_an a_ns a_ar].
    + rewrite (z1 ltac:(lia)), (z2 ltac:(lia)), (z3 ltac:(lia)). exists len, len, len. rewrite E.
      repeat split; try constructor; intros; lia.
    + rewrite (z2 ltac:(lia)), (z3 ltac:(lia)). exists e0, e0, e0. rewrite E.
      split; [eapply QsAt_agree; [apply Ag; lia|lia|exact Q0]|]. repeat split; try constructor; auto; intros; lia.
    + rewrite (z3 ltac:(lia)). exists e0, e1, e1. rewrite E.
      split; [eapply QsAt_agree; [apply Ag; lia|lia|exact Q0]|].
      split; [eapply RsAt_agree; [apply Ag; lia|lia|exact R1]|]. repeat split; try constructor; auto; intros; lia.
    + exists e0, e1, e2. rewrite E.
      split; [eapply QsAt_agree; [apply Ag; lia|lia|exact Q0]|].
      split; [eapply RsAt_agree; [apply Ag; lia|lia|exact R1]|].
      split; [eapply RsAt_agree; [apply Ag; lia|lia|exact R2]|]. repeat split; try constructor; auto.
  - assert (CUl : CUpTo len (b_w s)) by apply (HF len Iin).
    apply (CInv_of_CUpTo len); [eapply CUpTo_trunc; [exact HT|lia|exact CUl]|exact TBw|lia|].
    (* uniqueness of hash entries survives the truncation *)
    destruct HC as (_ & _ & CH & CU). pose proof (truncate_sub c len (b_w s) w HT) as (_ & _ & _ & Ih).
    destruct TBw as (_ & _ & T3). rewrite Forall_forall in T3, CH.
    intros h1 h2 t la lb J1 J2 L1 L2 E.
    assert (X : forall h lx, In (h, t) (w_hash w) -> label_at (w_buf w) (mlen (w_buf w)) h = Some lx ->
                label_at (w_buf (b_w s)) (mlen (w_buf (b_w s))) h = Some lx).
    { intros h lx Hin Hl. destruct (T3 _ Hin) as [Hh _]. cbn [fst] in Hh.
      destruct CUl as (_ & _ & C3). rewrite Forall_forall in C3.
      destruct (C3 _ (Ih _ Hin) ltac:(cbn [fst]; lia)) as (l0 & ls0 & ee0 & HLa & _). cbn [fst] in HLa.
      pose proof (LabelAt_agree _ _ _ _ _ _ _ (Ag len ltac:(lia)) HLa) as HLb.
      destruct HLa as (V & _ & Ba & _). destruct HLb as (_ & _ & Bb & _).
      rewrite (label_at_here _ _ _ V Bb) in Hl. rewrite (label_at_here _ _ _ V Ba). exact Hl. }
    apply (CU h1 h2 t la lb); auto.
  - rewrite Forall_forall. intros b Hb. apply filter_In in Hb as [Hb Hle]. apply N.leb_le in Hle.
    destruct (HF b Hb) as [[Lb1 Lb2] Cb]. split; [lia|]. eapply CUpTo_trunc; eauto.
  - split; [apply in_filter_le; auto|].
    destruct Hcase as [[K E]|[[K E]|[[K E]|[K E]]]]; rewrite K in *.
    + repeat split; try (intros; lia). apply in_filter_le; auto; lia.
    + split; [intros; apply in_filter_le; [apply I1; lia|rewrite (S1 ltac:(lia)); lia]|].
      repeat split; try (intros; lia). apply in_filter_le; auto; lia.
    + split; [intros; apply in_filter_le; [apply I1; lia|rewrite (S1 ltac:(lia)); lia]|].
      split; [intros; apply in_filter_le; [apply I2; lia|rewrite (S2 ltac:(lia)); lia]|].
      repeat split; try (intros; lia). apply in_filter_le; auto; lia.
    + split; [intros; apply in_filter_le; [apply I1; lia|rewrite (S1 ltac:(lia)); lia]|].
      split; [intros; apply in_filter_le; [apply I2; lia|rewrite (S2 ltac:(lia)); lia]|].
      split; [intros; apply in_filter_le; [apply I3; lia|rewrite (S3 ltac:(lia)); lia]|].
      apply in_filter_le; auto; lia.
  - apply CMax_set_count; auto. lia.
Qed.

(* -------------------------------------------------------------- one operation *)

Lemma Layout_sections_only s a bs (s' : bstate) :
  b_w s' = b_w s -> b_qd s' = b_qd s -> b_an s' = b_an s -> b_ns s' = b_ns s -> b_ar s' = b_ar s ->
  Sections s' a -> StartsIn s' bs -> Layout s a bs -> Layout s' a bs.
Proof.
  intros Ew E1 E2 E3 E4 HS HSt (_ & HC & HF & _ & HM).
  unfold Layout, buf_of, CMax in *. rewrite Ew, E1, E2, E3, E4. auto.
Qed.

Lemma Layout_set_hdr s a bs h : Layout s a bs -> Layout (set_hdr s h) a bs.
Proof.
  unfold Layout, Sections, StartsIn, CMax, buf_of, set_hdr; cbn [b_w b_sec b_s1 b_s2 b_s3 b_qd b_an b_ns b_ar]. auto.
Qed.

Lemma step_layout c s a bs o s' r :
  BW c s -> CountInv s a -> Layout s a bs -> wf_op o -> step c s o = (s', r) -> alive r ->
  exists bs', Layout s' (acc_step (b_sec s) a o r) bs'.
Proof.
  intros HB HCt HL Hwf H AL. pose proof HB as (TB & SI & L12 & Lsec & R).
  pose proof HL as (HS & HC & HF & HSt & HM).
  assert (HW : WG c ok12 (b_w s)) by (split; [exact TB|split; [exact SI|exact HC]]).
  unfold step in H. destruct o as [q|rr|oh opts| | | |l|h]; cbn [step_gen] in H; cbn [wf_op] in Hwf.
  - destruct (N.eqb_spec (b_sec s) 0) as [E0|E0]; [|injection H as <- <-; exists bs; exact HL].
    destruct (mb_push_cases c s (compose_question c q) HB (compose_question_spec c q))
      as [(w' & Ef & E & X & TB' & SI' & _ & Lc)|[(e' & E)|(x & E & D)]]; rewrite E in H; injection H as <- <-.
    + destruct (compose_question_ok c q (b_w s) w' HW L12 Hwf Ef) as ((_ & _ & CI') & HQ & _).
      eexists. cbn [acc_step]. eapply Layout_push_q; eauto.
    + exists bs. exact HL.
    + unfold alive in AL. congruence.
  - destruct (N.eqb_spec (b_sec s) 0) as [E0|E0]; [injection H as <- <-; exists bs; exact HL|].
    destruct (mb_push_cases c s (compose_record c rr) HB (compose_record_spec c rr))
      as [(w' & Ef & E & X & TB' & SI' & _ & Lc)|[(e' & E)|(x & E & D)]]; rewrite E in H; injection H as <- <-.
    + destruct (compose_record_ok c rr (b_w s) w' HW L12 Hwf Ef) as ((_ & _ & CI') & HR & _).
      eexists. cbn [acc_step]. eapply Layout_push_r; eauto.
    + exists bs. exact HL.
    + unfold alive in AL. congruence.
  - destruct (N.eqb_spec (b_sec s) 3) as [E0|E0]; [|injection H as <- <-; exists bs; exact HL].
    destruct (mb_push_cases c s (opt_writer c oh opts) HB (opt_writer_spec c oh opts))
      as [(w' & Ef & E & X & TB' & SI' & _ & Lc)|[(e' & E)|(x & E & D)]]; rewrite E in H; cbn [fst snd] in H; injection H as <- <-.
    + pose proof Hwf as (Wu & Wv & Wf). apply (opt_writer_ok_is_setter c oh opts (b_w s) w' TB SI Wu Wv Wf) in Ef.
      destruct (compose_opt_ok c oh opts (b_w s) w' HW L12 Hwf Ef) as ((_ & _ & CI') & HR & _).
      eexists. cbn [acc_step]. apply Layout_set_hdr. eapply Layout_push_r; eauto. lia.
    + exists bs. apply Layout_set_hdr. exact HL.
    + unfold alive in AL. congruence.
  - (* OpNext *)
    destruct (N.ltb_spec (b_sec s) 3) as [L3|L3]; injection H as <- <-; [|exists bs; exact HL].
    exists bs. cbn [acc_step].
    destruct HS as (e0 & e1 & e2 & Q0 & R1 & R2 & R3 & S1 & S2 & S3).
    destruct HCt as (_ & _ & _ & _ & z1 & z2 & z3). destruct HSt as (I12 & I1 & I2 & I3 & Im).
    unfold buf_of in *.
    assert (Hc : b_sec s = 0 \/ b_sec s = 1 \/ b_sec s = 2) by lia.
    apply (Layout_sections_only s a bs); auto;
      try (unfold set_sec, set_start; destruct (b_sec s + 1 =? 1); [|destruct (b_sec s + 1 =? 2)]; reflexivity).
    + unfold Sections, buf_of, set_sec, set_start.
      destruct Hc as [K|[K|K]]; rewrite K in *; cbn [N.add N.eqb Pos.eqb Pos.add Pos.succ b_w b_sec b_s1 b_s2 b_s3];
        exists e0, e1, e2; (split; [exact Q0|split; [exact R1|split; [exact R2|split; [exact R3|]]]]).
      * rewrite (z1 ltac:(lia)) in R1. rewrite (z2 ltac:(lia)) in R2. rewrite (z3 ltac:(lia)) in R3.
        apply RsAt_nil_inv in R1, R2, R3. repeat split; intros; lia.
      * rewrite (z2 ltac:(lia)) in R2. rewrite (z3 ltac:(lia)) in R3.
        apply RsAt_nil_inv in R2, R3. split; [intros; apply S1; lia|]. split; intros; lia.
      * rewrite (z3 ltac:(lia)) in R3. apply RsAt_nil_inv in R3.
        split; [intros; apply S1; lia|]. split; [intros; apply S2; lia|intros; lia].
    + unfold StartsIn, buf_of, set_sec, set_start.
      destruct Hc as [K|[K|K]]; rewrite K in *; cbn [N.add N.eqb Pos.eqb Pos.add Pos.succ b_w b_sec b_s1 b_s2 b_s3];
        (split; [exact I12|]); repeat split; intros; auto; try lia; try (apply I1; lia); try (apply I2; lia).
  - (* OpBack *)
    cbn [acc_step].
    destruct (N.eqb_spec (b_sec s) 0) as [E0|E0]; [injection H as <- <-; exists bs; exact HL|].
    destruct (rewind_inv c s HB) as (w & ET & ER & HB' & _). rewrite ER in H. injection H as <- <-.
    pose proof HB' as (TBw & _). destruct (upd_proj s w 0) as (P0 & P1 & P2 & P3 & P4). rewrite P0 in TBw.
    pose proof (Layout_rewind c s a bs w HB HCt HL ET TBw) as HL'.
    eexists. set (s1 := set_count (set_w s w) 0) in *.
    destruct HL' as (HS' & HC' & HF' & (J12 & J1 & J2 & J3 & Jm) & HM').
    assert (Es : b_sec s1 = b_sec s) by exact P1.
    apply (Layout_sections_only s1 _ _ (set_sec s1 (b_sec s - 1))); try reflexivity.
    + destruct HS' as (e0 & e1 & e2 & Q0 & R1 & R2 & R3 & S1 & S2 & S3).
      exists e0, e1, e2. unfold buf_of, set_sec in *; cbn [b_w b_sec b_s1 b_s2 b_s3].
      split; [exact Q0|split; [exact R1|split; [exact R2|split; [exact R3|]]]].
      split; [intros; apply S1; lia|split; [intros; apply S2; lia|intros; apply S3; lia]].
    + unfold StartsIn, buf_of, set_sec in *; cbn [b_w b_sec b_s1 b_s2 b_s3].
      split; [exact J12|]. split; [intros; apply J1; lia|]. split; [intros; apply J2; lia|]. split; [intros; apply J3; lia|exact Jm].
    + split; [exact HS'|split; [exact HC'|split; [exact HF'|split; [split; [exact J12|split; [exact J1|split; [exact J2|split; [exact J3|exact Jm]]]]|exact HM']]]].
  - (* OpRewind *)
    destruct (rewind_inv c s HB) as (w & ET & ER & HB' & _). rewrite ER in H. injection H as <- <-.
    pose proof HB' as (TBw & _). destruct (upd_proj s w 0) as (P0 & _). rewrite P0 in TBw.
    eexists. cbn [acc_step]. eapply Layout_rewind; eauto.
  - injection H as <- <-. exists bs. cbn [acc_step].
    apply (Layout_sections_only s a bs); auto.
  - injection H as <- <-. exists bs. cbn [acc_step]. apply Layout_set_hdr. exact HL.
Qed.

Lemma init_layout c s0 : init c = Some s0 -> Layout s0 acc0 [12].
Proof.
  intros H. pose proof (init_good c s0 H) as (TB & SI & CI & L).
  pose proof (init_inv c s0 H) as (HB & _).
  unfold init in H. destruct (append_slice c _ empty_ws) as [w| | |] eqn:E; try discriminate. injection H as <-.
  pose proof (append_slice_mlen _ _ _ _ E) as Lm. change (mlen (w_buf empty_ws)) with 0 in Lm.
  change (mlen (repeat 0 (N.to_nat header_len))) with 12 in Lm.
  apply append_slice_ok in E as [_ (a1 & a2 & a3)].
  unfold Layout, Sections, StartsIn, CMax, buf_of; cbn [b_w b_sec b_s1 b_s2 b_s3 b_qd b_an b_ns b_ar acc0 a_q a_an a_ns a_ar].
  rewrite Lm. split; [|split; [exact CI|split; [|split]]].
  - exists 12, 12, 12. repeat split; try constructor; intros; lia.
  - constructor; [|constructor]. split; [lia|]. unfold CUpTo. rewrite a1, a2, a3. cbn. auto.
  - repeat split; try (left; reflexivity); intros; lia.
  - lia.
Qed.

Lemma run_acc_layout c ops : forall s a bs s' a' ws,
  BW c s -> CountInv s a -> Layout s a bs -> Forall wf_op ops ->
  run_acc c s a ops = (s', a', ws) -> all_alive ws ->
  BW c s' /\ CountInv s' a' /\ exists bs', Layout s' a' bs'.
Proof.
  induction ops as [|o r IH]; intros s a bs s' a' ws HB HC HL Hwf H AL; cbn [run_acc] in H.
  - injection H as <- <- <-. eauto.
  - inversion Hwf as [|? ? Ho Hr]; subst.
    destruct (step c s o) as [s1 w] eqn:ES.
    destruct (is_dead w) eqn:D.
    + injection H as <- <- <-. inversion AL; subst. unfold alive in *. congruence.
    + destruct (run_acc c s1 (acc_step (b_sec s) a o w) r) as [[s2 a2] ws2] eqn:ER.
      injection H as <- <- <-. inversion AL; subst.
      destruct (step_inv c s a o s1 w HB HC ES D) as (HB1 & HC1).
      destruct (step_layout c s a bs o s1 w HB HC HL Ho ES D) as (bs1 & HL1).
      eapply IH; eauto.
Qed.

(* --------------------------------------------------------------- reading back *)

Lemma msg_of_split s : 12 <= mlen (buf_of s) ->
  exists h, mlen h = 12 /\ msg_of s = h ++ skipn 12 (buf_of s) /\
            bytes_at (msg_of s) 4 (be16 (b_qd s) ++ be16 (b_an s) ++ be16 (b_ns s) ++ be16 (b_ar s)).
Proof.
  intros L. unfold buf_of in *.
  set (hd := firstn 4 (b_hdr s ++ [0; 0; 0; 0])).
  exists (hd ++ be16 (b_qd s) ++ be16 (b_an s) ++ be16 (b_ns s) ++ be16 (b_ar s)).
  assert (L4 : mlen hd = 4) by (subst hd; unfold mlen; rewrite firstn_length, app_length; cbn [length]; lia).
  split; [rewrite !mlen_app, L4; reflexivity|]. split; [unfold msg_of; fold hd; rewrite <- !app_assoc; reflexivity|].
  unfold msg_of. fold hd. rewrite <- L4.
  replace (hd ++ be16 (b_qd s) ++ be16 (b_an s) ++ be16 (b_ns s) ++ be16 (b_ar s) ++ skipn 12 (w_buf (b_w s)))
    with (hd ++ (be16 (b_qd s) ++ be16 (b_an s) ++ be16 (b_ns s) ++ be16 (b_ar s)) ++ skipn 12 (w_buf (b_w s)))
    by (rewrite <- !app_assoc; reflexivity).
  apply bytes_at_app.
Qed.

Lemma agree_msg_of s e : 12 <= mlen (buf_of s) -> agree_on (okb e) (buf_of s) (msg_of s).
Proof.
  intros L i v [Hi _] Hg. destruct (msg_of_split s L) as (h & Lh & E & _). rewrite E.
  rewrite get_app_r by lia. rewrite Lh.
  rewrite <- (firstn_skipn 12 (buf_of s)) in Hg. rewrite get_app_r in Hg.
  - replace (mlen (firstn 12 (buf_of s))) with 12 in Hg; [exact Hg|]. unfold mlen in *. rewrite firstn_length. lia.
  - unfold mlen in *. rewrite firstn_length. lia.
Qed.

Theorem layout_read s a bs :
  12 <= mlen (buf_of s) -> CountInv s a -> Layout s a bs ->
  exists a', rd_message (msg_of s) a = Ok a' /\ acc_eqb a' a = true.
Proof.
  intros L (c1 & c2 & c3 & c4 & _) ((e0 & e1 & e2 & Q0 & R1 & R2 & R3 & _) & _ & _ & _ & (m1 & m2 & m3 & m4)).
  destruct (msg_of_split s L) as (h & Lh & E & Hb).
  assert (Lm : mlen (msg_of s) = mlen (buf_of s)) by (apply msg_of_mlen; exact L).
  pose proof (QsAt_end _ _ _ _ Q0) as [q1 q2]. pose proof (RsAt_end _ _ _ _ R1) as [r1 r1'].
  pose proof (RsAt_end _ _ _ _ R2) as [r2 r2']. pose proof (RsAt_end _ _ _ _ R3) as [r3 r3'].
  assert (Q0' : QsAt (msg_of s) 12 (a_q a) e0) by (eapply QsAt_agree; [apply agree_msg_of; exact L|lia|exact Q0]).
  assert (R1' : RsAt (msg_of s) e0 (a_an a) e1) by (eapply RsAt_agree; [apply agree_msg_of; exact L|lia|exact R1]).
  assert (R2' : RsAt (msg_of s) e1 (a_ns a) e2) by (eapply RsAt_agree; [apply agree_msg_of; exact L|lia|exact R2]).
  assert (R3' : RsAt (msg_of s) e2 (a_ar a) (mlen (buf_of s))) by (eapply RsAt_agree; [apply agree_msg_of; exact L|lia|exact R3]).
  apply bytes_at_split in Hb as [H1 Hb]. change (mlen (be16 (b_qd s))) with 2 in Hb.
  apply bytes_at_split in Hb as [H2 Hb]. change (mlen (be16 (b_an s))) with 2 in Hb.
  apply bytes_at_split in Hb as [H3 H4]. change (mlen (be16 (b_ns s))) with 2 in H4.
  destruct (rd_questions_ok _ _ _ _ Q0') as (qs' & EQ & AQ).
  destruct (rd_records_ok _ _ _ _ R1') as (r1s & E1 & A1).
  destruct (rd_records_ok _ _ _ _ R2') as (r2s & E2 & A2).
  destruct (rd_records_ok _ _ _ _ R3') as (r3s & E3 & A3).
  exists (mkAcc qs' r1s r2s r3s). unfold rd_message.
  rewrite (rd_u16_ok _ 4 _ (b_qd s) H1) by lia. cbn [bind fst snd].
  change (4 + 2) with 6 in *. rewrite (rd_u16_ok _ 6 _ (b_an s) H2) by lia. cbn [bind fst snd].
  change (6 + 2) with 8 in *. rewrite (rd_u16_ok _ 8 _ (b_ns s) H3) by lia. cbn [bind fst snd].
  change (8 + 2) with 10 in *. rewrite (rd_u16_ok _ 10 _ (b_ar s) H4) by lia. cbn [bind fst snd].
  rewrite c1, c2, c3, c4, !N.eqb_refl. cbn [andb negb].
  rewrite EQ. cbn [bind fst snd]. rewrite E1. cbn [bind fst snd]. rewrite E2. cbn [bind fst snd].
  rewrite E3. cbn [bind fst snd]. rewrite Lm, N.eqb_refl.
  split; [reflexivity|]. unfold acc_eqb; cbn [a_q a_an a_ns a_ar]. rewrite AQ, A1, A2, A3. reflexivity.
Qed.

(* Any message assembled by any finite operation sequence parses back to
   exactly the items whose push succeeded, in order and in the right sections,
   with header counts equal to the numbers of successful pushes. *)
Theorem build_parse c ops s0 s a ws :
  init c = Some s0 -> Forall wf_op ops ->
  run_acc c s0 acc0 ops = (s, a, ws) -> all_alive ws ->
  exists a', rd_message (msg_of s) a = Ok a' /\ acc_eqb a' a = true.
Proof.
  intros HI Hwf HR AL. destruct (init_inv c s0 HI) as (HB0 & HC0).
  destruct (run_acc_layout c ops s0 acc0 [12] s a ws HB0 HC0 (init_layout c s0 HI) Hwf HR AL) as (HB & HC & bs & HL).
  destruct HB as (_ & _ & L & _). eapply layout_read; eauto.
Qed.
