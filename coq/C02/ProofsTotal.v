(* C02 proofs, part 12: no operation of a reachable builder panics or runs out
   of fuel, provided record data is at most 65535 octets long (what the typed
   record data constructors of the library guarantee). *)
From Coq Require Import NArith List Bool Lia ZArith.
From Coq Require Import ZifyN ZifyBool ZifyNat.
From DV Require Import Base.Outcome Base.Bytes Base.Names Base.PName C02.Gen C02.Model
  C02.ProofsBasic C02.ProofsClone C02.ProofsRun C02.ProofsName C02.ProofsComp C02.ProofsStatic C02.ProofsHash C02.ProofsTop
  C02.ProofsLayout C02.ProofsRead C02.ProofsWrite C02.ProofsBuild.
Import ListNotations.
Local Open Scope N_scope.
Ltac Zify.zify_post_hook ::= Z.div_mod_to_equations.

Definition NoDead (r : wres) : Prop := match r with WPanic _ | WFuel => False | _ => True end.

Lemma NoDead_bind r g : NoDead r -> (forall w1, r = WOk w1 -> NoDead (g w1)) -> NoDead (wbind r g).
Proof. destruct r; cbn [wbind NoDead]; auto. Qed.

Lemma append_slice_nodead c s w : NoDead (append_slice c s w).
Proof. unfold append_slice. destruct (negb _); [exact I|]. destruct (t_stream c); [destruct (_ <=? _)|]; exact I. Qed.
Lemma label_compose_nodead c l w : NoDead (label_compose c l w).
Proof. unfold label_compose. apply NoDead_bind; [apply append_slice_nodead|intros; apply append_slice_nodead]. Qed.
Lemma write_labels_nodead c ls : forall w, NoDead (write_labels c ls w).
Proof.
  induction ls as [|l r IH]; intros w; cbn [write_labels]; [exact I|].
  apply NoDead_bind; [apply label_compose_nodead|intros; apply IH].
Qed.

(* ------------------------------------------------ SliceLabelsIter terminates *)

Lemma sli_loop_fuel m ml : forall f start seg, (N.to_nat seg < f)%nat -> sli_loop f m ml start seg <> SliFuel.
Proof.
  induction f as [|f IH]; intros start seg Hf; [lia|]. cbn [sli_loop].
  destruct (get m start) as [h|]; [|discriminate].
  destruct (h <=? 63); [destruct (ml <? start + h + 1); discriminate|].
  destruct (192 <=? h); [|discriminate].
  destruct (get m (start + 1)) as [c|]; [|discriminate].
  unfold sli_ptr_ge_segment. destruct (N.leb_spec seg (c + 256 * (h mod 64))); [discriminate|].
  apply IH. lia.
Qed.

Lemma sli_next_fuel m ml st : sli_next m ml st <> SliFuel.
Proof.
  unfold sli_next. destruct st as [[start seg]|]; [|discriminate].
  destruct (ml <=? start); [discriminate|]. apply sli_loop_fuel. lia.
Qed.

Lemma labels_eq_sli_fuel m ml : forall a st, labels_eq_sli a m ml st <> None.
Proof.
  induction a as [|x a IH]; intros st; cbn [labels_eq_sli]; pose proof (sli_next_fuel m ml st) as F;
    destruct (sli_next m ml st) as [|y st'|]; try discriminate; try contradiction.
  destruct (label_eq x y); [apply IH|discriminate].
Qed.

Lemma static_get_fuel m ml q : forall es, static_get m ml es q <> None.
Proof.
  induction es as [|e es IH]; cbn [static_get]; [discriminate|].
  pose proof (labels_eq_sli_fuel m ml (q ++ [[]]) (Some (e, e))) as F.
  destruct (labels_eq_sli (q ++ [[]]) m ml (Some (e, e))) as [[|]|]; [discriminate|exact IH|contradiction].
Qed.

Lemma static_acn_nodead c ls : forall w, NoDead (static_acn c ls w).
Proof.
  induction ls as [|l rest IH]; intros w; cbn [static_acn]; [apply append_slice_nodead|].
  pose proof (static_get_fuel (w_buf w) (mlen (w_buf w)) (l :: rest) (w_static w)) as F.
  destruct (static_get _ _ _ _) as [[pos|]|]; [apply append_slice_nodead| |contradiction].
  destruct (static_insert _ _).
  - apply NoDead_bind; [apply label_compose_nodead|intros; apply IH].
  - apply NoDead_bind; [apply write_labels_nodead|intros; apply append_slice_nodead].
Qed.

Lemma tree_acn_nodead c ls : forall w, NoDead (tree_acn c ls w).
Proof.
  induction ls as [|l rest IH]; intros w; cbn [tree_acn]; [apply append_slice_nodead|].
  destruct (tree_get _ _); [apply append_slice_nodead|].
  destruct (tree_insert _ _ _).
  - apply NoDead_bind; [apply label_compose_nodead|intros; apply IH].
  - apply NoDead_bind; [apply write_labels_nodead|intros; apply append_slice_nodead].
Qed.

(* ------------------------------------------------- hash heads are readable *)

Lemma hash_find_nopanic m (ok : N -> Prop) es l pos :
  Forall (fun e => HashOK m ok (fst e) (snd e)) es ->
  exists r, hash_find m (mlen m) es l pos = Ok r.
Proof.
  induction 1 as [|[h t] es (l0 & ls0 & e & HL & _) _ IH]; cbn [hash_find]; [eauto|].
  cbn [fst] in HL. destruct HL as (Hv & _ & Hb & _). rewrite (label_at_here _ _ _ Hv Hb).
  destruct (label_eq l0 l && (t =? pos)); [eauto|exact IH].
Qed.

Lemma hash_walk_nopanic m (ok : N -> Prop) es :
  Forall (fun e => HashOK m ok (fst e) (snd e)) es ->
  forall rl pos, exists r, hash_walk m (mlen m) es rl pos = Ok r.
Proof.
  intros H. induction rl as [|l rl IH]; intros pos; cbn [hash_walk]; [eauto|].
  destruct (hash_find_nopanic m ok es l pos H) as ([h|] & E); rewrite E; [apply IH|eauto].
Qed.

Lemma hash_write_nodead c position : forall ls w, NoDead (hash_write c ls position w).
Proof.
  induction ls as [|l r IH]; intros w; cbn [hash_write]; [exact I|].
  apply NoDead_bind; [apply label_compose_nodead|]. intros w1 _. destruct (_ <? hash_ptr_limit); apply IH.
Qed.

Lemma acn_nodead c (ok : N -> Prop) n w : CInv ok w -> NoDead (acn c n w).
Proof.
  intros (_ & _ & CH & _). unfold acn. destruct (t_kind c);
    [apply append_slice_nodead|apply static_acn_nodead|apply tree_acn_nodead|].
  unfold hash_acn. destruct (hash_walk_nopanic (w_buf w) ok (w_hash w) CH (rev n) hash_root_pos) as ([position rest] & E).
  rewrite E. apply NoDead_bind; [apply hash_write_nodead|].
  intros w1 _. destruct (position =? hash_root_pos); apply append_slice_nodead.
Qed.

(* ------------------------------------------ compression never lengthens a name *)

Lemma write_ptr_len c tag pos w w' : write_ptr c tag pos w = WOk w' -> mlen (w_buf w') = mlen (w_buf w) + 2.
Proof. unfold write_ptr. intros H. apply append_slice_mlen in H. rewrite H. reflexivity. Qed.

Lemma loop_len_static c : forall ls w w', static_acn c ls w = WOk w' ->
  mlen (w_buf w') <= mlen (w_buf w) + mlen (wire_rel ls) + 1.
Proof.
  induction ls as [|l rest IH]; intros w w' H; cbn [static_acn] in H.
  - apply append_slice_mlen in H. rewrite H. change (mlen [0]) with 1. change (mlen (wire_rel [])) with 0. lia.
  - rewrite mlen_wire_rel_cons.
    destruct (static_get _ _ _ _) as [[pos|]|]; [apply write_ptr_len in H; lia| |discriminate].
    destruct (static_insert _ _).
    + match type of H with wbind ?x _ = _ => destruct x as [w1|w1| |] eqn:EL end; cbn [wbind] in H; try discriminate.
      apply label_compose_ok in EL as [B1 _]. unfold set_static in B1; cbn [w_buf] in B1.
      apply IH in H. rewrite B1, mlen_app, mlen_cons in H. lia.
    + destruct (write_labels c (l :: rest) w) as [w1|w1| |] eqn:EW; cbn [wbind] in H; try discriminate.
      apply write_labels_ok in EW as [B1 _]. apply append_slice_mlen in H.
      rewrite H, B1, mlen_app, mlen_wire_rel_cons. change (mlen [0]) with 1. lia.
Qed.

Lemma loop_len_tree c : forall ls w w', tree_acn c ls w = WOk w' ->
  mlen (w_buf w') <= mlen (w_buf w) + mlen (wire_rel ls) + 1.
Proof.
  induction ls as [|l rest IH]; intros w w' H; cbn [tree_acn] in H.
  - apply append_slice_mlen in H. rewrite H. change (mlen [0]) with 1. change (mlen (wire_rel [])) with 0. lia.
  - rewrite mlen_wire_rel_cons.
    destruct (tree_get _ _); [apply write_ptr_len in H; lia|].
    destruct (tree_insert _ _ _).
    + match type of H with wbind ?x _ = _ => destruct x as [w1|w1| |] eqn:EL end; cbn [wbind] in H; try discriminate.
      apply label_compose_ok in EL as [B1 _]. unfold set_tree in B1; cbn [w_buf] in B1.
      apply IH in H. rewrite B1, mlen_app, mlen_cons in H. lia.
    + destruct (write_labels c (l :: rest) w) as [w1|w1| |] eqn:EW; cbn [wbind] in H; try discriminate.
      apply write_labels_ok in EW as [B1 _]. apply append_slice_mlen in H.
      rewrite H, B1, mlen_app, mlen_wire_rel_cons. change (mlen [0]) with 1. lia.
Qed.

Lemma hash_walk_split m ml es : forall rl pos pos' rest,
  hash_walk m ml es rl pos = Ok (pos', rest) ->
  exists consumed, rl = consumed ++ rest /\ (consumed = [] -> pos' = pos).
Proof.
  induction rl as [|l rl IH]; intros pos pos' rest H; cbn [hash_walk] in H.
  - injection H as <- <-. exists []. auto.
  - destruct (hash_find m ml es l pos) as [[h|]| | |]; try discriminate.
    + destruct (IH _ _ _ H) as (cs & -> & _). exists (l :: cs). split; [reflexivity|discriminate].
    + injection H as <- <-. exists []. auto.
Qed.

Lemma mlen_wire_rel_app a b : mlen (wire_rel (a ++ b)) = mlen (wire_rel a) + mlen (wire_rel b).
Proof. rewrite wire_rel_app, mlen_app. reflexivity. Qed.

Lemma mlen_wire_rel_pos l ls : 1 <= mlen (wire_rel (l :: ls)).
Proof. rewrite mlen_wire_rel_cons. lia. Qed.

Lemma acn_len c n w w' : acn c n w = WOk w' -> mlen (w_buf w') <= mlen (w_buf w) + mlen (wire_abs n).
Proof.
  assert (E : mlen (wire_abs n) = mlen (wire_rel n) + 1) by (unfold wire_abs; rewrite mlen_app; reflexivity).
  unfold acn. destruct (t_kind c); intros H.
  - apply append_slice_mlen in H. lia.
  - apply loop_len_static in H. lia.
  - apply loop_len_tree in H. lia.
  - unfold hash_acn in H.
    destruct (hash_walk _ _ _ _ _) as [[position rest]| | |] eqn:EW; try discriminate.
    destruct (hash_walk_split _ _ _ _ _ _ _ EW) as (cs & Erl & Hcs).
    match type of H with wbind ?x _ = _ => destruct x as [w1|w1| |] eqn:EH end; cbn [wbind] in H; try discriminate.
    apply hash_write_ok in EH as (B1 & _).
    assert (En : n = rev rest ++ rev cs) by (rewrite <- (rev_involutive n), Erl, rev_app_distr; reflexivity).
    assert (L1 : mlen (w_buf w1) = mlen (w_buf w) + mlen (wire_rel (rev rest))) by (rewrite B1, mlen_app; reflexivity).
    rewrite E, En, mlen_wire_rel_app.
    destruct (N.eqb_spec position hash_root_pos) as [X|X].
    + apply append_slice_mlen in H. rewrite H. change (mlen [0]) with 1. lia.
    + apply write_ptr_len in H. rewrite H.
      destruct cs as [|x cs]; [specialize (Hcs eq_refl); congruence|].
      cbn [rev]. rewrite mlen_wire_rel_app. pose proof (mlen_wire_rel_pos x []). lia.
Qed.

Lemma compose_items_len_le c : forall items w w',
  compose_items c items w = WOk w' -> mlen (w_buf w') <= mlen (w_buf w) + rdata_ulen items.
Proof.
  induction items as [|it r IH]; intros w w' H; cbn [compose_items] in H.
  - injection H as <-. cbn. lia.
  - cbn [rdata_ulen fold_right]. fold (rdata_ulen r).
    destruct it as [b|n|n].
    + destruct (append_slice c b w) as [w1|w1| |] eqn:E1; cbn [wbind] in H; try discriminate.
      apply append_slice_mlen in E1. apply IH in H. cbn [item_ulen]. lia.
    + destruct (acn c n w) as [w1|w1| |] eqn:E1; cbn [wbind] in H; try discriminate.
      apply acn_len in E1. apply IH in H. cbn [item_ulen]. lia.
    + destruct (append_slice c (wire_abs n) w) as [w1|w1| |] eqn:E1; cbn [wbind] in H; try discriminate.
      apply append_slice_mlen in E1. apply IH in H. cbn [item_ulen]. lia.
Qed.

(* ------------------------------------------------------------- the writers *)

Lemma compose_items_nodead c (ok : N -> Prop) : forall items w,
  WG c ok w -> (forall i, mlen (w_buf w) <= i -> ok i) -> Forall wf_item items ->
  NoDead (compose_items c items w).
Proof.
  induction items as [|it r IH]; intros w HW Ho Hwf; cbn [compose_items]; [exact I|].
  inversion Hwf as [|? ? Hit Hwf']; subst.
  destruct it as [b|n|n].
  - apply NoDead_bind; [apply append_slice_nodead|]. intros w1 E1.
    destruct (WG_append c ok b w w1 HW E1) as (HW1 & B1). apply IH; auto.
    intros i Hi. apply Ho. rewrite B1, mlen_app in Hi. lia.
  - apply NoDead_bind; [apply (acn_nodead c ok); exact (proj2 (proj2 HW))|]. intros w1 E1.
    destruct (WG_acn c ok n w w1 HW Ho Hit E1) as (HW1 & _ & sfx & B1). apply IH; auto.
    intros i Hi. apply Ho. rewrite B1, mlen_app in Hi. lia.
  - apply NoDead_bind; [apply append_slice_nodead|]. intros w1 E1.
    destruct (WG_append c ok _ w w1 HW E1) as (HW1 & B1). apply IH; auto.
    intros i Hi. apply Ho. rewrite B1, mlen_app in Hi. lia.
Qed.

Lemma compose_question_nodead c q w :
  WG c ok12 w -> wf_q q -> NoDead (compose_question c q w).
Proof.
  intros HW (Hn & _). unfold compose_question.
  apply NoDead_bind; [apply (acn_nodead c ok12); exact (proj2 (proj2 HW))|]. intros w1 _.
  apply NoDead_bind; [apply append_slice_nodead|intros; apply append_slice_nodead].
Qed.

Lemma compose_len_rdata_nodead c r w :
  WG c ok12 w -> 12 <= mlen (w_buf w) -> Forall wf_item (r_data r) -> rdata_ulen (r_data r) <= 65535 ->
  NoDead (compose_len_rdata c r w).
Proof.
  intros HW L Hwf Hlen. unfold compose_len_rdata.
  destruct (uses_prefix c r).
  - apply NoDead_bind; [apply append_slice_nodead|]. intros w1 E1.
    destruct (WG_append c ok12 _ w w1 HW E1) as (HW1 & B1).
    assert (L1 : mlen (w_buf w1) = mlen (w_buf w) + 2) by (rewrite B1, mlen_app; reflexivity).
    pose proof (compose_items_nodead c ok12 (r_data r) w1 HW1 ltac:(unfold ok12; intros; lia) Hwf) as ND.
    pose proof HW1 as (TB1 & SI1 & _).
    pose proof (compose_items_spec c (r_data r) w1 TB1 SI1) as HS.
    destruct (compose_items c (r_data r) w1) as [w2|w2| |] eqn:E2; try contradiction.
    + apply compose_items_len_le in E2.
      destruct (N.leb_spec (mlen (w_buf w2) - mlen (w_buf w1)) rdlen_max) as [X|X]; [exact I|]. unfold rdlen_max in X. lia.
    + rewrite (truncate_back c w1 w2 TB1 SI1 HS). exact I.
  - destruct (N.ltb_spec rdlen_max (rdata_ulen (r_data r))) as [X|X]; [unfold rdlen_max in X; lia|].
    apply NoDead_bind; [apply append_slice_nodead|]. intros w1 E1.
    destruct (WG_append c ok12 _ w w1 HW E1) as (HW1 & B1).
    apply (compose_items_nodead c ok12); auto. unfold ok12. intros i Hi. rewrite B1, mlen_app in Hi. lia.
Qed.

Lemma compose_record_nodead c r w :
  WG c ok12 w -> 12 <= mlen (w_buf w) -> wf_r r -> rdata_ulen (r_data r) <= 65535 ->
  NoDead (compose_record c r w).
Proof.
  intros HW L (Hn & _ & _ & _ & Hwf) Hlen. unfold compose_record.
  apply NoDead_bind; [apply (acn_nodead c ok12); exact (proj2 (proj2 HW))|]. intros w1 E1.
  destruct (WG_acn c ok12 _ w w1 HW ltac:(unfold ok12; intros; lia) Hn E1) as (HW1 & _ & sfx1 & B1).
  apply NoDead_bind; [apply append_slice_nodead|]. intros w2 E2.
  destruct (WG_append c ok12 _ w1 w2 HW1 E2) as (HW2 & B2).
  apply NoDead_bind; [apply append_slice_nodead|]. intros w3 E3.
  destruct (WG_append c ok12 _ w2 w3 HW2 E3) as (HW3 & B3).
  apply NoDead_bind; [apply append_slice_nodead|]. intros w4 E4.
  destruct (WG_append c ok12 _ w3 w4 HW3 E4) as (HW4 & B4).
  apply compose_len_rdata_nodead; auto. rewrite B4, B3, B2, B1, !mlen_app. lia.
Qed.

Lemma compose_opts_nodead c opts : forall w, NoDead (compose_opts c opts w).
Proof.
  induction opts as [|[[code dlen] data] r IH]; intros w; cbn [compose_opts]; [exact I|].
  apply NoDead_bind; [apply append_slice_nodead|]. intros w1 _.
  apply NoDead_bind; [apply append_slice_nodead|]. intros w2 _.
  apply NoDead_bind; [apply append_slice_nodead|]. intros w3 _. apply IH.
Qed.

Lemma compose_opt_nodead c oh opts w : TBound w -> SInv c w -> NoDead (compose_opt c oh opts w).
Proof.
  intros TB SI. unfold compose_opt.
  apply NoDead_bind; [apply append_slice_nodead|]. intros w1 E1.
  pose proof (append_slice_spec c opt_header_default w TB SI) as H1. rewrite E1 in H1. destruct H1 as (X1 & TB1 & SI1).
  pose proof (append_slice_mlen _ _ _ _ E1) as L1.
  apply NoDead_bind; [apply append_slice_nodead|]. intros w2 E2.
  pose proof (append_slice_spec c [0; 0] w1 TB1 SI1) as H2. rewrite E2 in H2. destruct H2 as (X2 & TB2 & SI2).
  pose proof (append_slice_mlen _ _ _ _ E2) as L2.
  change (mlen opt_header_default) with 9 in L1. change (mlen [0; 0]) with 2 in L2.
  assert (E02 : Ext c (mlen (w_buf w)) w w2) by (eapply Ext_trans; eauto; lia).
  destruct (opt_patches c w w2 (oh_udp oh) (oh_ext oh * 256 + oh_ver oh) (oh_flags oh) TB2 SI2 E02 ltac:(lia))
    as (E3 & TB3 & SI3 & L3).
  match goal with |- context [compose_opts c opts ?x] => set (w3 := x) in * end.
  pose proof (compose_opts_nodead c opts w3) as ND.
  pose proof (compose_opts_spec c opts w3 TB3 SI3) as H4.
  destruct (compose_opts c opts w3) as [w4|w4| |]; try contradiction.
  - destruct H4 as (E4 & _). destruct (_ <=? rdlen_max); [exact I|].
    rewrite <- L3. rewrite (truncate_back c w3 w4 TB3 SI3 E4). exact I.
  - rewrite <- L3. rewrite (truncate_back c w3 w4 TB3 SI3 H4). exact I.
Qed.

(* --------------------------------------------------------- every operation *)

Definition wf_op_sized (o : op) : Prop :=
  wf_op o /\ match o with
            | OpR r => rdata_ulen (r_data r) <= 65535
            | OpOpt oh opts => oh_hdr oh = false -> mlen (opts_bytes opts) <= 65535
            | _ => True end.

Lemma mb_push_alive c s f : BW c s -> WSpec c f -> NoDead (f (b_w s)) -> alive (snd (mb_push c s f)).
Proof.
  intros HB Hf ND. pose proof HB as (TB & SI & _). specialize (Hf (b_w s) TB SI). unfold mb_push.
  destruct (f (b_w s)) as [w|w| |]; try contradiction.
  - destruct Hf as (E & _). destruct (limit_hit _ _); [rewrite fail_push_back; auto; reflexivity|].
    destruct (count_max <=? count_of s); [rewrite fail_push_back; auto; reflexivity|reflexivity].
  - rewrite fail_push_back; auto. reflexivity.
Qed.

Lemma step_alive c s a bs o :
  BW c s -> CountInv s a -> Layout s a bs -> wf_op_sized o -> alive (snd (step c s o)).
Proof.
  intros HB HCt HL (Hwf & Hsz). pose proof HB as (TB & SI & L12 & _).
  pose proof HL as (_ & HC & _).
  assert (HW : WG c ok12 (b_w s)) by (split; [exact TB|split; [exact SI|exact HC]]).
  unfold step. destruct o as [q|rr|oh opts| | | |l|h]; cbn [step_gen]; cbn [wf_op] in Hwf.
  - destruct (b_sec s =? 0); [|reflexivity].
    apply mb_push_alive; auto; [apply compose_question_spec|apply compose_question_nodead; auto].
  - destruct (b_sec s =? 0); [reflexivity|].
    apply mb_push_alive; auto; [apply compose_record_spec|apply compose_record_nodead; auto].
  - destruct (b_sec s =? 3); [|reflexivity]. cbn [snd].
    apply mb_push_alive; auto; [apply opt_writer_spec|].
    destruct Hwf as (Wu & Wv & Wf). apply opt_writer_nodead; auto. apply compose_opt_nodead; auto.
  - destruct (b_sec s <? 3); reflexivity.
  - destruct (b_sec s =? 0); [reflexivity|].
    destruct (rewind_inv c s HB) as (w & _ & ER & _). rewrite ER. reflexivity.
  - destruct (rewind_inv c s HB) as (w & _ & ER & _). rewrite ER. reflexivity.
  - reflexivity.
  - reflexivity.
Qed.

(* no operation sequence makes the builder panic or loop *)
Lemma run_acc_total c ops : forall s a bs s' a' ws,
  BW c s -> CountInv s a -> Layout s a bs -> Forall wf_op_sized ops ->
  run_acc c s a ops = (s', a', ws) -> all_alive ws.
Proof.
  induction ops as [|o r IH]; intros s a bs s' a' ws HB HC HL Hwf H; cbn [run_acc] in H.
  - injection H as <- <- <-. constructor.
  - inversion Hwf as [|? ? Ho Hr]; subst.
    pose proof (step_alive c s a bs o HB HC HL Ho) as AL.
    destruct (step c s o) as [s1 w] eqn:ES. cbn [snd] in AL.
    unfold alive in AL. rewrite AL in H.
    destruct (run_acc c s1 (acc_step (b_sec s) a o w) r) as [[s2 a2] ws2] eqn:ER.
    injection H as <- <- <-.
    destruct (step_inv c s a o s1 w HB HC ES AL) as (HB1 & HC1).
    destruct (step_layout c s a bs o s1 w HB HC HL (proj1 Ho) ES AL) as (bs1 & HL1).
    constructor; [exact AL|]. eapply IH; eauto.
Qed.

Theorem run_total c ops s0 s a ws :
  init c = Some s0 -> Forall wf_op_sized ops -> run_acc c s0 acc0 ops = (s, a, ws) -> all_alive ws.
Proof.
  intros HI Hwf HR. destruct (init_inv c s0 HI) as (HB0 & HC0).
  eapply (run_acc_total c ops s0 acc0 [12]); eauto. apply (init_layout c); exact HI.
Qed.

Lemma Forall_sized_wf ops : Forall wf_op_sized ops -> Forall wf_op ops.
Proof. intros H. eapply Forall_weaken; [|exact H]. intros o [Ho _]. exact Ho. Qed.

(* the property without side conditions other than well-formed input *)
Theorem build_parse_total c ops s0 s a ws :
  init c = Some s0 -> Forall wf_op_sized ops -> run_acc c s0 acc0 ops = (s, a, ws) ->
  all_alive ws /\ exists a', rd_message (msg_of s) a = Ok a' /\ acc_eqb a' a = true.
Proof.
  intros HI Hwf HR. pose proof (run_total c ops s0 s a ws HI Hwf HR) as AL.
  split; [exact AL|]. apply (build_parse c ops s0 s a ws HI (Forall_sized_wf ops Hwf) HR AL).
Qed.

(* ----------------------------- hash lookups depend only on the set of entries *)

Definition hmatch (m : bytes) (ml : N) (l : label) (pos : N) (e : N * N) : Prop :=
  exists hl, label_at m ml (fst e) = Some hl /\ label_eq hl l = true /\ snd e = pos.

Lemma hash_find_spec m ml l pos : forall es,
  Forall (fun e => label_at m ml (fst e) <> None) es ->
  match hash_find m ml es l pos with
  | Ok (Some h) => exists e, In e es /\ fst e = h /\ hmatch m ml l pos e
  | Ok None => forall e, In e es -> ~ hmatch m ml l pos e
  | _ => False
  end.
Proof.
  induction es as [|[h t] es IH]; intros HR; cbn [hash_find]; [intros e []|].
  inversion HR as [|? ? Hh HR']; subst. cbn [fst] in Hh.
  destruct (label_at m ml h) as [hl|] eqn:EL; [|contradiction].
  destruct (label_eq hl l && (t =? pos)) eqn:E.
  - apply andb_true_iff in E as [E1 E2]. apply N.eqb_eq in E2.
    exists (h, t). split; [left; reflexivity|]. split; [reflexivity|]. exists hl. auto.
  - specialize (IH HR'). destruct (hash_find m ml es l pos) as [[h'|]| | |]; try contradiction.
    + destruct IH as (e & Hin & Hf & Hm). exists e. split; [right; exact Hin|auto].
    + intros e [<-|Hin]; [|apply IH; exact Hin].
      intros (hl' & A & B & C). cbn [fst snd] in *. rewrite EL in A. injection A as <-.
      rewrite B in E. cbn [andb] in E. apply N.eqb_neq in E. contradiction.
Qed.

(* HashTable::find may meet the entries in any order: when at most one entry
   matches a query (the uniqueness the insertion discipline maintains), the
   result is the same for every arrangement of the same entries *)
Theorem hash_find_order_irrelevant m ml l pos es es' :
  (forall e, In e es <-> In e es') ->
  Forall (fun e => label_at m ml (fst e) <> None) es ->
  (forall e1 e2, In e1 es -> In e2 es -> hmatch m ml l pos e1 -> hmatch m ml l pos e2 -> fst e1 = fst e2) ->
  hash_find m ml es' l pos = hash_find m ml es l pos.
Proof.
  intros Hset HR Hu.
  assert (HR' : Forall (fun e => label_at m ml (fst e) <> None) es').
  { rewrite Forall_forall in *. intros e He. apply HR, Hset, He. }
  pose proof (hash_find_spec m ml l pos es HR) as S1. pose proof (hash_find_spec m ml l pos es' HR') as S2.
  destruct (hash_find m ml es l pos) as [[h|]| | |]; try contradiction;
    destruct (hash_find m ml es' l pos) as [[h'|]| | |]; try contradiction.
  - destruct S1 as (e1 & I1 & F1 & M1). destruct S2 as (e2 & I2 & F2 & M2).
    rewrite <- F1, <- F2. f_equal. f_equal. apply Hu; auto. apply Hset; exact I2.
  - destruct S1 as (e1 & I1 & F1 & M1). exfalso. apply (S2 e1); [apply Hset; exact I1|exact M1].
  - destruct S2 as (e2 & I2 & F2 & M2). exfalso. apply (S1 e2); [apply Hset; exact I2|exact M2].
  - reflexivity.
Qed.

(* the size premise of run_total is needed: 65536 octets of record data whose
   length the type does not announce make compose_prefixed panic ("long data") *)
Example long_data_panics :
  let c := mkCfg None false KNone in
  match init c with
  | Some s0 => snd (step c (fst (step c s0 OpNext)) (OpR (mkR [] 16 1 0 true [RBytes (repeat 0 (N.to_nat 65536))])))
               = RPanic P_LONG_DATA
  | None => False
  end.
Proof. vm_compute. reflexivity. Qed.

(* the push limit as coded (`new_pos >= self.limit` fails): an accepted push
   leaves the message strictly shorter than the limit *)
Theorem push_ok_below_limit c ops s0 s a ws o s' l :
  init c = Some s0 -> run_acc c s0 acc0 ops = (s, a, ws) -> all_alive ws ->
  step c s o = (s', ROk) -> b_limit s = Some l -> mlen (w_buf (b_w s')) < l.
Proof.
  intros HI HR AL HS Hl. destruct (init_inv c s0 HI) as (HB0 & HC0).
  destruct (run_acc_inv c ops s0 acc0 s a ws HB0 HC0 HR AL) as (HB & _).
  assert (X : forall f s1, WSpec c f -> mb_push c s f = (s1, ROk) -> mlen (w_buf (b_w s1)) < l).
  { intros f s1 Hf E. destruct (mb_push_cases c s f HB Hf) as [(w' & _ & E' & _ & _ & _ & LH & _)|[(e' & E')|(x & E' & D)]];
      rewrite E' in E; try discriminate.
    - injection E as <-. destruct (upd_proj s w' (count_of s + 1)) as (P0 & _). rewrite P0.
      rewrite Hl in LH. unfold limit_hit, limit_cmp_ge in LH. apply N.leb_gt in LH. exact LH.
    - injection E as _ Ex. subst x. discriminate D. }
  unfold step in HS. destruct o as [q|rr|oh opts| | | |l0|h]; cbn [step_gen] in HS.
  - destruct (b_sec s =? 0); [|discriminate]. eapply X; [apply compose_question_spec|exact HS].
  - destruct (b_sec s =? 0); [discriminate|]. eapply X; [apply compose_record_spec|exact HS].
  - destruct (b_sec s =? 3); [|discriminate].
    destruct (mb_push c s (opt_writer c oh opts)) as [s1 r1] eqn:EM. cbn [fst snd] in HS.
    injection HS as <- ->. unfold set_hdr; cbn [b_w]. eapply X; [apply opt_writer_spec|exact EM].
  - destruct (b_sec s <? 3); discriminate.
  - destruct (b_sec s =? 0); [discriminate|]. destruct (rewind c s); discriminate.
  - destruct (rewind c s); discriminate.
  - discriminate.
  - discriminate.
Qed.

(* non-vacuity of build_parse_total: a script over the hash compressor on a
   stream target with a case variant, a failed push, a rewind and an OPT *)
Definition ex_name1 : name := [[119;119;119]; [69;120]; [99;111;109]].   (* www.Ex.com. *)
Definition ex_name2 : name := [[109]; [101;88]; [99;111;109]].           (* m.eX.com. *)
Definition ex_ops : list op :=
  [OpQ (mkQ ex_name1 1 1); OpNext;
   OpR (mkR ex_name2 15 1 300 false [RBytes [0;10]; RName ex_name1]);
   OpLimit (Some 50); OpR (mkR ex_name1 1 1 5 false [RBytes [1;2;3;4]]); OpLimit None;
   OpNext; OpR (mkR ex_name1 2 1 5 false [RName ex_name2]); OpRewind;
   OpR (mkR [] 6 1 5 true [RName ex_name2; RNameU ex_name1; RBytes [0;0;0;1]]);
   OpHdr (sets_of_fields (fields_of_octets [171; 205; 129; 128]));
   OpNext; OpOpt (mkOH 1232 (Some 4083) 200 32768 true) [(10, 8, [1;2;3;4;5;6;7;8])]].

Lemma ex_ops_wf : Forall wf_op_sized ex_ops.
Proof.
  assert (V : forall l, (1 <=? length l)%nat && (length l <=? 63)%nat && forallb (fun b => b <? 256) l = true -> valid_label l).
  { intros l H. apply andb_true_iff in H as [H H3]. apply andb_true_iff in H as [H1 H2].
    apply Nat.leb_le in H1, H2. split; [lia|]. unfold wf_bytes. apply Forall_forall. intros x Hx.
    rewrite forallb_forall in H3. apply N.ltb_lt, H3, Hx. }
  assert (N1 : name_ok ex_name1) by (split; [repeat constructor; apply V; reflexivity|cbn; lia]).
  assert (N2 : name_ok ex_name2) by (split; [repeat constructor; apply V; reflexivity|cbn; lia]).
  assert (N0 : name_ok []) by (split; [constructor|cbn; lia]).
  unfold ex_ops. repeat constructor; cbn [wf_op wf_q wf_r wf_oh oh_udp oh_ver oh_flags q_name q_type q_class r_owner r_type r_class r_ttl r_data wf_item]; unfold wf_oh; cbn [oh_udp oh_ver oh_flags];
    auto; try lia; try exact I; repeat constructor; auto; try lia; try exact I; cbn; try lia.
Qed.

Example build_parse_example :
  let c := mkCfg None true KHash in
  match c02_run c ex_ops with
  | Some (s, a, ws) =>
      ws = [ROk; RNone; ROk; RNone; RErr E_LIMIT; RNone; RNone; ROk; RNone; ROk; RNone; RNone; ROk] /\
      firstn 4 (msg_of s) = [171; 205; 129; 131] /\
      length (a_q a) = 1%nat /\ length (a_an a) = 1%nat /\ length (a_ns a) = 1%nat /\ length (a_ar a) = 1%nat /\
      c02_reread s a = true /\ mlen (stream_of s) = mlen (msg_of s) + 2
  | None => False
  end.
Proof. vm_compute. repeat split; reflexivity. Qed.

(* were AdditionalBuilder::opt not to put the header RCODE back (the code
   before the fix), a failed OPT push would leave header octet 3 changed:
   additional section, push limit 20, opt(|o| o.set_rcode(0xABC)) *)
Example failed_opt_push_refuted :
  let c := mkCfg None false KNone in
  match init c with
  | Some s0 =>
      let s1 := fst (step_gen false c s0 OpNext) in
      let s2 := fst (step_gen false c s1 OpNext) in
      let s3 := fst (step_gen false c (fst (step_gen false c s2 OpNext)) (OpLimit (Some 20))) in
      let r := step_gen false c s3 (OpOpt (mkOH 1232 (Some 2748) 0 0 true) []) in
      snd r = RErr E_LIMIT /\ firstn 4 (msg_of s3) = [0; 0; 0; 0] /\ firstn 4 (msg_of (fst r)) = [0; 0; 0; 12] /\
      snd (step_gen true c s3 (OpOpt (mkOH 1232 (Some 2748) 0 0 true) [])) = RErr E_LIMIT /\
      fst (step_gen true c s3 (OpOpt (mkOH 1232 (Some 2748) 0 0 true) [])) = s3
  | None => False
  end.
Proof. vm_compute. repeat split; reflexivity. Qed.

(* in every reachable state at most one hash entry matches a query, so the
   lookup of the HashCompressor gives the same answer for every arrangement
   (probe order) of its entries *)
Theorem hash_lookup_order_irrelevant_reachable c ops s0 s a ws l pos es' :
  init c = Some s0 -> Forall wf_op ops -> run_acc c s0 acc0 ops = (s, a, ws) -> all_alive ws ->
  (forall e, In e (w_hash (b_w s)) <-> In e es') ->
  hash_find (w_buf (b_w s)) (mlen (w_buf (b_w s))) es' l pos =
  hash_find (w_buf (b_w s)) (mlen (w_buf (b_w s))) (w_hash (b_w s)) l pos.
Proof.
  intros HI Hwf HR AL Hset. destruct (init_inv c s0 HI) as (HB0 & HC0).
  destruct (run_acc_layout c ops s0 acc0 [12] s a ws HB0 HC0 (init_layout c s0 HI) Hwf HR AL) as (_ & _ & bs & HL).
  destruct HL as (_ & (_ & _ & CH & CU) & _).
  apply hash_find_order_irrelevant; [exact Hset| |].
  - eapply Forall_weaken; [|exact CH]. intros [h t] (l0 & ls0 & e0 & (V & _ & B & _) & _). cbn [fst] in *.
    rewrite (label_at_here _ _ _ V B). discriminate.
  - intros [h1 t1] [h2 t2] I1 I2 (hl1 & A1 & B1 & C1) (hl2 & A2 & B2 & C2). cbn [fst snd] in *. subst t1 t2.
    apply (CU h1 h2 pos hl1 hl2); auto.
    apply label_eq_spec in B1, B2. congruence.
Qed.

(* ------------------------------------------------- header setters, stream prefix *)

(* octets 2 and 3 are set independently, octets 0 and 1 are the id *)
Lemma hdr_apply_split p0 p1 p2 p3 i0 i1 w2 w3 :
  hdr_apply [p0; p1; p2; p3] (fields_of_octets [i0; i1; w2; w3]) =
  [ ((i0 * 256 + i1) / 256) mod 256; (i0 * 256 + i1) mod 256;
    nth 2 (hdr_apply [0; 0; p2; 0] (fields_of_octets [0; 0; w2; 0])) 0;
    nth 3 (hdr_apply [0; 0; 0; p3] (fields_of_octets [0; 0; 0; w3])) 0 ].
Proof. reflexivity. Qed.

Definition byte_values : list N := map N.of_nat (seq 0 256).
Lemma in_byte_values x : x < 256 -> In x byte_values.
Proof. intros H. apply in_map_iff. exists (N.to_nat x). split; [lia|apply in_seq; lia]. Qed.

(* all 65536 (previous octet, wanted octet) pairs, for octet 2 and for octet 3 *)
Lemma hdr_octet2_enum : forallb (fun p => forallb (fun w =>
    nth 2 (hdr_apply [0; 0; p; 0] (fields_of_octets [0; 0; w; 0])) 0 =? w) byte_values) byte_values = true.
Proof. vm_compute. reflexivity. Qed.
Lemma hdr_octet3_enum : forallb (fun p => forallb (fun w =>
    nth 3 (hdr_apply [0; 0; 0; p] (fields_of_octets [0; 0; 0; w])) 0 =? w) byte_values) byte_values = true.
Proof. vm_compute. reflexivity. Qed.

(* the setters of base/header.rs (offsets, bit positions, masks and the shift
   are read from the source) realise the RFC 1035 header layout: called with
   the fields of any four octets they produce those octets, whatever the
   header held before *)
Theorem header_setters_layout p0 p1 p2 p3 i0 i1 w2 w3 :
  p2 < 256 -> p3 < 256 -> i0 < 256 -> i1 < 256 -> w2 < 256 -> w3 < 256 ->
  hdr_apply [p0; p1; p2; p3] (fields_of_octets [i0; i1; w2; w3]) = [i0; i1; w2; w3].
Proof.
  intros P2 P3 I0 I1 W2 W3. rewrite hdr_apply_split.
  pose proof hdr_octet2_enum as E2. pose proof hdr_octet3_enum as E3.
  rewrite forallb_forall in E2, E3.
  specialize (E2 p2 (in_byte_values _ P2)). specialize (E3 p3 (in_byte_values _ P3)).
  rewrite forallb_forall in E2, E3.
  specialize (E2 w2 (in_byte_values _ W2)). specialize (E3 w3 (in_byte_values _ W3)).
  apply N.eqb_eq in E2, E3. rewrite E2, E3. f_equal; [lia|f_equal; lia].
Qed.

(* StreamTarget coordinates: the inner buffer is the two length octets followed
   by the message; truncating the inner buffer to len + prefix (what
   StreamTarget::truncate does) is truncating the message to len, and the
   as_ref() view drops exactly the prefix *)
Theorem stream_coordinates x (buf : bytes) len :
  length (be16 x) = N.to_nat stream_prefix_len /\
  skipn (N.to_nat stream_prefix_len) (be16 x ++ buf) = buf /\
  skipn (N.to_nat stream_prefix_len) (firstn (N.to_nat (len + stream_prefix_len)) (be16 x ++ buf)) = firstn (N.to_nat len) buf.
Proof.
  unfold stream_prefix_len. split; [reflexivity|]. split; [reflexivity|].
  replace (N.to_nat (len + 2)) with (S (S (N.to_nat len))) by lia. reflexivity.
Qed.

(* the StaticCompressor never remembers more than its 24 slots, and only
   positions a compression pointer can express *)
Lemma static_insert_bound pos es es' :
  (length es <= 24)%nat -> static_insert pos es = Some es' ->
  (length es' <= 24)%nat /\ pos < 16384 /\ es' = es ++ [pos].
Proof.
  unfold static_insert, static_ptr_limit, static_cap_lt, static_capacity. intros L H.
  destruct (N.ltb_spec pos 16384) as [P|P]; [|discriminate].
  destruct (N.ltb_spec (N.of_nat (length es)) 24) as [Q|Q]; [|discriminate].
  injection H as <-. rewrite app_length. cbn [length]. repeat split; auto; lia.
Qed.
