(* C02 proofs, part 12: no operation of a reachable builder panics or runs out
   of fuel, provided record data is at most 65535 octets long (what the typed
   record data constructors of the library guarantee). *)
From Coq Require Import NArith List Bool Lia ZArith.
From Coq Require Import ZifyN ZifyBool ZifyNat.
From DV Require Import Base.Outcome Base.Bytes Base.Names Base.PName C02.Gen C02.Model
  C02.ProofsBasic C02.ProofsRun C02.ProofsName C02.ProofsComp C02.ProofsStatic C02.ProofsHash C02.ProofsTop
  C02.ProofsLayout C02.ProofsRead C02.ProofsWrite C02.ProofsBuild.
Import ListNotations.
Local Open Scope N_scope.
Ltac Zify.zify_post_hook ::= Z.div_mod_to_equations.

Definition NoDead (r : wres) : Prop := match r with WPanic _ | WFuel => False | _ => True end.

Lemma NoDead_bind r g : NoDead r -> (forall w1, r = WOk w1 -> NoDead (g w1)) -> NoDead (wbind r g).
Proof. destruct r; cbn [wbind NoDead]; auto. Qed.

Lemma append_slice_nodead c s w : NoDead (append_slice c s w).
Proof. unfold append_slice. destruct (negb _); [exact I|]. destruct (t_stream c); [destruct (_ <=? _)|]; exact I. Qed.
Lemma label_compose_nodead c l w : NoDead (label_compose c l w).
Proof. unfold label_compose. apply NoDead_bind; [apply append_slice_nodead|intros; apply append_slice_nodead]. Qed.
Lemma write_labels_nodead c ls : forall w, NoDead (write_labels c ls w).
Proof.
  induction ls as [|l r IH]; intros w; cbn [write_labels]; [exact I|].
  apply NoDead_bind; [apply label_compose_nodead|intros; apply IH].
Qed.

(* ------------------------------------------------ SliceLabelsIter terminates *)

Lemma sli_loop_fuel m ml : forall f start seg, (N.to_nat seg < f)%nat -> sli_loop f m ml start seg <> SliFuel.
Proof.
  induction f as [|f IH]; intros start seg Hf; [lia|]. cbn [sli_loop].
  destruct (get m start) as [h|]; [|discriminate].
  destruct (h <=? 63); [destruct (ml <? start + h + 1); discriminate|].
  destruct (192 <=? h); [|discriminate].
  destruct (get m (start + 1)) as [c|]; [|discriminate].
  unfold sli_ptr_ge_segment. destruct (N.leb_spec seg (c + 256 * (h mod 64))); [discriminate|].
  apply IH. lia.
Qed.

Lemma sli_next_fuel m ml st : sli_next m ml st <> SliFuel.
Proof.
  unfold sli_next. destruct st as [[start seg]|]; [|discriminate].
  destruct (ml <=? start); [discriminate|]. apply sli_loop_fuel. lia.
Qed.

Lemma labels_eq_sli_fuel m ml : forall a st, labels_eq_sli a m ml st <> None.
Proof.
  induction a as [|x a IH]; intros st; cbn [labels_eq_sli]; pose proof (sli_next_fuel m ml st) as F;
    destruct (sli_next m ml st) as [|y st'|]; try discriminate; try contradiction.
  destruct (label_eq x y); [apply IH|discriminate].
Qed.

Lemma static_get_fuel m ml q : forall es, static_get m ml es q <> None.
Proof.
  induction es as [|e es IH]; cbn [static_get]; [discriminate|].
  pose proof (labels_eq_sli_fuel m ml (q ++ [[]]) (Some (e, e))) as F.
  destruct (labels_eq_sli (q ++ [[]]) m ml (Some (e, e))) as [[|]|]; [discriminate|exact IH|contradiction].
Qed.

Lemma static_acn_nodead c ls : forall w, NoDead (static_acn c ls w).
Proof.
  induction ls as [|l rest IH]; intros w; cbn [static_acn]; [apply append_slice_nodead|].
  pose proof (static_get_fuel (w_buf w) (mlen (w_buf w)) (l :: rest) (w_static w)) as F.
  destruct (static_get _ _ _ _) as [[pos|]|]; [apply append_slice_nodead| |contradiction].
  destruct (static_insert _ _).
  - apply NoDead_bind; [apply label_compose_nodead|intros; apply IH].
  - apply NoDead_bind; [apply write_labels_nodead|intros; apply append_slice_nodead].
Qed.

Lemma tree_acn_nodead c ls : forall w, NoDead (tree_acn c ls w).
Proof.
  induction ls as [|l rest IH]; intros w; cbn [tree_acn]; [apply append_slice_nodead|].
  destruct (tree_get _ _); [apply append_slice_nodead|].
  destruct (tree_insert _ _ _).
  - apply NoDead_bind; [apply label_compose_nodead|intros; apply IH].
  - apply NoDead_bind; [apply write_labels_nodead|intros; apply append_slice_nodead].
Qed.

(* ------------------------------------------------- hash heads are readable *)

Lemma hash_find_nopanic m (ok : N -> Prop) es l pos :
  Forall (fun e => HashOK m ok (fst e) (snd e)) es ->
  exists r, hash_find m (mlen m) es l pos = Ok r.
Proof.
  induction 1 as [|[h t] es (l0 & ls0 & e & HL & _) _ IH]; cbn [hash_find]; [eauto|].
  cbn [fst] in HL. destruct HL as (Hv & _ & Hb & _). rewrite (label_at_here _ _ _ Hv Hb).
  destruct (label_eq l0 l && (t =? pos)); [eauto|exact IH].
Qed.

Lemma hash_walk_nopanic m (ok : N -> Prop) es :
  Forall (fun e => HashOK m ok (fst e) (snd e)) es ->
  forall rl pos, exists r, hash_walk m (mlen m) es rl pos = Ok r.
Proof.
  intros H. induction rl as [|l rl IH]; intros pos; cbn [hash_walk]; [eauto|].
  destruct (hash_find_nopanic m ok es l pos H) as ([h|] & E); rewrite E; [apply IH|eauto].
Qed.

Lemma hash_write_nodead c position : forall ls w, NoDead (hash_write c ls position w).
Proof.
  induction ls as [|l r IH]; intros w; cbn [hash_write]; [exact I|].
  apply NoDead_bind; [apply label_compose_nodead|]. intros w1 _. destruct (_ <? hash_ptr_limit); apply IH.
Qed.

Lemma acn_nodead c (ok : N -> Prop) n w : CInv ok w -> NoDead (acn c n w).
Proof.
  intros (_ & _ & CH). unfold acn. destruct (t_kind c);
    [apply append_slice_nodead|apply static_acn_nodead|apply tree_acn_nodead|].
  unfold hash_acn. destruct (hash_walk_nopanic (w_buf w) ok (w_hash w) CH (rev n) hash_root_pos) as ([position rest] & E).
  rewrite E. apply NoDead_bind; [apply hash_write_nodead|].
  intros w1 _. destruct (position =? hash_root_pos); apply append_slice_nodead.
Qed.

(* ------------------------------------------ compression never lengthens a name *)

Lemma write_ptr_len c tag pos w w' : write_ptr c tag pos w = WOk w' -> mlen (w_buf w') = mlen (w_buf w) + 2.
Proof. unfold write_ptr. intros H. apply append_slice_mlen in H. rewrite H. reflexivity. Qed.

Lemma loop_len_static c : forall ls w w', static_acn c ls w = WOk w' ->
  mlen (w_buf w') <= mlen (w_buf w) + mlen (wire_rel ls) + 1.
Proof.
  induction ls as [|l rest IH]; intros w w' H; cbn [static_acn] in H.
  - apply append_slice_mlen in H. rewrite H. change (mlen [0]) with 1. change (mlen (wire_rel [])) with 0. lia.
  - rewrite mlen_wire_rel_cons.
    destruct (static_get _ _ _ _) as [[pos|]|]; [apply write_ptr_len in H; lia| |discriminate].
    destruct (static_insert _ _).
    + match type of H with wbind ?x _ = _ => destruct x as [w1|w1| |] eqn:EL end; cbn [wbind] in H; try discriminate.
      apply label_compose_ok in EL as [B1 _]. unfold set_static in B1; cbn [w_buf] in B1.
      apply IH in H. rewrite B1, mlen_app, mlen_cons in H. lia.
    + destruct (write_labels c (l :: rest) w) as [w1|w1| |] eqn:EW; cbn [wbind] in H; try discriminate.
      apply write_labels_ok in EW as [B1 _]. apply append_slice_mlen in H.
      rewrite H, B1, mlen_app, mlen_wire_rel_cons. change (mlen [0]) with 1. lia.
Qed.

Lemma loop_len_tree c : forall ls w w', tree_acn c ls w = WOk w' ->
  mlen (w_buf w') <= mlen (w_buf w) + mlen (wire_rel ls) + 1.
Proof.
  induction ls as [|l rest IH]; intros w w' H; cbn [tree_acn] in H.
  - apply append_slice_mlen in H. rewrite H. change (mlen [0]) with 1. change (mlen (wire_rel [])) with 0. lia.
  - rewrite mlen_wire_rel_cons.
    destruct (tree_get _ _); [apply write_ptr_len in H; lia|].
    destruct (tree_insert _ _ _).
    + match type of H with wbind ?x _ = _ => destruct x as [w1|w1| |] eqn:EL end; cbn [wbind] in H; try discriminate.
      apply label_compose_ok in EL as [B1 _]. unfold set_tree in B1; cbn [w_buf] in B1.
      apply IH in H. rewrite B1, mlen_app, mlen_cons in H. lia.
    + destruct (write_labels c (l :: rest) w) as [w1|w1| |] eqn:EW; cbn [wbind] in H; try discriminate.
      apply write_labels_ok in EW as [B1 _]. apply append_slice_mlen in H.
      rewrite H, B1, mlen_app, mlen_wire_rel_cons. change (mlen [0]) with 1. lia.
Qed.

Lemma hash_walk_split m ml es : forall rl pos pos' rest,
  hash_walk m ml es rl pos = Ok (pos', rest) ->
  exists consumed, rl = consumed ++ rest /\ (consumed = [] -> pos' = pos).
Proof.
  induction rl as [|l rl IH]; intros pos pos' rest H; cbn [hash_walk] in H.
  - injection H as <- <-. exists []. auto.
  - destruct (hash_find m ml es l pos) as [[h|]| | |]; try discriminate.
    + destruct (IH _ _ _ H) as (cs & -> & _). exists (l :: cs). split; [reflexivity|discriminate].
    + injection H as <- <-. exists []. auto.
Qed.

Lemma mlen_wire_rel_app a b : mlen (wire_rel (a ++ b)) = mlen (wire_rel a) + mlen (wire_rel b).
Proof. rewrite wire_rel_app, mlen_app. reflexivity. Qed.

Lemma mlen_wire_rel_pos l ls : 1 <= mlen (wire_rel (l :: ls)).
Proof. rewrite mlen_wire_rel_cons. lia. Qed.

Lemma acn_len c n w w' : acn c n w = WOk w' -> mlen (w_buf w') <= mlen (w_buf w) + mlen (wire_abs n).
Proof.
  assert (E : mlen (wire_abs n) = mlen (wire_rel n) + 1) by (unfold wire_abs; rewrite mlen_app; reflexivity).
  unfold acn. destruct (t_kind c); intros H.
  - apply append_slice_mlen in H. lia.
  - apply loop_len_static in H. lia.
  - apply loop_len_tree in H. lia.
  - unfold hash_acn in H.
    destruct (hash_walk _ _ _ _ _) as [[position rest]| | |] eqn:EW; try discriminate.
    destruct (hash_walk_split _ _ _ _ _ _ _ EW) as (cs & Erl & Hcs).
    match type of H with wbind ?x _ = _ => destruct x as [w1|w1| |] eqn:EH end; cbn [wbind] in H; try discriminate.
    apply hash_write_ok in EH as (B1 & _).
    assert (En : n = rev rest ++ rev cs) by (rewrite <- (rev_involutive n), Erl, rev_app_distr; reflexivity).
    rewrite E, En, mlen_wire_rel_app. rewrite B1, mlen_app in *.
    destruct (N.eqb_spec position hash_root_pos) as [X|X].
    + apply append_slice_mlen in H. rewrite H, mlen_app. change (mlen [0]) with 1. lia.
    + apply write_ptr_len in H. rewrite H, mlen_app.
      destruct cs as [|x cs]; [specialize (Hcs eq_refl); congruence|].
      cbn [rev]. rewrite mlen_wire_rel_app. pose proof (mlen_wire_rel_pos x []). lia.
Qed.

Lemma compose_items_len_le c : forall items w w',
  compose_items c items w = WOk w' -> mlen (w_buf w') <= mlen (w_buf w) + rdata_ulen items.
Proof.
  induction items as [|it r IH]; intros w w' H; cbn [compose_items] in H.
  - injection H as <-. cbn. lia.
  - cbn [rdata_ulen fold_right]. fold (rdata_ulen r).
    destruct it as [b|n|n].
    + destruct (append_slice c b w) as [w1|w1| |] eqn:E1; cbn [wbind] in H; try discriminate.
      apply append_slice_mlen in E1. apply IH in H. cbn [item_ulen]. lia.
    + destruct (acn c n w) as [w1|w1| |] eqn:E1; cbn [wbind] in H; try discriminate.
      apply acn_len in E1. apply IH in H. cbn [item_ulen]. lia.
    + destruct (append_slice c (wire_abs n) w) as [w1|w1| |] eqn:E1; cbn [wbind] in H; try discriminate.
      apply append_slice_mlen in E1. apply IH in H. cbn [item_ulen]. lia.
Qed.
