(* C02 proofs, part 18: the counter ceiling.  Pushing n root questions into an
   unbounded target without compressor, through the step model, gives the
   numbers SchemaModel.c02_count computes by arithmetic: the count saturates at
   count_max (65535), push number count_max + 1 and every later one fails with
   CountOverflow and leaves the state as it was. *)
From Coq Require Import NArith List Bool Lia ZArith.
From Coq Require Import ZifyN ZifyBool ZifyNat.
From DV Require Import Base.Outcome Base.Bytes Base.Names Base.PName C02.Gen C02.Model C02.SchemaModel
  C02.ProofsBasic C02.ProofsClone C02.ProofsRun C02.ProofsName C02.ProofsComp C02.ProofsStatic C02.ProofsHash C02.ProofsTop
  C02.ProofsLayout C02.ProofsRead C02.ProofsWrite C02.ProofsBuild C02.ProofsTotal C02.ProofsX C02.ProofsReuse.
Import ListNotations.
Local Open Scope N_scope.

Definition cfg_vec : tcfg := mkCfg None false KNone.
Definition rootq : question := mkQ [] 1 1.

Lemma cq_vec w : compose_question cfg_vec rootq w = WOk (set_buf w (w_buf w ++ [0; 0; 1; 0; 1])).
Proof.
  unfold compose_question, acn, append_slice, cfg_vec, rootq; cbn [t_kind t_cap t_stream q_name q_type q_class negb wbind].
  unfold set_buf; cbn [w_buf w_shim w_static w_tree w_hash]. rewrite <- !app_assoc. reflexivity.
Qed.

Definition CInvS (s : bstate) (a : acc) (k : N) : Prop :=
  BW cfg_vec s /\ CountInv s a /\ b_sec s = 0 /\ b_limit s = None /\ b_qd s = k /\
  mlen (w_buf (b_w s)) = 12 + 5 * k /\ k <= 65535.

Lemma set_count_limit s v : b_limit (set_count s v) = b_limit s.
Proof. unfold set_count. destruct (b_sec s =? 0); [|destruct (b_sec s =? 1); [|destruct (b_sec s =? 2)]]; reflexivity. Qed.
Lemma set_count_qd s v : b_sec s = 0 -> b_qd (set_count s v) = v.
Proof. intros E. unfold set_count. rewrite E. reflexivity. Qed.

Lemma step_count s a k : CInvS s a k ->
  exists s' w, step cfg_vec s (OpQ rootq) = (s', w) /\
    (if k <? 65535 then w = ROk /\ CInvS s' (acc_step 0 a (OpQ rootq) ROk) (k + 1)
     else w = RErr E_COUNT /\ s' = s).
Proof.
  intros (HB & HC & Hs & Hl & Hq & Hm & Hk).
  destruct (step cfg_vec s (OpQ rootq)) as [s' w] eqn:ES. exists s', w. split; [reflexivity|].
  pose proof ES as ES0.
  unfold step in ES. cbn [step_gen] in ES. rewrite Hs in ES. cbn [N.eqb] in ES.
  unfold mb_push in ES. rewrite cq_vec, Hl in ES. cbn [limit_hit] in ES.
  assert (Cn : count_of s = k) by (unfold count_of; rewrite Hs; exact Hq). rewrite Cn in ES.
  unfold count_max in ES.
  destruct (N.ltb_spec k 65535) as [L|L].
  - destruct (N.leb_spec 65535 k) as [X|_]; [lia|]. injection ES as <- <-. split; [reflexivity|].
    destruct (step_inv cfg_vec s a (OpQ rootq) _ _ HB HC ES0 eq_refl) as (HB' & HC'). rewrite Hs in HC'.
    destruct (upd_proj s (set_buf (b_w s) (w_buf (b_w s) ++ [0; 0; 1; 0; 1])) (k + 1)) as (P0 & P1 & _).
    split; [exact HB'|]. split; [exact HC'|]. split; [rewrite P1; exact Hs|].
    split; [rewrite set_count_limit; exact Hl|]. split; [apply set_count_qd; exact Hs|].
    split; [|lia]. rewrite P0. unfold set_buf; cbn [w_buf]. rewrite mlen_app, Hm. change (mlen [0; 0; 1; 0; 1]) with 5. lia.
  - destruct (N.leb_spec 65535 k) as [_|X]; [|lia].
    pose proof HB as (TB & SI & _). pose proof (compose_question_spec cfg_vec rootq (b_w s) TB SI) as S. rewrite cq_vec in S.
    destruct S as (E & _). rewrite (fail_push_back cfg_vec s _ E_COUNT HB E) in ES. injection ES as <- <-. auto.
Qed.

Lemma run_count : forall n s a k, CInvS s a k ->
  exists s' a' ws, run_acc cfg_vec s a (repeat (OpQ rootq) n) = (s', a', ws) /\
    CInvS s' a' (N.min (k + N.of_nat n) 65535) /\
    (n <> O -> last ws RNone = if 65535 <? k + N.of_nat n then RErr E_COUNT else ROk).
Proof.
  induction n as [|n IH]; intros s a k HI.
  - exists s, a, []. split; [reflexivity|]. pose proof HI as (_ & _ & _ & _ & _ & _ & Hk).
    replace (N.min (k + N.of_nat 0) 65535) with k by lia. split; [exact HI|]. congruence.
  - pose proof HI as (_ & _ & Hs & _ & _ & _ & Hk).
    destruct (step_count s a k HI) as (s1 & w & ES & Hw). cbn [repeat run_acc]. rewrite ES.
    destruct (N.ltb_spec k 65535) as [L|L].
    + destruct Hw as (-> & HI1). cbn [is_dead]. rewrite Hs.
      destruct (IH s1 _ (k + 1) HI1) as (s2 & a2 & ws & ER & HI2 & HL). rewrite ER.
      exists s2, a2, (ROk :: ws). split; [reflexivity|].
      replace (N.min (k + N.of_nat (S n)) 65535) with (N.min (k + 1 + N.of_nat n) 65535) by lia.
      split; [exact HI2|]. intros _. destruct n as [|n'].
      * cbn [repeat run_acc] in ER. injection ER as _ _ <-. cbn [last].
        destruct (N.ltb_spec 65535 (k + N.of_nat 1)); [lia|reflexivity].
      * specialize (HL ltac:(discriminate)). destruct ws as [|x ws']; [cbn [repeat run_acc] in ER; destruct (step cfg_vec s1 (OpQ rootq)) as [? ?]; destruct (is_dead _); [|destruct (run_acc _ _ _ _) as [[? ?] ?]]; discriminate|].
        change (last (ROk :: x :: ws') RNone) with (last (x :: ws') RNone). rewrite HL.
        replace (k + 1 + N.of_nat (S n')) with (k + N.of_nat (S (S n'))) by lia. reflexivity.
    + destruct Hw as (-> & ->). cbn [is_dead].
      assert (HI1 : CInvS s (acc_step (b_sec s) a (OpQ rootq) (RErr E_COUNT)) k) by exact HI.
      destruct (IH s _ k HI1) as (s2 & a2 & ws & ER & HI2 & HL). rewrite ER.
      exists s2, a2, (RErr E_COUNT :: ws). split; [reflexivity|].
      replace (N.min (k + N.of_nat (S n)) 65535) with (N.min (k + N.of_nat n) 65535) by lia.
      split; [exact HI2|]. intros _. destruct (N.ltb_spec 65535 (k + N.of_nat (S n))) as [_|X]; [|lia].
      destruct n as [|n'].
      * cbn [repeat run_acc] in ER. injection ER as _ _ <-. reflexivity.
      * specialize (HL ltac:(discriminate)). destruct ws as [|x ws']; [cbn [repeat run_acc] in ER; destruct (step cfg_vec s (OpQ rootq)) as [? ?]; destruct (is_dead _); [|destruct (run_acc _ _ _ _) as [[? ?] ?]]; discriminate|].
        change (last (RErr E_COUNT :: x :: ws') RNone) with (last (x :: ws') RNone). rewrite HL.
        destruct (N.ltb_spec 65535 (k + N.of_nat (S n'))); [reflexivity|lia].
Qed.

Lemma init_count s0 : init cfg_vec = Some s0 -> CInvS s0 acc0 0.
Proof.
  intros HI. destruct (init_inv cfg_vec s0 HI) as (HB & HC). split; [exact HB|]. split; [exact HC|].
  unfold init in HI. cbn in HI. injection HI as <-. cbn. repeat split; try reflexivity; lia.
Qed.

(* the arithmetic path of the driver is the step model *)
Theorem count_run_is_arith n s0 s a ws :
  init cfg_vec = Some s0 -> n <> O ->
  run_acc cfg_vec s0 acc0 (repeat (OpQ rootq) n) = (s, a, ws) ->
  c02_count (N.of_nat n) =
  (b_qd s, mlen (w_buf (b_w s)), match last ws RNone with RErr e => e =? E_COUNT | _ => false end).
Proof.
  intros HI Hn HR. destruct (run_count n s0 acc0 0 (init_count s0 HI)) as (s' & a' & ws' & ER & HI' & HL).
  rewrite HR in ER. injection ER as <- <- <-. specialize (HL Hn).
  destruct HI' as (_ & _ & _ & _ & Hq & Hm & _). rewrite N.add_0_l in *.
  unfold c02_count, count_max, header_len. rewrite Hq, Hm, HL.
  destruct (N.ltb_spec 65535 (N.of_nat n)); reflexivity.
Qed.
