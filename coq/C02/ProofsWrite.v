(* C02 proofs, part 10: what a successful compose_question / compose_record /
   compose_opt leaves in the buffer, together with the compressor invariant. *)
From Coq Require Import NArith List Bool Lia ZArith.
From Coq Require Import ZifyN ZifyBool ZifyNat.
From DV Require Import Base.Outcome Base.Bytes Base.Names Base.PName C02.Gen C02.Model
  C02.ProofsBasic C02.ProofsRun C02.ProofsName C02.ProofsComp C02.ProofsStatic C02.ProofsHash C02.ProofsTop
  C02.ProofsLayout.
Import ListNotations.
Local Open Scope N_scope.
Ltac Zify.zify_post_hook ::= Z.div_mod_to_equations.

Definition WG (c : tcfg) (ok : N -> Prop) (w : ws) : Prop := TBound w /\ SInv c w /\ CInv ok w.

Lemma WG_append c (ok : N -> Prop) s w w' :
  WG c ok w -> append_slice c s w = WOk w' -> WG c ok w' /\ w_buf w' = w_buf w ++ s.
Proof.
  intros (TB & SI & CI) H. pose proof (append_slice_spec c s w TB SI) as HS. rewrite H in HS.
  destruct HS as (_ & TB' & SI'). apply append_slice_ok in H as [B T].
  split; [|exact B]. split; [exact TB'|]. split; [exact SI'|]. eapply CInv_app; eauto.
Qed.

Lemma WG_acn c (ok : N -> Prop) n w w' :
  WG c ok w -> (forall i, mlen (w_buf w) <= i -> ok i) -> name_ok n -> acn c n w = WOk w' ->
  WG c ok w' /\ NameAtO (w_buf w') ok (mlen (w_buf w)) n (mlen (w_buf w')) /\
  exists sfx, w_buf w' = w_buf w ++ sfx.
Proof.
  intros (TB & SI & CI) Ho Hn H. pose proof (acn_spec c n w TB SI) as HS. rewrite H in HS.
  destruct HS as ([[sfx B] _ _ _ _] & TB' & SI').
  destruct (acn_ok c ok n w w' (proj1 Hn) TB SI CI Ho H) as (CI' & n' & Hc & HN).
  split; [split; [exact TB'|split; [exact SI'|exact CI']]|]. split; [|exists sfx; exact B].
  exists n'. auto.
Qed.

Lemma BytesAtO_end b (ok : N -> Prop) s : (forall i, mlen b <= i -> ok i) -> BytesAtO (b ++ s) ok (mlen b) s.
Proof.
  intros Ho. split; [|split].
  - pose proof (bytes_at_app b s []) as X. rewrite app_nil_r in X. exact X.
  - intros i Hi. apply Ho. lia.
  - rewrite mlen_app. lia.
Qed.

Lemma compose_items_ok c (ok : N -> Prop) : forall items w w',
  WG c ok w -> (forall i, mlen (w_buf w) <= i -> ok i) -> Forall wf_item items ->
  compose_items c items w = WOk w' ->
  WG c ok w' /\ ItemsIn (w_buf w') ok (mlen (w_buf w)) items (mlen (w_buf w')) /\
  exists sfx, w_buf w' = w_buf w ++ sfx.
Proof.
  induction items as [|it r IH]; intros w w' HW Ho Hwf H; cbn [compose_items] in H.
  - injection H as <-. split; [exact HW|]. split; [constructor|exists []; rewrite app_nil_r; reflexivity].
  - inversion Hwf as [|? ? Hit Hwf']; subst.
    destruct it as [b|n|n].
    + destruct (append_slice c b w) as [w1|w1| |] eqn:E1; cbn [wbind] in H; try discriminate.
      destruct (WG_append c ok b w w1 HW E1) as (HW1 & B1).
      assert (L1 : mlen (w_buf w1) = mlen (w_buf w) + mlen b) by (rewrite B1, mlen_app; reflexivity).
      destruct (IH w1 w' HW1 ltac:(intros; apply Ho; lia) Hwf' H) as (HW' & HI & sfx & B').
      split; [exact HW'|]. split; [|exists (b ++ sfx); rewrite B', B1, <- app_assoc; reflexivity].
      apply II_bytes; [|rewrite <- L1; exact HI].
      apply (BytesAtO_agree (w_buf w1) (w_buf w')); [rewrite B'; apply agree_on_app|rewrite B', mlen_app; lia|].
      rewrite B1. apply BytesAtO_end; exact Ho.
    + destruct (acn c n w) as [w1|w1| |] eqn:E1; cbn [wbind] in H; try discriminate.
      destruct (WG_acn c ok n w w1 HW Ho Hit E1) as (HW1 & HN & sfx1 & B1).
      assert (L1 : mlen (w_buf w) <= mlen (w_buf w1)) by (rewrite B1, mlen_app; lia).
      destruct (IH w1 w' HW1 ltac:(intros; apply Ho; lia) Hwf' H) as (HW' & HI & sfx & B').
      split; [exact HW'|]. split; [|exists (sfx1 ++ sfx); rewrite B', B1, <- app_assoc; reflexivity].
      eapply II_name; [|exact HI]. apply (NameAtO_agree (w_buf w1) (w_buf w')); [rewrite B'; apply agree_on_app|exact HN].
    + destruct (append_slice c (wire_abs n) w) as [w1|w1| |] eqn:E1; cbn [wbind] in H; try discriminate.
      destruct (WG_append c ok _ w w1 HW E1) as (HW1 & B1).
      assert (L1 : mlen (w_buf w1) = mlen (w_buf w) + mlen (wire_abs n)) by (rewrite B1, mlen_app; reflexivity).
      destruct (IH w1 w' HW1 ltac:(intros; apply Ho; lia) Hwf' H) as (HW' & HI & sfx & B').
      split; [exact HW'|]. split; [|exists (wire_abs n ++ sfx); rewrite B', B1, <- app_assoc; reflexivity].
      eapply II_nameu; [|exact HI].
      exists n. split; [|split; [reflexivity|exact Hit]].
      rewrite L1, B', B1, <- app_assoc. apply NameIn_wire; [exact (proj1 Hit)|exact Ho|lia].
Qed.

(* without compression the record data has its declared length *)
Lemma compose_items_len c : forall items w w',
  (can_compress c = false \/ existsb is_rname items = false) ->
  compose_items c items w = WOk w' -> mlen (w_buf w') = mlen (w_buf w) + rdata_ulen items.
Proof.
  induction items as [|it r IH]; intros w w' K H; cbn [compose_items] in H.
  - injection H as <-. cbn. lia.
  - assert (K' : can_compress c = false \/ existsb is_rname r = false).
    { destruct K as [K|K]; [left; exact K|right]. cbn [existsb] in K. apply orb_false_iff in K. tauto. }
    cbn [rdata_ulen fold_right]. fold (rdata_ulen r).
    destruct it as [b|n|n].
    + destruct (append_slice c b w) as [w1|w1| |] eqn:E1; cbn [wbind] in H; try discriminate.
      apply append_slice_mlen in E1. rewrite (IH w1 w' K' H), E1. cbn [item_ulen]. lia.
    + destruct K as [K|K]; [|cbn [existsb is_rname orb] in K; discriminate].
      unfold acn in H. unfold can_compress in K. destruct (t_kind c); try discriminate.
      destruct (append_slice c (wire_abs n) w) as [w1|w1| |] eqn:E1; cbn [wbind] in H; try discriminate.
      apply append_slice_mlen in E1. rewrite (IH w1 w' K' H), E1. cbn [item_ulen]. lia.
    + destruct (append_slice c (wire_abs n) w) as [w1|w1| |] eqn:E1; cbn [wbind] in H; try discriminate.
      apply append_slice_mlen in E1. rewrite (IH w1 w' K' H), E1. cbn [item_ulen]. lia.
Qed.

Lemma nth_error_mid {A} (a x y c : list A) k :
  length x = length y -> (k < length a \/ length a + length x <= k)%nat ->
  nth_error (a ++ x ++ c) k = nth_error (a ++ y ++ c) k.
Proof.
  intros L [H|H].
  - rewrite !nth_error_app1; auto.
  - rewrite !(nth_error_app2 a) by lia. rewrite !nth_error_app2 by lia. rewrite L. reflexivity.
Qed.

Lemma skipn_add {A} (l : list A) n k : skipn k (skipn n l) = skipn (n + k) l.
Proof.
  revert l. induction n as [|n IH]; intros l; [reflexivity|].
  destruct l as [|x l]; [destruct k; reflexivity|]. cbn [skipn Nat.add]. apply IH.
Qed.

Lemma patch16_get pos v b i : pos + 2 <= mlen b -> (i < pos \/ pos + 2 <= i) ->
  get (patch16 pos v b) i = get b i.
Proof.
  intros L H. unfold patch16, get, mlen in *.
  set (n := N.to_nat pos). set (k := N.to_nat i).
  assert (Hb : b = firstn n b ++ firstn 2 (skipn n b) ++ skipn (n + 2) b).
  { rewrite <- (firstn_skipn n b) at 1. f_equal. rewrite <- (firstn_skipn 2 (skipn n b)) at 1. f_equal.
    rewrite skipn_add. reflexivity. }
  transitivity (nth_error (firstn n b ++ firstn 2 (skipn n b) ++ skipn (n + 2) b) k); [|rewrite <- Hb; reflexivity].
  apply nth_error_mid.
  - rewrite be16_length, firstn_length, skipn_length. subst n. lia.
  - rewrite be16_length, firstn_length. subst n k. lia.
Qed.

Lemma patch16_zero v x y r : patch16 0 v (x :: y :: r) = be16 v ++ r.
Proof. reflexivity. Qed.

(* ---------------------------------------------------------------- question *)

Definition ok12 : N -> Prop := fun i => 12 <= i.

Lemma compose_question_ok c q w w' :
  WG c ok12 w -> 12 <= mlen (w_buf w) -> wf_q q -> compose_question c q w = WOk w' ->
  WG c ok12 w' /\ QAt (w_buf w') (mlen (w_buf w)) q (mlen (w_buf w')) /\ exists sfx, w_buf w' = w_buf w ++ sfx.
Proof.
  intros HW L (Hn & Ht & Hc) H. unfold compose_question in H.
  destruct (acn c (q_name q) w) as [w1|w1| |] eqn:E1; cbn [wbind] in H; try discriminate.
  destruct (WG_acn c ok12 _ w w1 HW ltac:(unfold ok12; intros; lia) Hn E1) as (HW1 & HN & sfx1 & B1).
  destruct (append_slice c (be16 (q_type q)) w1) as [w2|w2| |] eqn:E2; cbn [wbind] in H; try discriminate.
  destruct (WG_append c ok12 _ w1 w2 HW1 E2) as (HW2 & B2).
  destruct (WG_append c ok12 _ w2 w' HW2 H) as (HW' & B3).
  assert (Bf : w_buf w' = w_buf w1 ++ (be16 (q_type q) ++ be16 (q_class q))) by (rewrite B3, B2, <- app_assoc; reflexivity).
  split; [exact HW'|]. split; [|exists (sfx1 ++ be16 (q_type q) ++ be16 (q_class q)); rewrite Bf, B1, <- app_assoc; reflexivity].
  exists (mlen (w_buf w1)).
  assert (Le : mlen (w_buf w') = mlen (w_buf w1) + 4) by (rewrite Bf, mlen_app; reflexivity).
  split; [|split; [|split; [exact Le|split; [exact (conj Hn (conj Ht Hc))|exact L]]]].
  - apply (NameAtO_weaken _ (fun i => ok12 i /\ i < mlen (w_buf w'))); [unfold okb, ok12; cbv beta; tauto|].
    apply NameAtO_below. apply (NameAtO_agree (w_buf w1) (w_buf w')); [rewrite Bf; apply agree_on_app|exact HN].
  - apply (BytesAtO_weaken _ (fun i => ok12 i /\ i < mlen (w_buf w'))); [unfold okb, ok12; cbv beta; tauto|].
    apply BytesAtO_below. rewrite Bf. apply (BytesAtO_end _ ok12).
    pose proof (NameAtO_end _ _ _ _ _ HN). unfold ok12. intros; lia.
Qed.

(* ------------------------------------------------------------------ record *)

(* positions other than the two RDLENGTH octets at ph *)
Definition okph (ph : N) : N -> Prop := fun i => 12 <= i /\ ~ (ph <= i < ph + 2).

Lemma below_to_okb (P : N -> Prop) e i : (ok12 i /\ i < e) -> okb e i.
Proof. unfold ok12, okb. tauto. Qed.

Lemma WG_patch c (ok : N -> Prop) w pos v :
  WG c ok w -> pos + 2 <= mlen (w_buf w) -> (forall i, ok i -> i < pos \/ pos + 2 <= i) ->
  WG c ok (set_buf w (patch16 pos v (w_buf w))) /\ agree_on ok (w_buf w) (patch16 pos v (w_buf w)).
Proof.
  intros (TB & SI & CI) L Hok.
  assert (Lm : mlen (patch16 pos v (w_buf w)) = mlen (w_buf w)) by (apply patch16_mlen; exact L).
  assert (Ag : agree_on ok (w_buf w) (patch16 pos v (w_buf w))).
  { intros i x Hi Hg. rewrite patch16_get; auto. }
  split; [|exact Ag]. split; [|split].
  - unfold TBound, set_buf in *; cbn [w_buf w_static w_tree w_hash]. rewrite Lm. exact TB.
  - intros St. unfold set_buf; cbn [w_buf w_shim]. rewrite Lm. apply SI; exact St.
  - eapply CInv_agree; [|unfold same_tables, set_buf; cbn; auto|exact CI].
    unfold set_buf; cbn [w_buf]. exact Ag.
Qed.

Lemma compose_len_rdata_ok c r w w' :
  WG c ok12 w -> 12 <= mlen (w_buf w) -> Forall wf_item (r_data r) -> compose_len_rdata c r w = WOk w' ->
  WG c ok12 w' /\
  exists len sfx, w_buf w' = w_buf w ++ be16 len ++ sfx /\ len = mlen sfx /\ len <= 65535 /\
    ItemsIn (w_buf w') ok12 (mlen (w_buf w) + 2) (r_data r) (mlen (w_buf w')).
Proof.
  intros HW L Hwf H. unfold compose_len_rdata in H.
  destruct (uses_prefix c r) eqn:UP.
  - destruct (append_slice c [0; 0] w) as [w1|w1| |] eqn:E1; cbn [wbind] in H; try discriminate.
    destruct (WG_append c ok12 _ w w1 HW E1) as (HW1 & B1).
    set (ph := mlen (w_buf w)) in *.
    assert (L1 : mlen (w_buf w1) = ph + 2) by (rewrite B1, mlen_app; reflexivity).
    assert (HWp : WG c (okph ph) w1).
    { destruct HW1 as (TB1 & SI1 & _). split; [exact TB1|]. split; [exact SI1|].
      destruct HW as (_ & _ & CI). apply CInv_below in CI.
      eapply CInv_app; [exact B1|apply append_slice_ok in E1; tauto|].
      eapply CInv_weaken; [|exact CI]. cbv beta. unfold ok12, okph. intros i [A Bi]. fold ph in Bi. split; [exact A|lia]. }
    destruct (compose_items c (r_data r) w1) as [w2|w2| |] eqn:E2; try discriminate.
    + destruct (compose_items_ok c (okph ph) (r_data r) w1 w2 HWp) as (HW2 & HI & sfx & B2); auto.
      { intros i Hi. unfold okph. lia. }
      destruct (N.leb_spec (mlen (w_buf w2) - mlen (w_buf w1)) rdlen_max) as [LL|LL]; [|discriminate].
      injection H as <-. unfold rdlen_max in LL.
      assert (Lm2 : mlen (w_buf w2) = ph + 2 + mlen sfx) by (rewrite B2, mlen_app; lia).
      replace (mlen (w_buf w1) - 2) with ph by lia.
      destruct (WG_patch c (okph ph) w2 ph (mlen (w_buf w2) - mlen (w_buf w1)) HW2 ltac:(lia)) as (HW3 & Ag).
      { unfold okph. intros; lia. }
      assert (Bp : patch16 ph (mlen (w_buf w2) - mlen (w_buf w1)) (w_buf w2) = w_buf w ++ be16 (mlen sfx) ++ sfx).
      { replace (mlen (w_buf w2) - mlen (w_buf w1)) with (mlen sfx) by lia.
        rewrite B2, B1, <- app_assoc. rewrite patch16_app by (fold ph; rewrite ?mlen_app; change (mlen [0;0]) with 2; lia).
        fold ph. replace (ph - ph) with 0 by lia. cbn [app]. rewrite patch16_zero. reflexivity. }
      split.
      * destruct HW3 as (T3 & S3 & C3). split; [exact T3|]. split; [exact S3|].
        eapply CInv_weaken; [|exact C3]. unfold okph, ok12. cbv beta. tauto.
      * exists (mlen sfx), sfx. unfold set_buf; cbn [w_buf]. split; [exact Bp|]. split; [reflexivity|]. split; [lia|].
        rewrite patch16_mlen by lia.
        eapply ItemsIn_weaken; [|eapply ItemsIn_agree; [exact Ag| |]].
        -- unfold okph, ok12. cbv beta. tauto.
        -- rewrite patch16_mlen by lia. lia.
        -- rewrite <- L1. exact HI.
    + destruct (truncate c (mlen (w_buf w1)) w2); discriminate.
  - unfold uses_prefix in UP. apply orb_false_iff in UP as [UP1 UP2]. apply andb_false_iff in UP2.
    destruct (N.ltb_spec rdlen_max (rdata_ulen (r_data r))) as [LL|LL]; [discriminate|]. unfold rdlen_max in LL.
    destruct (append_slice c (be16 (rdata_ulen (r_data r))) w) as [w1|w1| |] eqn:E1; cbn [wbind] in H; try discriminate.
    destruct (WG_append c ok12 _ w w1 HW E1) as (HW1 & B1).
    assert (L1 : mlen (w_buf w1) = mlen (w_buf w) + 2) by (rewrite B1, mlen_app; reflexivity).
    destruct (compose_items_ok c ok12 (r_data r) w1 w' HW1) as (HW2 & HI & sfx & B2); auto.
    { unfold ok12. intros; lia. }
    pose proof (compose_items_len c (r_data r) w1 w' UP2 H) as Ll.
    split; [exact HW2|]. exists (rdata_ulen (r_data r)), sfx.
    split; [rewrite B2, B1, <- app_assoc; reflexivity|].
    split; [rewrite B2, mlen_app in Ll; lia|]. split; [exact LL|]. rewrite <- L1. exact HI.
Qed.

Lemma ItemsIn_okb m p items e : ItemsIn m ok12 p items e -> e = mlen m -> ItemsIn m (okb e) p items e.
Proof.
  intros H ->. eapply ItemsIn_weaken; [|apply ItemsIn_below; exact H]. unfold okb, ok12. cbv beta. tauto.
Qed.

Lemma compose_record_ok c r w w' :
  WG c ok12 w -> 12 <= mlen (w_buf w) -> wf_r r -> compose_record c r w = WOk w' ->
  WG c ok12 w' /\ RAt (w_buf w') (mlen (w_buf w)) r (mlen (w_buf w')) /\ exists sfx, w_buf w' = w_buf w ++ sfx.
Proof.
  intros HW L Hr H. pose proof Hr as (Hn & Ht & Hc & Hl & Hwf). unfold compose_record in H.
  destruct (acn c (r_owner r) w) as [w1|w1| |] eqn:E1; cbn [wbind] in H; try discriminate.
  destruct (WG_acn c ok12 _ w w1 HW ltac:(unfold ok12; intros; lia) Hn E1) as (HW1 & HN & sfx1 & B1).
  destruct (append_slice c (be16 (r_type r)) w1) as [w2|w2| |] eqn:E2; cbn [wbind] in H; try discriminate.
  destruct (WG_append c ok12 _ w1 w2 HW1 E2) as (HW2 & B2).
  destruct (append_slice c (be16 (r_class r)) w2) as [w3|w3| |] eqn:E3; cbn [wbind] in H; try discriminate.
  destruct (WG_append c ok12 _ w2 w3 HW2 E3) as (HW3 & B3).
  destruct (append_slice c (be32 (r_ttl r)) w3) as [w4|w4| |] eqn:E4; cbn [wbind] in H; try discriminate.
  destruct (WG_append c ok12 _ w3 w4 HW3 E4) as (HW4 & B4).
  pose proof (NameAtO_end _ _ _ _ _ HN) as [Le1 _].
  assert (B4' : w_buf w4 = w_buf w1 ++ be16 (r_type r) ++ be16 (r_class r) ++ be32 (r_ttl r)).
  { rewrite B4, B3, B2, <- !app_assoc. reflexivity. }
  assert (L4 : mlen (w_buf w4) = mlen (w_buf w1) + 8) by (rewrite B4', !mlen_app; reflexivity).
  destruct (compose_len_rdata_ok c r w4 w' HW4 ltac:(lia) Hwf H) as (HW' & len & sfx & B5 & El & Ll & HI).
  set (e1 := mlen (w_buf w1)) in *.
  assert (Bf : w_buf w' = w_buf w1 ++ (be16 (r_type r) ++ be16 (r_class r) ++ be32 (r_ttl r) ++ be16 len) ++ sfx).
  { rewrite B5, B4', <- !app_assoc. reflexivity. }
  assert (Le : mlen (w_buf w') = e1 + 10 + len).
  { rewrite Bf, !mlen_app. change (mlen (be16 (r_type r))) with 2. change (mlen (be16 (r_class r))) with 2.
    change (mlen (be32 (r_ttl r))) with 4. change (mlen (be16 len)) with 2. subst e1. lia. }
  split; [exact HW'|]. split; [|exists (sfx1 ++ (be16 (r_type r) ++ be16 (r_class r) ++ be32 (r_ttl r) ++ be16 len) ++ sfx); rewrite Bf, B1, <- app_assoc; reflexivity].
  exists e1. replace (mlen (w_buf w') - (e1 + 10)) with len by lia.
  split; [|split; [|split; [|split; [lia|split; [lia|split; [exact Hr|exact L]]]]]].
  - apply (NameAtO_weaken _ (fun i => ok12 i /\ i < mlen (w_buf w'))); [unfold okb, ok12; cbv beta; tauto|].
    apply NameAtO_below. apply (NameAtO_agree (w_buf w1) (w_buf w')); [rewrite Bf; apply agree_on_app|exact HN].
  - apply (BytesAtO_weaken _ (fun i => ok12 i /\ i < mlen (w_buf w'))); [unfold okb, ok12; cbv beta; tauto|].
    apply BytesAtO_below. rewrite Bf.
    split; [apply bytes_at_app|split; [unfold ok12; intros; subst e1; lia|]].
    rewrite !mlen_app. subst e1. lia.
  - apply ItemsIn_okb; [|reflexivity]. replace (e1 + 10) with (mlen (w_buf w4) + 2) by lia. exact HI.
Qed.

(* --------------------------------------------------------------------- OPT *)

Lemma compose_opts_ok c (ok : N -> Prop) : forall opts w w',
  WG c ok w -> compose_opts c opts w = WOk w' -> WG c ok w' /\ w_buf w' = w_buf w ++ opts_bytes opts.
Proof.
  induction opts as [|[[code dlen] data] r IH]; intros w w' HW H; cbn [compose_opts] in H.
  - injection H as <-. split; [exact HW|]. cbn [opts_bytes]. rewrite app_nil_r. reflexivity.
  - destruct (append_slice c (be16 code) w) as [w1|w1| |] eqn:E1; cbn [wbind] in H; try discriminate.
    destruct (WG_append c ok _ w w1 HW E1) as (HW1 & B1).
    destruct (append_slice c (be16 dlen) w1) as [w2|w2| |] eqn:E2; cbn [wbind] in H; try discriminate.
    destruct (WG_append c ok _ w1 w2 HW1 E2) as (HW2 & B2).
    destruct (append_slice c data w2) as [w3|w3| |] eqn:E3; cbn [wbind] in H; try discriminate.
    destruct (WG_append c ok _ w2 w3 HW2 E3) as (HW3 & B3).
    destruct (IH w3 w' HW3 H) as (HW' & B4). split; [exact HW'|].
    rewrite B4, B3, B2, B1. cbn [opts_bytes]. rewrite <- !app_assoc. reflexivity.
Qed.

Lemma name_ok_root : name_ok [].
Proof. split; [constructor|cbn; lia]. Qed.

Lemma be32_opt_ttl e v d : e < 256 -> v < 256 -> d < 65536 ->
  be32 (e * 16777216 + v * 65536 + d) = be16 (e * 256 + v) ++ be16 d.
Proof. intros. unfold be32, be16. cbn [app]. f_equal; [|f_equal; [|f_equal; [|f_equal]]]; lia. Qed.

Definition wf_oh (oh : opt_hdr) : Prop := oh_udp oh < 65536 /\ oh_ver oh < 256 /\ oh_flags oh < 65536.

Lemma compose_opt_ok c oh opts w w' :
  WG c ok12 w -> 12 <= mlen (w_buf w) -> wf_oh oh -> compose_opt c oh opts w = WOk w' ->
  WG c ok12 w' /\ RAt (w_buf w') (mlen (w_buf w)) (opt_record oh opts) (mlen (w_buf w')) /\
  exists sfx, w_buf w' = w_buf w ++ sfx.
Proof.
  intros HW L (Hu & Hver & Hfl) H. unfold compose_opt in H.
  set (st := mlen (w_buf w)) in *.
  set (old := fun i => ok12 i /\ i < st).
  set (x := oh_udp oh) in *. set (y := oh_ext oh * 256 + oh_ver oh) in *. set (z := oh_flags oh) in *.
  assert (Hext : oh_ext oh < 256) by (unfold oh_ext; destruct (oh_rc oh); lia).
  assert (Hz : z < 65536) by (subst z; exact Hfl).
  assert (HWo : WG c old w).
  { destruct HW as (TB & SI & CI). split; [exact TB|]. split; [exact SI|]. apply CInv_below in CI. exact CI. }
  destruct (append_slice c opt_header_default w) as [w1|w1| |] eqn:E1; cbn [wbind] in H; try discriminate.
  destruct (WG_append c old _ w w1 HWo E1) as (HW1 & B1).
  destruct (append_slice c [0; 0] w1) as [w2|w2| |] eqn:E2; cbn [wbind] in H; try discriminate.
  destruct (WG_append c old _ w1 w2 HW1 E2) as (HW2 & B2).
  assert (B2' : w_buf w2 = w_buf w ++ [0; 0; 41; 0; 0; 0; 0; 0; 0; 0; 0]).
  { rewrite B2, B1, <- app_assoc. reflexivity. }
  assert (L2 : mlen (w_buf w2) = st + 11) by (rewrite B2', mlen_app; reflexivity).
  assert (Hold : forall p, st <= p -> forall i, old i -> i < p \/ p + 2 <= i) by (unfold old; intros; lia).
  destruct (WG_patch c old w2 (st + 3) x HW2 ltac:(lia) (Hold (st + 3) ltac:(lia))) as (HWa & _).
  set (wa := set_buf w2 (patch16 (st + 3) x (w_buf w2))) in *.
  assert (Ba : w_buf wa = w_buf w ++ [0; 0; 41; x / 256; x mod 256; 0; 0; 0; 0; 0; 0]).
  { subst wa. unfold set_buf; cbn [w_buf]. rewrite B2'. rewrite patch16_app by (fold st; change (mlen [0; 0; 41; 0; 0; 0; 0; 0; 0; 0; 0]) with 11; lia).
    fold st. replace (st + 3 - st) with 3 by lia. reflexivity. }
  assert (La : mlen (w_buf wa) = st + 11) by (rewrite Ba, mlen_app; reflexivity).
  destruct (WG_patch c old wa (st + 5) y HWa ltac:(lia) (Hold (st + 5) ltac:(lia))) as (HWb & _).
  set (wb := set_buf wa (patch16 (st + 5) y (w_buf wa))) in *.
  assert (Bb : w_buf wb = w_buf w ++ [0; 0; 41; x / 256; x mod 256; y / 256; y mod 256; 0; 0; 0; 0]).
  { subst wb. unfold set_buf; cbn [w_buf]. rewrite Ba. rewrite patch16_app by (fold st; change (mlen [0; 0; 41; x / 256; x mod 256; 0; 0; 0; 0; 0; 0]) with 11; lia).
    fold st. replace (st + 5 - st) with 5 by lia. reflexivity. }
  assert (Lb : mlen (w_buf wb) = st + 11) by (rewrite Bb, mlen_app; reflexivity).
  destruct (WG_patch c old wb (st + 7) z HWb ltac:(lia) (Hold (st + 7) ltac:(lia))) as (HW3 & _).
  set (w3 := set_buf wb (patch16 (st + 7) z (w_buf wb))) in *.
  assert (B3 : w_buf w3 = w_buf w ++ [0; 0; 41; x / 256; x mod 256; y / 256; y mod 256; z / 256; z mod 256; 0; 0]).
  { subst w3. unfold set_buf; cbn [w_buf]. rewrite Bb. rewrite patch16_app by (fold st; change (mlen [0; 0; 41; x / 256; x mod 256; y / 256; y mod 256; 0; 0; 0; 0]) with 11; lia).
    fold st. replace (st + 7 - st) with 7 by lia. reflexivity. }
  replace (set_buf w2 (patch16 (st + 7) z (patch16 (st + 5) y (patch16 (st + 3) x (w_buf w2))))) with w3 in H
    by (subst w3 wb wa; unfold set_buf; cbn [w_buf w_shim w_static w_tree w_hash]; reflexivity).
  destruct (compose_opts c opts w3) as [w4|w4| |] eqn:E4; try discriminate.
  - destruct (compose_opts_ok c old opts w3 w4 HW3 E4) as (HW4 & B4).
    destruct (N.leb_spec (mlen (w_buf w4) - mlen (w_buf w2)) rdlen_max) as [LL|LL];
      [|destruct (truncate c (mlen (w_buf w2)) w4); discriminate].
    injection H as <-. unfold rdlen_max in LL.
    assert (L4 : mlen (w_buf w4) = st + 11 + mlen (opts_bytes opts)).
    { rewrite B4, B3, !mlen_app. change (mlen [0; 0; 41; x / 256; x mod 256; y / 256; y mod 256; z / 256; z mod 256; 0; 0]) with 11. fold st. lia. }
    replace (mlen (w_buf w2) - 2) with (st + 9) by lia.
    replace (mlen (w_buf w4) - mlen (w_buf w2)) with (mlen (opts_bytes opts)) in * by lia.
    set (len := mlen (opts_bytes opts)) in *.
    destruct (WG_patch c old w4 (st + 9) len HW4 ltac:(lia) (Hold (st + 9) ltac:(lia))) as (HW5 & _).
    assert (B5 : patch16 (st + 9) len (w_buf w4) =
                 w_buf w ++ [0] ++ (be16 41 ++ be16 x ++ (be16 y ++ be16 z) ++ be16 len) ++ opts_bytes opts).
    { rewrite B4, B3, <- app_assoc.
      rewrite patch16_app by (fold st; rewrite ?mlen_app; change (mlen [0; 0; 41; x / 256; x mod 256; y / 256; y mod 256; z / 256; z mod 256; 0; 0]) with 11; lia).
      fold st. replace (st + 9 - st) with 9 by lia. reflexivity. }
    unfold set_buf; cbn [w_buf w_shim w_static w_tree w_hash].
    split; [|split].
    + destruct HW5 as (T5 & S5 & C5). split; [exact T5|]. split; [exact S5|].
      eapply CInv_weaken; [|exact C5]. unfold old. cbv beta. tauto.
    + rewrite B5. set (m := w_buf w ++ [0] ++ (be16 41 ++ be16 x ++ (be16 y ++ be16 z) ++ be16 len) ++ opts_bytes opts).
      assert (Lm : mlen m = st + 11 + len).
      { subst m. rewrite !mlen_app. change (mlen [0]) with 1. change (mlen (be16 41)) with 2. change (mlen (be16 x)) with 2.
        change (mlen (be16 y)) with 2. change (mlen (be16 z)) with 2. change (mlen (be16 len)) with 2. fold st. fold len. lia. }
      exists (st + 1). cbn [opt_record r_owner r_type r_class r_ttl r_data].
      fold x. fold z.
      rewrite (be32_opt_ttl _ _ _ Hext Hver Hz). fold y.
      replace (mlen m - (st + 1 + 10)) with len by lia.
      split; [|split; [|split; [|split; [lia|split; [lia|split; [|exact L]]]]]].
      * exists []. split; [|split; [reflexivity|exact name_ok_root]].
        constructor; [unfold okb; lia|]. subst m. rewrite get_app_r by (fold st; lia). fold st.
        replace (st - st) with 0 by lia. reflexivity.
      * split; [|split; [unfold okb; intros i Hi; rewrite !mlen_app in Hi;
                          change (mlen (be16 41)) with 2 in Hi; change (mlen (be16 x)) with 2 in Hi;
                          change (mlen (be16 y)) with 2 in Hi; change (mlen (be16 z)) with 2 in Hi; change (mlen (be16 len)) with 2 in Hi; lia|]].
        -- subst m. replace (st + 1) with (mlen (w_buf w ++ [0])) by (rewrite mlen_app; reflexivity).
           rewrite (app_assoc (w_buf w) [0]). apply bytes_at_app.
        -- rewrite !mlen_app. change (mlen (be16 41)) with 2. change (mlen (be16 x)) with 2.
           change (mlen (be16 y)) with 2. change (mlen (be16 z)) with 2. change (mlen (be16 len)) with 2. lia.
      * replace (st + 1 + 10) with (st + 11) by lia. apply II_bytes.
        -- split; [|split; [unfold okb; fold len; intros; lia|fold len; lia]].
           subst m. replace (st + 11) with (mlen (w_buf w ++ [0] ++ (be16 41 ++ be16 x ++ (be16 y ++ be16 z) ++ be16 len)))
             by (rewrite !mlen_app; reflexivity).
           rewrite (app_assoc (w_buf w)). rewrite (app_assoc (w_buf w ++ [0])). rewrite <- (app_assoc (w_buf w)).
           pose proof (bytes_at_app (w_buf w ++ [0] ++ be16 41 ++ be16 x ++ (be16 y ++ be16 z) ++ be16 len) (opts_bytes opts) []) as X.
           rewrite app_nil_r in X. exact X.
        -- fold len. rewrite <- Lm. constructor.
      * unfold wf_r; cbn [opt_record r_owner r_type r_class r_ttl r_data].
        split; [exact name_ok_root|]. split; [lia|]. split; [exact Hu|]. split; [lia|].
        constructor; [exact I|constructor].
    + rewrite B5. eexists; reflexivity.
  - destruct (truncate c (mlen (w_buf w2)) w4); discriminate.
Qed.
