(* C02 model: base/message_builder.rs
     MessageBuilder::push, Question/Answer/Authority/AdditionalBuilder push,
     rewind and section conversions, set_push_limit, AdditionalBuilder::opt +
     OptBuilder::{new,build,push_raw_option,set_udp_payload_size},
     StreamTarget::{append_slice,truncate,update_shim},
     StaticCompressor / TreeCompressor / HashCompressor
       append_compressed_name, get, insert, Truncate;
   base/rdata.rs compose_len_rdata / compose_prefixed; base/record.rs
   Record::compose; base/question.rs Question::compose; base/header.rs inc_*;
   base/name/label.rs Label::compose, Label::split_from, SliceLabelsIter::next;
   octseq Array<N>::append_slice (capacity), Vec / BytesMut (unbounded).

   The message buffer [w_buf] holds all octets of the message including the 12
   header octets (never the 2 stream-length octets: StreamTarget's as_ref()
   skips them; their value is [w_shim]).  The four header counters are kept
   beside the buffer (b_qd ..) and serialised by [msg_of]; nothing else in the
   code writes octets 4..11.  Definitions only. *)
From Coq Require Import NArith List Bool.
From DV Require Import Base.Outcome Base.Bytes Base.Names Base.PName C02.Gen.
Import ListNotations.
Local Open Scope N_scope.

(* push error classes (PushError) *)
Definition E_SHORTBUF : N := 1.
Definition E_LIMIT : N := 2.
Definition E_COUNT : N := 3.
(* reader error classes, beyond PName's *)
Definition E_TRAILING : N := 5.
Definition E_COUNTS : N := 6.
(* panic sites *)
Definition P_LONG_DATA : N := 20.   (* rdata.rs compose_prefixed .expect("long data") *)
Definition P_LONG_RDATA : N := 21.  (* a record data type's rdlen(): u16::try_from(..).expect("long rdata") *)
Definition P_SHIM : N := 22.        (* StreamTarget::truncate update_shim().expect("truncate grew buffer???") *)
Definition P_HASH_HEAD : N := 23.   (* HashEntry::head .expect("the message contains valid labels") / slice index *)

(* ------------------------------------------------------------------ data *)

Inductive ritem :=
| RBytes (b : bytes)     (* target.append_slice(b) *)
| RName (n : name)       (* target.append_compressed_name(n) *)
| RNameU (n : name).     (* n.compose(target): never compressed *)

Record question := mkQ { q_name : name; q_type : N; q_class : N }.
Record rrecord := mkR {
  r_owner : name; r_type : N; r_class : N; r_ttl : N;
  r_prefixed : bool;      (* the data type's rdlen() returns None regardless of the target *)
  r_data : list ritem }.

Inductive ckind := KNone | KStatic | KTree | KHash.
Record tcfg := mkCfg {
  t_cap : option N;       (* Some n: octseq Array<n>; None: Vec<u8> / BytesMut *)
  t_stream : bool;        (* StreamTarget<_> between compressor and buffer *)
  t_kind : ckind }.

(* writer state: buffer, stream length octets, compressor tables *)
Record ws := mkWs {
  w_buf : bytes;
  w_shim : N;
  w_static : list N;              (* StaticCompressor.entries[..len] *)
  w_tree : list (name * N);       (* TreeCompressor: label path -> value (nodes with value None are absent) *)
  w_hash : list (N * N) }.        (* HashCompressor.names: (head, tail) *)

Inductive wres := WOk (w : ws) | WErr (w : ws) | WPanic (site : N) | WFuel.
Definition wbind (r : wres) (f : ws -> wres) : wres :=
  match r with WOk w => f w | _ => r end.

Definition set_buf (w : ws) (b : bytes) : ws := mkWs b (w_shim w) (w_static w) (w_tree w) (w_hash w).
Definition set_shim (w : ws) (s : N) : ws := mkWs (w_buf w) s (w_static w) (w_tree w) (w_hash w).
Definition set_static (w : ws) (e : list N) : ws := mkWs (w_buf w) (w_shim w) e (w_tree w) (w_hash w).
Definition set_tree (w : ws) (t : list (name * N)) : ws := mkWs (w_buf w) (w_shim w) (w_static w) t (w_hash w).
Definition set_hash (w : ws) (h : list (N * N)) : ws := mkWs (w_buf w) (w_shim w) (w_static w) (w_tree w) h.

(* ---------------------------------------------------------------- targets *)

(* OctetsBuilder::append_slice through [StreamTarget<]Array<n> | Vec[>].
   Array: `end = len + slice.len(); if end > N { Err }` (nothing appended).
   StreamTarget: inner append, then update_shim; when the length no longer
   fits a u16 the data STAYS appended and the shim is not rewritten. *)
Definition inner_len (c : tcfg) (b : bytes) : N := mlen b + (if t_stream c then stream_prefix_len else 0).
Definition append_slice (c : tcfg) (s : bytes) (w : ws) : wres :=
  let fits := match t_cap c with Some n => inner_len c (w_buf w) + mlen s <=? n | None => true end in
  if negb fits then WErr w else
  let w' := set_buf w (w_buf w ++ s) in
  if t_stream c then
    if mlen (w_buf w') <=? shim_max then WOk (set_shim w' (mlen (w_buf w'))) else WErr w'
  else WOk w'.

Fixpoint take_while (f : N -> bool) (l : list N) : list N :=
  match l with [] => [] | x :: r => if f x then x :: take_while f r else [] end.

(* Truncate for Static/Tree/HashCompressor (tables) *)
Definition trunc_tables (len : N) (w : ws) : ws :=
  let w1 := if len <? static_trunc_guard
            then set_static w (take_while (fun e => e <? len) (w_static w)) else w in
  let w2 := if len <? tree_trunc_guard
            then set_tree w1 (filter (fun kv => snd kv <? len) (w_tree w1)) else w1 in
  if len <? hash_trunc_guard
  then set_hash w2 (filter (fun e => fst e <? len) (w_hash w2)) else w2.

(* Truncate::truncate through compressor, StreamTarget and buffer *)
Definition truncate (c : tcfg) (len : N) (w : ws) : wres :=
  let b := firstn (N.to_nat len) (w_buf w) in
  if t_stream c then
    if mlen b <=? shim_max then WOk (trunc_tables len (set_shim (set_buf w b) (mlen b)))
    else WPanic P_SHIM
  else WOk (trunc_tables len (set_buf w b)).

(* Label::compose: two append_slice calls *)
Definition label_compose (c : tcfg) (l : label) (w : ws) : wres :=
  wbind (append_slice c [N.of_nat (length l)] w) (append_slice c l).
Fixpoint write_labels (c : tcfg) (ls : list label) (w : ws) : wres :=
  match ls with
  | [] => WOk w
  | l :: r => wbind (label_compose c l w) (write_labels c r)
  end.
(* the root label: append_slice(&[0]) followed by an empty append_slice *)
Definition write_root (c : tcfg) (w : ws) : wres := append_slice c [0] w.
Definition write_ptr (c : tcfg) (tag pos : N) (w : ws) : wres :=
  append_slice c (be16 (N.lor pos tag)) w.

(* ------------------------------------------------------ SliceLabelsIter *)

Inductive sli_step :=
| SliEnd
| SliLabel (l : label) (st : option (N * N))   (* next (start, segment); None = fused *)
| SliFuel.

(* ml = m.len(), computed once by the caller *)
Fixpoint sli_loop (fuel : nat) (m : bytes) (ml : N) (start seg : N) : sli_step :=
  match fuel with
  | O => SliFuel
  | S f =>
      match get m start with
      | None => SliEnd                                        (* ShortInput *)
      | Some h =>
          if h <=? 63 then
            if ml <? start + h + 1 then SliEnd                 (* ShortInput *)
            else SliLabel (slice m (start + 1) (start + 1 + h))
                          (if h =? 0 then None else Some (start + h + 1, seg))
          else if 192 <=? h then
            match get m (start + 1) with
            | None => SliEnd
            | Some c =>
                let p := c + 256 * (h mod 64) in
                if (if sli_ptr_ge_segment then seg <=? p else seg <? p) then SliEnd
                else sli_loop f m ml p p
            end
          else SliEnd                                          (* BadType *)
      end
  end.

Definition sli_next (m : bytes) (ml : N) (st : option (N * N)) : sli_step :=
  match st with
  | None => SliEnd
  | Some (start, seg) =>
      if ml <=? start then SliEnd else sli_loop (S (N.to_nat seg)) m ml start seg
  end.

Definition label_eq (a b : label) : bool :=
  if label_eq_ignores_case then eq_ci a b else false.

(* Iterator::eq(name labels incl. root, Label::iter_slice(buf, pos)) *)
Fixpoint labels_eq_sli (a : list label) (m : bytes) (ml : N) (st : option (N * N)) : option bool :=
  match a with
  | [] => match sli_next m ml st with
          | SliEnd => Some true | SliLabel _ _ => Some false | SliFuel => None end
  | x :: a' =>
      match sli_next m ml st with
      | SliEnd => Some false
      | SliFuel => None
      | SliLabel y st' => if label_eq x y then labels_eq_sli a' m ml st' else Some false
      end
  end.

(* ------------------------------------------------------- StaticCompressor *)

Fixpoint static_get (m : bytes) (ml : N) (es : list N) (q : name) : option (option N) :=  (* None = fuel *)
  match es with
  | [] => Some None
  | e :: es' =>
      match labels_eq_sli (q ++ [[]]) m ml (Some (e, e)) with
      | None => None
      | Some true => Some (Some e)
      | Some false => static_get m ml es' q
      end
  end.

Definition static_insert (pos : N) (es : list N) : option (list N) :=
  if (pos <? static_ptr_limit) &&
     (if static_cap_lt then N.of_nat (length es) <? static_capacity
      else N.of_nat (length es) <=? static_capacity)
  then Some (es ++ [pos]) else None.

Fixpoint static_acn (c : tcfg) (ls : name) (w : ws) : wres :=
  match ls with
  | [] => write_root c w
  | l :: rest =>
      match static_get (w_buf w) (mlen (w_buf w)) (w_static w) ls with
      | None => WFuel
      | Some (Some pos) => write_ptr c static_ptr_tag pos w
      | Some None =>
          match static_insert (mlen (w_buf w)) (w_static w) with
          | None => wbind (write_labels c ls w) (write_root c)
          | Some es' => wbind (label_compose c l (set_static w es')) (static_acn c rest)
          end
      end
  end.

(* --------------------------------------------------------- TreeCompressor *)

Fixpoint bytes_eqb (a b : bytes) : bool :=
  match a, b with
  | [], [] => true
  | x :: a', y :: b' => (x =? y) && bytes_eqb a' b'
  | _, _ => false
  end.
Fixpoint labels_eqb (a b : name) : bool :=
  match a, b with
  | [], [] => true
  | x :: a', y :: b' => bytes_eqb x y && labels_eqb a' b'
  | _, _ => false
  end.

Fixpoint tree_get (t : list (name * N)) (k : name) : option N :=
  match t with
  | [] => None
  | (k', v) :: t' => if labels_eqb k' k then Some v else tree_get t' k
  end.

Definition tree_insert (k : name) (pos : N) (t : list (name * N)) : option (list (name * N)) :=
  if tree_ptr_limit <=? pos then None
  else Some ((k, pos) :: filter (fun e => negb (labels_eqb (fst e) k)) t).

Fixpoint tree_acn (c : tcfg) (ls : name) (w : ws) : wres :=
  match ls with
  | [] => write_root c w
  | l :: rest =>
      match tree_get (w_tree w) ls with
      | Some pos => write_ptr c tree_ptr_tag pos w
      | None =>
          match tree_insert ls (mlen (w_buf w)) (w_tree w) with
          | None => wbind (write_labels c ls w) (write_root c)
          | Some t' => wbind (label_compose c l (set_tree w t')) (tree_acn c rest)
          end
      end
  end.

(* --------------------------------------------------------- HashCompressor *)

(* HashEntry::head: Label::split_from(&message[head..]).expect(..).0 *)
Definition label_at (m : bytes) (ml : N) (h : N) : option label :=
  match get m h with
  | None => None
  | Some b => if (b <=? 63) && (h + 1 + b <=? ml) then Some (slice m (h + 1) (h + 1 + b)) else None
  end.

(* HashTable::find(hash, |e| e.eq(message, (label, position))): the model
   tests the entries in list order (every entry, not only those in the probed
   bucket); an unreadable head is the panic of HashEntry::head. *)
Fixpoint hash_find (m : bytes) (ml : N) (es : list (N * N)) (l : label) (pos : N) : outcome (option N) :=
  match es with
  | [] => Ok None
  | (h, t) :: es' =>
      match label_at m ml h with
      | None => Panic P_HASH_HEAD
      | Some hl => if label_eq hl l && (t =? pos) then Ok (Some h) else hash_find m ml es' l pos
      end
  end.

(* right-to-left walk: rl = the not yet consumed labels, rightmost first.
   Returns the position reached and the unconsumed labels (rightmost first). *)
Fixpoint hash_walk (m : bytes) (ml : N) (es : list (N * N)) (rl : list label) (pos : N)
  : outcome (N * list label) :=
  match rl with
  | [] => Ok (pos, [])
  | l :: rl' =>
      match hash_find m ml es l pos with
      | Ok (Some h) => hash_walk m ml es rl' h
      | Ok None => Ok (pos, rl)
      | Err e => Err e | Panic s => Panic s | OutOfFuel => OutOfFuel
      end
  end.

Fixpoint hash_write (c : tcfg) (ls : list label) (position : N) (w : ws) : wres :=
  match ls with
  | [] => WOk w
  | l :: ls' =>
      let head := mlen (w_buf w) in
      let tail := head + (N.of_nat (length l) + 1) in
      wbind (label_compose c l w) (fun w1 =>
        let w2 := if head <? hash_ptr_limit
                  then set_hash w1 (w_hash w1 ++ [(head, match ls' with [] => position | _ => tail end)])
                  else w1 in
        hash_write c ls' position w2)
  end.

Definition hash_acn (c : tcfg) (ls : name) (w : ws) : wres :=
  match hash_walk (w_buf w) (mlen (w_buf w)) (w_hash w) (rev ls) hash_root_pos with
  | Ok (position, rest) =>
      wbind (hash_write c (rev rest) position w) (fun w1 =>
        if position =? hash_root_pos then write_root c w1
        else write_ptr c hash_ptr_tag position w1)
  | Panic s => WPanic s
  | _ => WFuel
  end.

(* Composer::append_compressed_name *)
Definition acn (c : tcfg) (n : name) (w : ws) : wres :=
  match t_kind c with
  | KNone => append_slice c (wire_abs n) w     (* ToName::compose of a flat name: one append_slice *)
  | KStatic => static_acn c n w
  | KTree => tree_acn c n w
  | KHash => hash_acn c n w
  end.
Definition can_compress (c : tcfg) : bool :=
  match t_kind c with KNone => false | _ => true end.

(* ------------------------------------------------------ questions, records *)

Definition compose_question (c : tcfg) (q : question) (w : ws) : wres :=
  wbind (acn c (q_name q) w) (fun w1 =>
  wbind (append_slice c (be16 (q_type q)) w1) (append_slice c (be16 (q_class q)))).

Definition item_ulen (it : ritem) : N :=
  match it with
  | RBytes b => mlen b
  | RName n => mlen (wire_abs n)
  | RNameU n => mlen (wire_abs n)
  end.
Definition rdata_ulen (items : list ritem) : N := fold_right (fun it a => item_ulen it + a) 0 items.
Definition is_rname (it : ritem) : bool := match it with RName _ => true | _ => false end.

Fixpoint compose_items (c : tcfg) (items : list ritem) (w : ws) : wres :=
  match items with
  | [] => WOk w
  | RBytes b :: r => wbind (append_slice c b w) (compose_items c r)
  | RName n :: r => wbind (acn c n w) (compose_items c r)
  | RNameU n :: r => wbind (append_slice c (wire_abs n) w) (compose_items c r)
  end.

(* as_mut()[pos..pos+2].copy_from_slice(&v.to_be_bytes()) *)
Definition patch16 (pos v : N) (b : bytes) : bytes :=
  firstn (N.to_nat pos) b ++ be16 v ++ skipn (N.to_nat pos + 2) b.

(* ComposeRecordData::compose_len_rdata; rdlen() is Some exactly when the type
   does not declare itself variable (r_prefixed) and either has no compressible
   name or the target cannot compress *)
Definition uses_prefix (c : tcfg) (r : rrecord) : bool :=
  r_prefixed r || (can_compress c && existsb is_rname (r_data r)).

Definition compose_len_rdata (c : tcfg) (r : rrecord) (w : ws) : wres :=
  if uses_prefix c r then
    wbind (append_slice c [0; 0] w) (fun w1 =>
      let pos := mlen (w_buf w1) in
      match compose_items c (r_data r) w1 with
      | WOk w2 =>
          let len := mlen (w_buf w2) - pos in
          if len <=? rdlen_max then WOk (set_buf w2 (patch16 (pos - 2) len (w_buf w2)))
          else WPanic P_LONG_DATA
      | WErr w2 => match truncate c pos w2 with WOk w3 => WErr w3 | other => other end
      | other => other
      end)
  else
    let len := rdata_ulen (r_data r) in
    if rdlen_max <? len then WPanic P_LONG_RDATA
    else wbind (append_slice c (be16 len) w) (compose_items c (r_data r)).

Definition compose_record (c : tcfg) (r : rrecord) (w : ws) : wres :=
  wbind (acn c (r_owner r) w) (fun w1 =>
  wbind (append_slice c (be16 (r_type r)) w1) (fun w2 =>
  wbind (append_slice c (be16 (r_class r)) w2) (fun w3 =>
  wbind (append_slice c (be32 (r_ttl r)) w3) (compose_len_rdata c r)))).

(* AdditionalBuilder::opt with a closure that sets the UDP payload size and
   pushes raw options (code, declared length, data) *)
Fixpoint compose_opts (c : tcfg) (opts : list (N * N * bytes)) (w : ws) : wres :=
  match opts with
  | [] => WOk w
  | (code, dlen, data) :: r =>
      wbind (append_slice c (be16 code) w) (fun w1 =>
      wbind (append_slice c (be16 dlen) w1) (fun w2 =>
      wbind (append_slice c data w2) (compose_opts c r)))
  end.

(* what the closure given to AdditionalBuilder::opt sets in the OPT header:
   set_udp_payload_size, optionally set_rcode (12 bit extended rcode), then
   set_version and set_dnssec_ok *)
Record opt_hdr := mkOH {
  oh_udp : N; oh_rc : option N; oh_ver : N;
  oh_flags : N;       (* the 16 flag bits: 0x8000 from set_dnssec_ok(true); any value from clone_from *)
  oh_hdr : bool }.    (* set_rcode also writes the header RCODE (true); clone_from(OptRecord) leaves the header alone *)
Definition oh_ext (oh : opt_hdr) : N := match oh_rc oh with Some v => (v / 16) mod 256 | None => 0 end.

Definition compose_opt (c : tcfg) (oh : opt_hdr) (opts : list (N * N * bytes)) (w : ws) : wres :=
  let start := mlen (w_buf w) in
  wbind (append_slice c opt_header_default w) (fun w1 =>          (* OptBuilder::new *)
  wbind (append_slice c [0; 0] w1) (fun w2 =>                      (* build *)
    let pos := mlen (w_buf w2) in
    (* set_udp_payload_size: inner[3..5]; set_rcode: inner[5] = ext; set_version:
       inner[6]; set_dnssec_ok: inner[7] |= 0x80 (all octets were zero) *)
    let w3 := set_buf w2 (patch16 (start + 7) (oh_flags oh)
                           (patch16 (start + 5) (oh_ext oh * 256 + oh_ver oh)
                             (patch16 (start + 3) (oh_udp oh) (w_buf w2)))) in
    match compose_opts c opts w3 with
    | WOk w4 =>
        let len := mlen (w_buf w4) - pos in
        if len <=? rdlen_max then WOk (set_buf w4 (patch16 (pos - 2) len (w_buf w4)))
        else match truncate c pos w4 with WOk w5 => WErr w5 | other => other end
    | WErr w4 => match truncate c pos w4 with WOk w5 => WErr w5 | other => other end
    | other => other
    end)).

Fixpoint opts_bytes (opts : list (N * N * bytes)) : bytes :=
  match opts with
  | [] => []
  | (code, dlen, data) :: r => be16 code ++ be16 dlen ++ data ++ opts_bytes r
  end.
(* OptBuilder::clone_from(source) as the closure of AdditionalBuilder::opt,
   step by step: OptBuilder::new and build's placeholder as above, then
   clone_from: target.truncate(self.start) and source.as_record().compose(target)
   (root owner through append_compressed_name, type OPT, class = UDP size, TTL =
   ext rcode / version / flags, then compose_len_rdata of Opt: its rdlen() is
   Some, the length and all option octets in one append_slice each), then the
   end of build: the length measured from the old placeholder position is
   patched in (again). *)
Definition oh_ttl (oh : opt_hdr) : N := oh_ext oh * 16777216 + oh_ver oh * 65536 + oh_flags oh.
Definition P_SUB : N := 24.        (* usize underflow in `target.len() - pos` *)

Definition compose_opt_clone (c : tcfg) (oh : opt_hdr) (opts : list (N * N * bytes)) (w : ws) : wres :=
  let start := mlen (w_buf w) in
  let data := opts_bytes opts in
  wbind (append_slice c opt_header_default w) (fun w1 =>
  wbind (append_slice c [0; 0] w1) (fun w2 =>
    let pos := mlen (w_buf w2) in
    let r :=
      match truncate c start w2 with
      | WOk w3 =>
          if rdlen_max <? mlen data then WPanic P_LONG_RDATA else
          wbind (acn c [] w3) (fun w4 =>
          wbind (append_slice c (be16 41) w4) (fun w5 =>
          wbind (append_slice c (be16 (oh_udp oh)) w5) (fun w6 =>
          wbind (append_slice c (be32 (oh_ttl oh)) w6) (fun w7 =>
          wbind (append_slice c (be16 (mlen data)) w7) (append_slice c data)))))
      | other => other
      end in
    match r with
    | WOk w8 =>
        if mlen (w_buf w8) <? pos then WPanic P_SUB else
        let len := mlen (w_buf w8) - pos in
        if len <=? rdlen_max then WOk (set_buf w8 (patch16 (pos - 2) len (w_buf w8)))
        else match truncate c pos w8 with WOk w9 => WErr w9 | other => other end
    | WErr w8 => match truncate c pos w8 with WOk w9 => WErr w9 | other => other end
    | other => other
    end)).

(* the closure the script chose *)
Definition opt_writer (c : tcfg) (oh : opt_hdr) (opts : list (N * N * bytes)) : ws -> wres :=
  if oh_hdr oh then compose_opt c oh opts else compose_opt_clone c oh opts.

(* ---------------------------------------------------------- the builders *)

Record bstate := mkB {
  b_w : ws;
  b_limit : option N;                 (* None: usize::MAX *)
  b_qd : N; b_an : N; b_ns : N; b_ar : N;
  b_sec : N;                          (* 0 question, 1 answer, 2 authority, 3 additional *)
  b_s1 : N; b_s2 : N; b_s3 : N;       (* AnswerBuilder/AuthorityBuilder/AdditionalBuilder.start *)
  b_hdr : bytes }.                    (* header octets 0..3 (id, flags, rcode); [w_buf] keeps zeros there *)

Definition set_w (s : bstate) (w : ws) : bstate :=
  mkB w (b_limit s) (b_qd s) (b_an s) (b_ns s) (b_ar s) (b_sec s) (b_s1 s) (b_s2 s) (b_s3 s) (b_hdr s).

Inductive rword := RNone | ROk | RErr (e : N) | RPanic (site : N) | RFuel.

Definition count_of (s : bstate) : N :=
  if b_sec s =? 0 then b_qd s else if b_sec s =? 1 then b_an s
  else if b_sec s =? 2 then b_ns s else b_ar s.
Definition set_count (s : bstate) (v : N) : bstate :=
  if b_sec s =? 0 then mkB (b_w s) (b_limit s) v (b_an s) (b_ns s) (b_ar s) (b_sec s) (b_s1 s) (b_s2 s) (b_s3 s) (b_hdr s)
  else if b_sec s =? 1 then mkB (b_w s) (b_limit s) (b_qd s) v (b_ns s) (b_ar s) (b_sec s) (b_s1 s) (b_s2 s) (b_s3 s) (b_hdr s)
  else if b_sec s =? 2 then mkB (b_w s) (b_limit s) (b_qd s) (b_an s) v (b_ar s) (b_sec s) (b_s1 s) (b_s2 s) (b_s3 s) (b_hdr s)
  else mkB (b_w s) (b_limit s) (b_qd s) (b_an s) (b_ns s) v (b_sec s) (b_s1 s) (b_s2 s) (b_s3 s) (b_hdr s).

Definition limit_hit (new_pos : N) (limit : option N) : bool :=
  match limit with
  | None => false
  | Some l => if limit_cmp_ge then l <=? new_pos else l <? new_pos
  end.

Definition fail_push (c : tcfg) (s : bstate) (pos : N) (w : ws) (e : N) : bstate * rword :=
  match truncate c pos w with
  | WOk w' => (set_w s w', RErr e)
  | WPanic site => (s, RPanic site)
  | _ => (s, RFuel)
  end.

(* MessageBuilder::push *)
Definition mb_push (c : tcfg) (s : bstate) (f : ws -> wres) : bstate * rword :=
  let pos := mlen (w_buf (b_w s)) in
  match f (b_w s) with
  | WPanic site => (s, RPanic site)
  | WFuel => (s, RFuel)
  | WErr w => fail_push c s pos w E_SHORTBUF
  | WOk w =>
      if limit_hit (mlen (w_buf w)) (b_limit s) then fail_push c s pos w E_LIMIT
      else if count_max <=? count_of s then fail_push c s pos w E_COUNT   (* checked_add(1) == None *)
      else (set_count (set_w s w) (count_of s + 1), ROk)
  end.

(* the header fields the setters of base/header.rs take *)
Record hfields := mkHF {
  hf_id : N; hf_qr : bool; hf_opcode : N; hf_aa : bool; hf_tc : bool; hf_rd : bool;
  hf_ra : bool; hf_z : bool; hf_ad : bool; hf_cd : bool; hf_rcode : N }.

(* self.inner[off] = f(self.inner[off]) *)
Fixpoint upd_nth (h : bytes) (off : nat) (f : N -> N) : bytes :=
  match h, off with
  | [], _ => []
  | x :: r, O => f x :: r
  | x :: r, S k => x :: upd_nth r k f
  end.
(* Header::set_bit(offset, bit, set): |= 1 << bit  or  &= !(1 << bit), on a u8 *)
Definition hdr_set_bit (h : bytes) (ob : N * N) (v : bool) : bytes :=
  upd_nth h (N.to_nat (fst ob))
    (fun b => if v then N.lor b (2 ^ snd ob) else N.land b (255 - 2 ^ snd ob)).
(* set_opcode: inner[o] = inner[o] & keep | (opcode << shift) *)
Definition hdr_set_opcode (h : bytes) (op : N) : bytes :=
  let '(o, keep, sh) := hb_opcode in
  upd_nth h (N.to_nat o) (fun b => N.lor (N.land b keep) (N.land (N.shiftl op sh) 255)).
(* set_rcode: inner[o] = inner[o] & keep | (rcode & mask) *)
Definition hdr_set_rcode_bits (h : bytes) (rc : N) : bytes :=
  let '(o, keep, mask) := hb_rcode in
  upd_nth h (N.to_nat o) (fun b => N.lor (N.land b keep) (N.land rc mask)).
(* set_id: inner[..2] = value.to_be_bytes() *)
Definition hdr_set_id (h : bytes) (id : N) : bytes :=
  match h with a :: b :: r => (id / 256) mod 256 :: id mod 256 :: r | _ => h end.

(* one call of a setter of base/header.rs *)
Inductive hflag := FQr | FAa | FTc | FRd | FRa | FZ | FAd | FCd.
Inductive hset := HId (id : N) | HFlag (fl : hflag) (v : bool) | HOpcode (op : N) | HRcode (rc : N).
Definition flag_pos (fl : hflag) : N * N :=
  match fl with
  | FQr => hb_qr | FAa => hb_aa | FTc => hb_tc | FRd => hb_rd
  | FRa => hb_ra | FZ => hb_z | FAd => hb_ad | FCd => hb_cd
  end.
Definition hdr_set1 (h : bytes) (x : hset) : bytes :=
  match x with
  | HId id => hdr_set_id h id
  | HFlag fl v => hdr_set_bit h (flag_pos fl) v
  | HOpcode op => hdr_set_opcode h op
  | HRcode rc => hdr_set_rcode_bits h rc
  end.
Definition hdr_sets (h : bytes) (l : list hset) : bytes := fold_left hdr_set1 l h.

(* all setters, in the order the harness calls them *)
Definition sets_of_fields (f : hfields) : list hset :=
  [HId (hf_id f); HFlag FQr (hf_qr f); HOpcode (hf_opcode f); HFlag FAa (hf_aa f); HFlag FTc (hf_tc f);
   HFlag FRd (hf_rd f); HFlag FRa (hf_ra f); HFlag FZ (hf_z f); HFlag FAd (hf_ad f); HFlag FCd (hf_cd f);
   HRcode (hf_rcode f)].
Definition hdr_apply (h : bytes) (f : hfields) : bytes := hdr_sets h (sets_of_fields f).

(* RFC 1035 4.1.1: the fields of four header octets *)
Definition fields_of_octets (h : bytes) : hfields :=
  match h with
  | [a; b; f; d] =>
      mkHF (a * 256 + b) (N.testbit f 7) ((f / 8) mod 16) (N.testbit f 2) (N.testbit f 1) (N.testbit f 0)
           (N.testbit d 7) (N.testbit d 6) (N.testbit d 5) (N.testbit d 4) (d mod 16)
  | _ => mkHF 0 false 0 false false false false false false false 0
  end.

Inductive op :=
| OpQ (q : question)
| OpR (r : rrecord)
| OpOpt (oh : opt_hdr) (opts : list (N * N * bytes))
| OpNext                  (* QuestionBuilder::answer / AnswerBuilder::authority / AuthorityBuilder::additional *)
| OpBack                  (* AdditionalBuilder::authority / AuthorityBuilder::answer / AnswerBuilder::question *)
| OpRewind                (* <Section>Builder::rewind *)
| OpLimit (l : option N)  (* set_push_limit / clear_push_limit *)
| OpHdr (l : list hset).  (* these setters of header_mut(), in this order *)
(* every other conversion is, in the code, a composition of these:
   x.additional() = x.answer().authority().additional(), x.question() from
   additional = authority().answer().question(), builder() = question() then
   QuestionBuilder::rewind *)

Definition set_sec (s : bstate) (k : N) : bstate :=
  mkB (b_w s) (b_limit s) (b_qd s) (b_an s) (b_ns s) (b_ar s) k (b_s1 s) (b_s2 s) (b_s3 s) (b_hdr s).
Definition set_start (s : bstate) (k v : N) : bstate :=
  if k =? 1 then mkB (b_w s) (b_limit s) (b_qd s) (b_an s) (b_ns s) (b_ar s) (b_sec s) v (b_s2 s) (b_s3 s) (b_hdr s)
  else if k =? 2 then mkB (b_w s) (b_limit s) (b_qd s) (b_an s) (b_ns s) (b_ar s) (b_sec s) (b_s1 s) v (b_s3 s) (b_hdr s)
  else mkB (b_w s) (b_limit s) (b_qd s) (b_an s) (b_ns s) (b_ar s) (b_sec s) (b_s1 s) (b_s2 s) v (b_hdr s).
Definition start_of (s : bstate) : N :=
  if b_sec s =? 0 then header_len else if b_sec s =? 1 then b_s1 s
  else if b_sec s =? 2 then b_s2 s else b_s3 s.

(* <Section>Builder::rewind of the current section *)
Definition rewind (c : tcfg) (s : bstate) : outcome bstate :=
  match truncate c (start_of s) (b_w s) with
  | WOk w => Ok (set_count (set_w s w) 0)
  | WPanic site => Panic site
  | _ => OutOfFuel
  end.

Definition set_hdr (s : bstate) (h : bytes) : bstate :=
  mkB (b_w s) (b_limit s) (b_qd s) (b_an s) (b_ns s) (b_ar s) (b_sec s) (b_s1 s) (b_s2 s) (b_s3 s) h.
(* Header::set_rcode: inner[3] = inner[3] & 0xF0 | (rcode & 0x0F) *)
Definition hdr_set_rcode (h : bytes) (rc : N) : bytes :=
  match h with
  | [a; b; f; d] => [a; b; f; (d / 16) * 16 + rc mod 16]
  | _ => h
  end.
(* the closure runs once the OPT header and the RDLENGTH placeholder are in *)
Definition opt_reaches_closure (c : tcfg) (w : ws) : bool :=
  match append_slice c opt_header_default w with
  | WOk w1 => match append_slice c [0; 0] w1 with WOk _ => true | _ => false end
  | _ => false
  end.

(* restore = AdditionalBuilder::opt puts the header RCODE back when the push fails *)
Definition step_gen (restore : bool) (c : tcfg) (s : bstate) (o : op) : bstate * rword :=
  match o with
  | OpQ q => if b_sec s =? 0 then mb_push c s (compose_question c q) else (s, RNone)
  | OpR r => if b_sec s =? 0 then (s, RNone) else mb_push c s (compose_record c r)
  | OpOpt oh opts =>
      if b_sec s =? 3 then
        let sr := mb_push c s (opt_writer c oh opts) in
        let h1 := match oh_rc oh with
                  | Some v => if oh_hdr oh && opt_reaches_closure c (b_w s) then hdr_set_rcode (b_hdr s) v else b_hdr s
                  | None => b_hdr s
                  end in
        let h2 := match snd sr with
                  | RErr _ => if restore then b_hdr s else h1
                  | _ => h1
                  end in
        (set_hdr (fst sr) h2, snd sr)
      else (s, RNone)
  | OpNext =>        (* XBuilder::new: start = current length; no octets change *)
      if b_sec s <? 3
      then (set_sec (set_start s (b_sec s + 1) (mlen (w_buf (b_w s)))) (b_sec s + 1), RNone)
      else (s, RNone)
  | OpBack =>        (* rewind the current section, then hand out the builder below *)
      if b_sec s =? 0 then (s, RNone) else
      match rewind c s with
      | Ok s' => (set_sec s' (b_sec s - 1), RNone) | Panic site => (s, RPanic site) | _ => (s, RFuel) end
  | OpRewind =>
      match rewind c s with
      | Ok s' => (s', RNone) | Panic site => (s, RPanic site) | _ => (s, RFuel) end
  | OpLimit l => (mkB (b_w s) l (b_qd s) (b_an s) (b_ns s) (b_ar s) (b_sec s) (b_s1 s) (b_s2 s) (b_s3 s) (b_hdr s), RNone)
  | OpHdr l => (set_hdr s (hdr_sets (firstn 4 (b_hdr s ++ [0; 0; 0; 0])) l), RNone)
  end.
Definition step := step_gen opt_restores_rcode_on_err.

(* what a conversion to section k (.question() / .answer() / .authority() /
   .additional()) and .builder() are composed of in the code (T1:
   conversions_anchored reads every conversion body) *)
Definition conv_ops (sec k : N) : list op :=
  if sec <=? k then repeat OpNext (N.to_nat (k - sec)) else repeat OpBack (N.to_nat (sec - k)).
Definition builder_ops (sec : N) : list op := repeat OpBack (N.to_nat sec) ++ [OpRewind].

Definition is_dead (r : rword) : bool :=
  match r with RPanic _ => true | RFuel => true | _ => false end.

(* run a script; stops after the first panic *)
Fixpoint run (c : tcfg) (s : bstate) (ops : list op) : bstate * list rword :=
  match ops with
  | [] => (s, [])
  | o :: r =>
      let '(s1, w) := step c s o in
      if is_dead w then (s1, [w])
      else let '(s2, ws) := run c s1 r in (s2, w :: ws)
  end.

Definition empty_ws : ws := mkWs [] 0 [] [] [].

(* MessageBuilder::from_target: truncate(0), append the 12 header octets *)
Definition init (c : tcfg) : option bstate :=
  match append_slice c (repeat 0 (N.to_nat header_len)) empty_ws with
  | WOk w => Some (mkB w None 0 0 0 0 0 header_len header_len header_len [0; 0; 0; 0])
  | _ => None
  end.

(* the octets a user sees: as_slice() / finish() *)
Definition msg_of (s : bstate) : bytes :=
  firstn 4 (b_hdr s ++ [0; 0; 0; 0]) ++ be16 (b_qd s) ++ be16 (b_an s) ++ be16 (b_ns s) ++ be16 (b_ar s)
  ++ skipn 12 (w_buf (b_w s)).
(* StreamTarget::as_stream_slice *)
Definition stream_of (s : bstate) : bytes := be16 (w_shim (b_w s)) ++ msg_of s.

(* ------------------------------------------------- accepted items (spec) *)

Record acc := mkAcc { a_q : list question; a_an : list rrecord; a_ns : list rrecord; a_ar : list rrecord }.
Definition acc0 : acc := mkAcc [] [] [] [].

(* what an OPT push is as a record: owner root, type/class/ttl from the OPT
   header, record data = the options *)
Definition opt_record (oh : opt_hdr) (opts : list (N * N * bytes)) : rrecord :=
  mkR [] 41 (oh_udp oh) (oh_ext oh * 16777216 + oh_ver oh * 65536 + oh_flags oh) true
      [RBytes (opts_bytes opts)].

Definition acc_clear_sec (a : acc) (k : N) : acc :=
  mkAcc (if k =? 0 then [] else a_q a) (if k =? 1 then [] else a_an a)
        (if k =? 2 then [] else a_ns a) (if k =? 3 then [] else a_ar a).
Definition acc_add_r (a : acc) (k : N) (r : rrecord) : acc :=
  if k =? 1 then mkAcc (a_q a) (a_an a ++ [r]) (a_ns a) (a_ar a)
  else if k =? 2 then mkAcc (a_q a) (a_an a) (a_ns a ++ [r]) (a_ar a)
  else mkAcc (a_q a) (a_an a) (a_ns a) (a_ar a ++ [r]).

(* sec = section before the operation, w = its result word *)
Definition acc_step (sec : N) (a : acc) (o : op) (w : rword) : acc :=
  match o, w with
  | OpQ q, ROk => mkAcc (a_q a ++ [q]) (a_an a) (a_ns a) (a_ar a)
  | OpR r, ROk => acc_add_r a sec r
  | OpOpt oh opts, ROk => acc_add_r a sec (opt_record oh opts)
  | OpBack, RNone => if sec =? 0 then a else acc_clear_sec a sec
  | OpRewind, RNone => acc_clear_sec a sec
  | _, _ => a
  end.

Fixpoint run_acc (c : tcfg) (s : bstate) (a : acc) (ops : list op) : bstate * acc * list rword :=
  match ops with
  | [] => (s, a, [])
  | o :: r =>
      let '(s1, w) := step c s o in
      let a1 := acc_step (b_sec s) a o w in
      if is_dead w then (s1, a1, [w])
      else let '(s2, a2, ws) := run_acc c s1 a1 r in (s2, a2, w :: ws)
  end.

(* ---------------------------------------------------------------- reader *)
(* What a parser reconstructs: header counts, then per item the name
   (PName.decode_name = ParsedName::parse + label iteration), the fixed
   fields, RDLENGTH and the record data read according to the shape its type
   dictates (octet runs and embedded names), with the trailing-data check of
   RecordHeader::parse_into_record. *)

Definition rd_u16 (m : bytes) (p lim : N) : outcome (N * N) :=
  if lim <? p + 2 then Err E_SHORT else
  match get m p, get m (p + 1) with
  | Some a, Some b => Ok (of_be16 a b, p + 2)
  | _, _ => Panic P_INDEX
  end.
Definition rd_u32 (m : bytes) (p lim : N) : outcome (N * N) :=
  if lim <? p + 4 then Err E_SHORT else
  match get m p, get m (p + 1), get m (p + 2), get m (p + 3) with
  | Some a, Some b, Some c, Some d => Ok (of_be32 a b c d, p + 4)
  | _, _, _, _ => Panic P_INDEX
  end.

Inductive rshape := SBytes (n : N) | SName.
Definition shape_of (it : ritem) : rshape :=
  match it with RBytes b => SBytes (mlen b) | _ => SName end.
(* what the reader returns for an item: names come back as RName *)
Definition norm_item (it : ritem) : ritem :=
  match it with RNameU n => RName n | other => other end.

Fixpoint rd_items (m : bytes) (p lim : N) (sh : list rshape) : outcome (list ritem * N) :=
  match sh with
  | [] => Ok ([], p)
  | SBytes n :: r =>
      if lim <? p + n then Err E_SHORT else
      do x <- rd_items m (p + n) lim r;
      Ok (RBytes (slice m p (p + n)) :: fst x, snd x)
  | SName :: r =>
      do d <- decode_name m p lim;
      do x <- rd_items m (snd d) lim r;
      Ok (RName (fst d) :: fst x, snd x)
  end.

Definition rd_question (m : bytes) (p : N) : outcome (question * N) :=
  do d <- decode_name m p (mlen m);
  do t <- rd_u16 m (snd d) (mlen m);
  do c <- rd_u16 m (snd t) (mlen m);
  Ok (mkQ (fst d) (fst t) (fst c), snd c).

Definition rd_record (m : bytes) (p : N) (sh : list rshape) : outcome (rrecord * N) :=
  do d <- decode_name m p (mlen m);
  do t <- rd_u16 m (snd d) (mlen m);
  do c <- rd_u16 m (snd t) (mlen m);
  do l <- rd_u32 m (snd c) (mlen m);
  do n <- rd_u16 m (snd l) (mlen m);
  let e := snd n + fst n in
  if mlen m <? e then Err E_SHORT else
  do x <- rd_items m (snd n) e sh;
  if snd x =? e then Ok (mkR (fst d) (fst t) (fst c) (fst l) false (fst x), e)
  else Err E_TRAILING.

Fixpoint rd_questions (m : bytes) (p : N) (n : nat) : outcome (list question * N) :=
  match n with
  | O => Ok ([], p)
  | S n' =>
      do q <- rd_question m p;
      do x <- rd_questions m (snd q) n';
      Ok (fst q :: fst x, snd x)
  end.
Fixpoint rd_records (m : bytes) (p : N) (shs : list (list rshape)) : outcome (list rrecord * N) :=
  match shs with
  | [] => Ok ([], p)
  | sh :: r =>
      do x <- rd_record m p sh;
      do y <- rd_records m (snd x) r;
      Ok (fst x :: fst y, snd y)
  end.

Definition shapes_of (rs : list rrecord) : list (list rshape) :=
  map (fun r => map shape_of (r_data r)) rs.

(* read a whole message against the shapes of the expected items: the header
   counts must equal the numbers of items and the sections must end exactly at
   the end of the message *)
Definition rd_message (m : bytes) (a : acc) : outcome acc :=
  do qd <- rd_u16 m 4 (mlen m);
  do an <- rd_u16 m 6 (mlen m);
  do ns <- rd_u16 m 8 (mlen m);
  do ar <- rd_u16 m 10 (mlen m);
  if negb ((fst qd =? N.of_nat (length (a_q a))) && (fst an =? N.of_nat (length (a_an a))) &&
           (fst ns =? N.of_nat (length (a_ns a))) && (fst ar =? N.of_nat (length (a_ar a))))
  then Err E_COUNTS else
  do qs <- rd_questions m 12 (length (a_q a));
  do r1 <- rd_records m (snd qs) (shapes_of (a_an a));
  do r2 <- rd_records m (snd r1) (shapes_of (a_ns a));
  do r3 <- rd_records m (snd r2) (shapes_of (a_ar a));
  if snd r3 =? mlen m then Ok (mkAcc (fst qs) (fst r1) (fst r2) (fst r3)) else Err E_TRAILING.

(* comparison of what was read with what was pushed: names up to ASCII case
   (DNS name equality), everything else exactly *)
Definition item_eqb (a b : ritem) : bool :=
  match norm_item a, norm_item b with
  | RBytes x, RBytes y => bytes_eqb x y
  | RName x, RName y => name_eqb x y
  | _, _ => false
  end.
Fixpoint all2 {A} (f : A -> A -> bool) (a b : list A) : bool :=
  match a, b with
  | [], [] => true
  | x :: a', y :: b' => f x y && all2 f a' b'
  | _, _ => false
  end.
Definition question_eqb (a b : question) : bool :=
  name_eqb (q_name a) (q_name b) && (q_type a =? q_type b) && (q_class a =? q_class b).
Definition record_eqb (a b : rrecord) : bool :=
  name_eqb (r_owner a) (r_owner b) && (r_type a =? r_type b) && (r_class a =? r_class b) &&
  (r_ttl a =? r_ttl b) && all2 item_eqb (r_data a) (r_data b).
Definition acc_eqb (a b : acc) : bool :=
  all2 question_eqb (a_q a) (a_q b) && all2 record_eqb (a_an a) (a_an b) &&
  all2 record_eqb (a_ns a) (a_ns b) && all2 record_eqb (a_ar a) (a_ar b).

(* ------------------------------------------------- composite operations *)
(* Conversions and the convenience constructors of MessageBuilder are, in the
   code, compositions of the operations above (T1: conversions_anchored,
   start_helpers_anchored).  They are given by the list of primitive operations
   they perform from the current state, which is then run. *)

Inductive xop :=
| XPrim (o : op)
| XGoto (k : N)                 (* .question() / .answer() / .authority() / .additional() *)
| XBuilder                      (* .builder().question() *)
| XStart (kind : N) (id opcode : N) (rd : bool) (rcode : N) (qs : list question).
  (* kind 0: .builder().start_answer(&query, rcode); 1: .builder().start_error(&query, rcode);
     2: .builder().request_axfr(apex) followed by set_id(id) (the id it draws is random);
     id, opcode, rd and the questions are those of the query *)

(* builder.push(item)? for every question: the pushes made, and the error that stopped them *)
Fixpoint start_qs (c : tcfg) (s : bstate) (qs : list question) : list op * option N :=
  match qs with
  | [] => ([], None)
  | q :: r =>
      match step c s (OpQ q) with
      | (s', ROk) => let '(l, e) := start_qs c s' r in (OpQ q :: l, e)
      | (_, RErr e) => ([OpQ q], Some e)
      | (_, _) => ([OpQ q], None)
      end
  end.

Definition servfail : N := 2.

(* the primitive operations of a composite one, and whether the builder is gone afterwards *)
Definition expand (c : tcfg) (s : bstate) (x : xop) : list op * bool :=
  match x with
  | XPrim o => ([o], false)
  | XGoto k => (conv_ops (b_sec s) (N.min k 3), false)
  | XBuilder => (builder_ops (b_sec s), false)
  | XStart kind id opcode rd rcode qs =>
      let sets := if kind =? 2 then [HId id]     (* set_random_id, then the harness' set_id *)
                  else [HId id; HFlag FQr true; HOpcode opcode; HFlag FRd rd; HRcode rcode] in
      let pre := builder_ops (b_sec s) ++ [OpHdr sets] in
      let s1 := fst (run c s pre) in
      (* request_axfr asks one question: (apex, AXFR, IN), apex = the name of the first one given *)
      let qs' := if kind =? 2 then [mkQ (match qs with q :: _ => q_name q | [] => [] end) 252 1] else qs in
      let '(lq, e) := start_qs c s1 qs' in
      match e with
      | None => (pre ++ lq ++ [OpNext], false)
      | Some _ =>
          if kind =? 1 then (pre ++ lq ++ [OpHdr [HRcode servfail]; OpNext], false)   (* start_error *)
          else (pre ++ lq, true)                                                    (* `?`: the builder is dropped *)
      end
  end.

Definition first_err (ws : list rword) : option N :=
  match find (fun w => match w with RErr _ => true | _ => false end) ws with
  | Some (RErr e) => Some e
  | _ => None
  end.

(* the one result word of a composite operation: a panic if there was one;
   start_answer / request_axfr answer with the error of the failing push *)
Definition collapse (x : xop) (ws : list rword) : rword :=
  match find is_dead ws with
  | Some w => w
  | None =>
      match x with
      | XPrim _ => match ws with [w] => w | _ => RNone end
      | XStart kind _ _ _ _ _ =>
          if kind =? 1 then RNone
          else match first_err ws with Some e => RErr e | None => ROk end
      | _ => RNone
      end
  end.

Fixpoint xrun (c : tcfg) (s : bstate) (a : acc) (xs : list xop) : bstate * acc * list rword * bool :=
  match xs with
  | [] => (s, a, [], false)
  | x :: r =>
      let '(ops, lost) := expand c s x in
      let '(s1, a1, ws) := run_acc c s a ops in
      let w := collapse x ws in
      if is_dead w || lost then (s1, a1, [w], lost)
      else let '(s2, a2, ws2, l2) := xrun c s1 a1 r in (s2, a2, w :: ws2, l2)
  end.

(* -------------------------------------------- entry points for the driver *)

Definition c02_run (c : tcfg) (ops : list op) : option (bstate * acc * list rword) :=
  match init c with
  | None => None
  | Some s => Some (run_acc c s acc0 ops)
  end.
Definition c02_xrun (c : tcfg) (xs : list xop) : option (bstate * acc * list rword * bool) :=
  match init c with
  | None => None
  | Some s => Some (xrun c s acc0 xs)
  end.
Definition c02_msg (c : tcfg) (s : bstate) : bytes :=
  if t_stream c then stream_of s else msg_of s.
Definition c02_reread (s : bstate) (a : acc) : bool :=
  match rd_message (msg_of s) a with
  | Ok a' => acc_eqb a' a
  | _ => false
  end.
