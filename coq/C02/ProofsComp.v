(* C02 proofs, part 4: what the writers put into the buffer, completion of a
   name from its labels and its terminator, the compressor invariant and the
   transparency of compression for the "no compressor" and Tree cases. *)
From Coq Require Import NArith List Bool Lia ZArith.
From Coq Require Import ZifyN ZifyBool ZifyNat.
From DV Require Import Base.Outcome Base.Bytes Base.Names Base.PName C02.Gen C02.Model
  C02.ProofsBasic C02.ProofsName.
Import ListNotations.
Local Open Scope N_scope.
Ltac Zify.zify_post_hook ::= Z.div_mod_to_equations.

(* ------------------------------------------------ exact results of writers *)

Lemma append_slice_ok c s w w' :
  append_slice c s w = WOk w' -> w_buf w' = w_buf w ++ s /\ same_tables w w'.
Proof.
  unfold append_slice, same_tables. intros H. destruct (negb _); [discriminate|].
  destruct (t_stream c); [destruct (_ <=? _); try discriminate|]; injection H as <-;
    unfold set_shim, set_buf; cbn [w_buf w_static w_tree w_hash]; auto.
Qed.

Lemma label_compose_ok c l w w' :
  label_compose c l w = WOk w' -> w_buf w' = w_buf w ++ (mlen l :: l) /\ same_tables w w'.
Proof.
  unfold label_compose. intros H.
  destruct (append_slice c [N.of_nat (length l)] w) as [w1|w1| |] eqn:E1; cbn [wbind] in H; try discriminate.
  apply append_slice_ok in E1 as [B1 (a1 & a2 & a3)]. apply append_slice_ok in H as [B2 (b1 & b2 & b3)].
  split; [rewrite B2, B1, <- app_assoc; reflexivity|]. unfold same_tables. repeat split; congruence.
Qed.

Lemma write_labels_ok c ls : forall w w',
  write_labels c ls w = WOk w' -> w_buf w' = w_buf w ++ wire_rel ls /\ same_tables w w'.
Proof.
  induction ls as [|l r IH]; intros w w' H; cbn [write_labels] in H.
  - injection H as <-. rewrite app_nil_r. unfold same_tables. auto.
  - destruct (label_compose c l w) as [w1|w1| |] eqn:E1; cbn [wbind] in H; try discriminate.
    apply label_compose_ok in E1 as [B1 (a1 & a2 & a3)]. apply IH in H as [B2 (b1 & b2 & b3)].
    split; [|unfold same_tables; repeat split; congruence].
    rewrite B2, B1, <- app_assoc. unfold wire_rel. cbn [map concat]. reflexivity.
Qed.

(* ------------------------------------------- a name from labels + terminator *)

(* a label with the rest of its name behind it *)
Definition LabelAt (m : bytes) (ok : N -> Prop) (p : N) (l : label) (ls : name) (e : N) : Prop :=
  valid_label l /\ (forall i, p <= i < p + 1 + mlen l -> ok i) /\
  bytes_at m p (mlen l :: l) /\ NameIn m ok p (p + 1 + mlen l) ls e.

Lemma LabelAt_name m ok p l ls e : LabelAt m ok p l ls e -> NameIn m ok p p (l :: ls) e.
Proof. intros (A & B & C & D). apply NI_label; auto. Qed.

Lemma bytes_at_app_l m x p b : bytes_at m p b -> bytes_at (m ++ x) p b.
Proof.
  intros H k Hk. specialize (H k Hk). destruct (nth_error b k) eqn:E; [|apply nth_error_None in E; lia].
  rewrite get_app_l; [exact H|]. eapply get_some_lt; eauto.
Qed.

Lemma LabelAt_app m x (ok : N -> Prop) p l ls e : LabelAt m ok p l ls e -> LabelAt (m ++ x) ok p l ls e.
Proof.
  intros (A & B & C & D). split; [exact A|]. split; [exact B|]. split; [apply bytes_at_app_l; exact C|apply NameIn_app; exact D].
Qed.

Lemma LabelAt_weaken m (ok ok' : N -> Prop) p l ls e :
  (forall i, ok i -> ok' i) -> LabelAt m ok p l ls e -> LabelAt m ok' p l ls e.
Proof.
  intros W (A & B & C & D). split; [exact A|]. split; [intros; apply W, B; auto|]. split; [exact C|].
  eapply NameIn_weaken; eauto.
Qed.

Lemma bytes_at_agree m m' (ok : N -> Prop) p b :
  (forall i v, ok i -> get m i = Some v -> get m' i = Some v) ->
  (forall i, p <= i < p + mlen b -> ok i) -> bytes_at m p b -> bytes_at m' p b.
Proof.
  intros A O H k Hk. specialize (H k Hk). destruct (nth_error b k) eqn:E; [|apply nth_error_None in E; lia].
  apply A; auto. apply O. unfold mlen. lia.
Qed.

Lemma LabelAt_agree m m' (ok : N -> Prop) p l ls e :
  (forall i v, ok i -> get m i = Some v -> get m' i = Some v) ->
  LabelAt m ok p l ls e -> LabelAt m' ok p l ls e.
Proof.
  intros Ag (A & B & C & D). split; [exact A|]. split; [exact B|]. split.
  - eapply bytes_at_agree; eauto. intros i Hi. apply B. rewrite mlen_cons in Hi. lia.
  - eapply NameIn_agree; eauto.
Qed.

(* what ends a name: the root octet, or a pointer to a stored label *)
Inductive Term (m : bytes) (ok : N -> Prop) (bound : N) (t : N) : name -> N -> Prop :=
| T_root : ok t -> get m t = Some 0 -> Term m ok bound t [] (t + 1)
| T_ptr q l ls e' :
    ok t -> ok (t + 1) -> get m t = Some (192 + q / 256) -> get m (t + 1) = Some (q mod 256) ->
    q < bound -> q < 16384 -> LabelAt m ok q l ls e' ->
    Term m ok bound t (l :: ls) (t + 2).

Lemma mlen_wire_rel_cons l r : mlen (wire_rel (l :: r)) = 1 + mlen l + mlen (wire_rel r).
Proof. unfold wire_rel. cbn [map concat]. unfold wire_label. rewrite mlen_app, mlen_cons. unfold mlen. lia. Qed.

Lemma bytes_at_split m p a b : bytes_at m p (a ++ b) <-> bytes_at m p a /\ bytes_at m (p + mlen a) b.
Proof.
  split.
  - intros H. split.
    + intros k Hk. rewrite (H k) by (rewrite app_length; lia). apply nth_error_app1. exact Hk.
    + intros k Hk. replace (p + mlen a + N.of_nat k) with (p + N.of_nat (length a + k)) by (unfold mlen; lia).
      rewrite (H (length a + k)%nat) by (rewrite app_length; lia).
      rewrite nth_error_app2 by lia. f_equal. lia.
  - intros [Ha Hb] k Hk. destruct (Nat.lt_ge_cases k (length a)) as [L|L].
    + rewrite (Ha k L). symmetry. apply nth_error_app1. exact L.
    + rewrite nth_error_app2 by exact L. rewrite app_length in Hk.
      specialize (Hb (k - length a)%nat ltac:(lia)). rewrite <- Hb. f_equal. unfold mlen. lia.
Qed.

(* labels followed by a terminator form a name, for every admissible segment start *)
Lemma NameIn_complete m (ok : N -> Prop) bound tail e : forall pre p seg,
  Forall valid_label pre -> bytes_at m p (wire_rel pre) ->
  (forall i, p <= i < p + mlen (wire_rel pre) -> ok i) ->
  Term m ok bound (p + mlen (wire_rel pre)) tail e -> bound <= seg -> seg <= p ->
  NameIn m ok seg p (pre ++ tail) e.
Proof.
  induction pre as [|l pre IH]; intros p seg Hv Hb Ho Ht Hs1 Hs2.
  - cbn [app]. change (mlen (wire_rel [])) with 0 in Ht. rewrite N.add_0_r in Ht.
    destruct Ht as [Ho' Hg | q l ls e' O0 O1 G0 G1 Hq Hq2 HL].
    + constructor; auto.
    + destruct HL as (A & B & C & D). eapply NI_ptr; eauto; lia.
  - inversion Hv as [|? ? Hl Hv']; subst. cbn [app].
    rewrite mlen_wire_rel_cons in Ht, Ho.
    unfold wire_rel in Hb. cbn [map concat] in Hb. fold (wire_rel pre) in Hb.
    apply bytes_at_split in Hb as [Hb1 Hb2]. change (wire_label l) with (mlen l :: l) in Hb1.
    replace (mlen (wire_label l)) with (1 + mlen l) in Hb2 by (unfold wire_label; rewrite mlen_cons; reflexivity).
    apply NI_label; auto.
    + intros i Hi. apply Ho. lia.
    + apply IH; auto.
      * replace (p + 1 + mlen l) with (p + (1 + mlen l)) by lia. exact Hb2.
      * intros i Hi. apply Ho. lia.
      * replace (p + 1 + mlen l + mlen (wire_rel pre)) with (p + (1 + mlen l + mlen (wire_rel pre))) by lia. exact Ht.
      * lia.
Qed.

(* an uncompressed name *)
Lemma NameIn_wire a ls x (ok : N -> Prop) seg :
  Forall valid_label ls -> (forall i, mlen a <= i -> ok i) -> seg <= mlen a ->
  NameIn (a ++ wire_abs ls ++ x) ok seg (mlen a) ls (mlen a + mlen (wire_abs ls)).
Proof.
  intros Hv Ho Hs. rewrite <- (app_nil_r ls) at 2.
  assert (E : mlen (wire_abs ls) = mlen (wire_rel ls) + 1).
  { unfold wire_abs. rewrite mlen_app. reflexivity. }
  rewrite E. replace (mlen a + (mlen (wire_rel ls) + 1)) with (mlen a + mlen (wire_rel ls) + 1) by lia.
  apply (NameIn_complete _ ok 0 [] _ ls (mlen a) seg); auto; try lia.
  - unfold wire_abs. rewrite <- app_assoc. apply bytes_at_app.
  - intros i Hi. apply Ho. lia.
  - constructor; [apply Ho; lia|].
    unfold wire_abs. rewrite get_app_r by lia. rewrite <- app_assoc. rewrite get_app_r by (unfold mlen; lia).
    replace (mlen a + mlen (wire_rel ls) - mlen a - mlen (wire_rel ls)) with 0 by lia. reflexivity.
Qed.

(* --------------------------------------------------- compressor invariant *)

Definition StaticOK (m : bytes) (ok : N -> Prop) (v : N) : Prop :=
  exists l ls e, LabelAt m ok v l ls e.
Definition TreeOK (m : bytes) (ok : N -> Prop) (k : name) (v : N) : Prop :=
  exists l ls e, k = l :: ls /\ LabelAt m ok v l ls e.
(* a hash entry: the label at head, and tail = position of the rest of the
   name (0xFFFF for the root) *)
Definition HashOK (m : bytes) (ok : N -> Prop) (h t : N) : Prop :=
  exists l ls e, LabelAt m ok h l ls e /\
    ((t = hash_root_pos /\ ls = []) \/
     (t <> hash_root_pos /\ exists seg e', NameIn m ok seg t ls e')).

Lemma label_at_here m p l :
  valid_label l -> bytes_at m p (mlen l :: l) -> label_at m (mlen m) p = Some l.
Proof.
  intros [Hl Hw] Hb. unfold label_at.
  pose proof Hb as Hb0. apply bytes_at_cons in Hb0 as [Hg Hb1]. rewrite Hg.
  pose proof (bytes_at_end m p (mlen l :: l) ltac:(discriminate) Hb) as He. rewrite mlen_cons in He.
  destruct (N.leb_spec (mlen l) 63); [|unfold mlen in *; lia].
  destruct (N.leb_spec (p + 1 + mlen l) (PName.mlen m)); [|lia]. cbn [andb].
  rewrite (slice_bytes_at m (p + 1) l Hb1). reflexivity.
Qed.

(* at most one hash entry per (label up to ASCII case, tail): what makes
   HashTable::find's answer independent of the probe order *)
Definition HU (m : bytes) (es : list (N * N)) : Prop :=
  forall h1 h2 t la lb, In (h1, t) es -> In (h2, t) es ->
    label_at m (mlen m) h1 = Some la -> label_at m (mlen m) h2 = Some lb -> lowers la = lowers lb -> h1 = h2.

Definition CInv (ok : N -> Prop) (w : ws) : Prop :=
  Forall (StaticOK (w_buf w) ok) (w_static w) /\
  Forall (fun kv => TreeOK (w_buf w) ok (fst kv) (snd kv)) (w_tree w) /\
  Forall (fun e => HashOK (w_buf w) ok (fst e) (snd e)) (w_hash w) /\
  HU (w_buf w) (w_hash w).

(* uniqueness carries over to a buffer in which the entries read the same labels *)
Lemma HU_transfer m m' (ok ok' : N -> Prop) es es' :
  incl es' es -> Forall (fun e => HashOK m ok (fst e) (snd e)) es ->
  (forall p l ls e, LabelAt m ok p l ls e -> LabelAt m' ok' p l ls e) ->
  HU m es -> HU m' es'.
Proof.
  intros I F HL U h1 h2 t la lb I1 I2 L1 L2 E.
  rewrite Forall_forall in F.
  assert (X : forall h lx, In (h, t) es' -> label_at m' (mlen m') h = Some lx -> label_at m (mlen m) h = Some lx).
  { intros h lx Hin Hl. destruct (F (h, t) (I _ Hin)) as (l & ls & e & HLa & _). cbn [fst] in HLa.
    pose proof (HL _ _ _ _ HLa) as HLb.
    destruct HLa as (V & _ & B & _). destruct HLb as (_ & _ & B' & _).
    rewrite (label_at_here _ _ _ V B') in Hl. rewrite (label_at_here _ _ _ V B). exact Hl. }
  apply (U h1 h2 t la lb); auto.
Qed.

Lemma CInv_map (P : bytes -> (N -> Prop) -> Prop) ok ok' w w' :
  (forall p l ls e, LabelAt (w_buf w) ok p l ls e -> LabelAt (w_buf w') ok' p l ls e) ->
  (forall seg p ls e, NameIn (w_buf w) ok seg p ls e -> NameIn (w_buf w') ok' seg p ls e) ->
  same_tables w w' -> CInv ok w -> CInv ok' w'.
Proof.
  intros HL HN (a1 & a2 & a3) (A & B & C & U). unfold CInv. rewrite a1, a2, a3. split; [|split; [|split]].
  - eapply Forall_weaken; [|exact A]. intros v (l & ls & e & H). exists l, ls, e. auto.
  - eapply Forall_weaken; [|exact B]. intros [k v] (l & ls & e & K & H). exists l, ls, e. auto.
  - eapply Forall_weaken; [|exact C]. intros [h t] (l & ls & e & H & T). exists l, ls, e. split; auto.
    destruct T as [T|(T1 & seg & e' & T2)]; [left; exact T|right]. split; auto. exists seg, e'. auto.
  - eapply HU_transfer; [apply incl_refl|exact C|exact HL|exact U].
Qed.

Lemma CInv_app ok w w' x : w_buf w' = w_buf w ++ x -> same_tables w w' -> CInv ok w -> CInv ok w'.
Proof.
  intros B T. apply (CInv_map (fun _ _ => True)); auto; rewrite B; intros.
  - apply LabelAt_app; auto.
  - apply NameIn_app; auto.
Qed.

Lemma CInv_weaken (ok ok' : N -> Prop) w : (forall i, ok i -> ok' i) -> CInv ok w -> CInv ok' w.
Proof.
  intros W. apply (CInv_map (fun _ _ => True)); [| |unfold same_tables; auto]; intros.
  - eapply LabelAt_weaken; eauto.
  - eapply NameIn_weaken; eauto.
Qed.

Lemma CInv_agree (ok : N -> Prop) w w' :
  (forall i v, ok i -> get (w_buf w) i = Some v -> get (w_buf w') i = Some v) ->
  same_tables w w' -> CInv ok w -> CInv ok w'.
Proof.
  intros Ag. apply (CInv_map (fun _ _ => True)); intros.
  - eapply LabelAt_agree; eauto.
  - eapply NameIn_agree; eauto.
Qed.

(* everything read lies below the end of the buffer *)
Lemma CInv_below (ok : N -> Prop) w : CInv ok w -> CInv (fun i => ok i /\ i < mlen (w_buf w)) w.
Proof.
  assert (HL : forall p l ls e, LabelAt (w_buf w) ok p l ls e -> LabelAt (w_buf w) (fun i => ok i /\ i < mlen (w_buf w)) p l ls e).
  { intros p l ls e (A & B & C & D). split; [exact A|]. split; [|split; [exact C|apply NameIn_below; exact D]].
    intros i Hi. split; [apply B; exact Hi|].
    pose proof (bytes_at_end _ p (mlen l :: l) ltac:(discriminate) C) as He. rewrite mlen_cons in He. lia. }
  apply (CInv_map (fun _ _ => True)); [exact HL| |unfold same_tables; auto].
  intros. apply NameIn_below. auto.
Qed.

(* ------------------------------------------------- transparency, per kind *)

(* what Composer::append_compressed_name must guarantee *)
Definition AcnSpec (c : tcfg) (f : name -> ws -> wres) : Prop :=
  forall (ok : N -> Prop) n w w',
    Forall valid_label n -> TBound w -> SInv c w -> CInv ok w ->
    (forall i, mlen (w_buf w) <= i -> ok i) ->
    f n w = WOk w' ->
    CInv ok w' /\ exists n', canon n' = canon n /\
      NameIn (w_buf w') ok (mlen (w_buf w)) (mlen (w_buf w)) n' (mlen (w_buf w')).

Lemma none_acn_ok c : AcnSpec c (fun n w => append_slice c (wire_abs n) w).
Proof.
  intros ok n w w' Hv TB SI CI Ho H. apply append_slice_ok in H as [B T].
  split; [eapply CInv_app; eauto|]. exists n. split; [reflexivity|].
  rewrite B, mlen_app. rewrite <- (app_nil_r (wire_abs n)) at 1. apply NameIn_wire; auto. lia.
Qed.

(* pos | 0xC000 for a 14 bit pos: the operands have no bit in common *)
Lemma land_ptr_tag q : q < 16384 -> N.land q 49152 = 0.
Proof.
  intros Hq. apply N.bits_inj. intros n. rewrite N.land_spec, N.bits_0.
  destruct (N.lt_ge_cases n 14) as [L|L].
  - change 49152 with (3 * 2 ^ 14). rewrite (N.mul_pow2_bits_low 3 14 n L). apply andb_false_r.
  - rewrite <- (N.mod_small q (2 ^ 14)) by exact Hq.
    rewrite N.mod_pow2_bits_high by exact L. reflexivity.
Qed.
Lemma lor_ptr_tag q : q < 16384 -> N.lor q 49152 = q + 49152.
Proof.
  intros Hq. pose proof (land_ptr_tag q Hq) as H.
  rewrite <- (N.lxor_lor _ _ H). symmetry. apply N.add_nocarry_lxor. exact H.
Qed.

Lemma write_ptr_ok c tag q w w' : q < 16384 -> tag = 49152 ->
  write_ptr c tag q w = WOk w' ->
  w_buf w' = w_buf w ++ [192 + q / 256; q mod 256] /\ same_tables w w'.
Proof.
  intros Hq -> H. unfold write_ptr in H. apply append_slice_ok in H as [B T]. split; [|exact T].
  rewrite B, (lor_ptr_tag q Hq). unfold be16. f_equal. f_equal; [|f_equal]; lia.
Qed.

(* a pointer written at the end of the buffer terminates a name *)
Lemma Term_ptr_end b (ok : N -> Prop) bound q l ls e' :
  (forall i, mlen b <= i -> ok i) -> q < bound -> q < 16384 -> LabelAt b ok q l ls e' ->
  Term (b ++ [192 + q / 256; q mod 256]) ok bound (mlen b) (l :: ls) (mlen b + 2).
Proof.
  intros Ho Hq Hq2 HL. eapply T_ptr; eauto; try (apply Ho; lia).
  - rewrite get_app_r by lia. replace (mlen b - mlen b) with 0 by lia. reflexivity.
  - rewrite get_app_r by lia. replace (mlen b + 1 - mlen b) with 1 by lia. reflexivity.
  - apply LabelAt_app. exact HL.
Qed.

Lemma Term_root_end b (ok : N -> Prop) bound :
  (forall i, mlen b <= i -> ok i) -> Term (b ++ [0]) ok bound (mlen b) [] (mlen b + 1).
Proof.
  intros Ho. constructor; [apply Ho; lia|]. rewrite get_app_r by lia. replace (mlen b - mlen b) with 0 by lia. reflexivity.
Qed.

Lemma tree_get_some t k v : tree_get t k = Some v -> In (k, v) t.
Proof.
  induction t as [|[k' v'] t IH]; cbn [tree_get]; [discriminate|].
  destruct (labels_eqb k' k) eqn:E; intros H.
  - injection H as <-. apply labels_eqb_eq in E. subst. left. reflexivity.
  - right. auto.
Qed.

Lemma TreeOK_app m x (ok : N -> Prop) k v : TreeOK m ok k v -> TreeOK (m ++ x) ok k v.
Proof. intros (l & ls & e & K & H). exists l, ls, e. split; [exact K|apply LabelAt_app; exact H]. Qed.

(* labels written at the end of the buffer, then the root octet *)
Lemma NameIn_labels_root b (ok : N -> Prop) ls seg :
  Forall valid_label ls -> (forall i, mlen b <= i -> ok i) -> seg <= mlen b ->
  NameIn (b ++ wire_rel ls ++ [0]) ok seg (mlen b) ls (mlen (b ++ wire_rel ls ++ [0])).
Proof.
  intros Hv Ho Hs. pose proof (NameIn_wire b ls [] ok seg Hv Ho Hs) as H.
  unfold wire_abs in H. rewrite app_nil_r in H. rewrite !mlen_app. rewrite mlen_app in H. exact H.
Qed.

(* the Tree loop, generalised: entries at or above b0 belong to the name being
   written (their keys are longer than what is still to be written) *)
Lemma tree_acn_name c (ok : N -> Prop) b0 : forall ls w w',
  Forall valid_label ls -> TBound w -> b0 <= mlen (w_buf w) ->
  (forall i, b0 <= i -> ok i) ->
  (forall k v, In (k, v) (w_tree w) -> v < b0 -> TreeOK (w_buf w) ok k v) ->
  (forall k v, In (k, v) (w_tree w) -> b0 <= v -> (length ls < length k)%nat) ->
  tree_acn c ls w = WOk w' ->
  (forall seg, b0 <= seg <= mlen (w_buf w) ->
     NameIn (w_buf w') ok seg (mlen (w_buf w)) ls (mlen (w_buf w'))) /\
  (exists sfx, w_buf w' = w_buf w ++ sfx) /\
  w_static w' = w_static w /\ w_hash w' = w_hash w /\
  (forall k v, In (k, v) (w_tree w') -> In (k, v) (w_tree w) \/ TreeOK (w_buf w') ok k v).
Proof.
  induction ls as [|l rest IH]; intros w w' Hv TB Hb0 Ho Hold Hpend H; cbn [tree_acn] in H.
  - apply append_slice_ok in H as [B (a1 & a2 & a3)].
    split; [|split; [eexists; exact B|split; [auto|split; [auto|]]]].
    + intros seg Hs. rewrite B. pose proof (NameIn_labels_root (w_buf w) ok [] seg Hv) as X.
      cbn [wire_rel map concat app] in X. apply X; [intros; apply Ho; lia|lia].
    + intros k v Hin. left. rewrite a2 in Hin. exact Hin.
  - inversion Hv as [|? ? Hl Hv']; subst.
    destruct (tree_get (w_tree w) (l :: rest)) as [pos|] eqn:EG.
    + apply tree_get_some in EG.
      assert (Hlt : pos < b0).
      { destruct (N.lt_ge_cases pos b0) as [L|L]; [exact L|]. specialize (Hpend _ _ EG L). lia. }
      destruct (Hold _ _ EG Hlt) as (l0 & ls0 & e0 & K & HL). injection K as <- <-.
      destruct TB as (_ & TT & _). rewrite Forall_forall in TT. specialize (TT _ EG). cbn [snd] in TT.
      apply write_ptr_ok in H as [B (a1 & a2 & a3)]; [|lia|reflexivity].
      split; [|split; [eexists; exact B|split; [auto|split; [auto|]]]].
      * intros seg Hs. rewrite B, mlen_app. change (mlen [192 + pos / 256; pos mod 256]) with 2.
        apply (NameIn_complete _ ok b0 (l :: rest) _ [] (mlen (w_buf w)) seg); auto; try lia.
        -- intros k Hk. cbn in Hk. lia.
        -- change (mlen (wire_rel [])) with 0. intros; lia.
        -- change (mlen (wire_rel [])) with 0. rewrite N.add_0_r. eapply Term_ptr_end; eauto; try lia.
           intros; apply Ho; lia.
      * intros k v Hin. left. rewrite a2 in Hin. exact Hin.
    + destruct (tree_insert (l :: rest) (mlen (w_buf w)) (w_tree w)) as [t'|] eqn:EI.
      * unfold tree_insert in EI.
        destruct (N.leb_spec tree_ptr_limit (mlen (w_buf w))) as [G|G]; [discriminate|]. injection EI as <-.
        unfold tree_ptr_limit in G. rewrite (tree_get_none_filter _ _ EG) in H.
        set (p := mlen (w_buf w)) in *.
        match type of H with wbind ?x _ = _ => destruct x as [w1|w1| |] eqn:EL end; cbn [wbind] in H; try discriminate.
        apply label_compose_ok in EL as [B1 (a1 & a2 & a3)].
        unfold set_tree in B1, a1, a2, a3; cbn [w_buf w_static w_tree w_hash] in B1, a1, a2, a3.
        assert (L1 : mlen (w_buf w1) = p + 1 + mlen l) by (rewrite B1, mlen_app, mlen_cons; subst p; lia).
        assert (TB1 : TBound w1).
        { destruct TB as (A & Bt & C). unfold TBound. rewrite a1, a2, a3. split; [|split].
          - eapply Forall_weaken; [|exact A]. cbv beta. intros; lia.
          - constructor; [cbn [snd]; lia|]. eapply Forall_weaken; [|exact Bt]. cbv beta. intros; lia.
          - eapply Forall_weaken; [|exact C]. cbv beta. intros; lia. }
        assert (Hold1 : forall k v, In (k, v) (w_tree w1) -> v < b0 -> TreeOK (w_buf w1) ok k v).
        { intros k v Hin Hvlt. rewrite a2 in Hin. destruct Hin as [Hin|Hin].
          - injection Hin as <- <-. lia.
          - rewrite B1. apply TreeOK_app. apply Hold; auto. }
        assert (Hpend1 : forall k v, In (k, v) (w_tree w1) -> b0 <= v -> (length rest < length k)%nat).
        { intros k v Hin Hge. rewrite a2 in Hin. destruct Hin as [Hin|Hin].
          - injection Hin as <- <-. cbn [length]. lia.
          - specialize (Hpend _ _ Hin Hge). cbn [length] in Hpend. lia. }
        assert (Hb1 : b0 <= mlen (w_buf w1)) by lia.
        destruct (IH w1 w' Hv' TB1 Hb1 Ho Hold1 Hpend1 H) as (N1 & (sfx1 & X1) & S1 & H1 & E1).
        assert (Hb : bytes_at (w_buf w') p (mlen l :: l)).
        { rewrite X1, B1, <- app_assoc. apply bytes_at_app. }
        assert (HN : forall seg, b0 <= seg <= p -> NameIn (w_buf w') ok seg p (l :: rest) (mlen (w_buf w'))).
        { intros seg Hs. apply NI_label; auto.
          - intros i Hi. apply Ho. lia.
          - rewrite <- L1. apply N1. lia. }
        split; [exact HN|]. split; [exists ((mlen l :: l) ++ sfx1); rewrite X1, B1, <- app_assoc; reflexivity|].
        split; [congruence|]. split; [congruence|].
        intros k v Hin. destruct (E1 _ _ Hin) as [Hin1|Hok]; [|right; exact Hok].
        rewrite a2 in Hin1. destruct Hin1 as [Hin1|Hin1]; [|left; exact Hin1].
        injection Hin1 as <- <-. right. exists l, rest, (mlen (w_buf w')). split; [reflexivity|].
        split; [exact Hl|]. split; [intros i Hi; apply Ho; lia|]. split; [exact Hb|].
        rewrite <- L1. apply N1. lia.
      * destruct (write_labels c (l :: rest) w) as [w1|w1| |] eqn:EW; cbn [wbind] in H; try discriminate.
        apply write_labels_ok in EW as [B1 (a1 & a2 & a3)].
        apply append_slice_ok in H as [B2 (b1 & b2 & b3)].
        assert (B : w_buf w' = w_buf w ++ wire_rel (l :: rest) ++ [0]) by (rewrite B2, B1, <- app_assoc; reflexivity).
        split; [|split; [eexists; exact B|split; [congruence|split; [congruence|]]]].
        -- intros seg Hs. rewrite B. apply NameIn_labels_root; auto; [intros; apply Ho; lia|lia].
        -- intros k v Hin. left. rewrite b2, a2 in Hin. exact Hin.
Qed.

Lemma StaticOK_app m x (ok : N -> Prop) v : StaticOK m ok v -> StaticOK (m ++ x) ok v.
Proof. intros (l & ls & e & H). exists l, ls, e. apply LabelAt_app; exact H. Qed.
Lemma HashOK_app m x (ok : N -> Prop) h t : HashOK m ok h t -> HashOK (m ++ x) ok h t.
Proof.
  intros (l & ls & e & H & T). exists l, ls, e. split; [apply LabelAt_app; exact H|].
  destruct T as [T|(T1 & seg & e' & T2)]; [left; exact T|right]. split; auto. exists seg, e'. apply NameIn_app; auto.
Qed.

Lemma tree_acn_ok c : AcnSpec c (tree_acn c).
Proof.
  intros ok n w w' Hv TB SI (CS & CT & CH & CU) Ho H.
  destruct (tree_acn_name c ok (mlen (w_buf w)) n w w' Hv TB ltac:(lia) Ho) as (N1 & (sfx & X) & S1 & H1 & E1); auto.
  - intros k v Hin _. rewrite Forall_forall in CT. apply (CT (k, v) Hin).
  - intros k v Hin Hge. destruct TB as (_ & TT & _). rewrite Forall_forall in TT. specialize (TT _ Hin). cbn [snd] in TT. lia.
  - split.
    + unfold CInv. rewrite S1, H1, X. split; [|split; [|split]].
      * eapply Forall_weaken; [|exact CS]. intros v Hs. apply StaticOK_app; exact Hs.
      * rewrite Forall_forall. intros [k v] Hin. cbn [fst snd]. rewrite <- X.
        destruct (E1 _ _ Hin) as [Hin0|Hok]; [|exact Hok].
        rewrite X. apply TreeOK_app. rewrite Forall_forall in CT. apply (CT (k, v) Hin0).
      * eapply Forall_weaken; [|exact CH]. intros [h t] Hs. apply HashOK_app; exact Hs.
      * apply (HU_transfer (w_buf w) _ ok ok (w_hash w)); [apply incl_refl|exact CH|intros; apply LabelAt_app; auto|exact CU].
    + exists n. split; [reflexivity|]. apply N1. lia.
Qed.
