(* C02 proofs, part 8: the layout of a built message - which item is stored
   where - and that the reader returns the stored items. *)
From Coq Require Import NArith List Bool Lia ZArith.
From Coq Require Import ZifyN ZifyBool ZifyNat.
From DV Require Import Base.Outcome Base.Bytes Base.Names Base.PName C02.Gen C02.Model
  C02.ProofsBasic C02.ProofsRun C02.ProofsName C02.ProofsComp C02.ProofsStatic C02.ProofsHash C02.ProofsTop.
Import ListNotations.
Local Open Scope N_scope.
Ltac Zify.zify_post_hook ::= Z.div_mod_to_equations.

(* positions of the message body below b *)
Definition okb (b : N) : N -> Prop := fun i => 12 <= i /\ i < b.

(* the pushed name n is stored at p (possibly with another ASCII case) *)
Definition NameAtO (m : bytes) (ok : N -> Prop) (p : N) (n : name) (e1 : N) : Prop :=
  exists n', NameIn m ok p p n' e1 /\ canon n' = canon n /\ name_ok n.

(* octets b at p, all of them at admissible positions *)
Definition BytesAtO (m : bytes) (ok : N -> Prop) (p : N) (b : bytes) : Prop :=
  bytes_at m p b /\ (forall i, p <= i < p + mlen b -> ok i) /\ p + mlen b <= mlen m.

Inductive ItemsIn (m : bytes) (ok : N -> Prop) : N -> list ritem -> N -> Prop :=
| II_nil p : ItemsIn m ok p [] p
| II_bytes p bs r e : BytesAtO m ok p bs -> ItemsIn m ok (p + mlen bs) r e -> ItemsIn m ok p (RBytes bs :: r) e
| II_name p n e1 r e : NameAtO m ok p n e1 -> ItemsIn m ok e1 r e -> ItemsIn m ok p (RName n :: r) e
| II_nameu p n e1 r e : NameAtO m ok p n e1 -> ItemsIn m ok e1 r e -> ItemsIn m ok p (RNameU n :: r) e.

Definition agree_on (ok : N -> Prop) (m m' : bytes) : Prop :=
  forall i v, ok i -> get m i = Some v -> get m' i = Some v.

Lemma NameAtO_agree m m' (ok : N -> Prop) p n e1 : agree_on ok m m' -> NameAtO m ok p n e1 -> NameAtO m' ok p n e1.
Proof. intros A (n' & H & C & V). exists n'. split; [eapply NameIn_agree; eauto|auto]. Qed.
Lemma NameAtO_weaken m (ok ok' : N -> Prop) p n e1 : (forall i, ok i -> ok' i) -> NameAtO m ok p n e1 -> NameAtO m ok' p n e1.
Proof. intros W (n' & H & C & V). exists n'. split; [eapply NameIn_weaken; eauto|auto]. Qed.
Lemma NameAtO_below m (ok : N -> Prop) p n e1 : NameAtO m ok p n e1 -> NameAtO m (fun i => ok i /\ i < mlen m) p n e1.
Proof. intros (n' & H & C & V). exists n'. split; [apply NameIn_below; exact H|auto]. Qed.
Lemma NameAtO_end m (ok : N -> Prop) p n e1 : NameAtO m ok p n e1 -> p < e1 /\ e1 <= mlen m.
Proof. intros (n' & H & _). eapply NameIn_end_le; eauto. Qed.

Lemma BytesAtO_agree m m' (ok : N -> Prop) p b :
  agree_on ok m m' -> p + mlen b <= mlen m' -> BytesAtO m ok p b -> BytesAtO m' ok p b.
Proof.
  intros A L (H & O & E). split; [|split; [exact O|exact L]].
  eapply bytes_at_agree; eauto.
Qed.
Lemma BytesAtO_weaken m (ok ok' : N -> Prop) p b : (forall i, ok i -> ok' i) -> BytesAtO m ok p b -> BytesAtO m ok' p b.
Proof. intros W (H & O & E). split; [exact H|split; [intros; apply W, O; auto|exact E]]. Qed.
Lemma BytesAtO_below m (ok : N -> Prop) p b : BytesAtO m ok p b -> BytesAtO m (fun i => ok i /\ i < mlen m) p b.
Proof. intros (H & O & E). split; [exact H|split; [|exact E]]. intros i Hi. split; [apply O; exact Hi|lia]. Qed.

Lemma ItemsIn_mono m (ok : N -> Prop) p items e : ItemsIn m ok p items e -> p <= e.
Proof.
  intros H. induction H as [p | p bs r e _ _ IH | p n e1 r e Hn _ IH | p n e1 r e Hn _ IH]; try lia.
  - apply NameAtO_end in Hn. lia.
  - apply NameAtO_end in Hn. lia.
Qed.

Lemma ItemsIn_agree m m' (ok : N -> Prop) p items e :
  agree_on ok m m' -> e <= mlen m' -> ItemsIn m ok p items e -> ItemsIn m' ok p items e.
Proof.
  intros A L H. induction H as [p | p bs r e Hb Hr IH | p n e1 r e Hn Hr IH | p n e1 r e Hn Hr IH]; [constructor| | |].
  - apply II_bytes; auto. eapply BytesAtO_agree; eauto. apply ItemsIn_mono in Hr. lia.
  - eapply II_name; eauto. eapply NameAtO_agree; eauto.
  - eapply II_nameu; eauto. eapply NameAtO_agree; eauto.
Qed.
Lemma ItemsIn_weaken m (ok ok' : N -> Prop) p items e : (forall i, ok i -> ok' i) -> ItemsIn m ok p items e -> ItemsIn m ok' p items e.
Proof.
  intros W H. induction H; [constructor| | |].
  - apply II_bytes; auto. eapply BytesAtO_weaken; eauto.
  - eapply II_name; eauto. eapply NameAtO_weaken; eauto.
  - eapply II_nameu; eauto. eapply NameAtO_weaken; eauto.
Qed.
Lemma ItemsIn_below m (ok : N -> Prop) p items e : ItemsIn m ok p items e -> ItemsIn m (fun i => ok i /\ i < mlen m) p items e.
Proof.
  intros H. induction H; [constructor| | |].
  - apply II_bytes; auto. apply BytesAtO_below; auto.
  - eapply II_name; eauto. apply NameAtO_below; auto.
  - eapply II_nameu; eauto. apply NameAtO_below; auto.
Qed.
Lemma ItemsIn_end m (ok : N -> Prop) p items e : ItemsIn m ok p items e -> p <= mlen m -> p <= e /\ e <= mlen m.
Proof.
  intros H. induction H as [p | p bs r e (Hb & Ho & He) _ IH | p n e1 r e Hn _ IH | p n e1 r e Hn _ IH]; intros L.
  - lia.
  - specialize (IH He). lia.
  - apply NameAtO_end in Hn. specialize (IH ltac:(lia)). lia.
  - apply NameAtO_end in Hn. specialize (IH ltac:(lia)). lia.
Qed.

Lemma agree_on_app (ok : N -> Prop) m x : agree_on ok m (m ++ x).
Proof.
  intros i v _ H. rewrite get_app_l; [exact H|]. eapply get_some_lt; eauto.
Qed.

(* ------------------------------------------------------------- questions *)

Definition wf_q (q : question) : Prop := name_ok (q_name q) /\ q_type q < 65536 /\ q_class q < 65536.
Definition wf_item (it : ritem) : Prop :=
  match it with RBytes b => True | RName n => name_ok n | RNameU n => name_ok n end.
Definition wf_r (r : rrecord) : Prop :=
  name_ok (r_owner r) /\ r_type r < 65536 /\ r_class r < 65536 /\ r_ttl r < 4294967296 /\
  Forall wf_item (r_data r).

(* a question stored in [p, e); everything read lies in [12, e) *)
Definition QAt (m : bytes) (p : N) (q : question) (e : N) : Prop :=
  exists e1, NameAtO m (okb e) p (q_name q) e1 /\
             BytesAtO m (okb e) e1 (be16 (q_type q) ++ be16 (q_class q)) /\ e = e1 + 4 /\ wf_q q /\ 12 <= p.

(* a record stored in [p, e) *)
Definition RAt (m : bytes) (p : N) (r : rrecord) (e : N) : Prop :=
  exists e1, NameAtO m (okb e) p (r_owner r) e1 /\
             BytesAtO m (okb e) e1 (be16 (r_type r) ++ be16 (r_class r) ++ be32 (r_ttl r) ++ be16 (e - (e1 + 10))) /\
             ItemsIn m (okb e) (e1 + 10) (r_data r) e /\
             e1 + 10 <= e /\ e - (e1 + 10) <= 65535 /\ wf_r r /\ 12 <= p.

Inductive QsAt (m : bytes) : N -> list question -> N -> Prop :=
| QA_nil p : QsAt m p [] p
| QA_cons p q e1 qs e : QAt m p q e1 -> QsAt m e1 qs e -> QsAt m p (q :: qs) e.
Inductive RsAt (m : bytes) : N -> list rrecord -> N -> Prop :=
| RA_nil p : RsAt m p [] p
| RA_cons p r e1 rs e : RAt m p r e1 -> RsAt m e1 rs e -> RsAt m p (r :: rs) e.

Lemma okb_mono a b i : a <= b -> okb a i -> okb b i.
Proof. unfold okb. lia. Qed.

Lemma agree_on_okb_mono a b m m' : a <= b -> agree_on (okb b) m m' -> agree_on (okb a) m m'.
Proof. intros L A i v Hi. apply A. eapply okb_mono; eauto. Qed.

Lemma QAt_agree m m' p q e : agree_on (okb e) m m' -> e <= mlen m' -> QAt m p q e -> QAt m' p q e.
Proof.
  intros A Le (e1 & Hn & Hb & E & W & L). exists e1. split; [eapply NameAtO_agree; eauto|].
  split; [eapply BytesAtO_agree; eauto|auto].
  rewrite !mlen_app. change (mlen (be16 (q_type q))) with 2. change (mlen (be16 (q_class q))) with 2. lia.
Qed.
Lemma RAt_agree m m' p r e : agree_on (okb e) m m' -> e <= mlen m' -> RAt m p r e -> RAt m' p r e.
Proof.
  intros A Le (e1 & Hn & Hb & Hi & X). exists e1. split; [eapply NameAtO_agree; eauto|].
  split; [eapply BytesAtO_agree; eauto|split; [eapply ItemsIn_agree; eauto|exact X]].
  rewrite !mlen_app. change (mlen (be16 (r_type r))) with 2. change (mlen (be16 (r_class r))) with 2.
  change (mlen (be32 (r_ttl r))) with 4. change (mlen (be16 (e - (e1 + 10)))) with 2. lia.
Qed.
Lemma QAt_end m p q e : QAt m p q e -> p < e /\ e <= mlen m.
Proof.
  intros (e1 & Hn & (Hb & _ & He) & E & _). apply NameAtO_end in Hn. rewrite !mlen_app in He.
  change (mlen (be16 (q_type q))) with 2 in He. change (mlen (be16 (q_class q))) with 2 in He. lia.
Qed.
Lemma RAt_end m p r e : RAt m p r e -> p < e /\ e <= mlen m.
Proof.
  intros (e1 & Hn & (Hb & _ & He) & Hi & L1 & _). apply NameAtO_end in Hn.
  apply ItemsIn_end in Hi; [lia|]. rewrite !mlen_app in He.
  change (mlen (be16 (r_type r))) with 2 in He. change (mlen (be16 (r_class r))) with 2 in He.
  change (mlen (be32 (r_ttl r))) with 4 in He. change (mlen (be16 (e - (e1 + 10)))) with 2 in He. lia.
Qed.

Lemma QsAt_end m p qs e : QsAt m p qs e -> p <= e /\ (p <= mlen m -> e <= mlen m).
Proof.
  induction 1 as [p|p q e1 qs e Hq _ IH]; [lia|]. apply QAt_end in Hq. lia.
Qed.
Lemma RsAt_end m p rs e : RsAt m p rs e -> p <= e /\ (p <= mlen m -> e <= mlen m).
Proof.
  induction 1 as [p|p r e1 rs e Hr _ IH]; [lia|]. apply RAt_end in Hr. lia.
Qed.

Lemma QsAt_agree m m' p qs e : agree_on (okb e) m m' -> e <= mlen m' -> QsAt m p qs e -> QsAt m' p qs e.
Proof.
  intros A Le H. induction H as [p|p q e1 qs e Hq Hs IH]; [constructor|].
  pose proof (QsAt_end _ _ _ _ Hs) as [L _].
  econstructor; [eapply QAt_agree; [eapply agree_on_okb_mono; eauto|lia|exact Hq]|apply IH; auto].
Qed.
Lemma RsAt_agree m m' p rs e : agree_on (okb e) m m' -> e <= mlen m' -> RsAt m p rs e -> RsAt m' p rs e.
Proof.
  intros A Le H. induction H as [p|p r e1 rs e Hr Hs IH]; [constructor|].
  pose proof (RsAt_end _ _ _ _ Hs) as [L _].
  econstructor; [eapply RAt_agree; [eapply agree_on_okb_mono; eauto|lia|exact Hr]|apply IH; auto].
Qed.

Lemma QsAt_snoc m p qs e q e' : QsAt m p qs e -> QAt m e q e' -> QsAt m p (qs ++ [q]) e'.
Proof. induction 1; intros Hq; cbn [app]; [econstructor; [exact Hq|constructor]|econstructor; eauto]. Qed.
Lemma RsAt_snoc m p rs e r e' : RsAt m p rs e -> RAt m e r e' -> RsAt m p (rs ++ [r]) e'.
Proof. induction 1; intros Hr; cbn [app]; [econstructor; [exact Hr|constructor]|econstructor; eauto]. Qed.
Lemma RsAt_nil_inv m p e : RsAt m p [] e -> e = p.
Proof. inversion 1; reflexivity. Qed.
