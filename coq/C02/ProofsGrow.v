(* C02 proofs, part 15: the hashbrown table behind HashCompressor.

   The model keeps the entries as a list in insertion order and hash_find
   tests every entry.  The real HashTable::find(hash, eq) tests only the
   entries its probe sequence meets: all entries whose stored hash equals the
   query's hash are among them, plus whatever else shares their groups, in an
   order that depends on the capacity, on every rehash that happened while the
   table grew (insert_unique with the rehash closure |e| e.hash(message,
   hasher)) and on the random keys of the hasher.

   The hash of an entry and of a query is hasher.hash_one((label, tail)), and
   Label::hash feeds the length and the lower-cased octets (Names.
   label_hash_feed), so entries equal to the query hash like the query.
   Hence: for ANY function H standing for the keyed hasher and ANY list of
   probed entries that lies inside the table and contains every entry hashing
   like the query, the lookup answers what the model's list walk answers - in
   every reachable state.  Growth, rehashing and the hasher keys are
   unobservable. *)
From Coq Require Import NArith List Bool Lia ZArith.
From Coq Require Import ZifyN ZifyBool ZifyNat.
From DV Require Import Base.Outcome Base.Bytes Base.Names Base.PName C02.Gen C02.Model
  C02.ProofsBasic C02.ProofsClone C02.ProofsRun C02.ProofsName C02.ProofsComp C02.ProofsStatic C02.ProofsHash C02.ProofsTop
  C02.ProofsLayout C02.ProofsRead C02.ProofsWrite C02.ProofsBuild C02.ProofsTotal.
Import ListNotations.
Local Open Scope N_scope.

Lemma label_eq_feed a b : label_eq a b = true -> label_hash_feed a = label_hash_feed b.
Proof. unfold label_eq. destruct label_eq_ignores_case; [apply label_eq_hash|discriminate]. Qed.

Section Probe.
(* the keyed hasher: any function of what Label::hash feeds it and of the tail *)
Variable H : bytes -> N -> N.
Variable m : bytes.
Variable ml : N.

Definition key_hash (l : label) (t : N) : N := H (label_hash_feed l) t.

(* what a probe sequence guarantees, whatever the capacity and history *)
Definition probes (es probe : list (N * N)) (l : label) (pos : N) : Prop :=
  (forall e, In e probe -> In e es) /\
  (forall e hl, In e es -> label_at m ml (fst e) = Some hl -> key_hash hl (snd e) = key_hash l pos -> In e probe).

Theorem probe_find es probe l pos :
  Forall (fun e => label_at m ml (fst e) <> None) es ->
  (forall e1 e2, In e1 es -> In e2 es -> hmatch m ml l pos e1 -> hmatch m ml l pos e2 -> fst e1 = fst e2) ->
  probes es probe l pos ->
  hash_find m ml probe l pos = hash_find m ml es l pos.
Proof.
  intros HR Hu (Hsub & Hall).
  assert (HR' : Forall (fun e => label_at m ml (fst e) <> None) probe).
  { rewrite Forall_forall in *. intros e He. apply HR, Hsub, He. }
  assert (Hin : forall e, In e es -> hmatch m ml l pos e -> In e probe).
  { intros e Ie (hl & A & B & C). apply (Hall e hl Ie A). unfold key_hash. rewrite (label_eq_feed _ _ B), C. reflexivity. }
  pose proof (hash_find_spec m ml l pos es HR) as S1. pose proof (hash_find_spec m ml l pos probe HR') as S2.
  destruct (hash_find m ml es l pos) as [[h|]| | |]; try contradiction;
    destruct (hash_find m ml probe l pos) as [[h'|]| | |]; try contradiction.
  - destruct S1 as (e1 & I1 & F1 & M1). destruct S2 as (e2 & I2 & F2 & M2).
    rewrite <- F1, <- F2. f_equal. f_equal. apply Hu; auto.
  - destruct S1 as (e1 & I1 & F1 & M1). exfalso. apply (S2 e1); [apply Hin; assumption|exact M1].
  - destruct S2 as (e2 & I2 & F2 & M2). exfalso. apply (S1 e2); [apply Hsub; exact I2|exact M2].
  - reflexivity.
Qed.

(* a chained table with nb buckets is one instance: the probed entries are
   those of the bucket of the query's hash, in any order *)
Definition bucket_of (nb : N) (e : N * N) : N :=
  match label_at m ml (fst e) with Some hl => key_hash hl (snd e) mod nb | None => 0 end.

Lemma bucket_probes nb es bucket l pos :
  (forall e, In e bucket <-> In e es /\ bucket_of nb e = key_hash l pos mod nb) ->
  probes es bucket l pos.
Proof.
  intros Hb. split.
  - intros e He. apply Hb in He. tauto.
  - intros e hl Ie A K. apply Hb. split; [exact Ie|]. unfold bucket_of. rewrite A, K. reflexivity.
Qed.
End Probe.

(* in every state an operation sequence can reach *)
Theorem hash_growth_unobservable c ops s0 s a ws H l pos probe :
  init c = Some s0 -> Forall wf_op ops -> run_acc c s0 acc0 ops = (s, a, ws) -> all_alive ws ->
  probes H (w_buf (b_w s)) (mlen (w_buf (b_w s))) (w_hash (b_w s)) probe l pos ->
  hash_find (w_buf (b_w s)) (mlen (w_buf (b_w s))) probe l pos =
  hash_find (w_buf (b_w s)) (mlen (w_buf (b_w s))) (w_hash (b_w s)) l pos.
Proof.
  intros HI Hwf HR AL HP. destruct (init_inv c s0 HI) as (HB0 & HC0).
  destruct (run_acc_layout c ops s0 acc0 [12] s a ws HB0 HC0 (init_layout c s0 HI) Hwf HR AL) as (_ & _ & bs & HL).
  destruct HL as (_ & (_ & _ & CH & CU) & _).
  apply (probe_find H); [| |exact HP].
  - eapply Forall_weaken; [|exact CH]. intros [h t] (l0 & ls0 & e0 & (V & _ & B & _) & _). cbn [fst] in *.
    rewrite (label_at_here _ _ _ V B). discriminate.
  - intros [h1 t1] [h2 t2] I1 I2 (hl1 & A1 & B1 & C1) (hl2 & A2 & B2 & C2). cbn [fst snd] in *. subst t1 t2.
    apply (CU h1 h2 pos hl1 hl2); auto.
    apply label_eq_spec in B1, B2. congruence.
Qed.

Corollary hash_buckets_unobservable c ops s0 s a ws H nb l pos bucket :
  init c = Some s0 -> Forall wf_op ops -> run_acc c s0 acc0 ops = (s, a, ws) -> all_alive ws ->
  (forall e, In e bucket <-> In e (w_hash (b_w s)) /\
             bucket_of H (w_buf (b_w s)) (mlen (w_buf (b_w s))) nb e = key_hash H l pos mod nb) ->
  hash_find (w_buf (b_w s)) (mlen (w_buf (b_w s))) bucket l pos =
  hash_find (w_buf (b_w s)) (mlen (w_buf (b_w s))) (w_hash (b_w s)) l pos.
Proof.
  intros HI Hwf HR AL Hb. eapply hash_growth_unobservable; eauto. eapply bucket_probes; eauto.
Qed.
