(* C02 proofs, part 1: every writer only extends the buffer and the compressor
   tables (new table entries lie at or above the position where the write
   started and below 0x4000); truncating back to that position restores the
   writer state exactly.  Consequences: a failed push leaves the whole builder
   state unchanged; table entries are always inside the buffer and below
   0x4000; the stream length octets equal the message length (<= 65535). *)
From Coq Require Import NArith List Bool Lia ZArith.
From Coq Require Import ZifyN ZifyBool ZifyNat.
From DV Require Import Base.Outcome Base.Bytes Base.Names Base.PName C02.Gen C02.Model.
Import ListNotations.
Local Open Scope N_scope.
Ltac Zify.zify_post_hook ::= Z.div_mod_to_equations.

Lemma mlen_app a b : mlen (a ++ b) = mlen a + mlen b.
Proof. unfold mlen. rewrite app_length. lia. Qed.
Lemma mlen_nil : mlen [] = 0.
Proof. reflexivity. Qed.
Lemma mlen_cons x a : mlen (x :: a) = 1 + mlen a.
Proof. unfold mlen. cbn [length]. lia. Qed.

Lemma ws_eta w : mkWs (w_buf w) (w_shim w) (w_static w) (w_tree w) (w_hash w) = w.
Proof. destruct w; reflexivity. Qed.

(* ------------------------------------------------------------ invariants *)

(* every table entry is inside the buffer and expressible in 14 bits *)
Definition TBound (w : ws) : Prop :=
  Forall (fun e => e < mlen (w_buf w) /\ e < 16384) (w_static w) /\
  Forall (fun kv => snd kv < mlen (w_buf w) /\ snd kv < 16384) (w_tree w) /\
  Forall (fun e => fst e < mlen (w_buf w) /\ fst e < 16384) (w_hash w).

(* StreamTarget: the two length octets hold the message length *)
Definition SInv (c : tcfg) (w : ws) : Prop :=
  t_stream c = true -> w_shim w = mlen (w_buf w) /\ mlen (w_buf w) <= 65535.

Record Ext (c : tcfg) (p : N) (w w' : ws) : Prop := mkExt {
  ext_buf : exists sfx, w_buf w' = w_buf w ++ sfx;
  ext_static : exists nw, w_static w' = w_static w ++ nw /\ Forall (fun e => p <= e < 16384) nw;
  ext_tree : exists nw, w_tree w' = nw ++ w_tree w /\ Forall (fun kv => p <= snd kv < 16384) nw;
  ext_hash : exists nw, w_hash w' = w_hash w ++ nw /\ Forall (fun e => p <= fst e < 16384) nw;
  ext_shim : t_stream c = false -> w_shim w' = w_shim w }.

Lemma Ext_refl c p w : Ext c p w w.
Proof.
  split; [exists []; rewrite app_nil_r; reflexivity | exists []; rewrite app_nil_r; auto
         | exists []; auto | exists []; rewrite app_nil_r; auto | auto].
Qed.

Lemma Forall_weaken {A} (P Q : A -> Prop) l : (forall x, P x -> Q x) -> Forall P l -> Forall Q l.
Proof. intros H F. eapply Forall_impl; eauto. Qed.

Lemma Ext_trans c p p1 w w1 w2 :
  Ext c p w w1 -> Ext c p1 w1 w2 -> p <= p1 -> Ext c p w w2.
Proof.
  intros [[s1 B1] [n1 [S1 F1]] [t1 [T1 G1]] [h1 [H1 K1]] Sh1]
         [[s2 B2] [n2 [S2 F2]] [t2 [T2 G2]] [h2 [H2 K2]] Sh2] Hp.
  split.
  - exists (s1 ++ s2). rewrite B2, B1, app_assoc. reflexivity.
  - exists (n1 ++ n2). split; [rewrite S2, S1, app_assoc; reflexivity|].
    apply Forall_app; split; [exact F1|]. eapply Forall_weaken; [|exact F2]. cbv beta; intros; lia.
  - exists (t2 ++ t1). split; [rewrite T2, T1, app_assoc; reflexivity|].
    apply Forall_app; split; [|exact G1]. eapply Forall_weaken; [|exact G2]. cbv beta; intros; lia.
  - exists (h1 ++ h2). split; [rewrite H2, H1, app_assoc; reflexivity|].
    apply Forall_app; split; [exact K1|]. eapply Forall_weaken; [|exact K2]. cbv beta; intros; lia.
  - intros E. rewrite Sh2, Sh1; auto.
Qed.

Lemma Ext_mlen c p w w' : Ext c p w w' -> mlen (w_buf w) <= mlen (w_buf w').
Proof. intros [[s B] _ _ _ _]. rewrite B, mlen_app. lia. Qed.

(* what a writer guarantees *)
Definition WSpec (c : tcfg) (f : ws -> wres) : Prop :=
  forall w, TBound w -> SInv c w ->
    match f w with
    | WOk w' => Ext c (mlen (w_buf w)) w w' /\ TBound w' /\ SInv c w'
    | WErr w' => Ext c (mlen (w_buf w)) w w'
    | _ => True
    end.

Lemma WSpec_bind c f g : WSpec c f -> WSpec c g -> WSpec c (fun w => wbind (f w) g).
Proof.
  intros Hf Hg w TB SI. specialize (Hf w TB SI). cbv beta.
  destruct (f w) as [w1|w1| |]; cbn [wbind]; auto.
  destruct Hf as (E1 & TB1 & SI1). specialize (Hg w1 TB1 SI1).
  pose proof (Ext_mlen _ _ _ _ E1) as Hm.
  destruct (g w1) as [w2|w2| |]; auto.
  - destruct Hg as (E2 & TB2 & SI2). split; [|split]; auto. eapply Ext_trans; eauto.
  - eapply Ext_trans; eauto.
Qed.

Lemma WSpec_ok c : WSpec c WOk.
Proof. intros w TB SI. split; [apply Ext_refl|]. split; auto. Qed.

(* ---------------------------------------------------------- append_slice *)

Lemma TBound_grow w b :
  TBound w -> TBound (set_buf w (w_buf w ++ b)).
Proof.
  intros (A & B & C). unfold TBound, set_buf; cbn [w_buf w_static w_tree w_hash].
  rewrite mlen_app. repeat split; (eapply Forall_weaken; [|eassumption]); cbv beta; intros; lia.
Qed.

Lemma Ext_grow c p w b : Ext c p w (set_buf w (w_buf w ++ b)).
Proof.
  split; unfold set_buf; cbn [w_buf w_static w_tree w_hash w_shim];
    [exists b; reflexivity | exists []; rewrite app_nil_r; auto | exists []; auto
    | exists []; rewrite app_nil_r; auto | auto].
Qed.

Lemma Ext_set_shim c p w w' v : t_stream c = true -> Ext c p w w' -> Ext c p w (set_shim w' v).
Proof.
  intros St [B S T H Sh]. split; unfold set_shim; cbn [w_buf w_static w_tree w_hash w_shim]; auto.
  intros E. congruence.
Qed.

Lemma TBound_set_shim w v : TBound w -> TBound (set_shim w v).
Proof. unfold TBound, set_shim; cbn [w_buf w_static w_tree w_hash]. auto. Qed.

Lemma append_slice_spec c s : WSpec c (append_slice c s).
Proof.
  intros w TB SI. unfold append_slice.
  destruct (negb _); [apply Ext_refl|].
  destruct (t_stream c) eqn:St.
  - destruct (N.leb_spec (mlen (w_buf (set_buf w (w_buf w ++ s)))) shim_max) as [L|L].
    + split; [apply Ext_set_shim; auto; apply Ext_grow|].
      split; [apply TBound_set_shim, TBound_grow; auto|].
      intros _. unfold set_shim, set_buf; cbn [w_buf w_shim]. split; [reflexivity|].
      unfold set_buf in L; cbn [w_buf] in L. unfold shim_max in L. lia.
    + apply Ext_grow.
  - split; [apply Ext_grow|]. split; [apply TBound_grow; auto|].
    intros E. congruence.
Qed.

Lemma label_compose_spec c l : WSpec c (label_compose c l).
Proof. unfold label_compose. apply (WSpec_bind c (append_slice c _) (append_slice c l)); apply append_slice_spec. Qed.

Lemma write_labels_spec c ls : WSpec c (write_labels c ls).
Proof.
  induction ls as [|l r IH]; [apply WSpec_ok|].
  cbn [write_labels]. apply (WSpec_bind c (label_compose c l) (write_labels c r)); [apply label_compose_spec|exact IH].
Qed.

Lemma write_root_spec c : WSpec c (write_root c).
Proof. apply append_slice_spec. Qed.
Lemma write_ptr_spec c tag pos : WSpec c (write_ptr c tag pos).
Proof. apply append_slice_spec. Qed.

(* appends do not look at the tables: the same results with other tables *)
Definition same_tables (w w' : ws) : Prop :=
  w_static w' = w_static w /\ w_tree w' = w_tree w /\ w_hash w' = w_hash w.

Lemma append_slice_tables c s w :
  match append_slice c s w with
  | WOk w' | WErr w' => same_tables w w' /\ exists sfx, w_buf w' = w_buf w ++ sfx
  | _ => True end.
Proof.
  unfold append_slice, same_tables. destruct (negb _).
  - repeat split; auto. exists []. rewrite app_nil_r. reflexivity.
  - destruct (t_stream c); [destruct (_ <=? _)|]; unfold set_shim, set_buf;
      cbn [w_buf w_static w_tree w_hash]; repeat split; auto; eexists; reflexivity.
Qed.

Lemma label_compose_tables c l w :
  match label_compose c l w with
  | WOk w' | WErr w' => same_tables w w' /\ exists sfx, w_buf w' = w_buf w ++ sfx
  | _ => True end.
Proof.
  unfold label_compose. pose proof (append_slice_tables c [N.of_nat (length l)] w) as H1.
  destruct (append_slice c [N.of_nat (length l)] w) as [w1|w1| |]; cbn [wbind]; auto.
  pose proof (append_slice_tables c l w1) as H2.
  destruct (append_slice c l w1) as [w2|w2| |]; auto;
    destruct H1 as ((a1 & a2 & a3) & s1 & B1); destruct H2 as ((b1 & b2 & b3) & s2 & B2);
    (split; [unfold same_tables; repeat split; congruence|]);
    exists (s1 ++ s2); rewrite B2, B1, app_assoc; reflexivity.
Qed.

(* a successful label_compose appends at least one octet *)
Lemma label_compose_grows c l w w' :
  label_compose c l w = WOk w' -> mlen (w_buf w) < mlen (w_buf w').
Proof.
  unfold label_compose. intros H.
  destruct (append_slice c [N.of_nat (length l)] w) as [w1|w1| |] eqn:E1; cbn [wbind] in H; try discriminate.
  pose proof (append_slice_tables c l w1) as H2. rewrite H in H2. destruct H2 as (_ & s2 & B2).
  assert (mlen (w_buf w1) = mlen (w_buf w) + 1) as L1.
  { unfold append_slice in E1. destruct (negb _); [discriminate|].
    destruct (t_stream c); [destruct (_ <=? _); try discriminate|]; injection E1 as <-;
      unfold set_shim, set_buf; cbn [w_buf]; rewrite mlen_app, mlen_cons, mlen_nil; lia. }
  rewrite B2, mlen_app. lia.
Qed.

(* stream state after a successful append, whatever it was before *)
Lemma append_slice_sinv c s w w' : append_slice c s w = WOk w' -> t_stream c = true ->
  w_shim w' = mlen (w_buf w') /\ mlen (w_buf w') <= 65535.
Proof.
  unfold append_slice. intros H St. destruct (negb _); [discriminate|]. rewrite St in H.
  destruct (N.leb_spec (mlen (w_buf (set_buf w (w_buf w ++ s)))) shim_max) as [L|L]; [|discriminate].
  injection H as <-. unfold set_shim, set_buf in *; cbn [w_buf w_shim] in *. unfold shim_max in L. split; [reflexivity|lia].
Qed.

(* -------------------------------------------------------------- truncate *)

Lemma take_while_app_old (f : N -> bool) old nw :
  Forall (fun e => f e = true) old -> (match nw with [] => True | x :: _ => f x = false end) ->
  take_while f (old ++ nw) = old.
Proof.
  induction old as [|x old IH]; intros Fo Hn; cbn [app take_while].
  - destruct nw as [|y nw]; [reflexivity|]. cbn [take_while]. rewrite Hn. reflexivity.
  - inversion Fo as [|? ? Hx Fo']; subst. rewrite Hx. f_equal. apply IH; auto.
Qed.

Lemma filter_all {A} (f : A -> bool) l : Forall (fun e => f e = true) l -> filter f l = l.
Proof. induction 1 as [|x l Hx _ IH]; cbn [filter]; [reflexivity|]. rewrite Hx, IH. reflexivity. Qed.
Lemma filter_none {A} (f : A -> bool) l : Forall (fun e => f e = false) l -> filter f l = [].
Proof. induction 1 as [|x l Hx _ IH]; cbn [filter]; [reflexivity|]. rewrite Hx, IH. reflexivity. Qed.

Lemma Forall_hd_nil {A} (P : A -> Prop) l : Forall P l -> (forall x, P x -> False) -> l = [].
Proof. intros F H. destruct l as [|x l]; [reflexivity|]. inversion F; subst. exfalso; eauto. Qed.

(* trimming the tables at the position where a write started removes exactly
   the entries the write added *)
Lemma trunc_tables_back p w x :
  Forall (fun e => e < p /\ e < 16384) (w_static w) ->
  Forall (fun kv => snd kv < p /\ snd kv < 16384) (w_tree w) ->
  Forall (fun e => fst e < p /\ fst e < 16384) (w_hash w) ->
  (exists nw, w_static x = w_static w ++ nw /\ Forall (fun e => p <= e < 16384) nw) ->
  (exists nw, w_tree x = nw ++ w_tree w /\ Forall (fun kv => p <= snd kv < 16384) nw) ->
  (exists nw, w_hash x = w_hash w ++ nw /\ Forall (fun e => p <= fst e < 16384) nw) ->
  trunc_tables p x = mkWs (w_buf x) (w_shim x) (w_static w) (w_tree w) (w_hash w).
Proof.
  intros TS TT TH [ns [S FS]] [nt [T FT]] [nh [H FH]].
  assert (A1 : (if p <? static_trunc_guard then take_while (fun e => e <? p) (w_static x) else w_static x) = w_static w).
  { unfold static_trunc_guard. destruct (N.ltb_spec p 49152) as [L|L].
    - rewrite S. apply take_while_app_old.
      + eapply Forall_weaken; [|exact TS]. cbv beta. intros y [Hy _]. apply N.ltb_lt. exact Hy.
      + destruct ns as [|y ns]; [exact I|]. inversion FS; subst. apply N.ltb_ge. lia.
    - rewrite S. rewrite (Forall_hd_nil _ ns FS); [apply app_nil_r|]. cbv beta. intros; lia. }
  assert (A2 : (if p <? tree_trunc_guard then filter (fun kv => snd kv <? p) (w_tree x) else w_tree x) = w_tree w).
  { unfold tree_trunc_guard. destruct (N.ltb_spec p 49152) as [L|L].
    - rewrite T, filter_app, filter_none, filter_all; [reflexivity| |].
      + eapply Forall_weaken; [|exact TT]. cbv beta. intros y [Hy _]. apply N.ltb_lt. exact Hy.
      + eapply Forall_weaken; [|exact FT]. cbv beta. intros y Hy. apply N.ltb_ge. lia.
    - rewrite T. rewrite (Forall_hd_nil _ nt FT); [reflexivity|]. cbv beta. intros; lia. }
  assert (A3 : (if p <? hash_trunc_guard then filter (fun e => fst e <? p) (w_hash x) else w_hash x) = w_hash w).
  { unfold hash_trunc_guard. destruct (N.ltb_spec p 49152) as [L|L].
    - rewrite H, filter_app, filter_all, filter_none; [apply app_nil_r| |].
      + eapply Forall_weaken; [|exact FH]. cbv beta. intros y Hy. apply N.ltb_ge. lia.
      + eapply Forall_weaken; [|exact TH]. cbv beta. intros y [Hy _]. apply N.ltb_lt. exact Hy.
    - rewrite H. rewrite (Forall_hd_nil _ nh FH); [apply app_nil_r|]. cbv beta. intros; lia. }
  unfold trunc_tables, set_static, set_tree, set_hash.
  destruct x as [xb xs xst xt xh]. simpl in A1, A2, A3 |- *.
  destruct (p <? static_trunc_guard); destruct (p <? tree_trunc_guard); destruct (p <? hash_trunc_guard);
    simpl; f_equal; assumption.
Qed.

(* truncating back to where a write started undoes it *)
Lemma truncate_back c w w' :
  TBound w -> SInv c w -> Ext c (mlen (w_buf w)) w w' ->
  truncate c (mlen (w_buf w)) w' = WOk w.
Proof.
  intros (TS & TT & TH) SI [[sfx B] ES ET EH Sh].
  assert (Hb : firstn (N.to_nat (mlen (w_buf w))) (w_buf w') = w_buf w).
  { rewrite B. unfold mlen. rewrite Nat2N.id. apply take_app_length. }
  unfold truncate. rewrite Hb.
  destruct (t_stream c) eqn:St.
  - destruct (SI St) as [Hs Hl].
    destruct (N.leb_spec (mlen (w_buf w)) shim_max) as [L|L]; [|unfold shim_max in L; lia].
    f_equal. rewrite (trunc_tables_back (mlen (w_buf w)) w); auto.
    unfold set_shim, set_buf; cbn [w_buf w_shim]. rewrite <- Hs. apply ws_eta.
  - f_equal. rewrite (trunc_tables_back (mlen (w_buf w)) w); auto.
    unfold set_buf; cbn [w_buf w_shim]. rewrite (Sh eq_refl). apply ws_eta.
Qed.

Lemma append_slice_shim c s w :
  t_stream c = false ->
  match append_slice c s w with WOk w' | WErr w' => w_shim w' = w_shim w | _ => True end.
Proof.
  intros St. unfold append_slice. rewrite St. destruct (negb _); reflexivity.
Qed.
Lemma label_compose_shim c l w :
  t_stream c = false ->
  match label_compose c l w with WOk w' | WErr w' => w_shim w' = w_shim w | _ => True end.
Proof.
  intros St. unfold label_compose.
  pose proof (append_slice_shim c [N.of_nat (length l)] w St) as H1.
  destruct (append_slice c [N.of_nat (length l)] w) as [w1|w1| |]; cbn [wbind]; auto.
  pose proof (append_slice_shim c l w1 St) as H2.
  destruct (append_slice c l w1); auto; congruence.
Qed.

(* ------------------------------------------------------------ compressors *)

Lemma label_compose_sinv c l w w' : label_compose c l w = WOk w' -> SInv c w'.
Proof.
  unfold label_compose. intros H St.
  destruct (append_slice c [N.of_nat (length l)] w) as [w1|w1| |]; cbn [wbind] in H; try discriminate.
  eapply append_slice_sinv; eauto.
Qed.

(* one round of the Static/Tree loop: an entry for the current position is
   added to one table, then the label is written *)
Lemma insert_then_label c l w w0 (rest : ws -> wres) :
  TBound w -> SInv c w -> mlen (w_buf w) < 16384 ->
  w_buf w0 = w_buf w -> w_shim w0 = w_shim w ->
  Ext c (mlen (w_buf w)) w w0 ->
  (forall b, mlen (w_buf w) < mlen b -> TBound (set_buf w0 b)) ->
  WSpec c rest ->
  match wbind (label_compose c l w0) rest with
  | WOk w' => Ext c (mlen (w_buf w)) w w' /\ TBound w' /\ SInv c w'
  | WErr w' => Ext c (mlen (w_buf w)) w w'
  | _ => True
  end.
Proof.
  intros TB SI Hlt Hb Hs E0 TB0 Hrest.
  pose proof (label_compose_tables c l w0) as HT.
  destruct (label_compose c l w0) as [w1|w1| |] eqn:EL; cbn [wbind]; auto.
  - destruct HT as ((a1 & a2 & a3) & sfx & B).
    pose proof (label_compose_grows _ _ _ _ EL) as Hg. rewrite Hb in Hg.
    assert (E1 : Ext c (mlen (w_buf w0)) w0 w1).
    { split; [exists sfx; exact B | exists []; rewrite app_nil_r; auto | exists []; auto
             | exists []; rewrite app_nil_r; auto |].
      intros St. pose proof (label_compose_shim c l w0 St) as Hs'. rewrite EL in Hs'. exact Hs'. }
    assert (E01 : Ext c (mlen (w_buf w)) w w1) by (eapply Ext_trans; [exact E0|exact E1|rewrite Hb; lia]).
    assert (TB1 : TBound w1).
    { specialize (TB0 (w_buf w1) Hg). unfold TBound in *. unfold set_buf in TB0; cbn [w_buf w_static w_tree w_hash] in TB0.
      rewrite a1, a2, a3. exact TB0. }
    assert (SI1 : SInv c w1) by (eapply label_compose_sinv; eauto).
    specialize (Hrest w1 TB1 SI1). pose proof (Ext_mlen _ _ _ _ E01) as Hm.
    destruct (rest w1) as [w2|w2| |]; auto.
    + destruct Hrest as (E2 & TB2 & SI2). split; [|split]; auto. eapply Ext_trans; eauto.
    + eapply Ext_trans; eauto.
  - destruct HT as ((a1 & a2 & a3) & sfx & B).
    apply (Ext_trans c _ (mlen (w_buf w0)) w w0 w1); [exact E0| |rewrite Hb; lia].
    split; [exists sfx; exact B | exists []; rewrite app_nil_r; auto | exists []; auto
           | exists []; rewrite app_nil_r; auto |].
    intros St. pose proof (label_compose_shim c l w0 St) as Hs'. rewrite EL in Hs'. exact Hs'.
Qed.

Lemma static_acn_spec c ls : WSpec c (static_acn c ls).
Proof.
  induction ls as [|l rest IH]; intros w TB SI; cbn [static_acn].
  - apply write_root_spec; auto.
  - destruct (static_get (w_buf w) (mlen (w_buf w)) (w_static w) (l :: rest)) as [[pos|]|]; [apply write_ptr_spec; auto| |exact I].
    destruct (static_insert (mlen (w_buf w)) (w_static w)) as [es'|] eqn:EI.
    + unfold static_insert in EI.
      destruct ((mlen (w_buf w) <? static_ptr_limit) && _) eqn:G; [|discriminate]. injection EI as <-.
      apply andb_true_iff in G as [G1 _]. apply N.ltb_lt in G1. unfold static_ptr_limit in G1.
      apply insert_then_label; auto.
      * split; unfold set_static; cbn [w_buf w_static w_tree w_hash w_shim];
          [exists []; rewrite app_nil_r; auto | | exists []; auto | exists []; rewrite app_nil_r; auto | auto].
        exists [mlen (w_buf w)]. split; [reflexivity|]. constructor; [lia|constructor].
      * intros b Hb. destruct TB as (A & B & C). unfold TBound, set_buf, set_static; cbn [w_buf w_static w_tree w_hash].
        repeat split.
        -- apply Forall_app; split; [eapply Forall_weaken; [|exact A]; cbv beta; intros; lia|].
           constructor; [lia|constructor].
        -- eapply Forall_weaken; [|exact B]; cbv beta; intros; lia.
        -- eapply Forall_weaken; [|exact C]; cbv beta; intros; lia.
    + apply (WSpec_bind c (write_labels c (l :: rest)) (write_root c)); auto using write_labels_spec, write_root_spec.
Qed.

Lemma labels_eqb_refl_bytes a : bytes_eqb a a = true.
Proof. induction a as [|x a IH]; cbn [bytes_eqb]; [reflexivity|]. rewrite N.eqb_refl, IH. reflexivity. Qed.
Lemma bytes_eqb_eq a b : bytes_eqb a b = true <-> a = b.
Proof.
  revert b; induction a as [|x a IH]; intros [|y b]; cbn [bytes_eqb]; split; intros H; try reflexivity; try discriminate.
  - apply andb_true_iff in H as [H1 H2]. apply N.eqb_eq in H1. apply IH in H2. congruence.
  - injection H as -> ->. rewrite N.eqb_refl. apply IH. reflexivity.
Qed.
Lemma labels_eqb_eq a b : labels_eqb a b = true <-> a = b.
Proof.
  revert b; induction a as [|x a IH]; intros [|y b]; cbn [labels_eqb]; split; intros H; try reflexivity; try discriminate.
  - apply andb_true_iff in H as [H1 H2]. apply bytes_eqb_eq in H1. apply IH in H2. congruence.
  - injection H as -> ->. apply andb_true_iff. split; [apply bytes_eqb_eq; reflexivity|apply IH; reflexivity].
Qed.

(* a key that is not bound is not removed by the filter of tree_insert *)
Lemma tree_get_none_filter t k :
  tree_get t k = None -> filter (fun e => negb (labels_eqb (fst e) k)) t = t.
Proof.
  induction t as [|[k' v] t IH]; cbn [tree_get filter fst]; [reflexivity|].
  destruct (labels_eqb k' k); [discriminate|]. intros H. cbn [negb]. f_equal. apply IH. exact H.
Qed.

Lemma tree_acn_spec c ls : WSpec c (tree_acn c ls).
Proof.
  induction ls as [|l rest IH]; intros w TB SI; cbn [tree_acn].
  - apply write_root_spec; auto.
  - destruct (tree_get (w_tree w) (l :: rest)) as [pos|] eqn:EG; [apply write_ptr_spec; auto|].
    destruct (tree_insert (l :: rest) (mlen (w_buf w)) (w_tree w)) as [t'|] eqn:EI.
    + unfold tree_insert in EI.
      destruct (N.leb_spec tree_ptr_limit (mlen (w_buf w))) as [G|G]; [discriminate|]. injection EI as <-.
      unfold tree_ptr_limit in G. rewrite (tree_get_none_filter _ _ EG).
      apply insert_then_label; auto.
      * split; unfold set_tree; cbn [w_buf w_static w_tree w_hash w_shim];
          [exists []; rewrite app_nil_r; auto | exists []; rewrite app_nil_r; auto | | exists []; rewrite app_nil_r; auto | auto].
        exists [(l :: rest, mlen (w_buf w))]. split; [reflexivity|]. constructor; [cbn [snd]; lia|constructor].
      * intros b Hb. destruct TB as (A & B & C). unfold TBound, set_buf, set_tree; cbn [w_buf w_static w_tree w_hash].
        repeat split.
        -- eapply Forall_weaken; [|exact A]; cbv beta; intros; lia.
        -- constructor; [cbn [snd]; lia|]. eapply Forall_weaken; [|exact B]; cbv beta; intros; lia.
        -- eapply Forall_weaken; [|exact C]; cbv beta; intros; lia.
    + apply (WSpec_bind c (write_labels c (l :: rest)) (write_root c)); auto using write_labels_spec, write_root_spec.
Qed.

Lemma hash_write_spec c ls position : WSpec c (hash_write c ls position).
Proof.
  induction ls as [|l rest IH]; intros w TB SI; cbn [hash_write]; [apply WSpec_ok; auto|].
  pose proof (label_compose_spec c l w TB SI) as HL.
  pose proof (label_compose_tables c l w) as HT.
  destruct (label_compose c l w) as [w1|w1| |] eqn:EL; cbn [wbind]; auto.
  destruct HL as (E1 & TB1 & SI1). destruct HT as ((a1 & a2 & a3) & sfx & B).
  pose proof (label_compose_grows _ _ _ _ EL) as Hg.
  set (ent := (mlen (w_buf w), match rest with [] => position | _ :: _ => mlen (w_buf w) + (N.of_nat (length l) + 1) end)).
  destruct (N.ltb_spec (mlen (w_buf w)) hash_ptr_limit) as [G|G].
  - unfold hash_ptr_limit in G.
    set (w2 := set_hash w1 (w_hash w1 ++ [ent])).
    assert (E12 : Ext c (mlen (w_buf w)) w1 w2).
    { split; subst w2; unfold set_hash; cbn [w_buf w_static w_tree w_hash w_shim];
        [exists []; rewrite app_nil_r; auto | exists []; rewrite app_nil_r; auto | exists []; auto | | auto].
      exists [ent]. split; [reflexivity|]. constructor; [subst ent; cbn [fst]; lia|constructor]. }
    assert (TB2 : TBound w2).
    { destruct TB1 as (A & Bt & C). subst w2. unfold TBound, set_hash; cbn [w_buf w_static w_tree w_hash].
      split; [exact A|split; [exact Bt|]]. apply Forall_app; split; [exact C|].
      constructor; [subst ent; cbn [fst]; lia|constructor]. }
    assert (SI2 : SInv c w2) by exact SI1.
    specialize (IH w2 TB2 SI2).
    assert (E02 : Ext c (mlen (w_buf w)) w w2) by (eapply Ext_trans; [exact E1|exact E12|lia]).
    assert (Hm : mlen (w_buf w) <= mlen (w_buf w2)) by (subst w2; unfold set_hash; cbn [w_buf]; lia).
    destruct (hash_write c rest position w2) as [w3|w3| |]; auto.
    + destruct IH as (E3 & TB3 & SI3). split; [|split]; auto. eapply Ext_trans; eauto.
    + eapply Ext_trans; eauto.
  - specialize (IH w1 TB1 SI1). pose proof (Ext_mlen _ _ _ _ E1) as Hm.
    destruct (hash_write c rest position w1) as [w3|w3| |]; auto.
    + destruct IH as (E3 & TB3 & SI3). split; [|split]; auto. eapply Ext_trans; eauto.
    + eapply Ext_trans; eauto.
Qed.

Lemma hash_acn_spec c ls : WSpec c (hash_acn c ls).
Proof.
  intros w TB SI. unfold hash_acn.
  destruct (hash_walk (w_buf w) (mlen (w_buf w)) (w_hash w) (rev ls) hash_root_pos) as [[position rest]| | |]; auto.
  apply (WSpec_bind c (hash_write c (rev rest) position)
           (fun w1 => if position =? hash_root_pos then write_root c w1 else write_ptr c hash_ptr_tag position w1)); auto.
  - apply hash_write_spec.
  - destruct (position =? hash_root_pos); [apply write_root_spec|apply write_ptr_spec].
Qed.

Lemma acn_spec c n : WSpec c (acn c n).
Proof.
  unfold acn. destruct (t_kind c);
    [apply append_slice_spec|apply static_acn_spec|apply tree_acn_spec|apply hash_acn_spec].
Qed.

(* ------------------------------------------------------- questions, records *)

Lemma compose_question_spec c q : WSpec c (compose_question c q).
Proof.
  unfold compose_question.
  apply (WSpec_bind c (acn c (q_name q)) (fun w1 => wbind (append_slice c (be16 (q_type q)) w1) (append_slice c (be16 (q_class q))))).
  - apply acn_spec.
  - apply (WSpec_bind c (append_slice c _) (append_slice c _)); apply append_slice_spec.
Qed.

Lemma compose_items_spec c items : WSpec c (compose_items c items).
Proof.
  induction items as [|[b|n|n] r IH]; cbn [compose_items]; [apply WSpec_ok| | |].
  - apply (WSpec_bind c (append_slice c b) (compose_items c r)); auto using append_slice_spec.
  - apply (WSpec_bind c (acn c n) (compose_items c r)); auto using acn_spec.
  - apply (WSpec_bind c (append_slice c _) (compose_items c r)); auto using append_slice_spec.
Qed.

Lemma be16_length v : length (be16 v) = 2%nat.
Proof. reflexivity. Qed.

Lemma patch16_app a r pos v :
  mlen a <= pos -> pos + 2 <= mlen a + mlen r ->
  patch16 pos v (a ++ r) = a ++ patch16 (pos - mlen a) v r.
Proof.
  intros H1 H2. unfold patch16, mlen in *.
  rewrite firstn_app, skipn_app.
  replace (N.to_nat pos - length a)%nat with (N.to_nat (pos - N.of_nat (length a))) by lia.
  replace (N.to_nat pos + 2 - length a)%nat with (N.to_nat (pos - N.of_nat (length a)) + 2)%nat by lia.
  rewrite (firstn_all2 a) by lia. rewrite (skipn_all2 a) by lia.
  rewrite <- !app_assoc. reflexivity.
Qed.

Lemma patch16_mlen pos v b : pos + 2 <= mlen b -> mlen (patch16 pos v b) = mlen b.
Proof.
  intros H. unfold patch16, mlen in *. rewrite !app_length, firstn_length, skipn_length, be16_length. lia.
Qed.

(* overwriting two octets that were written after position p *)
Lemma patch_spec c w w2 pos v :
  TBound w2 -> SInv c w2 -> Ext c (mlen (w_buf w)) w w2 ->
  mlen (w_buf w) <= pos -> pos + 2 <= mlen (w_buf w2) ->
  let w3 := set_buf w2 (patch16 pos v (w_buf w2)) in
  Ext c (mlen (w_buf w)) w w3 /\ TBound w3 /\ SInv c w3.
Proof.
  intros TB2 SI2 [[sfx B] ES ET EH Sh] H1 H2 w3. subst w3.
  assert (L : mlen (patch16 pos v (w_buf w2)) = mlen (w_buf w2)) by (apply patch16_mlen; exact H2).
  split; [|split].
  - split; unfold set_buf; cbn [w_buf w_static w_tree w_hash w_shim]; auto.
    rewrite B in *. rewrite mlen_app in H2. rewrite patch16_app by assumption. eexists; reflexivity.
  - unfold TBound, set_buf in *; cbn [w_buf w_static w_tree w_hash]. rewrite L. exact TB2.
  - intros St. unfold set_buf; cbn [w_buf w_shim]. rewrite L. apply SI2; exact St.
Qed.

Lemma compose_len_rdata_spec c r : WSpec c (compose_len_rdata c r).
Proof.
  intros w TB SI. unfold compose_len_rdata.
  destruct (uses_prefix c r).
  - pose proof (append_slice_spec c [0; 0] w TB SI) as H1.
    destruct (append_slice c [0; 0] w) as [w1|w1| |] eqn:EA; cbn [wbind]; auto.
    destruct H1 as (E1 & TB1 & SI1).
    assert (L1 : mlen (w_buf w1) = mlen (w_buf w) + 2).
    { unfold append_slice in EA. destruct (negb _); [discriminate|].
      destruct (t_stream c); [destruct (_ <=? _); try discriminate|]; injection EA as <-;
        unfold set_shim, set_buf; cbn [w_buf]; rewrite mlen_app; reflexivity. }
    pose proof (compose_items_spec c (r_data r) w1 TB1 SI1) as H2.
    destruct (compose_items c (r_data r) w1) as [w2|w2| |]; auto.
    + destruct H2 as (E2 & TB2 & SI2).
      destruct (_ <=? rdlen_max); [|exact I].
      pose proof (Ext_mlen _ _ _ _ E2) as Hm.
      apply patch_spec; auto; try lia. eapply Ext_trans; eauto. lia.
    + rewrite (truncate_back c w1 w2); auto.
  - destruct (rdlen_max <? _); [exact I|].
    apply (WSpec_bind c (append_slice c _) (compose_items c (r_data r))); auto using append_slice_spec, compose_items_spec.
Qed.

Lemma compose_record_spec c r : WSpec c (compose_record c r).
Proof.
  unfold compose_record.
  apply (WSpec_bind c (acn c (r_owner r))); [apply acn_spec|].
  apply (WSpec_bind c (append_slice c _)); [apply append_slice_spec|].
  apply (WSpec_bind c (append_slice c _)); [apply append_slice_spec|].
  apply (WSpec_bind c (append_slice c _)); [apply append_slice_spec|].
  apply compose_len_rdata_spec.
Qed.

Lemma compose_opts_spec c opts : WSpec c (compose_opts c opts).
Proof.
  induction opts as [|[[code dlen] data] r IH]; cbn [compose_opts]; [apply WSpec_ok|].
  apply (WSpec_bind c (append_slice c _)); [apply append_slice_spec|].
  apply (WSpec_bind c (append_slice c _)); [apply append_slice_spec|].
  apply (WSpec_bind c (append_slice c _)); [apply append_slice_spec|exact IH].
Qed.

Lemma append_slice_mlen c s w w' : append_slice c s w = WOk w' -> mlen (w_buf w') = mlen (w_buf w) + mlen s.
Proof.
  unfold append_slice. intros EA. destruct (negb _); [discriminate|].
  destruct (t_stream c); [destruct (_ <=? _); try discriminate|]; injection EA as <-;
    unfold set_shim, set_buf; cbn [w_buf]; rewrite mlen_app; reflexivity.
Qed.

(* the three header patches of the OPT closure (udp size, ext rcode + version, DO) *)
Lemma opt_patches c w w2 x y z :
  TBound w2 -> SInv c w2 -> Ext c (mlen (w_buf w)) w w2 -> mlen (w_buf w2) = mlen (w_buf w) + 11 ->
  let w3 := set_buf w2 (patch16 (mlen (w_buf w) + 7) z
                         (patch16 (mlen (w_buf w) + 5) y (patch16 (mlen (w_buf w) + 3) x (w_buf w2)))) in
  Ext c (mlen (w_buf w)) w w3 /\ TBound w3 /\ SInv c w3 /\ mlen (w_buf w3) = mlen (w_buf w2).
Proof.
  intros TB2 SI2 E02 L2.
  destruct (patch_spec c w w2 (mlen (w_buf w) + 3) x TB2 SI2 E02) as (Ea & TBa & SIa); [lia|lia|].
  set (wa := set_buf w2 (patch16 (mlen (w_buf w) + 3) x (w_buf w2))) in *.
  assert (La : mlen (w_buf wa) = mlen (w_buf w2)) by (subst wa; unfold set_buf; cbn [w_buf]; apply patch16_mlen; lia).
  destruct (patch_spec c w wa (mlen (w_buf w) + 5) y TBa SIa Ea) as (Eb & TBb & SIb); [lia|lia|].
  set (wb := set_buf wa (patch16 (mlen (w_buf w) + 5) y (w_buf wa))) in *.
  assert (Lb : mlen (w_buf wb) = mlen (w_buf w2)) by (subst wb; unfold set_buf; cbn [w_buf]; rewrite patch16_mlen; lia).
  destruct (patch_spec c w wb (mlen (w_buf w) + 7) z TBb SIb Eb) as (Ec & TBc & SIc); [lia|lia|].
  set (wc := set_buf wb (patch16 (mlen (w_buf w) + 7) z (w_buf wb))) in *.
  assert (Lc : mlen (w_buf wc) = mlen (w_buf w2)) by (subst wc; unfold set_buf; cbn [w_buf]; rewrite patch16_mlen; lia).
  cbv zeta.
  replace (set_buf w2 (patch16 (mlen (w_buf w) + 7) z (patch16 (mlen (w_buf w) + 5) y (patch16 (mlen (w_buf w) + 3) x (w_buf w2))))) with wc
    by (subst wc wb wa; unfold set_buf; cbn [w_buf w_shim w_static w_tree w_hash]; reflexivity).
  auto.
Qed.

Lemma compose_opt_spec c oh opts : WSpec c (compose_opt c oh opts).
Proof.
  intros w TB SI. unfold compose_opt.
  pose proof (append_slice_spec c opt_header_default w TB SI) as H1.
  destruct (append_slice c opt_header_default w) as [w1|w1| |] eqn:EA; cbn [wbind]; auto.
  destruct H1 as (E1 & TB1 & SI1). pose proof (append_slice_mlen _ _ _ _ EA) as L1.
  pose proof (append_slice_spec c [0; 0] w1 TB1 SI1) as H2.
  destruct (append_slice c [0; 0] w1) as [w2|w2| |] eqn:EB; cbn [wbind]; [| eapply Ext_trans; eauto; lia | exact I | exact I].
  destruct H2 as (E2 & TB2 & SI2). pose proof (append_slice_mlen _ _ _ _ EB) as L2.
  assert (E02 : Ext c (mlen (w_buf w)) w w2) by (eapply Ext_trans; eauto; lia).
  change (mlen opt_header_default) with 9 in L1. change (mlen [0; 0]) with 2 in L2.
  destruct (opt_patches c w w2 (oh_udp oh) (oh_ext oh * 256 + oh_ver oh) (oh_flags oh) TB2 SI2 E02 ltac:(lia))
    as (E3 & TB3 & SI3 & L3).
  match goal with |- context [compose_opts c opts ?x] => set (w3 := x) in * end.
  pose proof (compose_opts_spec c opts w3 TB3 SI3) as H4.
  destruct (compose_opts c opts w3) as [w4|w4| |]; auto.
  - destruct H4 as (E4 & TB4 & SI4). pose proof (Ext_mlen _ _ _ _ E4) as Hm.
    destruct (_ <=? rdlen_max).
    + apply patch_spec; auto; try lia. eapply Ext_trans; eauto. lia.
    + rewrite <- L3. rewrite (truncate_back c w3 w4); auto.
  - rewrite <- L3. rewrite (truncate_back c w3 w4); auto.
Qed.

(* -------------------------------------------------------------- builders *)

Lemma truncate_inv c len w :
  TBound w -> SInv c w ->
  exists w', truncate c len w = WOk w' /\ w_buf w' = firstn (N.to_nat len) (w_buf w) /\
             TBound w' /\ SInv c w' /\ (t_stream c = false -> w_shim w' = w_shim w).
Proof.
  intros (A & B & C) SI.
  set (b := firstn (N.to_nat len) (w_buf w)).
  assert (Lb : mlen b <= mlen (w_buf w) /\ (mlen b = len \/ mlen b = mlen (w_buf w))).
  { subst b. unfold mlen. rewrite firstn_length. lia. }
  assert (TT : forall x, w_buf x = b -> w_static x = w_static w -> w_tree x = w_tree w -> w_hash x = w_hash w ->
               TBound (trunc_tables len x) /\ w_buf (trunc_tables len x) = b /\ w_shim (trunc_tables len x) = w_shim x).
  { intros x Hb Hs Ht Hh. unfold trunc_tables, TBound, set_static, set_tree, set_hash.
    unfold static_trunc_guard, tree_trunc_guard, hash_trunc_guard.
    destruct x as [xb xsh xs xt xh]. cbn [w_buf w_shim w_static w_tree w_hash] in *. subst xb xs xt xh.
    assert (S1 : Forall (fun e => e < mlen b /\ e < 16384) (if len <? 49152 then take_while (fun e => e <? len) (w_static w) else w_static w)).
    { destruct (N.ltb_spec len 49152) as [L|L].
      - clear - A Lb. induction (w_static w) as [|e l IH]; cbn [take_while]; [constructor|].
        inversion A as [|? ? [H1 H2] A']; subst. destruct (N.ltb_spec e len); [|constructor].
        constructor; [lia|auto].
      - eapply Forall_weaken; [|exact A]. cbv beta. intros; lia. }
    assert (S2 : Forall (fun kv : name * N => snd kv < mlen b /\ snd kv < 16384) (if len <? 49152 then filter (fun kv => snd kv <? len) (w_tree w) else w_tree w)).
    { destruct (N.ltb_spec len 49152) as [L|L].
      - clear - B Lb. induction (w_tree w) as [|e l IH]; cbn [filter]; [constructor|].
        inversion B as [|? ? [H1 H2] B']; subst. destruct (N.ltb_spec (snd e) len); [|auto].
        constructor; [lia|auto].
      - eapply Forall_weaken; [|exact B]. cbv beta. intros; lia. }
    assert (S3 : Forall (fun e : N * N => fst e < mlen b /\ fst e < 16384) (if len <? 49152 then filter (fun e => fst e <? len) (w_hash w) else w_hash w)).
    { destruct (N.ltb_spec len 49152) as [L|L].
      - clear - C Lb. induction (w_hash w) as [|e l IH]; cbn [filter]; [constructor|].
        inversion C as [|? ? [H1 H2] C']; subst. destruct (N.ltb_spec (fst e) len); [|auto].
        constructor; [lia|auto].
      - eapply Forall_weaken; [|exact C]. cbv beta. intros; lia. }
    destruct (len <? 49152); cbn [w_buf w_shim w_static w_tree w_hash]; auto. }
  unfold truncate. fold b.
  destruct (t_stream c) eqn:St.
  - destruct (SI St) as [Hs Hl].
    destruct (N.leb_spec (mlen b) shim_max) as [L|L]; [|unfold shim_max in L; lia].
    destruct (TT (set_shim (set_buf w b) (mlen b))) as (T1 & T2 & T3); try reflexivity.
    eexists; split; [reflexivity|]. split; [exact T2|]. split; [exact T1|]. split; [|congruence].
    intros _. rewrite T2, T3. unfold set_shim; cbn [w_shim]. split; [reflexivity|lia].
  - destruct (TT (set_buf w b)) as (T1 & T2 & T3); try reflexivity.
    eexists; split; [reflexivity|]. split; [exact T2|]. split; [exact T1|]. split; [intros E; congruence|].
    intros _. rewrite T3. reflexivity.
Qed.

(* builder invariant (without the reading part) *)
Definition BW (c : tcfg) (s : bstate) : Prop :=
  TBound (b_w s) /\ SInv c (b_w s) /\ 12 <= mlen (w_buf (b_w s)) /\
  b_sec s <= 3 /\ 12 <= b_s1 s /\ 12 <= b_s2 s /\ 12 <= b_s3 s.

Lemma bstate_eta s : set_w s (b_w s) = s.
Proof. destruct s; reflexivity. Qed.

Lemma fail_push_back c s w e :
  BW c s -> Ext c (mlen (w_buf (b_w s))) (b_w s) w ->
  fail_push c s (mlen (w_buf (b_w s))) w e = (s, RErr e).
Proof.
  intros (TB & SI & _) E. unfold fail_push. rewrite (truncate_back c (b_w s) w); auto.
  rewrite bstate_eta. reflexivity.
Qed.

Lemma mb_push_cases c s f :
  BW c s -> WSpec c f ->
  (exists w', f (b_w s) = WOk w' /\ mb_push c s f = (set_count (set_w s w') (count_of s + 1), ROk) /\
              Ext c (mlen (w_buf (b_w s))) (b_w s) w' /\ TBound w' /\ SInv c w' /\
              limit_hit (mlen (w_buf w')) (b_limit s) = false /\ count_of s < count_max) \/
  (exists e, mb_push c s f = (s, RErr e)) \/
  (exists x, mb_push c s f = (s, x) /\ is_dead x = true).
Proof.
  intros HB Hf. destruct HB as (TB & SI & R). assert (HB : BW c s) by (split; [|split]; auto).
  specialize (Hf (b_w s) TB SI). unfold mb_push.
  destruct (f (b_w s)) as [w|w| |].
  - destruct Hf as (E & TB' & SI').
    destruct (limit_hit _ _) eqn:LH; [right; left; eexists; apply fail_push_back; auto|].
    destruct (N.leb_spec count_max (count_of s)) as [L|L]; [right; left; eexists; apply fail_push_back; auto|].
    left. exists w. split; [reflexivity|]. split; [reflexivity|]. split; [exact E|]. split; [exact TB'|]. split; [exact SI'|]. split; [exact LH|exact L].
  - right; left. eexists. apply fail_push_back; auto.
  - right; right. eexists; split; reflexivity.
  - right; right. eexists; split; reflexivity.
Qed.

Lemma BW_set_count c s v : BW c s -> BW c (set_count s v).
Proof.
  unfold BW, set_count. intros H.
  destruct (b_sec s =? 0) eqn:E0; [cbn; rewrite ?E0; exact H|].
  destruct (b_sec s =? 1) eqn:E1; [cbn; exact H|].
  destruct (b_sec s =? 2) eqn:E2; cbn; exact H.
Qed.

Lemma rewind_inv c s : BW c s ->
  exists w, truncate c (start_of s) (b_w s) = WOk w /\ rewind c s = Ok (set_count (set_w s w) 0) /\
            BW c (set_count (set_w s w) 0) /\
            w_buf w = firstn (N.to_nat (start_of s)) (w_buf (b_w s)).
Proof.
  intros (TB & SI & L & Hsec & H1 & H2 & H3).
  destruct (truncate_inv c (start_of s) (b_w s) TB SI) as (w & ET & Eb & TB' & SI' & _).
  exists w. split; [exact ET|]. unfold rewind. rewrite ET. split; [reflexivity|]. split; [|exact Eb].
  apply BW_set_count. unfold BW, set_w; cbn [b_w b_sec b_s1 b_s2 b_s3].
  split; [exact TB'|]. split; [exact SI'|]. split; [|repeat split; assumption].
  rewrite Eb. unfold mlen in *. rewrite firstn_length.
  assert (12 <= start_of s).
  { unfold start_of, header_len. destruct (b_sec s =? 0); [lia|]. destruct (b_sec s =? 1); [lia|].
    destruct (b_sec s =? 2); lia. }
  lia.
Qed.

