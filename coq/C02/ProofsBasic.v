(* C02 proofs, part 1: every writer only extends the buffer and the compressor
   tables (new table entries lie at or above the position where the write
   started and below 0x4000); truncating back to that position restores the
   writer state exactly.  Consequences: a failed push leaves the whole builder
   state unchanged; table entries are always inside the buffer and below
   0x4000; the stream length octets equal the message length (<= 65535). *)
From Coq Require Import NArith List Bool Lia ZArith.
From Coq Require Import ZifyN ZifyBool ZifyNat.
From DV Require Import Base.Outcome Base.Bytes Base.Names Base.PName C02.Gen C02.Model.
Import ListNotations.
Local Open Scope N_scope.
Ltac Zify.zify_post_hook ::= Z.div_mod_to_equations.

Lemma mlen_app a b : mlen (a ++ b) = mlen a + mlen b.
Proof. unfold mlen. rewrite app_length. lia. Qed.
Lemma mlen_nil : mlen [] = 0.
Proof. reflexivity. Qed.
Lemma mlen_cons x a : mlen (x :: a) = 1 + mlen a.
Proof. unfold mlen. cbn [length]. lia. Qed.

Lemma ws_eta w : mkWs (w_buf w) (w_shim w) (w_static w) (w_tree w) (w_hash w) = w.
Proof. destruct w; reflexivity. Qed.

(* ------------------------------------------------------------ invariants *)

(* every table entry is inside the buffer and expressible in 14 bits *)
Definition TBound (w : ws) : Prop :=
  Forall (fun e => e < mlen (w_buf w) /\ e < 16384) (w_static w) /\
  Forall (fun kv => snd kv < mlen (w_buf w) /\ snd kv < 16384) (w_tree w) /\
  Forall (fun e => fst e < mlen (w_buf w) /\ fst e < 16384) (w_hash w).

(* StreamTarget: the two length octets hold the message length *)
Definition SInv (c : tcfg) (w : ws) : Prop :=
  t_stream c = true -> w_shim w = mlen (w_buf w) /\ mlen (w_buf w) <= 65535.

Record Ext (c : tcfg) (p : N) (w w' : ws) : Prop := mkExt {
  ext_buf : exists sfx, w_buf w' = w_buf w ++ sfx;
  ext_static : exists nw, w_static w' = w_static w ++ nw /\ Forall (fun e => p <= e < 16384) nw;
  ext_tree : exists nw, w_tree w' = nw ++ w_tree w /\ Forall (fun kv => p <= snd kv < 16384) nw;
  ext_hash : exists nw, w_hash w' = w_hash w ++ nw /\ Forall (fun e => p <= fst e < 16384) nw;
  ext_shim : t_stream c = false -> w_shim w' = w_shim w }.

Lemma Ext_refl c p w : Ext c p w w.
Proof.
  split; [exists []; rewrite app_nil_r; reflexivity | exists []; rewrite app_nil_r; auto
         | exists []; auto | exists []; rewrite app_nil_r; auto | auto].
Qed.

Lemma Forall_weaken {A} (P Q : A -> Prop) l : (forall x, P x -> Q x) -> Forall P l -> Forall Q l.
Proof. intros H F. eapply Forall_impl; eauto. Qed.

Lemma Ext_trans c p p1 w w1 w2 :
  Ext c p w w1 -> Ext c p1 w1 w2 -> p <= p1 -> Ext c p w w2.
Proof.
  intros [[s1 B1] [n1 [S1 F1]] [t1 [T1 G1]] [h1 [H1 K1]] Sh1]
         [[s2 B2] [n2 [S2 F2]] [t2 [T2 G2]] [h2 [H2 K2]] Sh2] Hp.
  split.
  - exists (s1 ++ s2). rewrite B2, B1, app_assoc. reflexivity.
  - exists (n1 ++ n2). split; [rewrite S2, S1, app_assoc; reflexivity|].
    apply Forall_app; split; [exact F1|]. eapply Forall_weaken; [|exact F2]. cbv beta; intros; lia.
  - exists (t2 ++ t1). split; [rewrite T2, T1, app_assoc; reflexivity|].
    apply Forall_app; split; [|exact G1]. eapply Forall_weaken; [|exact G2]. cbv beta; intros; lia.
  - exists (h1 ++ h2). split; [rewrite H2, H1, app_assoc; reflexivity|].
    apply Forall_app; split; [exact K1|]. eapply Forall_weaken; [|exact K2]. cbv beta; intros; lia.
  - intros E. rewrite Sh2, Sh1; auto.
Qed.

Lemma Ext_mlen c p w w' : Ext c p w w' -> mlen (w_buf w) <= mlen (w_buf w').
Proof. intros [[s B] _ _ _ _]. rewrite B, mlen_app. lia. Qed.

(* what a writer guarantees *)
Definition WSpec (c : tcfg) (f : ws -> wres) : Prop :=
  forall w, TBound w -> SInv c w ->
    match f w with
    | WOk w' => Ext c (mlen (w_buf w)) w w' /\ TBound w' /\ SInv c w'
    | WErr w' => Ext c (mlen (w_buf w)) w w'
    | _ => True
    end.

Lemma WSpec_bind c f g : WSpec c f -> WSpec c g -> WSpec c (fun w => wbind (f w) g).
Proof.
  intros Hf Hg w TB SI. specialize (Hf w TB SI). cbv beta.
  destruct (f w) as [w1|w1| |]; cbn [wbind]; auto.
  destruct Hf as (E1 & TB1 & SI1). specialize (Hg w1 TB1 SI1).
  pose proof (Ext_mlen _ _ _ _ E1) as Hm.
  destruct (g w1) as [w2|w2| |]; auto.
  - destruct Hg as (E2 & TB2 & SI2). split; [|split]; auto. eapply Ext_trans; eauto.
  - eapply Ext_trans; eauto.
Qed.

Lemma WSpec_ok c : WSpec c WOk.
Proof. intros w TB SI. split; [apply Ext_refl|]. split; auto. Qed.

(* ---------------------------------------------------------- append_slice *)

Lemma TBound_grow w b :
  TBound w -> TBound (set_buf w (w_buf w ++ b)).
Proof.
  intros (A & B & C). unfold TBound, set_buf; cbn [w_buf w_static w_tree w_hash].
  rewrite mlen_app. repeat split; (eapply Forall_weaken; [|eassumption]); cbv beta; intros; lia.
Qed.

Lemma Ext_grow c p w b : Ext c p w (set_buf w (w_buf w ++ b)).
Proof.
  split; unfold set_buf; cbn [w_buf w_static w_tree w_hash w_shim];
    [exists b; reflexivity | exists []; rewrite app_nil_r; auto | exists []; auto
    | exists []; rewrite app_nil_r; auto | auto].
Qed.

Lemma Ext_set_shim c p w w' v : t_stream c = true -> Ext c p w w' -> Ext c p w (set_shim w' v).
Proof.
  intros St [B S T H Sh]. split; unfold set_shim; cbn [w_buf w_static w_tree w_hash w_shim]; auto.
  intros E. congruence.
Qed.

Lemma TBound_set_shim w v : TBound w -> TBound (set_shim w v).
Proof. unfold TBound, set_shim; cbn [w_buf w_static w_tree w_hash]. auto. Qed.

Lemma append_slice_spec c s : WSpec c (append_slice c s).
Proof.
  intros w TB SI. unfold append_slice.
  destruct (negb _); [apply Ext_refl|].
  destruct (t_stream c) eqn:St.
  - destruct (N.leb_spec (mlen (w_buf (set_buf w (w_buf w ++ s)))) shim_max) as [L|L].
    + split; [apply Ext_set_shim; auto; apply Ext_grow|].
      split; [apply TBound_set_shim, TBound_grow; auto|].
      intros _. unfold set_shim, set_buf; cbn [w_buf w_shim]. split; [reflexivity|].
      unfold set_buf in L; cbn [w_buf] in L. unfold shim_max in L. lia.
    + apply Ext_grow.
  - split; [apply Ext_grow|]. split; [apply TBound_grow; auto|].
    intros E. congruence.
Qed.

Lemma label_compose_spec c l : WSpec c (label_compose c l).
Proof. unfold label_compose. apply (WSpec_bind c (append_slice c _) (append_slice c l)); apply append_slice_spec. Qed.

Lemma write_labels_spec c ls : WSpec c (write_labels c ls).
Proof.
  induction ls as [|l r IH]; [apply WSpec_ok|].
  cbn [write_labels]. apply (WSpec_bind c (label_compose c l) (write_labels c r)); [apply label_compose_spec|exact IH].
Qed.

Lemma write_root_spec c : WSpec c (write_root c).
Proof. apply append_slice_spec. Qed.
Lemma write_ptr_spec c tag pos : WSpec c (write_ptr c tag pos).
Proof. apply append_slice_spec. Qed.

(* appends do not look at the tables: the same results with other tables *)
Definition same_tables (w w' : ws) : Prop :=
  w_static w' = w_static w /\ w_tree w' = w_tree w /\ w_hash w' = w_hash w.

Lemma append_slice_tables c s w :
  match append_slice c s w with
  | WOk w' | WErr w' => same_tables w w' /\ exists sfx, w_buf w' = w_buf w ++ sfx
  | _ => True end.
Proof.
  unfold append_slice, same_tables. destruct (negb _).
  - repeat split; auto. exists []. rewrite app_nil_r. reflexivity.
  - destruct (t_stream c); [destruct (_ <=? _)|]; unfold set_shim, set_buf;
      cbn [w_buf w_static w_tree w_hash]; repeat split; auto; eexists; reflexivity.
Qed.

Lemma label_compose_tables c l w :
  match label_compose c l w with
  | WOk w' | WErr w' => same_tables w w' /\ exists sfx, w_buf w' = w_buf w ++ sfx
  | _ => True end.
Proof.
  unfold label_compose. pose proof (append_slice_tables c [N.of_nat (length l)] w) as H1.
  destruct (append_slice c [N.of_nat (length l)] w) as [w1|w1| |]; cbn [wbind]; auto.
  pose proof (append_slice_tables c l w1) as H2.
  destruct (append_slice c l w1) as [w2|w2| |]; auto;
    destruct H1 as ((a1 & a2 & a3) & s1 & B1); destruct H2 as ((b1 & b2 & b3) & s2 & B2);
    (split; [unfold same_tables; repeat split; congruence|]);
    exists (s1 ++ s2); rewrite B2, B1, app_assoc; reflexivity.
Qed.

(* a successful label_compose appends at least one octet *)
Lemma label_compose_grows c l w w' :
  label_compose c l w = WOk w' -> mlen (w_buf w) < mlen (w_buf w').
Proof.
  unfold label_compose. intros H.
  destruct (append_slice c [N.of_nat (length l)] w) as [w1|w1| |] eqn:E1; cbn [wbind] in H; try discriminate.
  pose proof (append_slice_tables c l w1) as H2. rewrite H in H2. destruct H2 as (_ & s2 & B2).
  assert (mlen (w_buf w1) = mlen (w_buf w) + 1) as L1.
  { unfold append_slice in E1. destruct (negb _); [discriminate|].
    destruct (t_stream c); [destruct (_ <=? _); try discriminate|]; injection E1 as <-;
      unfold set_shim, set_buf; cbn [w_buf]; rewrite mlen_app, mlen_cons, mlen_nil; lia. }
  rewrite B2, mlen_app. lia.
Qed.

(* stream state after a successful append, whatever it was before *)
Lemma append_slice_sinv c s w w' : append_slice c s w = WOk w' -> t_stream c = true ->
  w_shim w' = mlen (w_buf w') /\ mlen (w_buf w') <= 65535.
Proof.
  unfold append_slice. intros H St. destruct (negb _); [discriminate|]. rewrite St in H.
  destruct (N.leb_spec (mlen (w_buf (set_buf w (w_buf w ++ s)))) shim_max) as [L|L]; [|discriminate].
  injection H as <-. unfold set_shim, set_buf in *; cbn [w_buf w_shim] in *. unfold shim_max in L. split; [reflexivity|lia].
Qed.

(* -------------------------------------------------------------- truncate *)

Lemma take_while_app_old (f : N -> bool) old nw :
  Forall (fun e => f e = true) old -> (match nw with [] => True | x :: _ => f x = false end) ->
  take_while f (old ++ nw) = old.
Proof.
  induction old as [|x old IH]; intros Fo Hn; cbn [app take_while].
  - destruct nw as [|y nw]; [reflexivity|]. cbn [take_while]. rewrite Hn. reflexivity.
  - inversion Fo as [|? ? Hx Fo']; subst. rewrite Hx. f_equal. apply IH; auto.
Qed.

Lemma filter_all {A} (f : A -> bool) l : Forall (fun e => f e = true) l -> filter f l = l.
Proof. induction 1 as [|x l Hx _ IH]; cbn [filter]; [reflexivity|]. rewrite Hx, IH. reflexivity. Qed.
Lemma filter_none {A} (f : A -> bool) l : Forall (fun e => f e = false) l -> filter f l = [].
Proof. induction 1 as [|x l Hx _ IH]; cbn [filter]; [reflexivity|]. rewrite Hx, IH. reflexivity. Qed.

Lemma Forall_hd_nil {A} (P : A -> Prop) l : Forall P l -> (forall x, P x -> False) -> l = [].
Proof. intros F H. destruct l as [|x l]; [reflexivity|]. inversion F; subst. exfalso; eauto. Qed.

(* trimming the tables at the position where a write started removes exactly
   the entries the write added *)
Lemma trunc_tables_back p w x :
  Forall (fun e => e < p /\ e < 16384) (w_static w) ->
  Forall (fun kv => snd kv < p /\ snd kv < 16384) (w_tree w) ->
  Forall (fun e => fst e < p /\ fst e < 16384) (w_hash w) ->
  (exists nw, w_static x = w_static w ++ nw /\ Forall (fun e => p <= e < 16384) nw) ->
  (exists nw, w_tree x = nw ++ w_tree w /\ Forall (fun kv => p <= snd kv < 16384) nw) ->
  (exists nw, w_hash x = w_hash w ++ nw /\ Forall (fun e => p <= fst e < 16384) nw) ->
  trunc_tables p x = mkWs (w_buf x) (w_shim x) (w_static w) (w_tree w) (w_hash w).
Proof.
  intros TS TT TH [ns [S FS]] [nt [T FT]] [nh [H FH]].
  assert (A1 : (if p <? static_trunc_guard then take_while (fun e => e <? p) (w_static x) else w_static x) = w_static w).
  { unfold static_trunc_guard. destruct (N.ltb_spec p 49152) as [L|L].
    - rewrite S. apply take_while_app_old.
      + eapply Forall_weaken; [|exact TS]. cbv beta. intros y [Hy _]. apply N.ltb_lt. exact Hy.
      + destruct ns as [|y ns]; [exact I|]. inversion FS; subst. apply N.ltb_ge. lia.
    - rewrite S. rewrite (Forall_hd_nil _ ns FS); [apply app_nil_r|]. cbv beta. intros; lia. }
  assert (A2 : (if p <? tree_trunc_guard then filter (fun kv => snd kv <? p) (w_tree x) else w_tree x) = w_tree w).
  { unfold tree_trunc_guard. destruct (N.ltb_spec p 49152) as [L|L].
    - rewrite T, filter_app, filter_none, filter_all; [reflexivity| |].
      + eapply Forall_weaken; [|exact TT]. cbv beta. intros y [Hy _]. apply N.ltb_lt. exact Hy.
      + eapply Forall_weaken; [|exact FT]. cbv beta. intros y Hy. apply N.ltb_ge. lia.
    - rewrite T. rewrite (Forall_hd_nil _ nt FT); [reflexivity|]. cbv beta. intros; lia. }
  assert (A3 : (if p <? hash_trunc_guard then filter (fun e => fst e <? p) (w_hash x) else w_hash x) = w_hash w).
  { unfold hash_trunc_guard. destruct (N.ltb_spec p 49152) as [L|L].
    - rewrite H, filter_app, filter_all, filter_none; [apply app_nil_r| |].
      + eapply Forall_weaken; [|exact FH]. cbv beta. intros y Hy. apply N.ltb_ge. lia.
      + eapply Forall_weaken; [|exact TH]. cbv beta. intros y [Hy _]. apply N.ltb_lt. exact Hy.
    - rewrite H. rewrite (Forall_hd_nil _ nh FH); [apply app_nil_r|]. cbv beta. intros; lia. }
  unfold trunc_tables, set_static, set_tree, set_hash.
  destruct x as [xb xs xst xt xh]. simpl in A1, A2, A3 |- *.
  destruct (p <? static_trunc_guard); destruct (p <? tree_trunc_guard); destruct (p <? hash_trunc_guard);
    simpl; f_equal; assumption.
Qed.

(* truncating back to where a write started undoes it *)
Lemma truncate_back c w w' :
  TBound w -> SInv c w -> Ext c (mlen (w_buf w)) w w' ->
  truncate c (mlen (w_buf w)) w' = WOk w.
Proof.
  intros (TS & TT & TH) SI [[sfx B] ES ET EH Sh].
  assert (Hb : firstn (N.to_nat (mlen (w_buf w))) (w_buf w') = w_buf w).
  { rewrite B. unfold mlen. rewrite Nat2N.id. apply take_app_length. }
  unfold truncate. rewrite Hb.
  destruct (t_stream c) eqn:St.
  - destruct (SI St) as [Hs Hl].
    destruct (N.leb_spec (mlen (w_buf w)) shim_max) as [L|L]; [|unfold shim_max in L; lia].
    f_equal. rewrite (trunc_tables_back (mlen (w_buf w)) w); auto.
    unfold set_shim, set_buf; cbn [w_buf w_shim]. rewrite <- Hs. apply ws_eta.
  - f_equal. rewrite (trunc_tables_back (mlen (w_buf w)) w); auto.
    unfold set_buf; cbn [w_buf w_shim]. rewrite (Sh eq_refl). apply ws_eta.
Qed.
