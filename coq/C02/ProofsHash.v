(* C02 proofs, part 6: the HashCompressor.  Entries are (head, tail) pairs; the
   right-to-left walk reaches a position at which the consumed labels are
   stored (up to ASCII case); the labels then written and their new entries
   are completed by the terminator. *)
From Coq Require Import NArith List Bool Lia ZArith.
From Coq Require Import ZifyN ZifyBool ZifyNat.
From DV Require Import Base.Outcome Base.Bytes Base.Names Base.PName C02.Gen C02.Model
  C02.ProofsBasic C02.ProofsName C02.ProofsComp C02.ProofsStatic.
Import ListNotations.
Local Open Scope N_scope.
Ltac Zify.zify_post_hook ::= Z.div_mod_to_equations.

Lemma hash_find_some m ml es l pos h :
  hash_find m ml es l pos = Ok (Some h) ->
  exists hl, In (h, pos) es /\ label_at m ml h = Some hl /\ label_eq hl l = true.
Proof.
  induction es as [|[h0 t0] es IH]; cbn [hash_find]; [discriminate|].
  destruct (label_at m ml h0) as [hl|] eqn:EL; [|discriminate].
  destruct (label_eq hl l && (t0 =? pos)) eqn:E; intros H.
  - injection H as <-. apply andb_true_iff in E as [E1 E2]. apply N.eqb_eq in E2. subst t0.
    exists hl. split; [left; reflexivity|]. split; [exact EL|exact E1].
  - destruct (IH H) as (hl' & A & B & C). exists hl'. split; [right; exact A|]. split; [exact B|exact C].
Qed.

(* the position reached by the walk holds the consumed labels *)
Definition Reach (m : bytes) (ok : N -> Prop) (bound : N) (pos : N) (s : name) : Prop :=
  (pos = hash_root_pos /\ s = []) \/
  (pos <> hash_root_pos /\ pos < bound /\ pos < 16384 /\
   exists l0 r0 e, LabelAt m ok pos l0 r0 e /\ canon (l0 :: r0) = canon s).

Lemma hash_walk_ok m (ok : N -> Prop) bound es :
  Forall (fun e => fst e < bound /\ fst e < 16384) es ->
  Forall (fun e => HashOK m ok (fst e) (snd e)) es ->
  forall rl pos s pos' rest,
    Reach m ok bound pos s -> hash_walk m (mlen m) es rl pos = Ok (pos', rest) ->
    exists consumed, rl = consumed ++ rest /\ Reach m ok bound pos' (rev consumed ++ s).
Proof.
  intros HB HO. induction rl as [|l rl IH]; intros pos s pos' rest HR H; cbn [hash_walk] in H.
  - injection H as <- <-. exists []. split; [reflexivity|exact HR].
  - destruct (hash_find m (mlen m) es l pos) as [[h|]| | |] eqn:EF; try discriminate.
    + destruct (hash_find_some _ _ _ _ _ _ EF) as (hl & Hin & HLa & HEq).
      rewrite Forall_forall in HB, HO. pose proof (HB _ Hin) as [Hb1 Hb2]. pose proof (HO _ Hin) as (l0 & ls0 & e & HL & HT).
      cbn [fst snd] in *.
      pose proof HL as (Hv0 & _ & Hbt & _). rewrite (label_at_here _ _ _ Hv0 Hbt) in HLa. injection HLa as <-.
      assert (HR' : Reach m ok bound h (l :: s)).
      { right. unfold hash_root_pos. split; [lia|]. split; [exact Hb1|]. split; [exact Hb2|].
        exists l0, ls0, e. split; [exact HL|]. unfold canon. cbn [map]. f_equal; [apply label_eq_spec; exact HEq|].
        destruct HR as [[Hp ->]|(Hp & _ & _ & l1 & r1 & e1 & HL1 & Hc1)].
        - destruct HT as [[_ ->]|[Hne _]]; [reflexivity|congruence].
        - destruct HT as [[Ht _]|(_ & seg & e' & HN)]; [congruence|].
          destruct (NameIn_fun _ _ _ _ _ _ _ _ _ _ HN (LabelAt_name _ _ _ _ _ _ HL1)) as [-> _]. exact Hc1. }
      destruct (IH h (l :: s) pos' rest HR' H) as (consumed & -> & HR'').
      exists (l :: consumed). split; [reflexivity|]. cbn [rev]. rewrite <- app_assoc. exact HR''.
    + injection H as <- <-. exists []. split; [reflexivity|exact HR].
Qed.

(* the entries hash_write adds *)
Fixpoint hentries (head : N) (ls : list label) (position : N) : list (N * N) :=
  match ls with
  | [] => []
  | l :: ls' =>
      (if head <? hash_ptr_limit
       then [(head, match ls' with [] => position | _ => head + (N.of_nat (length l) + 1) end)] else [])
      ++ hentries (head + 1 + mlen l) ls' position
  end.

Lemma hash_write_ok c position : forall ls w w',
  hash_write c ls position w = WOk w' ->
  w_buf w' = w_buf w ++ wire_rel ls /\ w_hash w' = w_hash w ++ hentries (mlen (w_buf w)) ls position /\
  w_static w' = w_static w /\ w_tree w' = w_tree w.
Proof.
  induction ls as [|l ls' IH]; intros w w' H; cbn [hash_write] in H.
  - injection H as <-. cbn [hentries wire_rel map concat]. rewrite !app_nil_r. auto.
  - destruct (label_compose c l w) as [w1|w1| |] eqn:EL; cbn [wbind] in H; try discriminate.
    apply label_compose_ok in EL as [B1 (a1 & a2 & a3)].
    apply IH in H as (B2 & H2 & S2 & T2).
    assert (L1 : mlen (w_buf w1) = mlen (w_buf w) + 1 + mlen l) by (rewrite B1, mlen_app, mlen_cons; lia).
    cbn [hentries]. destruct (mlen (w_buf w) <? hash_ptr_limit);
      unfold set_hash in B2, H2, S2, T2; cbn [w_buf w_hash w_static w_tree] in B2, H2, S2, T2.
    + split; [rewrite B2, B1, <- app_assoc; unfold wire_rel; cbn [map concat]; reflexivity|].
      split; [rewrite H2, a3, L1, <- app_assoc; reflexivity|]. split; congruence.
    + split; [rewrite B2, B1, <- app_assoc; unfold wire_rel; cbn [map concat]; reflexivity|].
      split; [rewrite H2, a3, L1; reflexivity|]. split; congruence.
Qed.

(* once the terminator is in place every new entry is complete *)
Lemma hentries_ok m (ok : N -> Prop) bound position tail e :
  (position = hash_root_pos /\ tail = [] \/
   position <> hash_root_pos /\ exists seg e', NameIn m ok seg position tail e') ->
  forall ls p,
    Forall valid_label ls -> bytes_at m p (wire_rel ls) ->
    (forall i, p <= i < p + mlen (wire_rel ls) -> ok i) ->
    Term m ok bound (p + mlen (wire_rel ls)) tail e -> bound <= p ->
    Forall (fun x => HashOK m ok (fst x) (snd x)) (hentries p ls position).
Proof.
  intros HP. induction ls as [|l ls' IH]; intros p Hv Hb Ho Ht Hbd; cbn [hentries]; [constructor|].
  inversion Hv as [|? ? Hl Hv']; subst.
  rewrite mlen_wire_rel_cons in Ht, Ho.
  unfold wire_rel in Hb. cbn [map concat] in Hb. fold (wire_rel ls') in Hb.
  apply bytes_at_split in Hb as [Hb1 Hb2]. change (wire_label l) with (mlen l :: l) in Hb1.
  replace (mlen (wire_label l)) with (1 + mlen l) in Hb2 by (unfold wire_label; rewrite mlen_cons; reflexivity).
  assert (HN : forall seg, bound <= seg -> seg <= p + 1 + mlen l -> NameIn m ok seg (p + 1 + mlen l) (ls' ++ tail) e).
  { intros seg H1 H2. apply (NameIn_complete m ok bound tail e ls'); auto.
    - replace (p + 1 + mlen l) with (p + (1 + mlen l)) by lia. exact Hb2.
    - intros i Hi. apply Ho. lia.
    - replace (p + 1 + mlen l + mlen (wire_rel ls')) with (p + (1 + mlen l + mlen (wire_rel ls'))) by lia. exact Ht. }
  apply Forall_app. split.
  - destruct (N.ltb_spec p hash_ptr_limit) as [G|G]; [|constructor]. unfold hash_ptr_limit in G.
    constructor; [|constructor]. cbn [fst snd].
    exists l, (ls' ++ tail), e. split.
    + split; [exact Hl|]. split; [intros i Hi; apply Ho; lia|]. split; [exact Hb1|]. apply HN; lia.
    + destruct ls' as [|l2 ls2].
      * cbn [app]. destruct HP as [[-> ->]|[Hne HNm]]; [left; auto|right; auto].
      * right. destruct Hl as [Hl _]. unfold hash_root_pos. split; [lia|].
        exists p, e. replace (p + (N.of_nat (length l) + 1)) with (p + 1 + mlen l) by (unfold mlen; lia). apply HN; lia.
  - apply IH; auto.
    + replace (p + 1 + mlen l) with (p + (1 + mlen l)) by lia. exact Hb2.
    + intros i Hi. apply Ho. lia.
    + replace (p + 1 + mlen l + mlen (wire_rel ls')) with (p + (1 + mlen l + mlen (wire_rel ls'))) by lia. exact Ht.
    + lia.
Qed.

(* a failed lookup: no entry matches *)
Lemma hash_find_none m ml l pos : forall es,
  hash_find m ml es l pos = Ok None ->
  forall h hl, In (h, pos) es -> label_at m ml h = Some hl -> label_eq hl l = true -> False.
Proof.
  induction es as [|[h0 t0] es IH]; cbn [hash_find]; intros H h hl Hin HL HE; [destruct Hin|].
  destruct (label_at m ml h0) as [hl0|] eqn:EL; [|discriminate].
  destruct (label_eq hl0 l && (t0 =? pos)) eqn:E; [discriminate|].
  destruct Hin as [Hin|Hin]; [|eapply IH; eauto].
  injection Hin as -> ->. rewrite EL in HL. injection HL as ->. rewrite HE, N.eqb_refl in E. discriminate.
Qed.

(* the walk stops at a label that is not in the table *)
Lemma hash_walk_stop m ml es : forall rl pos pos' rest,
  hash_walk m ml es rl pos = Ok (pos', rest) ->
  match rest with [] => True | l :: _ => hash_find m ml es l pos' = Ok None end.
Proof.
  induction rl as [|l rl IH]; intros pos pos' rest H; cbn [hash_walk] in H.
  - injection H as <- <-. exact I.
  - destruct (hash_find m ml es l pos) as [[h|]| | |] eqn:EF; try discriminate.
    + eapply IH; eauto.
    + injection H as <- <-. exact EF.
Qed.

(* heads and tails of the new entries *)
Lemma hentries_facts m position : forall ls p,
  Forall valid_label ls -> bytes_at m p (wire_rel ls) ->
  (position < p \/ position = 65535) ->
  (forall h t, In (h, t) (hentries p ls position) ->
     p <= h /\ h < 16384 /\ (t = position \/ (h < t /\ t < 65535)) /\
     (t = position -> label_at m (mlen m) h = Some (last ls []))) /\
  (forall h1 h2 t, In (h1, t) (hentries p ls position) -> In (h2, t) (hentries p ls position) -> h1 = h2).
Proof.
  induction ls as [|l ls' IH]; intros p Hv Hb Hp; cbn [hentries]; [split; intros; contradiction|].
  inversion Hv as [|? ? Hl Hv']; subst. pose proof Hl as [Hl1 _].
  unfold wire_rel in Hb. cbn [map concat] in Hb. fold (wire_rel ls') in Hb.
  apply bytes_at_split in Hb as [Hb1 Hb2]. change (wire_label l) with (mlen l :: l) in Hb1.
  replace (mlen (wire_label l)) with (1 + mlen l) in Hb2 by (unfold wire_label; rewrite mlen_cons; reflexivity).
  replace (p + (1 + mlen l)) with (p + 1 + mlen l) in Hb2 by lia.
  destruct (IH (p + 1 + mlen l) Hv' Hb2 ltac:(lia)) as (F1 & F2).
  assert (G : forall h t, In (h, t) (if p <? hash_ptr_limit then [(p, match ls' with [] => position | _ :: _ => p + (N.of_nat (length l) + 1) end)] else []) ->
              h = p /\ p < 16384 /\ t = match ls' with [] => position | _ :: _ => p + 1 + mlen l end).
  { intros h t Hin. destruct (N.ltb_spec p hash_ptr_limit) as [G|G]; [|destruct Hin]. unfold hash_ptr_limit in G.
    destruct Hin as [Hin|[]]. injection Hin as <- <-. split; [reflexivity|]. split; [exact G|].
    destruct ls'; [reflexivity|unfold mlen; lia]. }
  split.
  - intros h t Hin. apply in_app_iff in Hin as [Hin|Hin].
    + destruct (G _ _ Hin) as (-> & Gp & Et). split; [lia|]. split; [exact Gp|].
      destruct ls' as [|l2 ls2].
      * split; [left; exact Et|]. intros _. cbn [last]. apply label_at_here; auto.
      * split; [right; unfold mlen in *; lia|]. intros Ep. exfalso. unfold mlen in *. lia.
    + destruct (F1 _ _ Hin) as (A & B & C & D). split; [lia|]. split; [exact B|]. split; [exact C|].
      intros Ep. rewrite (D Ep). destruct ls'; [destruct Hin|reflexivity].
  - intros h1 h2 t I1 I2. apply in_app_iff in I1, I2.
    destruct I1 as [I1|I1], I2 as [I2|I2].
    + destruct (G _ _ I1) as (-> & _). destruct (G _ _ I2) as (-> & _). reflexivity.
    + destruct (G _ _ I1) as (-> & Gp & Et). destruct (F1 _ _ I2) as (A & B & C & _).
      destruct ls' as [|l2 ls2]; [destruct I2|]. exfalso. unfold mlen in *. destruct C as [C|C]; lia.
    + destruct (G _ _ I2) as (-> & Gp & Et). destruct (F1 _ _ I1) as (A & B & C & _).
      destruct ls' as [|l2 ls2]; [destruct I1|]. exfalso. unfold mlen in *. destruct C as [C|C]; lia.
    + eapply F2; eauto.
Qed.

Lemma last_rev_hd (l : label) (r : list label) : last (rev (l :: r)) [] = l.
Proof. cbn [rev]. apply last_last. Qed.

Lemma label_at_app m x h l : label_at m (mlen m) h = Some l -> label_at (m ++ x) (mlen (m ++ x)) h = Some l.
Proof.
  unfold label_at. destruct (get m h) as [b|] eqn:Eg; [|discriminate].
  destruct ((b <=? 63) && (h + 1 + b <=? mlen m)) eqn:E; [|discriminate]. intros H.
  apply andb_true_iff in E as [E1 E2]. apply N.leb_le in E2.
  rewrite (get_app_l m x h) by (eapply get_some_lt; eauto). rewrite Eg, E1. rewrite mlen_app.
  destruct (N.leb_spec (h + 1 + b) (mlen m + mlen x)); [|lia]. cbn [andb].
  injection H as <-. f_equal. unfold slice. rewrite skipn_app, firstn_app.
  replace (N.to_nat (h + 1 + b - (h + 1)) - length (skipn (N.to_nat (h + 1)) m))%nat with 0%nat
    by (rewrite skipn_length; unfold mlen in *; lia).
  cbn [firstn]. rewrite app_nil_r. reflexivity.
Qed.

Lemma Forall_valid_rev (ls : name) : Forall valid_label ls -> Forall valid_label (rev ls).
Proof. intros H. apply Forall_forall. intros x Hx. apply in_rev in Hx. rewrite Forall_forall in H. auto. Qed.

Lemma canon_app a b : canon (a ++ b) = canon a ++ canon b.
Proof. unfold canon. apply map_app. Qed.
Lemma canon_rev a : canon (rev a) = rev (canon a).
Proof. unfold canon. apply map_rev. Qed.

Lemma hash_acn_ok c : AcnSpec c (hash_acn c).
Proof.
  intros ok n w w' Hv TB SI (CS & CT & CH & CU) Ho H. unfold hash_acn in H.
  destruct (hash_walk (w_buf w) (mlen (w_buf w)) (w_hash w) (rev n) hash_root_pos) as [[position rest]| | |] eqn:EW; try discriminate.
  set (b := w_buf w) in *. set (p := mlen b) in *.
  assert (HB : Forall (fun e => fst e < p /\ fst e < 16384) (w_hash w)) by (destruct TB as (_ & _ & X); exact X).
  destruct (hash_walk_ok b ok p (w_hash w) HB CH (rev n) hash_root_pos [] position rest) as (consumed & Erl & HR);
    [left; auto|exact EW|]. rewrite app_nil_r in HR.
  assert (En : n = rev rest ++ rev consumed).
  { rewrite <- (rev_involutive n), Erl, rev_app_distr. reflexivity. }
  assert (Hvw : Forall valid_label (rev rest)).
  { apply Forall_valid_rev in Hv. rewrite Erl in Hv. apply Forall_app in Hv as [_ Hv]. apply Forall_valid_rev. exact Hv. }
  match type of H with wbind ?x _ = _ => destruct x as [w1|w1| |] eqn:EH end; cbn [wbind] in H; try discriminate.
  apply hash_write_ok in EH as (B1 & H1 & S1 & T1). fold b p in B1, H1.
  set (t := p + mlen (wire_rel (rev rest))).
  assert (Lt : mlen (w_buf w1) = t) by (rewrite B1, mlen_app; reflexivity).
  assert (Okr : forall i, p <= i -> ok i) by exact Ho.
  (* the terminator *)
  assert (HT : exists tail e x, w_buf w' = w_buf w1 ++ x /\ w_hash w' = w_hash w1 /\ w_static w' = w_static w1 /\ w_tree w' = w_tree w1 /\
             e = mlen (w_buf w') /\ canon tail = canon (rev consumed) /\
             Term (w_buf w') ok p t tail e /\
             (position = hash_root_pos /\ tail = [] \/
              position <> hash_root_pos /\ exists seg e', NameIn (w_buf w') ok seg position tail e')).
  { destruct HR as [[Hp Hc]|(Hp & Hpb & Hp2 & l0 & r0 & e0 & HL & Hc)].
    - rewrite Hp in H. rewrite N.eqb_refl in H. apply append_slice_ok in H as [B2 (a1 & a2 & a3)].
      exists [], (mlen (w_buf w')), [0]. split; [exact B2|]. split; [exact a3|]. split; [exact a1|]. split; [exact a2|].
      split; [reflexivity|]. split; [rewrite Hc; reflexivity|].
      split; [|left; auto]. rewrite B2, mlen_app, Lt. rewrite <- Lt. apply Term_root_end. intros; apply Okr; lia.
    - destruct (N.eqb_spec position hash_root_pos) as [X|X]; [contradiction|].
      apply write_ptr_ok in H as [B2 (a1 & a2 & a3)]; [|exact Hp2|reflexivity].
      exists (l0 :: r0), (mlen (w_buf w')), [192 + position / 256; position mod 256].
      split; [exact B2|]. split; [exact a3|]. split; [exact a1|]. split; [exact a2|].
      split; [reflexivity|]. split; [exact Hc|].
      assert (HL1 : LabelAt (w_buf w1) ok position l0 r0 e0) by (rewrite B1; apply LabelAt_app; exact HL).
      split.
      + rewrite B2, mlen_app, Lt. rewrite <- Lt. eapply Term_ptr_end; eauto. intros; apply Okr; lia.
      + right. split; [exact X|]. exists position, e0. rewrite B2. apply NameIn_app. apply LabelAt_name. exact HL1. }
  destruct HT as (tail & e & x & B2 & a3 & a1 & a2 & -> & Hc & HTm & HP).
  assert (Bfull : w_buf w' = b ++ wire_rel (rev rest) ++ x) by (rewrite B2, B1, <- app_assoc; reflexivity).
  assert (Hbytes : bytes_at (w_buf w') p (wire_rel (rev rest))) by (rewrite Bfull; apply bytes_at_app).
  assert (Hokr : forall i, p <= i < p + mlen (wire_rel (rev rest)) -> ok i) by (intros; apply Okr; lia).
  split.
  - unfold CInv. rewrite a1, a2, a3, S1, T1, H1, Bfull. split; [|split; [|split]].
    + eapply Forall_weaken; [|exact CS]. intros v Hs. apply StaticOK_app; exact Hs.
    + eapply Forall_weaken; [|exact CT]. intros [k v] Hs. apply TreeOK_app; exact Hs.
    + apply Forall_app. split.
      * eapply Forall_weaken; [|exact CH]. intros [h t0] Hs. apply HashOK_app; exact Hs.
      * rewrite <- Bfull. eapply (hentries_ok (w_buf w') ok p position tail); eauto. lia.
    + (* at most one entry per (label, tail) *)
      rewrite <- Bfull.
      assert (Hpos : position < p \/ position = 65535).
      { destruct HR as [[Hp _]|(_ & Hpb & _)]; [right; exact Hp|left; exact Hpb]. }
      destruct (hentries_facts (w_buf w') position (rev rest) p Hvw Hbytes Hpos) as (F1 & F2).
      assert (Hold : forall h tt, In (h, tt) (w_hash w) -> h < p /\ (tt < p \/ tt = 65535) /\
                     forall lx, label_at (w_buf w') (mlen (w_buf w')) h = Some lx -> label_at b (mlen b) h = Some lx).
      { intros h tt Hin. rewrite Forall_forall in HB, CH. destruct (HB _ Hin) as [Hh _]. cbn [fst] in Hh.
        destruct (CH _ Hin) as (l0 & ls0 & e0 & HL0 & HT0). cbn [fst snd] in HL0, HT0.
        split; [exact Hh|]. split.
        - destruct HT0 as [[-> _]|(_ & seg & e' & HN)]; [right; reflexivity|left].
          apply NameIn_end_le in HN. fold b in HN. fold p in HN. lia.
        - intros lx Hl. destruct HL0 as (V & _ & Bt & _). pose proof (label_at_here _ _ _ V Bt) as X0. fold b in X0.
          rewrite Bfull in Hl. rewrite (label_at_app b _ h l0 X0) in Hl. rewrite X0. exact Hl. }
      intros h1 h2 tt la lb I1 I2 L1 L2 E.
      apply in_app_iff in I1, I2. destruct I1 as [I1|I1], I2 as [I2|I2].
      * destruct (Hold _ _ I1) as (_ & _ & X1). destruct (Hold _ _ I2) as (_ & _ & X2).
        apply (CU h1 h2 tt la lb); auto.
      * exfalso. destruct (Hold _ _ I1) as (Hh1 & Ht1 & X1). destruct (F1 _ _ I2) as (A & Bh & C & D).
        destruct C as [C|C]; [|lia]. subst tt. specialize (D eq_refl).
        destruct rest as [|lf rest']; [destruct I2|].
        rewrite last_rev_hd in D. rewrite D in L2. injection L2 as <-.
        pose proof (hash_walk_stop _ _ _ _ _ _ _ EW) as HS. cbn in HS.
        eapply (hash_find_none b (mlen b) lf position (w_hash w) HS h1 la); eauto.
        apply label_eq_spec. exact E.
      * exfalso. destruct (Hold _ _ I2) as (Hh2 & Ht2 & X2). destruct (F1 _ _ I1) as (A & Bh & C & D).
        destruct C as [C|C]; [|lia]. subst tt. specialize (D eq_refl).
        destruct rest as [|lf rest']; [destruct I1|].
        rewrite last_rev_hd in D. rewrite D in L1. injection L1 as <-.
        pose proof (hash_walk_stop _ _ _ _ _ _ _ EW) as HS. cbn in HS.
        eapply (hash_find_none b (mlen b) lf position (w_hash w) HS h2 lb); eauto.
        apply label_eq_spec. symmetry. exact E.
      * eapply F2; eauto.
  - exists (rev rest ++ tail). split.
    + rewrite En, !canon_app. f_equal. exact Hc.
    + apply (NameIn_complete (w_buf w') ok p tail _ (rev rest) p p); auto; lia.
Qed.

(* ----------------------------------------------------------- all four kinds *)

Theorem acn_ok c : AcnSpec c (acn c).
Proof.
  intros ok n w w' Hv TB SI CI Ho H. unfold acn in H. destruct (t_kind c).
  - eapply (none_acn_ok c); eauto.
  - eapply static_acn_ok; eauto.
  - eapply tree_acn_ok; eauto.
  - eapply hash_acn_ok; eauto.
Qed.
