(* C02 proofs, part 14: typed record data through the C05 schema language.

   A value of a C05 schema is pushed as the record whose data items are the
   schema's fields: names flagged compressible go through the compressor
   (RName), the other names are written in full (RNameU), every other field
   is its C05 wire form (compose_field).  The record so pushed - on every
   target, with every compressor - is re-read by C05's own parse_rdata (with
   the message reader as name decoder, compression pointers followed) as the
   same value, names up to ASCII case. *)
From Coq Require Import NArith List Bool Lia ZArith.
From Coq Require Import ZifyN ZifyBool ZifyNat.
From DV Require Import C05.Schema C05.ProofsA C05.ProofsB C05.ProofsD.
From DV Require C05.Model C05.Proofs C05.ProofsF.
From DV Require Import Base.Outcome Base.Bytes Base.Names Base.PName C02.Gen C02.Model C02.SchemaModel
  C02.ProofsBasic C02.ProofsClone C02.ProofsRun C02.ProofsName C02.ProofsComp C02.ProofsStatic C02.ProofsHash C02.ProofsTop
  C02.ProofsLayout C02.ProofsRead C02.ProofsWrite C02.ProofsBuild C02.ProofsTotal.
Import ListNotations.
Local Open Scope N_scope.
Ltac Zify.zify_post_hook ::= Z.div_mod_to_equations.

(* equality of values up to the ASCII case of embedded names *)
Definition fval_eq (a b : fval) : Prop :=
  match a, b with
  | VName n', VName n => canon n' = canon n
  | _, _ => a = b
  end.

Lemma fval_eq_refl a : fval_eq a a.
Proof. destruct a; reflexivity. Qed.

(* ---- the items are the uncompressed composition *)
Lemma item_ulen_of f x : wf_fval false f x = true -> item_ulen (item_of f x) = mlen (compose_field false f x).
Proof.
  destruct f as [w|k|cp lw|chk| | |mn|ck], x; cbn [wf_fval]; try discriminate; intros _; try reflexivity.
  destruct cp; reflexivity.
Qed.

Lemma rdata_ulen_of fs : forall v, wf_fvals false fs v = true ->
  rdata_ulen (items_of fs v) = mlen (compose_fields false fs v).
Proof.
  induction fs as [|f fs IH]; intros [|x v] H; cbn [wf_fvals] in H; try discriminate; [reflexivity|].
  apply andb_true_iff in H as [Hx Hv]. cbn [items_of compose_fields]. unfold rdata_ulen in *. cbn [fold_right].
  rewrite IH by exact Hv. rewrite item_ulen_of by exact Hx. rewrite mlen_app. reflexivity.
Qed.

(* the length prefix is patched in afterwards exactly when C05's rdlen says
   that the length is not known in advance *)
Lemma is_rname_of fs : forall v, wf_fvals false fs v = true ->
  existsb is_rname (items_of fs v) = existsb is_compressible fs.
Proof.
  induction fs as [|f fs IH]; intros [|x v] H; cbn [wf_fvals] in H; try discriminate; [reflexivity|].
  apply andb_true_iff in H as [Hx Hv]. cbn [items_of existsb]. rewrite IH by exact Hv. f_equal.
  destruct f as [w|k|cp lw|chk| | |mn|ck], x; cbn [wf_fval] in Hx; try discriminate; try reflexivity.
  destruct cp; reflexivity.
Qed.

Lemma uses_prefix_is_rdlen_none c owner ty cls ttl s v :
  wf_value s v = true ->
  uses_prefix c (schema_record owner ty cls ttl s v) =
  match rdlen s (can_compress c) v with Ok None => true | _ => false end.
Proof.
  unfold wf_value. intros H. apply andb_true_iff in H as [H _]. apply andb_true_iff in H as [Hv Ht].
  unfold uses_prefix, schema_record; cbn [r_prefixed r_data orb]. rewrite is_rname_of by exact Hv.
  unfold rdlen, has_compressible. destruct (can_compress c && existsb is_compressible (s_fields s)); [reflexivity|].
  apply N.leb_le in Ht. destruct (N.ltb_spec 65535 (total_len s v)); [lia|reflexivity].
Qed.

Lemma wf_items_of fs : forall v, wf_fvals false fs v = true -> Forall wf_item (items_of fs v).
Proof.
  induction fs as [|f fs IH]; intros [|x v] H; cbn [wf_fvals] in H; try discriminate; [constructor|].
  apply andb_true_iff in H as [Hx Hv]. cbn [items_of]. constructor; [|apply IH; exact Hv].
  destruct f as [w|k|cp lw|chk| | |mn|ck], x; cbn [wf_fval] in Hx; try discriminate; try exact I.
  apply valid_relb_spec in Hx. destruct cp; exact Hx.
Qed.

Lemma skipn_skipn_local {A} (a b : nat) (l : list A) : skipn a (skipn b l) = skipn (b + a) l.
Proof. revert l. induction b as [|b IH]; intros l; [reflexivity|]. destruct l; [rewrite !skipn_nil; reflexivity|]. cbn [skipn Nat.add]. apply IH. Qed.

(* ---- octets stored at p, as C05 wants them: in the middle of the message *)
Lemma bytes_at_mid m p b : bytes_at m p b -> p + mlen b <= mlen m ->
  m = firstn (N.to_nat p) m ++ b ++ skipn (N.to_nat (p + mlen b)) m /\ len (firstn (N.to_nat p) m) = p.
Proof.
  intros H L. pose proof (slice_bytes_at m p b H) as S. unfold slice in S.
  replace (p + mlen b - p) with (mlen b) in S by lia.
  split.
  - rewrite <- (firstn_skipn (N.to_nat p) m) at 1. f_equal.
    rewrite <- (firstn_skipn (N.to_nat (mlen b)) (skipn (N.to_nat p) m)) at 1. rewrite S. f_equal.
    rewrite skipn_skipn_local. f_equal. lia.
  - unfold len, mlen in *. rewrite firstn_length. lia.
Qed.

(* ---- re-reading the items with the C05 field parsers *)
Lemma parse_fields_items m (ok : N -> Prop) lim :
  (forall i, ok i -> i < lim) ->
  forall fs v p, wf_fields fs = true -> wf_fvals false fs v = true ->
  ItemsIn m ok p (items_of fs v) lim -> lim <= mlen m ->
  exists v', parse_fields pname_dec fs m p lim = Ok (v', lim) /\ Forall2 fval_eq v' v.
Proof.
  intros OL. induction fs as [|f fs IH]; intros [|x v] p Hs Hv HI Lm; cbn [wf_fvals] in Hv; try discriminate.
  - cbn [items_of] in HI. inversion HI; subst. exists []. split; [reflexivity|constructor].
  - apply andb_true_iff in Hv as [Hx Hv]. cbn [items_of] in HI.
    assert (Hs' : wf_fields fs = true).
    { destruct fs as [|g fs']; [reflexivity|]. cbn [wf_fields] in Hs. apply andb_true_iff in Hs as [_ Hs]. exact Hs. }
    (* a field that is not a name *)
    assert (HB : item_of f x = RBytes (compose_field false f x) ->
                 BytesAtO m ok p (compose_field false f x) -> ItemsIn m ok (p + mlen (compose_field false f x)) (items_of fs v) lim ->
                 exists v', parse_fields pname_dec (f :: fs) m p lim = Ok (v', lim) /\ Forall2 fval_eq v' (x :: v)).
    { intros _ (Hb & _ & He) Hr. set (cf := compose_field false f x) in *.
      pose proof (ItemsIn_mono _ _ _ _ _ Hr) as Lr.
      destruct (bytes_at_mid m p cf Hb He) as (Em & Lp).
      assert (Hd : (delimited f = true /\ p + len cf <= lim) \/ lim = p + len cf).
      { destruct fs as [|g fs'].
        - right. destruct v; cbn [items_of] in Hr; inversion Hr; subst; reflexivity.
        - left. cbn [wf_fields] in Hs. apply andb_true_iff in Hs as [Hs _]. split; [exact Hs|exact Lr]. }
      pose proof (parse_field_at pname_dec pname_dec_complete f x m p lim _ _ Hx Em (eq_sym Lp) Lm Hd) as PF.
      destruct (IH v (p + mlen cf) Hs' Hv Hr Lm) as (v' & PR & F2).
      exists (x :: v'). cbn [parse_fields]. unfold cf, len, mlen in PF, PR |- *. rewrite PF. cbn [bind fst snd].
      rewrite PR. cbn [bind fst snd].
      split; [reflexivity|constructor; [apply fval_eq_refl|exact F2]]. }
    (* a name *)
    assert (HN : forall n e1, x = VName n -> (exists cp lw, f = FName cp lw) ->
                 NameAtO m ok p n e1 -> ItemsIn m ok e1 (items_of fs v) lim ->
                 exists v', parse_fields pname_dec (f :: fs) m p lim = Ok (v', lim) /\ Forall2 fval_eq v' (x :: v)).
    { intros n e1 -> (cp & lw & ->) Hn Hr.
      destruct (NameAtO_decode m ok lim p n e1 OL Hn) as (n' & D & Q).
      destruct (IH v e1 Hs' Hv Hr Lm) as (v' & PR & F2).
      exists (VName n' :: v'). cbn [parse_fields parse_field]. unfold pname_dec at 1. rewrite D. cbn [bind fst snd].
      rewrite PR. cbn [bind fst snd]. split; [reflexivity|]. constructor; [|exact F2].
      cbn [fval_eq]. apply name_eqb_spec. exact Q. }
    destruct f as [w|k|cp lw|chk| | |mn|ck], x; cbn [wf_fval] in Hx; try discriminate;
      try (cbn [item_of] in HI; inversion HI; subst; eapply HB; eauto; reflexivity).
    destruct cp; cbn [item_of] in HI; inversion HI; subst; eapply HN; eauto.
Qed.

(* the fixed-width fields are never shortened by compression *)
Lemma items_fixed_len m (ok : N -> Prop) : forall fs v p e, wf_fvals false fs v = true ->
  ItemsIn m ok p (items_of fs v) e -> p + fixed_len fs <= e.
Proof.
  induction fs as [|f fs IH]; intros [|x v] p e Hv HI; cbn [wf_fvals] in Hv; try discriminate.
  - cbn [fixed_len]. apply ItemsIn_mono in HI. lia.
  - apply andb_true_iff in Hv as [Hx Hv]. cbn [items_of] in HI.
    destruct f as [w|k|cp lw|chk| | |mn|ck], x; cbn [wf_fval] in Hx; try discriminate; cbn [fixed_len];
      try (lazymatch type of HI with ItemsIn _ _ _ (item_of (FName _ _) _ :: _) _ => fail | _ => idtac end;
           cbn [item_of] in HI; inversion HI; subst;
           match goal with Hr : ItemsIn _ _ _ (items_of fs v) _ |- _ => pose proof (IH v _ _ Hv Hr) end).
    + cbn [compose_field] in *. change (mlen (be w n)) with (len (be w n)) in *. rewrite len_be in *. lia.
    + cbn [compose_field] in *. apply andb_true_iff in Hx as [Hk _]. apply Nat.eqb_eq in Hk. unfold mlen in *. lia.
    + destruct cp; cbn [item_of] in HI; inversion HI; subst;
        match goal with Hr : ItemsIn _ _ _ (items_of fs v) _, Hn : NameAtO _ _ _ _ _ |- _ =>
          pose proof (IH v _ _ Hv Hr); apply NameAtO_end in Hn end; lia.
    + lia.
    + lia.
    + lia.
    + lia.
    + lia.
Qed.

(* ---- the record *)
Theorem schema_record_reread c owner ty cls ttl s v w w' :
  WG c ok12 w -> 12 <= mlen (w_buf w) ->
  wf_schema_full s = true -> s_post s = PNone -> wf_value s v = true ->
  name_ok owner -> ty < 65536 -> cls < 65536 -> ttl < 4294967296 ->
  compose_record c (schema_record owner ty cls ttl s v) w = WOk w' ->
  WG c ok12 w' /\
  exists r' e1 v',
    rd_record (w_buf w') (mlen (w_buf w)) (map shape_of (items_of (s_fields s) v)) = Ok (r', mlen (w_buf w')) /\
    record_eqb r' (schema_record owner ty cls ttl s v) = true /\
    (exists n', decode_name (w_buf w') (mlen (w_buf w)) (mlen (w_buf w')) = Ok (n', e1) /\ name_eqb n' owner = true) /\
    parse_rdata pname_dec s (w_buf w') (e1 + 10) (mlen (w_buf w')) = Ok v' /\ Forall2 fval_eq v' v.
Proof.
  intros HW L12 Hs Hp Hv Ho Ht Hc Hl H.
  pose proof Hv as Hv0. unfold wf_value in Hv0. apply andb_true_iff in Hv0 as [Hv0 _]. apply andb_true_iff in Hv0 as [Hvv Htot].
  assert (Wr : wf_r (schema_record owner ty cls ttl s v)).
  { unfold wf_r, schema_record; cbn [r_owner r_type r_class r_ttl r_data]. repeat split; auto; try apply Ho. apply wf_items_of. exact Hvv. }
  destruct (compose_record_ok c _ w w' HW L12 Wr H) as (HW' & HR & _). split; [exact HW'|].
  destruct (rd_record_ok _ _ _ _ HR) as (r' & RD & RE). cbn [schema_record r_data] in RD.
  destruct HR as (e1 & Hn & _ & Hi & L1 & L2 & _). cbn [schema_record r_owner r_data] in Hn, Hi.
  set (m := w_buf w') in *. set (e := mlen m) in *.
  destruct (NameAtO_decode m (okb e) e (mlen (w_buf w)) owner e1 (okb_lt e) Hn) as (n' & D & Q).
  unfold wf_schema_full in Hs. apply andb_true_iff in Hs as [Hsf Hk]. unfold wf_schema in Hsf.
  destruct (parse_fields_items m (okb e) e (okb_lt e) (s_fields s) v (e1 + 10) Hsf Hvv Hi ltac:(unfold e; lia)) as (v' & PF & F2).
  exists r', e1, v'. split; [exact RD|]. split; [exact RE|]. split; [exists n'; split; [exact D|exact Q]|]. split; [|exact F2].
  unfold parse_rdata, parse_type. rewrite Hp.
  pose proof (items_fixed_len m (okb e) (s_fields s) v (e1 + 10) e Hvv Hi) as Lfix.
  destruct (s_long s) as [k|].
  - apply N.leb_le in Hk.
    destruct (N.ltb_spec (e - (e1 + 10)) k); [lia|].
    destruct (N.ltb_spec 65535 (e - (e1 + 10) - k)); [lia|].
    rewrite PF. cbn [bind fst snd post_check]. rewrite N.eqb_refl. reflexivity.
  - rewrite PF. cbn [bind fst snd post_check]. rewrite N.eqb_refl. reflexivity.
Qed.

(* without embedded names the value comes back exactly *)
Definition not_vname (x : fval) : Prop := match x with VName _ => False | _ => True end.
Lemma fval_eq_exact v' v : Forall2 fval_eq v' v -> Forall not_vname v -> v' = v.
Proof.
  intros H. induction H as [|a b l' l Hab _ IH]; intros F; [reflexivity|].
  inversion F as [|? ? Hb Fl]; subst. rewrite (IH Fl). f_equal.
  destruct a, b; cbn [fval_eq not_vname] in *; try exact Hab; contradiction.
Qed.

(* ---- such a record is an admissible operation of a run *)
Lemma schema_record_wf_op owner ty cls ttl s v :
  wf_value s v = true -> name_ok owner -> ty < 65536 -> cls < 65536 -> ttl < 4294967296 ->
  wf_op_sized (OpR (schema_record owner ty cls ttl s v)).
Proof.
  intros Hv Ho Ht Hc Hl. unfold wf_value in Hv. apply andb_true_iff in Hv as [Hv _]. apply andb_true_iff in Hv as [Hvv Htot].
  split.
  - cbn [wf_op]. unfold wf_r, schema_record; cbn [r_owner r_type r_class r_ttl r_data].
    repeat split; auto; try apply Ho. apply wf_items_of. exact Hvv.
  - unfold schema_record; cbn [r_data]. rewrite rdata_ulen_of by exact Hvv.
    apply N.leb_le in Htot. unfold total_len in Htot. rewrite (wf_fvals_any _ _ _ Hvv false) in Htot. exact Htot.
Qed.

(* ---- every row of C05's table of record types *)
Lemma table_post_none : forallb (fun r : N * schema => match s_post (snd r) with PNone => true | _ => false end)
                          C05.Model.schema_table_regular = true.
Proof. reflexivity. Qed.

Lemma schema_of_post t s : C05.Model.schema_of t = Some s -> s_post s = PNone.
Proof.
  intros H. apply C05.Proofs.schema_of_cases in H as [H| ->]; [|reflexivity].
  pose proof table_post_none as T. rewrite forallb_forall in T. specialize (T (t, s) H). cbn [snd] in T.
  destruct (s_post s); [reflexivity|discriminate|discriminate].
Qed.

Theorem table_record_reread c owner cls ttl t s v w w' :
  WG c ok12 w -> 12 <= mlen (w_buf w) ->
  C05.Model.schema_of t = Some s -> wf_value s v = true ->
  name_ok owner -> t < 65536 -> cls < 65536 -> ttl < 4294967296 ->
  compose_record c (schema_record owner t cls ttl s v) w = WOk w' ->
  WG c ok12 w' /\
  exists r' e1 v',
    rd_record (w_buf w') (mlen (w_buf w)) (map shape_of (items_of (s_fields s) v)) = Ok (r', mlen (w_buf w')) /\
    record_eqb r' (schema_record owner t cls ttl s v) = true /\
    (exists n', decode_name (w_buf w') (mlen (w_buf w)) (mlen (w_buf w')) = Ok (n', e1) /\ name_eqb n' owner = true) /\
    parse_rdata pname_dec s (w_buf w') (e1 + 10) (mlen (w_buf w')) = Ok v' /\ Forall2 fval_eq v' v.
Proof.
  intros HW L Hs Hv Ho Ht Hc Hl H.
  eapply schema_record_reread; eauto; [eapply C05.Proofs.schema_of_wf|eapply schema_of_post]; eauto.
Qed.

(* ---- the driver entry point is the identity on schema records *)
Lemma items_wire_of fs : forall v, wf_fvals false fs v = true -> items_wire (items_of fs v) = compose_fields false fs v.
Proof.
  induction fs as [|f fs IH]; intros [|x v] H; cbn [wf_fvals] in H; try discriminate; [reflexivity|].
  apply andb_true_iff in H as [Hx Hv]. unfold items_wire in *. cbn [items_of map concat compose_fields]. rewrite IH by exact Hv. f_equal.
  destruct f as [w|k|cp lw|chk| | |mn|ck], x; cbn [wf_fval] in Hx; try discriminate; try reflexivity.
  destruct cp; reflexivity.
Qed.

Theorem typed_record_fixpoint owner t cls ttl s v :
  C05.Model.schema_of t = Some s -> wf_value s v = true ->
  c02_typed_record (schema_record owner t cls ttl s v) = (schema_record owner t cls ttl s v, true).
Proof.
  intros Hs Hv. unfold c02_typed_record, c02_schema_items. cbn [schema_record r_type r_data r_owner r_class r_ttl]. rewrite Hs.
  pose proof Hv as Hv0. unfold wf_value in Hv0. apply andb_true_iff in Hv0 as [Hv0 _]. apply andb_true_iff in Hv0 as [Hvv _].
  rewrite items_wire_of by exact Hvv.
  pose proof (parse_compose pname_dec pname_dec_complete s v [] [] (C05.Proofs.schema_of_wf t s Hs) Hv) as P.
  cbn [app] in P. rewrite app_nil_r in P. unfold compose in P. change (len []) with 0 in P. rewrite N.add_0_l in P.
  rewrite P. reflexivity.
Qed.

(* ================= round 4: schemas with a cross-field check ============== *)

Lemma fval_eq_cases a b : fval_eq a b -> a = b \/ exists n' n, a = VName n' /\ b = VName n.
Proof. destruct a, b; cbn [fval_eq]; intros H; try (left; exact H). right. eauto. Qed.

Lemma last_fval_eq r' r d : Forall2 fval_eq r' r -> fval_eq (last r' d) (last r d).
Proof.
  intros F. induction F as [|a b l' l Hab F IH]; [apply fval_eq_refl|].
  destruct F as [|a2 b2 l2' l2 H2 F2]; [exact Hab|]. exact IH.
Qed.

(* the cross-field checks do not look at name octets *)
Lemma post_check_fval_eq p v' v : Forall2 fval_eq v' v -> post_check p v' = post_check p v.
Proof.
  intros F. destruct p as [| |g]; [reflexivity| |].
  - (* PSubnet: [VNum; VNum; VNum; VBytes] *)
    cbn [post_check].
    destruct F as [|a1 b1 l1' l1 H1 F]; [reflexivity|].
    destruct (fval_eq_cases _ _ H1) as [->|(n' & n & -> & ->)]; [|reflexivity].
    destruct b1; try reflexivity.
    destruct F as [|a2 b2 l2' l2 H2 F]; [reflexivity|].
    destruct (fval_eq_cases _ _ H2) as [->|(n' & n2 & -> & ->)]; [|reflexivity].
    destruct b2; try reflexivity.
    destruct F as [|a3 b3 l3' l3 H3 F]; [reflexivity|].
    destruct (fval_eq_cases _ _ H3) as [->|(n' & n3 & -> & ->)]; [|reflexivity].
    destruct b3; try reflexivity.
    destruct F as [|a4 b4 l4' l4 H4 F]; [reflexivity|].
    destruct (fval_eq_cases _ _ H4) as [->|(n' & n4 & -> & ->)]; [|reflexivity].
    destruct b4; try reflexivity.
    destruct F as [|a5 b5 l5' l5 H5 F]; reflexivity.
  - (* PIpseckey: VNum :: VNum g' :: VNum alg :: rest, then the last of rest *)
    cbn [post_check].
    destruct F as [|a1 b1 l1' l1 H1 F]; [reflexivity|].
    destruct (fval_eq_cases _ _ H1) as [->|(n' & n & -> & ->)]; [|reflexivity].
    destruct b1; try reflexivity.
    destruct F as [|a2 b2 l2' l2 H2 F]; [reflexivity|].
    destruct (fval_eq_cases _ _ H2) as [->|(n' & n2 & -> & ->)]; [|reflexivity].
    destruct b2; try reflexivity.
    destruct F as [|a3 b3 l3' l3 H3 F]; [reflexivity|].
    destruct (fval_eq_cases _ _ H3) as [->|(n' & n3 & -> & ->)]; [|reflexivity].
    destruct b3; try reflexivity.
    destruct (negb (n0 =? g)); [reflexivity|].
    pose proof (last_fval_eq _ _ (VNum 0) F) as HL.
    destruct (fval_eq_cases _ _ HL) as [->|(n' & n4 & -> & ->)]; reflexivity.
Qed.

(* ---- the record, for every schema (with or without a cross-field check) *)
Theorem schema_record_reread_post c owner ty cls ttl s v w w' :
  WG c ok12 w -> 12 <= mlen (w_buf w) ->
  wf_schema_full s = true -> wf_value s v = true ->
  name_ok owner -> ty < 65536 -> cls < 65536 -> ttl < 4294967296 ->
  compose_record c (schema_record owner ty cls ttl s v) w = WOk w' ->
  WG c ok12 w' /\
  exists r' e1 v',
    rd_record (w_buf w') (mlen (w_buf w)) (map shape_of (items_of (s_fields s) v)) = Ok (r', mlen (w_buf w')) /\
    record_eqb r' (schema_record owner ty cls ttl s v) = true /\
    (exists n', decode_name (w_buf w') (mlen (w_buf w)) (mlen (w_buf w')) = Ok (n', e1) /\ name_eqb n' owner = true) /\
    parse_rdata pname_dec s (w_buf w') (e1 + 10) (mlen (w_buf w')) = Ok v' /\ Forall2 fval_eq v' v.
Proof.
  intros HW L12 Hs Hv Ho Ht Hc Hl H.
  pose proof Hv as Hv0. unfold wf_value in Hv0. apply andb_true_iff in Hv0 as [Hv0 Hpost]. apply andb_true_iff in Hv0 as [Hvv Htot].
  assert (Wr : wf_r (schema_record owner ty cls ttl s v)).
  { unfold wf_r, schema_record; cbn [r_owner r_type r_class r_ttl r_data]. repeat split; auto; try apply Ho. apply wf_items_of. exact Hvv. }
  destruct (compose_record_ok c _ w w' HW L12 Wr H) as (HW' & HR & _). split; [exact HW'|].
  destruct (rd_record_ok _ _ _ _ HR) as (r' & RD & RE). cbn [schema_record r_data] in RD.
  destruct HR as (e1 & Hn & _ & Hi & L1 & L2 & _). cbn [schema_record r_owner r_data] in Hn, Hi.
  set (m := w_buf w') in *. set (e := mlen m) in *.
  destruct (NameAtO_decode m (okb e) e (mlen (w_buf w)) owner e1 (okb_lt e) Hn) as (n' & D & Q).
  unfold wf_schema_full in Hs. apply andb_true_iff in Hs as [Hsf Hk]. unfold wf_schema in Hsf.
  destruct (parse_fields_items m (okb e) e (okb_lt e) (s_fields s) v (e1 + 10) Hsf Hvv Hi ltac:(unfold e; lia)) as (v' & PF & F2).
  exists r', e1, v'. split; [exact RD|]. split; [exact RE|]. split; [exists n'; split; [exact D|exact Q]|]. split; [|exact F2].
  unfold parse_rdata, parse_type.
  pose proof (items_fixed_len m (okb e) (s_fields s) v (e1 + 10) e Hvv Hi) as Lfix.
  assert (PC : post_check (s_post s) v' = None).
  { rewrite (post_check_fval_eq _ _ _ F2). unfold post_ok in Hpost. destruct (post_check (s_post s) v); [discriminate|reflexivity]. }
  destruct (s_long s) as [k|].
  - apply N.leb_le in Hk.
    destruct (N.ltb_spec (e - (e1 + 10)) k); [lia|].
    destruct (N.ltb_spec 65535 (e - (e1 + 10) - k)); [lia|].
    rewrite PF. cbn [bind fst snd]. rewrite N.eqb_refl, PC. reflexivity.
  - rewrite PF. cbn [bind fst snd]. rewrite N.eqb_refl, PC. reflexivity.
Qed.

(* ---- schemas without compressible names: the record data is in the message
   octet for octet, so ANY complete name decoder (the strict no-compression
   decoder of IPSECKEY included) reads the value back exactly *)
Lemma compose_items_flat c : forall items w w', existsb is_rname items = false ->
  compose_items c items w = WOk w' -> w_buf w' = w_buf w ++ items_wire items.
Proof.
  induction items as [|it items IH]; intros w w' Hn H; cbn [compose_items] in H.
  - injection H as <-. unfold items_wire. cbn [map concat]. rewrite app_nil_r. reflexivity.
  - cbn [existsb] in Hn. apply orb_false_iff in Hn as [Hi Hn]. unfold items_wire in *. cbn [map concat].
    destruct it as [b|n|n]; cbn [is_rname] in Hi; try discriminate.
    + destruct (append_slice c b w) as [w1| | |] eqn:E; cbn [wbind] in H; try discriminate.
      destruct (append_res c b w w1 E) as ((B & _) & _). rewrite (IH _ _ Hn H), B, <- app_assoc. reflexivity.
    + destruct (append_slice c (wire_abs n) w) as [w1| | |] eqn:E; cbn [wbind] in H; try discriminate.
      destruct (append_res c _ w w1 E) as ((B & _) & _). rewrite (IH _ _ Hn H), B, <- app_assoc. reflexivity.
Qed.

Theorem schema_record_reread_flat c owner ty cls ttl s v w w' :
  WG c ok12 w -> 12 <= mlen (w_buf w) ->
  wf_schema_full s = true -> wf_value s v = true -> has_compressible s = false ->
  name_ok owner -> ty < 65536 -> cls < 65536 -> ttl < 4294967296 ->
  compose_record c (schema_record owner ty cls ttl s v) w = WOk w' ->
  exists e1 pre,
    (exists n', decode_name (w_buf w') (mlen (w_buf w)) (mlen (w_buf w')) = Ok (n', e1) /\ name_eqb n' owner = true) /\
    w_buf w' = pre ++ compose s v /\ len pre = e1 + 10 /\ mlen (w_buf w') = e1 + 10 + len (compose s v) /\
    forall dec, dec_complete dec -> parse_rdata dec s (w_buf w') (e1 + 10) (mlen (w_buf w')) = Ok v.
Proof.
  intros HW L12 Hs Hv Hnc Ho Ht Hc Hl H.
  pose proof Hv as Hv0. unfold wf_value in Hv0. apply andb_true_iff in Hv0 as [Hv0 _]. apply andb_true_iff in Hv0 as [Hvv _].
  unfold compose_record in H. cbn [schema_record r_owner r_type r_class r_ttl] in H.
  destruct (acn c owner w) as [w1| | |] eqn:E1; cbn [wbind] in H; try discriminate.
  destruct (WG_acn c ok12 owner w w1 HW ltac:(unfold ok12; intros; lia) Ho E1) as (HW1 & HN & sfx1 & B1).
  destruct (append_slice c (be16 ty) w1) as [w2| | |] eqn:E2; cbn [wbind] in H; try discriminate.
  destruct (append_res c _ w1 w2 E2) as ((B2 & _) & _).
  destruct (append_slice c (be16 cls) w2) as [w3| | |] eqn:E3; cbn [wbind] in H; try discriminate.
  destruct (append_res c _ w2 w3 E3) as ((B3 & _) & _).
  destruct (append_slice c (be32 ttl) w3) as [w4| | |] eqn:E4; cbn [wbind] in H; try discriminate.
  destruct (append_res c _ w3 w4 E4) as ((B4 & _) & _).
  unfold compose_len_rdata in H.
  assert (UP : uses_prefix c (schema_record owner ty cls ttl s v) = false).
  { unfold uses_prefix, schema_record; cbn [r_prefixed r_data orb]. rewrite is_rname_of by exact Hvv.
    unfold has_compressible in Hnc. rewrite Hnc. apply andb_false_r. }
  rewrite UP in H. cbn [schema_record r_data] in H.
  destruct (rdlen_max <? rdata_ulen (items_of (s_fields s) v)); [discriminate|].
  destruct (append_slice c (be16 (rdata_ulen (items_of (s_fields s) v))) w4) as [w5| | |] eqn:E5; cbn [wbind] in H; try discriminate.
  destruct (append_res c _ w4 w5 E5) as ((B5 & _) & _).
  assert (NR : existsb is_rname (items_of (s_fields s) v) = false).
  { rewrite is_rname_of by exact Hvv. exact Hnc. }
  pose proof (compose_items_flat c _ w5 w' NR H) as B6. rewrite items_wire_of in B6 by exact Hvv.
  set (pre := w_buf w1 ++ be16 ty ++ be16 cls ++ be32 ttl ++ be16 (rdata_ulen (items_of (s_fields s) v))).
  assert (Bw : w_buf w' = pre ++ compose s v).
  { rewrite B6, B5, B4, B3, B2. unfold pre, compose. rewrite <- !app_assoc. reflexivity. }
  assert (Lp : len pre = mlen (w_buf w1) + 10).
  { unfold pre. rewrite !len_app. unfold be16, be32, len, mlen. cbn [length]. lia. }
  exists (mlen (w_buf w1)), pre.
  assert (Lw : mlen (w_buf w') = mlen (w_buf w1) + 10 + len (compose s v)).
  { rewrite Bw. change (mlen (pre ++ compose s v)) with (len (pre ++ compose s v)). rewrite len_app, Lp. reflexivity. }
  split; [|split; [exact Bw|split; [exact Lp|split; [exact Lw|]]]].
  - (* the owner *)
    assert (HN' : NameAtO (w_buf w') (fun i => ok12 i /\ i < mlen (w_buf w1)) (mlen (w_buf w)) owner (mlen (w_buf w1))).
    { apply NameAtO_below in HN. rewrite Bw. unfold pre. rewrite <- app_assoc.
      eapply NameAtO_agree; [apply agree_on_app|exact HN]. }
    assert (OL : forall i, (fun i => ok12 i /\ i < mlen (w_buf w1)) i -> i < mlen (w_buf w')) by (cbv beta; intros i [_ Hi]; lia).
    destruct (NameAtO_decode (w_buf w') _ (mlen (w_buf w')) _ owner _ OL HN') as (n' & D & Q).
    exists n'. split; [exact D|exact Q].
  - intros dec Hdec.
    pose proof (parse_compose dec Hdec s v pre [] Hs Hv) as P. rewrite app_nil_r in P.
    rewrite <- Bw in P. rewrite Lp in P. rewrite Lw. exact P.
Qed.

(* IPSECKEY as the library parses it (gateway type octet selects the row, the
   gateway name must be uncompressed) and the edns-client-subnet option row *)
Corollary ipseckey_record_reread c owner cls ttl g v w w' :
  WG c ok12 w -> 12 <= mlen (w_buf w) -> g <= 3 ->
  wf_value (C05.Model.ipseckey_schema g) v = true ->
  name_ok owner -> cls < 65536 -> ttl < 4294967296 ->
  compose_record c (schema_record owner 45 cls ttl (C05.Model.ipseckey_schema g) v) w = WOk w' ->
  exists e1, (exists n', decode_name (w_buf w') (mlen (w_buf w)) (mlen (w_buf w')) = Ok (n', e1) /\ name_eqb n' owner = true) /\
             C05.Model.ipseckey_parse (w_buf w') (e1 + 10) (mlen (w_buf w')) = Ok v.
Proof.
  intros HW L12 Hg Hv Ho Hc Hl H.
  assert (NC : has_compressible (C05.Model.ipseckey_schema g) = false).
  { unfold has_compressible, C05.Model.ipseckey_schema, C05.Model.gateway_fields; cbn [s_fields].
    destruct (g =? 1); [reflexivity|]. destruct (g =? 2); [reflexivity|]. destruct (g =? 3); reflexivity. }
  destruct (schema_record_reread_flat c owner 45 cls ttl _ v w w' HW L12 (C05.ProofsF.ipseckey_schema_wf g) Hv NC Ho ltac:(lia) Hc Hl H)
    as (e1 & pre & HO & Bw & Lp & Lw & _).
  exists e1. split; [exact HO|].
  destruct (C05.ProofsF.ipseckey_parse_compose g v pre [] Hg Hv) as (P & _).
  rewrite app_nil_r in P. rewrite <- Bw, Lp in P. rewrite Lw. exact P.
Qed.
