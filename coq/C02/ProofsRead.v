(* C02 proofs, part 9: the reader returns the items the layout describes. *)
From Coq Require Import NArith List Bool Lia ZArith.
From Coq Require Import ZifyN ZifyBool ZifyNat.
From DV Require Import Base.Outcome Base.Bytes Base.Names Base.PName C02.Gen C02.Model
  C02.ProofsBasic C02.ProofsRun C02.ProofsName C02.ProofsComp C02.ProofsStatic C02.ProofsHash C02.ProofsTop
  C02.ProofsLayout.
Import ListNotations.
Local Open Scope N_scope.
Ltac Zify.zify_post_hook ::= Z.div_mod_to_equations.

Lemma rd_u16_ok m p lim v : bytes_at m p (be16 v) -> v < 65536 -> p + 2 <= lim -> rd_u16 m p lim = Ok (v, p + 2).
Proof.
  intros Hb Hv Hl. unfold rd_u16. destruct (N.ltb_spec lim (p + 2)); [lia|].
  unfold be16 in Hb. apply bytes_at_cons in Hb as [H0 Hb]. apply bytes_at_cons in Hb as [H1 _].
  rewrite H0, H1. f_equal. f_equal. apply be16_roundtrip. exact Hv.
Qed.
Lemma rd_u32_ok m p lim v : bytes_at m p (be32 v) -> v < 4294967296 -> p + 4 <= lim -> rd_u32 m p lim = Ok (v, p + 4).
Proof.
  intros Hb Hv Hl. unfold rd_u32. destruct (N.ltb_spec lim (p + 4)); [lia|].
  unfold be32 in Hb. apply bytes_at_cons in Hb as [H0 Hb]. apply bytes_at_cons in Hb as [H1 Hb].
  apply bytes_at_cons in Hb as [H2 Hb]. apply bytes_at_cons in Hb as [H3 _].
  replace (p + 1 + 1) with (p + 2) in * by lia. replace (p + 2 + 1) with (p + 3) in * by lia.
  rewrite H0, H1, H2, H3. f_equal. f_equal. apply be32_roundtrip. exact Hv.
Qed.

Lemma bytes_eqb_refl b : bytes_eqb b b = true.
Proof. apply bytes_eqb_eq. reflexivity. Qed.

Lemma NameAtO_decode m (ok : N -> Prop) lim p n e1 :
  (forall i, ok i -> i < lim) -> NameAtO m ok p n e1 ->
  exists n', decode_name m p lim = Ok (n', e1) /\ name_eqb n' n = true.
Proof.
  intros OL (n' & H & C & [Hv Hw]). exists n'. split; [|apply name_eqb_spec; exact C].
  eapply decode_name_ok; eauto. split; [eapply NameIn_valid; eauto|]. rewrite (canon_wire_len _ _ C). exact Hw.
Qed.

Lemma rd_items_ok m (ok : N -> Prop) lim : (forall i, ok i -> i < lim) ->
  forall p items e, ItemsIn m ok p items e -> e <= lim -> p <= mlen m ->
  exists items', rd_items m p lim (map shape_of items) = Ok (items', e) /\ all2 item_eqb items' items = true.
Proof.
  intros OL p items e H.
  induction H as [p | p bs r e (Hb & Ho & He) Hr IH | p n e1 r e Hn Hr IH | p n e1 r e Hn Hr IH]; intros Le Lp.
  - exists []. split; reflexivity.
  - destruct (IH Le He) as (r' & E & A). pose proof (ItemsIn_end _ _ _ _ _ Hr He) as [X _].
    exists (RBytes bs :: r'). cbn [map shape_of rd_items].
    destruct (N.ltb_spec lim (p + mlen bs)); [lia|]. rewrite E. cbn [bind fst snd].
    rewrite (slice_bytes_at m p bs Hb). split; [reflexivity|].
    cbn [all2]. unfold item_eqb at 1. cbn [norm_item]. rewrite bytes_eqb_refl, A. reflexivity.
  - pose proof (NameAtO_end _ _ _ _ _ Hn) as [X Y].
    destruct (IH Le Y) as (r' & E & A). destruct (NameAtO_decode m ok lim p n e1 OL Hn) as (n' & D & Q).
    exists (RName n' :: r'). cbn [map shape_of rd_items]. rewrite D. cbn [bind fst snd]. rewrite E. cbn [bind fst snd].
    split; [reflexivity|]. cbn [all2]. unfold item_eqb at 1. cbn [norm_item]. rewrite Q, A. reflexivity.
  - pose proof (NameAtO_end _ _ _ _ _ Hn) as [X Y].
    destruct (IH Le Y) as (r' & E & A). destruct (NameAtO_decode m ok lim p n e1 OL Hn) as (n' & D & Q).
    exists (RName n' :: r'). cbn [map shape_of rd_items]. rewrite D. cbn [bind fst snd]. rewrite E. cbn [bind fst snd].
    split; [reflexivity|]. cbn [all2]. unfold item_eqb at 1. cbn [norm_item]. rewrite Q, A. reflexivity.
Qed.

Lemma okb_lt e i : okb e i -> i < e.
Proof. unfold okb. lia. Qed.

Lemma rd_question_ok m p q e : QAt m p q e ->
  exists q', rd_question m p = Ok (q', e) /\ question_eqb q' q = true.
Proof.
  intros (e1 & Hn & (Hb & _ & He) & -> & (_ & Ht & Hc) & _).
  rewrite !mlen_app in He. change (mlen (be16 (q_type q))) with 2 in He. change (mlen (be16 (q_class q))) with 2 in He.
  destruct (NameAtO_decode m (okb (e1 + 4)) (mlen m) p (q_name q) e1) as (n' & D & Q); auto.
  { intros i Hi. apply okb_lt in Hi. lia. }
  apply bytes_at_split in Hb as [Hb1 Hb2]. change (mlen (be16 (q_type q))) with 2 in Hb2.
  exists (mkQ n' (q_type q) (q_class q)). unfold rd_question. rewrite D. cbn [bind fst snd].
  rewrite (rd_u16_ok m e1 (mlen m) (q_type q) Hb1 Ht) by lia. cbn [bind fst snd].
  rewrite (rd_u16_ok m (e1 + 2) (mlen m) (q_class q) Hb2 Hc) by lia. cbn [bind fst snd].
  split; [f_equal; f_equal; lia|]. unfold question_eqb; cbn [q_name q_type q_class]. rewrite Q, !N.eqb_refl. reflexivity.
Qed.

Lemma rd_record_ok m p r e : RAt m p r e ->
  exists r', rd_record m p (map shape_of (r_data r)) = Ok (r', e) /\ record_eqb r' r = true.
Proof.
  intros (e1 & Hn & (Hb & _ & He) & Hi & L1 & L2 & (_ & Ht & Hc & Hl & _) & _).
  rewrite !mlen_app in He. change (mlen (be16 (r_type r))) with 2 in He. change (mlen (be16 (r_class r))) with 2 in He.
  change (mlen (be32 (r_ttl r))) with 4 in He. change (mlen (be16 (e - (e1 + 10)))) with 2 in He.
  pose proof (ItemsIn_end _ _ _ _ _ Hi ltac:(lia)) as [X Y].
  destruct (NameAtO_decode m (okb e) (mlen m) p (r_owner r) e1) as (n' & D & Q); auto.
  { intros i Hi'. apply okb_lt in Hi'. lia. }
  apply bytes_at_split in Hb as [Hb1 Hb]. change (mlen (be16 (r_type r))) with 2 in Hb.
  apply bytes_at_split in Hb as [Hb2 Hb]. change (mlen (be16 (r_class r))) with 2 in Hb.
  apply bytes_at_split in Hb as [Hb3 Hb4]. change (mlen (be32 (r_ttl r))) with 4 in Hb4.
  destruct (rd_items_ok m (okb e) e (okb_lt e) (e1 + 10) (r_data r) e Hi ltac:(lia) ltac:(lia)) as (items' & EI & A).
  exists (mkR n' (r_type r) (r_class r) (r_ttl r) false items'). unfold rd_record. rewrite D. cbn [bind fst snd].
  rewrite (rd_u16_ok m e1 (mlen m) (r_type r) Hb1 Ht) by lia. cbn [bind fst snd].
  rewrite (rd_u16_ok m (e1 + 2) (mlen m) (r_class r) Hb2 Hc) by lia. cbn [bind fst snd].
  rewrite (rd_u32_ok m (e1 + 2 + 2) (mlen m) (r_ttl r) Hb3 Hl) by lia. cbn [bind fst snd].
  rewrite (rd_u16_ok m (e1 + 2 + 2 + 4) (mlen m) (e - (e1 + 10)) Hb4 ltac:(lia)) by lia. cbn [bind fst snd].
  replace (e1 + 2 + 2 + 4 + 2 + (e - (e1 + 10))) with e by lia.
  replace (e1 + 2 + 2 + 4 + 2) with (e1 + 10) by lia.
  destruct (N.ltb_spec (mlen m) e); [lia|]. rewrite EI. cbn [bind fst snd]. rewrite N.eqb_refl.
  split; [reflexivity|]. unfold record_eqb; cbn [r_owner r_type r_class r_ttl r_data]. rewrite Q, !N.eqb_refl, A. reflexivity.
Qed.

Lemma rd_questions_ok m p qs e : QsAt m p qs e ->
  exists qs', rd_questions m p (length qs) = Ok (qs', e) /\ all2 question_eqb qs' qs = true.
Proof.
  induction 1 as [p|p q e1 qs e Hq _ (qs' & E & A)]; [exists []; split; reflexivity|].
  destruct (rd_question_ok m p q e1 Hq) as (q' & EQ & AQ).
  exists (q' :: qs'). cbn [length rd_questions]. rewrite EQ. cbn [bind fst snd]. rewrite E. cbn [bind fst snd].
  split; [reflexivity|]. cbn [all2]. rewrite AQ, A. reflexivity.
Qed.

Lemma rd_records_ok m p rs e : RsAt m p rs e ->
  exists rs', rd_records m p (shapes_of rs) = Ok (rs', e) /\ all2 record_eqb rs' rs = true.
Proof.
  induction 1 as [p|p r e1 rs e Hr _ (rs' & E & A)]; [exists []; split; reflexivity|].
  destruct (rd_record_ok m p r e1 Hr) as (r' & ER & AR).
  exists (r' :: rs'). unfold shapes_of. cbn [map rd_records]. rewrite ER. cbn [bind fst snd].
  fold (shapes_of rs). rewrite E. cbn [bind fst snd].
  split; [reflexivity|]. cbn [all2]. rewrite AR, A. reflexivity.
Qed.
