(* C02 proofs, part 7: statements in the property's words. *)
From Coq Require Import NArith List Bool Lia ZArith.
From Coq Require Import ZifyN ZifyBool ZifyNat.
From DV Require Import Base.Outcome Base.Bytes Base.Names Base.PName C02.Gen C02.Model
  C02.ProofsBasic C02.ProofsRun C02.ProofsName C02.ProofsComp C02.ProofsStatic C02.ProofsHash.
Import ListNotations.
Local Open Scope N_scope.
Ltac Zify.zify_post_hook ::= Z.div_mod_to_equations.

Lemma NameIn_valid m (ok : N -> Prop) seg p ls e : NameIn m ok seg p ls e -> Forall valid_label ls.
Proof. induction 1; constructor; auto. Qed.

Lemma canon_wire_len a b : canon a = canon b -> wire_len a = wire_len b.
Proof.
  revert b. induction a as [|x a IH]; intros [|y b] H; cbn [canon map] in H; try discriminate; [reflexivity|].
  injection H as H1 H2. cbn [wire_len]. rewrite (IH b H2).
  rewrite <- (lowers_length x), <- (lowers_length y), H1. reflexivity.
Qed.

(* a builder state whose compressor tables describe the buffer *)
Definition WGood (c : tcfg) (w : ws) : Prop :=
  TBound w /\ SInv c w /\ CInv (fun i => 12 <= i) w /\ 12 <= mlen (w_buf w).

(* name compression never changes which name a reader reconstructs: after
   append_compressed_name (any of the four kinds) the reader model, started
   where the name was written, returns a name equal to the pushed one under
   DNS name equality and stops exactly at the end of what was written *)
Theorem compression_transparent c n w w' :
  WGood c w -> name_ok n -> acn c n w = WOk w' ->
  WGood c w' /\
  exists n', decode_name (w_buf w') (mlen (w_buf w)) (mlen (w_buf w')) = Ok (n', mlen (w_buf w')) /\
             name_eqb n' n = true.
Proof.
  intros (TB & SI & CI & L) [Hv Hw] H.
  destruct (acn_ok c (fun i => 12 <= i) n w w' Hv TB SI CI ltac:(cbv beta; intros; lia) H) as (CI' & n' & Hc & HN).
  pose proof (acn_spec c n w TB SI) as HS. rewrite H in HS. destruct HS as (E & TB' & SI').
  split; [split; [exact TB'|split; [exact SI'|split; [exact CI'|pose proof (Ext_mlen _ _ _ _ E); lia]]]|].
  exists n'. split; [|apply name_eqb_spec; exact Hc].
  apply NameIn_below in HN.
  eapply (decode_name_ok (w_buf w') _ (mlen (w_buf w'))); [|exact HN|].
  - cbv beta. intros i [_ Hi]. exact Hi.
  - split; [eapply NameIn_valid; eauto|]. rewrite (canon_wire_len _ _ Hc). exact Hw.
Qed.

(* the tree compressor and the absence of a compressor reproduce the octets
   of the name exactly (labels are compared / copied octet by octet) *)
Theorem compression_exact c n w w' :
  (t_kind c = KNone \/ t_kind c = KTree) ->
  WGood c w -> name_ok n -> acn c n w = WOk w' ->
  decode_name (w_buf w') (mlen (w_buf w)) (mlen (w_buf w')) = Ok (n, mlen (w_buf w')).
Proof.
  intros K (TB & SI & (CS & CT & CH & CU) & L) [Hv Hw] H.
  assert (HN : NameIn (w_buf w') (fun i => 12 <= i) (mlen (w_buf w)) (mlen (w_buf w)) n (mlen (w_buf w'))).
  { unfold acn in H. destruct K as [K|K]; rewrite K in H.
    - apply append_slice_ok in H as [B _]. rewrite B, mlen_app.
      rewrite <- (app_nil_r (wire_abs n)) at 1. apply NameIn_wire; auto; cbv beta; intros; lia.
    - destruct (tree_acn_name c (fun i => 12 <= i) (mlen (w_buf w)) n w w' Hv TB ltac:(lia) ltac:(cbv beta; intros; lia)) as (N1 & _); auto.
      + intros k v Hin _. rewrite Forall_forall in CT. apply (CT (k, v) Hin).
      + intros k v Hin Hge. destruct TB as (_ & TT & _). rewrite Forall_forall in TT. specialize (TT _ Hin). cbn [snd] in TT. lia.
      + apply N1. lia. }
  apply NameIn_below in HN.
  eapply (decode_name_ok (w_buf w') _ (mlen (w_buf w'))); [|exact HN|split; auto].
  cbv beta. intros i [_ Hi]. exact Hi.
Qed.

(* the initial state is good *)
Lemma init_good c s0 : init c = Some s0 -> WGood c (b_w s0).
Proof.
  intros H. destruct (init_inv c s0 H) as ((TB & SI & L & _) & _).
  split; [exact TB|]. split; [exact SI|]. split; [|exact L].
  unfold init in H. destruct (append_slice c _ empty_ws) as [w| | |] eqn:E; try discriminate. injection H as <-.
  apply append_slice_ok in E as [_ (a1 & a2 & a3)]. cbn [b_w]. unfold CInv, HU. rewrite a1, a2, a3. cbn. repeat split; auto. intros; contradiction.
Qed.

(* non-vacuity: a case-folding reuse under the static compressor *)
Example transparent_example :
  let c := mkCfg None false KStatic in
  match init c with
  | Some s0 =>
      match acn c [[119;119]; [65]] (b_w s0) with
      | WOk w1 =>
          match acn c [[120]; [97]] w1 with
          | WOk w2 =>
              skipn 12 (w_buf w2) = [2;119;119;1;65;0; 1;120;192;15] /\
              decode_name (w_buf w2) 18 (mlen (w_buf w2)) = Ok ([[120]; [65]], 22)
          | _ => False
          end
      | _ => False
      end
  | None => False
  end.
Proof. vm_compute. split; reflexivity. Qed.
