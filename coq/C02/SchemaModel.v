(* C02 SchemaModel.v -- typed record data, through the C05 schema language.

   A value of a C05 schema as the record data items the builder model pushes:
   names flagged compressible by the schema go through the compressor (RName),
   other names are written in full (RNameU), every other field is its C05
   wire form.  c02_typed_record is the entry point of the correspondence
   driver: record data that the harness pushed through the library's own
   ComposeRecordData impls is re-derived here from its uncompressed octets with
   C05's parser and C05's table of record types, so which names are compressed
   is decided by the C05 schema, not by the case line. *)
From Coq Require Import NArith List Bool.
From DV Require Import C05.Schema.
From DV Require C05.Model.
From DV Require Import Base.Outcome Base.Bytes Base.Names Base.PName C02.Gen C02.Model.
Import ListNotations.
Local Open Scope N_scope.

Definition item_of (f : field) (x : fval) : ritem :=
  match f, x with
  | FName true _, VName n => RName n
  | FName false _, VName n => RNameU n
  | _, _ => RBytes (compose_field false f x)
  end.

Fixpoint items_of (fs : list field) (v : value) : list ritem :=
  match fs, v with
  | f :: fs', x :: v' => item_of f x :: items_of fs' v'
  | _, _ => []
  end.

Definition schema_record (owner : name) (ty cls ttl : N) (s : schema) (v : value) : rrecord :=
  mkR owner ty cls ttl false (items_of (s_fields s) v).

(* the uncompressed octets of record data items *)
Definition item_wire (it : ritem) : bytes :=
  match it with RBytes b => b | RName n => wire_abs n | RNameU n => wire_abs n end.
Definition items_wire (items : list ritem) : bytes := concat (map item_wire items).

Definition c02_schema_items (rt : N) (items : list ritem) : option (list ritem) :=
  match C05.Model.schema_of rt with
  | Some s =>
      let d := items_wire items in
      match parse_rdata pname_dec s d 0 (len d) with
      | Ok v => Some (items_of (s_fields s) v)
      | _ => None
      end
  | None => None
  end.

Definition c02_typed_record (r : rrecord) : rrecord * bool :=
  match c02_schema_items (r_type r) (r_data r) with
  | Some its => (mkR (r_owner r) (r_type r) (r_class r) (r_ttl r) false its, true)
  | None => (r, false)
  end.

(* ---- typed EDNS options: rows of C05's option table.
   A typed option is (code, value of option_schema code); OptBuilder::push
   writes code, compose_len and the composed data. *)
Definition opt_data (o : N * value) : bytes := compose (C05.Model.option_schema (fst o)) (snd o).
Definition raw_of_typed (o : N * value) : N * N * bytes := (fst o, len (opt_data o), opt_data o).
Definition typed_opts (l : list (N * value)) : list (N * N * bytes) := map raw_of_typed l.

(* driver entry point: an option the harness pushed as a value of the library's
   option type is re-derived from its octets by C05's row for the code *)
Definition c02_typed_option (o : N * N * bytes) : (N * N * bytes) * bool :=
  let '(code, dlen, data) := o in
  match C05.Model.c05_optdata code data with
  | Ok v => (raw_of_typed (code, v), true)
  | _ => (o, false)
  end.

(* ---- the question counter at its ceiling, by arithmetic.
   n root questions (type 1, class 1) pushed into a Vec without compressor:
   the count, the message length and whether push number n failed with
   CountOverflow.  ProofsCount.v proves that this is what the step model does. *)
Definition c02_count (n : N) : N * N * bool :=
  (N.min n count_max, header_len + 5 * N.min n count_max, count_max <? n).
