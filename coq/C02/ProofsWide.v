(* C02 proofs, round 5 widening: the state theorems (failed push unchanged,
   table / count / stream-length invariants, push limit) without the "no
   panic" premise and for states reached through the composite operations
   (conversions, builder(), start_answer / start_error / request_axfr); an
   accepted push only appends octets; the four count fields of the message
   octets are the numbers of accepted pushes. *)
From Coq Require Import NArith List Bool Lia ZArith.
From Coq Require Import ZifyN ZifyBool ZifyNat.
From DV Require Import Base.Outcome Base.Bytes Base.Names Base.PName C02.Gen C02.Model
  C02.ProofsBasic C02.ProofsClone C02.ProofsRun C02.ProofsName C02.ProofsComp C02.ProofsStatic C02.ProofsHash C02.ProofsTop
  C02.ProofsLayout C02.ProofsRead C02.ProofsWrite C02.ProofsBuild C02.ProofsTotal C02.ProofsX.
Import ListNotations.
Local Open Scope N_scope.

(* ------------------------------------------- without the "no panic" premise *)

Theorem reachable_inv_total c ops s0 s a ws :
  init c = Some s0 -> Forall wf_op_sized ops -> run_acc c s0 acc0 ops = (s, a, ws) ->
  TBound (b_w s) /\ CountInv s a /\
  (t_stream c = true ->
     stream_of s = be16 (mlen (msg_of s)) ++ msg_of s /\ mlen (msg_of s) <= 65535).
Proof.
  intros HI Hwf HR. exact (reachable_inv c ops s0 s a ws HI HR (run_total c ops s0 s a ws HI Hwf HR)).
Qed.

Theorem failed_push_unchanged_total c ops s0 s a ws o s' e :
  init c = Some s0 -> Forall wf_op_sized ops -> run_acc c s0 acc0 ops = (s, a, ws) ->
  step c s o = (s', RErr e) -> s' = s.
Proof.
  intros HI Hwf HR. exact (failed_push_unchanged c ops s0 s a ws o s' e HI HR (run_total c ops s0 s a ws HI Hwf HR)).
Qed.

Theorem push_ok_below_limit_total c ops s0 s a ws o s' l :
  init c = Some s0 -> Forall wf_op_sized ops -> run_acc c s0 acc0 ops = (s, a, ws) ->
  step c s o = (s', ROk) -> b_limit s = Some l -> mlen (w_buf (b_w s')) < l.
Proof.
  intros HI Hwf HR. exact (push_ok_below_limit c ops s0 s a ws o s' l HI HR (run_total c ops s0 s a ws HI Hwf HR)).
Qed.

(* ------------------------------ states reached through composite operations *)

Theorem xreachable_inv c xs s0 s a ws lost :
  init c = Some s0 -> Forall wf_xop xs -> xrun c s0 acc0 xs = (s, a, ws, lost) ->
  TBound (b_w s) /\ CountInv s a /\
  (t_stream c = true ->
     stream_of s = be16 (mlen (msg_of s)) ++ msg_of s /\ mlen (msg_of s) <= 65535).
Proof.
  intros HI Hwf HR. destruct (xrun_is_run c xs s0 acc0 s a ws lost HR Hwf) as (ops & ws' & R & W).
  exact (reachable_inv_total c ops s0 s a ws' HI W R).
Qed.

Theorem xfailed_push_unchanged c xs s0 s a ws lost o s' e :
  init c = Some s0 -> Forall wf_xop xs -> xrun c s0 acc0 xs = (s, a, ws, lost) ->
  step c s o = (s', RErr e) -> s' = s.
Proof.
  intros HI Hwf HR. destruct (xrun_is_run c xs s0 acc0 s a ws lost HR Hwf) as (ops & ws' & R & W).
  exact (failed_push_unchanged_total c ops s0 s a ws' o s' e HI W R).
Qed.

Theorem xpush_ok_below_limit c xs s0 s a ws lost o s' l :
  init c = Some s0 -> Forall wf_xop xs -> xrun c s0 acc0 xs = (s, a, ws, lost) ->
  step c s o = (s', ROk) -> b_limit s = Some l -> mlen (w_buf (b_w s')) < l.
Proof.
  intros HI Hwf HR. destruct (xrun_is_run c xs s0 acc0 s a ws lost HR Hwf) as (ops & ws' & R & W).
  exact (push_ok_below_limit_total c ops s0 s a ws' o s' l HI W R).
Qed.

(* ------------------------------------------ an accepted push only appends *)

Lemma step_ok_appends c s o s' :
  BW c s -> step c s o = (s', ROk) -> exists sfx, w_buf (b_w s') = w_buf (b_w s) ++ sfx.
Proof.
  intros HB HS.
  assert (X : forall f s1, WSpec c f -> mb_push c s f = (s1, ROk) -> exists sfx, w_buf (b_w s1) = w_buf (b_w s) ++ sfx).
  { intros f s1 Hf E. destruct (mb_push_cases c s f HB Hf) as [(w' & _ & E' & EX & _)|[(e' & E')|(x & E' & D)]];
      rewrite E' in E; try discriminate.
    - injection E as <-. destruct (upd_proj s w' (count_of s + 1)) as (P0 & _). rewrite P0.
      destruct EX as [B _ _ _ _]. exact B.
    - injection E as _ Ex. subst x. discriminate D. }
  unfold step in HS. destruct o as [q|rr|oh opts| | | |l0|h]; cbn [step_gen] in HS.
  - destruct (b_sec s =? 0); [|discriminate]. eapply X; [apply compose_question_spec|exact HS].
  - destruct (b_sec s =? 0); [discriminate|]. eapply X; [apply compose_record_spec|exact HS].
  - destruct (b_sec s =? 3); [|discriminate].
    destruct (mb_push c s (opt_writer c oh opts)) as [s1 r1] eqn:EM. cbn [fst snd] in HS.
    injection HS as <- ->. unfold set_hdr; cbn [b_w]. eapply X; [apply opt_writer_spec|exact EM].
  - destruct (b_sec s <? 3); discriminate.
  - destruct (b_sec s =? 0); [discriminate|]. destruct (rewind c s); discriminate.
  - destruct (rewind c s); discriminate.
  - discriminate.
  - discriminate.
Qed.

(* in every state an operation sequence reaches, an accepted push leaves all
   octets written so far where they are and only appends (the counts live in
   the first 12 octets, which msg_of overlays) *)
Theorem push_ok_appends c ops s0 s a ws o s' :
  init c = Some s0 -> Forall wf_op_sized ops -> run_acc c s0 acc0 ops = (s, a, ws) ->
  step c s o = (s', ROk) -> exists sfx, w_buf (b_w s') = w_buf (b_w s) ++ sfx.
Proof.
  intros HI Hwf HR HS. destruct (init_inv c s0 HI) as (HB0 & HC0).
  destruct (run_acc_inv c ops s0 acc0 s a ws HB0 HC0 HR (run_total c ops s0 s a ws HI Hwf HR)) as (HB & _).
  exact (step_ok_appends c s o s' HB HS).
Qed.

(* ---------------------- the count octets of the message = accepted pushes *)

Lemma msg_count_octets s :
  firstn 8 (skipn 4 (msg_of s)) = be16 (b_qd s) ++ be16 (b_an s) ++ be16 (b_ns s) ++ be16 (b_ar s).
Proof.
  unfold msg_of. set (A := firstn 4 (b_hdr s ++ [0; 0; 0; 0])).
  assert (LA : length A = 4%nat).
  { unfold A. rewrite firstn_length, app_length. cbn [length]. lia. }
  rewrite skipn_app, LA, (skipn_all2 A) by lia. rewrite Nat.sub_diag, skipn_O.
  unfold be16. cbn [app firstn]. reflexivity.
Qed.

(* octets 4..11 of the finished message (QDCOUNT, ANCOUNT, NSCOUNT, ARCOUNT)
   are the numbers of accepted pushes of each section, whatever mix of
   primitive and composite operations built the message *)
Theorem xmsg_counts_are_accepted c xs s0 s a ws lost :
  init c = Some s0 -> Forall wf_xop xs -> xrun c s0 acc0 xs = (s, a, ws, lost) ->
  firstn 8 (skipn 4 (msg_of s)) =
  be16 (N.of_nat (length (a_q a))) ++ be16 (N.of_nat (length (a_an a))) ++
  be16 (N.of_nat (length (a_ns a))) ++ be16 (N.of_nat (length (a_ar a))).
Proof.
  intros HI Hwf HR. destruct (xreachable_inv c xs s0 s a ws lost HI Hwf HR) as (_ & (Q & A1 & A2 & A3 & _) & _).
  rewrite msg_count_octets, Q, A1, A2, A3. reflexivity.
Qed.

Theorem msg_counts_are_accepted c ops s0 s a ws :
  init c = Some s0 -> Forall wf_op_sized ops -> run_acc c s0 acc0 ops = (s, a, ws) ->
  firstn 8 (skipn 4 (msg_of s)) =
  be16 (N.of_nat (length (a_q a))) ++ be16 (N.of_nat (length (a_an a))) ++
  be16 (N.of_nat (length (a_ns a))) ++ be16 (N.of_nat (length (a_ar a))).
Proof.
  intros HI Hwf HR. destruct (reachable_inv_total c ops s0 s a ws HI Hwf HR) as (_ & (Q & A1 & A2 & A3 & _) & _).
  rewrite msg_count_octets, Q, A1, A2, A3. reflexivity.
Qed.

(* ------------------------------------------------------------- non-vacuity *)

(* the first four operations of ex_ops (well formed: ex_ops_wf) on a stream
   target with the hash compressor: the next push fails on the limit, succeeds
   (appending 14 octets) once the limit is cleared; the count octets say one
   question, one answer *)
Lemma ex_prefix_wf : Forall wf_op_sized (firstn 4 ex_ops).
Proof.
  pose proof ex_ops_wf as H. rewrite <- (firstn_skipn 4 ex_ops) in H. apply Forall_app in H as [H _]. exact H.
Qed.

Example wide_example :
  let c := mkCfg None true KHash in
  let r := OpR (mkR ex_name1 1 1 5 false [RBytes [1;2;3;4]]) in
  match c02_run c (firstn 4 ex_ops) with
  | Some (s, a, ws) =>
      b_limit s = Some 50 /\ step c s r = (s, RErr E_LIMIT) /\
      (let s1 := fst (step c s (OpLimit None)) in
       snd (step c s1 r) = ROk /\
       w_buf (b_w (fst (step c s1 r))) = w_buf (b_w s1) ++ skipn (length (w_buf (b_w s1))) (w_buf (b_w (fst (step c s1 r)))) /\
       mlen (w_buf (b_w (fst (step c s1 r)))) = mlen (w_buf (b_w s1)) + 16) /\
      firstn 8 (skipn 4 (msg_of s)) = [0; 1; 0; 1; 0; 0; 0; 0]
  | None => False
  end.
Proof. vm_compute. repeat split; reflexivity. Qed.

(* a state reached through start_error (start_error_example of ProofsX.v): the
   record that does not fit fails and changes nothing, a push limit is obeyed,
   the count octets say two questions *)
Example xwide_example :
  let c := mkCfg (Some 38) false KStatic in
  let q1 := mkQ [[101;120]; [99;111;109]] 1 1 in
  let q2 := mkQ [[119;119;119]; [101;120]; [99;111;109]] 28 1 in
  let r := OpR (mkR [[101;120]; [99;111;109]] 1 1 5 false [RBytes [1;2;3;4]]) in
  match c02_xrun c [XPrim (OpHdr (sets_of_fields (fields_of_octets [0; 0; 4; 160]))); XStart 1 4660 2 true 3 [q1; q2; q1]] with
  | Some (s, a, ws, lost) =>
      step c s r = (s, RErr E_SHORTBUF) /\
      firstn 8 (skipn 4 (msg_of s)) = [0; 2; 0; 0; 0; 0; 0; 0] /\ length (a_q a) = 2%nat
  | None => False
  end.
Proof. vm_compute. repeat split; reflexivity. Qed.
