(* C02 proofs, part 1b: OptBuilder::clone_from transcribed step by step
   (Model.compose_opt_clone) does to a push exactly what the setter closure
   with the same field values does (Model.compose_opt): the same octets and
   writer state when the record fits, a failed push otherwise. *)
From Coq Require Import NArith List Bool Lia ZArith.
From Coq Require Import ZifyN ZifyBool ZifyNat.
From DV Require Import Base.Outcome Base.Bytes Base.Names Base.PName C02.Gen C02.Model C02.ProofsBasic.
Import ListNotations.
Local Open Scope N_scope.
Ltac Zify.zify_post_hook ::= Z.div_mod_to_equations.

(* does a buffer of n message octets fit the target *)
Definition fits (c : tcfg) (n : N) : bool :=
  match t_cap c with
  | Some k => n + (if t_stream c then stream_prefix_len else 0) <=? k
  | None => true
  end && (if t_stream c then n <=? shim_max else true).

Lemma fits_mono c n m : m <= n -> fits c n = true -> fits c m = true.
Proof.
  unfold fits. intros L H. apply andb_true_iff in H as [H1 H2]. apply andb_true_iff. split.
  - destruct (t_cap c); [|reflexivity]. apply N.leb_le in H1. apply N.leb_le. lia.
  - destruct (t_stream c); [|reflexivity]. apply N.leb_le in H2. apply N.leb_le. lia.
Qed.

(* w' is w with rec appended (and the stream length octets brought up to date) *)
Definition Res (c : tcfg) (w : ws) (rec : bytes) (w' : ws) : Prop :=
  w_buf w' = w_buf w ++ rec /\
  w_shim w' = (if t_stream c then mlen (w_buf w ++ rec) else w_shim w) /\
  w_static w' = w_static w /\ w_tree w' = w_tree w /\ w_hash w' = w_hash w.

Lemma Res_eq c w rec a b : Res c w rec a -> Res c w rec b -> a = b.
Proof.
  intros (a1 & a2 & a3 & a4 & a5) (b1 & b2 & b3 & b4 & b5).
  destruct a as [ab ash ast atr aha], b as [bb bsh bst btr bha]; cbn [w_buf w_shim w_static w_tree w_hash] in *. congruence.
Qed.

Lemma Res_trans c w r1 w1 r2 w2 : Res c w r1 w1 -> Res c w1 r2 w2 -> Res c w (r1 ++ r2) w2.
Proof.
  intros (a1 & a2 & a3 & a4 & a5) (b1 & b2 & b3 & b4 & b5). unfold Res.
  rewrite b1, a1, <- app_assoc. split; [reflexivity|]. split; [|repeat split; congruence].
  rewrite b2, a1, a2, <- app_assoc. destruct (t_stream c); reflexivity.
Qed.

Lemma Res_nil c w : SInv c w -> Res c w [] w.
Proof.
  intros SI. unfold Res. rewrite app_nil_r. repeat split; auto.
  destruct (t_stream c) eqn:St; [apply SI; exact St|reflexivity].
Qed.

(* overwriting octets of the appended part *)
Lemma Res_set_buf c w rec rec' w1 :
  Res c w rec w1 -> length rec' = length rec -> Res c w rec' (set_buf w1 (w_buf w ++ rec')).
Proof.
  intros (a1 & a2 & a3 & a4 & a5) L. unfold Res, set_buf; cbn [w_buf w_shim w_static w_tree w_hash].
  split; [reflexivity|]. split; [|auto]. rewrite a2. destruct (t_stream c); [|reflexivity].
  unfold mlen. rewrite !app_length, L. reflexivity.
Qed.

Lemma append_res c s w w' : append_slice c s w = WOk w' ->
  Res c w s w' /\ fits c (mlen (w_buf w) + mlen s) = true.
Proof.
  unfold append_slice, fits, inner_len, Res. intros H.
  destruct (t_cap c) as [k|].
  - destruct (N.leb_spec (mlen (w_buf w) + (if t_stream c then stream_prefix_len else 0) + mlen s) k) as [L|L]; cbn [negb] in H; [|discriminate].
    destruct (t_stream c).
    + unfold set_buf in H; cbn [w_buf] in H. rewrite mlen_app in H.
      destruct (N.leb_spec (mlen (w_buf w) + mlen s) shim_max) as [L2|L2]; [|discriminate]. injection H as <-.
      split; [unfold Res, set_shim, set_buf; cbn; rewrite mlen_app; auto|].
      apply andb_true_iff. split; first [reflexivity|apply N.leb_le; lia].
    + injection H as <-. split; [unfold Res, set_buf; cbn; auto|]. apply andb_true_iff. split; first [reflexivity|apply N.leb_le; lia].
  - cbn [negb] in H. destruct (t_stream c).
    + unfold set_buf in H; cbn [w_buf] in H. rewrite mlen_app in H.
      destruct (N.leb_spec (mlen (w_buf w) + mlen s) shim_max) as [L2|L2]; [|discriminate]. injection H as <-.
      split; [unfold Res, set_shim, set_buf; cbn; rewrite mlen_app; auto|]. cbn [andb]. first [reflexivity|apply N.leb_le; lia].
    + injection H as <-. split; [unfold Res, set_buf; cbn; auto|reflexivity].
Qed.

Lemma append_fits c s w : fits c (mlen (w_buf w) + mlen s) = true -> exists w', append_slice c s w = WOk w'.
Proof.
  unfold append_slice, fits, inner_len. intros H. apply andb_true_iff in H as [H1 H2].
  assert (E : negb (match t_cap c with Some n => mlen (w_buf w) + (if t_stream c then stream_prefix_len else 0) + mlen s <=? n | None => true end) = false).
  { destruct (t_cap c); [|reflexivity]. apply N.leb_le in H1. apply negb_false_iff, N.leb_le. lia. }
  rewrite E. destruct (t_stream c); [|eauto].
  unfold set_buf; cbn [w_buf]. rewrite mlen_app. rewrite H2. eauto.
Qed.

Lemma append_nodead c s w : match append_slice c s w with WPanic _ | WFuel => False | _ => True end.
Proof. unfold append_slice. destruct (negb _); [exact I|]. destruct (t_stream c); [destruct (_ <=? _)|]; exact I. Qed.

(* a chain of appends: succeeds with the concatenation iff the total fits *)
Fixpoint appends (c : tcfg) (l : list bytes) (w : ws) : wres :=
  match l with [] => WOk w | s :: r => wbind (append_slice c s w) (appends c r) end.

Lemma appends_char c : forall l w, SInv c w ->
  (fits c (mlen (w_buf w) + mlen (concat l)) = true -> exists w', appends c l w = WOk w' /\ Res c w (concat l) w') /\
  (forall w', appends c l w = WOk w' -> Res c w (concat l) w' /\ (l <> [] -> Forall (fun s => s <> []) l \/ True) ) /\
  (match appends c l w with WPanic _ | WFuel => False | _ => True end).
Proof.
  induction l as [|s r IH]; intros w SI; cbn [appends concat].
  - split; [intros _; exists w; split; [reflexivity|apply Res_nil; exact SI]|]. split; [|exact I].
    intros w' H. injection H as <-. split; [apply Res_nil; exact SI|auto].
  - split; [|split].
    + intros F. rewrite mlen_app in F.
      destruct (append_fits c s w) as (w1 & E1); [eapply fits_mono; [|exact F]; lia|].
      rewrite E1. cbn [wbind]. destruct (append_res c s w w1 E1) as (R1 & _).
      assert (SI1 : SInv c w1) by (intros St; eapply append_slice_sinv; eauto).
      destruct (IH w1 SI1) as (A & _). destruct A as (w2 & E2 & R2).
      { destruct R1 as (B1 & _). rewrite B1, mlen_app. rewrite <- N.add_assoc. exact F. }
      exists w2. split; [exact E2|eapply Res_trans; eauto].
    + intros w' H. destruct (append_slice c s w) as [w1| | |] eqn:E1; cbn [wbind] in H; try discriminate.
      destruct (append_res c s w w1 E1) as (R1 & _).
      assert (SI1 : SInv c w1) by (intros St; eapply append_slice_sinv; eauto).
      destruct (IH w1 SI1) as (_ & B & _). destruct (B w' H) as (R2 & _).
      split; [eapply Res_trans; eauto|auto].
    + pose proof (append_nodead c s w) as ND. destruct (append_slice c s w) as [w1| | |] eqn:E1; cbn [wbind]; auto.
      assert (SI1 : SInv c w1) by (intros St; eapply append_slice_sinv; eauto).
      destruct (IH w1 SI1) as (_ & _ & C). exact C.
Qed.

Lemma appends_ok_fits c : forall l w w', appends c l w = WOk w' -> l <> [] ->
  fits c (mlen (w_buf w')) = true.
Proof.
  induction l as [|s r IH]; intros w w' H Hn; [congruence|]. cbn [appends] in H.
  destruct (append_slice c s w) as [w1| | |] eqn:E1; cbn [wbind] in H; try discriminate.
  destruct r as [|s2 r2].
  - cbn [appends] in H. injection H as <-. destruct (append_res c s w w1 E1) as ((B & _) & F). rewrite B, mlen_app. exact F.
  - eapply IH; eauto. discriminate.
Qed.

(* compose_opts is such a chain *)
Fixpoint opts_chunks (opts : list (N * N * bytes)) : list bytes :=
  match opts with [] => [] | (code, dlen, data) :: r => be16 code :: be16 dlen :: data :: opts_chunks r end.
Lemma opts_chunks_concat opts : concat (opts_chunks opts) = opts_bytes opts.
Proof. induction opts as [|[[code dlen] data] r IH]; [reflexivity|]. cbn [opts_chunks concat opts_bytes]. rewrite IH. reflexivity. Qed.
Lemma compose_opts_appends c opts : forall w, compose_opts c opts w = appends c (opts_chunks opts) w.
Proof.
  induction opts as [|[[code dlen] data] r IH]; intros w; [reflexivity|]. cbn [compose_opts opts_chunks appends].
  destruct (append_slice c (be16 code) w) as [w1| | |]; cbn [wbind]; auto.
  destruct (append_slice c (be16 dlen) w1) as [w2| | |]; cbn [wbind]; auto.
  destruct (append_slice c data w2) as [w3| | |]; cbn [wbind]; auto.
Qed.

(* the record an OPT push writes *)
Definition opt_rec (oh : opt_hdr) (opts : list (N * N * bytes)) : bytes :=
  [0] ++ be16 41 ++ be16 (oh_udp oh) ++ (be16 (oh_ext oh * 256 + oh_ver oh) ++ be16 (oh_flags oh)) ++
  be16 (mlen (opts_bytes opts)) ++ opts_bytes opts.

Lemma opt_rec_mlen oh opts : mlen (opt_rec oh opts) = 11 + mlen (opts_bytes opts).
Proof. unfold opt_rec. rewrite !mlen_app. unfold be16, mlen at 1 2 3 4 5 6. cbn [length]. lia. Qed.

Definition NoDeadW (r : wres) : Prop := match r with WPanic _ | WFuel => False | _ => True end.

Lemma patch16_tail a r k v : k + 2 <= mlen r -> patch16 (mlen a + k) v (a ++ r) = a ++ patch16 k v r.
Proof. intros H. rewrite patch16_app by lia. replace (mlen a + k - mlen a) with k by lia. reflexivity. Qed.
Lemma p16_3 v a b d x y r : patch16 3 v (a :: b :: d :: x :: y :: r) = a :: b :: d :: v / 256 :: v mod 256 :: r.
Proof. reflexivity. Qed.
Lemma p16_5 v a b d e f x y r : patch16 5 v (a :: b :: d :: e :: f :: x :: y :: r) = a :: b :: d :: e :: f :: v / 256 :: v mod 256 :: r.
Proof. reflexivity. Qed.
Lemma p16_7 v a b d e f g h x y r : patch16 7 v (a :: b :: d :: e :: f :: g :: h :: x :: y :: r) = a :: b :: d :: e :: f :: g :: h :: v / 256 :: v mod 256 :: r.
Proof. reflexivity. Qed.
Lemma p16_9 v a b d e f g h i j x y r : patch16 9 v (a :: b :: d :: e :: f :: g :: h :: i :: j :: x :: y :: r) = a :: b :: d :: e :: f :: g :: h :: i :: j :: v / 256 :: v mod 256 :: r.
Proof. reflexivity. Qed.

(* ---- the setter closure *)
Lemma compose_opt_char c oh opts w :
  TBound w -> SInv c w -> mlen (opts_bytes opts) <= 65535 ->
  (fits c (mlen (w_buf w) + mlen (opt_rec oh opts)) = true ->
     exists w', compose_opt c oh opts w = WOk w' /\ Res c w (opt_rec oh opts) w') /\
  (forall w', compose_opt c oh opts w = WOk w' -> fits c (mlen (w_buf w) + mlen (opt_rec oh opts)) = true) /\
  NoDeadW (compose_opt c oh opts w).
Proof.
  intros TB SI Ld. rewrite opt_rec_mlen. unfold compose_opt.
  set (st := mlen (w_buf w)).
  (* the first two appends *)
  assert (Hhead : forall w2, appends c [opt_header_default; [0; 0]] w = WOk w2 ->
            Res c w [0; 0; 41; 0; 0; 0; 0; 0; 0; 0; 0] w2 /\ TBound w2 /\ SInv c w2 /\ Ext c st w w2).
  { intros w2 H. destruct (appends_char c [opt_header_default; [0; 0]] w SI) as (_ & B & _).
    destruct (B w2 H) as (R & _). split; [exact R|]. cbn [appends] in H.
    pose proof (append_slice_spec c opt_header_default w TB SI) as S1.
    destruct (append_slice c opt_header_default w) as [w1| | |]; cbn [wbind] in H; try discriminate.
    destruct S1 as (E1 & TB1 & SI1). pose proof (append_slice_spec c [0; 0] w1 TB1 SI1) as S2.
    destruct (append_slice c [0; 0] w1) as [w2'| | |]; cbn [wbind] in H; try discriminate. injection H as <-.
    destruct S2 as (E2 & TB2 & SI2). split; [exact TB2|]. split; [exact SI2|].
    eapply Ext_trans; eauto. apply Ext_mlen in E1. exact E1. }
  assert (Hunf : forall k, wbind (append_slice c opt_header_default w) (fun w1 => wbind (append_slice c [0; 0] w1) k) =
                      wbind (appends c [opt_header_default; [0; 0]] w) k).
  { intros k. cbn [appends]. destruct (append_slice c opt_header_default w) as [w1| | |]; cbn [wbind]; auto.
    destruct (append_slice c [0; 0] w1) as [w2| | |]; cbn [wbind]; auto. }
  rewrite Hunf. clear Hunf.
  destruct (appends_char c [opt_header_default; [0; 0]] w SI) as (A1 & _ & N1).
  change (mlen (concat [opt_header_default; [0; 0]])) with 11 in A1.
  (* after the head: patches, options, final patch *)
  assert (Hbody : forall w2, appends c [opt_header_default; [0; 0]] w = WOk w2 ->
     let w3 := set_buf w2 (patch16 (st + 7) (oh_flags oh) (patch16 (st + 5) (oh_ext oh * 256 + oh_ver oh) (patch16 (st + 3) (oh_udp oh) (w_buf w2)))) in
     Res c w [0; 0; 41; oh_udp oh / 256; oh_udp oh mod 256; (oh_ext oh * 256 + oh_ver oh) / 256; (oh_ext oh * 256 + oh_ver oh) mod 256;
              oh_flags oh / 256; oh_flags oh mod 256; 0; 0] w3 /\ TBound w3 /\ SInv c w3 /\ Ext c st w w3 /\ mlen (w_buf w3) = st + 11).
  { intros w2 H w3. destruct (Hhead w2 H) as (R2 & TB2 & SI2 & E2). pose proof R2 as (B2 & _).
    assert (L2 : mlen (w_buf w2) = st + 11) by (rewrite B2, mlen_app; reflexivity).
    destruct (opt_patches c w w2 (oh_udp oh) (oh_ext oh * 256 + oh_ver oh) (oh_flags oh) TB2 SI2 E2 L2) as (E3 & TB3 & SI3 & L3).
    fold st in E3, TB3, SI3, L3. fold w3 in E3, TB3, SI3, L3.
    split; [|split; [exact TB3|split; [exact SI3|split; [exact E3|lia]]]].
    assert (Bp : w_buf w3 = w_buf w ++ [0; 0; 41; oh_udp oh / 256; oh_udp oh mod 256; (oh_ext oh * 256 + oh_ver oh) / 256; (oh_ext oh * 256 + oh_ver oh) mod 256;
              oh_flags oh / 256; oh_flags oh mod 256; 0; 0]).
    { subst w3. unfold set_buf; cbn [w_buf]. rewrite B2. unfold st.
      rewrite patch16_tail by (unfold mlen; cbn [length]; lia). rewrite p16_3.
      rewrite patch16_tail by (unfold mlen; cbn [length]; lia). rewrite p16_5.
      rewrite patch16_tail by (unfold mlen; cbn [length]; lia). rewrite p16_7. reflexivity. }
    pose proof (Res_set_buf c w _ [0; 0; 41; oh_udp oh / 256; oh_udp oh mod 256; (oh_ext oh * 256 + oh_ver oh) / 256; (oh_ext oh * 256 + oh_ver oh) mod 256;
              oh_flags oh / 256; oh_flags oh mod 256; 0; 0] w2 R2 eq_refl) as R3.
    rewrite <- Bp in R3. subst w3. unfold set_buf in *. cbn [w_buf w_shim w_static w_tree w_hash] in *. exact R3. }
  split; [|split].
  - (* fits: success with the expected state *)
    intros F. destruct A1 as (w2 & E2 & _); [eapply fits_mono; [|exact F]; lia|]. rewrite E2. cbn [wbind].
    destruct (Hbody w2 E2) as (R3 & TB3 & SI3 & E3 & L3).
    set (w3 := set_buf w2 _) in *.
    rewrite compose_opts_appends.
    destruct (appends_char c (opts_chunks opts) w3 SI3) as (A4 & _). rewrite opts_chunks_concat in A4.
    destruct A4 as (w4 & E4 & R4); [rewrite L3; replace (st + 11 + mlen (opts_bytes opts)) with (st + (11 + mlen (opts_bytes opts))) by lia; exact F|].
    rewrite E4. pose proof R4 as (B4 & _).
    assert (L4 : mlen (w_buf w4) = st + 11 + mlen (opts_bytes opts)) by (rewrite B4, mlen_app, L3; reflexivity).
    assert (L2 : mlen (w_buf w2) = st + 11) by (destruct (Hhead w2 E2) as ((B2 & _) & _); rewrite B2, mlen_app; reflexivity).
    rewrite L2, L4. replace (st + 11 + mlen (opts_bytes opts) - (st + 11)) with (mlen (opts_bytes opts)) by lia.
    destruct (N.leb_spec (mlen (opts_bytes opts)) rdlen_max) as [LL|LL]; [|unfold rdlen_max in LL; lia].
    eexists. split; [reflexivity|].
    pose proof (Res_trans c w _ w3 _ w4 R3 R4) as R34.
    replace (st + 11 - 2) with (st + 9) by lia.
    assert (Bq : patch16 (st + 9) (mlen (opts_bytes opts)) (w_buf w4) = w_buf w ++ opt_rec oh opts).
    { destruct R34 as (B34 & _). rewrite B34. unfold st.
      rewrite patch16_tail by (rewrite mlen_app; unfold mlen at 1; cbn [length]; lia).
      cbn [app]. rewrite p16_9. unfold opt_rec, be16. reflexivity. }
    rewrite Bq. apply (Res_set_buf c w _ (opt_rec oh opts) w4 R34).
    unfold opt_rec, be16. rewrite !app_length. cbn [length]. lia.
  - (* success implies the total fits *)
    intros w' H. destruct (appends c [opt_header_default; [0; 0]] w) as [w2| | |] eqn:E2; cbn [wbind] in H; try discriminate.
    destruct (Hbody w2 eq_refl) as (R3 & TB3 & SI3 & E3 & L3). set (w3 := set_buf w2 _) in *.
    rewrite compose_opts_appends in H.
    destruct (appends c (opts_chunks opts) w3) as [w4|w4| |] eqn:E4; try discriminate.
    + destruct (appends_char c (opts_chunks opts) w3 SI3) as (_ & B & _). destruct (B w4 E4) as ((B4 & _) & _).
      rewrite opts_chunks_concat in B4.
      replace (st + (11 + mlen (opts_bytes opts))) with (mlen (w_buf w4)) by (rewrite B4, mlen_app, L3; lia).
      destruct (opts_chunks opts) as [|x xs] eqn:EO.
      * cbn [appends] in E4. injection E4 as <-. rewrite L3.
        pose proof (appends_ok_fits c _ w w2 E2 ltac:(discriminate)) as F2.
        destruct (Hhead w2 eq_refl) as ((B2 & _) & _). rewrite B2, mlen_app in F2. exact F2.
      * eapply appends_ok_fits; [exact E4|discriminate].
    + destruct (truncate c (mlen (w_buf w2)) w4); discriminate.
  - (* never a panic *)
    destruct (appends c [opt_header_default; [0; 0]] w) as [w2| | |] eqn:E2; cbn [wbind]; auto.
    destruct (Hbody w2 eq_refl) as (R3 & TB3 & SI3 & E3 & L3). set (w3 := set_buf w2 _) in *.
    assert (L2 : mlen (w_buf w2) = mlen (w_buf w3)) by (destruct (Hhead w2 eq_refl) as ((B2 & _) & _); rewrite L3, B2, mlen_app; reflexivity).
    rewrite compose_opts_appends.
    destruct (appends_char c (opts_chunks opts) w3 SI3) as (_ & _ & N4).
    pose proof (compose_opts_spec c opts w3 TB3 SI3) as S4. rewrite compose_opts_appends in S4.
    destruct (appends c (opts_chunks opts) w3) as [w4|w4| |]; auto.
    + destruct S4 as (E4 & _). destruct (_ <=? rdlen_max); [exact I|].
      rewrite L2, (truncate_back c w3 w4 TB3 SI3 E4). exact I.
    + rewrite L2, (truncate_back c w3 w4 TB3 SI3 S4). exact I.
Qed.

(* a failed chain of appends: the buffer only grew, the tables are untouched *)
Lemma appends_err c : forall l w x, appends c l w = WErr x ->
  (exists sfx, w_buf x = w_buf w ++ sfx) /\ same_tables w x /\ (t_stream c = false -> w_shim x = w_shim w).
Proof.
  induction l as [|s r IH]; intros w x H; cbn [appends] in H; [discriminate|].
  pose proof (append_slice_tables c s w) as T. pose proof (append_slice_shim c s w) as Sh.
  destruct (append_slice c s w) as [w1|w1| |]; cbn [wbind] in H; try discriminate.
  - destruct (IH w1 x H) as ((sfx2 & B2) & (a1 & a2 & a3) & S2). destruct T as ((b1 & b2 & b3) & sfx1 & B1).
    split; [exists (sfx1 ++ sfx2); rewrite B2, B1, app_assoc; reflexivity|].
    split; [unfold same_tables; repeat split; congruence|]. intros St. rewrite S2, Sh; auto.
  - injection H as <-. destruct T as (T1 & T2). auto.
Qed.

Lemma same_tables_ext c p w x :
  (exists sfx, w_buf x = w_buf w ++ sfx) -> same_tables w x -> (t_stream c = false -> w_shim x = w_shim w) -> Ext c p w x.
Proof.
  intros B (a1 & a2 & a3) Sh. split; [exact B| | | |exact Sh].
  - exists []. rewrite app_nil_r. auto.
  - exists []. auto.
  - exists []. rewrite app_nil_r. auto.
Qed.

(* truncate(pos) of such a state, pos at or behind the end of w's buffer *)
Lemma truncate_after c w x pos :
  TBound w -> mlen (w_buf w) <= pos -> (exists sfx, w_buf x = w_buf w ++ sfx) -> same_tables w x ->
  (t_stream c = false -> w_shim x = w_shim w) -> (t_stream c = true -> pos <= 65535) ->
  exists w9, truncate c pos x = WOk w9 /\ Ext c (mlen (w_buf w)) w w9.
Proof.
  intros (TS & TT & TH) Lp (sfx & B) (a1 & a2 & a3) Sh Lmax. unfold truncate.
  set (b := firstn (N.to_nat pos) (w_buf x)).
  assert (Hb : exists sfx', b = w_buf w ++ sfx' /\ mlen b <= pos).
  { subst b. rewrite B, firstn_app. rewrite firstn_all2 by (unfold mlen in Lp; lia).
    eexists. split; [reflexivity|]. unfold mlen in *. rewrite app_length, firstn_length. lia. }
  destruct Hb as (sfx' & Eb & Lb).
  assert (W1 : forall (P : N -> Prop) l, Forall (fun e => e < mlen (w_buf w) /\ e < 16384) l -> Forall (fun e => e < pos /\ e < 16384) l).
  { intros P l F. eapply Forall_weaken; [|exact F]. cbv beta. intros; lia. }
  assert (TB : forall y, w_static y = w_static x -> w_tree y = w_tree x -> w_hash y = w_hash x ->
               trunc_tables pos y = mkWs (w_buf y) (w_shim y) (w_static w) (w_tree w) (w_hash w)).
  { intros y e1 e2 e3. apply trunc_tables_back.
    - eapply Forall_weaken; [|exact TS]. cbv beta. intros; lia.
    - eapply Forall_weaken; [|exact TT]. cbv beta. intros; lia.
    - eapply Forall_weaken; [|exact TH]. cbv beta. intros; lia.
    - exists []. rewrite app_nil_r, e1, a1. auto.
    - exists []. rewrite e2, a2. auto.
    - exists []. rewrite app_nil_r, e3, a3. auto. }
  destruct (t_stream c) eqn:St.
  - destruct (N.leb_spec (mlen b) shim_max) as [L|L]; [|unfold shim_max in L; specialize (Lmax eq_refl); lia].
    eexists. split; [reflexivity|]. rewrite TB by reflexivity.
    split; unfold set_shim, set_buf; cbn [w_buf w_shim w_static w_tree w_hash];
      [exists sfx'; exact Eb | exists []; rewrite app_nil_r; auto | exists []; auto | exists []; rewrite app_nil_r; auto | intros X; rewrite X in St; discriminate].
  - eexists. split; [reflexivity|]. rewrite TB by reflexivity.
    split; unfold set_buf; cbn [w_buf w_shim w_static w_tree w_hash];
      [exists sfx'; exact Eb | exists []; rewrite app_nil_r; auto | exists []; auto | exists []; rewrite app_nil_r; auto | intros _; apply Sh; reflexivity].
Qed.

(* acn of the root name is one octet, whatever the compressor *)
Lemma acn_root c w : acn c [] w = append_slice c [0] w.
Proof. unfold acn. destruct (t_kind c); reflexivity. Qed.

(* ---- clone_from *)
Lemma compose_opt_clone_char c oh opts w :
  TBound w -> SInv c w -> mlen (opts_bytes opts) <= 65535 ->
  oh_udp oh < 65536 -> oh_ext oh < 256 -> oh_ver oh < 256 -> oh_flags oh < 65536 ->
  (fits c (mlen (w_buf w) + mlen (opt_rec oh opts)) = true ->
     exists w', compose_opt_clone c oh opts w = WOk w' /\ Res c w (opt_rec oh opts) w') /\
  (forall w', compose_opt_clone c oh opts w = WOk w' -> fits c (mlen (w_buf w) + mlen (opt_rec oh opts)) = true) /\
  NoDeadW (compose_opt_clone c oh opts w) /\
  (forall w1, compose_opt_clone c oh opts w = WErr w1 -> Ext c (mlen (w_buf w)) w w1).
Proof.
  intros TB SI Ld Hu He Hv Hf. rewrite opt_rec_mlen. unfold compose_opt_clone.
  set (st := mlen (w_buf w)).
  (* the body after truncate: six appends *)
  set (chain := [[0]; be16 41; be16 (oh_udp oh); be32 (oh_ttl oh); be16 (mlen (opts_bytes opts)); opts_bytes opts]).
  assert (Hchain : forall x, wbind (acn c [] x) (fun w4 => wbind (append_slice c (be16 41) w4) (fun w5 =>
             wbind (append_slice c (be16 (oh_udp oh)) w5) (fun w6 => wbind (append_slice c (be32 (oh_ttl oh)) w6) (fun w7 =>
             wbind (append_slice c (be16 (mlen (opts_bytes opts))) w7) (append_slice c (opts_bytes opts)))))) = appends c chain x).
  { intros x. rewrite acn_root. subst chain. cbn [appends].
    destruct (append_slice c [0] x) as [a| | |]; cbn [wbind]; auto.
    destruct (append_slice c (be16 41) a) as [b| | |]; cbn [wbind]; auto.
    destruct (append_slice c (be16 (oh_udp oh)) b) as [d| | |]; cbn [wbind]; auto.
    destruct (append_slice c (be32 (oh_ttl oh)) d) as [e| | |]; cbn [wbind]; auto.
    destruct (append_slice c (be16 (mlen (opts_bytes opts))) e) as [f| | |]; cbn [wbind]; auto.
    destruct (append_slice c (opts_bytes opts) f); reflexivity. }
  assert (Ettl : be32 (oh_ttl oh) = be16 (oh_ext oh * 256 + oh_ver oh) ++ be16 (oh_flags oh)).
  { unfold oh_ttl, be32, be16. cbn [app]. f_equal; [|f_equal; [|f_equal; [|f_equal]]]; lia. }
  assert (Econc : concat chain = opt_rec oh opts).
  { subst chain. cbn [concat]. rewrite Ettl, app_nil_r. unfold opt_rec. rewrite <- !app_assoc. reflexivity. }
  destruct (N.ltb_spec rdlen_max (mlen (opts_bytes opts))) as [X|_]; [unfold rdlen_max in X; lia|].
  assert (Hunf : forall k, wbind (append_slice c opt_header_default w) (fun w1 => wbind (append_slice c [0; 0] w1) k) =
                      wbind (appends c [opt_header_default; [0; 0]] w) k).
  { intros k. cbn [appends]. destruct (append_slice c opt_header_default w) as [w1| | |]; cbn [wbind]; auto.
    destruct (append_slice c [0; 0] w1) as [w2| | |]; cbn [wbind]; auto. }
  rewrite Hunf. clear Hunf.
  destruct (appends_char c [opt_header_default; [0; 0]] w SI) as (A1 & B1 & N1).
  change (mlen (concat [opt_header_default; [0; 0]])) with 11 in A1.
  (* facts about the state after the head *)
  assert (Hhead : forall w2, appends c [opt_header_default; [0; 0]] w = WOk w2 ->
            mlen (w_buf w2) = st + 11 /\ truncate c st w2 = WOk w /\ Ext c st w w2).
  { intros w2 H. destruct (B1 w2 H) as ((B2 & _) & _). cbn [appends] in H.
    pose proof (append_slice_spec c opt_header_default w TB SI) as S1.
    destruct (append_slice c opt_header_default w) as [w1| | |]; cbn [wbind] in H; try discriminate.
    destruct S1 as (E1 & TB1 & SI1). pose proof (append_slice_spec c [0; 0] w1 TB1 SI1) as S2.
    destruct (append_slice c [0; 0] w1) as [w2'| | |]; cbn [wbind] in H; try discriminate. injection H as ->.
    destruct S2 as (E2 & _).
    assert (E02 : Ext c st w w2) by (eapply Ext_trans; eauto; apply Ext_mlen in E1; exact E1).
    split; [rewrite B2, mlen_app; reflexivity|]. split; [apply truncate_back; auto|exact E02]. }
  destruct (appends_char c chain w SI) as (A3 & B3 & N3). rewrite Econc, opt_rec_mlen in A3.
  split; [|split; [|split]].
  - intros F. destruct A1 as (w2 & E2 & _); [eapply fits_mono; [|exact F]; lia|]. rewrite E2. cbn [wbind].
    destruct (Hhead w2 E2) as (L2 & T2 & _). rewrite T2, Hchain.
    destruct (A3 F) as (w8 & E8 & R8). rewrite E8. pose proof R8 as (B8 & _).
    assert (L8 : mlen (w_buf w8) = st + 11 + mlen (opts_bytes opts)) by (rewrite B8, mlen_app, opt_rec_mlen; fold st; lia).
    rewrite L2, L8. destruct (N.ltb_spec (st + 11 + mlen (opts_bytes opts)) (st + 11)); [lia|].
    replace (st + 11 + mlen (opts_bytes opts) - (st + 11)) with (mlen (opts_bytes opts)) by lia.
    destruct (N.leb_spec (mlen (opts_bytes opts)) rdlen_max) as [LL|LL]; [|unfold rdlen_max in LL; lia].
    eexists. split; [reflexivity|]. replace (st + 11 - 2) with (st + 9) by lia.
    assert (Bq : patch16 (st + 9) (mlen (opts_bytes opts)) (w_buf w8) = w_buf w ++ opt_rec oh opts).
    { rewrite B8. unfold st. rewrite patch16_tail by (rewrite opt_rec_mlen; lia).
      unfold opt_rec, be16. cbn [app]. rewrite p16_9. reflexivity. }
    rewrite Bq. apply (Res_set_buf c w _ (opt_rec oh opts) w8 R8). reflexivity.
  - intros w' H. destruct (appends c [opt_header_default; [0; 0]] w) as [w2| | |] eqn:E2; cbn [wbind] in H; try discriminate.
    destruct (Hhead w2 eq_refl) as (L2 & T2 & _). rewrite T2, Hchain in H.
    destruct (appends c chain w) as [w8|w8| |] eqn:E8; try discriminate.
    + destruct (B3 w8 eq_refl) as ((B8 & _) & _). rewrite Econc in B8.
      replace (st + (11 + mlen (opts_bytes opts))) with (mlen (w_buf w8)) by (rewrite B8, mlen_app, opt_rec_mlen; fold st; lia).
      eapply appends_ok_fits; [exact E8|subst chain; discriminate].
    + destruct (truncate c (mlen (w_buf w2)) w8); discriminate.
  - destruct (appends c [opt_header_default; [0; 0]] w) as [w2| | |] eqn:E2; cbn [wbind]; auto.
    destruct (Hhead w2 eq_refl) as (L2 & T2 & E02). rewrite T2, Hchain.
    destruct (appends c chain w) as [w8|w8| |] eqn:E8; try exact N3.
    + destruct (B3 w8 eq_refl) as ((B8 & _) & _). rewrite Econc in B8.
      assert (L8 : mlen (w_buf w8) = st + 11 + mlen (opts_bytes opts)) by (rewrite B8, mlen_app, opt_rec_mlen; fold st; lia).
      rewrite L2, L8. destruct (N.ltb_spec (st + 11 + mlen (opts_bytes opts)) (st + 11)); [lia|].
      replace (st + 11 + mlen (opts_bytes opts) - (st + 11)) with (mlen (opts_bytes opts)) by lia.
      destruct (N.leb_spec (mlen (opts_bytes opts)) rdlen_max) as [LL|LL]; [exact I|unfold rdlen_max in LL; lia].
    + destruct (appends_err c chain w w8 E8) as (Bx & Tx & Sx).
      destruct (truncate_after c w w8 (mlen (w_buf w2)) TB ltac:(fold st; lia) Bx Tx Sx) as (w9 & T9 & _).
      { intros St. destruct (SI St) as [_ Lw]. destruct (B1 w2 eq_refl) as ((Bw2 & Sw2 & _) & _). rewrite St in Sw2.
        pose proof (appends_ok_fits c _ w w2 E2 ltac:(discriminate)) as F2. unfold fits in F2. rewrite St in F2.
        apply andb_true_iff in F2 as [_ F2]. apply N.leb_le in F2. unfold shim_max in F2. exact F2. }
      rewrite T9. exact I.
  - intros w1 H. destruct (appends c [opt_header_default; [0; 0]] w) as [w2|w2| |] eqn:E2; cbn [wbind] in H; try discriminate.
    + destruct (Hhead w2 eq_refl) as (L2 & T2 & E02). rewrite T2, Hchain in H.
      destruct (appends c chain w) as [w8|w8| |] eqn:E8; try discriminate.
      * destruct (B3 w8 eq_refl) as ((B8 & _) & _). rewrite Econc in B8.
        assert (L8 : mlen (w_buf w8) = st + 11 + mlen (opts_bytes opts)) by (rewrite B8, mlen_app, opt_rec_mlen; fold st; lia).
        rewrite L2, L8 in H. destruct (N.ltb_spec (st + 11 + mlen (opts_bytes opts)) (st + 11)); [lia|].
        replace (st + 11 + mlen (opts_bytes opts) - (st + 11)) with (mlen (opts_bytes opts)) in H by lia.
        destruct (N.leb_spec (mlen (opts_bytes opts)) rdlen_max) as [LL|LL]; [discriminate|unfold rdlen_max in LL; lia].
      * destruct (appends_err c chain w w8 E8) as (Bx & Tx & Sx).
        destruct (truncate_after c w w8 (mlen (w_buf w2)) TB ltac:(fold st; lia) Bx Tx Sx) as (w9 & T9 & E9).
        { intros St. pose proof (appends_ok_fits c _ w w2 E2 ltac:(discriminate)) as F2. unfold fits in F2. rewrite St in F2.
          apply andb_true_iff in F2 as [_ F2]. apply N.leb_le in F2. unfold shim_max in F2. exact F2. }
        rewrite T9 in H. injection H as <-. exact E9.
    + injection H as <-. destruct (appends_err c _ w w2 E2) as (Bx & Tx & Sx). apply same_tables_ext; auto.
Qed.

(* ---- the two closures do the same to a push *)
Theorem opt_push_eq c s oh opts :
  BW c s -> mlen (opts_bytes opts) <= 65535 ->
  oh_udp oh < 65536 -> oh_ver oh < 256 -> oh_flags oh < 65536 ->
  mb_push c s (compose_opt_clone c oh opts) = mb_push c s (compose_opt c oh opts).
Proof.
  intros HB Ld Hu Hv Hf. pose proof HB as (TB & SI & _).
  assert (He : oh_ext oh < 256) by (unfold oh_ext; destruct (oh_rc oh); lia).
  destruct (compose_opt_char c oh opts (b_w s) TB SI Ld) as (A1 & A2 & A3).
  destruct (compose_opt_clone_char c oh opts (b_w s) TB SI Ld Hu He Hv Hf) as (B1 & B2 & B3 & B4).
  pose proof (compose_opt_spec c oh opts (b_w s) TB SI) as S1.
  unfold mb_push.
  destruct (fits c (mlen (w_buf (b_w s)) + mlen (opt_rec oh opts))) eqn:F.
  - destruct (A1 eq_refl) as (wa & Ea & Ra). destruct (B1 eq_refl) as (wb & Eb & Rb).
    rewrite Ea, Eb. rewrite (Res_eq c _ _ _ _ Rb Ra). reflexivity.
  - destruct (compose_opt_clone c oh opts (b_w s)) as [wb|wb| |] eqn:Eb; try contradiction.
    + specialize (B2 wb eq_refl). congruence.
    + destruct (compose_opt c oh opts (b_w s)) as [wa|wa| |] eqn:Ea; try contradiction.
      * specialize (A2 wa eq_refl). congruence.
      * rewrite (fail_push_back c s wb E_SHORTBUF HB (B4 wb eq_refl)).
        rewrite (fail_push_back c s wa E_SHORTBUF HB S1). reflexivity.
Qed.

(* both closures as the writer of the step *)
Lemma opt_writer_push c s oh opts :
  BW c s -> mlen (opts_bytes opts) <= 65535 -> oh_udp oh < 65536 -> oh_ver oh < 256 -> oh_flags oh < 65536 ->
  mb_push c s (opt_writer c oh opts) = mb_push c s (compose_opt c oh opts).
Proof. intros. unfold opt_writer. destruct (oh_hdr oh); [reflexivity|apply opt_push_eq; auto]. Qed.


(* ---- clone_from keeps the writer invariants, whatever the field values *)
Lemma appends_spec c : forall l, WSpec c (appends c l).
Proof.
  induction l as [|s r IH]; [apply WSpec_ok|].
  exact (WSpec_bind c (append_slice c s) (appends c r) (append_slice_spec c s) IH).
Qed.

Lemma compose_opt_clone_spec c oh opts : WSpec c (compose_opt_clone c oh opts).
Proof.
  intros w TB SI. unfold compose_opt_clone.
  pose proof (append_slice_spec c opt_header_default w TB SI) as H1.
  destruct (append_slice c opt_header_default w) as [w1|w1| |] eqn:EA; cbn [wbind]; auto.
  destruct H1 as (E1 & TB1 & SI1). pose proof (append_slice_mlen _ _ _ _ EA) as L1.
  pose proof (append_slice_spec c [0; 0] w1 TB1 SI1) as H2.
  destruct (append_slice c [0; 0] w1) as [w2|w2| |] eqn:EB; cbn [wbind]; [| eapply Ext_trans; eauto; lia | exact I | exact I].
  destruct H2 as (E2 & TB2 & SI2). pose proof (append_slice_mlen _ _ _ _ EB) as L2.
  assert (E02 : Ext c (mlen (w_buf w)) w w2) by (eapply Ext_trans; eauto; lia).
  change (mlen opt_header_default) with 9 in L1. change (mlen [0; 0]) with 2 in L2.
  rewrite (truncate_back c w w2 TB SI E02).
  destruct (rdlen_max <? mlen (opts_bytes opts)); [exact I|].
  set (chain := [[0]; be16 41; be16 (oh_udp oh); be32 (oh_ttl oh); be16 (mlen (opts_bytes opts)); opts_bytes opts]).
  assert (Hchain : wbind (acn c [] w) (fun w4 => wbind (append_slice c (be16 41) w4) (fun w5 =>
             wbind (append_slice c (be16 (oh_udp oh)) w5) (fun w6 => wbind (append_slice c (be32 (oh_ttl oh)) w6) (fun w7 =>
             wbind (append_slice c (be16 (mlen (opts_bytes opts))) w7) (append_slice c (opts_bytes opts)))))) = appends c chain w).
  { rewrite acn_root. subst chain. cbn [appends].
    destruct (append_slice c [0] w) as [a| | |]; cbn [wbind]; auto.
    destruct (append_slice c (be16 41) a) as [b| | |]; cbn [wbind]; auto.
    destruct (append_slice c (be16 (oh_udp oh)) b) as [d| | |]; cbn [wbind]; auto.
    destruct (append_slice c (be32 (oh_ttl oh)) d) as [e| | |]; cbn [wbind]; auto.
    destruct (append_slice c (be16 (mlen (opts_bytes opts))) e) as [f| | |]; cbn [wbind]; auto.
    destruct (append_slice c (opts_bytes opts) f); reflexivity. }
  rewrite Hchain. clear Hchain.
  assert (Lpos : t_stream c = true -> mlen (w_buf w2) <= 65535) by (intros St; destruct (SI2 St) as [_ X]; exact X).
  pose proof (appends_spec c chain w TB SI) as HS.
  destruct (appends c chain w) as [w8|w8| |] eqn:E8; auto.
  - destruct HS as (E8x & TB8 & SI8).
    destruct (N.ltb_spec (mlen (w_buf w8)) (mlen (w_buf w2))) as [X|X]; [exact I|].
    destruct (_ <=? rdlen_max).
    + apply patch_spec; auto; lia.
    + destruct (appends_char c chain w SI) as (_ & B & _). destruct (B w8 E8) as ((b1 & _ & b3 & b4 & b5) & _).
      destruct (truncate_after c w w8 (mlen (w_buf w2)) TB ltac:(lia)) as (w9 & T9 & E9); auto.
      * eexists; exact b1.
      * repeat split; assumption.
      * intros St. apply E8x. exact St.
      * rewrite T9. exact E9.
  - destruct (appends_err c chain w w8 E8) as (Bx & Tx & Sx).
    destruct (truncate_after c w w8 (mlen (w_buf w2)) TB ltac:(lia) Bx Tx Sx Lpos) as (w9 & T9 & E9).
    rewrite T9. exact E9.
Qed.

Lemma opt_writer_spec c oh opts : WSpec c (opt_writer c oh opts).
Proof. unfold opt_writer. destruct (oh_hdr oh); [apply compose_opt_spec|apply compose_opt_clone_spec]. Qed.

Lemma restore_flag : opt_restores_rcode_on_err = true.
Proof. reflexivity. Qed.

Lemma set_hdr_eta s : set_hdr s (b_hdr s) = s.
Proof. destruct s; reflexivity. Qed.

(* a failed push leaves the whole builder state as it was (for the OPT push:
   because AdditionalBuilder::opt puts the header RCODE back, restore_flag) *)
Lemma step_err_unchanged c s o s' e :
  BW c s -> step c s o = (s', RErr e) -> s' = s.
Proof.
  intros HB H. unfold step in H. destruct o as [q|r|oh opts| | | |l|h]; cbn [step_gen] in H.
  - destruct (b_sec s =? 0); [|discriminate].
    destruct (mb_push_cases c s (compose_question c q) HB (compose_question_spec c q)) as [(w' & _ & E & _)|[(e' & E)|(x & E & D)]];
      rewrite E in H; try discriminate; injection H as <- _; reflexivity || (rewrite <- H in D; discriminate).
  - destruct (b_sec s =? 0); [discriminate|].
    destruct (mb_push_cases c s (compose_record c r) HB (compose_record_spec c r)) as [(w' & _ & E & _)|[(e' & E)|(x & E & D)]];
      rewrite E in H; try discriminate; injection H as <- _; reflexivity || (rewrite <- H in D; discriminate).
  - destruct (b_sec s =? 3); [|discriminate]. rewrite restore_flag in H.
    destruct (mb_push_cases c s (opt_writer c oh opts) HB (opt_writer_spec c oh opts)) as [(w' & _ & E & _)|[(e' & E)|(x & E & D)]];
      rewrite E in H; cbn [fst snd] in H.
    + injection H as _ X. discriminate.
    + injection H as <- _. apply set_hdr_eta.
    + injection H as _ X. rewrite X in D. discriminate.
  - destruct (b_sec s <? 3); discriminate.
  - destruct (b_sec s =? 0); [discriminate|]. destruct (rewind c s); discriminate.
  - destruct (rewind c s); discriminate.
  - discriminate.
  - discriminate.
Qed.

(* clone_from with more option data than a record can hold never succeeds *)
Lemma clone_long_not_ok c oh opts w w' :
  TBound w -> SInv c w -> 65535 < mlen (opts_bytes opts) -> compose_opt_clone c oh opts w <> WOk w'.
Proof.
  intros TB SI L H. unfold compose_opt_clone in H.
  pose proof (append_slice_spec c opt_header_default w TB SI) as H1.
  destruct (append_slice c opt_header_default w) as [w1|w1| |] eqn:EA; cbn [wbind] in H; try discriminate.
  destruct H1 as (E1 & TB1 & SI1). pose proof (append_slice_mlen _ _ _ _ EA) as L1.
  pose proof (append_slice_spec c [0; 0] w1 TB1 SI1) as H2.
  destruct (append_slice c [0; 0] w1) as [w2|w2| |] eqn:EB; cbn [wbind] in H; try discriminate.
  destruct H2 as (E2 & TB2 & SI2).
  assert (E02 : Ext c (mlen (w_buf w)) w w2) by (eapply Ext_trans; eauto; lia).
  rewrite (truncate_back c w w2 TB SI E02) in H.
  destruct (N.ltb_spec rdlen_max (mlen (opts_bytes opts))) as [X|X]; [discriminate|unfold rdlen_max in X; lia].
Qed.

(* a successful clone_from push is the setter push *)
Lemma clone_ok_is_setter c oh opts w w' :
  TBound w -> SInv c w -> oh_udp oh < 65536 -> oh_ver oh < 256 -> oh_flags oh < 65536 ->
  compose_opt_clone c oh opts w = WOk w' -> compose_opt c oh opts w = WOk w'.
Proof.
  intros TB SI Hu Hv Hf H.
  destruct (N.le_gt_cases (mlen (opts_bytes opts)) 65535) as [Ld|Ld]; [|exfalso; eapply clone_long_not_ok; eauto].
  assert (He : oh_ext oh < 256) by (unfold oh_ext; destruct (oh_rc oh); lia).
  destruct (compose_opt_char c oh opts w TB SI Ld) as (A1 & _).
  destruct (compose_opt_clone_char c oh opts w TB SI Ld Hu He Hv Hf) as (B1 & B2 & _).
  pose proof (B2 w' H) as F. destruct (A1 F) as (wa & Ea & Ra). destruct (B1 F) as (wb & Eb & Rb).
  rewrite H in Eb. injection Eb as <-. rewrite (Res_eq c _ _ _ _ Rb Ra). exact Ea.
Qed.

Lemma opt_writer_ok_is_setter c oh opts w w' :
  TBound w -> SInv c w -> oh_udp oh < 65536 -> oh_ver oh < 256 -> oh_flags oh < 65536 ->
  opt_writer c oh opts w = WOk w' -> compose_opt c oh opts w = WOk w'.
Proof. unfold opt_writer. destruct (oh_hdr oh); [auto|apply clone_ok_is_setter]. Qed.

Lemma opt_writer_nodead c oh opts w :
  TBound w -> SInv c w -> oh_udp oh < 65536 -> oh_ver oh < 256 -> oh_flags oh < 65536 ->
  (oh_hdr oh = false -> mlen (opts_bytes opts) <= 65535) ->
  NoDeadW (compose_opt c oh opts w) -> NoDeadW (opt_writer c oh opts w).
Proof.
  intros TB SI Hu Hv Hf Hd ND. unfold opt_writer. destruct (oh_hdr oh); [exact ND|].
  assert (He : oh_ext oh < 256) by (unfold oh_ext; destruct (oh_rc oh); lia).
  destruct (compose_opt_clone_char c oh opts w TB SI (Hd eq_refl) Hu He Hv Hf) as (_ & _ & X & _). exact X.
Qed.
