(* C02 proofs, part 5: the StaticCompressor.  Its lookup re-reads the buffer
   with SliceLabelsIter; a match means the stored name equals the wanted one
   up to ASCII case, and the labels of the name being written can never match
   (they are not yet terminated by a root label). *)
From Coq Require Import NArith List Bool Lia ZArith.
From Coq Require Import ZifyN ZifyBool ZifyNat.
From DV Require Import Base.Outcome Base.Bytes Base.Names Base.PName C02.Gen C02.Model
  C02.ProofsBasic C02.ProofsName C02.ProofsComp.
Import ListNotations.
Local Open Scope N_scope.
Ltac Zify.zify_post_hook ::= Z.div_mod_to_equations.

Lemma eq_ci_nil_r x : eq_ci x [] = true -> x = [].
Proof. destruct x; [reflexivity|discriminate]. Qed.

Lemma label_eq_spec a b : label_eq a b = true <-> lowers a = lowers b.
Proof. unfold label_eq, label_eq_ignores_case. apply eq_ci_spec. Qed.

(* one step of the iterator on a stored label *)
Lemma sli_loop_label fuel m p sseg l :
  valid_label l -> bytes_at m p (mlen l :: l) ->
  sli_loop (S fuel) m (mlen m) p sseg = SliLabel l (Some (p + mlen l + 1, sseg)).
Proof.
  intros [Hl Hw] Hb. cbn [sli_loop].
  pose proof Hb as Hb0. apply bytes_at_cons in Hb0 as [Hg Hb1]. rewrite Hg.
  destruct (N.leb_spec (mlen l) 63) as [L|L]; [|unfold mlen in L; lia].
  pose proof (bytes_at_end m p (mlen l :: l) ltac:(discriminate) Hb) as He. rewrite mlen_cons in He.
  destruct (N.ltb_spec (PName.mlen m) (p + mlen l + 1)) as [X|X]; [lia|].
  destruct (N.eqb_spec (mlen l) 0) as [E|E]; [unfold mlen in E; lia|].
  replace (p + 1 + mlen l) with (p + 1 + mlen l) by reflexivity.
  rewrite (slice_bytes_at m (p + 1) l Hb1). reflexivity.
Qed.

(* a match against a completely stored name *)
Lemma sli_sound m (ok : N -> Prop) seg p ls e :
  NameIn m ok seg p ls e -> forall sseg a, seg <= sseg ->
  labels_eq_sli a m (mlen m) (Some (p, sseg)) = Some true ->
  exists q, a = q ++ [[]] /\ canon q = canon ls.
Proof.
  intros H. induction H as [seg p Ho Hg | seg p l ls e Hv Ho Hb _ IH | seg p q l ls e' Ho0 Ho1 Hg0 Hg1 Hq Hs Hq2 Hv Ho Hb Hn IH];
    intros sseg a Hss HE.
  - assert (SN : sli_next m (mlen m) (Some (p, sseg)) = SliLabel [] None).
    { unfold sli_next. pose proof (get_some_lt _ _ _ Hg) as X.
      destruct (N.leb_spec (PName.mlen m) p); [lia|]. cbn [sli_loop]. rewrite Hg. cbn [N.leb N.compare].
      destruct (N.ltb_spec (PName.mlen m) (p + 0 + 1)); [lia|]. cbn [N.eqb].
      unfold slice. replace (N.to_nat (p + 1 + 0 - (p + 1))) with 0%nat by lia. reflexivity. }
    destruct a as [|x a']; cbn [labels_eq_sli] in HE; rewrite SN in HE; [discriminate|].
    destruct (label_eq x []) eqn:EX; [|discriminate].
    unfold label_eq, label_eq_ignores_case in EX. apply eq_ci_nil_r in EX. subst x.
    destruct a' as [|y a'']; cbn [labels_eq_sli sli_next] in HE; [|discriminate].
    exists []. split; reflexivity.
  - assert (SN : sli_next m (mlen m) (Some (p, sseg)) = SliLabel l (Some (p + mlen l + 1, sseg))).
    { unfold sli_next. pose proof Hb as Hb0. apply bytes_at_cons in Hb0 as [Hg _]. pose proof (get_some_lt _ _ _ Hg) as X.
      destruct (N.leb_spec (PName.mlen m) p); [lia|]. apply sli_loop_label; auto. }
    destruct a as [|x a']; cbn [labels_eq_sli] in HE; rewrite SN in HE; [discriminate|].
    destruct (label_eq x l) eqn:EX; [|discriminate].
    replace (p + mlen l + 1) with (p + 1 + mlen l) in HE by lia.
    destruct (IH sseg a' Hss HE) as (q' & -> & Hc). exists (x :: q'). split; [reflexivity|].
    unfold canon in *. cbn [map]. f_equal; [apply label_eq_spec; exact EX|exact Hc].
  - assert (SN : sli_next m (mlen m) (Some (p, sseg)) = SliLabel l (Some (q + mlen l + 1, q))).
    { unfold sli_next. pose proof (get_some_lt _ _ _ Hg0) as X.
      destruct (N.leb_spec (PName.mlen m) p); [lia|].
      destruct (N.to_nat sseg) as [|f] eqn:EF; [lia|].
      cbn [sli_loop]. rewrite Hg0.
      destruct (N.leb_spec (192 + q / 256) 63); [lia|]. destruct (N.leb_spec 192 (192 + q / 256)); [|lia].
      rewrite Hg1. rewrite (ptr_decode q Hq2). unfold sli_ptr_ge_segment.
      destruct (N.leb_spec sseg q); [lia|]. apply sli_loop_label; auto. }
    destruct a as [|x a']; cbn [labels_eq_sli] in HE; rewrite SN in HE; [discriminate|].
    destruct (label_eq x l) eqn:EX; [|discriminate].
    replace (q + mlen l + 1) with (q + 1 + mlen l) in HE by lia.
    destruct (IH q a' ltac:(lia) HE) as (q' & -> & Hc). exists (x :: q'). split; [reflexivity|].
    unfold canon in *. cbn [map]. f_equal; [apply label_eq_spec; exact EX|exact Hc].
Qed.

(* labels stored up to the very end of the buffer: the name being written *)
Definition Pending (m : bytes) (v : N) : Prop :=
  exists labs, Forall valid_label labs /\ bytes_at m v (wire_rel labs) /\ v + mlen (wire_rel labs) = mlen m.

Lemma sli_pending m : forall labs v sseg q,
  Forall valid_label labs -> bytes_at m v (wire_rel labs) -> v + mlen (wire_rel labs) = mlen m ->
  labels_eq_sli (q ++ [[]]) m (mlen m) (Some (v, sseg)) = Some false.
Proof.
  induction labs as [|l labs IH]; intros v sseg q Hv Hb He.
  - change (mlen (wire_rel [])) with 0 in He.
    assert (SN : sli_next m (mlen m) (Some (v, sseg)) = SliEnd).
    { unfold sli_next. destruct (N.leb_spec (PName.mlen m) v); [reflexivity|]. unfold PName.mlen, mlen in *. lia. }
    destruct q as [|x q']; cbn [app labels_eq_sli]; rewrite SN; reflexivity.
  - inversion Hv as [|? ? Hl Hv']; subst.
    rewrite mlen_wire_rel_cons in He.
    unfold wire_rel in Hb. cbn [map concat] in Hb. fold (wire_rel labs) in Hb.
    apply bytes_at_split in Hb as [Hb1 Hb2]. change (wire_label l) with (mlen l :: l) in Hb1.
    replace (mlen (wire_label l)) with (1 + mlen l) in Hb2 by (unfold wire_label; rewrite mlen_cons; reflexivity).
    assert (SN : sli_next m (mlen m) (Some (v, sseg)) = SliLabel l (Some (v + mlen l + 1, sseg))).
    { unfold sli_next. destruct (N.leb_spec (PName.mlen m) v); [unfold PName.mlen, mlen in *; lia|].
      apply sli_loop_label; auto. }
    destruct q as [|x q']; cbn [app labels_eq_sli]; rewrite SN.
    + unfold label_eq, label_eq_ignores_case. destruct l as [|y l']; [destruct Hl as [Hl _]; cbn in Hl; lia|reflexivity].
    + destruct (label_eq x l); [|reflexivity].
      apply IH; auto.
      * replace (v + mlen l + 1) with (v + (1 + mlen l)) by lia. exact Hb2.
      * lia.
Qed.

Lemma static_get_some m ml es q pos :
  static_get m ml es q = Some (Some pos) ->
  In pos es /\ labels_eq_sli (q ++ [[]]) m ml (Some (pos, pos)) = Some true.
Proof.
  induction es as [|e es IH]; cbn [static_get]; [discriminate|].
  destruct (labels_eq_sli (q ++ [[]]) m ml (Some (e, e))) as [[|]|] eqn:E; intros H; try discriminate.
  - injection H as <-. split; [left; reflexivity|exact E].
  - destruct (IH H) as [A B]. split; [right; exact A|exact B].
Qed.

Lemma Pending_grow m v l : Pending m v -> valid_label l -> Pending (m ++ mlen l :: l) v.
Proof.
  intros (labs & Hv & Hb & He) Hl. exists (labs ++ [l]). split; [apply Forall_app; split; auto|].
  rewrite wire_rel_app, mlen_app, mlen_app.
  replace (wire_rel [l]) with (mlen l :: l) by (unfold wire_rel, wire_label; cbn; rewrite app_nil_r; reflexivity).
  split; [|lia]. apply bytes_at_split. split; [apply bytes_at_app_l; exact Hb|].
  rewrite He. pose proof (bytes_at_app m (mlen l :: l) []) as X. rewrite app_nil_r in X. exact X.
Qed.

Lemma Pending_new m l : valid_label l -> Pending (m ++ mlen l :: l) (mlen m).
Proof.
  intros Hl. exists [l]. split; [constructor; auto|].
  replace (wire_rel [l]) with (mlen l :: l) by (unfold wire_rel, wire_label; cbn; rewrite app_nil_r; reflexivity).
  split; [|rewrite mlen_app; reflexivity].
  pose proof (bytes_at_app m (mlen l :: l) []) as X. rewrite app_nil_r in X. exact X.
Qed.

Lemma static_acn_name c (ok : N -> Prop) b0 : forall ls w w',
  Forall valid_label ls -> TBound w -> b0 <= mlen (w_buf w) ->
  (forall i, b0 <= i -> ok i) ->
  (forall v, In v (w_static w) -> v < b0 -> StaticOK (w_buf w) ok v) ->
  (forall v, In v (w_static w) -> b0 <= v -> Pending (w_buf w) v) ->
  static_acn c ls w = WOk w' ->
  exists ls', canon ls' = canon ls /\
  (forall seg, b0 <= seg <= mlen (w_buf w) ->
     NameIn (w_buf w') ok seg (mlen (w_buf w)) ls' (mlen (w_buf w'))) /\
  (exists sfx, w_buf w' = w_buf w ++ sfx) /\
  w_tree w' = w_tree w /\ w_hash w' = w_hash w /\
  (forall v, In v (w_static w') -> In v (w_static w) \/ StaticOK (w_buf w') ok v).
Proof.
  induction ls as [|l rest IH]; intros w w' Hv TB Hb0 Ho Hold Hpend H; cbn [static_acn] in H.
  - apply append_slice_ok in H as [B (a1 & a2 & a3)]. exists []. split; [reflexivity|].
    split; [|split; [eexists; exact B|split; [auto|split; [auto|]]]].
    + intros seg Hs. rewrite B. pose proof (NameIn_labels_root (w_buf w) ok [] seg Hv) as X.
      cbn [wire_rel map concat app] in X. apply X; [intros; apply Ho; lia|lia].
    + intros v Hin. left. rewrite a1 in Hin. exact Hin.
  - inversion Hv as [|? ? Hl Hv']; subst.
    destruct (static_get (w_buf w) (mlen (w_buf w)) (w_static w) (l :: rest)) as [[pos|]|] eqn:EG; [| |discriminate].
    + apply static_get_some in EG as [Hin HE].
      assert (Hlt : pos < b0).
      { destruct (N.lt_ge_cases pos b0) as [L|L]; [exact L|].
        destruct (Hpend _ Hin L) as (labs & P1 & P2 & P3).
        pose proof (sli_pending (w_buf w) labs pos pos (l :: rest) P1 P2 P3) as X.
        assert (E2 : Some true = Some false) by (etransitivity; [symmetry; exact HE|exact X]). discriminate. }
      destruct (Hold _ Hin Hlt) as (l0 & ls0 & e0 & HL).
      destruct (sli_sound _ _ _ _ _ _ (LabelAt_name _ _ _ _ _ _ HL) pos _ ltac:(lia) HE) as (q & Eq & Hc).
      apply app_inj_tail in Eq as [<- _].
      destruct TB as (TS & _ & _). rewrite Forall_forall in TS. specialize (TS _ Hin).
      apply write_ptr_ok in H as [B (a1 & a2 & a3)]; [|lia|reflexivity].
      exists (l0 :: ls0). split; [symmetry; exact Hc|].
      split; [|split; [eexists; exact B|split; [auto|split; [auto|]]]].
      * intros seg Hs. rewrite B, mlen_app. change (mlen [192 + pos / 256; pos mod 256]) with 2.
        apply (NameIn_complete _ ok b0 (l0 :: ls0) _ [] (mlen (w_buf w)) seg); auto; try lia.
        -- intros k Hk. cbn in Hk. lia.
        -- change (mlen (wire_rel [])) with 0. intros; lia.
        -- change (mlen (wire_rel [])) with 0. rewrite N.add_0_r. eapply Term_ptr_end; eauto; try lia.
           intros; apply Ho; lia.
      * intros v Hin'. left. rewrite a1 in Hin'. exact Hin'.
    + destruct (static_insert (mlen (w_buf w)) (w_static w)) as [es'|] eqn:EI.
      * unfold static_insert in EI.
        destruct (N.ltb_spec (mlen (w_buf w)) static_ptr_limit) as [G|G]; [|discriminate].
        destruct (if static_cap_lt then _ else _); [|discriminate]. cbn [andb] in EI. injection EI as <-.
        unfold static_ptr_limit in G. set (p := mlen (w_buf w)) in *.
        match type of H with wbind ?x _ = _ => destruct x as [w1|w1| |] eqn:EL end; cbn [wbind] in H; try discriminate.
        apply label_compose_ok in EL as [B1 (a1 & a2 & a3)].
        unfold set_static in B1, a1, a2, a3; cbn [w_buf w_static w_tree w_hash] in B1, a1, a2, a3.
        assert (L1 : mlen (w_buf w1) = p + 1 + mlen l) by (rewrite B1, mlen_app, mlen_cons; subst p; lia).
        assert (TB1 : TBound w1).
        { destruct TB as (A & Bt & C). unfold TBound. rewrite a1, a2, a3. split; [|split].
          - apply Forall_app; split; [eapply Forall_weaken; [|exact A]; cbv beta; intros; lia|].
            constructor; [lia|constructor].
          - eapply Forall_weaken; [|exact Bt]. cbv beta. intros; lia.
          - eapply Forall_weaken; [|exact C]. cbv beta. intros; lia. }
        assert (Hold1 : forall v, In v (w_static w1) -> v < b0 -> StaticOK (w_buf w1) ok v).
        { intros v Hin Hvlt. rewrite a1 in Hin. apply in_app_iff in Hin as [Hin|[Hin|[]]]; [|lia].
          rewrite B1. apply StaticOK_app. apply Hold; auto. }
        assert (Hpend1 : forall v, In v (w_static w1) -> b0 <= v -> Pending (w_buf w1) v).
        { intros v Hin Hge. rewrite a1 in Hin. rewrite B1. apply in_app_iff in Hin as [Hin|[Hin|[]]].
          - apply Pending_grow; auto.
          - subst v. apply Pending_new; auto. }
        assert (Hb1 : b0 <= mlen (w_buf w1)) by lia.
        destruct (IH w1 w' Hv' TB1 Hb1 Ho Hold1 Hpend1 H) as (rest' & Hc & N1 & (sfx1 & X1) & T1 & H1 & E1).
        assert (Hb : bytes_at (w_buf w') p (mlen l :: l)).
        { rewrite X1, B1, <- app_assoc. apply bytes_at_app. }
        exists (l :: rest'). split; [unfold canon in *; cbn [map]; f_equal; exact Hc|].
        assert (HN : forall seg, b0 <= seg <= p -> NameIn (w_buf w') ok seg p (l :: rest') (mlen (w_buf w'))).
        { intros seg Hs. apply NI_label; auto.
          - intros i Hi. apply Ho. lia.
          - rewrite <- L1. apply N1. lia. }
        split; [exact HN|]. split; [exists ((mlen l :: l) ++ sfx1); rewrite X1, B1, <- app_assoc; reflexivity|].
        split; [congruence|]. split; [congruence|].
        intros v Hin. destruct (E1 _ Hin) as [Hin1|Hok]; [|right; exact Hok].
        rewrite a1 in Hin1. apply in_app_iff in Hin1 as [Hin1|[Hin1|[]]]; [left; exact Hin1|].
        subst v. right. exists l, rest', (mlen (w_buf w')).
        split; [exact Hl|]. split; [intros i Hi; apply Ho; lia|]. split; [exact Hb|].
        rewrite <- L1. apply N1. lia.
      * destruct (write_labels c (l :: rest) w) as [w1|w1| |] eqn:EW; cbn [wbind] in H; try discriminate.
        apply write_labels_ok in EW as [B1 (a1 & a2 & a3)].
        apply append_slice_ok in H as [B2 (b1 & b2 & b3)].
        assert (B : w_buf w' = w_buf w ++ wire_rel (l :: rest) ++ [0]) by (rewrite B2, B1, <- app_assoc; reflexivity).
        exists (l :: rest). split; [reflexivity|].
        split; [|split; [eexists; exact B|split; [congruence|split; [congruence|]]]].
        -- intros seg Hs. rewrite B. apply NameIn_labels_root; auto; [intros; apply Ho; lia|lia].
        -- intros v Hin. left. rewrite b1, a1 in Hin. exact Hin.
Qed.

Lemma static_acn_ok c : AcnSpec c (static_acn c).
Proof.
  intros ok n w w' Hv TB SI (CS & CT & CH & CU) Ho H.
  destruct (static_acn_name c ok (mlen (w_buf w)) n w w' Hv TB ltac:(lia) Ho) as (n' & Hc & N1 & (sfx & X) & T1 & H1 & E1); auto.
  - intros v Hin _. rewrite Forall_forall in CS. apply (CS v Hin).
  - intros v Hin Hge. destruct TB as (TS & _ & _). rewrite Forall_forall in TS. specialize (TS _ Hin). lia.
  - split.
    + unfold CInv. rewrite T1, H1, X. split; [|split; [|split]].
      * rewrite Forall_forall. intros v Hin. rewrite <- X.
        destruct (E1 _ Hin) as [Hin0|Hok]; [|exact Hok].
        rewrite X. apply StaticOK_app. rewrite Forall_forall in CS. apply (CS v Hin0).
      * eapply Forall_weaken; [|exact CT]. intros [k v] Hs. apply TreeOK_app; exact Hs.
      * eapply Forall_weaken; [|exact CH]. intros [h t] Hs. apply HashOK_app; exact Hs.
      * apply (HU_transfer (w_buf w) _ ok ok (w_hash w)); [apply incl_refl|exact CH|intros; apply LabelAt_app; auto|exact CU].
    + exists n'. split; [exact Hc|]. apply N1. lia.
Qed.
