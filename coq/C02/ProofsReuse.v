(* C02 proofs, part 16: the statement other developments import.

   Whoever assembles a message with this builder - questions, then the
   answer, authority and additional records, each section entered with the
   builder's own conversion - and sees every push accepted, has a message
   that reads back as exactly those questions and records in those sections
   (names up to ASCII case), whatever the target and the compressor. *)
From Coq Require Import NArith List Bool Lia ZArith.
From Coq Require Import ZifyN ZifyBool ZifyNat.
From DV Require Import Base.Outcome Base.Bytes Base.Names Base.PName C02.Gen C02.Model
  C02.ProofsBasic C02.ProofsClone C02.ProofsRun C02.ProofsName C02.ProofsComp C02.ProofsStatic C02.ProofsHash C02.ProofsTop
  C02.ProofsLayout C02.ProofsRead C02.ProofsWrite C02.ProofsBuild C02.ProofsTotal C02.ProofsX.
Import ListNotations.
Local Open Scope N_scope.

Definition ops_of_sections (qs : list question) (an ns ar : list rrecord) : list op :=
  map OpQ qs ++ OpNext :: map OpR an ++ OpNext :: map OpR ns ++ OpNext :: map OpR ar.

(* a result word of an accepted push or of a conversion *)
Definition accepted (w : rword) : Prop := w = ROk \/ w = RNone.

Lemma set_count_sec s v : b_sec (set_count s v) = b_sec s.
Proof. unfold set_count. destruct (b_sec s =? 0); [|destruct (b_sec s =? 1); [|destruct (b_sec s =? 2)]]; reflexivity. Qed.

Lemma mb_push_sec c s f : b_sec (fst (mb_push c s f)) = b_sec s.
Proof.
  unfold mb_push, fail_push. destruct (f (b_w s)) as [w|w| |]; try reflexivity.
  - destruct (limit_hit _ _); [destruct (truncate c _ w); reflexivity|].
    destruct (count_max <=? count_of s); [destruct (truncate c _ w); reflexivity|].
    cbn [fst]. rewrite set_count_sec. reflexivity.
  - destruct (truncate c _ w); reflexivity.
Qed.

Lemma mb_push_word c s f : snd (mb_push c s f) <> RNone.
Proof.
  unfold mb_push, fail_push. destruct (f (b_w s)) as [w|w| |]; try discriminate.
  - destruct (limit_hit _ _); [destruct (truncate c _ w); discriminate|].
    destruct (count_max <=? count_of s); [destruct (truncate c _ w); discriminate|discriminate].
  - destruct (truncate c _ w); discriminate.
Qed.

Lemma accepted_alive w : accepted w -> is_dead w = false.
Proof. intros [->| ->]; reflexivity. Qed.

(* the questions, in the question section *)
Lemma run_questions c : forall qs s a s' a' ws,
  b_sec s = 0 -> run_acc c s a (map OpQ qs) = (s', a', ws) -> Forall accepted ws ->
  b_sec s' = 0 /\ a' = mkAcc (a_q a ++ qs) (a_an a) (a_ns a) (a_ar a).
Proof.
  induction qs as [|q qs IH]; intros s a s' a' ws E0 H F; cbn [map run_acc] in H.
  - injection H as <- <- <-. rewrite app_nil_r. destruct a; auto.
  - destruct (step c s (OpQ q)) as [s1 w] eqn:ES.
    assert (X : b_sec s1 = 0 /\ w <> RNone).
    { unfold step in ES. cbn [step_gen] in ES. rewrite E0 in ES. cbn [N.eqb] in ES.
      pose proof (mb_push_sec c s (compose_question c q)) as A. pose proof (mb_push_word c s (compose_question c q)) as B.
      rewrite ES in A, B. cbn [fst snd] in A, B. split; [congruence|exact B]. }
    destruct X as (E1 & Wn).
    destruct (is_dead w) eqn:D.
    + injection H as <- <- <-. inversion F as [|? ? Fw _]; subst. apply accepted_alive in Fw. congruence.
    + destruct (run_acc c s1 (acc_step (b_sec s) a (OpQ q) w) (map OpQ qs)) as [[s2 a2] ws2] eqn:ER.
      injection H as <- <- <-. inversion F as [|? ? Fw Fr]; subst.
      destruct Fw as [-> | ->]; [|contradiction].
      destruct (IH _ _ _ _ _ E1 ER Fr) as (E2 & ->). split; [exact E2|]. cbn [acc_step a_q a_an a_ns a_ar].
      rewrite <- app_assoc. reflexivity.
Qed.

(* records, in the section the builder is in *)
Lemma run_records c : forall rs s a s' a' ws,
  b_sec s <> 0 -> run_acc c s a (map OpR rs) = (s', a', ws) -> Forall accepted ws ->
  b_sec s' = b_sec s /\ a' = fold_left (fun x r => acc_add_r x (b_sec s) r) rs a.
Proof.
  induction rs as [|r rs IH]; intros s a s' a' ws E0 H F; cbn [map run_acc] in H.
  - injection H as <- <- <-. auto.
  - destruct (step c s (OpR r)) as [s1 w] eqn:ES.
    assert (X : b_sec s1 = b_sec s /\ w <> RNone).
    { unfold step in ES. cbn [step_gen] in ES. destruct (N.eqb_spec (b_sec s) 0) as [Z|_]; [contradiction|].
      pose proof (mb_push_sec c s (compose_record c r)) as A. pose proof (mb_push_word c s (compose_record c r)) as B.
      rewrite ES in A, B. cbn [fst snd] in A, B. split; [congruence|exact B]. }
    destruct X as (E1 & Wn).
    destruct (is_dead w) eqn:D.
    + injection H as <- <- <-. inversion F as [|? ? Fw _]; subst. apply accepted_alive in Fw. congruence.
    + destruct (run_acc c s1 (acc_step (b_sec s) a (OpR r) w) (map OpR rs)) as [[s2 a2] ws2] eqn:ER.
      injection H as <- <- <-. inversion F as [|? ? Fw Fr]; subst.
      destruct Fw as [-> | ->]; [|contradiction].
      assert (E1' : b_sec s1 <> 0) by congruence.
      destruct (IH _ _ _ _ _ E1' ER Fr) as (E2 & ->). split; [congruence|].
      cbn [fold_left acc_step]. rewrite E1. reflexivity.
Qed.

Lemma fold_add_an rs : forall a, fold_left (fun x r => acc_add_r x 1 r) rs a = mkAcc (a_q a) (a_an a ++ rs) (a_ns a) (a_ar a).
Proof.
  induction rs as [|r rs IH]; intros a; cbn [fold_left]; [rewrite app_nil_r; destruct a; reflexivity|].
  rewrite IH. unfold acc_add_r; cbn [N.eqb Pos.eqb a_q a_an a_ns a_ar]. rewrite <- app_assoc. reflexivity.
Qed.
Lemma fold_add_ns rs : forall a, fold_left (fun x r => acc_add_r x 2 r) rs a = mkAcc (a_q a) (a_an a) (a_ns a ++ rs) (a_ar a).
Proof.
  induction rs as [|r rs IH]; intros a; cbn [fold_left]; [rewrite app_nil_r; destruct a; reflexivity|].
  rewrite IH. unfold acc_add_r; cbn [N.eqb Pos.eqb a_q a_an a_ns a_ar]. rewrite <- app_assoc. reflexivity.
Qed.
Lemma fold_add_ar rs : forall a, fold_left (fun x r => acc_add_r x 3 r) rs a = mkAcc (a_q a) (a_an a) (a_ns a) (a_ar a ++ rs).
Proof.
  induction rs as [|r rs IH]; intros a; cbn [fold_left]; [rewrite app_nil_r; destruct a; reflexivity|].
  rewrite IH. unfold acc_add_r; cbn [N.eqb Pos.eqb a_q a_an a_ns a_ar]. rewrite <- app_assoc. reflexivity.
Qed.

(* one conversion to the next section *)
Lemma run_next c s a rest s' a' ws :
  b_sec s < 3 -> run_acc c s a (OpNext :: rest) = (s', a', ws) ->
  exists s1 ws1, b_sec s1 = b_sec s + 1 /\ run_acc c s1 a rest = (s', a', ws1) /\ ws = RNone :: ws1.
Proof.
  intros L H. cbn [run_acc] in H. unfold step in H. cbn [step_gen] in H.
  destruct (N.ltb_spec (b_sec s) 3) as [_|X]; [|lia]. cbn [is_dead acc_step] in H.
  set (s1 := set_sec (set_start s (b_sec s + 1) (mlen (w_buf (b_w s)))) (b_sec s + 1)) in *.
  exists s1. destruct (run_acc c s1 a rest) as [[s2 a2] ws2]. injection H as <- <- <-.
  exists ws2. split; [reflexivity|]. split; reflexivity.
Qed.

Lemma Forall_accepted_dead ws : Forall accepted ws -> existsb is_dead ws = false.
Proof. induction 1 as [|w ws Hw _ IH]; [reflexivity|]. cbn [existsb]. rewrite (accepted_alive w Hw), IH. reflexivity. Qed.

(* what the run has accumulated when every word is an accepted one *)
Lemma sections_acc c qs an ns ar s0 s a ws :
  b_sec s0 = 0 -> run_acc c s0 acc0 (ops_of_sections qs an ns ar) = (s, a, ws) -> Forall accepted ws ->
  a = mkAcc qs an ns ar.
Proof.
  intros E0 H F. unfold ops_of_sections in H.
  rewrite run_acc_app in H. destruct (run_acc c s0 acc0 (map OpQ qs)) as [[s1 a1] w1] eqn:R1.
  destruct (existsb is_dead w1) eqn:D1.
  - injection H as <- <- <-. rewrite (Forall_accepted_dead _ F) in D1. discriminate.
  - destruct (run_acc c s1 a1 _) as [[s2 a2] w2] eqn:R2. injection H as <- <- <-.
    apply Forall_app in F as [F1 F2].
    destruct (run_questions c qs s0 acc0 s1 a1 w1 E0 R1 F1) as (S1 & ->). cbn [acc0 a_q a_an a_ns a_ar app] in *.
    destruct (run_next c s1 _ _ _ _ _ ltac:(lia) R2) as (t1 & v1 & T1 & R3 & ->). inversion F2 as [|? ? _ F3]; subst.
    rewrite run_acc_app in R3. destruct (run_acc c t1 _ (map OpR an)) as [[s3 a3] w3] eqn:R4.
    destruct (existsb is_dead w3) eqn:D3.
    + injection R3 as <- <- <-. rewrite (Forall_accepted_dead _ F3) in D3. discriminate.
    + destruct (run_acc c s3 a3 _) as [[s4 a4] w4] eqn:R5. injection R3 as <- <- <-.
      apply Forall_app in F3 as [F4 F5].
      destruct (run_records c an t1 _ s3 a3 w3 ltac:(lia) R4 F4) as (S3 & ->). rewrite T1, S1 in *. cbn [N.add] in *.
      rewrite fold_add_an in R5. cbn [a_q a_an a_ns a_ar app] in R5.
      destruct (run_next c s3 _ _ _ _ _ ltac:(lia) R5) as (t2 & v2 & T2 & R6 & ->). inversion F5 as [|? ? _ F6]; subst.
      rewrite run_acc_app in R6. destruct (run_acc c t2 _ (map OpR ns)) as [[s5 a5] w5] eqn:R7.
      destruct (existsb is_dead w5) eqn:D5.
      * injection R6 as <- <- <-. rewrite (Forall_accepted_dead _ F6) in D5. discriminate.
      * destruct (run_acc c s5 a5 _) as [[s6 a6] w6] eqn:R8. injection R6 as <- <- <-.
        apply Forall_app in F6 as [F7 F8].
        destruct (run_records c ns t2 _ s5 a5 w5 ltac:(lia) R7 F7) as (S5 & ->). rewrite T2, S3 in *. cbn [N.add Pos.add Pos.succ] in *.
        rewrite fold_add_ns in R8. cbn [a_q a_an a_ns a_ar app] in R8.
        destruct (run_next c s5 _ _ _ _ _ ltac:(lia) R8) as (t3 & v3 & T3 & R9 & ->). inversion F8 as [|? ? _ F9]; subst.
        destruct (run_records c ar t3 _ _ _ _ ltac:(lia) R9 F9) as (_ & ->). rewrite T3, S5. cbn [N.add Pos.add Pos.succ].
        rewrite fold_add_ar. reflexivity.
Qed.

Definition wf_r_sized (r : rrecord) : Prop := wf_r r /\ rdata_ulen (r_data r) <= 65535.

Lemma sections_wf qs an ns ar :
  Forall wf_q qs -> Forall wf_r_sized an -> Forall wf_r_sized ns -> Forall wf_r_sized ar ->
  Forall wf_op_sized (ops_of_sections qs an ns ar).
Proof.
  intros Hq Ha Hn Hr. unfold ops_of_sections.
  assert (Q : Forall wf_op_sized (map OpQ qs)).
  { apply Forall_forall. intros o Ho. apply in_map_iff in Ho as (q & <- & Hin). rewrite Forall_forall in Hq. split; [apply Hq, Hin|exact I]. }
  assert (R : forall rs, Forall wf_r_sized rs -> Forall wf_op_sized (map OpR rs)).
  { intros rs Hrs. apply Forall_forall. intros o Ho. apply in_map_iff in Ho as (r & <- & Hin). rewrite Forall_forall in Hrs.
    destruct (Hrs r Hin) as (A & B). split; [exact A|exact B]. }
  assert (Nx : wf_op_sized OpNext) by (split; exact I).
  apply Forall_app. split; [exact Q|]. constructor; [exact Nx|].
  apply Forall_app. split; [apply R; exact Ha|]. constructor; [exact Nx|].
  apply Forall_app. split; [apply R; exact Hn|]. constructor; [exact Nx|]. apply R. exact Hr.
Qed.

Lemma init_sec c s0 : init c = Some s0 -> b_sec s0 = 0.
Proof. unfold init. destruct (append_slice c _ empty_ws); try discriminate. intros H. injection H as <-. reflexivity. Qed.

(* ---- the reusable statement *)
Theorem pushes_reread c qs an ns ar s0 s a ws :
  init c = Some s0 ->
  Forall wf_q qs -> Forall wf_r_sized an -> Forall wf_r_sized ns -> Forall wf_r_sized ar ->
  run_acc c s0 acc0 (ops_of_sections qs an ns ar) = (s, a, ws) ->
  Forall accepted ws ->
  a = mkAcc qs an ns ar /\
  exists a', rd_message (msg_of s) (mkAcc qs an ns ar) = Ok a' /\ acc_eqb a' (mkAcc qs an ns ar) = true.
Proof.
  intros HI Hq Ha Hn Hr HR F.
  pose proof (sections_acc c qs an ns ar s0 s a ws (init_sec c s0 HI) HR F) as Ea.
  split; [exact Ea|]. rewrite <- Ea.
  apply (build_parse_total c _ s0 s a ws HI (sections_wf qs an ns ar Hq Ha Hn Hr) HR).
Qed.

(* without the premise that every push was accepted: the message reads back as
   the accepted pushes, and nothing panics *)
Theorem pushes_reread_partial c qs an ns ar s0 s a ws :
  init c = Some s0 ->
  Forall wf_q qs -> Forall wf_r_sized an -> Forall wf_r_sized ns -> Forall wf_r_sized ar ->
  run_acc c s0 acc0 (ops_of_sections qs an ns ar) = (s, a, ws) ->
  all_alive ws /\ exists a', rd_message (msg_of s) a = Ok a' /\ acc_eqb a' a = true.
Proof.
  intros HI Hq Ha Hn Hr HR.
  apply (build_parse_total c _ s0 s a ws HI (sections_wf qs an ns ar Hq Ha Hn Hr) HR).
Qed.
