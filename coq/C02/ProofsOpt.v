(* C02 proofs, part 17: typed EDNS options through C05's option table.
   An OPT record pushed with typed options (OptBuilder::push: code,
   compose_len, composed data) is stored so that C05's option iterator finds
   exactly these options in the record data, and C05's row for each code parses
   each option's data back to the value pushed. *)
From Coq Require Import NArith List Bool Lia ZArith.
From Coq Require Import ZifyN ZifyBool ZifyNat.
From DV Require Import C05.Schema C05.ProofsA C05.ProofsB C05.OptModel C05.ProofsE.
From DV Require C05.Model C05.ProofsF.
From DV Require Import Base.Outcome Base.Bytes Base.Names Base.PName C02.Gen C02.Model C02.SchemaModel
  C02.ProofsBasic C02.ProofsClone C02.ProofsRun C02.ProofsName C02.ProofsComp C02.ProofsStatic C02.ProofsHash C02.ProofsTop
  C02.ProofsLayout C02.ProofsRead C02.ProofsWrite.
Import ListNotations.
Local Open Scope N_scope.
Ltac Zify.zify_post_hook ::= Z.div_mod_to_equations.

Definition wf_typed (o : N * value) : Prop :=
  fst o < 65536 /\ wf_value (C05.Model.option_schema (fst o)) (snd o) = true.

Definition plain_of (o : N * value) : edns_option := (fst o, opt_data o).

Lemma be2_be16 x : x < 65536 -> be 2 x = be16 x.
Proof. intros H. unfold be16. cbn [be app]. f_equal. lia. Qed.

Lemma opt_data_len o : wf_typed o -> len (opt_data o) <= 65535.
Proof.
  intros (_ & Hv). unfold wf_value in Hv. apply andb_true_iff in Hv as [Hv _]. apply andb_true_iff in Hv as [Hvv Ht].
  apply N.leb_le in Ht. unfold total_len in Ht. unfold opt_data, compose.
  rewrite <- (wf_fvals_any _ _ _ Hvv false). exact Ht.
Qed.

Lemma opts_bytes_frame l : Forall wf_typed l -> opts_bytes (typed_opts l) = opt_frame (map plain_of l).
Proof.
  induction 1 as [|o l Ho _ IH]; [reflexivity|].
  cbn [typed_opts map opts_bytes]. unfold opt_frame. cbn [map concat]. fold (opt_frame (map plain_of l)).
  unfold typed_opts in IH. rewrite IH. unfold raw_of_typed, frame1, plain_of. cbn [fst snd].
  rewrite be2_be16 by apply Ho. rewrite be2_be16 by (pose proof (opt_data_len o Ho); lia).
  rewrite <- !app_assoc. reflexivity.
Qed.

Lemma plain_wf l : Forall wf_typed l -> Forall wf_option (map plain_of l).
Proof.
  intros H. apply Forall_forall. intros x Hx. apply in_map_iff in Hx as (o & <- & Hin).
  rewrite Forall_forall in H. specialize (H o Hin). split; [apply H|]. cbn [plain_of snd]. apply opt_data_len. exact H.
Qed.

Theorem typed_options_reread c oh l w w' :
  WG c ok12 w -> 12 <= mlen (w_buf w) -> wf_oh oh -> Forall wf_typed l ->
  opt_writer c oh (typed_opts l) w = WOk w' ->
  WG c ok12 w' /\
  RAt (w_buf w') (mlen (w_buf w)) (opt_record oh (typed_opts l)) (mlen (w_buf w')) /\
  opt_iter (S (length l)) (w_buf w') (mlen (w_buf w) + 11) (mlen (w_buf w')) [] = Ok (map plain_of l) /\
  Forall (fun o => C05.Model.c05_optdata (fst o) (opt_data o) = Ok (snd o)) l.
Proof.
  intros HW L12 Hoh Hl H. pose proof HW as (TB & SI & _). pose proof Hoh as (Wu & Wv & Wf).
  apply (opt_writer_ok_is_setter c oh _ w w' TB SI Wu Wv Wf) in H.
  destruct (compose_opt_ok c oh _ w w' HW L12 Hoh H) as (HW' & HR & _).
  split; [exact HW'|]. split; [exact HR|]. split.
  - (* the framing *)
    assert (Ld : mlen (opts_bytes (typed_opts l)) <= 65535).
    { destruct HR as (e1 & Hn & _ & Hi & L1 & L2 & _). cbn [opt_record r_data] in Hi.
      inversion Hi as [| p bs r e Hb Hr | |]; subst. inversion Hr; subst. lia. }
    destruct (compose_opt_char c oh (typed_opts l) w TB SI Ld) as (A1 & A2 & _).
    destruct (A1 (A2 w' H)) as (wa & Ea & (Ba & _)). rewrite H in Ea. injection Ea as <-.
    rewrite Ba. unfold opt_rec. rewrite (opts_bytes_frame l Hl).
    set (hd := [0] ++ be16 41 ++ be16 (oh_udp oh) ++ (be16 (oh_ext oh * 256 + oh_ver oh) ++ be16 (oh_flags oh)) ++ be16 (mlen (opt_frame (map plain_of l)))).
    replace (w_buf w ++ [0] ++ be16 41 ++ be16 (oh_udp oh) ++ (be16 (oh_ext oh * 256 + oh_ver oh) ++ be16 (oh_flags oh)) ++
             be16 (mlen (opt_frame (map plain_of l))) ++ opt_frame (map plain_of l))
      with ((w_buf w ++ hd) ++ opt_frame (map plain_of l) ++ []).
    2:{ unfold hd. rewrite app_nil_r, <- !app_assoc. reflexivity. }
    assert (Lh : len (w_buf w ++ hd) = mlen (w_buf w) + 11).
    { rewrite len_app. unfold hd, be16, len, mlen. rewrite !app_length. cbn [length]. lia. }
    rewrite <- Lh.
    pose proof (opt_iter_frame (map plain_of l) (S (length l)) (w_buf w ++ hd) [] [] (len (w_buf w ++ hd) + len (opt_frame (map plain_of l)))
                  (plain_wf l Hl) ltac:(rewrite map_length; lia) eq_refl) as P.
    cbn [rev app] in P.
    replace (mlen ((w_buf w ++ hd) ++ opt_frame (map plain_of l) ++ [])) with (len (w_buf w ++ hd) + len (opt_frame (map plain_of l))).
    + exact P.
    + rewrite app_nil_r. unfold mlen. fold (len ((w_buf w ++ hd) ++ opt_frame (map plain_of l))). rewrite !len_app. reflexivity.
  - (* every option's data, by C05's row for its code *)
    apply Forall_forall. intros o Hin. rewrite Forall_forall in Hl. destruct (Hl o Hin) as (_ & Hv).
    destruct (C05.ProofsF.option_parse_compose (fst o) (snd o) [] [] Hv) as (P & _).
    cbn [app] in P. rewrite app_nil_r in P. change (len []) with 0 in P. rewrite N.add_0_l in P.
    unfold C05.Model.c05_optdata, opt_data. exact P.
Qed.

(* the driver's entry point is the identity on typed options *)
Theorem typed_option_fixpoint o : wf_typed o -> c02_typed_option (raw_of_typed o) = (raw_of_typed o, true).
Proof.
  intros (_ & Hv). unfold c02_typed_option. destruct o as [code v]. unfold raw_of_typed at 1. cbn [fst snd].
  destruct (C05.ProofsF.option_parse_compose code v [] [] Hv) as (P & _).
  cbn [app] in P. rewrite app_nil_r in P. change (len []) with 0 in P. rewrite N.add_0_l in P.
  unfold C05.Model.c05_optdata, opt_data. cbn [fst snd]. rewrite P. reflexivity.
Qed.

(* ---- the rows the harness still pushes with push_raw_option: edns-client-subnet
   (with its cross-field check), Extended DNS Error, CHAIN, DAU, EXPIRE.
   Their typed values satisfy the premises of typed_options_reread, and the
   theorem applied to a concrete push returns them. *)
Definition ex_opts : list (N * value) :=
  [ (8,  [VNum 1; VNum 24; VNum 0; VBytes [192; 0; 2]])      (* 192.0.2.0/24 *)
  ; (15, [VNum 15; VBytes [99; 97; 102; 233]])                (* EDE 15 with extra text *)
  ; (13, [VName [[101; 120]; [99; 111; 109]]])                (* CHAIN ex.com. *)
  ; (5,  [VBytes [8; 13]])                                    (* DAU *)
  ; (9,  [VBytes [0; 0; 14; 16]]) ].                          (* EXPIRE 3600 *)

Example ex_opts_wf : Forall wf_typed ex_opts.
Proof. unfold ex_opts. repeat constructor; cbn [fst]; try lia; vm_compute; reflexivity. Qed.

(* a value that breaks the cross-field check of edns-client-subnet (a bit set
   beyond the prefix) is not a typed option *)
Example ex_subnet_bad : ~ wf_typed (8, [VNum 1; VNum 23; VNum 0; VBytes [192; 0; 3]]).
Proof. intros (_ & H). vm_compute in H. discriminate. Qed.

(* the theorem applied to a concrete push into a fresh message (hash compressor):
   its premises hold, the push succeeds, and C05's iterator and rows return ex_opts *)
Example typed_options_example :
  let c := mkCfg None false KHash in
  let oh := mkOH 1232 None 0 32768 true in
  match init c with
  | Some s0 =>
      exists w', opt_writer c oh (typed_opts ex_opts) (b_w s0) = WOk w' /\
        opt_iter (S (length ex_opts)) (w_buf w') (mlen (w_buf (b_w s0)) + 11) (mlen (w_buf w')) [] = Ok (map plain_of ex_opts) /\
        Forall (fun o => C05.Model.c05_optdata (fst o) (opt_data o) = Ok (snd o)) ex_opts /\
        mlen (w_buf w') = 12 + 11 + 47
  | None => False
  end.
Proof.
  intros c oh. destruct (init c) as [s0|] eqn:HI; [|vm_compute in HI; discriminate].
  destruct (init_good c s0 HI) as (TB & SI & CI & L).
  assert (HW : WG c ok12 (b_w s0)) by (split; [exact TB|split; [exact SI|exact CI]]).
  destruct (opt_writer c oh (typed_opts ex_opts) (b_w s0)) as [w'| | |] eqn:E.
  2-4: (vm_compute in HI; injection HI as <-; vm_compute in E; discriminate).
  exists w'. split; [reflexivity|].
  assert (Hoh : wf_oh oh) by (unfold wf_oh, oh; cbn; lia).
  destruct (typed_options_reread c oh ex_opts (b_w s0) w' HW ltac:(lia) Hoh ex_opts_wf E) as (_ & _ & It & Fa).
  split; [exact It|]. split; [exact Fa|].
  vm_compute in HI. injection HI as <-. vm_compute in E. injection E as <-. reflexivity.
Qed.
