(* C06: SVCB / HTTPS parameters: the token of a parameter reads back (port, ohttp, dohpath,
   unknown keys), and the witnesses of the known findings *)
From Coq Require Import NArith ZArith List Bool Lia ZifyN ZifyBool ZifyNat.
From DV Require Import Base.Outcome Base.Bytes C06.Gen C06.Model C06.Proofs C06.Proofs2 C06.Tables C06.Svc.
Import ListNotations.
Local Open Scope N_scope.

Lemma svc_sym_table : forall b, b < 256 -> enc_ok false svc_sym b = true.
Proof. apply forall_octets. vm_compute. reflexivity. Qed.

Definition svc_key_ok (k : N) : bool :=
  let s := svc_key_name k in
  opt_is (parse_svc_key s) k && forallb allowed_key_char s && forallb plain_char s &&
  negb (match s with [] => true | _ => false end).

Lemma svc_key_table : forall k, k < 65536 -> svc_key_ok k = true.
Proof. apply all_below_spec. vm_compute. reflexivity. Qed.

Lemma map_o_app {A B} (f : A -> outcome B) l1 l2 x1 x2 :
  map_o f l1 = Ok x1 -> map_o f l2 = Ok x2 -> map_o f (l1 ++ l2) = Ok (x1 ++ x2).
Proof.
  revert x1. induction l1 as [|a l1 IH]; intros x1 H1 H2; cbn [map_o app] in *.
  - injection H1 as <-. exact H2.
  - destruct (f a); try discriminate. cbn [bind] in *. destruct (map_o f l1) eqn:E; try discriminate.
    cbn [bind] in H1. injection H1 as <-. rewrite (IH _ eq_refl H2). reflexivity.
Qed.

Lemma chars_octets t : forallb plain_char t = true -> map_o into_octet (chars t) = Ok t.
Proof.
  induction t as [|c t IH]; intros H; [reflexivity|]. cbn [forallb chars map map_o] in *.
  apply andb_true_iff in H as [H1 H2]. destruct (plain_char_facts c H1) as (_ & _ & A). rewrite A. cbn [bind].
  fold (chars t). rewrite IH by exact H2. reflexivity.
Qed.

Lemma chars_safe t : forallb plain_char t = true -> forallb (safe_sym false) (chars t) = true.
Proof.
  induction t as [|c t IH]; intros H; [reflexivity|]. cbn [forallb chars map] in *.
  apply andb_true_iff in H as [H1 H2]. destruct (plain_char_facts c H1) as (S & _). rewrite S. apply IH, H2.
Qed.

Lemma split_key_name name : forall acc rest, forallb allowed_key_char name = true ->
  split_key acc (name ++ 61 :: rest) = Ok (rev acc ++ name, rest) /\ split_key acc name = Ok (rev acc ++ name, []).
Proof.
  induction name as [|c name IH]; intros acc rest H.
  - cbn. rewrite app_nil_r. split; reflexivity.
  - cbn [forallb] in H. apply andb_true_iff in H as [H1 H2]. cbn [app split_key]. rewrite H1.
    destruct (IH (c :: acc) rest H2) as [I1 I2]. rewrite I1, I2. cbn [rev]. rewrite <- app_assoc. split; reflexivity.
Qed.

(* a key followed by an escaped value: the reader gets the key and the value octets back *)
Lemma key_value_octets k b sp : k < 65536 -> wf_bytes b ->
  good_shape (TWord (key_eq k (map svc_sym b))) = true /\
  exists octs, read_octets (shape_tok sp (TWord (key_eq k (map svc_sym b)))) = Ok octs /\ octs <> [] /\
    split_key [] octs = Ok (svc_key_name k, b) /\ parse_svc_key (svc_key_name k) = Some k.
Proof.
  intros Hk W. pose proof (svc_key_table k Hk) as T. unfold svc_key_ok in T. cbv zeta in T.
  apply andb_true_iff in T as [T T4]. apply andb_true_iff in T as [T T3]. apply andb_true_iff in T as [T1 T2].
  destruct (parse_svc_key (svc_key_name k)) as [x|] eqn:P; [|discriminate]. cbn [opt_is] in T1. apply N.eqb_eq in T1. subst x.
  set (name := svc_key_name k) in *.
  assert (NE : name <> []) by (destruct name; [discriminate | congruence]).
  pose proof (enc_safe false svc_sym b W svc_sym_table) as Sb.
  pose proof (enc_octets false svc_sym b W svc_sym_table) as Ob.
  destruct (split_key_name name [] b T2) as [K1 K2].
  split.
  - cbn [good_shape]. unfold key_eq. fold name. apply andb_true_iff. split.
    + rewrite forallb_app, chars_safe by exact T3. clear Ob. destruct (map svc_sym b); [reflexivity|].
      cbn [forallb] in *. rewrite Sb. reflexivity.
    + destruct name; [congruence | reflexivity].
  - unfold read_octets, key_eq. cbn [shape_tok t_syms]. fold name. destruct b as [|c b].
    + cbn [map]. rewrite app_nil_r. exists name. rewrite chars_octets by exact T3. repeat split; try assumption.
    + assert (M : match map svc_sym (c :: b) with [] => [] | _ => SChar 61 :: map svc_sym (c :: b) end
                  = SChar 61 :: map svc_sym (c :: b)) by reflexivity.
      rewrite M. clear M. remember (c :: b) as v.
      exists (name ++ 61 :: v). split; [|split; [|split]].
      * apply map_o_app; [apply chars_octets, T3|]. cbn [map_o into_octet]. rewrite Ob. reflexivity.
      * destruct name; discriminate.
      * exact K1.
      * reflexivity.
Qed.

Theorem svc_unknown_roundtrip k b sp : 9 < k < 65536 -> wf_bytes b ->
  good_shape (TWord (show_param (PUnknown k b))) = true /\
  read_param (shape_tok sp (TWord (show_param (PUnknown k b)))) = Ok (PUnknown k b).
Proof.
  intros Hk W. destruct (key_value_octets k b sp ltac:(lia) W) as (G & octs & R & NE & S & P).
  split; [exact G|]. unfold read_param. cbn [show_param]. rewrite R. cbn [bind].
  unfold parse_param. destruct octs; [congruence|]. rewrite S. cbn [bind fst snd]. rewrite P.
  unfold parse_value.
  repeat match goal with |- context [k =? ?c] => let E := fresh in destruct (k =? c) eqn:E; [lia|] end. reflexivity.
Qed.

Theorem svc_dohpath_roundtrip b sp : wf_bytes b -> utf8_ok (S (length b)) b = true ->
  good_shape (TWord (show_param (PDohpath b))) = true /\
  read_param (shape_tok sp (TWord (show_param (PDohpath b)))) = Ok (PDohpath b).
Proof.
  intros W U. destruct (key_value_octets 7 b sp ltac:(lia) W) as (G & octs & R & NE & S & P).
  split; [exact G|]. unfold read_param. cbn [show_param]. rewrite R. cbn [bind].
  unfold parse_param. destruct octs; [congruence|]. rewrite S. cbn [bind fst snd]. rewrite P.
  unfold parse_value. cbn [N.eqb Pos.eqb]. rewrite U. reflexivity.
Qed.

(* the known findings, in the model *)
Lemma svc_nodefaultalpn_refuted : read_param (mk_tok false true (show_param PNoDefaultAlpn)) = Err E_symbol.
Proof. vm_compute. reflexivity. Qed.

Lemma svc_alpn_escaping_refuted :
  read_param (mk_tok false true (show_param (PAlpn [[97; 44; 98]]))) = Ok (PAlpn [[97]; [98]]) /\
  tokenize ([46; 32] ++ flat_map sym_text (show_param (PAlpn [[97; 32; 98]])) ++ [10])
    = Ok [mk_tok false false [SChar 46]; mk_tok false true (chars [97; 108; 112; 110; 61; 97]); mk_tok false true [SChar 98]].
Proof. split; vm_compute; reflexivity. Qed.

Lemma svc_empty_value_refuted :
  show_param (PIp4hint []) = [] /\ show_param (PMandatory []) = [] /\ show_param (PAlpn []) = [] /\
  read_param (mk_tok false true (show_param (PEch []))) = Err E_symbol.
Proof. repeat split; vm_compute; reflexivity. Qed.

Lemma svc_dohpath_not_utf8_refuted : read_param (mk_tok false true (show_param (PDohpath [247]))) = Err E_symbol.
Proof. vm_compute. reflexivity. Qed.

Example ex_svc_port : read_param (mk_tok false true (show_param (PPort 443))) = Ok (PPort 443).
Proof. vm_compute. reflexivity. Qed.
Example ex_svc_lists :
  map (fun p => read_param (mk_tok false true (show_param p)))
      [PIp4hint [[1; 2; 3; 4]; [10; 0; 0; 1]]; PGroups [29; 23]; PIp6hint [[8193; 3512; 0; 0; 0; 0; 0; 1]]; PEch [1; 2; 3]; POhttp; PAlpn [[104; 50]; [104; 51]]]
  = map Ok [PIp4hint [[1; 2; 3; 4]; [10; 0; 0; 1]]; PGroups [29; 23]; PIp6hint [[8193; 3512; 0; 0; 0; 0; 0; 1]]; PEch [1; 2; 3]; POhttp; PAlpn [[104; 50]; [104; 51]]].
Proof. vm_compute. reflexivity. Qed.
