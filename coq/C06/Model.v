(* C06 model: the zone-file WRITER (Display for Label, Symbol::{from_octet,
   quoted_from_octet,display_from_octet}, Display for Symbol, CharStr display
   forms, fmt_with_dot, decimal integers, SimpleWriter / TabbedWriter /
   MultiLineWriter, Record's ZonefileFmt, the RFC 3597 generic form) and the
   token level of the zone-file READER (zonefile/inplace.rs: SourceBuf::
   next_item / next_symbol as a character-driven state machine over the text of
   one entry, Symbol::from_slice_index escapes, into_octet, scan_name /
   convert_label, scan_charstr / scan_octets, unsigned integers, the owner
   specials of _scan_entry, scan_ctr, the generic-form reader).

   Text is a list of octets (the writer only emits ASCII).  The in-place buffer
   manipulation of the reader (write index, split_to, trim_to, the
   next_ascii_symbol fast path) is not modelled: a token is the list of its
   symbols.  Unescaped octets >= 128 (UTF-8 decoding) are an error class of
   their own; the writer never emits them. *)
From Coq Require Import NArith ZArith List Bool.
From DV Require Import Base.Outcome Base.Bytes C06.Gen.
From DV Require C17.Model C18.Model.
Import ListNotations.
Local Open Scope N_scope.

Definition text := list N.
Definition mem (c : N) (l : list N) : bool := existsb (N.eqb c) l.

(* ------------------------------------------------------------------ symbols *)

Inductive sym := SChar (c : N) | SEsc (c : N) | SDec (c : N).

Definition digit3 (c : N) : text := [48 + c / 100; 48 + (c / 10) mod 10; 48 + c mod 10].

(* Display for Symbol *)
Definition sym_text (s : sym) : text :=
  match s with
  | SChar c => [c]
  | SEsc c => [92; c]
  | SDec c => 92 :: digit3 c
  end.

(* the shape shared by Display for Label and Symbol::*from_octet *)
Definition enc (esc : list N) (lo hi : N) (ch : N) : sym :=
  if mem ch esc then SEsc ch
  else if negb ((lo <=? ch) && (ch <? hi)) then SDec ch
  else SChar ch.

Definition label_sym : N -> sym := enc label_esc label_plain_lo label_plain_hi.
Definition from_octet : N -> sym := enc from_octet_esc sym_plain_lo sym_plain_hi.
Definition quoted_from_octet : N -> sym := enc quoted_esc sym_plain_lo sym_plain_hi.
Definition display_from_octet : N -> sym := enc display_esc sym_plain_lo sym_plain_hi.

Definition show_with (f : N -> sym) (l : bytes) : text := flat_map (fun c => sym_text (f c)) l.

Definition show_label : bytes -> text := show_with label_sym.
Definition show_cstr_quoted (l : bytes) : text := 34 :: show_with quoted_from_octet l ++ [34].
Definition show_cstr_unquoted : bytes -> text := show_with from_octet.
Definition show_cstr_display : bytes -> text := show_with display_from_octet.

(* ToName::fmt_with_dot; a name is the list of its labels without the root *)
Definition show_name (n : list bytes) : text :=
  match n with
  | [] => [ch_dot]
  | l :: r => show_label l ++ flat_map (fun x => ch_dot :: show_label x) r ++ [ch_dot]
  end.

(* decimal integers ({} of u8/u16/u32) *)
Fixpoint dec_fuel (fuel : nat) (n : N) : text :=
  match fuel with
  | O => []
  | S f => if n <? 10 then [48 + n] else dec_fuel f (n / 10) ++ [48 + n mod 10]
  end.
Definition show_dec (n : N) : text := dec_fuel (S (N.size_nat n)) n.

(* {:02x} *)
Definition hexdig (d : N) : N := if d <? 10 then 48 + d else 87 + d.
Definition show_hex2 (b : N) : text := [hexdig (b / 16); hexdig (b mod 16)].

(* ------------------------------------------------------------------ writers *)

Inductive op := OTok (t : text) | OBegin | OEnd | OComment (t : text).

(* SimpleWriter *)
Definition simple_step (s : bool * text) (o : op) : bool * text :=
  let '(first, out) := s in
  match o with
  | OTok t => (false, out ++ (if first then [] else [simple_sep]) ++ t)
  | _ => s
  end.
Definition render_simple (ops : list op) : text := snd (fold_left simple_step ops (true, [])).

(* TabbedWriter: first, first_block, blocks, out *)
Definition tab_state := (bool * bool * N * text)%type.
Definition tab_step (s : outcome tab_state) (o : op) : outcome tab_state :=
  do st <- s;
  let '(first, first_block, blocks, out) := st in
  match o with
  | OTok t =>
      let sep := if first then []
                 else if blocks =? 0 then [tab_sep_outer]
                 else if first_block then [tab_sep_first] else [tab_sep_inner] in
      Ok (false, false, blocks, out ++ sep ++ t)
  | OBegin =>
      let b := blocks + 1 in
      Ok (first, (if b =? 1 then true else first_block), b, out)
  | OEnd => if blocks =? 0 then Panic 2 else Ok (first, first_block, blocks - 1, out)
  | OComment _ => Ok st
  end.
Definition render_tabbed (ops : list op) : outcome text :=
  do st <- fold_left tab_step ops (Ok (true, true, 0, []));
  Ok (snd st).

(* MultiLineWriter: current_column, block_indent, first, out *)
Definition ml_state := (N * option N * bool * text)%type.
Definition len (t : text) : N := N.of_nat (length t).
Definition ml_token (st : ml_state) (t : text) : ml_state :=
  let '(col, ind, first, out) := st in
  let sep := if first then [] else ml_sep in
  (col + len sep + len t, ind, false, out ++ sep ++ t).
Definition ml_step (st : ml_state) (o : op) : ml_state :=
  match o with
  | OTok t => ml_token st t
  | OBegin =>
      let '(col, _, first, out) := ml_token st ml_open in
      (col, Some (col + ml_indent_extra), first, out)
  | OEnd =>
      let '(col, _, first, out) := st in ml_token (col, None, first, out) ml_close
  | OComment t =>
      let '(col, ind, first, out) := st in
      match ind with
      | Some x => (x, ind, true, out ++ ml_comment_pre ++ t ++ [ch_lf] ++ repeat 32 (N.to_nat x))
      | None => st
      end
  end.
Definition render_multi (ops : list op) : text :=
  snd (fold_left ml_step ops (0, None, true, [])).

Inductive kind := KSimple | KTabbed | KMulti.
Definition render (k : kind) (ops : list op) : outcome text :=
  match k with
  | KSimple => Ok (render_simple ops)
  | KTabbed => render_tabbed ops
  | KMulti => Ok (render_multi ops)
  end.

(* ------------------------------------------------------------------ reader: tokens *)

(* error classes *)
Definition E_short : N := 1.      (* input ended inside the entry *)
Definition E_escape : N := 2.     (* bad escape sequence *)
Definition E_parens : N := 3.     (* unbalanced closing parenthesis *)
Definition E_utf8 : N := 4.       (* unescaped octet >= 128 (UTF-8 decoding not modelled) *)
Definition E_more : N := 5.       (* text after the entry (further entries not modelled) *)
Definition E_symbol : N := 6.     (* symbol is not an octet / not ASCII *)
Definition E_name : N := 7.       (* bad name *)
Definition E_charstr : N := 8.    (* character string too long *)
Definition E_number : N := 9.     (* not a decimal number / overflow *)
Definition E_entry : N := 10.     (* entry-level: missing owner, control entry, missing origin, ... *)
Definition E_tokens : N := 11.    (* missing or trailing tokens *)
Definition E_rtype : N := 12.     (* expected rtype *)
Definition E_generic : N := 13.   (* generic form: bad hex / wrong length *)

Record tok := mk_tok { t_quoted : bool; t_spaced : bool; t_syms : list sym }.

Inductive esc := E0 | E1 | E2 (d1 : N) | E3 (d1 d2 : N).

Inductive mode :=
| MSkip (spaced : bool)
| MComment (spaced : bool)
| MTok (quoted spaced : bool) (acc : list sym) (e : esc)
| MDone.

(* parens, finished tokens (reversed), mode *)
Definition st := (N * list tok * mode)%type.

Definition is_digit (c : N) : bool := (48 <=? c) && (c <=? 57).
Definition is_control (c : N) : bool := (c <? 32) || (c =? 127).

(* SourceBuf::next_item, one character *)
Definition step_skip (p : N) (ts : list tok) (spaced : bool) (c : N) : outcome st :=
  if mem c ws_chars then Ok (p, ts, MSkip true)
  else if c =? ch_open then Ok (p + 1, ts, MSkip spaced)
  else if c =? ch_close then (if 0 <? p then Ok (p - 1, ts, MSkip spaced) else Err E_parens)
  else if c =? ch_comment then Ok (p, ts, MComment spaced)
  else if c =? ch_lf then (if p =? 0 then Ok (p, ts, MDone) else Ok (p, ts, MSkip spaced))
  else if c =? ch_quote then Ok (p, ts, MTok true spaced [] E0)
  else if c =? 92 then Ok (p, ts, MTok false spaced [] E1)
  else if ascii_limit <=? c then Err E_utf8
  else Ok (p, ts, MTok false spaced [SChar c] E0).

Definition step (s : st) (c : N) : outcome st :=
  let '(p, ts, m) := s in
  match m with
  | MDone => Err E_more
  | MSkip spaced => step_skip p ts spaced c
  | MComment spaced => if c =? ch_lf then step_skip p ts spaced c else Ok s
  | MTok q spaced acc E0 =>
      if c =? 92 then Ok (p, ts, MTok q spaced acc E1)
      else if q then
        (if c =? ch_quote then Ok (p, mk_tok q spaced (rev acc) :: ts, MSkip false)
         else if ascii_limit <=? c then Err E_utf8
         else Ok (p, ts, MTok q spaced (SChar c :: acc) E0))
      else
        (if ascii_limit <=? c then Err E_utf8
         else if mem c word_excl then step_skip p (mk_tok q spaced (rev acc) :: ts) false c
         else Ok (p, ts, MTok q spaced (SChar c :: acc) E0))
  | MTok q spaced acc E1 =>
      if is_control c then Err E_escape
      else if negb (is_digit c) then Ok (p, ts, MTok q spaced (SEsc c :: acc) E0)
      else Ok (p, ts, MTok q spaced acc (E2 c))
  | MTok q spaced acc (E2 d1) =>
      if is_digit c then Ok (p, ts, MTok q spaced acc (E3 d1 c)) else Err E_escape
  | MTok q spaced acc (E3 d1 d2) =>
      if is_digit c then
        let v := (d1 - 48) * 100 + (d2 - 48) * 10 + (c - 48) in
        if v <=? 255 then Ok (p, ts, MTok q spaced (SDec v :: acc) E0) else Err E_escape
      else Err E_escape
  end.

Definition run (s : outcome st) (t : text) : outcome st :=
  fold_left (fun s c => do x <- s; step x c) t s.

Definition st0 : st := (0, [], MSkip false).

(* the tokens of the one entry that [t] consists of (terminated by its line feed) *)
Definition tokenize (t : text) : outcome (list tok) :=
  do s <- run (Ok st0) t;
  let '(_, ts, m) := s in
  match m with MDone => Ok (rev ts) | _ => Err E_short end.

(* ------------------------------------------------------------------ reader: token contents *)

(* Symbol::into_octet *)
Definition into_octet (s : sym) : outcome N :=
  match s with
  | SChar c => if (octet_lo <=? c) && (c <=? octet_hi) then Ok c else Err E_symbol
  | SEsc c | SDec c => Ok c
  end.

(* Symbol::into_ascii *)
Definition into_ascii (s : sym) : outcome N :=
  match s with
  | SChar c | SEsc c | SDec c => if (32 <=? c) && (c <=? 126) then Ok c else Err E_symbol
  end.

Fixpoint map_o {A B} (f : A -> outcome B) (l : list A) : outcome (list B) :=
  match l with
  | [] => Ok []
  | x :: r => do y <- f x; do ys <- map_o f r; Ok (y :: ys)
  end.

(* scan_octets *)
Definition read_octets (t : tok) : outcome bytes := map_o into_octet (t_syms t).

(* ------------------------------------------------------------------ reader: one token from raw text *)

(* the symbols of the token that starts at [t] (after next_item has classified it; for a
   quoted token after the opening quote), and the text that follows it: repeated
   SourceBuf::next_symbol.  An unquoted token ends in front of a non-word character, a
   quoted one behind the closing quote. *)
Fixpoint lex (q : bool) (e : esc) (t : text) : outcome (list sym * text) :=
  match t with
  | [] => Err E_short
  | c :: r =>
      match e with
      | E0 =>
          if c =? 92 then lex q E1 r
          else if q then
            (if c =? ch_quote then Ok ([], r)
             else if ascii_limit <=? c then Err E_utf8
             else do x <- lex q E0 r; Ok (SChar c :: fst x, snd x))
          else
            (if ascii_limit <=? c then Err E_utf8
             else if mem c word_excl then Ok ([], t)
             else do x <- lex q E0 r; Ok (SChar c :: fst x, snd x))
      | E1 =>
          if is_control c then Err E_escape
          else if negb (is_digit c) then do x <- lex q E0 r; Ok (SEsc c :: fst x, snd x)
          else lex q (E2 c) r
      | E2 d1 => if is_digit c then lex q (E3 d1 c) r else Err E_escape
      | E3 d1 d2 =>
          if is_digit c then
            let v := (d1 - 48) * 100 + (d2 - 48) * 10 + (c - 48) in
            if v <=? 255 then do x <- lex q E0 r; Ok (SDec v :: fst x, snd x) else Err E_escape
          else Err E_escape
      end
  end.

(* SourceBuf::next_ascii_symbol, repeated: the unescaped printable prefix taken verbatim
   (0x21 ..= 0x7F -- DEL included), and whether a closing quote ended the token *)
Fixpoint fast_take (q : bool) (t : text) : bytes * text * bool :=
  match t with
  | [] => ([], [], false)
  | c :: r =>
      if q && (c =? ch_quote) then ([], r, true)
      else if (c <? fast_lo) || (fast_hi <? c) || (if q then c =? 92 else mem c fast_unquoted_excl) then ([], t, false)
      else let '(o, rest, cl) := fast_take q r in (c :: o, rest, cl)
  end.

(* EntryScanner::scan_octets on the text of the token: fast phase, then next_symbol +
   into_octet for the rest *)
Definition scan_octets_text (q : bool) (t : text) : outcome (bytes * text) :=
  let '(pre, rest, closed) := fast_take q t in
  if closed then Ok (pre, rest)
  else do x <- lex q E0 rest; do o <- map_o into_octet (fst x); Ok (pre ++ o, snd x).

(* the symbols of a token as the in-place scanners (scan_octets, convert_label,
   convert_charstr) see them: in the unescaped printable prefix next_ascii_symbol hands out
   octets verbatim, so an unescaped DEL there counts as the octet 127 *)
Fixpoint lex_fast (q : bool) (t : text) : outcome (list sym * text) :=
  match t with
  | [] => Err E_short
  | c :: r =>
      if q && (c =? ch_quote) then Ok ([], r)
      else if (c <? fast_lo) || (fast_hi <? c) || (if q then c =? 92 else mem c fast_unquoted_excl) then lex q E0 t
      else do x <- lex_fast q r; Ok ((if c =? 127 then SDec 127 else SChar c) :: fst x, snd x)
  end.

(* scan_charstr / convert_charstr *)
Definition read_charstr (t : tok) : outcome bytes :=
  do b <- read_octets t;
  if charstr_latest <? len b then Err E_charstr else Ok b.

(* scan_ascii_str *)
Definition read_ascii (t : tok) : outcome text := map_o into_ascii (t_syms t).

(* impl_scan_unsigned!: checked_mul(10), then checked_add of the digit *)
Definition uint_step (max : N) (s : outcome N) (x : sym) : outcome N :=
  do acc <- s;
  if max <? acc * 10 then Err E_number
  else match x with
       | SChar c => if is_digit c
                    then (if max <? acc * 10 + (c - 48) then Err E_number else Ok (acc * 10 + (c - 48)))
                    else Err E_number
       | _ => Err E_number
       end.
Definition read_uint (max : N) (t : tok) : outcome N := fold_left (uint_step max) (t_syms t) (Ok 0).

(* scan_name / convert_label.  cur: octets of the label being read (reversed),
   k its length, done: finished labels (reversed), w: wire length so far *)
Inductive scanned_name := NOrigin | NAbs (n : list bytes) | NRel (n : list bytes).

Fixpoint name_syms (s : list sym) (cur : bytes) (k : N) (done : list bytes) (w : N)
  : outcome scanned_name :=
  match s with
  | [] =>
      if k =? 0 then (if w =? 0 then Ok NOrigin else Ok (NAbs (rev done)))
      else Ok (NRel (rev (rev cur :: done)))
  | x :: r =>
      match x with
      | SChar 46 =>
          let w' := w + 1 + k in
          if w' =? 1 then (match r with [] => Ok (NAbs []) | _ => Err E_name end)
          else if k =? 0 then Err E_name            (* two consecutive dots *)
          else if name_write_max <? w' then Err E_name
          else name_syms r [] 0 (rev cur :: done) w'
      | _ =>
          do o <- into_octet x;
          if label_latest <=? k + 1 then Err E_name
          else name_syms r (o :: cur) (k + 1) done w
      end
  end.

Fixpoint wire_len (n : list bytes) : N :=
  match n with [] => 0 | l :: r => 1 + len l + wire_len r end.

(* chaining with the origin; [origin] is the label list of an absolute name *)
(* a free standing `@` (skip_at_token at the start of scan_name) *)
Definition is_at (s : list sym) : bool := match s with [SChar c] => c =? ch_at | _ => false end.

Definition read_name (origin : option (list bytes)) (t : tok) : outcome (list bytes) :=
  if is_at (t_syms t) then (match origin with Some o => Ok o | None => Err E_entry end) else
  do n <- name_syms (t_syms t) [] 0 [] 0;
  match n with
  | NAbs l => Ok l
  | NOrigin => match origin with Some o => Ok o | None => Err E_entry end
  | NRel l => match origin with
              | Some o => if 254 <? wire_len l + wire_len o then Err E_name else Ok (l ++ o)
              | None => Err E_entry
              end
  end.

(* ------------------------------------------------------------------ reader: entry level *)

(* the owner of an entry (EntryScanner::_scan_entry on a fresh Zonefile) *)
Definition read_owner (origin : option (list bytes)) (t : tok) : outcome (list bytes) :=
  if t_spaced t then Err E_entry                      (* no last owner *)
  else match t_syms t with
       | SChar c :: r =>
           if c =? ch_dollar then Err E_entry          (* control entry *)
           else if (c =? ch_at) && (match r with [] => true | _ => false end)
           then (match origin with Some o => Ok o | None => Err E_entry end)
           else read_name origin t
       | _ => read_name origin t
       end.

(* mnemonics: u32::from_str, Rtype::from_str, Class::from_str *)
Fixpoint all_digits (s : text) : bool :=
  match s with [] => true | c :: r => is_digit c && all_digits r end.
Definition dec_value (s : text) : N := fold_left (fun a c => a * 10 + (c - 48)) s 0.
(* decimal of at most [max]; Rust's integer FromStr also accepts a leading '+' *)
Definition parse_uint_str (max : N) (s : text) : option N :=
  let d := match s with 43 :: r => r | _ => s end in
  match d with
  | [] => None
  | _ => if all_digits d && (dec_value d <=? max) then Some (dec_value d) else None
  end.
Definition upper (c : N) : N := if (97 <=? c) && (c <=? 122) then c - 32 else c.
Fixpoint eq_nocase (a b : text) : bool :=
  match a, b with
  | [], [] => true
  | x :: a', y :: b' => if upper x =? upper y then eq_nocase a' b' else false
  | _, _ => false
  end.
Fixpoint find_mnemonic (tbl : list (N * text)) (s : text) : option N :=
  match tbl with
  | [] => None
  | (v, m) :: r => if eq_nocase m s then Some v else find_mnemonic r s
  end.
Fixpoint find_value (tbl : list (N * text)) (v : N) : option text :=
  match tbl with
  | [] => None
  | (x, m) :: r => if x =? v then Some m else find_value r v
  end.
Definition parse_prefixed (tbl : list (N * text)) (prefix : text) (s : text) : option N :=
  match find_mnemonic tbl s with
  | Some v => Some v
  | None =>
      let n := length prefix in
      if Nat.ltb n (length s) && eq_nocase (firstn n s) prefix
      then parse_uint_str 65535 (skipn n s) else None
  end.
Definition show_prefixed (tbl : list (N * text)) (prefix : text) (v : N) : text :=
  match find_value tbl v with Some m => m | None => prefix ++ show_dec v end.

Definition parse_rtype := parse_prefixed rtype_mnemonics rtype_prefix.
Definition parse_class := parse_prefixed class_mnemonics class_prefix.
Definition show_rtype := show_prefixed rtype_mnemonics rtype_prefix.
Definition show_class := show_prefixed class_mnemonics class_prefix.

(* EntryScanner::scan_ctr: (class, ttl, rtype) and the remaining tokens *)
Definition scan_ctr (ts : list tok) : outcome (option N * option N * N * list tok) :=
  match ts with
  | [] => Err E_tokens
  | t1 :: r1 =>
      do s1 <- read_ascii t1;
      match parse_uint_str 4294967295 s1 with
      | Some ttl =>
          match r1 with
          | [] => Err E_tokens
          | t2 :: r2 =>
              do s2 <- read_ascii t2;
              match parse_rtype s2 with
              | Some rt => Ok (None, Some ttl, rt, r2)
              | None =>
                  match parse_class s2 with
                  | Some cl =>
                      match r2 with
                      | [] => Err E_tokens
                      | t3 :: r3 =>
                          do s3 <- read_ascii t3;
                          match parse_rtype s3 with
                          | Some rt => Ok (Some cl, Some ttl, rt, r3)
                          | None => Err E_rtype
                          end
                      end
                  | None => Err E_rtype
                  end
              end
          end
      | None =>
          match parse_rtype s1 with
          | Some rt => Ok (None, None, rt, r1)
          | None =>
              match parse_class s1 with
              | Some cl =>
                  match r1 with
                  | [] => Err E_tokens
                  | t2 :: r2 =>
                      do s2 <- read_ascii t2;
                      match parse_uint_str 4294967295 s2 with
                      | Some ttl =>
                          match r2 with
                          | [] => Err E_tokens
                          | t3 :: r3 =>
                              do s3 <- read_ascii t3;
                              match parse_rtype s3 with
                              | Some rt => Ok (Some cl, Some ttl, rt, r3)
                              | None => Err E_rtype
                              end
                          end
                      | None =>
                          match parse_rtype s2 with
                          | Some rt => Ok (Some cl, None, rt, r2)
                          | None => Err E_rtype
                          end
                      end
                  end
              | None => Err E_rtype
              end
          end
      end
  end.

(* ------------------------------------------------------------------ presentation schema *)

(* Ipv4Addr: Display is four decimal octets joined by dots; FromStr accepts exactly four
   groups of one to three digits without a leading zero (a lone 0 is fine), each at most 255 *)
Definition show_ip4 (a : bytes) : text :=
  match a with
  | [a1; a2; a3; a4] => show_dec a1 ++ 46 :: show_dec a2 ++ 46 :: show_dec a3 ++ 46 :: show_dec a4
  | _ => []
  end.
Fixpoint split_dots (cur : text) (s : text) : list text :=
  match s with
  | [] => [rev cur]
  | c :: r => if c =? 46 then rev cur :: split_dots [] r else split_dots (c :: cur) r
  end.
Definition parse_ip4_octet (p : text) : option N :=
  match p with
  | [] => None
  | c :: r =>
      if all_digits p && Nat.leb (length p) 3 && negb ((c =? 48) && negb (match r with [] => true | _ => false end))
         && (dec_value p <=? 255)
      then Some (dec_value p) else None
  end.
Definition parse_ip4 (s : text) : option bytes :=
  match split_dots [] s with
  | [p1; p2; p3; p4] =>
      match parse_ip4_octet p1, parse_ip4_octet p2, parse_ip4_octet p3, parse_ip4_octet p4 with
      | Some a1, Some a2, Some a3, Some a4 => Some [a1; a2; a3; a4]
      | _, _, _, _ => None
      end
  | _ => None
  end.

Definition hexval (c : N) : option N :=
  if is_digit c then Some (c - 48)
  else if (97 <=? c) && (c <=? 102) then Some (c - 87)
  else if (65 <=? c) && (c <=? 70) then Some (c - 55)
  else None.

(* Ipv6Addr (std): Display writes "::ffff:a.b.c.d" for an IPv4-mapped address; otherwise the
   groups in lower-case hexadecimal without leading zeros, the first longest run of two or
   more zero groups replaced by "::".  The address is the list of its eight 16-bit groups. *)
Definition show_hex16 (n : N) : text :=
  let d := [n / 4096; (n / 256) mod 16; (n / 16) mod 16; n mod 16] in
  let fix drop (l : list N) := match l with 0 :: (_ :: _) as r => drop r | _ => l end in
  map hexdig (drop d).
(* (start, len) of the first longest run of zero groups *)
Fixpoint zero_run (l : list bool) (i : N) (cur best : N * N) : N * N :=
  match l with
  | [] => best
  | z :: r =>
      if z then
        let cur' := (if snd cur =? 0 then i else fst cur, snd cur + 1) in
        zero_run r (i + 1) cur' (if snd best <? snd cur' then cur' else best)
      else zero_run r (i + 1) (0, 0) best
  end.
Definition join_colon (ws : list text) : text :=
  match ws with [] => [] | w :: r => w ++ flat_map (fun x => 58 :: x) r end.
Definition show_ip6 (g : list N) : text :=
  match g with
  | [0; 0; 0; 0; 0; 65535; g6; g7] =>
      [58; 58; 102; 102; 102; 102; 58] ++ show_ip4 [g6 / 256; g6 mod 256; g7 / 256; g7 mod 256]
  | _ =>
      let '(st, ln) := zero_run (map (N.eqb 0) g) 0 (0, 0) (0, 0) in
      if 1 <? ln then
        join_colon (map show_hex16 (firstn (N.to_nat st) g)) ++ [58; 58] ++
        join_colon (map show_hex16 (skipn (N.to_nat (st + ln)) g))
      else join_colon (map show_hex16 g)
  end.

(* reading (the grammar the writer produces, and its variants with upper case and leading
   zeros): groups of one to four hex digits separated by ':', at most one "::", optionally
   an IPv4 address in place of the last two groups *)
Fixpoint split_on (sep : N) (cur : text) (s : text) : list text :=
  match s with
  | [] => [rev cur]
  | c :: r => if c =? sep then rev cur :: split_on sep [] r else split_on sep (c :: cur) r
  end.
Definition parse_hex16 (w : text) : option N :=
  match w with
  | [] => None
  | _ => if Nat.leb (length w) 4
         then fold_left (fun a c => match a, hexval c with Some x, Some d => Some (x * 16 + d) | _, _ => None end) w (Some 0)
         else None
  end.
Fixpoint parse_groups (ws : list text) : option (list N) :=
  match ws with
  | [] => Some []
  | [w] => if mem 46 w
           then match parse_ip4 w with Some [a; b; c; d] => Some [a * 256 + b; c * 256 + d] | _ => None end
           else option_map (fun x => [x]) (parse_hex16 w)
  | w :: r => match parse_hex16 w, parse_groups r with Some x, Some xs => Some (x :: xs) | _, _ => None end
  end.
(* the segments between colons; an empty segment marks "::" (two of them at either end) *)
Definition parse_ip6 (s : text) : option (list N) :=
  let segs := split_on 58 [] s in
  let fix find_gap (pre : list text) (l : list text) : option (list text * list text) :=
      match l with
      | [] => None
      | [] :: r => Some (rev pre, r)
      | w :: r => find_gap (w :: pre) r
      end in
  match find_gap [] segs with
  | None => match parse_groups segs with Some g => if Nat.eqb (length g) 8 then Some g else None | None => None end
  | Some (pre, post) =>
      (* "::" at the start gives ["";"";...], at the end [...;"";""], alone ["";"";""] *)
      let pre' := pre in
      let post' := match pre, post with
                   | [], [] :: r => r            (* leading "::" *)
                   | _, _ => post end in
      let post'' := match post' with [[]] => [] | _ => post' end in   (* trailing "::" *)
      if existsb (fun w => match w with [] => true | _ => false end) (pre' ++ post'') then None else
      match parse_groups pre', parse_groups post'' with
      | Some a, Some b =>
          if Nat.leb (length a + length b) 7
          then Some (a ++ repeat 0 (8 - length a - length b) ++ b) else None
      | _, _ => None
      end
  end.

Inductive fkind :=
| FUint (max : N)      (* u8 / u16 / u32 in decimal *)
| FName                (* domain name, fmt_with_dot / scan_name *)
| FCharstr             (* display_quoted / scan_charstr *)
| FWord                (* an opaque word-safe token (Base16/32/64 text, addresses, mnemonics): its text *)
| FCharstrs            (* rest of the entry: one or more quoted character strings (TXT) *)
| FRtype               (* a record type: mnemonic or TYPEnnn (Rtype Display / Rtype::scan) *)
| FTypes               (* rest of the entry: record types (RtypeBitmap: NSEC, NSEC3), possibly none *)
| FSalt                (* NSEC3 salt: a block of its own holding "-" or a Base16 word *)
| FTimestamp           (* RRSIG signature time: decimal u32, or YYYYMMDDHHmmSS (Timestamp::scan) *)
| FIp4                 (* IPv4 address: Ipv4Addr Display / scan_octets + Ipv4Addr::from_str *)
| FB32                 (* Base32hex word in mid-record (NSEC3 next owner hash): C18 encoder / SymbolConverter *)
| FDot                 (* the constant "." (IPSECKEY without a gateway) *)
| FQuoted              (* quoted octets without a length limit (DisplayQuoted::from_slice / scan_octets: CAA value) *)
| FRest.               (* rest of the entry: the word texts of all remaining tokens, concatenated
                          (convert_entry: Base16/Base64 text that may be split over tokens or absent) *)

Inductive fval :=
| VUint (n : N)
| VName (n : list bytes)
| VCharstr (b : bytes)
| VWord (w : text)
| VCharstrs (l : list bytes)
| VRest (w : text)
| VRtype (n : N)
| VTypes (l : list N)
| VSalt (w : text)      (* the Base16 text of the salt, empty for no salt *)
| VQuoted (b : bytes)
| VIp4 (a : bytes)      (* the four octets *)
| VDot
| VB32 (b : bytes).

Definition show_field (v : fval) : list op :=
  match v with
  | VUint n => [OTok (show_dec n)]
  | VName n => [OTok (show_name n)]
  | VCharstr b => [OTok (show_cstr_quoted b)]
  | VWord w => [OTok w]
  | VCharstrs l => map (fun b => OTok (show_cstr_quoted b)) l
  | VRest w => [OTok w]
  | VRtype n => [OTok (show_rtype n)]
  | VTypes l => map (fun n => OTok (show_rtype n)) l
  | VSalt w => [OBegin; OTok (match w with [] => [45] | _ => w end)]   (* the block is closed after the comment *)
  | VQuoted b => [OTok (show_cstr_quoted b)]
  | VIp4 a => [OTok (show_ip4 a)]
  | VDot => [OTok [ch_dot]]
  | VB32 b => [OTok (match DV.C18.Model.b32_display b with Ok t => t | _ => [] end)]
  end.

(* a field with the comment the writer attaches to it *)
Definition field_ops (fc : fval * list text) : list op :=
  show_field (fst fc) ++ map OComment (snd fc)
  ++ match fst fc with VSalt _ => [OEnd] | _ => [] end.

Definition data_ops (block : bool) (fs : list (fval * list text)) : list op :=
  if block then OBegin :: flat_map field_ops fs ++ [OEnd] else flat_map field_ops fs.

Fixpoint word_text (s : list sym) : outcome text :=
  match s with
  | [] => Ok []
  | SChar c :: r => do t <- word_text r; Ok (c :: t)
  | _ => Err E_symbol
  end.

(* Timestamp::scan: at most 10 characters: u32 FromStr; exactly 14: %Y%m%d%H%M%S in UTC,
   seconds since the epoch `as u32` (C17's date model); anything else is an error *)
Definition digits2 (a b : N) : N := (a - 48) * 10 + (b - 48).
Definition leap_year (y : N) : bool := ((y mod 4 =? 0) && negb (y mod 100 =? 0)) || (y mod 400 =? 0).
Definition days_in_month (y m : N) : N :=
  if m =? 2 then (if leap_year y then 29 else 28)
  else if (m =? 4) || (m =? 6) || (m =? 9) || (m =? 11) then 30 else 31.
Definition parse_date14 (s : text) : option N :=
  match s with
  | [y1; y2; y3; y4; m1; m2; d1; d2; h1; h2; i1; i2; s1; s2] =>
      if all_digits s then
        let y := digits2 y1 y2 * 100 + digits2 y3 y4 in
        let mo := digits2 m1 m2 in let d := digits2 d1 d2 in
        let h := digits2 h1 h2 in let mi := digits2 i1 i2 in let se := digits2 s1 s2 in
        if (1 <=? mo) && (mo <=? 12) && (1 <=? d) && (d <=? days_in_month y mo) && (h <=? 23) && (mi <=? 59) && (se <=? 59)
           (* jiff's Timestamp ends at 9999-12-30T22:00:00Z *)
           && (DV.C17.Model.epoch_secs (Z.of_N y) (Z.of_N mo) (Z.of_N d) (Z.of_N h) (Z.of_N mi) (Z.of_N se) <=? 253402207200)%Z
        then Some (DV.C17.Model.c17_date y mo d h mi se) else None
      else None
  | _ => None
  end.
Definition read_timestamp (t : tok) : outcome N :=
  do s <- read_ascii t;
  if Nat.leb (length s) 10 then
    match parse_uint_str 4294967295 s with Some n => Ok n | None => Err E_number end
  else match parse_date14 s with Some n => Ok n | None => Err E_number end.

(* Rtype::scan: scan_ascii_str + FromStr *)
Definition read_rtype (t : tok) : outcome N :=
  do s <- read_ascii t;
  match parse_rtype s with Some n => Ok n | None => Err E_rtype end.

Definition read_field (k : fkind) (ts : list tok) : outcome (fval * list tok) :=
  match k with
  | FCharstrs =>
      match ts with
      | [] => Err E_tokens
      | _ => do l <- map_o read_charstr ts; Ok (VCharstrs l, [])
      end
  | FRest => do ws <- map_o (fun t => word_text (t_syms t)) ts; Ok (VRest (concat ws), [])
  | FTypes => do l <- map_o read_rtype ts; Ok (VTypes l, [])
  | _ =>
      match ts with
      | [] => Err E_tokens
      | t :: r =>
          match k with
          | FUint max => do n <- read_uint max t; Ok (VUint n, r)
          | FName => do n <- read_name None t; Ok (VName n, r)
          | FCharstr => do b <- read_charstr t; Ok (VCharstr b, r)
          | FWord => do w <- word_text (t_syms t); Ok (VWord w, r)
          | FRtype => do n <- read_rtype t; Ok (VRtype n, r)
          | FTimestamp => do n <- read_timestamp t; Ok (VUint n, r)
          | FSalt => do w <- word_text (t_syms t);
                     (* at most Nsec3Salt::MAX_LEN octets, i.e. twice as many hex digits *)
                     if 2 * nsec3_salt_max <? len w then Err E_charstr else
                     Ok (VSalt (match w with [45] => [] | _ => w end), r)
          | FQuoted => do b <- read_octets t; Ok (VQuoted b, r)
          | FB32 => do w <- word_text (t_syms t);
                    do b <- DV.C18.Model.b32_convert [w];
                    if nsec3_hash_max <? len b then Err E_charstr else Ok (VB32 b, r)
          | FDot => do w <- read_ascii t;
                    match w with [46] => Ok (VDot, r) | _ => Err E_symbol end
          | FIp4 => do b <- read_octets t;
                    match parse_ip4 b with Some a => Ok (VIp4 a, r) | None => Err E_symbol end
          | FCharstrs | FRest | FTypes => Err E_tokens
          end
      end
  end.

Fixpoint read_fields (ks : list fkind) (ts : list tok) : outcome (list fval) :=
  match ks with
  | [] => match ts with [] => Ok [] | _ => Err E_tokens end     (* require_line_feed *)
  | k :: kr => do x <- read_field k ts; let '(v, r) := x in do vs <- read_fields kr r; Ok (v :: vs)
  end.

Record record := mk_record {
  r_owner : list bytes; r_ttl : N; r_class : N; r_type : N;
  r_block : bool; r_fields : list (fval * list text) }.

(* Record's ZonefileFmt *)
Definition record_ops (r : record) : list op :=
  OTok (show_name (r_owner r)) :: OTok (show_dec (r_ttl r)) :: OTok (show_class (r_class r))
  :: OTok (show_rtype (r_type r)) :: data_ops (r_block r) (r_fields r).

Definition show_record (k : kind) (r : record) : outcome text :=
  do t <- render k (record_ops r); Ok (t ++ [ch_lf]).

(* the reader on the text of one entry, on a fresh Zonefile without origin *)
Definition read_record (schema : list fkind) (t : text)
  : outcome (list bytes * N * N * N * list fval) :=
  do ts <- tokenize t;
  match ts with
  | [] => Err E_tokens
  | t0 :: r0 =>
      do owner <- read_owner None t0;
      do c <- scan_ctr r0;
      let '(cl, ttl, rt, rest) := c in
      match cl with
      | None => Err E_entry                       (* missing last class *)
      | Some cl =>
          do vs <- read_fields schema rest;
          Ok (owner, match ttl with Some x => x | None => 3600 end, cl, rt, vs)
      end
  end.

(* ------------------------------------------------------------------ per-type schemas (T1: type_schemas) *)

(* writer kinds: 1 u8, 2 u16, 3 u32 (also Serial, Ttl, Timestamp), 4 name, 5 quoted char-string,
   6 Base16, 7 Base64, 8 word (address, type mnemonic), 9 char-strings to the end.
   reader kinds: 1..5 alike, 6 Base16 to the end of the entry, 7 Base64 to the end, 8 scan_octets
   (then FromStr), 9 scan_charstr_entry, 10 Timestamp::scan, 13 decimal enum, 14 Rtype::scan *)
Definition schema := (N * (bool * (list (N * (N * list N)) * list N)))%type.
Definition s_code (e : schema) : N := fst e.
Definition s_block (e : schema) : bool := fst (snd e).
Definition s_wfields (e : schema) : list (N * (N * list N)) := fst (snd (snd e)).
Definition s_rkinds (e : schema) : list N := snd (snd (snd e)).

(* writer kind and reader kind of the same field agree *)
Definition compat (w r : N) : bool :=
  match w, r with
  | 1, 1 | 2, 2 | 3, 3 | 4, 4 | 5, 5 | 6, 6 | 7, 7 | 8, 8 | 9, 9 => true
  | 3, 10 => true          (* Timestamp: written as a u32 in decimal, read by Timestamp::scan (<= 10 digits: u32) *)
  | 1, 13 => true          (* decimal enum: written as u8, read by FromStr = decimal u8 *)
  | 13, 14 => true         (* type mnemonic / TYPEnnn *)
  | 10, 11 => true         (* type list of an NSEC / NSEC3 bitmap *)
  | 11, 12 => true         (* NSEC3 salt *)
  | 12, 15 => true         (* Base32hex word in mid-record (NSEC3 next owner hash) *)
  | 14, 8 => true          (* quoted octets, read by scan_octets (CAA value) *)
  | 15, 16 => true         (* IPv4 address *)
  | 17, 18 => true         (* the constant "." *)
  | 8, 5 => true           (* word read by scan_charstr (CAA tag: letters and digits only) *)
  | _, _ => false
  end.

(* the field kind of the model for a (writer kind, reader kind) pair *)
Definition fkind_of (w r : N) : option fkind :=
  match r with
  | 1 | 13 => Some (FUint 255)
  | 2 => Some (FUint 65535)
  | 3 => Some (FUint 4294967295)
  | 10 => Some FTimestamp
  | 4 => Some FName
  | 5 => if w =? 8 then Some FWord else Some FCharstr
  | 6 | 7 => Some FRest
  | 8 => if w =? 14 then Some FQuoted else Some FWord
  | 14 => Some FRtype
  | 16 => Some FIp4
  | 18 => Some FDot
  | 11 => Some FTypes
  | 12 => Some FSalt
  | 15 => Some FB32
  | 9 => Some FCharstrs
  | _ => None
  end.

Fixpoint opt_map {A B} (f : A -> option B) (l : list A) : option (list B) :=
  match l with
  | [] => Some []
  | x :: r => match f x, opt_map f r with Some y, Some ys => Some (y :: ys) | _, _ => None end
  end.

Definition schema_kinds (e : schema) : option (list fkind) :=
  opt_map (fun p => fkind_of (fst p) (snd p)) (combine (map fst (s_wfields e)) (s_rkinds e)).

Fixpoint compat_all (ws : list (N * (N * list N))) (rs : list N) : bool :=
  match ws, rs with
  | [], [] => true
  | w :: wr, r :: rr =>
      compat (fst w) r && compat_all wr rr &&
      (* a field that reads to the end of the entry is the last one *)
      (match r with 6 | 7 | 9 | 11 => match rr with [] => true | _ => false end | _ => true end)
  | _, _ => false
  end.

Definition schema_ok (e : schema) : bool :=
  compat_all (s_wfields e) (s_rkinds e) &&
  match schema_kinds e with Some _ => true | None => false end &&
  forallb (fun w => negb (mem ch_lf (snd (snd w)))) (s_wfields e) &&
  (s_code e <? 65536).

Fixpoint find_schema (l : list schema) (code : N) : option schema :=
  match l with [] => None | e :: r => if s_code e =? code then Some e else find_schema r code end.

Definition val_matches (k : fkind) (v : fval) : bool :=
  match k, v with
  | FUint _, VUint _ | FTimestamp, VUint _ | FName, VName _ | FCharstr, VCharstr _ | FWord, VWord _
  | FCharstrs, VCharstrs _ | FRest, VRest _ | FRtype, VRtype _ | FTypes, VTypes _ | FSalt, VSalt _
  | FQuoted, VQuoted _ | FIp4, VIp4 _ | FDot, VDot | FB32, VB32 _ => true
  | _, _ => false
  end.

Fixpoint vals_match (ks : list fkind) (vs : list fval) : bool :=
  match ks, vs with
  | [], [] => true
  | k :: kr, v :: vr => val_matches k v && vals_match kr vr
  | _, _ => false
  end.

(* the comment of a field: static text, or (dynamic) a text supplied by the caller *)
(* comment flag: 0 none, 1 static text, 2 dynamic (its text is a parameter; [] here),
   3 a dynamic comment followed by a static one (IPSECKEY) *)
Fixpoint with_comments (ws : list (N * (N * list N))) (vs : list fval) : list (fval * list text) :=
  match ws, vs with
  | w :: wr, v :: vr =>
      (v, match fst (snd w) with 0 => [] | 1 => [snd (snd w)] | 2 => [[]] | _ => [[]; snd (snd w)] end) :: with_comments wr vr
  | _, _ => []
  end.

Definition typed_record (e : schema) (owner : list bytes) (ttl cl : N) (vs : list fval) : record :=
  mk_record owner ttl cl (s_code e) (s_block e) (with_comments (s_wfields e) vs).

(* IPSECKEY: the kind of the gateway field (writer kind 16 / reader kind 17 in ipseckey_schema)
   is decided by the gateway type, the second field; ipseckey_gateways lists the arms of
   IpseckeyGateway's ZonefileFmt and scan *)
Definition resolve_gateway (e : schema) (g : N * (N * N)) : schema :=
  (s_code e, (s_block e,
    (map (fun w => if fst w =? 16 then (fst (snd g), snd w) else w) (s_wfields e),
     map (fun r => if r =? 17 then snd (snd g) else r) (s_rkinds e)))).
Fixpoint find_gateway (l : list (N * (N * N))) (t : N) : option (N * (N * N)) :=
  match l with [] => None | g :: r => if fst g =? t then Some g else find_gateway r t end.
Definition ipseckey_schema_for (vs : list fval) : option schema :=
  match vs with
  | _ :: VUint t :: _ => option_map (resolve_gateway ipseckey_schema) (find_gateway ipseckey_gateways t)
  | _ => None
  end.
(* Ipseckey::scan: the key may only be missing when the algorithm is 0 *)
Definition ipseckey_key_rule (vs : list fval) : bool :=
  match vs with
  | [_; _; VUint alg; _; VRest key] => negb (match key with [] => true | _ => false end) || (alg =? 0)
  | _ => true
  end.

(* correspondence entry point: the record of type [code] with the given field values, written
   in kind [k] with the schema extracted from the type's ZonefileFmt impl, and read back with the
   schema extracted from its scan function *)
Definition c06_rec (k code : N) (owner : list bytes) (ttl cl : N) (vs : list fval)
  : outcome (text * outcome (list bytes * N * N * N * list fval)) :=
  match (if code =? s_code ipseckey_schema then ipseckey_schema_for vs else find_schema type_schemas code) with
  | None => Err E_entry
  | Some e =>
      match schema_kinds e with
      | None => Err E_entry
      | Some ks =>
          if negb (vals_match ks vs) then Err E_tokens else
          do t <- show_record (if k =? 0 then KSimple else if k =? 1 then KTabbed else KMulti)
                              (typed_record e owner ttl cl vs);
          Ok (t, if (code =? s_code ipseckey_schema) && negb (ipseckey_key_rule vs) then Err E_entry else read_record ks t)
      end
  end.

(* ------------------------------------------------------------------ RFC 3597 generic form *)

(* UnknownRecordData's ZonefileFmt: ONE write_token call whose text contains blanks *)
Definition generic_text (data : bytes) : text :=
  [92; 35; 32] ++ show_dec (len data) ++ flat_map (fun b => 32 :: show_hex2 b) data.

(* base16::SymbolConverter over the symbols of all remaining tokens *)
Fixpoint hex_syms (s : list sym) (pending : option N) : outcome bytes :=
  match s with
  | [] => match pending with None => Ok [] | Some _ => Err E_generic end
  | x :: r =>
      match x with
      | SChar c | SEsc c =>
          match hexval c with
          | None => Err E_generic
          | Some d =>
              match pending with
              | None => hex_syms r (Some (d * 16))
              | Some hi => do t <- hex_syms r None; Ok ((hi + d) :: t)
              end
          end
      | SDec _ => Err E_generic
      end
  end.

(* ZoneRecordData::scan after scan_ctr: scan_opt_unknown_marker, then
   UnknownRecordData::scan_without_marker *)
Definition is_marker (t : tok) : bool :=
  negb (t_quoted t) && match t_syms t with [SEsc c] => c =? ch_hash | _ => false end.

Definition read_generic (ts : list tok) : outcome bytes :=
  match ts with
  | m :: l :: r =>
      if is_marker m then
        do n <- read_uint 65535 l;
        do d <- hex_syms (flat_map t_syms r) None;
        if len d =? n then Ok d else Err E_generic
      else Err E_generic
  | _ => Err E_generic
  end.

Definition generic_ops (owner : list bytes) (ttl cl rt : N) (data : bytes) : list op :=
  [OTok (show_name owner); OTok (show_dec ttl); OTok (show_class cl); OTok (show_rtype rt);
   OTok (generic_text data)].

Definition read_generic_record (t : text) : outcome (list bytes * N * N * N * bytes) :=
  do ts <- tokenize t;
  match ts with
  | [] => Err E_tokens
  | t0 :: r0 =>
      do owner <- read_owner None t0;
      do c <- scan_ctr r0;
      let '(cl, ttl, rt, rest) := c in
      match cl with
      | None => Err E_entry
      | Some cl => do d <- read_generic rest;
                   Ok (owner, match ttl with Some x => x | None => 3600 end, cl, rt, d)
      end
  end.

(* ------------------------------------------------------------------ entry points of the correspondence driver *)

Definition c06_show_label (l : bytes) : text := show_label l.
Definition c06_show_cstr (m : N) (l : bytes) : text :=
  if m =? 0 then show_cstr_quoted l else if m =? 1 then show_cstr_unquoted l else show_cstr_display l.
Definition c06_show_name (n : list bytes) : text := show_name n.
Definition c06_render (k : N) (ops : list op) : outcome text :=
  render (if k =? 0 then KSimple else if k =? 1 then KTabbed else KMulti) ops.
Definition nth_tok (n : nat) (ts : list tok) : outcome tok :=
  match nth_error ts n with Some t => Ok t | None => Err E_tokens end.
(* ". 0 IN NS <name>\n": the name read from the fifth token *)
Definition c06_rdname (line : text) : outcome (list bytes) :=
  do ts <- tokenize line;
  match ts with
  | [_; _; _; _; t] => read_name None t
  | _ => Err E_tokens
  end.
(* "<name> 0 IN NS .\n": the owner *)
Definition c06_owner (line : text) : outcome (list bytes) :=
  do ts <- tokenize line;
  match ts with
  | [t; _; _; _; _] => read_owner None t
  | _ => Err E_tokens
  end.
(* ". 0 IN HINFO <token> \"\"\n" (which = 0: scan_charstr = scan_octets) or ". 0 IN TXT <token>\n"
   (which = 1: convert_charstr): the first character string, read with the fast path on the raw
   text of the token *)
Definition c06_hinfo (which : N) (q : bool) (tok : text) : outcome bytes :=
  let tail := (if q then [ch_quote] else []) ++ (if which =? 0 then [32; 34; 34; ch_lf] else [ch_lf]) in
  let head := if which =? 0 then [46; 32; 48; 32; 73; 78; 32; 72; 73; 78; 70; 79; 32] else [46; 32; 48; 32; 73; 78; 32; 84; 88; 84; 32] in
  let line := head ++ (if q then [ch_quote] else []) ++ tok ++ tail in
  do ts <- tokenize line;
  if negb (Nat.eqb (length ts) (if which =? 0 then 6 else 5)) then Err E_tokens else
  match nth_error ts 4 with
  | Some t5 =>
      (* ZoneRecordData::scan first looks for the generic-form marker `\#` *)
      if is_marker t5 then Err E_generic else
      do x <- scan_octets_text q (tok ++ tail);
      if charstr_latest <? len (fst x) then Err E_charstr else Ok (fst x)
  | None => Err E_tokens
  end.

(* the unsigned scanners on raw token text: which = 0: u8 (". 0 IN CAA <tok> a \"\""),
   1: u16 (". 0 IN MX <tok> ."), 2: u32 (". 0 IN SOA . . <tok> 0 0 0 0"), 3: Ttl (". 0 IN SOA . . 0 <tok> 0 0 0") *)
Definition c06_uint (which : N) (tok : text) : outcome N :=
  let sp := [32] in
  let head := [46; 32; 48; 32; 73; 78; 32] in
  let line :=
    if which =? 0 then head ++ [67; 65; 65; 32] ++ tok ++ [32; 97; 32; 34; 34; ch_lf]
    else if which =? 1 then head ++ [77; 88; 32] ++ tok ++ [32; 46; ch_lf]
    else if which =? 2 then head ++ [83; 79; 65; 32; 46; 32; 46; 32] ++ tok ++ [32; 48; 32; 48; 32; 48; 32; 48; ch_lf]
    else head ++ [83; 79; 65; 32; 46; 32; 46; 32; 48; 32] ++ tok ++ [32; 48; 32; 48; 32; 48; ch_lf] in
  let want := if which =? 0 then 7%nat else if which =? 1 then 6%nat else 11%nat in
  let idx := if which =? 0 then 4%nat else if which =? 1 then 4%nat else if which =? 2 then 6%nat else 7%nat in
  let max := if which =? 0 then 255 else if which =? 1 then 65535 else 4294967295 in
  do ts <- tokenize line;
  if negb (Nat.eqb (length ts) want) then Err E_tokens else
  match nth_error ts 4, nth_error ts idx with
  | Some t5, Some t => if is_marker t5 then Err E_generic else read_uint max t
  | _, _ => Err E_tokens
  end.

(* ". 0 IN NSEC3PARAM 1 0 0 <salt>\n" (which = 0) and ". 0 IN NSEC3 1 0 0 - <hash>\n" (which = 1): the
   length of the salt text / of the decoded hash, with the 255 octet limits *)
Definition c06_n3len (which : N) (tok : text) : outcome N :=
  let line := if which =? 0 then [46; 32; 48; 32; 73; 78; 32; 78; 83; 69; 67; 51; 80; 65; 82; 65; 77; 32; 49; 32; 48; 32; 48; 32] ++ tok ++ [ch_lf]
              else [46; 32; 48; 32; 73; 78; 32; 78; 83; 69; 67; 51; 32; 49; 32; 48; 32; 48; 32; 45; 32] ++ tok ++ [ch_lf] in
  do ts <- tokenize line;
  if which =? 0 then
    match ts with
    | [_; _; _; _; _; _; _; t] => do x <- read_field FSalt [t]; match fst x with VSalt w => Ok (len w / 2) | _ => Err E_tokens end
    | _ => Err E_tokens end
  else
    match ts with
    | [_; _; _; _; _; _; _; _; t] => do x <- read_field FB32 [t]; match fst x with VB32 b => Ok (len b) | _ => Err E_tokens end
    | _ => Err E_tokens end.

(* ". 0 IN RRSIG A 8 0 0 <tok> 0 0 . AA==\n": the expiration time *)
Definition c06_ts (tok : text) : outcome N :=
  do ts <- tokenize ([46; 32; 48; 32; 73; 78; 32; 82; 82; 83; 73; 71; 32; 65; 32; 56; 32; 48; 32; 48; 32] ++ tok ++
                     [32; 48; 32; 48; 32; 46; 32; 65; 65; 61; 61; ch_lf]);
  if negb (Nat.eqb (length ts) 13) then Err E_tokens else
  match nth_error ts 8 with Some t => read_timestamp t | None => Err E_tokens end.

(* IPv6 text: Display of the address, and ". 0 IN AAAA <text>\n" read back *)
Definition c06_ip6show (g : list N) : text := show_ip6 g.
Definition c06_ip6read (tok : text) : outcome (list N) :=
  do ts <- tokenize ([46; 32; 48; 32; 73; 78; 32; 65; 65; 65; 65; 32] ++ tok ++ [ch_lf]);
  match ts with
  | [_; _; _; _; t5] =>
      if is_marker t5 then Err E_generic else
      do b <- read_octets t5;
      match parse_ip6 b with Some g => Ok g | None => Err E_symbol end
  | _ => Err E_tokens
  end.

(* ". 0 IN NS <token>\n": scan_name / convert_label with the fast path on the raw text *)
Definition c06_nstext (tok : text) : outcome (list bytes) :=
  do ts <- tokenize ([46; 32; 48; 32; 73; 78; 32; 78; 83; 32] ++ tok ++ [ch_lf]);
  match ts with
  | [_; _; _; _; t5] =>
      if is_marker t5 then Err E_generic else
      do x <- lex_fast false (tok ++ [ch_lf]);
      read_name None (mk_tok false true (fst x))
  | _ => Err E_tokens
  end.

(* ". 0 IN TXT x <layout>\n": the character strings *)
Definition c06_txt (line : text) : outcome (list bytes) :=
  do ts <- tokenize line;
  match ts with
  | _ :: _ :: _ :: _ :: r => match r with [] => Err E_tokens | _ => map_o read_charstr r end
  | _ => Err E_tokens
  end.
