(* C06 proofs, part 1: escape tables (T1 obligations), one symbol through the
   reader's state machine, tokens, labels / character strings / names /
   integers read back. *)
From Coq Require Import NArith ZArith List Bool Lia ZifyN ZifyBool ZifyNat.
From DV Require Import Base.Outcome Base.Bytes C06.Gen C06.Model.
Import ListNotations.
Local Open Scope N_scope.
Ltac Zify.zify_post_hook ::= Z.div_mod_to_equations.

(* ------------------------------------------------------------------ all octets *)

Definition octets256 : list N := map N.of_nat (seq 0 256).

Lemma in_octets256 b : b < 256 -> In b octets256.
Proof.
  intros H. unfold octets256. apply in_map_iff. exists (N.to_nat b). split; [lia|].
  apply in_seq. lia.
Qed.

Lemma forall_octets (P : N -> bool) :
  forallb P octets256 = true -> forall b, b < 256 -> P b = true.
Proof. intros H b Hb. rewrite forallb_forall in H. apply H, in_octets256, Hb. Qed.

(* ------------------------------------------------------------------ safety of symbols *)

(* a symbol whose text can stand inside an unquoted / quoted token *)
Definition safe_sym (q : bool) (s : sym) : bool :=
  match s with
  | SChar c => negb (c =? 92) && (c <? ascii_limit) &&
               (if q then negb (c =? ch_quote) else negb (mem c word_excl))
  | SEsc c => negb (is_control c) && negb (is_digit c)
  | SDec c => c <? 256
  end.

(* what the writer tables must satisfy for every octet: the symbol denotes the
   octet, is safe, and (plain characters) is accepted by into_octet *)
Definition enc_ok (q : bool) (f : N -> sym) (b : N) : bool :=
  safe_sym q (f b) &&
  match f b with
  | SChar c => (c =? b) && (octet_lo <=? c) && (c <=? octet_hi)
  | SEsc c => c =? b
  | SDec c => c =? b
  end.

Lemma label_table : forall b, b < 256 ->
  enc_ok false label_sym b = true /\ label_sym b <> SChar ch_dot.
Proof.
  intros b Hb.
  assert (H : forallb (fun b => enc_ok false label_sym b &&
     match label_sym b with SChar c => negb (c =? ch_dot) | _ => true end) octets256 = true) by (vm_compute; reflexivity).
  pose proof (forall_octets _ H b Hb) as H1. cbv beta in H1. apply andb_true_iff in H1 as [H1 H2]. split; [exact H1|].
  intros E. rewrite E in H2. vm_compute in H2. discriminate.
Qed.

Lemma quoted_table : forall b, b < 256 -> enc_ok true quoted_from_octet b = true.
Proof. apply forall_octets. vm_compute. reflexivity. Qed.

(* Symbol::from_octet (display_unquoted) is NOT safe for unquoted tokens:
   parentheses are written verbatim.  Its callers in the record writer (the values of
   unknown SVCB parameters and of dohpath) escape the parentheses themselves (T1:
   svcb_values_escaped_with_parens). *)
Lemma from_octet_table_refuted : exists b, b < 256 /\ enc_ok false from_octet b = false.
Proof. exists 40. split; [lia | vm_compute; reflexivity]. Qed.

Definition from_octet_known (b : N) : Prop := b = 40 \/ b = 41.
Lemma from_octet_table : forall b, b < 256 -> ~ from_octet_known b -> enc_ok false from_octet b = true.
Proof.
  intros b Hb Hk.
  assert (H : forallb (fun b => enc_ok false from_octet b || (b =? 40) || (b =? 41)) octets256 = true) by (vm_compute; reflexivity).
  pose proof (forall_octets _ H b Hb) as H1. cbv beta in H1. unfold from_octet_known in Hk.
  destruct (enc_ok false from_octet b) eqn:E; [reflexivity|]. cbn [orb] in H1.
  apply orb_true_iff in H1 as [H1|H1]; apply N.eqb_eq in H1; exfalso; apply Hk; [left|right]; exact H1.
Qed.

(* every octet outside printable ASCII -- in particular DEL (0x7F), which the reader's
   next_ascii_symbol fast path would take verbatim -- is written as a decimal escape by
   Display for Label and by all three Symbol constructors *)
Lemma nonprintable_escaped : forall b, b < 256 -> (b < 32 \/ 127 <= b) ->
  label_sym b = SDec b /\ from_octet b = SDec b /\ quoted_from_octet b = SDec b /\ display_from_octet b = SDec b.
Proof.
  intros b Hb Hr.
  assert (H : forallb (fun b => ((32 <=? b) && (b <? 127)) ||
     (match label_sym b with SDec c => c =? b | _ => false end &&
      match from_octet b with SDec c => c =? b | _ => false end &&
      match quoted_from_octet b with SDec c => c =? b | _ => false end &&
      match display_from_octet b with SDec c => c =? b | _ => false end)) octets256 = true) by (vm_compute; reflexivity).
  pose proof (forall_octets _ H b Hb) as H1. cbv beta in H1. clear H.
  apply orb_true_iff in H1 as [H1|H1]; [lia|].
  apply andb_true_iff in H1 as [H1 H4]. apply andb_true_iff in H1 as [H1 H3]. apply andb_true_iff in H1 as [H1 H2].
  assert (S : forall s : sym, match s with SDec c => c =? b | _ => false end = true -> s = SDec b).
  { intros [c|c|c] E; try discriminate E. apply N.eqb_eq in E. subst. reflexivity. }
  repeat split; apply S; assumption.
Qed.

Lemma del_escaped : label_sym 127 = SDec 127 /\ from_octet 127 = SDec 127 /\
  quoted_from_octet 127 = SDec 127 /\ display_from_octet 127 = SDec 127.
Proof. apply nonprintable_escaped; lia. Qed.

Lemma digit3_ok : forall c, c < 256 ->
  is_digit (48 + c / 100) = true /\ is_digit (48 + (c / 10) mod 10) = true /\ is_digit (48 + c mod 10) = true /\
  (48 + c / 100 - 48) * 100 + (48 + (c / 10) mod 10 - 48) * 10 + (48 + c mod 10 - 48) = c.
Proof. intros c Hc. unfold is_digit. repeat split; lia. Qed.

(* ------------------------------------------------------------------ the state machine on text *)

Lemma run_app s a b : run s (a ++ b) = run (run s a) b.
Proof. unfold run. apply fold_left_app. Qed.

Lemma run_cons s c t : run s (c :: t) = run (do x <- s; step x c) t.
Proof. reflexivity. Qed.

Lemma run_nil s : run s [] = s.
Proof. reflexivity. Qed.

Lemma run_err {t} e : run (Err e) t = Err e.
Proof. induction t; [reflexivity | rewrite run_cons; exact IHt]. Qed.

(* one symbol inside a token *)
Lemma run_sym q sp p ts acc s rest : safe_sym q s = true ->
  run (Ok (p, ts, MTok q sp acc E0)) (sym_text s ++ rest) = run (Ok (p, ts, MTok q sp (s :: acc) E0)) rest.
Proof.
  intros H. destruct s as [c|c|c]; cbn [sym_text app safe_sym] in *.
  - apply andb_true_iff in H as [H H3]. apply andb_true_iff in H as [H1 H2].
    rewrite run_cons. cbn [bind step].
    destruct (c =? 92) eqn:E1; [discriminate|].
    destruct (ascii_limit <=? c) eqn:E2; [lia|].
    destruct q.
    + destruct (c =? ch_quote) eqn:E3; [discriminate|]. reflexivity.
    + destruct (mem c word_excl) eqn:E3; [discriminate|]. reflexivity.
  - apply andb_true_iff in H as [H1 H2].
    rewrite !run_cons. cbn [bind step]. rewrite N.eqb_refl. cbn [bind step].
    destruct (is_control c); [discriminate|]. destruct (is_digit c); [discriminate|]. reflexivity.
  - destruct (digit3_ok c ltac:(lia)) as (D1 & D2 & D3 & D4).
    unfold digit3. cbn [app]. rewrite !run_cons. cbn [bind step]. rewrite N.eqb_refl. cbn [bind step].
    assert (C1 : is_control (48 + c / 100) = false) by (unfold is_control; lia).
    rewrite C1, D1. cbn [negb bind step]. rewrite D2. cbn [bind step]. rewrite D3, D4.
    assert (E : (c <=? 255) = true) by lia. rewrite E. reflexivity.
Qed.

Lemma run_syms q sp p ts acc l rest : forallb (safe_sym q) l = true ->
  run (Ok (p, ts, MTok q sp acc E0)) (flat_map sym_text l ++ rest)
  = run (Ok (p, ts, MTok q sp (rev l ++ acc) E0)) rest.
Proof.
  revert acc. induction l as [|s l IH]; intros acc H; [reflexivity|].
  cbn [forallb] in H. apply andb_true_iff in H as [H1 H2].
  cbn [flat_map]. rewrite <- app_assoc, run_sym by exact H1. rewrite IH by exact H2.
  cbn [rev]. rewrite <- app_assoc. reflexivity.
Qed.

(* ------------------------------------------------------------------ token shapes *)

Inductive tshape := TWord (l : list sym) | TQuoted (l : list sym).

Definition shape_text (sh : tshape) : text :=
  match sh with
  | TWord l => flat_map sym_text l
  | TQuoted l => ch_quote :: flat_map sym_text l ++ [ch_quote]
  end.
Definition shape_tok (sp : bool) (sh : tshape) : tok :=
  match sh with TWord l => mk_tok false sp l | TQuoted l => mk_tok true sp l end.
Definition good_shape (sh : tshape) : bool :=
  match sh with
  | TWord l => forallb (safe_sym false) l && negb (match l with [] => true | _ => false end)
  | TQuoted l => forallb (safe_sym true) l
  end.
(* the character after an unquoted token must end it *)
Definition starts_delim (t : text) : bool :=
  match t with c :: _ => mem c word_excl && (c <? ascii_limit) | [] => false end.
Definition follow_ok (sh : tshape) (rest : text) : bool :=
  match sh with TWord _ => starts_delim rest | TQuoted _ => true end.

(* first symbol of an unquoted token, from next_item *)
Lemma run_first_sym sp p ts s rest : safe_sym false s = true ->
  run (Ok (p, ts, MSkip sp)) (sym_text s ++ rest) = run (Ok (p, ts, MTok false sp [s] E0)) rest.
Proof.
  intros H. destruct s as [c|c|c].
  - cbn [sym_text app]. rewrite run_cons. cbn [bind step]. unfold step_skip.
    cbn [safe_sym] in H. apply andb_true_iff in H as [H H3]. apply andb_true_iff in H as [H1 H2].
    assert (W : mem c word_excl = false) by (destruct (mem c word_excl); [discriminate|reflexivity]).
    assert (forall x, mem x word_excl = false ->
       mem x ws_chars = false /\ (x =? ch_open) = false /\ (x =? ch_close) = false /\ (x =? ch_comment) = false
       /\ (x =? ch_lf) = false /\ (x =? ch_quote) = false) as HX.
    { intros x Hx. vm_compute in Hx. vm_compute.
      destruct x as [|x]; [repeat split; reflexivity|].
      repeat (destruct x as [x|x|]; try discriminate; try (repeat split; reflexivity)). }
    destruct (HX c W) as (A1 & A2 & A3 & A4 & A5 & A6). rewrite A1, A2, A3, A4, A5, A6.
    destruct (c =? 92) eqn:E1; [discriminate|].
    destruct (ascii_limit <=? c) eqn:E2; [lia|]. reflexivity.
  - cbn [sym_text app]. rewrite run_cons. cbn [bind step]. unfold step_skip.
    replace (mem 92 ws_chars) with false by reflexivity. cbn [N.eqb Pos.eqb ch_open ch_close ch_comment ch_lf ch_quote].
    change (run (Ok (p, ts, MTok false sp [] E1)) (c :: rest) = run (Ok (p, ts, MTok false sp [SEsc c] E0)) rest).
    rewrite run_cons. cbn [bind step]. cbn [safe_sym] in H. apply andb_true_iff in H as [H1 H2].
    destruct (is_control c); [discriminate|]. destruct (is_digit c); [discriminate|]. reflexivity.
  - change (sym_text (SDec c) ++ rest) with (92 :: (digit3 c ++ rest)).
    rewrite run_cons. cbn [bind step]. unfold step_skip.
    replace (mem 92 ws_chars) with false by reflexivity. cbn [N.eqb Pos.eqb ch_open ch_close ch_comment ch_lf ch_quote].
    change (run (Ok (p, ts, MTok false sp [] E1)) (digit3 c ++ rest) = run (Ok (p, ts, MTok false sp [SDec c] E0)) rest).
    cbn [safe_sym] in H.
    destruct (digit3_ok c ltac:(lia)) as (D1 & D2 & D3 & D4).
    unfold digit3. cbn [app]. rewrite !run_cons. cbn [bind step].
    assert (C1 : is_control (48 + c / 100) = false) by (unfold is_control; lia).
    rewrite C1, D1. cbn [negb bind step]. rewrite D2. cbn [bind step]. rewrite D3, D4.
    assert (E : (c <=? 255) = true) by lia. rewrite E. reflexivity.
Qed.

(* a delimiter ends an unquoted token and is then handled by next_item *)
Lemma run_word_end p ts sp acc c rest : mem c word_excl = true -> c <? ascii_limit = true ->
  run (Ok (p, ts, MTok false sp acc E0)) (c :: rest)
  = run (Ok (p, mk_tok false sp (rev acc) :: ts, MSkip false)) (c :: rest).
Proof.
  intros H1 H2. rewrite !run_cons. cbn [bind step].
  assert (c =? 92 = false) as E.
  { destruct (c =? 92) eqn:E; [|reflexivity]. apply N.eqb_eq in E. subst c. vm_compute in H1. discriminate. }
  rewrite E. destruct (ascii_limit <=? c) eqn:E2; [lia|]. rewrite H1. reflexivity.
Qed.

(* tokens_reassemble, one token: the reader recovers exactly the symbols *)
Lemma run_token sh p ts sp rest : good_shape sh = true -> follow_ok sh rest = true ->
  run (Ok (p, ts, MSkip sp)) (shape_text sh ++ rest) = run (Ok (p, shape_tok sp sh :: ts, MSkip false)) rest.
Proof.
  intros G F. destruct sh as [l|l]; cbn [shape_text shape_tok good_shape follow_ok] in *.
  - apply andb_true_iff in G as [G1 G2]. destruct l as [|s l]; [discriminate|].
    cbn [forallb] in G1. apply andb_true_iff in G1 as [G1 G3].
    cbn [flat_map]. rewrite <- !app_assoc, run_first_sym by exact G1.
    rewrite run_syms by exact G3.
    destruct rest as [|c rest]; [discriminate|]. cbn [starts_delim] in F. apply andb_true_iff in F as [F1 F2].
    rewrite run_word_end by assumption. rewrite rev_app_distr, rev_involutive. reflexivity.
  - cbn [app]. rewrite run_cons. cbn [bind step]. unfold step_skip.
    replace (mem ch_quote ws_chars) with false by reflexivity.
    replace (ch_quote =? ch_open) with false by reflexivity.
    replace (ch_quote =? ch_close) with false by reflexivity.
    replace (ch_quote =? ch_comment) with false by reflexivity.
    replace (ch_quote =? ch_lf) with false by reflexivity.
    rewrite N.eqb_refl. rewrite <- app_assoc, run_syms by exact G.
    cbn [app]. rewrite run_cons. cbn [bind step].
    replace (ch_quote =? 92) with false by reflexivity. rewrite N.eqb_refl.
    rewrite app_nil_r, rev_involutive. reflexivity.
Qed.

(* ------------------------------------------------------------------ what the writer produces for values *)

Definition label_shape_syms (l : bytes) : list sym := map label_sym l.

Lemma show_with_map f l : show_with f l = flat_map sym_text (map f l).
Proof. unfold show_with. induction l as [|c l IH]; [reflexivity|]. cbn [flat_map map]. rewrite IH. reflexivity. Qed.

Lemma enc_safe q f l : wf_bytes l -> (forall b, b < 256 -> enc_ok q f b = true) ->
  forallb (safe_sym q) (map f l) = true.
Proof.
  intros W H. induction W as [|b l Hb W IH]; [reflexivity|].
  cbn [map forallb]. rewrite IH. specialize (H b Hb). unfold enc_ok in H. apply andb_true_iff in H as [H _].
  rewrite H. reflexivity.
Qed.

Lemma enc_octets q f l : wf_bytes l -> (forall b, b < 256 -> enc_ok q f b = true) ->
  map_o into_octet (map f l) = Ok l.
Proof.
  intros W H. induction W as [|b l Hb W IH]; [reflexivity|].
  cbn [map map_o]. specialize (H b Hb). unfold enc_ok in H. apply andb_true_iff in H as [_ H].
  rewrite IH. destruct (f b) as [c|c|c]; cbn [into_octet].
  - apply andb_true_iff in H as [H H3]. apply andb_true_iff in H as [H1 H2].
    rewrite H2, H3. cbn. apply N.eqb_eq in H1. subst. reflexivity.
  - apply N.eqb_eq in H. subst. reflexivity.
  - apply N.eqb_eq in H. subst. reflexivity.
Qed.

(* --- character strings *)

Definition wf_charstr (b : bytes) : Prop := wf_bytes b /\ (length b <= 255)%nat.

Lemma cstr_quoted_shape b : show_cstr_quoted b = shape_text (TQuoted (map quoted_from_octet b)).
Proof. unfold show_cstr_quoted. rewrite show_with_map. reflexivity. Qed.

Lemma cstr_quoted_good b : wf_bytes b -> good_shape (TQuoted (map quoted_from_octet b)) = true.
Proof. intros W. cbn [good_shape]. apply enc_safe; [exact W | exact quoted_table]. Qed.

Lemma read_charstr_quoted sp b : wf_charstr b ->
  read_charstr (shape_tok sp (TQuoted (map quoted_from_octet b))) = Ok b.
Proof.
  intros [W L]. unfold read_charstr, read_octets. cbn [shape_tok t_syms].
  rewrite (enc_octets true) by (exact W || exact quoted_table). cbn [bind].
  unfold len, charstr_latest. destruct (255 <? N.of_nat (length b)) eqn:E; [lia|reflexivity].
Qed.

(* scan_show_charstr (quoted form): the text of a character string, followed by anything *)
Theorem scan_show_charstr_quoted b p ts sp rest : wf_charstr b ->
  exists t, run (Ok (p, ts, MSkip sp)) (show_cstr_quoted b ++ rest) = run (Ok (p, t :: ts, MSkip false)) rest
            /\ t_quoted t = true /\ read_charstr t = Ok b.
Proof.
  intros W. exists (shape_tok sp (TQuoted (map quoted_from_octet b))). split; [|split].
  - rewrite cstr_quoted_shape. apply run_token; [apply cstr_quoted_good, W | reflexivity].
  - reflexivity.
  - apply read_charstr_quoted, W.
Qed.

(* unquoted form (Symbol::from_octet, CharStr::display_unquoted): only without parentheses *)
Theorem scan_show_charstr_unquoted b p ts sp rest : wf_charstr b -> b <> [] ->
  Forall (fun c => ~ from_octet_known c) b -> starts_delim rest = true ->
  exists t, run (Ok (p, ts, MSkip sp)) (show_cstr_unquoted b ++ rest) = run (Ok (p, t :: ts, MSkip false)) rest
            /\ read_charstr t = Ok b.
Proof.
  intros [W L] NE K D.
  assert (T : forall c, In c b -> enc_ok false from_octet c = true).
  { intros c Hc. apply from_octet_table. - unfold wf_bytes in W. rewrite Forall_forall in W. apply W, Hc.
    - rewrite Forall_forall in K. apply K, Hc. }
  assert (S : forallb (safe_sym false) (map from_octet b) = true).
  { rewrite forallb_forall. intros s Hs. apply in_map_iff in Hs as (c & <- & Hc).
    specialize (T c Hc). unfold enc_ok in T. apply andb_true_iff in T as [T _]. exact T. }
  exists (shape_tok sp (TWord (map from_octet b))). split.
  - unfold show_cstr_unquoted. rewrite show_with_map.
    change (flat_map sym_text (map from_octet b)) with (shape_text (TWord (map from_octet b))).
    apply run_token; [|exact D]. cbn [good_shape]. rewrite S. destruct b; [congruence|reflexivity].
  - unfold read_charstr, read_octets. cbn [shape_tok t_syms].
    assert (O : map_o into_octet (map from_octet b) = Ok b).
    { clear - T. induction b as [|c b IH]; [reflexivity|]. cbn [map map_o].
      rewrite IH by (intros x Hx; apply T; right; exact Hx).
      specialize (T c (or_introl eq_refl)). unfold enc_ok in T. apply andb_true_iff in T as [_ T].
      destruct (from_octet c) as [x|x|x]; cbn [into_octet].
      - apply andb_true_iff in T as [T T3]. apply andb_true_iff in T as [T1 T2]. rewrite T2, T3. cbn.
        apply N.eqb_eq in T1. subst. reflexivity.
      - apply N.eqb_eq in T. subst. reflexivity.
      - apply N.eqb_eq in T. subst. reflexivity. }
    rewrite O. cbn [bind]. unfold len, charstr_latest. destruct (255 <? N.of_nat (length b)) eqn:E; [lia|reflexivity].
Qed.

Lemma scan_show_charstr_unquoted_refuted :
  exists b, wf_charstr b /\ tokenize (show_cstr_unquoted b ++ [ch_lf]) <> Ok [mk_tok false false (map from_octet b)].
Proof. exists [97; 40; 98]. split; [split; [repeat constructor; lia | cbn; lia] | vm_compute; discriminate]. Qed.

(* --- labels and names *)

Definition wf_label (l : bytes) : Prop := wf_bytes l /\ (1 <= length l <= 63)%nat.

Lemma label_syms_safe l : wf_bytes l -> forallb (safe_sym false) (map label_sym l) = true.
Proof. intros W. apply enc_safe; [exact W|]. intros b Hb. apply label_table, Hb. Qed.

(* show_is_word_safe: the text of a label is a sequence of symbols none of which ends a
   token, starts a comment, a parenthesis or a quote; and no symbol is an unescaped dot *)
Theorem show_is_word_safe l : wf_bytes l ->
  show_label l = flat_map sym_text (map label_sym l) /\
  forallb (safe_sym false) (map label_sym l) = true /\
  ~ In (SChar ch_dot) (map label_sym l).
Proof.
  intros W. split; [apply show_with_map | split; [apply label_syms_safe, W|]].
  intros H. apply in_map_iff in H as (b & Hb & Hin).
  unfold wf_bytes in W. rewrite Forall_forall in W. destruct (label_table b (W b Hin)) as [_ N]. contradiction.
Qed.

(* name_syms on the symbols of one label: accumulates its octets *)
Lemma name_syms_label l : forall cur k done w r,
  wf_bytes l -> k + len l < label_latest ->
  name_syms (map label_sym l ++ r) cur k done w = name_syms r (rev l ++ cur) (k + len l) done w.
Proof.
  induction l as [|b l IH]; intros cur k done w r W K.
  - cbn. unfold len. cbn. rewrite N.add_0_r. reflexivity.
  - inversion W as [|? ? Hb W']; subst.
    destruct (label_table b Hb) as [T ND]. unfold enc_ok in T. apply andb_true_iff in T as [_ T].
    cbn [map app].
    assert (L : len (b :: l) = 1 + len l) by (unfold len; cbn [length]; lia).
    assert (O : into_octet (label_sym b) = Ok b).
    { destruct (label_sym b) as [c|c|c]; cbn [into_octet].
      - apply andb_true_iff in T as [T T3]. apply andb_true_iff in T as [T1 T2]. rewrite T2, T3. cbn.
        apply N.eqb_eq in T1. subst. reflexivity.
      - apply N.eqb_eq in T. subst. reflexivity.
      - apply N.eqb_eq in T. subst. reflexivity. }
    assert (Step : name_syms (label_sym b :: map label_sym l ++ r) cur k done w
                   = name_syms (map label_sym l ++ r) (b :: cur) (k + 1) done w).
    { cbn [name_syms]. destruct (label_sym b) as [c|c|c] eqn:E.
      - destruct (c =? 46) eqn:E46.
        + apply N.eqb_eq in E46. subst c. exfalso. apply ND. reflexivity.
        + assert (G : forall A (x y : A), match c with 46 => x | _ => y end = y).
          { intros A x y. destruct c as [|c]; [reflexivity|].
            repeat (destruct c as [c|c|]; try reflexivity). cbn in E46. discriminate. }
          rewrite G. rewrite O. cbn [bind]. destruct (label_latest <=? k + 1) eqn:E2; [lia|]. reflexivity.
      - rewrite O. cbn [bind]. destruct (label_latest <=? k + 1) eqn:E2; [lia|]. reflexivity.
      - rewrite O. cbn [bind]. destruct (label_latest <=? k + 1) eqn:E2; [lia|]. reflexivity. }
    rewrite Step. rewrite IH by (assumption || lia). cbn [rev]. rewrite <- app_assoc. cbn [app].
    f_equal. lia.
Qed.

Definition name_shape_syms (n : list bytes) : list sym :=
  match n with
  | [] => [SChar ch_dot]
  | l :: r => map label_sym l ++ flat_map (fun x => SChar ch_dot :: map label_sym x) r ++ [SChar ch_dot]
  end.

Lemma show_name_shape n : show_name n = shape_text (TWord (name_shape_syms n)).
Proof.
  destruct n as [|l r]; [reflexivity|].
  cbn [show_name name_shape_syms shape_text]. unfold show_label.
  rewrite flat_map_app, <- show_with_map. f_equal. rewrite flat_map_app. f_equal.
  induction r as [|x r IH]; [reflexivity|].
  cbn [flat_map]. rewrite flat_map_app, <- IH.
  change (flat_map sym_text (SChar ch_dot :: map label_sym x))
    with (ch_dot :: flat_map sym_text (map label_sym x)).
  rewrite <- show_with_map. reflexivity.
Qed.

Definition wf_name (n : list bytes) : Prop := Forall wf_label n /\ wire_len n <= 254.

Lemma dot_safe : safe_sym false (SChar ch_dot) = true.
Proof. reflexivity. Qed.

Lemma name_shape_good n : Forall wf_label n -> good_shape (TWord (name_shape_syms n)) = true.
Proof.
  intros W. cbn [good_shape]. apply andb_true_iff. split.
  - destruct n as [|l r]; [reflexivity|]. cbn [name_shape_syms]. inversion W as [|? ? [Wl _] Wr]; subst.
    rewrite forallb_app, label_syms_safe by exact Wl. cbn [andb]. rewrite forallb_app. cbn [forallb]. rewrite dot_safe.
    rewrite andb_true_r. clear - Wr. induction Wr as [|x r [Wx _] _ IH]; [reflexivity|].
    cbn [flat_map]. rewrite forallb_app. cbn [forallb]. rewrite dot_safe, label_syms_safe, IH by exact Wx. reflexivity.
  - destruct n as [|l r]; [reflexivity|]. cbn [name_shape_syms]. inversion W as [|? ? [Wl [L1 _]] _]; subst.
    destruct l; [cbn in L1; lia | reflexivity].
Qed.

(* general statement: in the middle of a name, current label [cur] complete *)
Lemma name_syms_tail r : forall cur done w,
  Forall wf_label r -> wf_label (rev cur) ->
  w + 1 + len cur + wire_len r <= name_write_max ->
  name_syms (flat_map (fun x => SChar ch_dot :: map label_sym x) r ++ [SChar ch_dot]) cur (len cur) done w
  = Ok (NAbs (rev done ++ rev cur :: r)).
Proof.
  induction r as [|x r IH]; intros cur done w Wr Wc Hw.
  - cbn [flat_map app name_syms]. change (wire_len []) with 0 in Hw.
    assert (Lc : 1 <= len cur). { destruct Wc as [_ [L _]]. rewrite rev_length in L. unfold len. lia. }
    destruct (w + 1 + len cur =? 1) eqn:E1; [lia|].
    destruct (len cur =? 0) eqn:E0; [lia|].
    destruct (name_write_max <? w + 1 + len cur) eqn:E2; [lia|].
    cbn [name_syms N.eqb]. destruct (w + 1 + len cur =? 0) eqn:E3; [lia|].
    reflexivity.
  - inversion Wr as [|? ? Wx Wr']; subst. cbn [flat_map]. rewrite <- app_assoc. cbn [app name_syms].
    assert (Lc : 1 <= len cur). { destruct Wc as [_ [L _]]. rewrite rev_length in L. unfold len. lia. }
    cbn [wire_len] in Hw.
    destruct (w + 1 + len cur =? 1) eqn:E1; [lia|].
    destruct (len cur =? 0) eqn:E0; [lia|].
    destruct (name_write_max <? w + 1 + len cur) eqn:E2; [lia|].
    destruct Wx as [Wxb [Lx1 Lx2]].
    rewrite name_syms_label by (try exact Wxb; unfold len, label_latest; lia).
    rewrite app_nil_r. rewrite N.add_0_l.
    replace (len x) with (len (rev x)) by (unfold len; rewrite rev_length; reflexivity).
    rewrite IH.
    + cbn [rev]. rewrite <- app_assoc. cbn [app]. rewrite rev_involutive. reflexivity.
    + exact Wr'.
    + rewrite rev_involutive. split; [exact Wxb | lia].
    + unfold len in *. rewrite rev_length. lia.
Qed.

Lemma is_at_long a rest : rest <> [] -> is_at (a :: rest) = false.
Proof. intros H. destruct a; destruct rest; try congruence; reflexivity. Qed.

(* what fmt_with_dot writes is never the free standing `@` *)
Lemma name_shape_not_at n : Forall wf_label n -> is_at (name_shape_syms n) = false.
Proof.
  intros W. destruct n as [|l r]; [reflexivity|]. cbn [name_shape_syms].
  inversion W as [|? ? [_ [L1 _]] _]; subst. destruct l as [|b l]; [cbn in L1; lia|].
  cbn [map app]. apply is_at_long. intros H. apply app_eq_nil in H as [_ H]. apply app_eq_nil in H as [_ H]. discriminate.
Qed.

(* scan_name on the symbols of fmt_with_dot: the labels come back, octet for octet *)
Lemma read_name_shape sp n origin : wf_name n ->
  read_name origin (shape_tok sp (TWord (name_shape_syms n))) = Ok n.
Proof.
  intros [W L]. unfold read_name. cbn [shape_tok t_syms]. rewrite name_shape_not_at by exact W.
  destruct n as [|l r].
  - cbn. reflexivity.
  - cbn [name_shape_syms]. inversion W as [|? ? Wl Wr]; subst. destruct Wl as [Wlb [L1 L2]].
    rewrite name_syms_label by (try exact Wlb; unfold len, label_latest; lia).
    rewrite app_nil_r, N.add_0_l.
    replace (len l) with (len (rev l)) by (unfold len; rewrite rev_length; reflexivity).
    cbn [wire_len] in L.
    rewrite name_syms_tail.
    + cbn [bind rev app]. rewrite rev_involutive. reflexivity.
    + exact Wr.
    + rewrite rev_involutive. split; [exact Wlb | lia].
    + unfold len in *. rewrite rev_length. unfold name_write_max. lia.
Qed.

(* scan_show_label / scan_show_name: a name written by fmt_with_dot and followed by a
   delimiter is one unquoted token from which scan_name reads the same labels *)
Theorem scan_show_name n p ts sp rest origin : wf_name n -> starts_delim rest = true ->
  exists t, run (Ok (p, ts, MSkip sp)) (show_name n ++ rest) = run (Ok (p, t :: ts, MSkip false)) rest
            /\ t = shape_tok sp (TWord (name_shape_syms n)) /\ read_name origin t = Ok n.
Proof.
  intros W D. exists (shape_tok sp (TWord (name_shape_syms n))). split; [|split; [reflexivity|]].
  - rewrite show_name_shape. apply run_token; [apply name_shape_good, W | exact D].
  - apply read_name_shape, W.
Qed.

(* a single label, read as a relative name in front of an origin: octets preserved --
   unless the label is exactly "@", which the reader takes for the origin *)
Theorem scan_show_label l o : wf_label l -> l <> [ch_at] -> wire_len [l] + wire_len o <= 254 ->
  tokenize (show_label l ++ [ch_lf]) = Ok [mk_tok false false (map label_sym l)] /\
  read_name (Some o) (mk_tok false false (map label_sym l)) = Ok (l :: o).
Proof.
  intros [W [L1 L2]] NA Hw. split.
  - unfold tokenize. unfold show_label. rewrite show_with_map.
    change (flat_map sym_text (map label_sym l)) with (shape_text (TWord (map label_sym l))).
    unfold st0. rewrite run_token.
    + reflexivity.
    + cbn [good_shape]. rewrite label_syms_safe by exact W. destruct l; [cbn in L1; lia | reflexivity].
    + reflexivity.
  - unfold read_name. cbn [t_syms].
    assert (A : is_at (map label_sym l) = false).
    { destruct l as [|b l]; [reflexivity|]. destruct l as [|b2 l].
      - inversion W as [|? ? Hb _]; subst. destruct (label_table b Hb) as [T _]. unfold enc_ok in T.
        apply andb_true_iff in T as [_ T]. cbn [map is_at]. destruct (label_sym b) as [c|c|c]; try reflexivity.
        apply andb_true_iff in T as [T _]. apply andb_true_iff in T as [T _]. apply N.eqb_eq in T. subst c.
        destruct (b =? ch_at) eqn:E; [|reflexivity]. apply N.eqb_eq in E. subst b. congruence.
      - cbn [map]. apply is_at_long. discriminate. }
    rewrite A.
    rewrite <- (app_nil_r (map label_sym l)).
    rewrite name_syms_label by (try exact W; unfold len, label_latest; lia).
    cbn [name_syms app]. rewrite N.add_0_l.
    destruct (len l =? 0) eqn:E; [unfold len in E; lia|].
    cbn [bind rev app]. rewrite app_nil_r, rev_involutive.
    match goal with |- context [if ?c then _ else _] => destruct c eqn:E2 end; [exfalso|reflexivity].
    cbn [wire_len] in *. lia.
Qed.

(* --- integers *)

Lemma dec_fuel_digits fuel : forall n, all_digits (dec_fuel fuel n) = true.
Proof.
  induction fuel as [|f IH]; intros n; [reflexivity|]. cbn [dec_fuel].
  destruct (n <? 10) eqn:E.
  - cbn [all_digits]. unfold is_digit. lia.
  - assert (A : forall a b, all_digits a = true -> all_digits b = true -> all_digits (a ++ b) = true).
    { induction a as [|x a IHa]; intros b Ha Hb; [exact Hb|]. cbn in *. apply andb_true_iff in Ha as [H1 H2].
      rewrite H1, IHa by assumption. reflexivity. }
    apply A; [apply IH|]. cbn [all_digits]. unfold is_digit. lia.
Qed.

Lemma dec_value_app a b : dec_value (a ++ b) = fold_left (fun a c => a * 10 + (c - 48)) b (dec_value a).
Proof. unfold dec_value. apply fold_left_app. Qed.

Lemma dec_fuel_value fuel : forall n, n < 2 ^ N.of_nat fuel -> fuel <> O -> dec_value (dec_fuel fuel n) = n.
Proof.
  induction fuel as [|f IH]; intros n Hn Hf; [congruence|]. cbn [dec_fuel].
  destruct (n <? 10) eqn:E.
  - unfold dec_value. cbn [fold_left]. lia.
  - rewrite dec_value_app. cbn [fold_left].
    destruct f as [|f'].
    + cbn in Hn. lia.
    + rewrite IH; [lia| |congruence].
      rewrite Nat2N.inj_succ, N.pow_succ_r' in Hn. lia.
Qed.


Lemma pos_size_gt p : N.pos p < 2 ^ N.of_nat (Pos.size_nat p).
Proof.
  induction p as [p IH|p IH|]; cbn [Pos.size_nat]; rewrite ?Nat2N.inj_succ, ?N.pow_succ_r'; lia.
Qed.

Lemma show_dec_value n : dec_value (show_dec n) = n.
Proof.
  unfold show_dec. apply dec_fuel_value; [|congruence].
  rewrite Nat2N.inj_succ, N.pow_succ_r'.
  destruct n as [|p]; [cbn; lia|].
  pose proof (pos_size_gt p). cbn [N.size_nat]. lia.
Qed.

Lemma show_dec_digits n : all_digits (show_dec n) = true.
Proof. apply dec_fuel_digits. Qed.

Lemma show_dec_nonempty n : show_dec n <> [].
Proof.
  unfold show_dec. cbn [dec_fuel]. destruct (n <? 10); [discriminate|].
  intros H. apply app_eq_nil in H as [_ H]. discriminate.
Qed.

(* a decimal number is a word of plain digit symbols *)
Definition digit_syms (t : text) : list sym := map SChar t.

Lemma digit_syms_text t : flat_map sym_text (digit_syms t) = t.
Proof.
  induction t as [|c t IH]; [reflexivity|].
  change (c :: flat_map sym_text (digit_syms t) = c :: t). rewrite IH. reflexivity.
Qed.

Lemma digit_syms_safe t : all_digits t = true -> forallb (safe_sym false) (digit_syms t) = true.
Proof.
  induction t as [|c t IH]; intros H; [reflexivity|]. cbn [all_digits] in H. apply andb_true_iff in H as [H1 H2].
  cbn [digit_syms map forallb]. fold (digit_syms t). rewrite IH by exact H2. rewrite andb_true_r.
  unfold is_digit in H1. cbn [safe_sym].
  assert (c <? ascii_limit = true) by (unfold ascii_limit; lia).
  assert (c =? 92 = false) by lia.
  assert (mem c word_excl = false).
  { unfold mem, word_excl. cbn [existsb]. repeat (apply orb_false_iff; split); try reflexivity; lia. }
  rewrite H, H0, H3. reflexivity.
Qed.

Lemma uint_fold max t : forall acc, all_digits t = true ->
  fold_left (fun a c => a * 10 + (c - 48)) t acc <= max ->
  fold_left (uint_step max) (digit_syms t) (Ok acc) = Ok (fold_left (fun a c => a * 10 + (c - 48)) t acc).
Proof.
  induction t as [|c t IH]; intros acc D B; [reflexivity|].
  cbn [all_digits] in D. apply andb_true_iff in D as [D1 D2].
  cbn [digit_syms map fold_left] in *. fold (digit_syms t).
  assert (M : forall t a, a <= fold_left (fun a c => a * 10 + (c - 48)) t a).
  { clear. induction t as [|c t IH]; intros a; [cbn; lia|]. cbn [fold_left].
    specialize (IH (a * 10 + (c - 48))). lia. }
  specialize (M t (acc * 10 + (c - 48))).
  unfold uint_step at 2. cbn [bind].
  destruct (max <? acc * 10) eqn:E1; [lia|]. rewrite D1.
  destruct (max <? acc * 10 + (c - 48)) eqn:E2; [lia|].
  apply IH; assumption.
Qed.

(* scan_show_int: u8 / u16 / u32 written in decimal read back *)
Theorem scan_show_int max n sp : n <= max ->
  good_shape (TWord (digit_syms (show_dec n))) = true /\
  shape_text (TWord (digit_syms (show_dec n))) = show_dec n /\
  read_uint max (shape_tok sp (TWord (digit_syms (show_dec n)))) = Ok n.
Proof.
  intros H. split; [|split].
  - cbn [good_shape]. rewrite digit_syms_safe by apply show_dec_digits.
    pose proof (show_dec_nonempty n). destruct (show_dec n); [congruence|reflexivity].
  - apply digit_syms_text.
  - unfold read_uint. cbn [shape_tok t_syms]. rewrite uint_fold.
    + f_equal. apply show_dec_value.
    + apply show_dec_digits.
    + fold (dec_value (show_dec n)). rewrite show_dec_value. exact H.
Qed.

(* every decimal number above the maximum is rejected (checked_mul / checked_add), not wrapped *)
Lemma uint_fold_err max t : fold_left (uint_step max) t (Err E_number) = Err E_number.
Proof. induction t as [|x t IH]; [reflexivity|]. cbn [fold_left]. exact IH. Qed.

Lemma uint_fold_over max t : forall acc, all_digits t = true -> acc <= max ->
  max < fold_left (fun a c => a * 10 + (c - 48)) t acc ->
  fold_left (uint_step max) (digit_syms t) (Ok acc) = Err E_number.
Proof.
  induction t as [|c t IH]; intros acc D A B; [cbn [fold_left] in B; lia|].
  cbn [all_digits] in D. apply andb_true_iff in D as [D1 D2].
  cbn [digit_syms map fold_left] in *. fold (digit_syms t).
  unfold uint_step at 2. cbn [bind].
  destruct (max <? acc * 10) eqn:E1; [apply uint_fold_err|]. rewrite D1.
  destruct (max <? acc * 10 + (c - 48)) eqn:E2; [apply uint_fold_err|].
  apply IH; [exact D2 | lia | exact B].
Qed.

Theorem scan_int_rejects_above max n sp : max < n ->
  read_uint max (shape_tok sp (TWord (digit_syms (show_dec n)))) = Err E_number.
Proof.
  intros H. unfold read_uint. cbn [shape_tok t_syms]. apply uint_fold_over.
  - apply show_dec_digits.
  - lia.
  - fold (dec_value (show_dec n)). rewrite show_dec_value. exact H.
Qed.

(* a lone "@" label is written verbatim and read back as the origin *)
Lemma scan_show_label_refuted : exists l o, wf_label l /\ wire_len [l] + wire_len o <= 254 /\
  read_name (Some o) (mk_tok false false (map label_sym l)) <> Ok (l :: o).
Proof.
  exists [ch_at], []. split; [split; [repeat constructor; unfold ch_at; lia | cbn; lia]|].
  split; [vm_compute; discriminate | vm_compute; discriminate].
Qed.

(* overflow of the last digit is an error (checked_add), e.g. "256" for a u8 *)
Lemma read_uint_overflow_is_error :
  read_uint 255 (mk_tok false true (digit_syms [50; 53; 54])) = Err E_number.
Proof. vm_compute. reflexivity. Qed.

(* ------------------------------------------------------------------ non-vacuity *)

Example ex_label : show_label [97; 59; 98; 34; 99; 40; 100; 41] = [97; 92; 59; 98; 92; 34; 99; 92; 40; 100; 92; 41].
Proof. vm_compute. reflexivity. Qed.
Example ex_label_read : tokenize (show_label [97; 59; 0; 46] ++ [10]) = Ok [mk_tok false false [SChar 97; SEsc 59; SDec 0; SEsc 46]].
Proof. vm_compute. reflexivity. Qed.
Example ex_name : c06_rdname ([46; 32; 48; 32; 73; 78; 32; 78; 83; 32] ++ show_name [[64]; [36; 32]] ++ [10]) = Ok [[64]; [36; 32]].
Proof. vm_compute. reflexivity. Qed.
Example ex_cstr : show_cstr_quoted [34; 0; 97] = [34; 92; 34; 92; 48; 48; 48; 97; 34].
Proof. vm_compute. reflexivity. Qed.
Example ex_dec : show_dec 4294967295 = [52; 50; 57; 52; 57; 54; 55; 50; 57; 53].
Proof. vm_compute. reflexivity. Qed.
Example ex_wf_label : wf_label [97; 59].
Proof. split; [repeat constructor; lia | cbn; lia]. Qed.
