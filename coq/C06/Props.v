(* C06 -- property theorems only.  Proofs live in C06/Proofs*.v and C06/Tables.v. *)
From Coq Require Import NArith List Bool.
From DV Require Import Base.Outcome Base.Bytes C06.Gen C06.Model C06.Proofs C06.Proofs2 C06.Tables C06.B32 C06.Proofs3 C06.Proofs4 C06.Blob C06.Proofs5 C06.Svc C06.SvcProofs C06.SvcProofs2 C06.Ip6Proofs C06.ProofsW.
Import ListNotations.
Local Open Scope N_scope.

Theorem C06_label_table : forall b, b < 256 ->
  enc_ok false label_sym b = true /\ label_sym b <> SChar ch_dot.
Proof. exact label_table. Qed.
Print Assumptions C06_label_table.

Theorem C06_quoted_table : forall b, b < 256 -> enc_ok true quoted_from_octet b = true.
Proof. exact quoted_table. Qed.
Print Assumptions C06_quoted_table.

Theorem C06_from_octet_table : forall b, b < 256 -> ~ from_octet_known b -> enc_ok false from_octet b = true.
Proof. exact from_octet_table. Qed.
Print Assumptions C06_from_octet_table.

Theorem C06_from_octet_table_refuted : exists b, b < 256 /\ enc_ok false from_octet b = false.
Proof. exact from_octet_table_refuted. Qed.
Print Assumptions C06_from_octet_table_refuted.

Theorem C06_nonprintable_escaped : forall b, b < 256 -> (b < 32 \/ 127 <= b) ->
  label_sym b = SDec b /\ from_octet b = SDec b /\ quoted_from_octet b = SDec b /\ display_from_octet b = SDec b.
Proof. exact nonprintable_escaped. Qed.
Print Assumptions C06_nonprintable_escaped.

Theorem C06_show_is_word_safe : forall l, wf_bytes l ->
  show_label l = flat_map sym_text (map label_sym l) /\
  forallb (safe_sym false) (map label_sym l) = true /\
  ~ In (SChar ch_dot) (map label_sym l).
Proof. exact show_is_word_safe. Qed.
Print Assumptions C06_show_is_word_safe.

Theorem C06_scan_show_label : forall l o, wf_label l -> l <> [ch_at] -> wire_len [l] + wire_len o <= 254 ->
  tokenize (show_label l ++ [ch_lf]) = Ok [mk_tok false false (map label_sym l)] /\
  read_name (Some o) (mk_tok false false (map label_sym l)) = Ok (l :: o).
Proof. exact scan_show_label. Qed.
Print Assumptions C06_scan_show_label.

Theorem C06_scan_show_label_refuted : exists l o, wf_label l /\ wire_len [l] + wire_len o <= 254 /\
  read_name (Some o) (mk_tok false false (map label_sym l)) <> Ok (l :: o).
Proof. exact scan_show_label_refuted. Qed.
Print Assumptions C06_scan_show_label_refuted.

Theorem C06_scan_show_name : forall n p ts sp rest origin, wf_name n -> starts_delim rest = true ->
  exists t, run (Ok (p, ts, MSkip sp)) (show_name n ++ rest) = run (Ok (p, t :: ts, MSkip false)) rest
            /\ t = shape_tok sp (TWord (name_shape_syms n)) /\ read_name origin t = Ok n.
Proof. exact scan_show_name. Qed.
Print Assumptions C06_scan_show_name.

Theorem C06_scan_show_charstr_quoted : forall b p ts sp rest, wf_charstr b ->
  exists t, run (Ok (p, ts, MSkip sp)) (show_cstr_quoted b ++ rest) = run (Ok (p, t :: ts, MSkip false)) rest
            /\ t_quoted t = true /\ read_charstr t = Ok b.
Proof. exact scan_show_charstr_quoted. Qed.
Print Assumptions C06_scan_show_charstr_quoted.

Theorem C06_scan_show_charstr_unquoted : forall b p ts sp rest, wf_charstr b -> b <> [] ->
  Forall (fun c => ~ from_octet_known c) b -> starts_delim rest = true ->
  exists t, run (Ok (p, ts, MSkip sp)) (show_cstr_unquoted b ++ rest) = run (Ok (p, t :: ts, MSkip false)) rest
            /\ read_charstr t = Ok b.
Proof. exact scan_show_charstr_unquoted. Qed.
Print Assumptions C06_scan_show_charstr_unquoted.

Theorem C06_scan_show_charstr_unquoted_refuted :
  exists b, wf_charstr b /\ tokenize (show_cstr_unquoted b ++ [ch_lf]) <> Ok [mk_tok false false (map from_octet b)].
Proof. exact scan_show_charstr_unquoted_refuted. Qed.
Print Assumptions C06_scan_show_charstr_unquoted_refuted.

Theorem C06_scan_show_int : forall max n sp, n <= max ->
  good_shape (TWord (digit_syms (show_dec n))) = true /\
  shape_text (TWord (digit_syms (show_dec n))) = show_dec n /\
  read_uint max (shape_tok sp (TWord (digit_syms (show_dec n)))) = Ok n.
Proof. exact scan_show_int. Qed.
Print Assumptions C06_scan_show_int.

Theorem C06_scan_int_rejects_above : forall max n sp, max < n ->
  read_uint max (shape_tok sp (TWord (digit_syms (show_dec n)))) = Err E_number.
Proof. exact scan_int_rejects_above. Qed.
Print Assumptions C06_scan_int_rejects_above.

Theorem C06_timestamp_decimal_reads_back : forall sp n, n <= 4294967295 ->
  read_timestamp (shape_tok sp (TWord (map SChar (show_dec n)))) = Ok n.
Proof. exact read_timestamp_dec. Qed.
Print Assumptions C06_timestamp_decimal_reads_back.

Theorem C06_owner_roundtrip : forall n rest, wf_name n -> starts_delim rest = true ->
  exists t, run (Ok st0) (show_name n ++ rest) = run (Ok (0, [t], MSkip false)) rest /\
            t_spaced t = false /\ read_owner None t = Ok n.
Proof. exact owner_roundtrip. Qed.
Print Assumptions C06_owner_roundtrip.

Theorem C06_tokens_reassemble : forall k l, Forall good_sop l -> balanced 0 l = true ->
  exists t, render k (map erase l) = Ok t /\ tokenize (t ++ [ch_lf]) = Ok (expect (is_multi k) false l).
Proof. exact tokens_reassemble. Qed.
Print Assumptions C06_tokens_reassemble.

Theorem C06_tokens_reassemble_join : forall shs, Forall (fun sh => good_shape sh = true) shs ->
  tokenize (join 32 (map shape_text shs) ++ [ch_lf]) = Ok (expect false false (map (fun sh => STok sh) shs)).
Proof. exact tokens_reassemble_join. Qed.
Print Assumptions C06_tokens_reassemble_join.

Theorem C06_class_type_tokens : forall c, c < 65536 -> class_ok c = true /\ rtype_ok c = true.
Proof. intros c H. split; [apply class_table | apply rtype_table]; exact H. Qed.
Print Assumptions C06_class_type_tokens.

Theorem C06_scan_show_record : forall k schema r, wf_record schema r ->
  exists t, show_record k r = Ok t /\
    read_record schema t = Ok (r_owner r, r_ttl r, r_class r, r_type r, map fst (r_fields r)).
Proof. exact scan_show_record. Qed.
Print Assumptions C06_scan_show_record.

Theorem C06_scan_show_record_txt_no_strings_refuted : exists k r,
  exists t, show_record k r = Ok t /\ read_record [FCharstrs] t = Err E_tokens.
Proof. exact scan_show_record_txt_no_strings_refuted. Qed.
Print Assumptions C06_scan_show_record_txt_no_strings_refuted.

Theorem C06_ip4_text_roundtrip : forall a, wf_ip4 a ->
  plain_word (show_ip4 a) = true /\ parse_ip4 (show_ip4 a) = Some a.
Proof. intros a W. split; [apply show_ip4_plain | apply parse_show_ip4]; exact W. Qed.
Print Assumptions C06_ip4_text_roundtrip.

Theorem C06_nsec3_nests_two_deep :
  option_map (fun r => max_depth 0 0 (record_ops r)) nsec3_example = Some 2 /\
  option_map (fun r => do t <- show_record KMulti r; do ts <- tokenize t; Ok (length ts)) nsec3_example = Some (Ok 11%nat) /\
  run (Ok (2, [], MSkip false)) [41; 32; 41; 10] = Ok (0, [], MDone) /\
  run (Ok (1, [], MSkip false)) [41; 32; 41; 10] = Err E_parens.
Proof. exact (conj nsec3_nests_two_deep (conj nsec3_multiline_tokens paren_depth_must_count)). Qed.
Print Assumptions C06_nsec3_nests_two_deep.

Theorem C06_ip6_group_text_reads_back : forall n, n < 65536 ->
  parse_hex16 (show_hex16 n) = Some n /\ mem 58 (show_hex16 n) = false /\ mem 46 (show_hex16 n) = false /\
  forallb plain_char (show_hex16 n) = true.
Proof. exact hex16_roundtrip. Qed.
Print Assumptions C06_ip6_group_text_reads_back.

Theorem C06_ip6_zero_run_sound : forall l, length l = 8%nat -> run_sound l = true.
Proof. exact zero_run_sound. Qed.
Print Assumptions C06_ip6_zero_run_sound.

(* IPv6 text: the branch of show_ip6 for every address that is not IPv4-mapped (the "::ffff:a.b.c.d"
   form is the other branch) reads back *)
Theorem C06_ip6_general_roundtrip : forall g, wf_ip6 g -> parse_ip6 (show_ip6_general g) = Some g.
Proof. exact ip6_general_roundtrip. Qed.
Print Assumptions C06_ip6_general_roundtrip.

Theorem C06_type_schemas_consistent : forallb schema_ok type_schemas = true.
Proof. exact type_schemas_ok. Qed.
Print Assumptions C06_type_schemas_consistent.

Theorem C06_scan_show_record_typed : forall e, In e type_schemas ->
  exists ks, schema_kinds e = Some ks /\
  forall k owner ttl cl vs, wf_name owner -> ttl <= 4294967295 -> cl < 65536 -> wf_fields ks vs ->
  exists t, show_record k (typed_record e owner ttl cl vs) = Ok t /\
            read_record ks t = Ok (owner, ttl, cl, s_code e, vs).
Proof. exact scan_show_record_typed. Qed.
Print Assumptions C06_scan_show_record_typed.

Theorem C06_scan_show_record_ipseckey : forall g, In g ipseckey_gateways ->
  let e := resolve_gateway ipseckey_schema g in
  exists ks, schema_kinds e = Some ks /\
  forall k owner ttl cl vs, wf_name owner -> ttl <= 4294967295 -> cl < 65536 -> wf_fields ks vs ->
  exists t, show_record k (typed_record e owner ttl cl vs) = Ok t /\
            read_record ks t = Ok (owner, ttl, cl, s_code e, vs).
Proof. exact scan_show_record_ipseckey. Qed.
Print Assumptions C06_scan_show_record_ipseckey.

(* Base16 / Base64 fields at the end of a record: the C18 encoder's text is a legal
   rest-of-entry word of the schema layer, and the C18 SymbolConverter applied to the word
   texts of the tokens the reader sees returns the octets *)
Theorem C06_blob16_roundtrip : forall bs, wf_bytes bs ->
  exists w, DV.C18.Model.b16_display bs = Ok w /\ wf_field FRest (VRest w) /\
    map_o (fun t => word_text (t_syms t)) (map (shape_tok true) (field_shapes (VRest w)))
      = Ok (match w with [] => [] | _ => [w] end) /\
    DV.C18.Model.b16_convert (match w with [] => [] | _ => [w] end) = Ok bs.
Proof.
  intros bs W. destruct (blob16_roundtrip bs W) as (w & A & B & C). exists w.
  repeat split; try assumption. apply rest_tokens_words.
Qed.
Print Assumptions C06_blob16_roundtrip.

Theorem C06_blob64_roundtrip : forall bs, wf_bytes bs ->
  exists w, DV.C18.Model.b64_display bs = Ok w /\ wf_field FRest (VRest w) /\
    map_o (fun t => word_text (t_syms t)) (map (shape_tok true) (field_shapes (VRest w)))
      = Ok (match w with [] => [] | _ => [w] end) /\
    DV.C18.Model.b64_convert (match w with [] => [] | _ => [w] end) = Ok bs.
Proof.
  intros bs W. destruct (blob64_roundtrip bs W) as (w & A & B & C). exists w.
  repeat split; try assumption. apply rest_tokens_words.
Qed.
Print Assumptions C06_blob64_roundtrip.

Theorem C06_lex_agrees_with_state_machine : forall t q e acc p ts sp syms rest,
  lex q e t = Ok (syms, rest) ->
  run (Ok (p, ts, MTok q sp acc e)) t = run (Ok (p, mk_tok q sp (rev acc ++ syms) :: ts, MSkip false)) rest.
Proof. exact lex_run. Qed.
Print Assumptions C06_lex_agrees_with_state_machine.

Theorem C06_fast_path_agrees : forall q t, ~ In 127 (fst (fst (fast_take q t))) ->
  scan_octets_text q t = slow_octets q t.
Proof. exact fast_path_agrees. Qed.
Print Assumptions C06_fast_path_agrees.

Theorem C06_scan_octets_is_lex_fast : forall q t,
  scan_octets_text q t = do x <- lex_fast q t; do o <- map_o into_octet (fst x); Ok (o, snd x).
Proof. exact scan_octets_is_lex_fast. Qed.
Print Assumptions C06_scan_octets_is_lex_fast.

Theorem C06_fast_path_agrees_refuted : exists q t,
  scan_octets_text q t = Ok ([127], [32]) /\ slow_octets q t = Err E_symbol.
Proof. exact fast_path_agrees_refuted. Qed.
Print Assumptions C06_fast_path_agrees_refuted.

Theorem C06_blob32_roundtrip : forall b, wf_bytes b -> b <> [] ->
  exists w : text, DV.C18.Model.b32_display b = Ok w /\ plain_word w = true /\
    DV.C18.Model.b32_convert (@cons text w (@nil text)) = Ok b.
Proof. exact blob32_roundtrip. Qed.
Print Assumptions C06_blob32_roundtrip.

Theorem C06_nsec3_empty_next_owner_refuted :
  c06_rec 0 50 [] 0 1 [VUint 1; VUint 0; VUint 10; VSalt []; VB32 []; VTypes [1]]
  = Ok ([46; 32; 48; 32; 73; 78; 32; 78; 83; 69; 67; 51; 32; 49; 32; 48; 32; 49; 48; 32; 45; 32; 32; 65; 10], Err 2).
Proof. exact nsec3_empty_next_owner_refuted. Qed.
Print Assumptions C06_nsec3_empty_next_owner_refuted.

Theorem C06_svc_unknown_roundtrip : forall k b sp, 9 < k < 65536 -> wf_bytes b ->
  good_shape (TWord (show_param (PUnknown k b))) = true /\
  read_param (shape_tok sp (TWord (show_param (PUnknown k b)))) = Ok (PUnknown k b).
Proof. exact svc_unknown_roundtrip. Qed.
Print Assumptions C06_svc_unknown_roundtrip.

Theorem C06_svc_dohpath_roundtrip : forall b sp, wf_bytes b -> utf8_ok (S (length b)) b = true ->
  good_shape (TWord (show_param (PDohpath b))) = true /\
  read_param (shape_tok sp (TWord (show_param (PDohpath b)))) = Ok (PDohpath b).
Proof. exact svc_dohpath_roundtrip. Qed.
Print Assumptions C06_svc_dohpath_roundtrip.

Theorem C06_svc_port_roundtrip : forall n sp, n <= 65535 ->
  good_shape (TWord (show_param (PPort n))) = true /\
  read_param (shape_tok sp (TWord (show_param (PPort n)))) = Ok (PPort n).
Proof. exact svc_port_roundtrip. Qed.
Print Assumptions C06_svc_port_roundtrip.

Theorem C06_svc_ohttp_roundtrip : forall sp,
  good_shape (TWord (show_param POhttp)) = true /\ read_param (shape_tok sp (TWord (show_param POhttp))) = Ok POhttp.
Proof. exact svc_ohttp_roundtrip. Qed.
Print Assumptions C06_svc_ohttp_roundtrip.

Theorem C06_svc_ech_roundtrip : forall b sp, wf_bytes b -> b <> [] ->
  good_shape (TWord (show_param (PEch b))) = true /\
  read_param (shape_tok sp (TWord (show_param (PEch b)))) = Ok (PEch b).
Proof. exact svc_ech_roundtrip. Qed.
Print Assumptions C06_svc_ech_roundtrip.

Theorem C06_svc_groups_roundtrip : forall l sp, l <> [] -> Forall (fun n => n <= 65535) l -> no_dups l = true ->
  good_shape (TWord (show_param (PGroups l))) = true /\
  read_param (shape_tok sp (TWord (show_param (PGroups l)))) = Ok (PGroups l).
Proof. exact svc_groups_roundtrip. Qed.
Print Assumptions C06_svc_groups_roundtrip.

Theorem C06_svc_ipv4hint_roundtrip : forall l sp, l <> [] -> Forall wf_ip4 l ->
  good_shape (TWord (show_param (PIp4hint l))) = true /\
  read_param (shape_tok sp (TWord (show_param (PIp4hint l)))) = Ok (PIp4hint l).
Proof. exact svc_ipv4hint_roundtrip. Qed.
Print Assumptions C06_svc_ipv4hint_roundtrip.

Theorem C06_svc_mandatory_roundtrip : forall ks sp, ks <> [] -> Forall (fun k => 1 <= k < 65536) ks -> asc ks = true ->
  good_shape (TWord (show_param (PMandatory ks))) = true /\
  read_param (shape_tok sp (TWord (show_param (PMandatory ks)))) = Ok (PMandatory ks).
Proof. exact svc_mandatory_roundtrip. Qed.
Print Assumptions C06_svc_mandatory_roundtrip.

Theorem C06_svc_ipv6hint_roundtrip : forall l sp, l <> [] -> Forall ip6_text_ok l ->
  good_shape (TWord (show_param (PIp6hint l))) = true /\
  read_param (shape_tok sp (TWord (show_param (PIp6hint l)))) = Ok (PIp6hint l).
Proof. exact svc_ipv6hint_roundtrip. Qed.
Print Assumptions C06_svc_ipv6hint_roundtrip.

Theorem C06_svc_known_findings_refuted :
  read_param (mk_tok false true (show_param PNoDefaultAlpn)) = Err E_symbol /\
  read_param (mk_tok false true (show_param (PAlpn [[97; 44; 98]]))) = Ok (PAlpn [[97]; [98]]) /\
  show_param (PIp4hint []) = [] /\
  read_param (mk_tok false true (show_param (PDohpath [247]))) = Err E_symbol.
Proof.
  exact (conj svc_nodefaultalpn_refuted (conj (proj1 svc_alpn_escaping_refuted)
        (conj (proj1 svc_empty_value_refuted) svc_dohpath_not_utf8_refuted))).
Qed.
Print Assumptions C06_svc_known_findings_refuted.

Theorem C06_generic_form_roundtrip : forall k owner ttl cl rt data,
  wf_name owner -> ttl <= 4294967295 -> cl < 65536 -> rt < 65536 ->
  wf_bytes data -> len data <= 65535 ->
  exists t, render k (generic_ops owner ttl cl rt data) = Ok t /\
    read_generic_record (t ++ [ch_lf]) = Ok (owner, ttl, cl, rt, data).
Proof. exact generic_form_roundtrip. Qed.
Print Assumptions C06_generic_form_roundtrip.

Theorem C06_read_uint_overflow_is_error :
  read_uint 255 (mk_tok false true (digit_syms [50; 53; 54])) = Err E_number.
Proof. exact read_uint_overflow_is_error. Qed.
Print Assumptions C06_read_uint_overflow_is_error.

(* IPv6 text for EVERY address: the compiled pattern match of show_ip6 is the IPv4-mapped test,
   both branches read back, and the text is a legal SVCB list item (no premise left on ipv6hint) *)
Theorem C06_ip6_show_branches : forall g, length g = 8%nat ->
  show_ip6 g = if ip6_mapped g then show_ip6_mapped g else show_ip6_general g.
Proof. exact show_ip6_branches. Qed.
Print Assumptions C06_ip6_show_branches.

Theorem C06_ip6_mapped_roundtrip : forall g6 g7, g6 < 65536 -> g7 < 65536 ->
  parse_ip6 ([58; 58; 102; 102; 102; 102; 58] ++ show_ip4 [g6 / 256; g6 mod 256; g7 / 256; g7 mod 256])
  = Some [0; 0; 0; 0; 0; 65535; g6; g7].
Proof. exact ip6_mapped_roundtrip. Qed.
Print Assumptions C06_ip6_mapped_roundtrip.

Theorem C06_ip6_roundtrip : forall g, wf_ip6 g -> parse_ip6 (show_ip6 g) = Some g.
Proof. exact ip6_roundtrip. Qed.
Print Assumptions C06_ip6_roundtrip.

Theorem C06_ip6_text_is_list_item : forall g, wf_ip6 g ->
  parse_ip6 (show_ip6 g) = Some g /\ item_ok (show_ip6 g) /\ forallb plain_char (show_ip6 g) = true.
Proof. exact ip6_text_ok_all. Qed.
Print Assumptions C06_ip6_text_is_list_item.

Theorem C06_svc_ipv6hint_roundtrip_all : forall l sp, l <> [] -> Forall wf_ip6 l ->
  good_shape (TWord (show_param (PIp6hint l))) = true /\
  read_param (shape_tok sp (TWord (show_param (PIp6hint l)))) = Ok (PIp6hint l).
Proof. exact svc_ipv6hint_roundtrip_all. Qed.
Print Assumptions C06_svc_ipv6hint_roundtrip_all.
