(* C06 proofs, part 3: the record layer.  TTL / class / type tokens are told
   apart by scan_ctr, regular field kinds read back, whole records written by
   the three writers read back (scan_show_record), the RFC 3597 generic form
   (generic_form_roundtrip), and the owner special case that breaks the round
   trip (a first label starting with '$'). *)
From Coq Require Import NArith ZArith List Bool Lia ZifyN ZifyBool ZifyNat.
From DV Require Import Base.Outcome Base.Bytes C06.Gen C06.Model C06.Proofs C06.Proofs2 C06.Tables C06.B32.
Import ListNotations.
Local Open Scope N_scope.
Ltac Zify.zify_post_hook ::= Z.div_mod_to_equations.

Definition word_tok (t : text) : tok := shape_tok true (TWord (map SChar t)).

Lemma scan_ctr_ok ttl cl rt rest : ttl <= 4294967295 -> cl < 65536 -> rt < 65536 ->
  scan_ctr (word_tok (show_dec ttl) :: word_tok (show_class cl) :: word_tok (show_rtype rt) :: rest)
  = Ok (Some cl, Some ttl, rt, rest).
Proof.
  intros H1 H2 H3. unfold scan_ctr, word_tok.
  rewrite plain_read_ascii by (apply digits_plain, show_dec_digits). cbn [bind].
  rewrite parse_show_dec by exact H1.
  pose proof (class_table cl H2) as C. unfold class_ok in C. cbv zeta in C.
  apply andb_true_iff in C as [C C3]. apply andb_true_iff in C as [C1 C2].
  unfold plain_word in C1. apply andb_true_iff in C1 as [_ C1].
  rewrite plain_read_ascii by exact C1. cbn [bind].
  destruct (parse_rtype (show_class cl)); [discriminate|].
  destruct (parse_class (show_class cl)) as [x|]; [|discriminate]. cbn [opt_is] in C3. apply N.eqb_eq in C3. subst x.
  pose proof (rtype_table rt H3) as T. unfold rtype_ok in T. cbv zeta in T. apply andb_true_iff in T as [T1 T2].
  unfold plain_word in T1. apply andb_true_iff in T1 as [_ T1].
  rewrite plain_read_ascii by exact T1. cbn [bind].
  destruct (parse_rtype (show_rtype rt)) as [x|]; [|discriminate]. cbn [opt_is] in T2. apply N.eqb_eq in T2. subst x.
  reflexivity.
Qed.

(* ------------------------------------------------------------------ signature times *)

Lemma dec_fuel_len fuel : forall n k, n < 10 ^ N.of_nat k -> (1 <= k)%nat -> (length (dec_fuel fuel n) <= k)%nat.
Proof.
  induction fuel as [|f IH]; intros n k H K; [cbn; lia|]. cbn [dec_fuel].
  destruct (n <? 10) eqn:E; [cbn [length]; lia|].
  rewrite app_length. cbn [length].
  destruct k as [|k]; [lia|]. destruct k as [|k].
  - cbn in H. lia.
  - rewrite Nat2N.inj_succ, N.pow_succ_r' in H.
    specialize (IH (n / 10) (S k)). assert (n / 10 < 10 ^ N.of_nat (S k)) by lia. specialize (IH H0). lia.
Qed.

Lemma read_timestamp_dec sp n : n <= 4294967295 ->
  read_timestamp (shape_tok sp (TWord (map SChar (show_dec n)))) = Ok n.
Proof.
  intros H. unfold read_timestamp.
  rewrite plain_read_ascii by (apply digits_plain, show_dec_digits). cbn [bind].
  assert (L : (length (show_dec n) <= 10)%nat).
  { unfold show_dec. apply dec_fuel_len; [|lia]. change (10 ^ N.of_nat 10) with 10000000000. lia. }
  destruct (Nat.leb (length (show_dec n)) 10) eqn:E; [|apply Nat.leb_gt in E; lia].
  rewrite parse_show_dec by exact H. reflexivity.
Qed.

(* ------------------------------------------------------------------ IPv4 address text *)

Lemma split_dots_digits ds : forall cur rest, all_digits ds = true ->
  split_dots cur (ds ++ rest) = split_dots (rev ds ++ cur) rest.
Proof.
  induction ds as [|c ds IH]; intros cur rest D; [reflexivity|].
  cbn [all_digits] in D. apply andb_true_iff in D as [D1 D2]. cbn [app split_dots].
  destruct (c =? 46) eqn:E; [unfold is_digit in D1; lia|]. rewrite IH by exact D2. cbn [rev]. rewrite <- app_assoc. reflexivity.
Qed.

Lemma ip4_octet_table : forall n, n < 256 -> parse_ip4_octet (show_dec n) = Some n.
Proof.
  intros n Hn.
  assert (H : forallb (fun n => match parse_ip4_octet (show_dec n) with Some x => x =? n | None => false end) octets256 = true)
    by (vm_compute; reflexivity).
  pose proof (forall_octets _ H n Hn) as H1. cbv beta in H1.
  destruct (parse_ip4_octet (show_dec n)); [apply N.eqb_eq in H1; subst; reflexivity | discriminate].
Qed.

Definition wf_ip4 (a : bytes) : Prop := wf_bytes a /\ length a = 4%nat.

Lemma parse_show_ip4 a : wf_ip4 a -> parse_ip4 (show_ip4 a) = Some a.
Proof.
  intros [W L]. destruct a as [|a1 [|a2 [|a3 [|a4 [|]]]]]; try discriminate.
  inversion W as [|? ? H1 W1]; subst. inversion W1 as [|? ? H2 W2]; subst.
  inversion W2 as [|? ? H3 W3]; subst. inversion W3 as [|? ? H4 _]; subst.
  unfold parse_ip4, show_ip4.
  rewrite split_dots_digits by apply show_dec_digits. cbn [split_dots N.eqb Pos.eqb app]. rewrite app_nil_r, rev_involutive.
  rewrite split_dots_digits by apply show_dec_digits. cbn [split_dots N.eqb Pos.eqb app]. rewrite app_nil_r, rev_involutive.
  rewrite split_dots_digits by apply show_dec_digits. cbn [split_dots N.eqb Pos.eqb app]. rewrite app_nil_r, rev_involutive.
  rewrite <- (app_nil_r (show_dec a4)). rewrite split_dots_digits by apply show_dec_digits.
  cbn [split_dots]. rewrite app_nil_r, rev_involutive.
  rewrite !ip4_octet_table by assumption. reflexivity.
Qed.

Lemma show_ip4_plain a : wf_ip4 a -> plain_word (show_ip4 a) = true.
Proof.
  intros [W L]. destruct a as [|a1 [|a2 [|a3 [|a4 [|]]]]]; try discriminate.
  unfold show_ip4, plain_word.
  pose proof (show_dec_nonempty a1) as NE.
  assert (P : forall n, forallb plain_char (show_dec n) = true) by (intros n; apply digits_plain, show_dec_digits).
  rewrite forallb_app, P. cbn [forallb]. rewrite forallb_app, P. cbn [forallb]. rewrite forallb_app, P. cbn [forallb]. rewrite P.
  destruct (show_dec a1); [congruence | reflexivity].
Qed.

Lemma plain_read_octets sp t : forallb plain_char t = true -> read_octets (shape_tok sp (TWord (map SChar t))) = Ok t.
Proof.
  unfold read_octets. cbn [shape_tok t_syms]. induction t as [|c t IH]; intros H; [reflexivity|].
  cbn [forallb map map_o] in *. apply andb_true_iff in H as [H1 H2].
  destruct (plain_char_facts c H1) as (_ & _ & A). rewrite A. cbn [bind]. rewrite IH by exact H2. reflexivity.
Qed.

(* ------------------------------------------------------------------ fields *)

Definition salt_text (w : text) : text := match w with [] => [45] | _ => w end.

Definition field_shapes (v : fval) : list tshape :=
  match v with
  | VUint n => [TWord (map SChar (show_dec n))]
  | VName n => [TWord (name_shape_syms n)]
  | VCharstr b => [TQuoted (map quoted_from_octet b)]
  | VWord w => [TWord (map SChar w)]
  | VCharstrs l => map (fun b => TQuoted (map quoted_from_octet b)) l
  | VRest w => match w with [] => [] | _ => [TWord (map SChar w)] end
  | VRtype n => [TWord (map SChar (show_rtype n))]
  | VTypes l => map (fun n => TWord (map SChar (show_rtype n))) l
  | VSalt w => [TWord (map SChar (salt_text w))]
  | VQuoted b => [TQuoted (map quoted_from_octet b)]
  | VIp4 a => [TWord (map SChar (show_ip4 a))]
  | VDot => [TWord [SChar ch_dot]]
  | VB32 b => [TWord (map SChar (b32_text b))]
  end.

(* the write_token / begin_block calls of a field: an empty rest-of-entry word is an empty
   token, the NSEC3 salt opens a block of its own (closed after its comment) *)
Definition val_sops (v : fval) : list sop :=
  match v with
  | VRest [] => [SEmpty]
  | VSalt _ => SBegin :: map (fun sh => STok sh) (field_shapes v)
  | _ => map (fun sh => STok sh) (field_shapes v)
  end.

Definition wf_field (k : fkind) (v : fval) : Prop :=
  match k, v with
  | FUint max, VUint n => n <= max
  | FName, VName n => wf_name n
  | FCharstr, VCharstr b => wf_charstr b
  | FWord, VWord w => plain_word w = true
  | FCharstrs, VCharstrs l => l <> [] /\ Forall wf_charstr l
  | FRest, VRest w => forallb plain_char w = true
  | FRtype, VRtype n => n < 65536
  | FTimestamp, VUint n => n <= 4294967295
  | FTypes, VTypes l => Forall (fun n => n < 65536) l
  | FSalt, VSalt w => forallb plain_char w = true /\ w <> [45] /\ len w <= 2 * nsec3_salt_max
  | FQuoted, VQuoted b => wf_bytes b
  | FIp4, VIp4 a => wf_ip4 a
  | FDot, VDot => True
  | FB32, VB32 b => wf_bytes b /\ b <> [] /\ len b <= nsec3_hash_max
  | _, _ => False
  end.

Definition reads_to_end (k : fkind) : Prop := k = FCharstrs \/ k = FRest \/ k = FTypes.

Fixpoint wf_fields (ks : list fkind) (vs : list fval) : Prop :=
  match ks, vs with
  | [], [] => True
  | k :: kr, v :: vr => wf_field k v /\ (reads_to_end k -> kr = []) /\ wf_fields kr vr
  | _, _ => False
  end.

Lemma stoks_text l : map erase (map (fun sh => STok sh) l) = map (fun sh => OTok (shape_text sh)) l.
Proof. rewrite map_map. apply map_ext. intros sh. reflexivity. Qed.

Lemma val_sops_text v : map erase (val_sops v) = show_field v.
Proof.
  destruct v as [n|n|b|w|l|w|n|l|w|b|a| |b2]; cbn [val_sops show_field]; try rewrite stoks_text; cbn [field_shapes map erase].
  - cbn [shape_text]. rewrite plain_syms_text. reflexivity.
  - rewrite <- show_name_shape. reflexivity.
  - rewrite <- cstr_quoted_shape. reflexivity.
  - cbn [shape_text]. rewrite plain_syms_text. reflexivity.
  - rewrite map_map. apply map_ext. intros b. rewrite <- cstr_quoted_shape. reflexivity.
  - destruct w as [|c w]; [reflexivity|]. cbv iota. remember (c :: w) as x.
    cbn [map erase join shape_text]. rewrite plain_syms_text. reflexivity.
  - cbn [shape_text]. rewrite plain_syms_text. reflexivity.
  - rewrite map_map. apply map_ext. intros n. cbn [shape_text]. rewrite plain_syms_text. reflexivity.
  - cbn [join shape_text]. rewrite plain_syms_text. reflexivity.
  - rewrite <- cstr_quoted_shape. reflexivity.
  - cbn [shape_text]. rewrite plain_syms_text. reflexivity.
  - reflexivity.
  - cbn [shape_text]. rewrite plain_syms_text. reflexivity.
Qed.

Lemma rtype_plain n : n < 65536 -> plain_word (show_rtype n) = true.
Proof.
  intros H. pose proof (rtype_table n H) as T. unfold rtype_ok in T. cbv zeta in T.
  apply andb_true_iff in T as [T _]. exact T.
Qed.

Lemma salt_text_plain w : forallb plain_char w = true -> plain_word (salt_text w) = true.
Proof. intros H. destruct w as [|c w]; [reflexivity|]. unfold salt_text, plain_word. rewrite H. reflexivity. Qed.

Lemma val_sops_good k v : wf_field k v -> Forall good_sop (val_sops v).
Proof.
  assert (S : forall sh, good_shape sh = true -> good_sop (STok sh)) by (intros sh G; split; [exact G | constructor]).
  destruct k, v; cbn [wf_field val_sops field_shapes map]; intros W; try contradiction.
  - constructor; [|constructor]. apply S, plain_word_good, show_dec_plain.
  - constructor; [|constructor]. apply S, name_shape_good, W.
  - constructor; [|constructor]. apply S, cstr_quoted_good, W.
  - constructor; [|constructor]. apply S, plain_word_good, W.
  - destruct W as [_ W]. rewrite !Forall_map. eapply Forall_impl; [|exact W]. intros b Hb. apply S, cstr_quoted_good, Hb.
  - constructor; [|constructor]. apply S, plain_word_good, rtype_plain, W.
  - rewrite !Forall_map. eapply Forall_impl; [|exact W]. intros n Hn. apply S, plain_word_good, rtype_plain, Hn.
  - constructor; [exact I|]. constructor; [|constructor]. apply S, plain_word_good, salt_text_plain, (proj1 W).
  - constructor; [|constructor]. apply S, plain_word_good, show_dec_plain.
  - constructor; [|constructor]. apply S, plain_word_good, show_ip4_plain, W.
  - constructor; [|constructor]. apply S, plain_word_good. destruct W as (W1 & W2 & _).
    destruct (blob32_roundtrip b W1 W2) as (w & D & P & _). unfold b32_text. rewrite D. exact P.
  - constructor; [|constructor]. apply S. reflexivity.
  - constructor; [|constructor]. apply S, cstr_quoted_good, W.
  - destruct w as [|c w]; [repeat constructor|]. constructor; [|constructor]. apply S, plain_word_good.
    unfold plain_word. rewrite W. reflexivity.
Qed.

Lemma map_o_charstrs l : Forall wf_charstr l ->
  map_o read_charstr (map (shape_tok true) (map (fun b => TQuoted (map quoted_from_octet b)) l)) = Ok l.
Proof.
  induction 1 as [|b l Hb _ IH]; [reflexivity|]. cbn [map map_o].
  rewrite read_charstr_quoted by exact Hb. cbn [bind]. rewrite IH. reflexivity.
Qed.

Lemma read_rtype_ok sp n : n < 65536 -> read_rtype (shape_tok sp (TWord (map SChar (show_rtype n)))) = Ok n.
Proof.
  intros H. pose proof (rtype_table n H) as T. unfold rtype_ok in T. cbv zeta in T.
  apply andb_true_iff in T as [T1 T2]. unfold plain_word in T1. apply andb_true_iff in T1 as [_ T1].
  unfold read_rtype. rewrite plain_read_ascii by exact T1. cbn [bind].
  destruct (parse_rtype (show_rtype n)) as [x|]; [|discriminate]. cbn [opt_is] in T2. apply N.eqb_eq in T2. subst. reflexivity.
Qed.

Lemma map_o_rtypes l : Forall (fun n => n < 65536) l ->
  map_o read_rtype (map (shape_tok true) (map (fun n => TWord (map SChar (show_rtype n))) l)) = Ok l.
Proof.
  induction 1 as [|n l Hn _ IH]; [reflexivity|]. cbn [map map_o].
  rewrite read_rtype_ok by exact Hn. cbn [bind]. rewrite IH. reflexivity.
Qed.

Lemma salt_back w : w <> [45] -> match salt_text w with [45] => [] | _ => salt_text w end = w.
Proof.
  intros H. destruct w as [|c w]; [reflexivity|]. unfold salt_text.
  destruct c as [|p]; try reflexivity.
  destruct w as [|d w]; [|repeat (destruct p as [p|p|]; try reflexivity)].
  repeat (destruct p as [p|p|]; try reflexivity). congruence.
Qed.

Lemma read_octets_quoted sp b : wf_bytes b -> read_octets (shape_tok sp (TQuoted (map quoted_from_octet b))) = Ok b.
Proof. intros W. unfold read_octets. cbn [shape_tok t_syms]. apply (enc_octets true); [exact W | exact quoted_table]. Qed.

Lemma read_fields_ok ks : forall vs, wf_fields ks vs ->
  read_fields ks (map (shape_tok true) (flat_map field_shapes vs)) = Ok vs.
Proof.
  induction ks as [|k kr IH]; intros [|v vr] W; cbn [wf_fields] in W; try contradiction; [reflexivity|].
  destruct W as (Wv & Wl & Wr). cbn [read_fields flat_map]. rewrite map_app.
  assert (Last : reads_to_end k -> kr = [] /\ vr = []).
  { intros E. specialize (Wl E). subst kr. split; [reflexivity|]. destruct vr; [reflexivity | cbn [wf_fields] in Wr; contradiction]. }
  destruct k, v; cbn [wf_field] in Wv; try contradiction; cbn [field_shapes map app read_field].
  - destruct (scan_show_int max n true Wv) as (_ & _ & R). unfold digit_syms in R. rewrite R. cbn [bind].
    rewrite IH by exact Wr. reflexivity.
  - rewrite read_name_shape by exact Wv. cbn [bind]. rewrite IH by exact Wr. reflexivity.
  - rewrite read_charstr_quoted by exact Wv. cbn [bind]. rewrite IH by exact Wr. reflexivity.
  - cbn [shape_tok t_syms]. rewrite plain_word_text. cbn [bind]. rewrite IH by exact Wr. reflexivity.
  - destruct Wv as [NE Wc]. destruct (Last (or_introl eq_refl)) as [-> ->].
    cbn [flat_map]. rewrite app_nil_r.
    destruct l as [|b l]; [congruence|].
    pose proof (map_o_charstrs (b :: l) Wc) as M. cbn [map] in M |- *. rewrite M. cbn [bind read_fields]. reflexivity.
  - rewrite read_rtype_ok by exact Wv. cbn [bind]. rewrite IH by exact Wr. reflexivity.
  - destruct (Last (or_intror (or_intror eq_refl))) as [-> ->]. cbn [flat_map]. rewrite app_nil_r.
    rewrite map_o_rtypes by exact Wv. cbn [bind read_fields]. reflexivity.
  - destruct Wv as (Wp & Wn & Wlen). cbn [shape_tok t_syms]. rewrite plain_word_text. cbn [bind].
    assert (L : (2 * nsec3_salt_max <? len (salt_text w)) = false).
    { destruct w as [|c w]; [reflexivity|]. unfold salt_text. lia. }
    rewrite L. cbv iota. rewrite salt_back by exact Wn. cbn [bind]. rewrite IH by exact Wr. reflexivity.
  - rewrite read_timestamp_dec by exact Wv. cbn [bind]. rewrite IH by exact Wr. reflexivity.
  - pose proof (show_ip4_plain _ Wv) as P. unfold plain_word in P. apply andb_true_iff in P as [_ P].
    rewrite plain_read_octets by exact P. cbn [bind]. rewrite parse_show_ip4 by exact Wv. cbv iota. cbn [bind]. rewrite IH by exact Wr. reflexivity.
  - destruct Wv as (W1 & W2 & W3). destruct (blob32_roundtrip b W1 W2) as (w & D & P & C).
    unfold b32_text. rewrite D. cbv iota. cbn [shape_tok t_syms]. rewrite plain_word_text. cbn [bind]. rewrite C. cbn [bind].
    destruct (nsec3_hash_max <? len b) eqn:E; [lia|]. cbn [bind].
    rewrite IH by exact Wr. reflexivity.
  - change (read_ascii (shape_tok true (TWord [SChar ch_dot]))) with (Ok [46] : outcome text). cbn [bind].
    rewrite IH by exact Wr. reflexivity.
  - rewrite read_octets_quoted by exact Wv. cbn [bind]. rewrite IH by exact Wr. reflexivity.
  - destruct (Last (or_intror (or_introl eq_refl))) as [-> ->].
    cbn [flat_map]. rewrite app_nil_r.
    destruct w as [|c w]; [reflexivity|]. cbv iota. remember (c :: w) as x.
    cbn [map map_o shape_tok t_syms]. rewrite plain_word_text. cbn [bind concat read_fields]. rewrite app_nil_r. reflexivity.
Qed.

(* ------------------------------------------------------------------ records *)

Definition field_sops (fc : fval * list text) : list sop :=
  val_sops (fst fc) ++ map SComment (snd fc)
  ++ match fst fc with VSalt _ => [SEnd] | _ => [] end.
Definition data_sops (block : bool) (fs : list (fval * list text)) : list sop :=
  if block then SBegin :: flat_map field_sops fs ++ [SEnd] else flat_map field_sops fs.
Definition record_sops (r : record) : list sop :=
  STok (TWord (name_shape_syms (r_owner r))) :: STok (TWord (map SChar (show_dec (r_ttl r))))
  :: STok (TWord (map SChar (show_class (r_class r)))) :: STok (TWord (map SChar (show_rtype (r_type r))))
  :: data_sops (r_block r) (r_fields r).

Lemma erase_field_sops fc : map erase (field_sops fc) = field_ops fc.
Proof.
  unfold field_sops, field_ops. rewrite !map_app. f_equal; [apply val_sops_text|]. f_equal.
  - rewrite map_map. reflexivity.
  - destruct (fst fc); reflexivity.
Qed.

Lemma erase_flat fs : map erase (flat_map field_sops fs) = flat_map field_ops fs.
Proof. induction fs as [|f fs IH]; [reflexivity|]. cbn [flat_map]. rewrite map_app, erase_field_sops, IH. reflexivity. Qed.

Lemma erase_record r : map erase (record_sops r) = record_ops r.
Proof.
  unfold record_sops, record_ops. cbn [map erase join].
  rewrite <- show_name_shape. cbn [shape_text]. rewrite !plain_syms_text. do 4 f_equal.
  unfold data_sops, Model.data_ops. destruct (r_block r).
  - cbn [map erase]. rewrite map_app, erase_flat. reflexivity.
  - apply erase_flat.
Qed.

Definition comments_ok (fs : list (fval * list text)) : Prop :=
  Forall (fun fc => Forall (fun c => ~ In ch_lf c) (snd fc)) fs.

Definition wf_record (schema : list fkind) (r : record) : Prop :=
  wf_name (r_owner r) /\ r_ttl r <= 4294967295 /\ r_class r < 65536 /\ r_type r < 65536 /\
  wf_fields schema (map fst (r_fields r)) /\ comments_ok (r_fields r).

Lemma wf_fields_each ks : forall vs, wf_fields ks vs -> Forall (fun v => exists k, wf_field k v) vs.
Proof.
  induction ks as [|k kr IH]; intros [|v vr] W; cbn [wf_fields] in W; try contradiction; [constructor|].
  destruct W as (Wv & _ & Wr). constructor; [exists k; exact Wv | apply IH, Wr].
Qed.

Lemma good_flat fs : Forall (fun v => exists k, wf_field k v) (map fst fs) -> comments_ok fs ->
  Forall good_sop (flat_map field_sops fs).
Proof.
  induction fs as [|f fs IH]; intros W C; [constructor|]. destruct f as [v oc].
  cbn [map fst] in W. inversion W as [|? ? [k Wk] Wr]; subst. inversion C as [|? ? C1 C2]; subst.
  cbn [flat_map]. cbn [snd] in C1. apply Forall_app. split; [|apply IH; assumption].
  unfold field_sops. cbn [fst snd]. apply Forall_app. split.
  - exact (val_sops_good k _ Wk).
  - apply Forall_app. split.
    + rewrite Forall_map. exact C1.
    + destruct v; repeat constructor.
Qed.

Lemma balanced_stoks l d rest : balanced d (map (fun sh => STok sh) l ++ rest) = balanced d rest.
Proof. induction l as [|sh l IH]; [reflexivity|]. cbn [map app balanced]. exact IH. Qed.

Lemma expect_stoks multi l rest :
  expect multi true (map (fun sh => STok sh) l ++ rest) = map (shape_tok true) l ++ expect multi true rest.
Proof. induction l as [|sh l IH]; [reflexivity|]. cbn [map app expect]. f_equal. exact IH. Qed.

Lemma balanced_field fc d rest : balanced d (field_sops fc ++ rest) = balanced d rest.
Proof.
  destruct fc as [v oc]. unfold field_sops. cbn [fst snd]. rewrite <- !app_assoc.
  assert (C : forall d r, balanced d (map SComment oc ++ r) = balanced d r).
  { intros d0 r. induction oc as [|c oc IHc]; [reflexivity | exact IHc]. }
  destruct v as [n|n|b|w|l|w|n|l|w|b|a| |b2]; cbn [val_sops];
    try (rewrite balanced_stoks, C; reflexivity).
  - destruct w as [|c w]; [cbn [app balanced]; rewrite C; reflexivity | rewrite balanced_stoks, C; reflexivity].
  - cbn [app balanced]. rewrite balanced_stoks, C. cbn [app balanced].
    replace (d + 1 - 1) with d by lia. destruct (0 <? d + 1) eqn:E; [reflexivity|lia].
Qed.

Lemma expect_field multi fc rest :
  expect multi true (field_sops fc ++ rest) = map (shape_tok true) (field_shapes (fst fc)) ++ expect multi true rest.
Proof.
  destruct fc as [v oc]. unfold field_sops. cbn [fst snd]. rewrite <- !app_assoc.
  assert (C : forall r, expect multi true (map SComment oc ++ r) = expect multi true r).
  { intros r. induction oc as [|c oc IHc]; [reflexivity | exact IHc]. }
  destruct v as [n|n|b|w|l|w|n|l|w|b|a| |b2]; cbn [val_sops];
    try (rewrite expect_stoks, C; reflexivity).
  - destruct w as [|c w]; [cbn [app expect]; rewrite C; reflexivity | rewrite expect_stoks, C; reflexivity].
  - cbn [app expect orb]. rewrite expect_stoks, C. reflexivity.
Qed.

Lemma balanced_flat fs d rest : balanced d (flat_map field_sops fs ++ rest) = balanced d rest.
Proof.
  induction fs as [|f fs IH]; [reflexivity|]. cbn [flat_map]. rewrite <- app_assoc, balanced_field. exact IH.
Qed.

Lemma expect_flat multi fs rest :
  expect multi true (flat_map field_sops fs ++ rest)
  = map (shape_tok true) (flat_map field_shapes (map fst fs)) ++ expect multi true rest.
Proof.
  induction fs as [|f fs IH]; [reflexivity|]. cbn [flat_map map]. rewrite <- app_assoc, map_app, <- app_assoc.
  rewrite expect_field. f_equal. exact IH.
Qed.

Lemma record_sops_facts multi schema r : wf_record schema r ->
  Forall good_sop (record_sops r) /\ balanced 0 (record_sops r) = true /\
  expect multi false (record_sops r)
  = shape_tok false (TWord (name_shape_syms (r_owner r))) :: word_tok (show_dec (r_ttl r))
    :: word_tok (show_class (r_class r)) :: word_tok (show_rtype (r_type r))
    :: map (shape_tok true) (flat_map field_shapes (map fst (r_fields r))).
Proof.
  intros (Wo & Wt & Wc & Wy & Wf & Wm).
  pose proof (class_table _ Wc) as C. unfold class_ok in C. cbv zeta in C. apply andb_true_iff in C as [C _]. apply andb_true_iff in C as [C _].
  pose proof (rtype_table _ Wy) as T. unfold rtype_ok in T. cbv zeta in T. apply andb_true_iff in T as [T _].
  pose proof (good_flat _ (wf_fields_each _ _ Wf) Wm) as GF.
  split; [|split].
  - unfold record_sops. repeat constructor.
    + apply name_shape_good, Wo.
    + apply plain_word_good, show_dec_plain.
    + apply plain_word_good, C.
    + apply plain_word_good, T.
    + unfold data_sops. destruct (r_block r); [|exact GF].
      constructor; [exact I|]. apply Forall_app. split; [exact GF | repeat constructor].
  - unfold record_sops. cbn [balanced]. unfold data_sops. destruct (r_block r).
    + cbn [balanced]. rewrite balanced_flat. reflexivity.
    + rewrite <- (app_nil_r (flat_map field_sops (r_fields r))). rewrite balanced_flat. reflexivity.
  - unfold record_sops, word_tok. cbn [expect map app]. do 4 f_equal.
    unfold data_sops. destruct (r_block r).
    + cbn [expect orb]. rewrite orb_true_l || idtac. rewrite expect_flat. cbn [expect]. rewrite app_nil_r. reflexivity.
    + rewrite <- (app_nil_r (flat_map field_sops (r_fields r))). rewrite expect_flat. cbn [expect]. rewrite app_nil_r. reflexivity.
Qed.

(* the owner: Display for Label escapes '$', so the first symbol of an owner is never an
   unescaped '$' (control entry), and a name is never the free standing '@' *)
Lemma read_owner_ok n : wf_name n ->
  read_owner None (shape_tok false (TWord (name_shape_syms n))) = Ok n.
Proof.
  intros W. pose proof (read_name_shape false n None W) as RN.
  unfold read_owner. cbn [shape_tok t_spaced t_syms] in *.
  destruct n as [|l r].
  - exact RN.
  - destruct W as [Wl _]. inversion Wl as [|? ? [Wb [L1 _]] _]; subst.
    destruct l as [|b l]; [cbn in L1; lia|]. cbn [name_shape_syms map app] in *.
    inversion Wb as [|? ? Hb _]; subst.
    destruct (label_table b Hb) as [T _]. unfold enc_ok in T. apply andb_true_iff in T as [_ T].
    destruct (label_sym b) as [c|c|c] eqn:E; try exact RN.
    apply andb_true_iff in T as [T _]. apply andb_true_iff in T as [T _]. apply N.eqb_eq in T. subst c.
    destruct (b =? ch_dollar) eqn:E1.
    + exfalso. apply N.eqb_eq in E1. subst b. vm_compute in E. discriminate.
    + assert (X : forall (A : Type) (u v : list A) (w : A),
                match u ++ v ++ [w] with [] => true | _ :: _ => false end = false).
      { intros A u v w. destruct u; [|reflexivity]. destruct v; reflexivity. }
      rewrite X, andb_false_r. exact RN.
Qed.

(* owner names at entry level: whatever the first label starts with ('$', '@', '\', '(', ';',
   a blank ...), the text written by fmt_with_dot at the start of a line is one unspaced token
   that _scan_entry takes for an owner name -- not for a control entry, the origin or an
   indented entry -- and reads back octet for octet *)
Theorem owner_roundtrip n rest : wf_name n -> starts_delim rest = true ->
  exists t, run (Ok st0) (show_name n ++ rest) = run (Ok (0, [t], MSkip false)) rest /\
            t_spaced t = false /\ read_owner None t = Ok n.
Proof.
  intros W D. destruct (scan_show_name n 0 [] false rest None W D) as (t & R & E & _).
  exists t. split; [exact R|]. subst t. split; [reflexivity | apply read_owner_ok, W].
Qed.

Example ex_owner_specials :
  map (fun c => c06_owner (show_name [[c; 97]] ++ [32; 48; 32; 73; 78; 32; 78; 83; 32; 46; 10])) [36; 64; 92; 40; 59; 32; 34; 46]
  = map (fun c => Ok [[c; 97]]) [36; 64; 92; 40; 59; 32; 34; 46].
Proof. vm_compute. reflexivity. Qed.

(* scan_show_record: every record over regular field kinds, written by any of the three
   writers, reads back equal *)
Theorem scan_show_record k schema r : wf_record schema r ->
  exists t, show_record k r = Ok t /\
    read_record schema t = Ok (r_owner r, r_ttl r, r_class r, r_type r, map fst (r_fields r)).
Proof.
  intros W. destruct (record_sops_facts (is_multi k) schema r W) as (G & B & X).
  destruct (tokens_reassemble k (record_sops r) G B) as (t & R & T).
  rewrite erase_record in R. exists (t ++ [ch_lf]). split.
  - unfold show_record. rewrite R. reflexivity.
  - unfold read_record. rewrite T, X. cbn [bind].
    destruct W as (Wo & Wt & Wc & Wy & Wf & _).
    rewrite read_owner_ok by assumption. cbn [bind].
    rewrite scan_ctr_ok by assumption. cbn [bind].
    rewrite read_fields_ok by exact Wf. reflexivity.
Qed.

(* known finding txt_no_strings: a character-string list field must not be empty
   (wf_field FCharstrs); an empty TXT is written as no token at all and cannot be read *)
Theorem scan_show_record_txt_no_strings_refuted : exists k r,
  exists t, show_record k r = Ok t /\ read_record [FCharstrs] t = Err E_tokens.
Proof.
  exists KSimple, (mk_record [[97]] 0 1 16 true [(VCharstrs [], [])]).
  eexists. split; [vm_compute; reflexivity|]. vm_compute. reflexivity.
Qed.

Example ex_dollar_owner : exists t,
  show_record KSimple (mk_record [[36]] 3600 1 15 true [(VUint 10, [[112]]); (VName [[97]], [])]) = Ok t /\
  read_record [FUint 65535; FName] t = Ok ([[36]], 3600, 1, 15, [VUint 10; VName [[97]]]).
Proof. eexists. split; [vm_compute; reflexivity|]. vm_compute. reflexivity. Qed.

(* ------------------------------------------------------------------ RFC 3597 generic form *)

Definition hex_shape (b : N) : tshape := TWord (map SChar (show_hex2 b)).
Definition generic_sops (owner : list bytes) (ttl cl rt : N) (data : bytes) : list sop :=
  [STok (TWord (name_shape_syms owner)); STok (TWord (map SChar (show_dec ttl)));
   STok (TWord (map SChar (show_class cl))); STok (TWord (map SChar (show_rtype rt)));
   SToks (TWord [SEsc ch_hash]) (TWord (map SChar (show_dec (len data))) :: map hex_shape data)].

Lemma join_flat a l : join 32 (a :: l) = a ++ flat_map (fun x => 32 :: x) l.
Proof.
  revert a. induction l as [|b l IH]; intros a; [cbn; rewrite app_nil_r; reflexivity|].
  change (join 32 (a :: b :: l)) with (a ++ 32 :: join 32 (b :: l)). rewrite IH. reflexivity.
Qed.

Lemma erase_generic owner ttl cl rt data :
  map erase (generic_sops owner ttl cl rt data) = generic_ops owner ttl cl rt data.
Proof.
  unfold generic_sops, generic_ops.
  change (map erase [STok (TWord (name_shape_syms owner)); STok (TWord (map SChar (show_dec ttl)));
            STok (TWord (map SChar (show_class cl))); STok (TWord (map SChar (show_rtype rt)));
            SToks (TWord [SEsc ch_hash]) (TWord (map SChar (show_dec (len data))) :: map hex_shape data)])
    with [OTok (shape_text (TWord (name_shape_syms owner))); OTok (shape_text (TWord (map SChar (show_dec ttl))));
          OTok (shape_text (TWord (map SChar (show_class cl)))); OTok (shape_text (TWord (map SChar (show_rtype rt))));
          OTok (join 32 (shape_text (TWord [SEsc ch_hash]) ::
                 map shape_text (TWord (map SChar (show_dec (len data))) :: map hex_shape data)))].
  rewrite <- show_name_shape. cbn [shape_text]. rewrite !plain_syms_text. do 4 f_equal. f_equal.
  unfold generic_text. rewrite join_flat. cbn [map flat_map shape_text sym_text app].
  rewrite plain_syms_text. unfold ch_hash. cbn [app]. do 5 f_equal.
  induction data as [|b d IH]; [reflexivity|]. cbn [map flat_map]. rewrite IH. unfold hex_shape. cbn [shape_text].
  rewrite plain_syms_text. reflexivity.
Qed.

Lemma hexdig_facts d : d < 16 -> plain_char (hexdig d) = true /\ hexval (hexdig d) = Some d.
Proof.
  intros H. unfold hexdig, hexval, is_digit, plain_char, mem. cbn [existsb].
  destruct (d <? 10) eqn:E.
  - split; [lia|]. destruct ((48 <=? 48 + d) && (48 + d <=? 57)) eqn:E2; [f_equal; lia | lia].
  - split; [lia|]. destruct ((48 <=? 87 + d) && (87 + d <=? 57)) eqn:E2; [lia|].
    destruct ((97 <=? 87 + d) && (87 + d <=? 102)) eqn:E3; [f_equal; lia | lia].
Qed.

Lemma hex_syms_data data : wf_bytes data ->
  hex_syms (flat_map t_syms (map (shape_tok true) (map hex_shape data))) None = Ok data.
Proof.
  induction 1 as [|b d Hb _ IH]; [reflexivity|].
  cbn [map flat_map shape_tok hex_shape t_syms show_hex2 app hex_syms].
  destruct (hexdig_facts (b / 16) ltac:(lia)) as [_ H1]. destruct (hexdig_facts (b mod 16) ltac:(lia)) as [_ H2].
  rewrite H1, H2. change (flat_map t_syms (map (shape_tok true) (map hex_shape d))) with
    (flat_map t_syms (map (shape_tok true) (map hex_shape d))) in IH. rewrite IH. cbn [bind]. f_equal. f_equal. lia.
Qed.

(* generic_form_roundtrip *)
Theorem generic_form_roundtrip k owner ttl cl rt data :
  wf_name owner -> ttl <= 4294967295 -> cl < 65536 -> rt < 65536 ->
  wf_bytes data -> len data <= 65535 ->
  exists t, render k (generic_ops owner ttl cl rt data) = Ok t /\
    read_generic_record (t ++ [ch_lf]) = Ok (owner, ttl, cl, rt, data).
Proof.
  intros Wo Wt Wc Wy Wd Wl.
  pose proof (class_table _ Wc) as C. unfold class_ok in C. cbv zeta in C. apply andb_true_iff in C as [C _]. apply andb_true_iff in C as [C _].
  pose proof (rtype_table _ Wy) as T. unfold rtype_ok in T. cbv zeta in T. apply andb_true_iff in T as [T _].
  assert (G : Forall good_sop (generic_sops owner ttl cl rt data)).
  { unfold generic_sops. repeat constructor.
    - apply name_shape_good, Wo.
    - apply plain_word_good, show_dec_plain.
    - apply plain_word_good, C.
    - apply plain_word_good, T.
    - apply plain_word_good, show_dec_plain.
    - rewrite Forall_map. unfold wf_bytes in Wd. eapply Forall_impl; [|exact Wd]. intros b Hb. cbv beta in Hb. unfold hex_shape.
      apply plain_word_good. unfold plain_word, show_hex2. cbn [forallb negb andb].
      destruct (hexdig_facts (b / 16) ltac:(lia)) as [P1 _]. destruct (hexdig_facts (b mod 16) ltac:(lia)) as [P2 _].
      rewrite P1, P2. reflexivity. }
  destruct (tokens_reassemble k (generic_sops owner ttl cl rt data) G eq_refl) as (t & R & Tk).
  rewrite erase_generic in R. exists t. split; [exact R|].
  unfold read_generic_record. rewrite Tk. unfold generic_sops. cbn [expect map app bind].
  rewrite read_owner_ok by assumption. cbn [bind].
  change (shape_tok true (TWord (map SChar (show_dec ttl)))) with (word_tok (show_dec ttl)).
  change (shape_tok true (TWord (map SChar (show_class cl)))) with (word_tok (show_class cl)).
  change (shape_tok true (TWord (map SChar (show_rtype rt)))) with (word_tok (show_rtype rt)).
  rewrite scan_ctr_ok by assumption. cbn [bind]. rewrite app_nil_r.
  unfold read_generic. cbn [is_marker shape_tok t_quoted t_syms negb andb]. rewrite N.eqb_refl.
  destruct (scan_show_int 65535 (len data) true Wl) as (_ & _ & RU). unfold digit_syms in RU. cbn [shape_tok] in RU.
  rewrite RU. cbn [bind]. rewrite hex_syms_data by exact Wd. cbn [bind]. rewrite N.eqb_refl. reflexivity.
Qed.

(* non-vacuity *)
Example ex_record :
  show_record KMulti (mk_record [[97; 59]] 3600 1 15 true [(VUint 10, [[112]]); (VName [[109]], [])])
  = Ok [97; 92; 59; 46; 32; 51; 54; 48; 48; 32; 73; 78; 32; 77; 88; 32; 40; 32; 49; 48; 9; 59; 32; 112; 10;
        32; 32; 32; 32; 32; 32; 32; 32; 32; 32; 32; 32; 32; 32; 32; 32; 32; 32; 109; 46; 32; 41; 10].
Proof. vm_compute. reflexivity. Qed.
Example ex_generic : read_generic_record ([46; 32; 48; 32; 73; 78; 32] ++ show_rtype 65280 ++ 32 :: generic_text [222; 173] ++ [10])
  = Ok ([], 0, 1, 65280, [222; 173]).
Proof. vm_compute. reflexivity. Qed.
