(* C06 proofs, part 4: per-type presentation schemas.  T1 extracts, for every
   regular record type, the sequence of write_token / write_show /
   write_comment calls of its ZonefileFmt impl and the sequence of scanner calls
   of its scan function (Gen.type_schemas).  Here: writer and reader agree field
   by field for every type (finite check), and scan_show_record instantiated for
   every type. *)
From Coq Require Import NArith ZArith List Bool Lia ZifyN ZifyBool ZifyNat.
From DV Require Import Base.Outcome Base.Bytes C06.Gen C06.Model C06.Proofs C06.Proofs2 C06.Tables C06.Proofs3.
Import ListNotations.
Local Open Scope N_scope.

Lemma type_schemas_ok : forallb schema_ok type_schemas = true.
Proof. vm_compute. reflexivity. Qed.

Lemma compat_all_length ws : forall rs, compat_all ws rs = true -> length ws = length rs.
Proof.
  induction ws as [|w ws IH]; intros [|r rs] H; cbn [compat_all] in H; try discriminate; [reflexivity|].
  apply andb_true_iff in H as [H _]. apply andb_true_iff in H as [_ H]. cbn [length]. f_equal. apply IH, H.
Qed.

Lemma opt_map_length {A B} (f : A -> option B) l : forall ys, opt_map f l = Some ys -> length ys = length l.
Proof.
  induction l as [|x l IH]; intros ys H; cbn [opt_map] in H.
  - injection H as <-. reflexivity.
  - destruct (f x); [|discriminate]. destruct (opt_map f l) as [zs|]; [|discriminate].
    injection H as <-. cbn [length]. f_equal. apply IH. reflexivity.
Qed.

Lemma wf_fields_length ks : forall vs, wf_fields ks vs -> length ks = length vs.
Proof.
  induction ks as [|k ks IH]; intros [|v vs] W; cbn [wf_fields] in W; try contradiction; [reflexivity|].
  destruct W as (_ & _ & W). cbn [length]. f_equal. apply IH, W.
Qed.

Lemma with_comments_fst ws : forall vs, length ws = length vs -> map fst (with_comments ws vs) = vs.
Proof.
  induction ws as [|w ws IH]; intros [|v vs] L; cbn [length] in L; try discriminate; [reflexivity|].
  cbn [with_comments map fst]. f_equal. apply IH. lia.
Qed.

Lemma with_comments_ok ws : forall vs,
  forallb (fun w => negb (mem ch_lf (snd (snd w)))) ws = true -> comments_ok (with_comments ws vs).
Proof.
  induction ws as [|w ws IH]; intros vs H; [constructor|]. destruct vs as [|v vs]; [constructor|].
  cbn [forallb] in H. apply andb_true_iff in H as [H1 H2]. cbn [with_comments]. constructor; [|apply IH, H2].
  cbn [snd].
  assert (T : ~ In ch_lf (snd (snd w))).
  { intros K. unfold mem in H1. apply negb_true_iff in H1.
    assert (E : existsb (N.eqb ch_lf) (snd (snd w)) = true).
    { apply existsb_exists. exists ch_lf. split; [exact K | apply N.eqb_refl]. }
    rewrite E in H1. discriminate. }
  assert (Z : ~ In ch_lf (@nil N)) by (intros []).
  destruct (fst (snd w)) as [|p]; [constructor|].
  destruct p as [p|p|]; try destruct p; repeat constructor; assumption.
Qed.

(* scan_show_record for any schema whose writer and reader sides agree *)
Lemma scan_show_record_schema e : schema_ok e = true ->
  exists ks, schema_kinds e = Some ks /\
  forall k owner ttl cl vs, wf_name owner -> ttl <= 4294967295 -> cl < 65536 -> wf_fields ks vs ->
  exists t, show_record k (typed_record e owner ttl cl vs) = Ok t /\
            read_record ks t = Ok (owner, ttl, cl, s_code e, vs).
Proof.
  intros A.
  unfold schema_ok in A. apply andb_true_iff in A as [A A4]. apply andb_true_iff in A as [A A3].
  apply andb_true_iff in A as [A1 A2].
  destruct (schema_kinds e) as [ks|] eqn:K; [|discriminate]. exists ks. split; [reflexivity|].
  intros k owner ttl cl vs Wo Wt Wc Wf.
  assert (L : length (s_wfields e) = length vs).
  { pose proof (compat_all_length _ _ A1) as L1. unfold schema_kinds in K.
    pose proof (opt_map_length _ _ _ K) as L2. rewrite combine_length, map_length in L2.
    pose proof (wf_fields_length _ _ Wf) as L3. lia. }
  assert (W : wf_record ks (typed_record e owner ttl cl vs)).
  { unfold wf_record, typed_record. cbn [r_owner r_ttl r_class r_type r_fields].
    rewrite with_comments_fst by exact L.
    split; [exact Wo|]. split; [exact Wt|]. split; [exact Wc|]. split; [lia|].
    split; [exact Wf | apply with_comments_ok, A3]. }
  destruct (scan_show_record k ks _ W) as (t & S & R). exists t. split; [exact S|].
  rewrite R. unfold typed_record. cbn [r_owner r_ttl r_class r_type r_fields]. rewrite with_comments_fst by exact L.
  reflexivity.
Qed.

(* ... for every regular record type, with the schema read off the code *)
Theorem scan_show_record_typed e : In e type_schemas ->
  exists ks, schema_kinds e = Some ks /\
  forall k owner ttl cl vs, wf_name owner -> ttl <= 4294967295 -> cl < 65536 -> wf_fields ks vs ->
  exists t, show_record k (typed_record e owner ttl cl vs) = Ok t /\
            read_record ks t = Ok (owner, ttl, cl, s_code e, vs).
Proof.
  intros Hin. pose proof type_schemas_ok as A. rewrite forallb_forall in A. apply scan_show_record_schema, A, Hin.
Qed.

(* ... and for IPSECKEY with each of the gateway forms (none ".", IPv4, IPv6, name) *)
Lemma ipseckey_schemas_ok : forallb (fun g => schema_ok (resolve_gateway ipseckey_schema g)) ipseckey_gateways = true.
Proof. vm_compute. reflexivity. Qed.

Theorem scan_show_record_ipseckey g : In g ipseckey_gateways ->
  let e := resolve_gateway ipseckey_schema g in
  exists ks, schema_kinds e = Some ks /\
  forall k owner ttl cl vs, wf_name owner -> ttl <= 4294967295 -> cl < 65536 -> wf_fields ks vs ->
  exists t, show_record k (typed_record e owner ttl cl vs) = Ok t /\
            read_record ks t = Ok (owner, ttl, cl, s_code e, vs).
Proof.
  intros Hin e. pose proof ipseckey_schemas_ok as A. rewrite forallb_forall in A. apply scan_show_record_schema, (A g Hin).
Qed.

Example ex_ipseckey_kinds : map (fun g => schema_kinds (resolve_gateway ipseckey_schema g)) ipseckey_gateways
  = [Some [FUint 255; FUint 255; FUint 255; FDot; FRest]; Some [FUint 255; FUint 255; FUint 255; FIp4; FRest];
     Some [FUint 255; FUint 255; FUint 255; FWord; FRest]; Some [FUint 255; FUint 255; FUint 255; FName; FRest]].
Proof. vm_compute. reflexivity. Qed.

(* non-vacuity: MX, DS *)
Example ex_typed_mx : c06_rec 2 15 [[97]] 300 1 [VUint 10; VName [[109]; [120]]]
  = Ok ([97; 46; 32; 51; 48; 48; 32; 73; 78; 32; 77; 88; 32; 40; 32; 49; 48; 9; 59; 32; 112; 114; 101; 102; 101; 114; 101; 110; 99; 101; 10;
         32; 32; 32; 32; 32; 32; 32; 32; 32; 32; 32; 32; 32; 32; 32; 109; 46; 120; 46; 32; 41; 10],
        Ok ([[97]], 300, 1, 15, [VUint 10; VName [[109]; [120]]])).
Proof. vm_compute. reflexivity. Qed.
Example ex_typed_ds_schema : option_map (fun e => (s_block e, schema_kinds e)) (find_schema type_schemas 43)
  = Some (true, Some [FUint 65535; FUint 255; FUint 255; FRest]).
Proof. vm_compute. reflexivity. Qed.

(* nesting: the writer's block depth exceeds 1 for NSEC3 / NSEC3PARAM (the salt is a block
   inside the record's block), so the reader's parenthesis state must be a counter *)
Fixpoint max_depth (d m : N) (ops : list op) : N :=
  match ops with
  | [] => m
  | OBegin :: r => max_depth (d + 1) (N.max m (d + 1)) r
  | OEnd :: r => max_depth (d - 1) m r
  | _ :: r => max_depth d m r
  end.

Definition nsec3_example : option record :=
  option_map (fun e => typed_record e [[97]] 0 1 [VUint 1; VUint 0; VUint 10; VSalt []; VB32 [0]; VTypes [1; 46]])
             (find_schema type_schemas 50).

Lemma nsec3_nests_two_deep :
  option_map (fun r => max_depth 0 0 (record_ops r)) nsec3_example = Some 2.
Proof. vm_compute. reflexivity. Qed.

(* its multi-line text (line feeds at depth 1 and 2, two closing parentheses) is read as the
   eleven tokens *)
Lemma nsec3_multiline_tokens :
  option_map (fun r => do t <- show_record KMulti r; do ts <- tokenize t; Ok (length ts)) nsec3_example
  = Some (Ok 11%nat).
Proof. vm_compute. reflexivity. Qed.

(* a reader that only remembers WHETHER it is inside parentheses ends the group at the inner
   ')' and rejects the outer one *)
Lemma paren_depth_must_count :
  run (Ok (2, [], MSkip false)) [41; 32; 41; 10] = Ok (0, [], MDone) /\
  run (Ok (1, [], MSkip false)) [41; 32; 41; 10] = Err E_parens.
Proof. split; vm_compute; reflexivity. Qed.

(* ------------------------------------------------------------------ IPv6 address text: finite facts
   (the round trip parse_ip6 (show_ip6 g) = Some g itself is tied by T2 `ip6show` / `ip6read`
   only; proved here: every group's text reads back, contains neither ':' nor '.', and the run
   that "::" replaces consists of zero groups) *)
Lemma hex16_roundtrip : forall n, n < 65536 ->
  parse_hex16 (show_hex16 n) = Some n /\ mem 58 (show_hex16 n) = false /\ mem 46 (show_hex16 n) = false /\
  forallb plain_char (show_hex16 n) = true.
Proof.
  intros n Hn.
  assert (H : all_below (fun n => opt_is (parse_hex16 (show_hex16 n)) n && negb (mem 58 (show_hex16 n)) &&
                                   negb (mem 46 (show_hex16 n)) && forallb plain_char (show_hex16 n)) 65536 = true)
    by (vm_compute; reflexivity).
  pose proof (all_below_spec _ _ H n Hn) as A. cbv beta in A.
  apply andb_true_iff in A as [A A4]. apply andb_true_iff in A as [A A3]. apply andb_true_iff in A as [A1 A2].
  destruct (parse_hex16 (show_hex16 n)) as [x|]; [|discriminate]. cbn [opt_is] in A1. apply N.eqb_eq in A1. subst x.
  repeat split; try assumption; [destruct (mem 58 _) | destruct (mem 46 _)]; try reflexivity; discriminate.
Qed.

Definition run_sound (l : list bool) : bool :=
  let '(st, ln) := zero_run l 0 (0, 0) (0, 0) in
  (N.to_nat (st + ln) <=? length l)%nat &&
  forallb (fun b => b) (firstn (N.to_nat ln) (skipn (N.to_nat st) l)) &&
  Nat.eqb (length (firstn (N.to_nat ln) (skipn (N.to_nat st) l))) (N.to_nat ln).

Lemma zero_run_sound : forall l, length l = 8%nat -> run_sound l = true.
Proof.
  intros l L. do 8 (destruct l as [|? l]; [discriminate|]). destruct l; [|discriminate].
  repeat match goal with b : bool |- _ => destruct b end; vm_compute; reflexivity.
Qed.

Example ex_ip6_roundtrip :
  forallb (fun g => match parse_ip6 (show_ip6 g) with Some g' => (Nat.eqb (length g) (length g') && forallb (fun p => fst p =? snd p) (combine g g')) | None => false end)
    [[0;0;0;0;0;0;0;0]; [0;0;0;0;0;0;0;1]; [8193;3512;0;0;0;0;0;1]; [1;0;0;2;0;0;0;3]; [1;0;0;0;2;0;0;0]; [0;0;0;0;0;65535;258;772];
     [0;0;0;0;0;0;258;772]; [1;2;3;4;5;6;7;8]; [1;0;3;0;5;0;7;0]; [0;1;0;0;1;0;0;0]; [65535;65535;65535;65535;65535;65535;65535;0]] = true.
Proof. vm_compute. reflexivity. Qed.

(* known finding empty_field_NSEC3: an empty next-owner hash is written as an empty token in
   mid-record and the record does not read back (wf_field FB32 requires a non-empty hash) *)
Lemma nsec3_empty_next_owner_refuted :
  c06_rec 0 50 [] 0 1 [VUint 1; VUint 0; VUint 10; VSalt []; VB32 []; VTypes [1]]
  = Ok ([46; 32; 48; 32; 73; 78; 32; 78; 83; 69; 67; 51; 32; 49; 32; 48; 32; 49; 48; 32; 45; 32; 32; 65; 10], Err 2).
Proof. vm_compute. reflexivity. Qed.

(* the structural T1 anchors (each is `true` exactly when its source pattern still matches; a
   changed source makes the extractor fail and this file does not build) *)
Lemma t1_structural_anchors :
  sym_display_checked && parens_is_counter && scan_name_rejects_empty_label && scan_name_at_is_origin &&
  charstr_entry_requires_token && record_order_owner_ttl_class_type && generic_lower_hex_with_spaces &&
  svcb_key_charset_inclusive && uint_scan_add_checked && svcb_values_escaped_with_parens = true.
Proof. reflexivity. Qed.
