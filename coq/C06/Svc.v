(* C06: SVCB / HTTPS service parameters in presentation format.  A parameter is ONE token
   `key` or `key=value` (rdata/svcb/params.rs SvcParams ZonefileFmt writes Display of each
   value; SvcParams::scan reads scan_svcb_octets, i.e. the UNESCAPED octets of the token,
   splits them at the first '=' and hands the value octets to the key's
   value_from_scan_octets).  Per key: Display and value_from_scan_octets of
   rdata/svcb/value.rs (Mandatory, Alpn, NoDefaultAlpn, Port, Ipv4Hint, Ech, Ipv6Hint,
   DohPath, Ohttp, TlsSupportedGroups) and params.rs UnknownSvcParam. *)
From Coq Require Import NArith ZArith List Bool.
From DV Require Import Base.Outcome Base.Bytes C06.Gen C06.Model.
From DV Require C18.Model.
Import ListNotations.
Local Open Scope N_scope.

Inductive svcparam :=
| PMandatory (ks : list N)
| PAlpn (ids : list bytes)
| PNoDefaultAlpn
| PPort (n : N)
| PIp4hint (l : list bytes)
| PEch (b : bytes)
| PIp6hint (l : list (list N))
| PDohpath (b : bytes)
| POhttp
| PGroups (l : list N)
| PUnknown (k : N) (b : bytes).

Definition svc_key_name (k : N) : text := show_prefixed svc_mnemonics svc_prefix k.
Definition parse_svc_key (s : text) : option N := parse_prefixed svc_mnemonics svc_prefix s.

(* values written with escapes (dohpath, unknown keys): Symbol::from_octet plus parentheses *)
Definition svc_sym (c : N) : sym := if (c =? 40) || (c =? 41) then SEsc c else from_octet c.

Definition chars (t : text) : list sym := map SChar t.
Fixpoint join_comma (ws : list text) : text :=
  match ws with [] => [] | [w] => w | w :: r => w ++ 44 :: join_comma r end.
Definition key_eq (k : N) (v : list sym) : list sym :=
  chars (svc_key_name k) ++ match v with [] => [] | _ => SChar 61 :: v end.

(* Display of each value, as the symbols of the token *)
Definition show_param (p : svcparam) : list sym :=
  match p with
  | PMandatory ks => match ks with [] => [] | _ => key_eq 0 (chars (join_comma (map svc_key_name ks))) end
  | PAlpn ids => match ids with [] => [] | _ => chars (svc_key_name 1 ++ 61 :: join_comma ids) end   (* raw octets *)
  | PNoDefaultAlpn => chars [110; 111; 100; 101; 102; 97; 117; 108; 116; 97; 108; 112; 110]            (* "nodefaultalpn" *)
  | PPort n => key_eq 3 (chars (show_dec n))
  | PIp4hint l => match l with [] => [] | _ => key_eq 4 (chars (join_comma (map show_ip4 l))) end
  | PEch b => key_eq 5 (chars (match DV.C18.Model.b64_display b with Ok t => t | _ => [] end))
  | PIp6hint l => match l with [] => [] | _ => key_eq 6 (chars (join_comma (map show_ip6 l))) end
  | PDohpath b => key_eq 7 (map svc_sym b)
  | POhttp => chars (svc_key_name 8)
  | PGroups l => match l with [] => [] | _ => key_eq 9 (chars (join_comma (map show_dec l))) end
  | PUnknown k b => key_eq k (map svc_sym b)
  end.

(* SvcParamValueScanIter::next_no_escapes: items between commas, a backslash is an error,
   a trailing comma ends the list *)
Fixpoint split_items (cur : text) (s : text) : outcome (list text) :=
  match s with
  | [] => Ok [rev cur]
  | c :: r =>
      if c =? 44 then (match r with [] => Ok [rev cur] | _ => do rest <- split_items [] r; Ok (rev cur :: rest) end)
      else if c =? 92 then Err E_escape
      else split_items (c :: cur) r
  end.
Definition value_items (v : bytes) : outcome (list text) := match v with [] => Ok [] | _ => split_items [] v end.

(* str::from_utf8 *)
Fixpoint utf8_ok (fuel : nat) (s : bytes) : bool :=
  match fuel with O => false | S f =>
  match s with
  | [] => true
  | a :: r =>
      let cont c := (128 <=? c) && (c <=? 191) in
      if a <? 128 then utf8_ok f r
      else if (194 <=? a) && (a <=? 223) then match r with b :: r' => cont b && utf8_ok f r' | _ => false end
      else if a =? 224 then match r with b :: c :: r' => (160 <=? b) && (b <=? 191) && cont c && utf8_ok f r' | _ => false end
      else if ((225 <=? a) && (a <=? 236)) || (a =? 238) || (a =? 239) then match r with b :: c :: r' => cont b && cont c && utf8_ok f r' | _ => false end
      else if a =? 237 then match r with b :: c :: r' => (128 <=? b) && (b <=? 159) && cont c && utf8_ok f r' | _ => false end
      else if a =? 240 then match r with b :: c :: d :: r' => (144 <=? b) && (b <=? 191) && cont c && cont d && utf8_ok f r' | _ => false end
      else if (241 <=? a) && (a <=? 243) then match r with b :: c :: d :: r' => cont b && cont c && cont d && utf8_ok f r' | _ => false end
      else if a =? 244 then match r with b :: c :: d :: r' => (128 <=? b) && (b <=? 143) && cont c && cont d && utf8_ok f r' | _ => false end
      else false
  end end.

Fixpoint no_dups (l : list N) : bool := match l with [] => true | x :: r => negb (mem x r) && no_dups r end.
Fixpoint insert_sorted (x : N) (l : list N) : list N :=
  match l with [] => [x] | y :: r => if x <=? y then x :: l else y :: insert_sorted x r end.
Definition sort_keys (l : list N) : list N := fold_right insert_sorted [] l.

Definition allowed_key_char (c : N) : bool := ((97 <=? c) && (c <=? 122)) || ((48 <=? c) && (c <=? 57)) || (c =? 45).

(* the loop over the octets of the token: key up to the first '=', the rest is the value *)
Fixpoint split_key (key : text) (s : bytes) : outcome (text * bytes) :=
  match s with
  | [] => Ok (rev key, [])
  | c :: r => if allowed_key_char c then split_key (c :: key) r
              else if c =? 61 then Ok (rev key, r) else Err E_symbol
  end.

Definition opt_list {A} (l : list (option A)) : option (list A) :=
  fold_right (fun x acc => match x, acc with Some a, Some r => Some (a :: r) | _, _ => None end) (Some []) l.

(* value_from_scan_octets by key *)
Definition parse_value (k : N) (v : bytes) : outcome svcparam :=
  if k =? 0 then
    do items <- value_items v;
    match opt_list (map parse_svc_key items) with
    | None => Err E_symbol
    | Some ks => if mem 0 ks || negb (no_dups ks) then Err E_symbol
                 else match ks with [] => Err E_symbol | _ => Ok (PMandatory (sort_keys ks)) end   (* a BTreeSet *)
    end
  else if k =? 1 then
    do items <- value_items v;
    match items with [] => Err E_symbol
    | _ => if forallb (fun i => Nat.leb (length i) 255) items then Ok (PAlpn items) else Err E_symbol end
  else if k =? 2 then (match v with [] => Ok PNoDefaultAlpn | _ => Err E_symbol end)
  else if k =? 3 then
    (match v with [] => Err E_symbol | _ => match parse_uint_str 65535 v with Some n => Ok (PPort n) | None => Err E_number end end)
  else if k =? 4 then
    do items <- value_items v;
    match opt_list (map parse_ip4 items) with Some (a :: l) => Ok (PIp4hint (a :: l)) | _ => Err E_symbol end
  else if k =? 5 then
    (match v with [] => Err E_symbol
     | _ => if forallb (fun c => (33 <=? c) && (c <? 127) && negb (mem c [34; 59; 92])) v
            then (do b <- DV.C18.Model.b64_convert [v]; Ok (PEch b)) else Err E_symbol end)
  else if k =? 6 then
    do items <- value_items v;
    match opt_list (map parse_ip6 items) with Some (a :: l) => Ok (PIp6hint (a :: l)) | _ => Err E_symbol end
  else if k =? 7 then (if utf8_ok (S (length v)) v then Ok (PDohpath v) else Err E_symbol)
  else if k =? 8 then (match v with [] => Ok POhttp | _ => Err E_symbol end)
  else if k =? 9 then
    do items <- value_items v;
    match opt_list (map (parse_uint_str 65535) items) with
    | Some l => if no_dups l && negb (match l with [] => true | _ => false end) then Ok (PGroups l) else Err E_symbol
    | None => Err E_number
    end
  else Ok (PUnknown k v).

Definition parse_param (octs : bytes) : outcome svcparam :=
  match octs with
  | [] => Err E_tokens                      (* "SvcParams cannot be empty" *)
  | _ =>
      do kv <- split_key [] octs;
      match parse_svc_key (fst kv) with
      | None => Err E_symbol
      | Some k => parse_value k (snd kv)
      end
  end.

(* scan_svcb_octets on an unquoted token: the unescaped octets *)
Definition read_param (t : tok) : outcome svcparam := do b <- read_octets t; parse_param b.

(* correspondence entry point: ". 0 IN SVCB 1 . <token>\n" *)
Definition c06_svcshow (p : svcparam) : text := flat_map sym_text (show_param p).
Definition c06_svcread (tok : text) : outcome svcparam :=
  do ts <- tokenize ([46; 32; 48; 32; 73; 78; 32; 83; 86; 67; 66; 32; 49; 32; 46; 32] ++ tok ++ [ch_lf]);
  match ts with
  | [_; _; _; _; _; _; t] =>
      do p <- read_param t;
      (* every key listed in mandatory must be among the parameters: never so for a single one *)
      match p with PMandatory _ => Err E_entry | _ => Ok p end
  | _ => Err E_tokens
  end.
