(* C06: the IPv6 address text reads back: parse_ip6 (show_ip6 g) = Some g for all addresses *)
From Coq Require Import NArith ZArith List Bool Lia ZifyN ZifyBool ZifyNat.
From DV Require Import Base.Outcome Base.Bytes C06.Gen C06.Model C06.Proofs C06.Proofs2 C06.Tables C06.B32 C06.Proofs3 C06.Proofs4.
Import ListNotations.
Local Open Scope N_scope.
Ltac Zify.zify_post_hook ::= Z.div_mod_to_equations.

Definition wf_ip6 (g : list N) : Prop := length g = 8%nat /\ Forall (fun x => x < 65536) g.

(* ---- the interpretation of the segments, with find_gap as a function of its own *)
Fixpoint fgap (pre : list text) (l : list text) : option (list text * list text) :=
  match l with
  | [] => None
  | [] :: r => Some (rev pre, r)
  | w :: r => fgap (w :: pre) r
  end.
Definition interp (segs : list text) : option (list N) :=
  match fgap [] segs with
  | None => match parse_groups segs with Some g => if Nat.eqb (length g) 8 then Some g else None | None => None end
  | Some (pre, post) =>
      let post' := match pre, post with [], [] :: r => r | _, _ => post end in
      let post'' := match post' with [[]] => [] | _ => post' end in
      if existsb (fun w => match w with [] => true | _ => false end) (pre ++ post'') then None else
      match parse_groups pre, parse_groups post'' with
      | Some a, Some b => if Nat.leb (length a + length b) 7 then Some (a ++ repeat 0 (8 - length a - length b) ++ b) else None
      | _, _ => None
      end
  end.
Lemma parse_ip6_interp s : parse_ip6 s = interp (split_on 58 [] s).
Proof. reflexivity. Qed.

(* ---- words *)
Definition word_ok (w : text) : Prop := w <> [] /\ ~ In 58 w.

Lemma split_word w : forall cur rest, ~ In 58 w -> split_on 58 cur (w ++ rest) = split_on 58 (rev w ++ cur) rest.
Proof.
  induction w as [|c w IH]; intros cur rest H; [reflexivity|]. cbn [app split_on].
  destruct (c =? 58) eqn:E; [exfalso; apply H; left; apply N.eqb_eq in E; congruence|].
  rewrite IH by (intros K; apply H; right; exact K). cbn [rev]. rewrite <- app_assoc. reflexivity.
Qed.

Lemma split_words r : forall w, Forall word_ok (w :: r) ->
  split_on 58 [] (w ++ flat_map (fun x => 58 :: x) r) = w :: r /\
  forall Z, split_on 58 [] (w ++ flat_map (fun x => 58 :: x) r ++ 58 :: Z) = (w :: r) ++ split_on 58 [] Z.
Proof.
  induction r as [|x r IH]; intros w F; inversion F as [|? ? [_ Hw] F']; subst.
  - cbn [flat_map app]. split.
    + replace (split_on 58 [] (w ++ [])) with (split_on 58 (rev w ++ []) []) by (symmetry; apply split_word, Hw).
      cbn [split_on]. rewrite app_nil_r, rev_involutive. reflexivity.
    + intros Z. rewrite split_word by exact Hw. cbn [split_on N.eqb Pos.eqb]. rewrite app_nil_r, rev_involutive. reflexivity.
  - destruct (IH x F') as [I1 I2]. cbn [flat_map]. split.
    + rewrite split_word by exact Hw. cbn [app split_on N.eqb Pos.eqb]. rewrite app_nil_r, rev_involutive, I1. reflexivity.
    + intros Z. rewrite split_word by exact Hw. rewrite <- app_assoc. cbn [app split_on N.eqb Pos.eqb].
      rewrite app_nil_r, rev_involutive, I2. reflexivity.
Qed.

Lemma fgap_words ws : forall pre, Forall word_ok ws ->
  fgap pre ws = None /\ forall rest, fgap pre (ws ++ [] :: rest) = Some (rev pre ++ ws, rest).
Proof.
  induction ws as [|w ws IH]; intros pre F.
  - split; [reflexivity|]. intros rest. cbn. rewrite app_nil_r. reflexivity.
  - inversion F as [|? ? [Hn _] F']; subst. destruct (IH (w :: pre) F') as [I1 I2].
    destruct w as [|c w]; [congruence|]. cbn [fgap app]. split; [exact I1|].
    intros rest. rewrite I2. cbn [rev]. rewrite <- app_assoc. reflexivity.
Qed.

Lemma hex_word x : x < 65536 -> word_ok (show_hex16 x) /\ parse_hex16 (show_hex16 x) = Some x /\ mem 46 (show_hex16 x) = false.
Proof.
  intros H. destruct (hex16_roundtrip x H) as (P & C & D & Pl). split; [|split; assumption].
  split.
  - intros E. rewrite E in P. discriminate.
  - intros K. unfold mem in C. assert (X : existsb (N.eqb 58) (show_hex16 x) = true).
    { apply existsb_exists. exists 58. split; [exact K | reflexivity]. } congruence.
Qed.

Lemma hex_words l : Forall (fun x => x < 65536) l -> Forall word_ok (map show_hex16 l).
Proof. intros F. rewrite Forall_map. eapply Forall_impl; [|exact F]. intros x Hx. apply hex_word, Hx. Qed.

Lemma parse_groups_hex l : Forall (fun x => x < 65536) l -> parse_groups (map show_hex16 l) = Some l.
Proof.
  induction l as [|x l IH]; intros F; [reflexivity|]. inversion F as [|? ? Hx F']; subst.
  destruct (hex_word x Hx) as (_ & P & D). destruct l as [|y l].
  - cbn [map parse_groups]. rewrite D, P. reflexivity.
  - specialize (IH F'). cbn [map] in *.
    change (parse_groups (show_hex16 x :: show_hex16 y :: map show_hex16 l))
      with (match parse_hex16 (show_hex16 x), parse_groups (show_hex16 y :: map show_hex16 l) with
            | Some a, Some xs => Some (a :: xs) | _, _ => None end).
    rewrite P, IH. reflexivity.
Qed.

Lemma no_empty ws : Forall word_ok ws -> existsb (fun w : list N => match w with [] => true | _ => false end) ws = false.
Proof.
  induction 1 as [|w ws [Hn _] _ IH]; [reflexivity|]. cbn [existsb]. rewrite IH. destruct w; [congruence | reflexivity].
Qed.

(* ---- the text with "::" between two lists of groups *)
Lemma gap_roundtrip A B : Forall (fun x => x < 65536) A -> Forall (fun x => x < 65536) B ->
  (length A + length B <= 6)%nat ->
  parse_ip6 (join_colon (map show_hex16 A) ++ [58; 58] ++ join_colon (map show_hex16 B))
  = Some (A ++ repeat 0 (8 - length A - length B) ++ B).
Proof.
  intros FA FB L. rewrite parse_ip6_interp.
  pose proof (hex_words A FA) as WA. pose proof (hex_words B FB) as WB.
  pose proof (parse_groups_hex A FA) as PA. pose proof (parse_groups_hex B FB) as PB.
  assert (Len : Nat.leb (length A + length B) 7 = true) by (apply Nat.leb_le; lia).
  destruct A as [|a A]; destruct B as [|b B]; cbn [map] in WA, WB, PA, PB.
  - vm_compute. reflexivity.
  - cbn [map join_colon app split_on N.eqb Pos.eqb rev].
    destruct (split_words (map show_hex16 B) (show_hex16 b) WB) as [S1 _]. rewrite S1.
    unfold interp. cbv zeta. cbn [fgap rev]. cbn [app].
    assert (E : match show_hex16 b :: map show_hex16 B with [[]] => [] | _ => show_hex16 b :: map show_hex16 B end
                = show_hex16 b :: map show_hex16 B).
    { destruct (map show_hex16 B); [|destruct (show_hex16 b); reflexivity]. inversion WB as [|? ? [Hn _] _]; subst. destruct (show_hex16 b); [congruence|reflexivity]. }
    rewrite E. rewrite (no_empty _ WB). rewrite PB. cbn [parse_groups length Nat.add] in *. rewrite Len. reflexivity.
  - cbn [map join_colon]. destruct (split_words (map show_hex16 A) (show_hex16 a) WA) as [_ S2].
    rewrite <- app_assoc. cbn [app]. rewrite (S2 [58]).
    change (split_on 58 [] [58]) with [@nil N; @nil N].
    unfold interp. cbv zeta. destruct (fgap_words (show_hex16 a :: map show_hex16 A) [] WA) as [_ G]. rewrite (G [[]]). cbn [rev app].
    cbv iota. rewrite app_nil_r. rewrite (no_empty _ WA). rewrite PA. cbn [parse_groups]. change (length (@nil N)) with 0%nat. rewrite Nat.add_0_r in *. rewrite Len.
    rewrite Nat.sub_0_r, app_nil_r. reflexivity.
  - cbn [map join_colon]. destruct (split_words (map show_hex16 A) (show_hex16 a) WA) as [_ S2].
    rewrite <- app_assoc. cbn [app]. rewrite S2. cbn [split_on N.eqb Pos.eqb rev].
    destruct (split_words (map show_hex16 B) (show_hex16 b) WB) as [S1 _]. rewrite S1.
    unfold interp. cbv zeta. destruct (fgap_words (show_hex16 a :: map show_hex16 A) [] WA) as [_ G]. rewrite G. cbn [rev app].
    cbv iota.
    assert (E2 : match show_hex16 b :: map show_hex16 B with [[]] => [] | _ => show_hex16 b :: map show_hex16 B end
                 = show_hex16 b :: map show_hex16 B).
    { destruct (map show_hex16 B); [|destruct (show_hex16 b); reflexivity]. inversion WB as [|? ? [Hn _] _]; subst. destruct (show_hex16 b); [congruence|reflexivity]. }
    rewrite E2.
    assert (NE : existsb (fun w : list N => match w with [] => true | _ => false end)
                   ((show_hex16 a :: map show_hex16 A) ++ show_hex16 b :: map show_hex16 B) = false).
    { apply no_empty. apply Forall_app. split; assumption. }
    cbn [app] in NE. rewrite NE. rewrite PA, PB. rewrite Len. reflexivity.
Qed.

(* ---- without "::" *)
Lemma plain_roundtrip g : wf_ip6 g -> parse_ip6 (join_colon (map show_hex16 g)) = Some g.
Proof.
  intros [L F]. rewrite parse_ip6_interp. pose proof (hex_words g F) as W. pose proof (parse_groups_hex g F) as P.
  destruct g as [|x g]; [discriminate|]. cbn [map] in *. cbn [join_colon].
  destruct (split_words (map show_hex16 g) (show_hex16 x) W) as [S1 _]. rewrite S1.
  unfold interp. destruct (fgap_words _ [] W) as [G _]. rewrite G, P.
  rewrite L. reflexivity.
Qed.

(* ---- the run replaced by "::" consists of zero groups *)
Lemma zeros_of_pattern n : forall l, forallb (fun b : bool => b) (firstn n (map (N.eqb 0) l)) = true ->
  length (firstn n (map (N.eqb 0) l)) = n -> firstn n l = repeat 0 n.
Proof.
  induction n as [|n IH]; intros l H1 H2; [reflexivity|].
  destruct l as [|x l]; [discriminate|]. cbn [map firstn forallb length repeat] in *.
  apply andb_true_iff in H1 as [E H1]. apply N.eqb_eq in E. subst x. f_equal. apply IH; [exact H1 | lia].
Qed.

Definition show_ip6_general (g : list N) : text :=
  let '(st, ln) := zero_run (map (N.eqb 0) g) 0 (0, 0) (0, 0) in
  if 1 <? ln then
    join_colon (map show_hex16 (firstn (N.to_nat st) g)) ++ [58; 58] ++
    join_colon (map show_hex16 (skipn (N.to_nat (st + ln)) g))
  else join_colon (map show_hex16 g).

Lemma skipn_twice {A} b : forall a (l : list A), skipn a (skipn b l) = skipn (b + a) l.
Proof. induction b as [|b IH]; intros a l; [reflexivity|]. destruct l; [destruct a; reflexivity|]. cbn [skipn Nat.add]. apply IH. Qed.

Theorem ip6_general_roundtrip g : wf_ip6 g -> parse_ip6 (show_ip6_general g) = Some g.
Proof.
  intros [L F]. unfold show_ip6_general.
  pose proof (zero_run_sound (map (N.eqb 0) g) ltac:(rewrite map_length; exact L)) as S. unfold run_sound in S.
  destruct (zero_run (map (N.eqb 0) g) 0 (0, 0) (0, 0)) as [st ln].
  destruct (1 <? ln) eqn:E; [|apply plain_roundtrip; split; assumption].
  apply andb_true_iff in S as [S S3]. apply andb_true_iff in S as [S1 S2].
  apply Nat.leb_le in S1. rewrite map_length in S1. apply Nat.eqb_eq in S3.
  rewrite skipn_map in S2, S3.
  pose proof (zeros_of_pattern _ _ S2 S3) as Z.
  set (s := N.to_nat st) in *. set (n := N.to_nat ln) in *.
  assert (Hn : (2 <= n)%nat) by (subst n; lia).
  assert (Hs : N.to_nat (st + ln) = (s + n)%nat) by (subst s n; lia).
  rewrite Hs in *.
  assert (D : g = firstn s g ++ repeat 0 n ++ skipn (s + n) g).
  { rewrite <- (firstn_skipn s g) at 1. f_equal. rewrite <- (firstn_skipn n (skipn s g)) at 1. rewrite Z, skipn_twice. reflexivity. }
  assert (LA : length (firstn s g) = s) by (apply firstn_length_le; lia).
  assert (LB : length (skipn (s + n) g) = (8 - (s + n))%nat) by (rewrite skipn_length; lia).
  rewrite gap_roundtrip.
  - rewrite LA, LB. replace (8 - s - (8 - (s + n)))%nat with n by lia. rewrite <- D. reflexivity.
  - pose proof F as F'. rewrite D in F'. apply Forall_app in F' as [F1 _]. exact F1.
  - pose proof F as F'. rewrite D in F'. apply Forall_app in F' as [_ F2]. apply Forall_app in F2 as [_ F3]. exact F3.
  - rewrite LA, LB. lia.
Qed.

Example ex_ip6_general : parse_ip6 (show_ip6_general [8193; 3512; 0; 0; 0; 0; 0; 1]) = Some [8193; 3512; 0; 0; 0; 0; 0; 1].
Proof. vm_compute. reflexivity. Qed.
