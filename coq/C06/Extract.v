From Coq Require Import Extraction ExtrOcamlBasic NArith.
From DV Require Import Base.Outcome C06.Gen C06.Model C06.Svc.
From DV Require C18.Model.
Extraction Language OCaml.
Extraction "../build/ml/C06/model.ml" c06_show_label c06_show_cstr c06_show_name c06_render c06_rdname c06_owner c06_txt show_record read_record generic_ops read_generic_record c06_rec c06_hinfo c06_nstext c06_uint c06_ts c06_ip6show c06_ip6read c06_svcshow c06_svcread c06_n3len DV.C18.Model.b16_display DV.C18.Model.b64_display DV.C18.Model.b32_display.
