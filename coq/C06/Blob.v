(* C06 proofs, part 5: Base16 / Base64 fields through the C18 models.  A binary field at
   the end of a record (DS, DNSKEY, RRSIG, SSHFP, TLSA, ZONEMD, OPENPGPKEY, CDS, CDNSKEY) is
   written as the C18 encoder's text -- a word-safe token, or an empty token for no octets
   -- and the reader's convert_entry hands the word texts of the remaining tokens to the
   C18 SymbolConverter, which returns the octets. *)
From Coq Require Import NArith ZArith List Bool Lia ZifyN ZifyBool ZifyNat.
From DV Require Import Base.Outcome Base.Bytes C06.Gen C06.Model C06.Proofs C06.Proofs2 C06.Tables C06.Proofs3.
From DV Require C18.Model C18.Proofs C18.ProofsConv C18.Props.
Import ListNotations.
Local Open Scope N_scope.

Module M18 := DV.C18.Model.

Lemma index_of_in x l : forall i, M18.index_of x l i <> None -> In x l.
Proof.
  induction l as [|a l IH]; intros i H; cbn [M18.index_of] in H; [congruence|].
  destruct (a =? x) eqn:E; [left; apply N.eqb_eq, E | right; eapply IH, H].
Qed.

Lemma alpha_plain : forallb plain_char M18.alpha64 = true /\ forallb plain_char M18.alpha16 = true /\ plain_char 61 = true.
Proof. vm_compute. repeat split. Qed.

Lemma val64_plain c : c = 61 \/ M18.val64 c <> None -> plain_char c = true.
Proof.
  intros [->|H]; [apply alpha_plain|]. apply index_of_in in H.
  destruct alpha_plain as [A _]. rewrite forallb_forall in A. apply A, H.
Qed.

Lemma val16_plain c : M18.val16 c <> None -> plain_char c = true.
Proof.
  intros H. apply index_of_in in H. unfold M18.upper in H.
  destruct ((97 <=? c) && (c <=? 122)) eqn:E.
  - unfold plain_char, mem. cbn [existsb]. lia.
  - destruct alpha_plain as (_ & A & _). rewrite forallb_forall in A. apply A, H.
Qed.

Lemma forall_plain (P : N -> Prop) w : (forall c, P c -> plain_char c = true) -> Forall P w -> forallb plain_char w = true.
Proof. intros H F. induction F as [|c w Hc _ IH]; [reflexivity|]. cbn [forallb]. rewrite (H c Hc), IH. reflexivity. Qed.

(* the tokens the reader sees for a rest-of-entry word, and their word texts *)
Lemma rest_tokens_words w :
  map_o (fun t => word_text (t_syms t)) (map (shape_tok true) (field_shapes (VRest w)))
  = Ok (match w with [] => [] | _ => [w] end).
Proof.
  destruct w as [|c w]; [reflexivity|]. cbn [field_shapes]. remember (c :: w) as x.
  cbn [map map_o shape_tok t_syms]. rewrite plain_word_text. reflexivity.
Qed.

Theorem blob16_roundtrip bs : wf_bytes bs ->
  exists w, M18.b16_display bs = Ok w /\ wf_field FRest (VRest w) /\
    M18.b16_convert (match w with [] => [] | _ => [w] end) = Ok bs.
Proof.
  intros W. destruct (DV.C18.Props.C18_b16_decode_encode bs W) as (w & D & R). exists w. split; [exact D|]. split.
  - cbn [wf_field]. destruct (DV.C18.Props.C18_accepts_only_alphabet w bs) as (_ & _ & A). destruct (A R) as [F _].
    eapply forall_plain; [|exact F]. exact val16_plain.
  - destruct w as [|c w].
    + vm_compute in R. injection R as <-. vm_compute. reflexivity.
    + destruct (DV.C18.Props.C18_converter_agrees_with_decoder [c :: w]) as (_ & _ & S).
      cbn [concat] in S. rewrite app_nil_r, R in S. unfold DV.C18.ProofsConv.same_result in S.
      destruct (M18.b16_convert [c :: w]); try contradiction. subst. reflexivity.
Qed.

Theorem blob64_roundtrip bs : wf_bytes bs ->
  exists w, M18.b64_display bs = Ok w /\ wf_field FRest (VRest w) /\
    M18.b64_convert (match w with [] => [] | _ => [w] end) = Ok bs.
Proof.
  intros W. destruct (DV.C18.Props.C18_b64_decode_encode bs W) as (w & D & R). exists w. split; [exact D|]. split.
  - cbn [wf_field]. destruct (DV.C18.Props.C18_accepts_only_alphabet w bs) as (A & _). destruct (A R) as [_ F].
    eapply forall_plain; [|exact F]. exact val64_plain.
  - destruct w as [|c w].
    + vm_compute in R. injection R as <-. vm_compute. reflexivity.
    + destruct (DV.C18.Props.C18_converter_agrees_with_decoder [c :: w]) as (S & _).
      cbn [concat] in S. rewrite app_nil_r, R in S. unfold DV.C18.ProofsConv.same_result in S.
      destruct (M18.b64_convert [c :: w]); try contradiction. subst. reflexivity.
Qed.

Example ex_blob16 : M18.b16_display [222; 173] = Ok [68; 69; 65; 68].
Proof. vm_compute. reflexivity. Qed.
