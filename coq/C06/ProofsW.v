(* C06 widening: the IPv6 address text reads back for EVERY address: show_ip6 is identified with
   its two branches (IPv4-mapped "::ffff:a.b.c.d" / general), and the mapped branch is read back *)
From Coq Require Import NArith ZArith List Bool Lia ZifyN ZifyBool ZifyNat.
From DV Require Import Base.Outcome Base.Bytes C06.Gen C06.Model C06.Proofs C06.Proofs2 C06.Tables C06.B32 C06.Proofs3 C06.Proofs4 C06.Blob C06.Proofs5 C06.Svc C06.SvcProofs C06.SvcProofs2 C06.Ip6Proofs.
Import ListNotations.
Local Open Scope N_scope.
Ltac Zify.zify_post_hook ::= Z.div_mod_to_equations.

Definition ip6_mapped (g : list N) : bool :=
  match g with
  | [a; b; c; d; e; f; _; _] => (a =? 0) && (b =? 0) && (c =? 0) && (d =? 0) && (e =? 0) && (f =? 65535)
  | _ => false
  end.
Definition show_ip6_mapped (g : list N) : text :=
  match g with
  | [_; _; _; _; _; _; g6; g7] =>
      [58; 58; 102; 102; 102; 102; 58] ++ show_ip4 [g6 / 256; g6 mod 256; g7 / 256; g7 mod 256]
  | _ => []
  end.

(* the compiled pattern match of show_ip6 is the test ip6_mapped *)
Lemma show_ip6_branches g : length g = 8%nat ->
  show_ip6 g = if ip6_mapped g then show_ip6_mapped g else show_ip6_general g.
Proof.
  intros L. destruct g as [|a [|b [|c [|d [|e [|f [|g6 [|g7 [|]]]]]]]]]; try discriminate.
  destruct a as [|pa]; [|reflexivity]. destruct b as [|pb]; [|reflexivity].
  destruct c as [|pc]; [|reflexivity]. destruct d as [|pd]; [|reflexivity].
  destruct e as [|pe]; [|reflexivity]. destruct f as [|p]; [reflexivity|].
  do 15 (destruct p as [p|p|]; [|reflexivity|reflexivity]).
  destruct p as [p|p|]; reflexivity.
Qed.

Lemma digits_no_colon ds : all_digits ds = true -> ~ In 58 ds.
Proof.
  induction ds as [|c ds IH]; intros D H; [destruct H|]. destruct H as [H|H].
  - cbn [all_digits] in D. apply andb_true_iff in D as [D1 _]. subst c. discriminate.
  - cbn [all_digits] in D. apply andb_true_iff in D as [_ D2]. exact (IH D2 H).
Qed.

Lemma ip4_text_facts a : wf_ip4 a ->
  show_ip4 a <> [] /\ ~ In 58 (show_ip4 a) /\ mem 46 (show_ip4 a) = true.
Proof.
  intros [W L]. destruct a as [|a1 [|a2 [|a3 [|a4 [|]]]]]; try discriminate.
  unfold show_ip4. pose proof (fun n => digits_no_colon _ (show_dec_digits n)) as NC.
  split; [|split].
  - pose proof (show_dec_nonempty a1). destruct (show_dec a1); [congruence | discriminate].
  - rewrite in_app_iff. cbn [In]. rewrite in_app_iff. cbn [In]. rewrite in_app_iff. cbn [In].
    intros [H|[H|[H|[H|[H|[H|H]]]]]]; try discriminate; eapply NC; exact H.
  - unfold mem. rewrite existsb_app. cbn [existsb N.eqb Pos.eqb]. apply orb_true_r.
Qed.

Lemma ip6_mapped_roundtrip g6 g7 : g6 < 65536 -> g7 < 65536 ->
  parse_ip6 ([58; 58; 102; 102; 102; 102; 58] ++ show_ip4 [g6 / 256; g6 mod 256; g7 / 256; g7 mod 256])
  = Some [0; 0; 0; 0; 0; 65535; g6; g7].
Proof.
  intros H6 H7.
  assert (W : wf_ip4 [g6 / 256; g6 mod 256; g7 / 256; g7 mod 256]).
  { split; [|reflexivity]. repeat constructor; lia. }
  destruct (ip4_text_facts _ W) as (NE & NC & M). pose proof (parse_show_ip4 _ W) as P.
  remember (show_ip4 [g6 / 256; g6 mod 256; g7 / 256; g7 mod 256]) as t eqn:Et. clear Et.
  unfold text in *. rewrite parse_ip6_interp. cbn [app split_on N.eqb Pos.eqb rev].
  rewrite <- (app_nil_r t). rewrite split_word by exact NC. cbn [split_on]. rewrite app_nil_r, rev_involutive.
  assert (E : existsb (fun w : list N => match w with [] => true | _ => false end) [[102; 102; 102; 102]; t] = false).
  { cbn [existsb]. destruct t; [congruence | reflexivity]. }
  assert (PG : parse_groups [[102; 102; 102; 102]; t] = Some [65535; g6; g7]).
  { cbn [parse_groups]. rewrite M, P.
    change (parse_hex16 [102; 102; 102; 102]) with (Some 65535). cbv beta iota.
    f_equal. f_equal. f_equal; [lia|]. f_equal. lia. }
  unfold interp. cbn [fgap rev app].
  unfold text in *. rewrite E, PG. reflexivity.
Qed.

(* every address *)
Theorem ip6_roundtrip g : wf_ip6 g -> parse_ip6 (show_ip6 g) = Some g.
Proof.
  intros [L F]. rewrite show_ip6_branches by exact L.
  destruct (ip6_mapped g) eqn:Mp; [|apply ip6_general_roundtrip; split; assumption].
  destruct g as [|a [|b [|c [|d [|e [|f [|g6 [|g7 [|]]]]]]]]]; try discriminate.
  cbn [ip6_mapped] in Mp. repeat (apply andb_true_iff in Mp as [Mp ?]).
  repeat match goal with H : (_ =? _) = true |- _ => apply N.eqb_eq in H end. subst.
  rewrite Forall_forall in F. unfold show_ip6_mapped.
  apply ip6_mapped_roundtrip; apply F; cbn [In]; tauto.
Qed.

Theorem ip6_mapped_text g6 g7 :
  show_ip6 [0; 0; 0; 0; 0; 65535; g6; g7] =
  [58; 58; 102; 102; 102; 102; 58] ++ show_ip4 [g6 / 256; g6 mod 256; g7 / 256; g7 mod 256].
Proof. reflexivity. Qed.

Example ex_ip6_mapped : parse_ip6 (show_ip6 [0; 0; 0; 0; 0; 65535; 49320; 513]) = Some [0; 0; 0; 0; 0; 65535; 49320; 513]
  /\ show_ip6 [0; 0; 0; 0; 0; 65535; 49320; 513] = [58; 58; 102; 102; 102; 102; 58; 49; 57; 50; 46; 49; 54; 56; 46; 50; 46; 49].
Proof. vm_compute. split; reflexivity. Qed.
Example ex_ip6_not_mapped : ip6_mapped [0; 0; 0; 0; 0; 65534; 1; 2] = false /\
  parse_ip6 (show_ip6 [0; 0; 0; 0; 0; 65534; 1; 2]) = Some [0; 0; 0; 0; 0; 65534; 1; 2].
Proof. vm_compute. split; reflexivity. Qed.

(* ---- the text of every address is a legal list item of the SVCB value syntax: the premise
   ip6_text_ok of svc_ipv6hint_roundtrip holds for every address *)
Definition okc (c : N) : bool := plain_char c && negb (c =? 44).

Lemma okc_item w : w <> [] -> forallb okc w = true -> item_ok w /\ forallb plain_char w = true.
Proof.
  intros NE H. rewrite forallb_forall in H. split; [split; [exact NE|split]|].
  - intros K. apply H in K. vm_compute in K. discriminate K.
  - intros K. apply H in K. vm_compute in K. discriminate K.
  - apply forallb_forall. intros c Hc. apply H in Hc. unfold okc in Hc. apply andb_true_iff in Hc as [Hc _]. exact Hc.
Qed.

Lemma okc_from w : forallb plain_char w = true -> ~ In 44 w -> forallb okc w = true.
Proof.
  induction w as [|c w IH]; intros P NI; [reflexivity|]. cbn [forallb] in *. apply andb_true_iff in P as [P1 P2].
  rewrite IH; [|exact P2|intros K; apply NI; right; exact K]. rewrite andb_true_r. unfold okc. rewrite P1. cbn [andb].
  apply negb_true_iff. apply N.eqb_neq. intros K. apply NI. left. exact K.
Qed.

Lemma hex16_okc n : n < 65536 -> forallb okc (show_hex16 n) = true.
Proof.
  intros Hn. assert (H : all_below (fun n => forallb okc (show_hex16 n)) 65536 = true) by (vm_compute; reflexivity).
  exact (all_below_spec _ _ H n Hn).
Qed.

Lemma hexes_okc l : Forall (fun x => x < 65536) l -> Forall (fun w => forallb okc w = true) (map show_hex16 l).
Proof. intros F. rewrite Forall_map. eapply Forall_impl; [|exact F]. intros a Ha. apply hex16_okc, Ha. Qed.

Lemma join_colon_okc ws : Forall (fun w => forallb okc w = true) ws -> forallb okc (join_colon ws) = true.
Proof.
  destruct ws as [|w r]; [reflexivity|]. intros F. inversion F as [|? ? Hw Fr]; subst. clear F. cbn [join_colon].
  rewrite forallb_app, Hw. cbn [andb]. induction Fr as [|x r Hx Fr IH]; [reflexivity|].
  cbn [flat_map app forallb]. rewrite forallb_app, Hx, IH. reflexivity.
Qed.

Lemma Forall_firstn' {A} (P : A -> Prop) n : forall l, Forall P l -> Forall P (firstn n l).
Proof. induction n as [|n IH]; intros [|x l] F; cbn [firstn]; try constructor; inversion F; subst; auto. Qed.
Lemma Forall_skipn' {A} (P : A -> Prop) n : forall l, Forall P l -> Forall P (skipn n l).
Proof. induction n as [|n IH]; intros [|x l] F; cbn [skipn]; try assumption; inversion F; subst; auto. Qed.

Lemma ip6_general_okc g : wf_ip6 g -> show_ip6_general g <> [] /\ forallb okc (show_ip6_general g) = true.
Proof.
  intros [L F]. unfold show_ip6_general. destruct (zero_run _ _ _ _) as [st ln]. destruct (1 <? ln).
  - split; [destruct (join_colon (map show_hex16 (firstn (N.to_nat st) g))); discriminate|].
    rewrite forallb_app, join_colon_okc by (apply hexes_okc, Forall_firstn', F).
    cbn [app forallb andb]. change (okc 58) with true. cbn [andb]. apply join_colon_okc, hexes_okc, Forall_skipn', F.
  - split; [|apply join_colon_okc, hexes_okc, F]. destruct g as [|x g]; [discriminate|]. cbn [map join_colon].
    inversion F as [|? ? Hx ?]; subst. destruct (hex_word x Hx) as [[NE _] _]. destruct (show_hex16 x); [congruence | discriminate].
Qed.

Theorem ip6_text_ok_all g : wf_ip6 g -> ip6_text_ok g.
Proof.
  intros W. split; [apply ip6_roundtrip, W|]. destruct W as [L F]. rewrite show_ip6_branches by exact L.
  destruct (ip6_mapped g) eqn:Mp.
  - destruct g as [|a [|b [|c [|d [|e [|f [|g6 [|g7 [|]]]]]]]]]; try discriminate. unfold show_ip6_mapped.
    apply okc_item; [discriminate|]. cbn [app forallb]. change (okc 58) with true. change (okc 102) with true. cbn [andb].
    rewrite Forall_forall in F.
    assert (H6 : g6 < 65536) by (apply F; cbn [In]; tauto). assert (H7 : g7 < 65536) by (apply F; cbn [In]; tauto).
    assert (W4 : wf_ip4 [g6 / 256; g6 mod 256; g7 / 256; g7 mod 256]) by (split; [repeat constructor; lia | reflexivity]).
    destruct (ip4_item _ W4) as [(_ & N44 & _) PC]. apply okc_from; assumption.
  - apply okc_item; apply ip6_general_okc; split; assumption.
Qed.

Theorem svc_ipv6hint_roundtrip_all l sp : l <> [] -> Forall wf_ip6 l ->
  good_shape (TWord (show_param (PIp6hint l))) = true /\
  read_param (shape_tok sp (TWord (show_param (PIp6hint l)))) = Ok (PIp6hint l).
Proof.
  intros NE W. apply svc_ipv6hint_roundtrip; [exact NE|]. eapply Forall_impl; [|exact W]. apply ip6_text_ok_all.
Qed.

Example ex_ipv6hint_all : read_param (mk_tok false true (show_param (PIp6hint [[0; 0; 0; 0; 0; 65535; 49320; 513]; [8193; 3512; 0; 0; 0; 0; 0; 1]])))
  = Ok (PIp6hint [[0; 0; 0; 0; 0; 65535; 49320; 513]; [8193; 3512; 0; 0; 0; 0; 0; 1]]).
Proof. vm_compute. reflexivity. Qed.
