(* C06 proofs, part 2: the three writers.  Whatever sequence of tokens, blocks
   and comments a ZonefileFmt implementation emits, the reader's tokenizer
   recovers exactly the tokens (tokens_reassemble for SimpleWriter,
   TabbedWriter and MultiLineWriter). *)
From Coq Require Import NArith ZArith List Bool Lia ZifyN ZifyBool ZifyNat.
From DV Require Import Base.Outcome Base.Bytes C06.Gen C06.Model C06.Proofs.
Import ListNotations.
Local Open Scope N_scope.
Ltac Zify.zify_post_hook ::= Z.div_mod_to_equations.

(* tokens joined by single blanks *)
Fixpoint join (sep : N) (ts : list text) : text :=
  match ts with [] => [] | [t] => t | t :: r => t ++ sep :: join sep r end.

(* SToks: ONE write_token call whose text consists of several reader tokens
   separated by single blanks (the RFC 3597 generic form is written like that);
   the usual case is a single token *)
(* SEmpty: a write_token call with an empty text (e.g. Base16 of no octets) *)
Inductive sop := SToks (sh : tshape) (more : list tshape) | SBegin | SEnd | SComment (c : text) | SEmpty.
Notation STok sh := (SToks sh []).

Definition erase (o : sop) : op :=
  match o with
  | SToks sh more => OTok (join 32 (map shape_text (sh :: more)))
  | SBegin => OBegin
  | SEnd => OEnd
  | SComment c => OComment c
  | SEmpty => OTok []
  end.

Definition good_sop (o : sop) : Prop :=
  match o with
  | SToks sh more => good_shape sh = true /\ Forall (fun s => good_shape s = true) more
  | SComment c => ~ In ch_lf c
  | _ => True
  end.

Fixpoint balanced (d : N) (l : list sop) : bool :=
  match l with
  | [] => d =? 0
  | SBegin :: r => balanced (d + 1) r
  | SEnd :: r => (0 <? d) && balanced (d - 1) r
  | _ :: r => balanced d r
  end.

(* the tokens the reader is expected to see; [sp]: is the next token preceded by space *)
Fixpoint expect (multi sp : bool) (l : list sop) : list tok :=
  match l with
  | [] => []
  | SToks sh more :: r => shape_tok sp sh :: map (shape_tok true) more ++ expect multi true r
  | SBegin :: r | SEnd :: r => expect multi (sp || multi) r
  | SComment _ :: r => expect multi sp r
  | SEmpty :: r => expect multi true r
  end.

(* reader state after the text written so far.  When the writer is not at the
   start of a line / of the output ([first] = false) the last token may still be
   open: the equation holds for every continuation that starts with a delimiter. *)
Definition rel (first : bool) (out : text) (p : N) (ts : list tok) (b : bool) : Prop :=
  forall rest, first = true \/ starts_delim rest = true ->
    run (Ok st0) (out ++ rest) = run (Ok (p, ts, MSkip b)) rest.

Lemma rel_start : rel true [] 0 [] false.
Proof. intros rest _. reflexivity. Qed.

Lemma delim_cons c rest : mem c word_excl = true -> c <? ascii_limit = true -> starts_delim (c :: rest) = true.
Proof. intros H1 H2. cbn [starts_delim]. rewrite H1, H2. reflexivity. Qed.

(* a white space character in next_item *)
Lemma run_ws c p ts b rest : mem c ws_chars = true ->
  run (Ok (p, ts, MSkip b)) (c :: rest) = run (Ok (p, ts, MSkip true)) rest.
Proof. intros H. rewrite run_cons. cbn [bind step]. unfold step_skip. rewrite H. reflexivity. Qed.

Lemma ws_delim c rest : c = 32 \/ c = 9 -> starts_delim (c :: rest) = true /\ mem c ws_chars = true.
Proof. intros [->| ->]; split; reflexivity. Qed.

(* appending a token, with separator [c] unless first *)
Lemma rel_tok first out p ts b sh c :
  rel first out p ts b -> good_shape sh = true -> c = 32 \/ c = 9 ->
  rel false (out ++ (if first then [] else [c]) ++ shape_text sh) p
      (shape_tok (if first then b else true) sh :: ts) false.
Proof.
  intros R G C rest [F|D]; [discriminate|].
  assert (FO : follow_ok sh rest = true) by (destruct sh; [exact D | reflexivity]).
  destruct (ws_delim c (shape_text sh ++ rest) C) as [D1 W1].
  destruct first.
  - cbn [app]. rewrite <- app_assoc. rewrite R by (left; reflexivity).
    apply run_token; assumption.
  - rewrite <- !app_assoc. cbn [app]. rewrite R by (right; exact D1).
    rewrite run_ws by exact W1. apply run_token; assumption.
Qed.

Lemma rel_toks more : forall first out p ts b sh c,
  rel first out p ts b -> good_shape sh = true -> Forall (fun s => good_shape s = true) more -> c = 32 \/ c = 9 ->
  rel false (out ++ (if first then [] else [c]) ++ join 32 (map shape_text (sh :: more))) p
      (rev (map (shape_tok true) more) ++ shape_tok (if first then b else true) sh :: ts) false.
Proof.
  induction more as [|m r IH]; intros first out p ts b sh c R G Gm C.
  - cbn [map join rev app]. apply rel_tok; assumption.
  - inversion Gm as [|? ? G1 G2]; subst.
    pose proof (rel_tok first out p ts b sh c R G C) as R1.
    pose proof (IH false _ p _ false m 32 R1 G1 G2 (or_introl eq_refl)) as R2.
    cbn [map rev]. rewrite <- app_assoc. cbn [app].
    replace (out ++ (if first then [] else [c]) ++ join 32 (shape_text sh :: shape_text m :: map shape_text r))
      with ((out ++ (if first then [] else [c]) ++ shape_text sh) ++ [32] ++ join 32 (map shape_text (m :: r))).
    + exact R2.
    + cbn [map]. change (join 32 (shape_text sh :: shape_text m :: map shape_text r))
        with (shape_text sh ++ 32 :: join 32 (shape_text m :: map shape_text r)).
      rewrite <- !app_assoc. reflexivity.
Qed.

(* an empty token: only its separator is written *)
Lemma rel_empty first out p ts b c : rel first out p ts b -> c = 32 \/ c = 9 ->
  rel false (out ++ (if first then [] else [c]) ++ []) p ts (if first then b else true).
Proof.
  intros R C rest [F|D]; [discriminate|]. rewrite app_nil_r. destruct first.
  - rewrite app_nil_r. apply R. left. reflexivity.
  - rewrite <- app_assoc. cbn [app]. destruct (ws_delim c rest C) as [D1 W1].
    rewrite R by (right; exact D1). apply run_ws, W1.
Qed.

Lemma rev_toks_app {A} (X : list A) t ts rest : rev (rev X ++ t :: ts) ++ rest = rev ts ++ t :: X ++ rest.
Proof. rewrite rev_app_distr, rev_involutive. cbn [rev]. rewrite <- !app_assoc. reflexivity. Qed.

Lemma rel_final first out ts b : rel first out 0 ts b -> tokenize (out ++ [ch_lf]) = Ok (rev ts).
Proof.
  intros R. unfold tokenize. rewrite R by (right; reflexivity).
  rewrite run_cons. cbn [bind step]. unfold step_skip.
  replace (mem ch_lf ws_chars) with false by reflexivity.
  replace (ch_lf =? ch_open) with false by reflexivity.
  replace (ch_lf =? ch_close) with false by reflexivity.
  replace (ch_lf =? ch_comment) with false by reflexivity.
  rewrite N.eqb_refl. cbn. reflexivity.
Qed.

(* ------------------------------------------------------------------ SimpleWriter *)

Lemma simple_inv l : forall first out ts b,
  Forall good_sop l -> rel first out 0 ts b ->
  tokenize (snd (fold_left simple_step (map erase l) (first, out)) ++ [ch_lf])
  = Ok (rev ts ++ expect false (if first then b else true) l).
Proof.
  induction l as [|o l IH]; intros first out ts b G R.
  - cbn [map fold_left snd expect]. rewrite app_nil_r. eapply rel_final, R.
  - inversion G as [|? ? Go Gl]; subst. cbn [map fold_left].
    destruct o as [sh more| | |c|]; cbn [erase simple_step expect orb].
    + destruct Go as [Go Gm].
      rewrite (IH false _ (rev (map (shape_tok true) more) ++ shape_tok (if first then b else true) sh :: ts) false Gl).
      * apply f_equal. apply rev_toks_app.
      * unfold simple_sep. apply rel_toks; [exact R | exact Go | exact Gm | left; reflexivity].
    + rewrite orb_false_r. apply IH; assumption.
    + rewrite orb_false_r. apply IH; assumption.
    + apply IH; assumption.
    + pose proof (IH false _ ts (if first then b else true) Gl (rel_empty first out 0 ts b simple_sep R (or_introl eq_refl))) as X.
      exact X.
Qed.

Theorem simple_tokens l : Forall good_sop l ->
  tokenize (render_simple (map erase l) ++ [ch_lf]) = Ok (expect false false l).
Proof. intros G. unfold render_simple. exact (simple_inv l true [] [] false G rel_start). Qed.

(* ------------------------------------------------------------------ TabbedWriter *)

Lemma tabbed_inv l : forall first fb d out ts b,
  Forall good_sop l -> balanced d l = true -> rel first out 0 ts b ->
  exists st, fold_left tab_step (map erase l) (Ok (first, fb, d, out)) = Ok st /\
    tokenize (snd st ++ [ch_lf]) = Ok (rev ts ++ expect false (if first then b else true) l).
Proof.
  induction l as [|o l IH]; intros first fb d out ts b G B R.
  - cbn [map fold_left expect]. eexists. split; [reflexivity|]. cbn [snd]. rewrite app_nil_r. eapply rel_final, R.
  - inversion G as [|? ? Go Gl]; subst. cbn [map fold_left].
    destruct o as [sh more| | |c|]; cbn [erase expect orb balanced] in *.
    + destruct Go as [Go Gm]. unfold tab_step at 2. cbn [bind].
      set (c := if d =? 0 then tab_sep_outer else if fb then tab_sep_first else tab_sep_inner).
      assert (C : c = 32 \/ c = 9).
      { subst c. unfold tab_sep_outer, tab_sep_first, tab_sep_inner. destruct (d =? 0); [right; reflexivity|].
        destruct fb; [right|left]; reflexivity. }
      assert (E : (if first then [] else if d =? 0 then [tab_sep_outer] else if fb then [tab_sep_first] else [tab_sep_inner])
                  = (if first then [] else [c])).
      { subst c. destruct first; [reflexivity|]. destruct (d =? 0); [reflexivity|]. destruct fb; reflexivity. }
      rewrite E.
      destruct (IH false false d (out ++ (if first then [] else [c]) ++ join 32 (map shape_text (sh :: more)))
                  (rev (map (shape_tok true) more) ++ shape_tok (if first then b else true) sh :: ts) false Gl B) as (st & F & T).
      * apply rel_toks; assumption.
      * exists st. split; [exact F|]. rewrite T. apply f_equal. apply rev_toks_app.
    + rewrite orb_false_r. unfold tab_step at 2. cbn [bind]. apply IH; assumption.
    + rewrite orb_false_r. apply andb_true_iff in B as [B1 B2]. unfold tab_step at 2. cbn [bind].
      destruct (d =? 0) eqn:E; [lia|]. apply IH; assumption.
    + unfold tab_step at 2. cbn [bind]. apply IH; assumption.
    + unfold tab_step at 2. cbn [bind].
      set (c := if d =? 0 then tab_sep_outer else if fb then tab_sep_first else tab_sep_inner).
      assert (C : c = 32 \/ c = 9).
      { subst c. unfold tab_sep_outer, tab_sep_first, tab_sep_inner. destruct (d =? 0); [right; reflexivity|].
        destruct fb; [right|left]; reflexivity. }
      assert (E : (if first then [] else if d =? 0 then [tab_sep_outer] else if fb then [tab_sep_first] else [tab_sep_inner])
                  = (if first then [] else [c])).
      { subst c. destruct first; [reflexivity|]. destruct (d =? 0); [reflexivity|]. destruct fb; reflexivity. }
      rewrite E.
      exact (IH false false d _ ts (if first then b else true) Gl B (rel_empty first out 0 ts b c R C)).
Qed.

Theorem tabbed_tokens l : Forall good_sop l -> balanced 0 l = true ->
  exists t, render_tabbed (map erase l) = Ok t /\ tokenize (t ++ [ch_lf]) = Ok (expect false false l).
Proof.
  intros G B. destruct (tabbed_inv l true true 0 [] [] false G B rel_start) as (st & F & T).
  exists (snd st). split; [|exact T]. unfold render_tabbed.
  match goal with |- context [fold_left tab_step ?a ?b] =>
    replace (fold_left tab_step a b) with (Ok st) by (symmetry; exact F) end.
  reflexivity.
Qed.

(* ------------------------------------------------------------------ MultiLineWriter *)

Lemma run_comment c : forall p ts b rest, ~ In ch_lf c ->
  run (Ok (p, ts, MComment b)) (c ++ rest) = run (Ok (p, ts, MComment b)) rest.
Proof.
  induction c as [|x c IH]; intros p ts b rest H; [reflexivity|].
  cbn [app]. rewrite run_cons. cbn [bind step].
  destruct (x =? ch_lf) eqn:E; [exfalso; apply H; left; apply N.eqb_eq in E; exact E|].
  apply IH. intros K. apply H. right. exact K.
Qed.

Lemma run_spaces n : forall p ts rest,
  run (Ok (p, ts, MSkip true)) (repeat 32 n ++ rest) = run (Ok (p, ts, MSkip true)) rest.
Proof. induction n as [|n IH]; intros p ts rest; [reflexivity|]. cbn [repeat app]. rewrite run_ws by reflexivity. apply IH. Qed.

Lemma run_open p ts b rest : run (Ok (p, ts, MSkip b)) (ch_open :: rest) = run (Ok (p + 1, ts, MSkip b)) rest.
Proof. reflexivity. Qed.

Lemma run_close p ts b rest : 0 < p -> run (Ok (p, ts, MSkip b)) (ch_close :: rest) = run (Ok (p - 1, ts, MSkip b)) rest.
Proof.
  intros H. rewrite run_cons. cbn [bind step]. unfold step_skip.
  replace (mem ch_close ws_chars) with false by reflexivity.
  replace (ch_close =? ch_open) with false by reflexivity. rewrite N.eqb_refl.
  destruct (0 <? p) eqn:E; [reflexivity|lia].
Qed.

(* a parenthesis written like a token *)
Lemma rel_paren first out p ts b c p' :
  rel first out p ts b ->
  (forall ts b rest, run (Ok (p, ts, MSkip b)) (c :: rest) = run (Ok (p', ts, MSkip b)) rest) ->
  starts_delim [c] = true ->
  rel false (out ++ (if first then [] else ml_sep) ++ [c]) p' ts (if first then b else true).
Proof.
  intros R H D rest _.
  destruct first.
  - cbn [app]. rewrite <- app_assoc. cbn [app]. rewrite R by (left; reflexivity). apply H.
  - unfold ml_sep. rewrite <- !app_assoc. cbn [app]. rewrite R by (right; reflexivity).
    rewrite run_ws by reflexivity. apply H.
Qed.

Lemma multi_inv l : forall col ind first out ts b d,
  Forall good_sop l -> balanced d l = true -> rel first out d ts b ->
  (ind <> None -> 0 < d /\ (if first then b else true) = true) ->
  tokenize (snd (fold_left ml_step (map erase l) (col, ind, first, out)) ++ [ch_lf])
  = Ok (rev ts ++ expect true (if first then b else true) l).
Proof.
  induction l as [|o l IH]; intros col ind first out ts b d G B R I.
  - cbn [map fold_left snd expect balanced] in *. rewrite app_nil_r. apply N.eqb_eq in B. subst d. eapply rel_final, R.
  - inversion G as [|? ? Go Gl]; subst. cbn [map fold_left].
    destruct o as [sh more| | |c|]; cbn [erase expect orb balanced] in *.
    + destruct Go as [Go Gm]. unfold ml_step at 2. unfold ml_token.
      rewrite (IH _ ind false _ (rev (map (shape_tok true) more) ++ shape_tok (if first then b else true) sh :: ts) false d Gl B).
      * apply f_equal. apply rev_toks_app.
      * unfold ml_sep. apply rel_toks; [exact R | exact Go | exact Gm | left; reflexivity].
      * intros N. destruct (I N) as [I1 _]. split; [exact I1 | reflexivity].
    + rewrite orb_true_r. unfold ml_step at 2. unfold ml_token.
      rewrite (IH _ (Some (col + len (if first then [] else ml_sep) + len ml_open + ml_indent_extra)) false
                  (out ++ (if first then [] else ml_sep) ++ ml_open) ts (if first then b else true) (d + 1) Gl B).
      * reflexivity.
      * apply (rel_paren first out d ts b ch_open (d + 1) R); [intros; apply run_open | reflexivity].
      * intros _. split; [lia | reflexivity].
    + rewrite orb_true_r. apply andb_true_iff in B as [B1 B2].
      unfold ml_step at 2. unfold ml_token.
      rewrite (IH _ None false (out ++ (if first then [] else ml_sep) ++ ml_close) ts (if first then b else true) (d - 1) Gl B2).
      * reflexivity.
      * apply (rel_paren first out d ts b ch_close (d - 1) R); [intros; apply run_close; lia | reflexivity].
      * intros N. congruence.
    + unfold ml_step at 2. destruct ind as [x|].
      * destruct (I ltac:(discriminate)) as [I1 I2].
        rewrite (IH x (Some x) true _ ts true d Gl B).
        -- rewrite I2. reflexivity.
        -- intros rest _. unfold ml_comment_pre. rewrite <- !app_assoc. cbn [app].
           rewrite R by (destruct first; [left; reflexivity | right; reflexivity]).
           rewrite run_ws by reflexivity.
           rewrite run_cons. cbn [bind step]. unfold step_skip.
           replace (mem 59 ws_chars) with false by reflexivity.
           replace (59 =? ch_open) with false by reflexivity.
           replace (59 =? ch_close) with false by reflexivity.
           replace (59 =? ch_comment) with true by reflexivity.
           change (32 :: c ++ ch_lf :: repeat 32 (N.to_nat x) ++ rest) with ((32 :: c) ++ ch_lf :: repeat 32 (N.to_nat x) ++ rest).
           rewrite run_comment.
           ++ rewrite run_cons. cbn [bind step]. rewrite N.eqb_refl. unfold step_skip.
              replace (mem ch_lf ws_chars) with false by reflexivity.
              replace (ch_lf =? ch_open) with false by reflexivity.
              replace (ch_lf =? ch_close) with false by reflexivity.
              replace (ch_lf =? ch_comment) with false by reflexivity.
              rewrite N.eqb_refl. destruct (d =? 0) eqn:E; [lia|].
              apply run_spaces.
           ++ intros [K|K]; [discriminate | apply Go, K].
        -- intros _. split; [exact I1 | reflexivity].
      * apply (IH col None first out ts b d Gl B R). intros N. congruence.
    + unfold ml_step at 2. unfold ml_token.
      apply (IH _ ind false _ ts (if first then b else true) d Gl B).
      * unfold ml_sep. apply rel_empty; [exact R | left; reflexivity].
      * intros N. destruct (I N) as [I1 I2]. split; [exact I1 | reflexivity].
Qed.

Theorem multi_tokens l : Forall good_sop l -> balanced 0 l = true ->
  tokenize (render_multi (map erase l) ++ [ch_lf]) = Ok (expect true false l).
Proof.
  intros G B. unfold render_multi.
  apply (multi_inv l 0 None true [] [] false 0 G B rel_start). intros N. congruence.
Qed.

(* ------------------------------------------------------------------ all three *)

Definition is_multi (k : kind) : bool := match k with KMulti => true | _ => false end.

(* tokens_reassemble: any balanced sequence of good tokens, blocks and comments,
   written by any of the three writers and followed by a line feed, is read
   back as exactly those tokens *)
Theorem tokens_reassemble k l : Forall good_sop l -> balanced 0 l = true ->
  exists t, render k (map erase l) = Ok t /\ tokenize (t ++ [ch_lf]) = Ok (expect (is_multi k) false l).
Proof.
  intros G B. destruct k; cbn [render is_multi].
  - eexists. split; [reflexivity|]. apply simple_tokens, G.
  - apply tabbed_tokens; assumption.
  - eexists. split; [reflexivity|]. apply multi_tokens; assumption.
Qed.

(* the plain statement for the one-line writer: tokens joined by single blanks *)

Lemma good_text_nonempty sh : good_shape sh = true -> shape_text sh <> [].
Proof.
  destruct sh as [l|l]; cbn [good_shape shape_text]; intros G; [|discriminate].
  apply andb_true_iff in G as [_ G]. destruct l as [|s l]; [discriminate|].
  cbn [flat_map]. destruct s; discriminate.
Qed.

Lemma render_simple_join shs : Forall (fun sh => good_shape sh = true) shs ->
  render_simple (map (fun sh => OTok (shape_text sh)) shs) = join 32 (map shape_text shs).
Proof.
  intros G. unfold render_simple.
  assert (H : forall l out, out <> [] ->
     snd (fold_left simple_step (map (fun sh => OTok (shape_text sh)) l) (false, out))
     = out ++ flat_map (fun sh => 32 :: shape_text sh) l).
  { induction l as [|sh l IH]; intros out Ho; [cbn; rewrite app_nil_r; reflexivity|].
    cbn [map fold_left simple_step flat_map]. rewrite IH.
    - unfold simple_sep. rewrite <- !app_assoc. reflexivity.
    - intros K. apply app_eq_nil in K as [K _]. contradiction. }
  destruct shs as [|sh l]; [reflexivity|]. cbn [map fold_left simple_step app].
  inversion G as [|? ? Gs Gl]; subst.
  rewrite H by (apply good_text_nonempty, Gs). clear.
  revert sh. induction l as [|y l IH]; intros sh; [cbn; rewrite app_nil_r; reflexivity|].
  change (shape_text sh ++ (32 :: shape_text y) ++ flat_map (fun sh0 => 32 :: shape_text sh0) l
          = shape_text sh ++ 32 :: join 32 (shape_text y :: map shape_text l)).
  rewrite <- IH. reflexivity.
Qed.

Theorem tokens_reassemble_join shs : Forall (fun sh => good_shape sh = true) shs ->
  tokenize (join 32 (map shape_text shs) ++ [ch_lf]) = Ok (expect false false (map (fun sh => STok sh) shs)).
Proof.
  intros G. rewrite <- render_simple_join by exact G.
  replace (map (fun sh => OTok (shape_text sh)) shs) with (map erase (map (fun sh => STok sh) shs)) by (rewrite map_map; reflexivity).
  apply simple_tokens. rewrite Forall_map. eapply Forall_impl; [|exact G]. intros a Ha. split; [exact Ha | constructor].
Qed.

(* non-vacuity *)
Example ex_multi :
  render_multi (map erase [STok (TWord [SChar 97]); SBegin; STok (TWord [SChar 49]); SComment [107]; STok (TQuoted [SChar 32]); SEnd])
  = [97; 32; 40; 32; 49; 9; 59; 32; 107; 10; 32; 32; 32; 32; 34; 32; 34; 32; 41].
Proof. vm_compute. reflexivity. Qed.
Example ex_tabbed :
  render_tabbed (map erase [STok (TWord [SChar 97]); STok (TWord [SChar 98]); SBegin; STok (TWord [SChar 49]); STok (TWord [SChar 50]); SEnd])
  = Ok [97; 9; 98; 9; 49; 32; 50].
Proof. vm_compute. reflexivity. Qed.
Example ex_reassemble :
  tokenize ([97; 32; 40; 32; 49; 9; 59; 32; 107; 10; 32; 32; 32; 32; 34; 32; 34; 32; 41] ++ [10])
  = Ok [mk_tok false false [SChar 97]; mk_tok false true [SChar 49]; mk_tok true true [SChar 32]].
Proof. vm_compute. reflexivity. Qed.
