(* C06 proofs, part 6: the reader on raw token text.  [lex] (repeated next_symbol) agrees
   with the character-driven state machine, and scan_octets with its next_ascii_symbol
   fast path agrees with the plain symbol-by-symbol reading -- except for an unescaped DEL
   (0x7F), which only the fast path accepts; the writer never emits one (nonprintable_escaped). *)
From Coq Require Import NArith ZArith List Bool Lia ZifyN ZifyBool ZifyNat.
From DV Require Import Base.Outcome Base.Bytes C06.Gen C06.Model C06.Proofs.
Import ListNotations.
Local Open Scope N_scope.

Lemma lex_run t : forall q e acc p ts sp syms rest,
  lex q e t = Ok (syms, rest) ->
  run (Ok (p, ts, MTok q sp acc e)) t = run (Ok (p, mk_tok q sp (rev acc ++ syms) :: ts, MSkip false)) rest.
Proof.
  induction t as [|c r IH]; intros q e acc p ts sp syms rest H; [discriminate|].
  cbn [lex] in H. rewrite run_cons. cbn [bind step].
  destruct e as [| |d1|d1 d2].
  - destruct (c =? 92) eqn:E92; [apply IH, H|].
    destruct q.
    + destruct (c =? ch_quote) eqn:EQ.
      * injection H as <- <-. rewrite app_nil_r. reflexivity.
      * destruct (ascii_limit <=? c); [discriminate|].
        destruct (lex true E0 r) as [[s' r']| | |] eqn:L; try discriminate. cbn [bind fst snd] in H. injection H as <- <-.
        rewrite (IH true E0 (SChar c :: acc) p ts sp s' r' L). cbn [rev]. rewrite <- app_assoc. reflexivity.
    + destruct (ascii_limit <=? c); [discriminate|].
      destruct (mem c word_excl) eqn:EW.
      * injection H as <- <-. rewrite app_nil_r. rewrite run_cons. reflexivity.
      * destruct (lex false E0 r) as [[s' r']| | |] eqn:L; try discriminate. cbn [bind fst snd] in H. injection H as <- <-.
        rewrite (IH false E0 (SChar c :: acc) p ts sp s' r' L). cbn [rev]. rewrite <- app_assoc. reflexivity.
  - destruct (is_control c); [discriminate|]. destruct (is_digit c); cbn [negb] in *.
    + apply IH, H.
    + destruct (lex q E0 r) as [[s' r']| | |] eqn:L; try discriminate. cbn [bind fst snd] in H. injection H as <- <-.
      rewrite (IH q E0 (SEsc c :: acc) p ts sp s' r' L). cbn [rev]. rewrite <- app_assoc. reflexivity.
  - destruct (is_digit c); [apply IH, H | discriminate].
  - destruct (is_digit c); [|discriminate].
    set (v := (d1 - 48) * 100 + (d2 - 48) * 10 + (c - 48)) in *.
    destruct (v <=? 255); [|discriminate].
    destruct (lex q E0 r) as [[s' r']| | |] eqn:L; try discriminate. cbn [bind fst snd] in H. injection H as <- <-.
    rewrite (IH q E0 (SDec v :: acc) p ts sp s' r' L). cbn [rev]. rewrite <- app_assoc. reflexivity.
Qed.

(* reading a token symbol by symbol *)
Definition slow_octets (q : bool) (t : text) : outcome (bytes * text) :=
  do x <- lex q E0 t; do o <- map_o into_octet (fst x); Ok (o, snd x).

Definition cons_result (c : N) (z : outcome (bytes * text)) : outcome (bytes * text) :=
  do y <- z; Ok (c :: fst y, snd y).

Lemma scan_octets_cons q c r :
  (q && (c =? ch_quote) = false) ->
  ((c <? fast_lo) || (fast_hi <? c) || (if q then c =? 92 else mem c fast_unquoted_excl) = false) ->
  scan_octets_text q (c :: r) = cons_result c (scan_octets_text q r).
Proof.
  intros H1 H2. unfold scan_octets_text. cbn [fast_take]. rewrite H1, H2.
  destruct (fast_take q r) as [[o rest] cl]. destruct cl; [reflexivity|].
  unfold cons_result. destruct (lex q E0 rest) as [[s' r']| | |]; try reflexivity. cbn [bind fst snd].
  destruct (map_o into_octet s'); reflexivity.
Qed.

Lemma slow_octets_cons q c r :
  c <> 92 -> c < ascii_limit -> (q = true -> c <> ch_quote) -> (q = false -> mem c word_excl = false) ->
  octet_lo <= c <= octet_hi ->
  slow_octets q (c :: r) = cons_result c (slow_octets q r).
Proof.
  intros N92 NA NQ NW R. unfold slow_octets, cons_result.
  assert (O : into_octet (SChar c) = Ok c).
  { cbn [into_octet]. destruct ((octet_lo <=? c) && (c <=? octet_hi)) eqn:E4; [reflexivity|lia]. }
  destruct q; cbn [lex]; (destruct (c =? 92) eqn:E; [lia|]).
  - destruct (c =? ch_quote) eqn:E3; [specialize (NQ eq_refl); lia|].
    destruct (ascii_limit <=? c) eqn:E2; [lia|].
    destruct (lex true E0 r) as [[s' r']| | |]; try reflexivity. cbn [bind fst snd map_o]. rewrite O. cbn [bind].
    destruct (map_o into_octet s'); reflexivity.
  - destruct (ascii_limit <=? c) eqn:E2; [lia|]. rewrite (NW eq_refl).
    destruct (lex false E0 r) as [[s' r']| | |]; try reflexivity. cbn [bind fst snd map_o]. rewrite O. cbn [bind].
    destruct (map_o into_octet s'); reflexivity.
Qed.

(* the fast path changes nothing unless it swallows an unescaped DEL *)
Theorem fast_path_agrees q t : ~ In 127 (fst (fst (fast_take q t))) -> scan_octets_text q t = slow_octets q t.
Proof.
  induction t as [|c r IH]; intros H; [reflexivity|].
  cbn [fast_take] in H.
  destruct (q && (c =? ch_quote)) eqn:H1.
  - (* closing quote *)
    unfold scan_octets_text, slow_octets. cbn [fast_take lex]. rewrite H1.
    apply andb_true_iff in H1 as [-> H1]. apply N.eqb_eq in H1. subst c. reflexivity.
  - destruct ((c <? fast_lo) || (fast_hi <? c) || (if q then c =? 92 else mem c fast_unquoted_excl)) eqn:H2.
    + unfold scan_octets_text. cbn [fast_take]. rewrite H1, H2. unfold slow_octets.
      destruct (lex q E0 (c :: r)) as [[s' r']| | |]; reflexivity.
    + rewrite scan_octets_cons by assumption.
      destruct (fast_take q r) as [[o rest] cl] eqn:F. cbn [fst] in H.
      assert (C : c <> 127) by (intros ->; apply H; left; reflexivity).
      rewrite IH by (cbn [fst]; intros K; apply H; right; exact K).
      symmetry. apply orb_false_iff in H2 as [H2 H3]. apply orb_false_iff in H2 as [H2 H4].
      unfold fast_lo, fast_hi in *.
      apply slow_octets_cons.
      * destruct q; [lia|]. intros ->. vm_compute in H3. discriminate.
      * unfold ascii_limit. lia.
      * intros ->. cbn [andb] in H1. unfold ch_quote in *. lia.
      * intros ->. unfold mem, fast_unquoted_excl, word_excl in *. cbn [existsb] in *. lia.
      * unfold octet_lo, octet_hi. lia.
Qed.

Theorem fast_path_agrees_refuted : exists q t,
  scan_octets_text q t = Ok ([127], [32]) /\ slow_octets q t = Err E_symbol.
Proof. exists false, [127; 32]. split; vm_compute; reflexivity. Qed.

(* what the writers emit never contains an unescaped DEL (all symbols come from the tables) *)
Lemma symbols_no_del f l : (forall b, f b = enc label_esc label_plain_lo label_plain_hi b \/ f b = from_octet b \/
                                      f b = quoted_from_octet b \/ f b = display_from_octet b) ->
  wf_bytes l -> ~ In (SChar 127) (map f l).
Proof.
  intros Hf W K. apply in_map_iff in K as (b & E & Hin).
  unfold wf_bytes in W. rewrite Forall_forall in W. pose proof (W b Hin) as Hb.
  assert (D : b = 127 \/ b <> 127) by lia. destruct D as [->|D].
  - destruct del_escaped as (D1 & D2 & D3 & D4). unfold label_sym in D1.
    destruct (Hf 127) as [X|[X|[X|X]]]; rewrite X in E; congruence.
  - assert (T : forall g, (forall x, x < 256 -> match g x with SChar c => c = x | _ => True end) -> g b <> SChar 127).
    { intros g G Q. specialize (G b Hb). rewrite Q in G. lia. }
    assert (G : forall esc lo hi x, match enc esc lo hi x with SChar c => c = x | _ => True end).
    { intros esc lo hi x. unfold enc. destruct (mem x esc); [exact I|]. destruct (negb _); [exact I | reflexivity]. }
    destruct (Hf b) as [X|[X|[X|X]]]; rewrite X in E; revert E; apply T; intros x _; apply G.
Qed.

(* scan_octets is exactly: the symbols as the fast path sees them, then into_octet *)
Theorem scan_octets_is_lex_fast q t :
  scan_octets_text q t = do x <- lex_fast q t; do o <- map_o into_octet (fst x); Ok (o, snd x).
Proof.
  induction t as [|c r IH]; [reflexivity|].
  cbn [lex_fast]. destruct (q && (c =? ch_quote)) eqn:H1.
  - unfold scan_octets_text. cbn [fast_take]. rewrite H1. reflexivity.
  - destruct ((c <? fast_lo) || (fast_hi <? c) || (if q then c =? 92 else mem c fast_unquoted_excl)) eqn:H2.
    + unfold scan_octets_text. cbn [fast_take]. rewrite H1, H2.
      destruct (lex q E0 (c :: r)) as [[s' r']| | |]; reflexivity.
    + rewrite scan_octets_cons by assumption. rewrite IH. unfold cons_result.
      destruct (lex_fast q r) as [[s' r']| | |]; try reflexivity. cbn [bind fst snd map_o].
      assert (O : into_octet (if c =? 127 then SDec 127 else SChar c) = Ok c).
      { apply orb_false_iff in H2 as [H2 _]. apply orb_false_iff in H2 as [H2 H4]. unfold fast_lo, fast_hi in *.
        destruct (c =? 127) eqn:E; [apply N.eqb_eq in E; subst; reflexivity|].
        cbn [into_octet]. unfold octet_lo, octet_hi. destruct ((32 <=? c) && (c <=? 126)) eqn:E2; [reflexivity|lia]. }
      rewrite O. cbn [bind]. destruct (map_o into_octet s'); reflexivity.
Qed.

Example ex_nstext : c06_nstext [97; 127; 46; 92; 46; 98; 46] = Ok [[97; 127]; [46; 98]].
Proof. vm_compute. reflexivity. Qed.
Example ex_nstext_empty_label : c06_nstext [97; 46; 46; 98; 46] = Err E_name.
Proof. vm_compute. reflexivity. Qed.

Example ex_fast : scan_octets_text true [97; 32; 92; 34; 98; 34; 32] = Ok ([97; 32; 34; 98], [32]).
Proof. vm_compute. reflexivity. Qed.
Example ex_hinfo : c06_hinfo 0 false [127; 97; 92; 48; 48; 55] = Ok [127; 97; 7].
Proof. vm_compute. reflexivity. Qed.
