(* C06: Base32hex text of the NSEC3 next-owner hash through the C18 models *)
From Coq Require Import NArith ZArith List Bool Lia ZifyN ZifyBool ZifyNat.
From DV Require Import Base.Outcome Base.Bytes C06.Gen C06.Model C06.Proofs C06.Proofs2 C06.Tables.
From DV Require C18.Model C18.Proofs C18.ProofsConv C18.Props.
Import ListNotations.
Local Open Scope N_scope.

Module M18 := DV.C18.Model.

Definition b32_text (b : bytes) : text := match M18.b32_display b with Ok t => t | _ => [] end.

Lemma index_of_in32 x l : forall i, M18.index_of x l i <> None -> In x l.
Proof.
  induction l as [|a l IH]; intros i H; cbn [M18.index_of] in H; [congruence|].
  destruct (a =? x) eqn:E; [left; apply N.eqb_eq, E | right; eapply IH, H].
Qed.

Lemma val32_plain c : M18.val32 c <> None -> plain_char c = true.
Proof.
  intros H. apply index_of_in32 in H. unfold M18.upper in H.
  destruct ((97 <=? c) && (c <=? 122)) eqn:E.
  - unfold plain_char, mem. cbn [existsb]. lia.
  - assert (A : forallb plain_char M18.alpha32hex = true) by (vm_compute; reflexivity).
    rewrite forallb_forall in A. apply A, H.
Qed.

Lemma forall_plain32 w : Forall (fun c => M18.val32 c <> None) w -> forallb plain_char w = true.
Proof. intros F. induction F as [|c l Hc _ IH]; [reflexivity|]. cbn [forallb]. rewrite (val32_plain c Hc), IH. reflexivity. Qed.

Theorem blob32_roundtrip b : wf_bytes b -> b <> [] ->
  exists w : text, M18.b32_display b = Ok w /\ plain_word w = true /\ M18.b32_convert (@cons text w (@nil text)) = Ok b.
Proof.
  intros W NE. destruct (DV.C18.Props.C18_b32_decode_encode b W) as (w & D & R). exists w. split; [exact D|].
  assert (Wn : w <> []).
  { intros E0. subst w. vm_compute in R. apply NE. inversion R. reflexivity. }
  split.
  - unfold plain_word. destruct (DV.C18.Props.C18_accepts_only_alphabet w b) as (_ & A & _). specialize (A R).
    rewrite (forall_plain32 w A). destruct w; [congruence|reflexivity].
  - destruct (DV.C18.Props.C18_converter_agrees_with_decoder [w]) as (_ & S & _).
    cbn [concat] in S. rewrite app_nil_r, R in S. unfold DV.C18.ProofsConv.same_result in S.
    change (M18.b32_convert (@cons text w (@nil text))) with (M18.b32_convert [w]).
    destruct (M18.b32_convert [w]); try contradiction. subst. reflexivity.
Qed.
