(* C06 tables: properties of the class / type mnemonic tables checked for all
   65536 values (values with a mnemonic by enumeration of the table, all others symbolically). *)
From Coq Require Import NArith ZArith List Bool Lia ZifyN ZifyBool ZifyNat.
From DV Require Import Base.Outcome Base.Bytes C06.Gen C06.Model C06.Proofs.
Import ListNotations.
Local Open Scope N_scope.
Ltac Zify.zify_post_hook ::= Z.div_mod_to_equations.

(* ------------------------------------------------------------------ checking a predicate for all u16 *)

Definition iter_step (f : N -> bool) (s : N * bool) : N * bool :=
  (N.succ (fst s), if f (fst s) then snd s else false).
Definition all_below (f : N -> bool) (n : positive) : bool := snd (Pos.iter (iter_step f) (0, true) n).

Lemma all_below_spec f n : all_below f n = true -> forall b, b < N.pos n -> f b = true.
Proof.
  unfold all_below.
  assert (H : fst (Pos.iter (iter_step f) (0, true) n) = N.pos n /\
              (snd (Pos.iter (iter_step f) (0, true) n) = true -> forall b, b < N.pos n -> f b = true)).
  { induction n as [|n IH] using Pos.peano_ind.
    - cbn. split; [reflexivity|]. intros H b Hb. assert (b = 0) by lia. subst. destruct (f 0); [reflexivity|discriminate].
    - rewrite Pos.iter_succ. destruct IH as [I1 I2].
      destruct (Pos.iter (iter_step f) (0, true) n) as [i ok]. cbn [fst snd iter_step] in *. subst i.
      split; [lia|]. intros H b Hb. destruct (f (N.pos n)) eqn:E; [|discriminate].
      destruct (N.eq_dec b (N.pos n)) as [->|Ne]; [exact E|]. apply I2; [exact H | lia]. }
  intros K. apply (proj2 H K).
Qed.

(* ------------------------------------------------------------------ plain words *)

Definition plain_char (c : N) : bool := (33 <=? c) && (c <=? 126) && negb (mem c [34; 40; 41; 59; 92]).
Definition plain_word (t : text) : bool :=
  negb (match t with [] => true | _ => false end) && forallb plain_char t.

Lemma plain_char_facts c : plain_char c = true ->
  safe_sym false (SChar c) = true /\ into_ascii (SChar c) = Ok c /\ into_octet (SChar c) = Ok c.
Proof.
  unfold plain_char, mem. cbn [existsb]. intros H.
  assert (R : 33 <= c <= 126 /\ c <> 34 /\ c <> 40 /\ c <> 41 /\ c <> 59 /\ c <> 92) by lia.
  destruct R as (R1 & R2 & R3 & R4 & R5 & R6).
  split; [|split].
  - cbn [safe_sym]. unfold mem, word_excl, ascii_limit. cbn [existsb]. lia.
  - cbn [into_ascii]. destruct ((32 <=? c) && (c <=? 126)) eqn:E; [reflexivity|lia].
  - cbn [into_octet]. unfold octet_lo, octet_hi. destruct ((32 <=? c) && (c <=? 126)) eqn:E; [reflexivity|lia].
Qed.

Lemma plain_syms_text t : flat_map sym_text (map SChar t) = t.
Proof. exact (digit_syms_text t). Qed.

Lemma plain_word_good t : plain_word t = true -> good_shape (TWord (map SChar t)) = true.
Proof.
  unfold plain_word. intros H. apply andb_true_iff in H as [H1 H2]. cbn [good_shape].
  apply andb_true_iff. split; [|destruct t; [discriminate|reflexivity]].
  clear H1. induction t as [|c t IH]; [reflexivity|]. cbn [forallb map] in *. apply andb_true_iff in H2 as [H2 H3].
  destruct (plain_char_facts c H2) as [S _]. rewrite S, IH by exact H3. reflexivity.
Qed.

Lemma plain_read_ascii sp t : forallb plain_char t = true -> read_ascii (shape_tok sp (TWord (map SChar t))) = Ok t.
Proof.
  unfold read_ascii. cbn [shape_tok t_syms]. induction t as [|c t IH]; intros H; [reflexivity|].
  cbn [forallb map map_o] in *. apply andb_true_iff in H as [H1 H2].
  destruct (plain_char_facts c H1) as (_ & A & _). rewrite A. cbn [bind]. rewrite IH by exact H2. reflexivity.
Qed.

Lemma plain_word_text t : word_text (map SChar t) = Ok t.
Proof. induction t as [|c t IH]; [reflexivity|]. cbn [map word_text]. rewrite IH. reflexivity. Qed.

Lemma digits_plain t : all_digits t = true -> forallb plain_char t = true.
Proof.
  induction t as [|c t IH]; intros H; [reflexivity|]. cbn [all_digits forallb] in *.
  apply andb_true_iff in H as [H1 H2]. rewrite IH by exact H2. rewrite andb_true_r.
  unfold is_digit in H1. unfold plain_char, mem. cbn [existsb]. lia.
Qed.

Lemma show_dec_plain n : plain_word (show_dec n) = true.
Proof.
  unfold plain_word. rewrite digits_plain by apply show_dec_digits.
  pose proof (show_dec_nonempty n). destruct (show_dec n); [congruence|reflexivity].
Qed.

(* ------------------------------------------------------------------ TTL, class and type tokens *)

Definition opt_is (a : option N) (v : N) : bool := match a with Some x => x =? v | None => false end.
Definition opt_none (a : option N) : bool := match a with None => true | Some _ => false end.

(* class tokens are never taken for a type; class and type mnemonics / CLASSn / TYPEn read back *)
Definition class_ok (c : N) : bool :=
  let s := show_class c in plain_word s && opt_none (parse_rtype s) && opt_is (parse_class s) c.
Definition rtype_ok (t : N) : bool :=
  let s := show_rtype t in plain_word s && opt_is (parse_rtype s) t.

Lemma parse_show_dec max n : n <= max -> parse_uint_str max (show_dec n) = Some n.
Proof.
  intros H. unfold parse_uint_str.
  pose proof (show_dec_digits n) as D. pose proof (show_dec_nonempty n) as NE. pose proof (show_dec_value n) as V.
  destruct (show_dec n) as [|c t] eqn:E; [congruence|].
  assert (C : c <> 43). { cbn [all_digits] in D. apply andb_true_iff in D as [D _]. unfold is_digit in D. lia. }
  assert (M : forall (A : Type) (x y : A), match c with 43 => x | _ => y end = y).
  { intros A x y. destruct c as [|p]; [reflexivity|]. repeat (destruct p as [p|p|]; try reflexivity). congruence. }
  rewrite M, D, V. destruct (n <=? max) eqn:E2; [reflexivity|lia].
Qed.


(* ---- values without a mnemonic: the text is prefix ++ decimal; handled symbolically *)

Lemma eq_nocase_app a : forall m b, eq_nocase m (a ++ b) = true ->
  eq_nocase (firstn (length a) m) a = true /\ eq_nocase (skipn (length a) m) b = true.
Proof.
  induction a as [|x a IH]; intros m b H.
  - cbn. split; [reflexivity | exact H].
  - destruct m as [|y m]; [discriminate|]. cbn [app eq_nocase] in H.
    destruct (upper y =? upper x) eqn:E; [|discriminate].
    destruct (IH m b H) as [H1 H2]. cbn [length firstn skipn eq_nocase]. rewrite E. split; assumption.
Qed.

Lemma eq_nocase_digits x : forall ds, eq_nocase x ds = true -> all_digits ds = true -> all_digits x = true.
Proof.
  induction x as [|c x IH]; intros [|d ds] H D; try discriminate; [reflexivity|].
  cbn [eq_nocase] in H. destruct (upper c =? upper d) eqn:E; [|discriminate].
  cbn [all_digits] in *. apply andb_true_iff in D as [D1 D2]. rewrite (IH ds H D2), andb_true_r.
  unfold upper, is_digit in *. destruct ((97 <=? c) && (c <=? 122)) eqn:E1; destruct ((97 <=? d) && (d <=? 122)) eqn:E2; lia.
Qed.

Definition tbl_free (pre : text) (tbl : list (N * text)) : bool :=
  forallb (fun e => negb (eq_nocase (firstn (length pre) (snd e)) pre && all_digits (skipn (length pre) (snd e)))) tbl.

Lemma no_mnemonic pre ds tbl : tbl_free pre tbl = true -> all_digits ds = true ->
  find_mnemonic tbl (pre ++ ds) = None.
Proof.
  intros F D. induction tbl as [|[v m] tbl IH]; [reflexivity|].
  cbn [tbl_free forallb snd] in F. apply andb_true_iff in F as [F1 F2]. cbn [find_mnemonic].
  destruct (eq_nocase m (pre ++ ds)) eqn:E; [|apply IH, F2].
  destruct (eq_nocase_app pre m ds E) as [E1 E2]. rewrite E1 in F1.
  rewrite (eq_nocase_digits _ _ E2 D) in F1. discriminate.
Qed.

Lemma find_value_in tbl v m : find_value tbl v = Some m -> In v (map fst tbl).
Proof.
  induction tbl as [|[x y] tbl IH]; [discriminate|]. cbn [find_value map fst].
  destruct (x =? v) eqn:E; [intros _; left; apply N.eqb_eq, E | intros H; right; apply IH, H].
Qed.

Lemma prefixed_plain pre v : forallb plain_char pre = true -> plain_word (pre ++ show_dec v) = true.
Proof.
  intros P. unfold plain_word. rewrite forallb_app, P, (digits_plain _ (show_dec_digits v)).
  pose proof (show_dec_nonempty v). destruct pre; [destruct (show_dec v); [congruence|reflexivity] | reflexivity].
Qed.

Lemma prefixed_parse tbl pre v : tbl_free pre tbl = true -> eq_nocase pre pre = true -> v <= 65535 ->
  parse_prefixed tbl pre (pre ++ show_dec v) = Some v.
Proof.
  intros F E V. unfold parse_prefixed. rewrite no_mnemonic by (exact F || apply show_dec_digits).
  rewrite firstn_app, Nat.sub_diag, firstn_all, skipn_app, Nat.sub_diag, skipn_all. cbn [firstn skipn app].
  rewrite app_nil_r, E. rewrite app_length.
  pose proof (show_dec_nonempty v) as NE.
  assert (L : Nat.ltb (length pre) (length pre + length (show_dec v)) = true).
  { apply Nat.ltb_lt. destruct (show_dec v); [congruence|cbn [length]; lia]. }
  rewrite L. cbn [andb]. apply parse_show_dec, V.
Qed.

Lemma class_table : forall c, c < 65536 -> class_ok c = true.
Proof.
  intros c Hc. unfold class_ok. cbv zeta. unfold show_class, show_prefixed.
  destruct (find_value class_mnemonics c) as [m|] eqn:F.
  - (* the finitely many values with a mnemonic *)
    assert (A : forallb class_ok (map fst class_mnemonics) = true) by (vm_compute; reflexivity).
    rewrite forallb_forall in A. specialize (A c (find_value_in _ _ _ F)).
    unfold class_ok in A. cbv zeta in A. unfold show_class, show_prefixed in A. rewrite F in A. exact A.
  - rewrite prefixed_plain by reflexivity.
    unfold parse_class. rewrite prefixed_parse by (reflexivity || lia).
    unfold parse_rtype, parse_prefixed.
    rewrite (no_mnemonic class_prefix (show_dec c) rtype_mnemonics) by (vm_compute; reflexivity) || apply show_dec_digits.
    unfold class_prefix, rtype_prefix. cbn [length app firstn].
    replace (eq_nocase [67; 76; 65; 83] [84; 89; 80; 69]) with false by reflexivity.
    rewrite andb_false_r. cbn [opt_none opt_is andb]. apply N.eqb_refl.
Qed.

Lemma rtype_table : forall t, t < 65536 -> rtype_ok t = true.
Proof.
  intros c Hc. unfold rtype_ok. cbv zeta. unfold show_rtype, show_prefixed.
  destruct (find_value rtype_mnemonics c) as [m|] eqn:F.
  - assert (A : forallb rtype_ok (map fst rtype_mnemonics) = true) by (vm_compute; reflexivity).
    rewrite forallb_forall in A. specialize (A c (find_value_in _ _ _ F)).
    unfold rtype_ok in A. cbv zeta in A. unfold show_rtype, show_prefixed in A. rewrite F in A. exact A.
  - rewrite prefixed_plain by reflexivity.
    unfold parse_rtype. rewrite prefixed_parse by (reflexivity || lia).
    cbn [opt_is andb]. apply N.eqb_refl.
Qed.
