(* C06 tables: properties of the class / type mnemonic tables checked for all
   65536 values (kept in a file of its own: about 45 s of vm_compute). *)
From Coq Require Import NArith ZArith List Bool Lia ZifyN ZifyBool ZifyNat.
From DV Require Import Base.Outcome Base.Bytes C06.Gen C06.Model C06.Proofs.
Import ListNotations.
Local Open Scope N_scope.
Ltac Zify.zify_post_hook ::= Z.div_mod_to_equations.

(* ------------------------------------------------------------------ checking a predicate for all u16 *)

Definition iter_step (f : N -> bool) (s : N * bool) : N * bool :=
  (N.succ (fst s), if f (fst s) then snd s else false).
Definition all_below (f : N -> bool) (n : positive) : bool := snd (Pos.iter (iter_step f) (0, true) n).

Lemma all_below_spec f n : all_below f n = true -> forall b, b < N.pos n -> f b = true.
Proof.
  unfold all_below.
  assert (H : fst (Pos.iter (iter_step f) (0, true) n) = N.pos n /\
              (snd (Pos.iter (iter_step f) (0, true) n) = true -> forall b, b < N.pos n -> f b = true)).
  { induction n as [|n IH] using Pos.peano_ind.
    - cbn. split; [reflexivity|]. intros H b Hb. assert (b = 0) by lia. subst. destruct (f 0); [reflexivity|discriminate].
    - rewrite Pos.iter_succ. destruct IH as [I1 I2].
      destruct (Pos.iter (iter_step f) (0, true) n) as [i ok]. cbn [fst snd iter_step] in *. subst i.
      split; [lia|]. intros H b Hb. destruct (f (N.pos n)) eqn:E; [|discriminate].
      destruct (N.eq_dec b (N.pos n)) as [->|Ne]; [exact E|]. apply I2; [exact H | lia]. }
  intros K. apply (proj2 H K).
Qed.

(* ------------------------------------------------------------------ plain words *)

Definition plain_char (c : N) : bool := (33 <=? c) && (c <=? 126) && negb (mem c [34; 40; 41; 59; 92]).
Definition plain_word (t : text) : bool :=
  negb (match t with [] => true | _ => false end) && forallb plain_char t.

Lemma plain_char_facts c : plain_char c = true ->
  safe_sym false (SChar c) = true /\ into_ascii (SChar c) = Ok c /\ into_octet (SChar c) = Ok c.
Proof.
  unfold plain_char, mem. cbn [existsb]. intros H.
  assert (R : 33 <= c <= 126 /\ c <> 34 /\ c <> 40 /\ c <> 41 /\ c <> 59 /\ c <> 92) by lia.
  destruct R as (R1 & R2 & R3 & R4 & R5 & R6).
  split; [|split].
  - cbn [safe_sym]. unfold mem, word_excl, ascii_limit. cbn [existsb]. lia.
  - cbn [into_ascii]. destruct ((32 <=? c) && (c <=? 126)) eqn:E; [reflexivity|lia].
  - cbn [into_octet]. unfold octet_lo, octet_hi. destruct ((32 <=? c) && (c <=? 126)) eqn:E; [reflexivity|lia].
Qed.

Lemma plain_syms_text t : flat_map sym_text (map SChar t) = t.
Proof. exact (digit_syms_text t). Qed.

Lemma plain_word_good t : plain_word t = true -> good_shape (TWord (map SChar t)) = true.
Proof.
  unfold plain_word. intros H. apply andb_true_iff in H as [H1 H2]. cbn [good_shape].
  apply andb_true_iff. split; [|destruct t; [discriminate|reflexivity]].
  clear H1. induction t as [|c t IH]; [reflexivity|]. cbn [forallb map] in *. apply andb_true_iff in H2 as [H2 H3].
  destruct (plain_char_facts c H2) as [S _]. rewrite S, IH by exact H3. reflexivity.
Qed.

Lemma plain_read_ascii sp t : forallb plain_char t = true -> read_ascii (shape_tok sp (TWord (map SChar t))) = Ok t.
Proof.
  unfold read_ascii. cbn [shape_tok t_syms]. induction t as [|c t IH]; intros H; [reflexivity|].
  cbn [forallb map map_o] in *. apply andb_true_iff in H as [H1 H2].
  destruct (plain_char_facts c H1) as (_ & A & _). rewrite A. cbn [bind]. rewrite IH by exact H2. reflexivity.
Qed.

Lemma plain_word_text t : word_text (map SChar t) = Ok t.
Proof. induction t as [|c t IH]; [reflexivity|]. cbn [map word_text]. rewrite IH. reflexivity. Qed.

Lemma digits_plain t : all_digits t = true -> forallb plain_char t = true.
Proof.
  induction t as [|c t IH]; intros H; [reflexivity|]. cbn [all_digits forallb] in *.
  apply andb_true_iff in H as [H1 H2]. rewrite IH by exact H2. rewrite andb_true_r.
  unfold is_digit in H1. unfold plain_char, mem. cbn [existsb]. lia.
Qed.

Lemma show_dec_plain n : plain_word (show_dec n) = true.
Proof.
  unfold plain_word. rewrite digits_plain by apply show_dec_digits.
  pose proof (show_dec_nonempty n). destruct (show_dec n); [congruence|reflexivity].
Qed.

(* ------------------------------------------------------------------ TTL, class and type tokens *)

Definition opt_is (a : option N) (v : N) : bool := match a with Some x => x =? v | None => false end.
Definition opt_none (a : option N) : bool := match a with None => true | Some _ => false end.

(* class tokens are never taken for a type; class and type mnemonics / CLASSn / TYPEn read back *)
Definition class_ok (c : N) : bool :=
  let s := show_class c in plain_word s && opt_none (parse_rtype s) && opt_is (parse_class s) c.
Definition rtype_ok (t : N) : bool :=
  let s := show_rtype t in plain_word s && opt_is (parse_rtype s) t.

Lemma class_table : forall c, c < 65536 -> class_ok c = true.
Proof. apply all_below_spec. vm_compute. reflexivity. Qed.

Lemma rtype_table : forall t, t < 65536 -> rtype_ok t = true.
Proof. apply all_below_spec. vm_compute. reflexivity. Qed.

