(* C06: SVCB / HTTPS parameters, part 2: port, ohttp, ech (through C18), and the comma lists
   (tls-supported-groups, ipv4hint, mandatory) read back *)
From Coq Require Import NArith ZArith List Bool Lia ZifyN ZifyBool ZifyNat.
From DV Require Import Base.Outcome Base.Bytes C06.Gen C06.Model C06.Proofs C06.Proofs2 C06.Tables C06.B32 C06.Proofs3
                       C06.Blob C06.Svc C06.SvcProofs.
From DV Require C18.Model.
Import ListNotations.
Local Open Scope N_scope.

(* a key followed by a value of plain characters *)
Lemma key_chars_octets k v sp : k < 65536 -> forallb plain_char v = true ->
  good_shape (TWord (key_eq k (chars v))) = true /\
  exists octs, read_octets (shape_tok sp (TWord (key_eq k (chars v)))) = Ok octs /\ octs <> [] /\
    split_key [] octs = Ok (svc_key_name k, v) /\ parse_svc_key (svc_key_name k) = Some k.
Proof.
  intros Hk Pv. pose proof (svc_key_table k Hk) as T. unfold svc_key_ok in T. cbv zeta in T.
  apply andb_true_iff in T as [T T4]. apply andb_true_iff in T as [T T3]. apply andb_true_iff in T as [T1 T2].
  destruct (parse_svc_key (svc_key_name k)) as [x|] eqn:P; [|discriminate]. cbn [opt_is] in T1. apply N.eqb_eq in T1. subst x.
  set (name := svc_key_name k) in *.
  assert (NE : name <> []) by (destruct name; [discriminate | congruence]).
  destruct (split_key_name name [] v T2) as [K1 K2].
  split.
  - cbn [good_shape]. unfold key_eq. fold name. apply andb_true_iff. split.
    + rewrite forallb_app, chars_safe by exact T3. pose proof (chars_safe v Pv) as Sv.
      destruct (chars v); [reflexivity|]. cbn [forallb] in *. rewrite Sv. reflexivity.
    + destruct name; [congruence | reflexivity].
  - unfold read_octets, key_eq. cbn [shape_tok t_syms]. fold name. destruct v as [|c v].
    + cbn [chars map]. rewrite app_nil_r. exists name. rewrite chars_octets by exact T3. repeat split; try assumption.
    + assert (M : match chars (c :: v) with [] => [] | _ => SChar 61 :: chars (c :: v) end = SChar 61 :: chars (c :: v)) by reflexivity.
      rewrite M. clear M. remember (c :: v) as w.
      exists (name ++ 61 :: w). split; [|split; [|split]].
      * apply map_o_app; [apply chars_octets, T3|]. cbn [map_o into_octet].
        replace ((octet_lo <=? 61) && (61 <=? octet_hi)) with true by reflexivity. cbn [bind].
        rewrite chars_octets by exact Pv. reflexivity.
      * destruct name; discriminate.
      * exact K1.
      * reflexivity.
Qed.

Ltac read_key_value G :=
  match goal with
  | H : exists octs, _ |- _ => idtac
  | _ => idtac
  end.

Theorem svc_port_roundtrip n sp : n <= 65535 ->
  good_shape (TWord (show_param (PPort n))) = true /\
  read_param (shape_tok sp (TWord (show_param (PPort n)))) = Ok (PPort n).
Proof.
  intros Hn. assert (Pv : forallb plain_char (show_dec n) = true) by (apply digits_plain, show_dec_digits).
  destruct (key_chars_octets 3 (show_dec n) sp ltac:(lia) Pv) as (G & octs & R & NE & S & P).
  split; [exact G|]. unfold read_param. cbn [show_param]. rewrite R. cbn [bind].
  unfold parse_param. destruct octs; [congruence|]. rewrite S. cbn [bind fst snd]. rewrite P.
  unfold parse_value. cbn [N.eqb Pos.eqb]. pose proof (show_dec_nonempty n) as NEd.
  destruct (show_dec n) eqn:E; [congruence|]. rewrite <- E. rewrite parse_show_dec by exact Hn. reflexivity.
Qed.

Theorem svc_ohttp_roundtrip sp :
  good_shape (TWord (show_param POhttp)) = true /\ read_param (shape_tok sp (TWord (show_param POhttp))) = Ok POhttp.
Proof. destruct sp; split; vm_compute; reflexivity. Qed.

(* ech: the Base64 text of C18's encoder, read by C18's converter *)
Theorem svc_ech_roundtrip b sp : wf_bytes b -> b <> [] ->
  good_shape (TWord (show_param (PEch b))) = true /\
  read_param (shape_tok sp (TWord (show_param (PEch b)))) = Ok (PEch b).
Proof.
  intros W NEb. destruct (blob64_roundtrip b W) as (w & D & Pw & C). cbn [wf_field] in Pw.
  assert (Wn : w <> []).
  { intros ->. cbn in C. vm_compute in C. apply NEb. congruence. }
  cbn [show_param]. rewrite D.
  destruct (key_chars_octets 5 w sp ltac:(lia) Pw) as (G & octs & R & NE & S & P).
  split; [exact G|]. unfold read_param. rewrite R. cbn [bind].
  unfold parse_param. destruct octs; [congruence|]. rewrite S. cbn [bind fst snd]. rewrite P.
  unfold parse_value. cbn [N.eqb Pos.eqb].
  destruct w as [|c w]; [congruence|]. remember (c :: w) as v.
  assert (F : forallb (fun c => (33 <=? c) && (c <? 127) && negb (mem c [34; 59; 92])) v = true).
  { clear - Pw. induction v as [|x v IH]; [reflexivity|]. cbn [forallb] in *. apply andb_true_iff in Pw as [P1 P2].
    rewrite IH by exact P2. rewrite andb_true_r. unfold plain_char, mem in *. cbn [existsb] in *. lia. }
  subst v. rewrite F.
  change (DV.C18.Model.b64_convert [c :: w]) with (Blob.M18.b64_convert [c :: w]). cbv iota in C. rewrite C. reflexivity.
Qed.

(* ---- comma lists *)

Definition item_ok (w : text) : Prop := w <> [] /\ ~ In 44 w /\ ~ In 92 w.

Lemma split_items_word w : forall cur rest, ~ In 44 w -> ~ In 92 w ->
  split_items cur (w ++ rest) = split_items (rev w ++ cur) rest.
Proof.
  induction w as [|c w IH]; intros cur rest H1 H2; [reflexivity|].
  cbn [app split_items].
  destruct (c =? 44) eqn:E1; [exfalso; apply H1; left; apply N.eqb_eq in E1; congruence|].
  destruct (c =? 92) eqn:E2; [exfalso; apply H2; left; apply N.eqb_eq in E2; congruence|].
  rewrite IH; [| intros K; apply H1; right; exact K | intros K; apply H2; right; exact K]. cbn [rev]. rewrite <- app_assoc. reflexivity.
Qed.

Lemma split_items_join ws : ws <> [] -> Forall item_ok ws -> split_items [] (join_comma ws) = Ok ws.
Proof.
  induction ws as [|w ws IH]; intros NE F; [congruence|].
  inversion F as [|? ? (Wn & W1 & W2) F']; subst.
  destruct ws as [|w2 ws].
  - cbn [join_comma]. replace (split_items [] w) with (split_items [] (w ++ [])) by (rewrite app_nil_r; reflexivity).
    rewrite split_items_word by assumption.
    cbn [split_items]. rewrite app_nil_r, rev_involutive. reflexivity.
  - change (join_comma (w :: w2 :: ws)) with (w ++ 44 :: join_comma (w2 :: ws)).
    rewrite split_items_word by assumption. cbn [split_items N.eqb Pos.eqb]. rewrite app_nil_r, rev_involutive.
    specialize (IH ltac:(discriminate) F').
    destruct (join_comma (w2 :: ws)) eqn:J.
    + exfalso. inversion F' as [|? ? (W2n & _) _]; subst. cbn [join_comma] in J.
      destruct ws; [congruence | destruct w2; [congruence | discriminate]].
    + rewrite IH. reflexivity.
Qed.

Lemma value_items_join ws : ws <> [] -> Forall item_ok ws -> value_items (join_comma ws) = Ok ws.
Proof.
  intros NE F. unfold value_items. pose proof (split_items_join ws NE F) as S.
  destruct (join_comma ws) eqn:J; [|exact S].
  exfalso. destruct ws as [|w ws]; [congruence|]. inversion F as [|? ? (Wn & _) _]; subst.
  cbn [join_comma] in J. destruct ws; [congruence | destruct w; [congruence | discriminate]].
Qed.

Lemma all_digits_in l : all_digits l = true -> forall c, In c l -> is_digit c = true.
Proof.
  induction l as [|x l IH]; intros D c H; [contradiction|]. cbn [all_digits] in D. apply andb_true_iff in D as [D1 D2].
  destruct H as [->|H]; [exact D1 | apply IH; assumption].
Qed.

Lemma digits_item n : item_ok (show_dec n).
Proof.
  split; [apply show_dec_nonempty|].
  pose proof (all_digits_in _ (show_dec_digits n)) as A.
  split; intros K; apply A in K; vm_compute in K; discriminate.
Qed.

Lemma plain_join ws : Forall (fun w => forallb plain_char w = true) ws -> forallb plain_char (join_comma ws) = true.
Proof.
  induction ws as [|w ws IH]; intros F; [reflexivity|]. inversion F as [|? ? Pw F']; subst.
  destruct ws as [|w2 ws]; [exact Pw|].
  change (join_comma (w :: w2 :: ws)) with (w ++ 44 :: join_comma (w2 :: ws)).
  rewrite forallb_app, Pw. cbn [forallb]. rewrite IH by exact F'. reflexivity.
Qed.

Lemma opt_list_map {A} (f : text -> option A) (g : A -> text) l :
  (forall x, In x l -> f (g x) = Some x) -> opt_list (map f (map g l)) = Some l.
Proof.
  induction l as [|x l IH]; intros H; [reflexivity|]. cbn [map opt_list fold_right].
  fold (opt_list (map f (map g l))). rewrite IH by (intros y Hy; apply H; right; exact Hy).
  rewrite (H x (or_introl eq_refl)). reflexivity.
Qed.

(* the common part of the list-valued keys *)
Lemma svc_list_read k ws sp : k < 65536 -> ws <> [] -> Forall item_ok ws ->
  Forall (fun w => forallb plain_char w = true) ws ->
  good_shape (TWord (key_eq k (chars (join_comma ws)))) = true /\
  read_param (shape_tok sp (TWord (key_eq k (chars (join_comma ws)))))
  = (match parse_value k (join_comma ws) with x => x end) /\ value_items (join_comma ws) = Ok ws.
Proof.
  intros Hk NE F P. destruct (key_chars_octets k (join_comma ws) sp Hk (plain_join ws P)) as (G & octs & R & NEo & S & Pk).
  split; [exact G|]. split; [|apply value_items_join; assumption].
  unfold read_param. rewrite R. cbn [bind]. unfold parse_param. destruct octs; [congruence|].
  rewrite S. cbn [bind fst snd]. rewrite Pk. reflexivity.
Qed.

Theorem svc_groups_roundtrip l sp : l <> [] -> Forall (fun n => n <= 65535) l -> no_dups l = true ->
  good_shape (TWord (show_param (PGroups l))) = true /\
  read_param (shape_tok sp (TWord (show_param (PGroups l)))) = Ok (PGroups l).
Proof.
  intros NE B ND.
  assert (E : show_param (PGroups l) = key_eq 9 (chars (join_comma (map show_dec l)))) by (destruct l; [congruence | reflexivity]).
  rewrite E.
  destruct (svc_list_read 9 (map show_dec l) sp ltac:(lia)) as (G & R & V).
  - destruct l; [congruence | discriminate].
  - rewrite Forall_map. apply Forall_forall. intros n _. apply digits_item.
  - rewrite Forall_map. apply Forall_forall. intros n _. apply digits_plain, show_dec_digits.
  - split; [exact G|]. rewrite R. unfold parse_value. cbn [N.eqb Pos.eqb]. rewrite V. cbn [bind].
    rewrite opt_list_map.
    + rewrite ND. destruct l; [congruence | reflexivity].
    + intros n Hn. apply parse_show_dec. rewrite Forall_forall in B. apply B, Hn.
Qed.

Lemma ip4_item a : wf_ip4 a -> item_ok (show_ip4 a) /\ forallb plain_char (show_ip4 a) = true.
Proof.
  intros W. pose proof (show_ip4_plain a W) as P. unfold plain_word in P. apply andb_true_iff in P as [P1 P2].
  split; [|exact P2]. split; [destruct (show_ip4 a); [discriminate | congruence]|].
  destruct W as [Wb L]. destruct a as [|a1 [|a2 [|a3 [|a4 [|]]]]]; try discriminate.
  assert (A : forall n c, In c (show_dec n) -> c <> 44 /\ c <> 92).
  { intros n c K. destruct (digits_item n) as (_ & D1 & D2). split; intros ->; contradiction. }
  unfold show_ip4. split; intros K;
    repeat (apply in_app_or in K as [K|K]; [apply A in K; destruct K; congruence|]; destruct K as [K|K]; [discriminate|]);
    apply A in K; destruct K; congruence.
Qed.

Theorem svc_ipv4hint_roundtrip l sp : l <> [] -> Forall wf_ip4 l ->
  good_shape (TWord (show_param (PIp4hint l))) = true /\
  read_param (shape_tok sp (TWord (show_param (PIp4hint l)))) = Ok (PIp4hint l).
Proof.
  intros NE W.
  assert (E : show_param (PIp4hint l) = key_eq 4 (chars (join_comma (map show_ip4 l)))) by (destruct l; [congruence | reflexivity]).
  rewrite E.
  destruct (svc_list_read 4 (map show_ip4 l) sp ltac:(lia)) as (G & R & V).
  - destruct l; [congruence | discriminate].
  - rewrite Forall_map. eapply Forall_impl; [|exact W]. intros a Wa. apply ip4_item, Wa.
  - rewrite Forall_map. eapply Forall_impl; [|exact W]. intros a Wa. apply ip4_item, Wa.
  - split; [exact G|]. rewrite R. unfold parse_value. cbn [N.eqb Pos.eqb]. rewrite V. cbn [bind].
    rewrite opt_list_map.
    + destruct l; [congruence | reflexivity].
    + intros a Ha. apply parse_show_ip4. rewrite Forall_forall in W. apply W, Ha.
Qed.

(* ---- mandatory: key names in ascending order (the reader collects them in a BTreeSet) *)
Fixpoint asc (l : list N) : bool :=
  match l with x :: (y :: _) as r => (x <? y) && asc r | _ => true end.

Lemma asc_lower x l : asc (x :: l) = true -> Forall (fun y => x < y) l.
Proof.
  revert x. induction l as [|y l IH]; intros x H; [constructor|].
  cbn [asc] in H. apply andb_true_iff in H as [H1 H2]. constructor; [lia|].
  eapply Forall_impl; [|apply IH, H2]. intros z Hz. cbv beta in Hz. lia.
Qed.

Lemma asc_sort l : asc l = true -> sort_keys l = l.
Proof.
  induction l as [|x l IH]; intros H; [reflexivity|].
  unfold sort_keys. cbn [fold_right]. fold (sort_keys l).
  assert (Hl : asc l = true) by (destruct l as [|y l]; [reflexivity | cbn [asc] in H; apply andb_true_iff in H as [_ H]; exact H]).
  rewrite IH by exact Hl. destruct l as [|y l]; [reflexivity|].
  cbn [asc] in H. apply andb_true_iff in H as [H1 _]. cbn [insert_sorted]. destruct (x <=? y) eqn:E; [reflexivity|lia].
Qed.

Lemma asc_no_dups l : asc l = true -> no_dups l = true.
Proof.
  induction l as [|x l IH]; intros H; [reflexivity|]. cbn [no_dups].
  assert (Hl : asc l = true) by (destruct l as [|y l]; [reflexivity | cbn [asc] in H; apply andb_true_iff in H as [_ H]; exact H]).
  rewrite IH by exact Hl. rewrite andb_true_r. apply negb_true_iff.
  pose proof (asc_lower x l H) as F. unfold mem. destruct (existsb (N.eqb x) l) eqn:E; [|reflexivity].
  apply existsb_exists in E as (y & Hy & Exy). apply N.eqb_eq in Exy. subst y.
  rewrite Forall_forall in F. specialize (F x Hy). lia.
Qed.

Lemma key_name_item k : k < 65536 ->
  item_ok (svc_key_name k) /\ forallb plain_char (svc_key_name k) = true /\ parse_svc_key (svc_key_name k) = Some k.
Proof.
  intros Hk. pose proof (svc_key_table k Hk) as T. unfold svc_key_ok in T. cbv zeta in T.
  apply andb_true_iff in T as [T T4]. apply andb_true_iff in T as [T T3]. apply andb_true_iff in T as [T1 T2].
  destruct (parse_svc_key (svc_key_name k)) as [x|]; [|discriminate]. cbn [opt_is] in T1. apply N.eqb_eq in T1. subst x.
  split; [|split; [exact T3 | reflexivity]].
  split; [destruct (svc_key_name k); [discriminate | congruence]|].
  assert (A : forall c, In c (svc_key_name k) -> allowed_key_char c = true) by (rewrite forallb_forall in T2; exact T2).
  split; intros K; apply A in K; vm_compute in K; discriminate.
Qed.

Theorem svc_mandatory_roundtrip ks sp : ks <> [] -> Forall (fun k => 1 <= k < 65536) ks -> asc ks = true ->
  good_shape (TWord (show_param (PMandatory ks))) = true /\
  read_param (shape_tok sp (TWord (show_param (PMandatory ks)))) = Ok (PMandatory ks).
Proof.
  intros NE B A.
  assert (E : show_param (PMandatory ks) = key_eq 0 (chars (join_comma (map svc_key_name ks)))) by (destruct ks; [congruence | reflexivity]).
  rewrite E.
  destruct (svc_list_read 0 (map svc_key_name ks) sp ltac:(lia)) as (G & R & V).
  - destruct ks; [congruence | discriminate].
  - rewrite Forall_map. eapply Forall_impl; [|exact B]. intros k Hk. cbv beta in Hk. apply key_name_item. lia.
  - rewrite Forall_map. eapply Forall_impl; [|exact B]. intros k Hk. cbv beta in Hk. apply key_name_item. lia.
  - split; [exact G|]. rewrite R. unfold parse_value. cbn [N.eqb]. rewrite V. cbn [bind].
    rewrite opt_list_map.
    + assert (M0 : mem 0 ks = false).
      { unfold mem. destruct (existsb (N.eqb 0) ks) eqn:E0; [|reflexivity].
        apply existsb_exists in E0 as (y & Hy & Ey). apply N.eqb_eq in Ey. subst y.
        rewrite Forall_forall in B. specialize (B 0 Hy). lia. }
      rewrite M0, (asc_no_dups ks A), (asc_sort ks A). destruct ks; [congruence | reflexivity].
    + intros k Hk. rewrite Forall_forall in B. specialize (B k Hk). apply key_name_item. lia.
Qed.

Example ex_mandatory : read_param (mk_tok false true (show_param (PMandatory [1; 3; 700]))) = Ok (PMandatory [1; 3; 700]).
Proof. vm_compute. reflexivity. Qed.

(* ipv6hint, given the round trip of the IPv6 text (proved per group and for the zero run in
   Proofs4, T2-tied as a whole; the hypothesis stays a visible premise) *)
Definition ip6_text_ok (g : list N) : Prop :=
  parse_ip6 (show_ip6 g) = Some g /\ item_ok (show_ip6 g) /\ forallb plain_char (show_ip6 g) = true.

Theorem svc_ipv6hint_roundtrip l sp : l <> [] -> Forall ip6_text_ok l ->
  good_shape (TWord (show_param (PIp6hint l))) = true /\
  read_param (shape_tok sp (TWord (show_param (PIp6hint l)))) = Ok (PIp6hint l).
Proof.
  intros NE W.
  assert (E : show_param (PIp6hint l) = key_eq 6 (chars (join_comma (map show_ip6 l)))) by (destruct l; [congruence | reflexivity]).
  rewrite E.
  destruct (svc_list_read 6 (map show_ip6 l) sp ltac:(lia)) as (G & R & V).
  - destruct l; [congruence | discriminate].
  - rewrite Forall_map. eapply Forall_impl; [|exact W]. intros a Wa. apply Wa.
  - rewrite Forall_map. eapply Forall_impl; [|exact W]. intros a Wa. apply Wa.
  - split; [exact G|]. rewrite R. unfold parse_value. cbn [N.eqb Pos.eqb]. rewrite V. cbn [bind].
    rewrite opt_list_map.
    + destruct l; [congruence | reflexivity].
    + intros a Ha. rewrite Forall_forall in W. apply W, Ha.
Qed.

Example ex_ip6_text_ok : ip6_text_ok [8193; 3512; 0; 0; 0; 0; 0; 1].
Proof. split; [vm_compute; reflexivity|]. split; [|vm_compute; reflexivity].
  split; [vm_compute; discriminate|]. split; vm_compute; intuition discriminate. Qed.

Example ex_port : read_param (mk_tok false true (show_param (PPort 65535))) = Ok (PPort 65535).
Proof. vm_compute. reflexivity. Qed.
Example ex_groups : read_param (mk_tok false true (show_param (PGroups [29; 23; 65535]))) = Ok (PGroups [29; 23; 65535]).
Proof. vm_compute. reflexivity. Qed.
Example ex_ech : read_param (mk_tok false true (show_param (PEch [0; 255; 7]))) = Ok (PEch [0; 255; 7]).
Proof. vm_compute. reflexivity. Qed.
Example ex_ip4hint : read_param (mk_tok false true (show_param (PIp4hint [[1; 2; 3; 4]; [0; 0; 0; 0]]))) = Ok (PIp4hint [[1; 2; 3; 4]; [0; 0; 0; 0]]).
Proof. vm_compute. reflexivity. Qed.
