(* C03 -- names scanned from zone-file text: every name that the model of
   EntryScanner::scan_name / convert_label (C07/Model.v, transcribed from
   src/zonefile/inplace.rs and tied to it by C07's T1/T2) returns is the wire
   form of a valid absolute name, whatever the buffer contents, token kind,
   escapes and origin.  This file only imports C07's model; the octet-level
   invariant of the in-place conversion is proved here. *)
From Coq Require Import NArith List Bool Arith Lia ZArith.
From Coq Require Import ZifyN ZifyBool ZifyNat.
From DV Require Import Base.Outcome Base.Bytes Base.Names C07.Gen C07.Model.
Import ListNotations.
Ltac Zify.zify_post_hook ::= Z.div_mod_to_equations.

(* ---------------------------------------------------------------- list facts *)
Lemma wire_rel_snoc' cl c : wire_rel (cl ++ [c]) = wire_rel cl ++ N.of_nat (length c) :: c.
Proof. rewrite wire_rel_app. f_equal. unfold wire_rel. cbn [map concat]. rewrite app_nil_r. reflexivity. Qed.

Lemma wire_len_snoc' cl c : wire_len (cl ++ [c]) = (wire_len cl + S (length c))%nat.
Proof. rewrite wire_len_app. cbn [wire_len]. lia. Qed.

Lemma skipn_add {A} a b (l : list A) : skipn (a + b) l = skipn b (skipn a l).
Proof. revert l; induction a as [|a IH]; intros l; [reflexivity|]. destruct l; [cbn [Nat.add skipn]; rewrite skipn_nil; reflexivity|apply IH]. Qed.

Lemma set_byte_skipn : forall a l k v l', set_byte l (a + k) v = Some l' ->
  exists m', set_byte (skipn a l) k v = Some m' /\ skipn a l' = m' /\ firstn a l' = firstn a l.
Proof.
  induction a as [|a IH]; intros l k v l' H; [exists l'; auto|].
  destruct l as [|x t]; [discriminate|]. cbn [Nat.add set_byte] in H.
  destruct (set_byte t (a + k) v) as [t'|] eqn:E; [|discriminate]. injection H as <-.
  destruct (IH t k v t' E) as (m' & H1 & H2 & H3). exists m'. cbn [skipn firstn]. rewrite H3. auto.
Qed.

Lemma set_byte_app : forall (c tl : list N) v m', set_byte (c ++ tl) (length c) v = Some m' ->
  exists y tl', tl = y :: tl' /\ m' = c ++ v :: tl'.
Proof.
  induction c as [|x c IH]; intros tl v m' H; cbn [app length set_byte] in H.
  - destruct tl as [|y tl']; [discriminate|]. injection H as <-. eauto.
  - destruct (set_byte (c ++ tl) (length c) v) as [t'|] eqn:E; [|discriminate]. injection H as <-.
    destruct (IH tl v t' E) as (y & tl' & -> & ->). eauto.
Qed.

Lemma set_byte_wf : forall l i v l', wf_bytes l -> (v < 256)%N -> set_byte l i v = Some l' -> wf_bytes l'.
Proof.
  induction l as [|x t IH]; intros i v l' Hw Hv H; [discriminate|]. inversion Hw; subst.
  destruct i as [|j]; cbn [set_byte] in H.
  - injection H as <-. constructor; assumption.
  - destruct (set_byte t j v) as [t'|] eqn:E; [|discriminate]. injection H as <-. constructor; [assumption|exact (IH j v t' H3 Hv E)].
Qed.

Lemma wf_skipn k (l : bytes) : wf_bytes l -> wf_bytes (skipn k l).
Proof. intros H. rewrite <- (firstn_skipn k l) in H. apply wf_bytes_app in H. apply H. Qed.

Lemma wf_firstn k (l : bytes) : wf_bytes l -> wf_bytes (firstn k l).
Proof. intros H. rewrite <- (firstn_skipn k l) in H. apply wf_bytes_app in H. apply H. Qed.

(* ---------------------------------------------------------------- readers keep the buffer *)
Lemma next_symbol_buf s r s' : next_symbol s = Ok (r, s') ->
  buf s' = buf s /\ (forall sym, r = Some sym -> exists n, sym_at (rest s) = SymOk sym n).
Proof.
  unfold next_symbol, next_symbol_gen. destruct (scat s).
  - intros E; injection E as <- <-. split; [reflexivity|discriminate].
  - destruct (sym_at (rest s)) as [| |sym n] eqn:Es; try discriminate.
    destruct (negb (is_word_char sym)); intros E; injection E as <- <-; (split; [reflexivity|]).
    + discriminate.
    + intros sym' E; injection E as <-. eauto.
  - destruct (sym_at (rest s)) as [| |sym n] eqn:Es; try discriminate.
    destruct (sym_eqb sym (SChar 34)); intros E; injection E as <- <-; (split; [reflexivity|]).
    + discriminate.
    + intros sym' E; injection E as <-. eauto.
  - intros E; injection E as <- <-. split; [reflexivity|discriminate].
Qed.

Lemma next_ascii_buf s r s' : next_ascii_symbol s = (r, s') ->
  buf s' = buf s /\
  (forall ch, r = Some ch -> start s' = S (start s) /\ (ch < 256)%N /\ exists t, rest s = ch :: t).
Proof.
  unfold next_ascii_symbol, asc_lo, asc_hi.
  destruct (scat s); try (intros E; injection E as <- <-; split; [reflexivity|discriminate]);
    (destruct (rest s) as [|ch t] eqn:Er; [intros E; injection E as <- <-; split; [reflexivity|discriminate]|]).
  - destruct ((ch <? 33)%N || (127 <? ch)%N || memN ch asc_unq_excluded) eqn:C;
      intros E; injection E as <- <-; (split; [reflexivity|]); [discriminate|].
    intros ch' E; injection E as <-. cbn [advance start]. rewrite !orb_false_iff in C.
    destruct C as [[C1 C2] _]. apply N.ltb_ge in C2. split; [lia|]. split; [lia|eauto].
  - destruct (ch =? asc_q_end)%N; [intros E; injection E as <- <-; split; [reflexivity|discriminate]|].
    destruct ((ch <? 33)%N || (127 <? ch)%N || memN ch asc_q_excluded) eqn:C;
      intros E; injection E as <- <-; (split; [reflexivity|]); [discriminate|].
    intros ch' E; injection E as <-. cbn [advance start]. rewrite !orb_false_iff in C.
    destruct C as [[C1 C2] _]. apply N.ltb_ge in C2. split; [lia|]. split; [lia|eauto].
Qed.

Lemma next_item_buf s s' : next_item s = Ok s' -> buf s' = buf s.
Proof.
  unfold next_item. destruct (is_token (scat s)); [discriminate|].
  destruct (ni_loop _ _ _ _ _); [discriminate|]. intros E; injection E as <-. reflexivity.
Qed.

Lemma store_spec' s i v s' : store s i v = Ok s' -> set_byte (buf s) i v = Some (buf s').
Proof. unfold store. destruct (set_byte (buf s) i v); [|discriminate]. intros E; injection E as <-. reflexivity. Qed.

(* the octet a symbol stands for is an octet *)
Lemma into_octet_byte l sym n b : wf_bytes l -> sym_at l = SymOk sym n -> into_octet sym = Some b -> (b < 256)%N.
Proof.
  intros Hw Hs Ho. destruct sym as [c|c|c]; cbn [into_octet] in Ho.
  - destruct ((c <? 128)%N && _ && _) eqn:C; [|discriminate]. injection Ho as <-.
    rewrite !andb_true_iff in C. destruct C as [[C _] _]. apply N.ltb_lt in C. lia.
  - injection Ho as <-. unfold sym_at, mkchar in Hs.
    destruct l as [|c1 t]; [discriminate|]. inversion Hw as [|? ? _ Ht]; subst.
    repeat match type of Hs with
    | (if ?x then _ else _) = _ => destruct x
    | match ?x with _ => _ end = _ => destruct x eqn:?
    end; try discriminate; try (injection Hs as <- _; inversion Ht; subst; assumption).
  - injection Ho as <-. unfold sym_at, mkchar in Hs.
    destruct l as [|c1 t]; [discriminate|].
    repeat match type of Hs with
    | (if (?v <=? 255)%N then _ else _) = _ => destruct (N.leb_spec v 255)
    | (if ?x then _ else _) = _ => destruct x
    | match ?x with _ => _ end = _ => destruct x eqn:?
    end; try discriminate; try (injection Hs as <- _; lia).
Qed.

(* ---------------------------------------------------------------- one label *)
(* the content octets written so far follow the (still unwritten) length octet *)
Definition inlabel (s : sbuf) (st w : nat) (c : bytes) : Prop :=
  (exists tl, skipn (S st) (buf s) = c ++ tl) /\ w = (S st + length c)%nat /\
  (length c <= 63)%nat /\ wf_bytes c /\ wf_bytes (buf s).

(* result of convert_label relative to the octets before the label *)
Definition label_done (P : bytes) (st : nat) (x : lblres * sbuf * nat) : Prop :=
  let '(res, s', w') := x in
  wf_bytes (buf s') /\
  match res with
  | LNone => w' = st /\ firstn st (buf s') = P
  | _ => exists c, firstn w' (buf s') = P ++ N.of_nat (length c) :: c /\ w' = (S st + length c)%nat /\
                   length P = st /\ (length c <= 63)%nat /\ wf_bytes c /\ (res = LEnd -> (1 <= length c)%nat)
  end.

Lemma close_label s st w c v s' : inlabel s st w c -> v = len_octet w st ->
  store s st v = Ok s' ->
  wf_bytes (buf s') /\
  firstn w (buf s') = firstn st (buf s) ++ N.of_nat (length c) :: c /\ length (firstn st (buf s)) = st.
Proof.
  intros ([tl Hs] & Hw & Hl & Hc & Hb) Hv H. apply store_spec' in H.
  assert (Hv' : v = N.of_nat (length c)).
  { subst v w. unfold len_octet. replace (S st + length c - st - 1)%nat with (length c) by lia.
    apply N.mod_small. lia. }
  replace st with (st + 0)%nat in H by lia.
  destruct (set_byte_skipn st (buf s) 0 v (buf s') H) as (m' & H1 & H2 & H3).
  destruct (skipn st (buf s)) as [|y R] eqn:Ek; [discriminate|]. cbn [set_byte] in H1. injection H1 as <-.
  assert (HR : R = c ++ tl).
  { replace (S st) with (st + 1)%nat in Hs by lia. rewrite skipn_add, Ek in Hs. exact Hs. }
  assert (Hlen : length (firstn st (buf s)) = st).
  { apply firstn_length_le. assert (length (skipn st (buf s)) = S (length R)) by (rewrite Ek; reflexivity).
    rewrite skipn_length in H0. lia. }
  split; [|split; [|exact Hlen]].
  - eapply set_byte_wf; [exact Hb| |rewrite Nat.add_0_r in H; exact H]. rewrite Hv'. lia.
  - rewrite <- (firstn_skipn st (buf s')), H2, H3, HR.
    rewrite firstn_app, Hlen. rewrite (firstn_all2 (firstn st (buf s))) by lia. f_equal.
    subst w. replace (S st + length c - st)%nat with (S (length c)) by lia. cbn [firstn]. rewrite Hv'. f_equal.
    apply take_app_length.
Qed.

Lemma prefix_of_inlabel s st w c : inlabel s st w c -> True.
Proof. trivial. Qed.

Lemma sym_loop_spec : forall fuel s st w c res s' w', inlabel s st w c ->
  label_sym_loop fuel s st w (S st + label_latest) = Ok (res, s', w') ->
  label_done (firstn st (buf s)) st (res, s', w').
Proof.
  induction fuel as [|f IH]; intros s st w c res s' w' HI H; [discriminate|]. cbn [label_sym_loop] in H.
  destruct (next_symbol s) as [[r s1]|e|p|] eqn:En; try discriminate. cbn [bind] in H.
  destruct (next_symbol_buf _ _ _ En) as [Hb1 Hsym].
  assert (HI1 : inlabel s1 st w c) by (unfold inlabel in *; rewrite Hb1; exact HI).
  pose proof HI as ([tl Hs] & Hw & Hl & Hc & Hb).
  destruct r as [sym|].
  - destruct (sym_eqb sym (SChar 46)).
    + destruct (store s1 st (len_octet w st)) as [s2|e|p|] eqn:Est; try discriminate. cbn [bind] in H.
      injection H as <- <- <-.
      destruct (close_label _ _ _ _ _ _ HI1 eq_refl Est) as (W & F & L). rewrite Hb1 in F, L.
      split; [exact W|]. exists c. repeat split; auto. discriminate.
    + destruct (into_octet sym) as [b|] eqn:Eo; [|discriminate].
      destruct (store s1 w b) as [s2|e|p|] eqn:Est; try discriminate. cbn [bind] in H.
      unfold label_latest, label_latest_ge, too_long in H.
      destruct (Nat.leb_spec (S st + 64) (S w)) as [Hlong|Hok]; [discriminate|].
      destruct (Hsym sym eq_refl) as [n Hat].
      assert (Hbyte : (b < 256)%N) by (eapply into_octet_byte; [apply wf_skipn; exact Hb|exact Hat|exact Eo]).
      apply store_spec' in Est. rewrite Hb1 in Est.
      assert (Hidx : w = (S st + length c)%nat) by exact Hw. rewrite Hidx in Est.
      destruct (set_byte_skipn (S st) (buf s) (length c) b (buf s2) Est) as (m' & M1 & M2 & M3).
      rewrite Hs in M1. destruct (set_byte_app c tl b m' M1) as (y & tl' & -> & ->).
      assert (HI2 : inlabel s2 st (S w) (c ++ [b])).
      { split; [exists tl'; rewrite M2, <- app_assoc; reflexivity|]. rewrite app_length. cbn [length].
        split; [lia|]. split; [lia|]. split; [apply wf_bytes_app; split; [exact Hc|repeat constructor; exact Hbyte]|].
        eapply set_byte_wf; [exact Hb|exact Hbyte|exact Est]. }
      specialize (IH s2 st (S w) (c ++ [b]) res s' w' HI2 H).
      assert (Hp : firstn st (buf s2) = firstn st (buf s)).
      { pose proof M3 as M3'. apply (f_equal (firstn st)) in M3'. rewrite !firstn_firstn in M3'.
        replace (Nat.min st (S st)) with st in M3' by lia. exact M3'. }
      rewrite Hp in IH. exact IH.
  - destruct (Nat.ltb_spec (st + 1) w) as [Hnz|Hz].
    + destruct (store s1 st (len_octet w st)) as [s2|e|p|] eqn:Est; try discriminate. cbn [bind] in H.
      injection H as <- <- <-.
      destruct (close_label _ _ _ _ _ _ HI1 eq_refl Est) as (W & F & L). rewrite Hb1 in F, L.
      split; [exact W|]. exists c. repeat split; auto. intros _. lia.
    + injection H as <- <- <-. split; [rewrite Hb1; exact Hb|]. rewrite Hb1. auto.
Qed.

Lemma ascii_loop_spec : forall fuel s st w c r s' w', inlabel s st w c -> w = start s ->
  label_ascii_loop fuel s st w (S st + label_latest) = Ok (r, s', w') ->
  match r with
  | Some res => label_done (firstn st (buf s)) st (res, s', w') /\ res = LDot
  | None => exists c', inlabel s' st w' c' /\ buf s' = buf s
  end.
Proof.
  induction fuel as [|f IH]; intros s st w c r s' w' HI Hws H; [discriminate|]. cbn [label_ascii_loop] in H.
  destruct (next_ascii_symbol s) as [a s1] eqn:Ea.
  destruct (next_ascii_buf _ _ _ Ea) as [Hb1 Hch].
  assert (HI1 : inlabel s1 st w c) by (unfold inlabel in *; rewrite Hb1; exact HI).
  pose proof HI as ([tl Hs] & Hw & Hl & Hc & Hb).
  destruct a as [ch|].
  - destruct (Hch ch eq_refl) as (Hst & Hbyte & t & Hrest).
    destruct (ch =? 46)%N.
    + destruct (store s1 st (len_octet w st)) as [s2|e|p|] eqn:Est; try discriminate. cbn [bind] in H.
      injection H as <- <- <-.
      destruct (close_label _ _ _ _ _ _ HI1 eq_refl Est) as (W & F & L). rewrite Hb1 in F, L.
      split; [|reflexivity]. split; [exact W|]. exists c. repeat split; auto. discriminate.
    + unfold label_latest, label_latest_ge, too_long in H.
      destruct (Nat.leb_spec (S st + 64) (S w)) as [Hlong|Hok]; [discriminate|].
      assert (HI2 : inlabel s1 st (S w) (c ++ [ch])).
      { unfold rest in Hrest. rewrite <- Hws, Hw in Hrest.
        rewrite skipn_add, Hs in Hrest. pose proof (drop_app_length c tl) as D. unfold drop in D. rewrite D in Hrest. subst tl.
        split; [exists t; rewrite Hb1, Hs, <- app_assoc; reflexivity|]. rewrite app_length. cbn [length].
        split; [lia|]. split; [lia|]. split; [apply wf_bytes_app; split; [exact Hc|repeat constructor; exact Hbyte]|].
        rewrite Hb1. exact Hb. }
      specialize (IH s1 st (S w) (c ++ [ch]) r s' w' HI2 ltac:(lia) H). rewrite Hb1 in IH.
      destruct r; [exact IH|]. destruct IH as (c' & I' & B'). exists c'. split; [exact I'|]. rewrite B'. reflexivity.
  - injection H as <- <- <-. exists c. split; [exact HI1|exact Hb1].
Qed.

Theorem convert_label_spec s st res s' w' : wf_bytes (buf s) ->
  convert_label s st = Ok (res, s', w') -> label_done (firstn st (buf s)) st (res, s', w').
Proof.
  intros Hb H. unfold convert_label in H.
  assert (HI : inlabel s st (S st) []).
  { split; [exists (skipn (S st) (buf s)); reflexivity|]. cbn [length]. repeat split; auto; try lia. constructor. }
  destruct (Nat.eqb_spec (S st) (start s)) as [He|Hne].
  - destruct (label_ascii_loop (fuel_of s) s st (S st) (S st + label_latest)) as [[[r s1] w1]|e|p|] eqn:Ea; try discriminate.
    cbn [bind] in H. pose proof (ascii_loop_spec _ _ _ _ _ _ _ _ HI He Ea) as A.
    destruct r as [res0|].
    + injection H as <- <- <-. apply A.
    + destruct A as (c' & I' & B'). pose proof (sym_loop_spec _ _ _ _ _ _ _ _ I' H) as S'. rewrite B' in S'. exact S'.
  - eapply sym_loop_spec; eauto.
Qed.

(* ---------------------------------------------------------------- the name *)
Definition origin_ok (origin : option (list N)) : Prop :=
  forall o, origin = Some o -> exists m, valid_abs m /\ o = wire_abs m.

Lemma chain_valid rel o n done m : chain rel o = Ok n -> rel = wire_rel done -> Forall valid_label done ->
  o = wire_abs m -> valid_abs m -> exists k, valid_abs k /\ n = wire_abs k.
Proof.
  unfold chain, chain_max. intros H -> Hd -> [Hm _].
  destruct (Nat.ltb_spec 255 (length (wire_rel done) + length (wire_abs m))); [discriminate|]. injection H as <-.
  rewrite wire_rel_length, wire_abs_length in *. exists (done ++ m). split.
  - split; [apply Forall_app; split; assumption|]. rewrite wire_len_app. lia.
  - unfold wire_abs. rewrite wire_rel_app, app_assoc. reflexivity.
Qed.

Lemma name_loop_spec : forall fuel origin s w done n s', origin_ok origin ->
  wf_bytes (buf s) -> firstn w (buf s) = wire_rel done -> length (wire_rel done) = w -> Forall valid_label done ->
  name_loop fuel origin s w = Ok (n, s') -> exists k, valid_abs k /\ n = wire_abs k.
Proof.
  induction fuel as [|f IH]; intros origin s w done n s' Ho Hb Hp Hlen Hd H; [discriminate|]. cbn [name_loop] in H.
  destruct (convert_label s w) as [[[res s1] w1]|e|p|] eqn:Ec; try discriminate. cbn [bind] in H.
  pose proof (convert_label_spec _ _ _ _ _ Hb Ec) as [Hb1 L]. rewrite Hp in L.
  destruct res.
  - (* LNone *)
    destruct L as [-> Hp1].
    destruct (next_item s1) as [s2|e|p|] eqn:En; try discriminate. cbn [bind] in H.
    pose proof (next_item_buf _ _ En) as Hb2.
    destruct (Nat.eqb_spec w 0) as [Hz|Hnz].
    + unfold get_origin in H. destruct origin as [o|]; [|discriminate]. cbn [bind] in H.
      destruct (chain [] o) as [n0|e|p|] eqn:Ech; try discriminate. cbn [bind] in H. injection H as <- _.
      destruct (Ho o eq_refl) as (m & Hm & ->).
      eapply (chain_valid [] _ _ [] m); eauto.
    + unfold split_to in H. destruct (Nat.leb w (start s2)); [|discriminate]. cbn [bind fst snd] in H.
      destruct (chain (firstn w (buf s2)) [0%N]) as [n0|e|p|] eqn:Ech; try discriminate. cbn [bind] in H. injection H as <- _.
      rewrite Hb2, Hp1 in Ech.
      eapply (chain_valid _ _ _ done []); eauto. split; [constructor|cbn; lia].
  - (* LDot *)
    destruct L as (c & F & Hw1 & HP & Hc63 & Hcw & _).
    destruct (Nat.eqb_spec w1 1) as [H1|Hn1].
    + destruct (next_symbol s1) as [[r s2]|e|p|]; try discriminate. cbn [bind] in H.
      destruct r; [discriminate|]. destruct (next_item s2); try discriminate. cbn [bind] in H. injection H as <- _.
      exists []. split; [split; [constructor|cbn; lia]|reflexivity].
    + unfold name_rejects_empty_label in H. cbn [andb] in H.
      destruct (Nat.eqb_spec w1 (S w)) as [He|Hne]; [discriminate|].
      unfold name_max_ge, name_max in H. destruct (Nat.ltb_spec 254 w1); [discriminate|].
      assert (Hc1 : (1 <= length c)%nat) by lia.
      apply (IH origin s1 w1 (done ++ [c]) n s' Ho Hb1).
      * rewrite wire_rel_snoc'. exact F.
      * rewrite wire_rel_snoc', app_length. cbn [length]. lia.
      * apply Forall_app. split; [exact Hd|]. constructor; [|constructor]. split; [lia|exact Hcw].
      * exact H.
  - (* LEnd *)
    destruct L as (c & F & Hw1 & HP & Hc63 & Hcw & Hc1). specialize (Hc1 eq_refl).
    destruct (next_item s1) as [s2|e|p|] eqn:En; try discriminate. cbn [bind] in H.
    pose proof (next_item_buf _ _ En) as Hb2.
    unfold split_to in H. destruct (Nat.leb w1 (start s2)); [|discriminate]. cbn [bind fst snd] in H.
    unfold get_origin in H. destruct origin as [o|]; [|discriminate]. cbn [bind] in H.
    destruct (chain (firstn w1 (buf s2)) o) as [n0|e|p|] eqn:Ech; try discriminate. cbn [bind] in H. injection H as <- _.
    destruct (Ho o eq_refl) as (m & Hm & ->). rewrite Hb2, F, <- wire_rel_snoc' in Ech.
    eapply (chain_valid _ _ _ (done ++ [c]) m); eauto.
    apply Forall_app. split; [exact Hd|]. constructor; [|constructor]. split; [lia|exact Hcw].
Qed.

Lemma skip_at_false s s1 : skip_at_token s = Ok (false, s1) -> s1 = s.
Proof.
  unfold skip_at_token. destruct (peek_symbol s) as [[c| |]|]; try (intros E; injection E as <-; reflexivity).
  repeat match goal with
  | |- match ?x with _ => _ end = _ -> _ => destruct x
  | |- (if ?x then _ else _) = _ -> _ => destruct x
  | |- bind ?x _ = _ -> _ => destruct x; cbn [bind]
  end; try discriminate; try (intros E; injection E as <-; reflexivity).
Qed.

(* every name the scanner returns is the wire form of a valid absolute name *)
Theorem scan_name_valid origin s n s' : origin_ok origin -> wf_bytes (buf s) ->
  scan_name origin s = Ok (n, s') -> exists k, valid_abs k /\ n = wire_abs k.
Proof.
  intros Ho Hb H. unfold scan_name in H.
  destruct (require_token s); try discriminate. cbn [bind] in H.
  destruct (if scan_name_handles_at then skip_at_token s else Ok (false, s)) as [[b s1]|e|p|] eqn:Es; try discriminate.
  cbn [bind fst snd] in H. destruct b.
  - unfold get_origin in H. destruct origin as [o|]; [|discriminate]. cbn [bind] in H.
    destruct (chain [] o) as [n0|e|p|] eqn:Ech; try discriminate. cbn [bind] in H. injection H as <- _.
    destruct (Ho o eq_refl) as (m & Hm & ->). eapply (chain_valid [] _ _ [] m); eauto.
  - assert (s1 = s).
    { destruct scan_name_handles_at; [apply skip_at_false; exact Es|injection Es as <-; reflexivity]. }
    subst s1. destruct (start s) as [|k]; [discriminate|].
    unfold trim_to in H. destruct (Nat.leb k (start s)); [|discriminate]. cbn [bind] in H.
    apply (name_loop_spec _ origin _ 0 [] n s' Ho) in H;
      [exact H|cbn [buf]; apply wf_skipn; exact Hb|reflexivity|reflexivity|constructor].
Qed.
